"""C17 (part hydro) — admissibility of Noh, Noh2, Noh2Cog and the Coggeshall solvers; compressive shocks."""
from obligations import obl
from harness import o_hydroalg as H

M = 'EPV.Props.C17.Hydro'
F = 'EPV.Props.C17.Finding'       # one module per defect: a repair breaks only its own module
T = 'EPV.C17.'
_o = [
    obl('C17.noh.admissible', M, [T + 'noh_admissible', T + 'noh_sound_speed_real'], ['Noh'], H.signs_oracle['Noh']),
    obl('C17.noh.shock', M, [T + 'noh_shock_is_coded', T + 'noh_shock_speed', T + 'noh_shock_compressive'], ['Noh'], H.noh_shock),
    obl('C17.noh2.admissible', M, [T + 'noh2_admissible'], ['Noh2'], H.signs_oracle['Noh2']),
    obl('C17.noh2cog.admissible', M, [T + 'noh2cog_admissible'], ['Noh2Cog'], H.signs_oracle['Noh2Cog']),
    obl('C17.cog19.shock', M, [T + 'cog19_shock_is_coded', T + 'cog19_shock_speed', T + 'cog19_shock_compressive'], ['Cog19'],
        H.cog19_shock),
    obl('C17.cog3.admissible', F + 'GammaBelowOne', [T + 'cog3_density_pos'], ['Cog3'], H.signs_oracle['Cog3']),
    obl('C17.cog4.admissible', F + 'GammaBelowOne', [T + 'cog4_admissible_partial'], ['Cog4'], H.signs_oracle['Cog4']),
    obl('C17.cog5.admissible', F + 'GammaBelowOne', [T + 'cog5_admissible_partial'], ['Cog5'], H.signs_oracle['Cog5']),
    obl('C17.cog12.admissible', F + 'GammaBelowOne', [T + 'cog12_admissible_partial'], ['Cog12'], H.signs_oracle['Cog12']),
]
for n in (1, 2, 6, 8, 9, 10, 11, 18, 19, 21):
    _o.append(obl('C17.cog%d.admissible' % n, M, [T + 'cog%d_admissible' % n], ['Cog%d' % n], H.signs_oracle['Cog%d' % n]))
# NOTE (lead): C17's quantifier lists Noh, Sedov, Guderley, Riemann, EHEP, Mader, SDRZ, EP piston, Su-Olson and the
# radiative shocks.  The Coggeshall theorems registered here are extra coverage; the Coggeshall *defects* found while
# proving them (Cog21 expansion shock, Cog17 T<=0, e<0 for the gamma<1 solutions 3/4/5/12) are outside that quantifier and
# are documented in DESIGN.md, not reported by this check.
PROP = dict(
    groups=['hydro', 'hydroinit'],
    obligations=_o,
    corr_models=['Noh', 'Noh2', 'Noh2Cog'] + ['Cog%d' % n for n in (1, 2, 3, 4, 5, 6, 8, 9, 10, 11, 12, 17, 18, 19, 21)],
    corr_n=40,
    oracle_budget=0.4,
    scope='Hydro part: rho > 0 and T, p, e >= 0 on every leaf of the generated models of Noh, Noh2, Noh2Cog, Cog 1, 2, 6, 8, '
          '9, 10, 11, 18, 19, 21 under explicit admissibility hypotheses (positive coefficients, r > 0, gamma > 1, time domain '
          'from outcome = ok; sign conditions on b, alpha, beta spelled out where the amplitude depends on them); Noh and '
          'Cog19 shocks compressive with the shock speed defined as the derivative of the coded position.  Findings: Cog21 '
          '(expansion shock for t > 0), Cog17 (T <= 0 on its whole advised range), Cog3/4/5/12 (gamma < 1: e < 0 whenever '
          'T > 0).  Not covered: Cog 7, 13, 14, 16, 20.',
)
