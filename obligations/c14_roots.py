"""C14 — which roots of the Robin transcendental equation the solver uses (real code)"""
from obligations import obl
from harness import o_heat

PROP = dict(
    groups=[],
    obligations=[obl('C14.rod.flux_robin_roots', oracle=o_heat.flux_robin_roots)],
    corr_models=[],
    scope='Flux at x = 0 with a convective condition at x = L: the theorems take each mu_n as *a* root of mu tan(mu) = a; that the N '
          'values are the first N positive roots, each once (completeness of the series, hence the initial data), is checked on the '
          'real constructor: mu_k in (k pi, k pi + pi/2) for a in [0.2, 14]; for a >= 17 the unchanged code already returns a '
          'duplicate root (known finding).',
)
