"""C02 (part: black-box Noh) — residual F = 0 <=> the three jump conditions; returned fields conserve across the coded shock."""
from obligations import obl
from harness import o_c16 as H

T = 'EPV.C02.'


def _t(*names):
    return [T + n for n in names]


def _res_models(res, what='F'):
    from py2lean.targets import t_eos
    return [m for m, i in t_eos.RES_MODELS.items() if i['res'] == res and i['what'] == what and i['eos'] == 'abs']


PROP = dict(
    groups=['eos'],
    obligations=[
        obl('C02.bbnoh.residual', 'EPV.Props.C02.BBNohResidual',
            _t(*['%sS%d_%s' % (k, m, w) for k in ('energy', 'pressure') for m in (0, 1, 2) for w in ('jump_defects', 'zero_iff_jump')]),
            _res_models('Energy') + _res_models('Pressure'), H.residual_vs_jump(),
            tie=H.residual_ties('Energy', whats=('F',), eos=('abs',))),
        obl('C02.bbnoh.residual.simplified', 'EPV.Props.C02.BBNohSimplified',
            _t('simplified_core', 'sEnergyS0_zero_iff_jump', 'sPressureS0_zero_iff_jump'),
            _res_models('SEnergy') + _res_models('SPressure'),
            tie=H.residual_ties('SPressure', whats=('F',), eos=('abs',))),
        obl('C02.bbnoh.tolerance', 'EPV.Props.C02.BBNohTolerance',
            _t('abs_le_of_norm3_le', 'defects_le', 'pressureS0_jump_within_tolerance', 'pressureS1_jump_within_tolerance',
               'pressureS2_jump_within_tolerance'), _res_models('Pressure')),
        obl('C02.bbnoh.fields', 'EPV.Props.C02.BBNohFields',
            _t('bbnoh_ideal_leaves', 'bbnoh_ideal_branches', 'bbnoh_ideal_states_at_shock', 'bbnoh_ideal_shockJump',
               'bbnoh_ideal_shockJump_planar', 'bbnoh_ideal_shockJump_cylindrical', 'bbnoh_ideal_shockJump_spherical'),
            ['BBNohIdeal'] + _res_models('Pressure'), H.bb_jump(), tie=H.bb_tie('BBNohIdeal', 'Ideal')),
        # FINDING: jump conditions solved for initial_conditions, unshocked state assembled from rho0/u0/p0 attributes
        obl('C02.bbnoh.initial_state', 'EPV.Props.C02.FindingBBNohInitialState',
            _t('initial_state_witness_is_root', 'bbnoh_initial_state_finding'), ['BBNohIdeal', 'ResPressureAbsS0_res'],
            H.bb_initial_state(), finding=True),
    ],
    corr_models=[],
    corr_n=60,
    oracle_budget=0.35,
    scope='Black-box Noh: for every EOS object (abstract), every symmetry and admissible initial state, each of the four residual '
          'functions vanishes iff the shocked state at rest and the incoming gas (density rho0 (1-u0/D)^m at the front) satisfy '
          'the three Rankine-Hugoniot conditions (2-unknown residuals: iff they do for some D != 0); exact identities between '
          'the components of F and the flux defects give the jump conditions to tolerance from |F| <= tol.  Returned fields '
          '(ideal gas): the coded shock position x2 t has speed x2 and the two branch expressions at the shock are the states '
          'of the specification, so an exact root gives ShockJump.  Not covered: that the Newton result is a root with D > 0 '
          '(C16 findings), and consistency of initial_conditions with rho0/u0/p0 (finding).',
)
