"""C11 — Sedov energy and mass integrals; undisturbed state ahead of the shock"""
from obligations import obl
from harness import o_sedov

M = 'EPV.Props.C11.Sedov'
PROP = dict(
    groups=['sedov'],
    obligations=[
        obl('C11.sedov.energy', M, ['EPV.C11.sedov_energy', 'EPV.C11.r2_rpow_xg2', 'EPV.C11.shock_leaves'],
            models=['SedovShock'], oracle=o_sedov.energy_all, tie=o_sedov.tie_assemble),
        obl('C11.sedov.mass', M, ['EPV.C11.sedov_mass_iff_partial'], models=['SedovShock'], oracle=o_sedov.mass_all),
        obl('C11.sedov.ambient', 'EPV.Props.C11.SedovAmbient',
            ['EPV.C11.sedov_ambient_sing', 'EPV.C11.sedov_ambient_std', 'EPV.C11.sedov_ambient_vac',
             'EPV.C11.runSing_c1', 'EPV.C11.runStd_c1', 'EPV.C11.runVac_c1', 'EPV.C11.runStd_c3'],
            models=['SedovRunSing', 'SedovRunStd', 'SedovRunVac', 'SedovShock'], oracle=o_sedov.ambient),
        obl('C11.sedov.integrands', 'EPV.Props.C11.SedovIntegrands',
            ['EPV.C11.%s_%s' % (m, t) for m in ('SedovFuncs', 'SedovFuncsO2', 'SedovFuncsO3')
             for t in ('leaves', 'dlamdv', 'dlamdv_tree', 'efun01_pullback', 'efun02_pullback')],
            models=['SedovFuncs', 'SedovFuncsO2', 'SedovFuncsO3'], tie=o_sedov.tie_models),
    ],
    corr_models=[],
    corr_n=20, oracle_budget=1.2,
    scope='Sedov (all geometries, solution types): PROVED for arbitrary similarity functions f, g, h that the energy behind the '
          'shock equals eblast at every t > 0 when alpha is what __init__ computes from the two energy integrals (generated '
          'SedovShock model + interval-integral change of variables); the mass statement is reduced to the integral identity '
          'int g lambda^(k-1) = (gamma-1)/((gamma+1)(k-omega)) of the traced g (remaining obligation, checked numerically); the '
          'state ahead of the shock is the initial state on every leaf of the traced _run (all three solution types); efun01/efun02 '
          'are the lambda-space energy integrands pulled back along lambda(v) and dlamdv = dlambda/dv (all singularity branches). '
          'Modelled, not verified: the root finding v(lambda), the quadrature, the 3001-node grid and the linear interpolation back '
          'to the user points (hand model EPV.Model.Sedov, tied on every run).',
)
