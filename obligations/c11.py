"""C11 — Sedov energy and mass integrals; undisturbed state ahead of the shock"""
from obligations import obl
from harness import o_sedov

FUNCS = ('SedovFuncs', 'SedovFuncsO2', 'SedovFuncsO3')
PROP = dict(
    groups=['sedov'],
    obligations=[
        obl('C11.sedov.energy', 'EPV.Props.C11.Sedov', ['EPV.C11.sedov_energy', 'EPV.C11.sedov_energy_singular'],
            models=['SedovShock'], oracle=[o_sedov.energy_all, o_sedov.two_times], tie=o_sedov.tie_assemble),
        obl('C11.sedov.mass', 'EPV.Props.C11.Sedov', ['EPV.C11.sedov_mass_iff_partial', 'EPV.C11.sedov_mass_singular'],
            models=['SedovShock', 'SedovSingular'],
            oracle=o_sedov.mass_all),
        obl('C11.sedov.ambient', 'EPV.Props.C11.SedovAmbient',
            ['EPV.C11.sedov_ambient_sing', 'EPV.C11.sedov_ambient_std', 'EPV.C11.sedov_ambient_vac'],
            models=['SedovRunSing', 'SedovRunStd', 'SedovRunVac', 'SedovShock'], oracle=o_sedov.ambient),
        obl('C11.sedov.integrands', 'EPV.Props.C11.SedovIntegrands',
            ['EPV.C11.%s_%s' % (m, t) for m in FUNCS
             for t in ('efun01_pullback', 'efun02_pullback', 'eval_of_substitution_partial')] + ['EPV.C11.eval_constants'],
            models=list(FUNCS), tie=o_sedov.tie_models),
        obl('C11.sedov.alpha', 'EPV.Props.C11.SedovAlpha',
            ['EPV.C11.init_alpha_code', 'EPV.C11.init_singular_closed'],
            models=['SedovInit']),
        obl('C11.sedov.singular', 'EPV.Lemmas.SedovSingular',
            ['EPV.Sedov.singular_integrals', 'EPV.Sedov.singular_closed_forms', 'EPV.Sedov.singular_mass_integral',
             'EPV.Sedov.singular_integrable', 'EPV.Sedov.singular_leaves'],
            models=['SedovSingular']),
    ],
    corr_models=[],
    corr_n=20, oracle_budget=1.2,
    scope='Sedov (all geometries, solution types): PROVED for arbitrary similarity functions f, g, h that the energy behind the '
          'shock equals eblast at every t > 0 when alpha is what __init__ computes from the two energy integrals (generated '
          'SedovShock model + interval-integral change of variables); the mass statement is reduced to the integral identity '
          'int g lambda^(k-1) = (gamma-1)/((gamma+1)(k-omega)) of the traced g (remaining obligation, checked numerically) and '
          'proved in full, like the energy statement, for the exactly singular solution type (closed-form f, g, h, alpha); the '
          'state ahead of the shock is the initial state on every leaf of the traced _run (all three solution types); efun01/efun02 '
          'are the lambda-space energy integrands pulled back along lambda(v) (all singularity branches; the improper change of '
          'variables itself is a hypothesis); alpha of the traced constructor is alphaCode of the two quadratures, and the '
          'singular closed forms are the integrals of the singular similarity functions. '
          'Modelled, not verified: the root finding v(lambda), the quadrature, the 3001-node grid and the linear interpolation back '
          'to the user points (hand model EPV.Model.Sedov, tied on every run).',
)
