"""C03 — thermodynamic fields satisfy the declared equation of state"""
from obligations import obl
from py2lean.targets import COG
from harness import o_c03

_o = []
for n in COG:
    _o.append(obl('C03.cog%d.eos' % n, 'EPV.Props.C03.Cog',
                  ['EPV.C03.cog%d_pressure' % n, 'EPV.C03.cog%d_energy' % n], ['Cog%d' % n], o_c03.cog[n]))
_o += [
    obl('C03.noh.eos', 'EPV.Props.C03.Noh', ['EPV.C03.noh_eos'], ['Noh'], o_c03.noh),
    obl('C03.noh2.eos', 'EPV.Props.C03.Noh', ['EPV.C03.noh2_eos'], ['Noh2'], o_c03.noh2),
    obl('C03.noh2cog.eos', 'EPV.Props.C03.Noh', ['EPV.C03.noh2cog_pressure', 'EPV.C03.noh2cog_eos'], ['Noh2Cog'],
        o_c03.noh2cog),
]
PROP = dict(
    groups=['hydro'],
    obligations=_o,
    corr_models=['Cog%d' % n for n in COG] + ['Noh', 'Noh2', 'Noh2Cog'],
    corr_n=60,
    oracle_budget=0.4,
    scope='EOS identities proved on the generated models of Noh, Noh2, Noh2Cog and the twenty Coggeshall solvers '
          '(every leaf of the traced decision tree, all real parameters).',
)
