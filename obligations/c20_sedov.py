"""C20 (Sedov share) — invalid parameters rejected with ValueError"""
from obligations import obl
from harness import o_sedov

PROP = dict(
    groups=['sedov'],
    obligations=[
        obl('C20.sedov.accepts', 'EPV.Props.C20.Sedov',
            ['EPV.C20.sedov_accepts_iff', 'EPV.C20.sedov_rejects_with_valueerror', 'EPV.C20.sedov_documented_accepted',
             'EPV.C20.sedov_accepted_undocumented_iff', 'EPV.C20.sedov_documented_no_zero_division'],
            models=['SedovInit'], oracle=o_sedov.accepts, tie=o_sedov.tie_models),
        # the full-strength statement accepts <-> documented is false: negations at witnesses, reproduced on the real code
        obl('C20.sedov.rejects', 'EPV.Props.C20.FindingSedov',
            ['EPV.C20.finding_sedov_gamma_one', 'EPV.C20.finding_sedov_rho0_zero', 'EPV.C20.finding_sedov_eblast_zero',
             'EPV.C20.finding_sedov_accepts_not_documented', 'EPV.C20.finding_sedov_singular_omega'],
            models=['SedovInit'], oracle=o_sedov.reject, finding=True),
    ],
    corr_models=[], corr_n=20, oracle_budget=1.2,
    scope='Sedov constructor: accepted iff the six checks pass; every rejection is a ValueError; documented-valid problems are '
          'accepted; accepted-but-undocumented inputs are exactly gamma = 1, rho0 = 0, E = 0 (findings), and the exactly singular '
          'omega divides by zero (finding).',
)
