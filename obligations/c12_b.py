"""C12 — radiative shocks, strengthening (work package rad2):
(W1) the nondimensional constants of the problem classes are pinned to their PHYSICAL definitions and the flux / jump
     oracles are done in physical units over non-default rho0, Tref, Cv, gamma, sigS != 0 with unequal exponents;
(W2) one solver object asked at many times: run-effects theorems on the traced wrappers + sequence-of-times oracle."""
import json
import os

from obligations import obl
from harness import o_rad2

MC = 'EPV.Props.C12.Constants'
MR = 'EPV.Props.C12.RunEffects'
MP = 'EPV.Props.C12.PhysicalUnits'
T = 'EPV.C12.'


def _names(prefix, kinds, what):
    return [T + '%s_%s_%s' % (prefix, k, w) for k in kinds for w in what]


obligations = [
    # ---- W1 (a): every derived nondimensional constant = its physical definition, at the three levels (problem class,
    #      profile object read by the ODE right-hand sides, public attribute)
    obl('C12.radshock.constants', MC,
        _names('const', ['ed', 'ned', 'lm', 'fld', 'sn'], ['sound', 'P0', 'C0', 'copies'])
        + _names('const', ['ed', 'ned', 'lm'], ['constants']),
        models=['RadConstED', 'RadConstNED', 'RadConstLM', 'RadConstFLD', 'RadConstSn'], tie=o_rad2.const_tie,
        oracle=o_rad2.rs_units_constants),
    # ---- the nondimensional cross sections: power laws with their own exponents, sigma_t = sigma_a + sigma_s
    obl('C12.radshock.cross_sections', MC,
        _names('const', ['ed', 'ned', 'lm', 'sn'], ['sigma']) + [T + 'const_ed_density']
        + _names('const', ['ned', 'lm', 'sn'], ['state']) + [T + 'ned_momentum_const'],
        models=['RadConstED', 'RadConstNED', 'RadConstLM', 'RadConstSn'], oracle=o_rad2.rs_units_energy),
    # ---- W1 (b): physical fluxes of the public attributes = rho0 c_s^2, rho0 c_s^3 x nondimensional fluxes with the
    #      SPECIFIED P0, C0; equilibrium-diffusion solver end to end
    obl('C12.radshock.physical_units', MP,
        _names('attr', ['ed', 'ned', 'sn'], ['phys_momentum', 'phys_energy'])
        + [T + 'ed_node', T + 'ed_sigma_form', T + 'ed_phys_momentum', T + 'ed_phys_energy'],
        models=['RadConstED', 'RadAttrED', 'RadAttrNED', 'RadAttrSn', 'RadED'], oracle=o_rad2.rs_units_fluxes),
    # ---- nodes of a nED profile: rad_flux is the energy-flux defect (every cross section); nED_Solver end to end
    obl('C12.radshock.ned_nodes', MP,
        _names('lm', [''], []) + [T + n for n in (
            'lm_fields', 'lm_Fr', 'lm_dPdx', 'lm_energy_node', 'lm_reference_upstream',
            'ned_fields', 'ned_Fr', 'ned_dPdx', 'ned_energy_node', 'ned_reference_upstream', 'ned_sigma_form',
            'ned_phys_momentum', 'ned_phys_energy_precursor')],
        models=['RadNED', 'RadNEDLM', 'RadConstNED', 'RadAttrNED'], tie=o_rad2.node_tie, oracle=o_rad2.rs_units_fluxes),
    # ---- W2: `_run` reads only what setup_solver bound and touches nothing the object holds
    obl('C12.radshock.run_effects', MR,
        [T + n for n in ('run_rows', 'run_reads_setup', 'run_reads_profile', 'run_reads_held', 'run_writes_nothing_held',
                         'run_touches_nothing', 'run_single_path', 'run_reads_untouched', 'run_history_independent')],
        models=['RadRunEffects'], oracle=o_rad2.rs_history),
]

# FINDING (reported by work package rad2): the flux-limited closures FLD_LP / FLD_2 / FLD_poly do not conserve the total
# energy flux.  The obligation is active once the lead has listed it in known_findings.json (entry proposed in
# tools/dev/c12_rad2.known_findings.json); it then prints a KNOWN-FINDING line from fixed witnesses on every run.
_ROOT = os.path.dirname(os.path.dirname(os.path.abspath(__file__)))
try:
    _listed = any(k.get('obligation') == 'C12.radshock.fld_energy_flux'
                  for k in json.load(open(os.path.join(_ROOT, 'known_findings.json'))))
except Exception:
    _listed = False
if _listed:
    obligations.append(obl('C12.radshock.fld_energy_flux', 'EPV.Props.C12.FindingFLD',
                           [T + n for n in ('fld_fields', 'fld_Fr', 'fld_dPdx', 'fld_energy_node', 'fld_reference_beta0',
                                            'Finding_fld_energy')],
                           models=['RadFLD'], tie=o_rad2.fld_tie, oracle=o_rad2.rs_fld_energy, finding=True))

PROP = dict(
    groups=['radshock', 'radshock2'],
    obligations=obligations,
    corr_models=[],
    oracle_budget=2.0,
    scope='Strengthening (rad2).  Proved: for ED_Solver, nED_Solver (nED, LM_nED, flux-limited) and Sn_Solver the real constructor chain '
          'computes c_s = sqrt(gamma (gamma-1) Cv Tref), P0 = a_r Tref^4 / (rho0 c_s^2), C0 = c / c_s with the physical a_r, c, hands '
          'the user\'s M0, gamma, sigma_a, epsilon sigma_s and the four exponents to the ODE right-hand sides in their own slots, and the '
          'cross sections of fnctn_ED / fnctn_nED are power laws with their own exponents; the physical fluxes of the public '
          'attributes are rho0 c_s^2, rho0 c_s^3 times the nondimensional fluxes with the SPECIFIED constants (ED: end to end, every '
          'temperature of the profile); total momentum flux at every node of a nED / Sn profile; the traced _run of the four wrappers '
          'reads only attributes bound by setup_solver / declared parameters and touches nothing (history independence).  Oracles: '
          'physical-unit fluxes, far field and jump conditions from the public attributes with an independent a_r over non-default '
          'rho0, Tref, Cv, gamma, sigS != 0 with unequal exponents, all closure variants; one object at a sequence of times, no '
          'attribute or array changed by a call.  ATOMS: ODE interiors of nED / Sn / FLD (energy flux: oracle only; flux-limited '
          'closures: known finding), the observed read / write sets are those of the traced call.',
)
