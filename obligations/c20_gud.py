"""C20 — Guderley and RMTV: rejection of invalid problems, no non-finite output in the domain (work package `guderley`)"""
from obligations import obl
from harness import o_guderley as G

M = 'EPV.Props.C20.Guderley'
T = 'EPV.C20.'
PROP = dict(
    groups=['guderley'],
    obligations=[
        obl('C20.guderley.restrictions', M,
            [T + 'guderley_init_accepts_everything', T + 'eexp_outcome', T + 'eexp_range', T + 'eexp_geometry1_valueerror'],
            models=['GudInit', 'GudEexp'], oracle=G.gud_reject, tie=G.tie_models),
        obl('C20.guderley.welldefined', M, [T + "state_total_real", T + 'state_welldefined', T + 'state_leaves'],
            models=['GudState'], oracle=G.gud_finite),
        obl('C20.guderley.focus_time', M, [T + 'finding_guderley_focus_time'], models=['GudX', 'GudState'],
            oracle=G.gud_focus, finding=True),
        obl('C20.rmtv.restrictions', M, [T + 'rmtv_init_accepts_everything', T + 'finding_rmtv_restrictions_not_enforced', T + 'rmtv_derivs_outcome',
             T + 'rmtv_derivs_leaves'],
            models=['RmtvInit', 'RmtvDerivs'], oracle=G.rmtv_restrictions, finding=True),
        obl('C20.rmtv.integration_status', None, [], models=[], oracle=G.rmtv_integration, finding=True),
    ],
    corr_models=[],
    oracle_budget=0.4,
    scope='Guderley: the constructor validates nothing; eexp (first call) returns iff n in {2,3}, 1.00001 < gamma < 9999 and '
          '1.05 a0 < 1 and raises ValueError otherwise (geometry=1: loud ValueError at the first call, documented as not a '
          'violation); state has no zero denominator for r > 0, x != 0.  Findings: t = 0.750024322 returns inf; RMTV enforces '
          'none of its documented restrictions (a <= 0, b >= 1) and ignores a failed ODE integration (finite garbage inside '
          'the shock for gamma != 1.25 with the default eigenvalue beta0).',
)
