"""C02 (part: closed-form hydro shocks) — Rankine–Hugoniot at the shocks of Noh, Coggeshall 19, 20, 21."""
from obligations import obl
from harness import o_hydrojumps as H

_M = 'EPV.Props.C02.Hydro'
_F = 'EPV.Props.C02.FindingCog20'


def _jump(s):
    return ['EPV.C02.%s_leaves' % s, 'EPV.C02.%s_shock_coded' % s, 'EPV.C02.%s_shock_hasDerivAt' % s,
            'EPV.C02.%s_jump' % s, 'EPV.C02.%s_conserves' % s]


PROP = dict(
    groups=['hydro'],
    obligations=[
        obl('C02.spec.contact', 'EPV.Spec.Jump',
            ['EPV.Spec.Contact.rankineHugoniot', 'EPV.Spec.sideLimits_of_piecewise', 'EPV.Spec.ConservesAcross.of_shockJump']),
        obl('C02.noh.jump', _M, _jump('noh') + ['EPV.C02.noh_shock_pos'], ['Noh'], H.rh_noh),
        obl('C02.cog19.jump', _M, _jump('cog19') + ['EPV.C02.cog19_shock_pos'], ['Cog19'], H.rh_cog19),
        obl('C02.cog21.jump', _M, _jump('cog21') + ['EPV.C02.cog21_not_nan'], ['Cog21'], H.rh_cog21),
        # FINDING: the coded shock position of Cog20 violates the jump conditions (negation proved at
        # concrete witnesses; the region formulas are right: they satisfy the jumps at the Cog19 position)
        obl('C02.cog20.jump', _F,
            ['EPV.C02.cog20_leaves', 'EPV.C02.cog20_shock_coded', 'EPV.C02.cog20_shock_hasDerivAt',
             'EPV.C02.cog20_jump_at_cog19_position', 'EPV.C02.cog20_jump_fails', 'EPV.C02.cog20_no_speed_fits',
             'EPV.C02.cog20_jump_fails_neg'],
            ['Cog20'], H.rh_cog20, finding=True),
    ],
    corr_models=['Noh', 'Cog19', 'Cog20', 'Cog21'],
    corr_n=60,
    oracle_budget=0.4,
    scope='Hydro shocks (Noh, Cog19, Cog21): the traced path condition is r < X(t); X is differentiated in t '
          '(HasDerivAt) and that derivative is the speed D; the two leaf expressions at r = X(t) satisfy the mass, '
          'momentum and total-energy jump conditions for every real geometry exponent, gamma > 1, u0 < 0, t > 0 '
          '(Cog21: t > 0, Gamma*T0 != 0), and the tree-level returned fields have these values as one-sided limits '
          '(ConservesAcross).  Cog20: FINDING, the coded shock position violates the jump conditions (negation '
          'proved at the class defaults, t = 1/2); its region formulas satisfy them at r = -(gamma-1) u0 t / 2.',
)
