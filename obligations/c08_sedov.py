"""C08 (Sedov share) — dimensional consistency (dimension of rho0 depends on omega, of E on the geometry)"""
from obligations import obl
from harness import o_sedov

PROP = dict(
    groups=['sedov'],
    obligations=[
        obl('C08.sedov.units', 'EPV.Props.C08.Sedov',
            ['EPV.C08.sedov_r2_scales', 'EPV.C08.sedov_shock_state_scales', 'EPV.C08.sedov_fields_scale'],
            models=['SedovShock'], oracle=o_sedov.units, tie=o_sedov.tie_models),
    ],
    corr_models=[], corr_n=20, oracle_budget=1.2,
    scope='Sedov: r2, us, post-shock state and the similarity argument scale with their dimensions under (M, L, T), '
          '[rho0] = M L^(omega-3), [E] = M L^(k-1) T^-2, for real geometry and omega.',
)
