"""C02 (part geneos, partial) — Rankine-Hugoniot / contact conditions at every discontinuity of the solution the
general-EOS Riemann driver assembles (ideal gas and JWL)."""
from obligations import obl
from harness import o_geneos as G
from obligations.c07_geneos import BASE, GEN, names

LX = 'EPV.Lemmas.RiemannGenExact'
M = 'EPV.Props.C02.RiemannGen'
T = 'EPV.C02.RiemannGen.'

PROP = dict(
    groups=['riemann'],
    obligations=[
        obl('C02.geneos.exact_atoms', LX, names('EPV.RiemGen.', 'shockJump_eq odeR_eq odeU_eq hugoniot_rh'), BASE + GEN, G.rh),
        obl('C02.geneos.shocks', M,
            names(T, 'gen_left_shock_rh_partial gen_right_shock_rh_partial gen_shock_orientation gen_contact_partial '
                     'gen_position_hasDerivAt'), BASE + GEN, G.rh),
        obl('C02.geneos.waves', M,
            names(T, 'gen_scs_waves_partial gen_scr_waves_partial gen_rcs_waves_partial gen_rcr_waves_partial'), BASE + GEN, G.rh),
        obl('C02.geneos.sides', M,
            names(T, 'gen_scs_sides_partial gen_scr_sides_partial gen_rcs_sides_partial gen_rcr_sides_partial'), BASE + GEN, G.rh),
        obl('C02.geneos.nonvacuous', M,
            names(T, 'ex_sqrt1 ex_sqrt2 ex_hugoniotAtom ex_sound1 ex_sound2 ex_vHeadL ex_vTailL ex_vShockR'), BASE + GEN),
        obl('C02.geneos.tie', tie=G.tie_geneos),
    ],
    corr_models=[],
    oracle_budget=0.4,
    scope='GenEOS part (PARTIAL): in the hand model of the general-EOS driver (tied to GenEOS_Solver) each shock joins the '
          'undisturbed state to the star state at the speed of the scalar shock_speed call with mass, momentum and energy '
          'conserved, the energies being the traced sie (ideal gas / JWL, each side its gamma); the contact carries px and one '
          'velocity and moves with it; the states the reg_state_geos sequence installs at the grid nodes on the two sides of '
          'each discontinuity are those states; the speed is d/dt of the coded position. Conditional on exact atoms '
          '(HugoniotAtom: root of the traced shock_jump + traced star_velocity; Crossing: ux1 = ux2) and L != R; the smeared '
          'cell is outside (oracle one cell away from the waves).',
)
