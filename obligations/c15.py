"""C15 — Blake: the displacement solves the spherical elastic wave problem, the other fields follow from it by
isotropic linear elasticity, and the six elastic parameters the constructor ends up with describe one
positive-definite material (or construction fails with ValueError)."""
from obligations import obl
from harness import o_c15

MOD = 'EPV.Props.C15.Moduli'
FLD = 'EPV.Props.C15.Fields'
PAIRS = ['LG', 'LE', 'LNu', 'LK', 'LM', 'GE', 'GNu', 'GK', 'GM', 'ENu', 'EK', 'EM', 'NuK', 'NuM', 'KM']

_o = []
for nm in PAIRS:
    _o.append(obl('C15.blake.moduli.' + nm, MOD, ['EPV.C15.mod%s_ok' % nm, 'EPV.C15.mod%s_raise' % nm],
                  ['BlakeMod' + nm], o_c15.attrs[nm], tie=o_c15.ties_moduli[nm]))
_o += [
    obl('C15.blake.moduli.LNu.zero_division', 'EPV.Props.C15.FindingModuli',
        ['EPV.C15.finding_modLNu_division_by_zero', 'EPV.C15.finding_modLNu_division_by_zero_all', 'EPV.C15.modLNu_leaves'],
        ['BlakeModLNu'], o_c15.zero_division, finding=True),
    obl('C15.blake.constitutive', FLD,
        ['EPV.C15.strain_qq_eq', 'EPV.C15.strain_vol_eq', 'EPV.C15.stress_rr_hooke', 'EPV.C15.stress_qq_hooke',
         'EPV.C15.pressure_eq', 'EPV.C15.pressure_bulk', 'EPV.C15.stress_dev_eq', 'EPV.C15.stress_dev_shear',
         'EPV.C15.stress_diff_eq', 'EPV.C15.density_posn_eq', 'EPV.C15.fields_leaves'],
        ['BlakeFields'], o_c15.hooke, tie=o_c15.tie_fields),
    obl('C15.blake.strain_is_derivative', FLD,
        ['EPV.C15.L1_strain_rr_eq_dr', 'EPV.C15.strain_rr_is_dr_displacement', 'EPV.C15.strain_rr_is_dr_displacement_wall',
         'EPV.C15.strain_rr_is_dr_displacement_ahead'],
        ['BlakeFields'], o_c15.fd_strain, tie=o_c15.tie_fields),
    obl('C15.blake.wave_equation', FLD,
        ['EPV.C15.L1_wave', 'EPV.C15.displacement_wave_equation', 'EPV.C15.displacement_wave_equation_lame',
         'EPV.C15.displacement_wave_equation_ahead', 'EPV.C15.cL_sq', 'EPV.C15.cL_sq_lame'],
        ['BlakeFields'], o_c15.wave, tie=o_c15.tie_fields),
    obl('C15.blake.wall_stress', FLD, ['EPV.C15.wall_stress'], ['BlakeFields'], o_c15.wall, tie=o_c15.tie_fields),
    obl('C15.blake.causality', FLD, ['EPV.C15.vanishes_ahead_of_front', 'EPV.C15.density_ahead_of_front'],
        ['BlakeFields'], o_c15.causal, tie=o_c15.tie_fields),
]

PROP = dict(
    groups=['blake'],
    obligations=_o,
    corr_models=['BlakeLG'],
    corr_n=60,
    oracle_budget=0.4,
    scope='Moduli: for each of the 15 parameter pairs the traced set_elastic_params either returns six values that '
          'reproduce the two supplied ones and satisfy the isotropy identities with G > 0, 3λ+2G > 0, or raises '
          'ValueError (all reals; pair (E,M) on the positive root the code selects; pair (λ,ν) at ν = 0 is a finding: '
          'ZeroDivisionError).  Fields: Blake._run traced as a function of the instance attributes; under the identities '
          'the constructor establishes: constitutive relations on every leaf, strain_rr = ∂_r displacement (behind the '
          'front, ahead of it, one-sided at the wall), the spherical wave equation with c_L² = M/ρ₀ behind the front, '
          'σ_rr(a,t) = -P₀ for t > 0, everything vanishes for t ≤ (r-a)/c_L.  On the front itself no derivative '
          'statement is made (the step-loaded solution has a stress jump there).  Exact reals: overflow of the '
          'intermediate exp(+n(t+a/c)) is outside the theorems (C20 finding Blake:overflow).',
)
