"""C07 (part: closed-form hydro) — Noh = Cog19, Noh2 = Noh2Cog = Cog1(b=0, 1-t, -u), and every
Planar/Cylindrical/Spherical wrapper class (and Kidder74/76) = the general class at that geometry."""
from obligations import obl
from harness import o_hydrojumps as H
from py2lean.targets.t_wrappers import WRAPPERS

_M = 'EPV.Props.C07.Hydro'
_W = 'EPV.Props.C07.Wrappers'
_wo = H.wrapper_oracles()
_by = {}
for _w in WRAPPERS:
    _by.setdefault(_w['parent'], []).append(_w['name'])

_o = [
    obl('C07.noh_cog19', _M, ['EPV.C07.noh_cog19_branch', 'EPV.C07.noh_cog19_outcome', 'EPV.C07.noh_eq_cog19'],
        ['Noh', 'Cog19'], H.noh_cog19),
    obl('C07.noh2_noh2cog', _M, ['EPV.C07.noh2_noh2cog_outcome', 'EPV.C07.noh2_eq_noh2cog'], ['Noh2', 'Noh2Cog'],
        H.noh2_noh2cog),
    obl('C07.noh2cog_cog1', _M, ['EPV.C07.noh2cog_eq_cog1', 'EPV.C07.noh2cog_cog1_outcome'], ['Noh2Cog', 'Cog1'],
        H.noh2cog_cog1),
]
for _p, _ns in _by.items():
    _o.append(obl('C07.wrappers.%s' % _p.lower(), _W, ['EPV.C07.%s_eq_general' % (n[0].lower() + n[1:]) for n in _ns],
                  [_p] + _ns, _wo[_p]))
# tie of the wrapper models and of the general classes they are compared with: Float twins vs the real
# classes, one run of the Lean driver.  PlanarCog12 is left out: the class cannot be instantiated
# (Cog12.__init__ rejects geometry = 1 — known finding PlanarCog12:unusable of C05), so there is no real
# call to compare with; its theorem is about the inherited _run alone.
_tied = [n for ns in _by.values() for n in ns if n != 'PlanarCog12'] + list(_by)
_o.append(obl('C07.wrappers.tie', tie=H.wrappers_tie(_tied)))

PROP = dict(
    groups=['hydro', 'wrappers'],
    obligations=_o,
    corr_models=['Noh', 'Cog19', 'Noh2', 'Noh2Cog', 'Cog1'],
    corr_n=60,
    oracle_budget=0.4,
    scope='Hydro routes: Noh = Cog19 (all fields, T = (gamma-1) e / Gamma) for u0 <= 0, gamma > 1, r != 0; Noh2 = Noh2Cog '
          'for t < 1; Noh2Cog = Cog1 with b = 0, Gamma = 1, T0 = e0 (gamma-1) at time 1 - t with the velocity negated; '
          'each of the 60 geometry wrapper classes (incl. Kidder74/76) returns the fields and outcome of the general '
          'class at the geometry its name states (both models are traces of the same inherited _run; all real '
          'parameters, no hypotheses).  Constructors of wrappers are not modelled (traced with __init__ bypassed).',
)
