"""C20 (part hydro) — constructors of Noh, Noh2, Noh2Cog, Coggeshall 1-21 against the catalogue of documented
restrictions; time domains; no NaN/inf from the formulas on the admissible domain."""
from obligations import obl
from harness import o_hydroalg as H
from py2lean.targets.t_hydro import COG

M = 'EPV.Props.C20.Hydro'
F = 'EPV.Props.C20.Finding'       # one module per defect: a repair breaks only its own module
T = 'EPV.C20.'
SOLVERS = ['Noh', 'Noh2', 'Noh2Cog'] + ['Cog%d' % n for n in COG]
_o = []
for s in SOLVERS:
    l = s.lower()
    if s == 'Cog19':
        th = ['init_cog19_accepts_iff_partial', 'init_cog19_accepts_documented', 'init_cog19_rejects_with_ValueError',
              'finding_cog19_accepts_u0_zero']
    elif s == 'Cog4':
        th = ['init_cog4_accepts_iff_partial', 'init_cog4_accepts_documented', 'init_cog4_rejects_with_ValueError',
              'finding_cog4_gamma_not_enforced']
    else:
        th = ['init_%s_accepts_iff' % l, 'init_%s_rejects_with_ValueError' % l]
    _o.append(obl('C20.%s.constructor' % l, F + s if s in ('Cog19', 'Cog4') else M, [T + x for x in th], ['Init' + s],
                  H.constructor_oracle[s],
                  finding=s in ('Cog19', 'Cog4')))
# the traced constructor models against the real constructors (boundary values of every traced constant)
_o.append(obl('C20.hydro.init_models', tie=H.init_tie()))
for s in H.NAN_AT_T0 + ['Noh2', 'Noh2Cog']:
    _o.append(obl('C20.%s.time_domain' % s.lower(), M, [T + '%s_time_domain' % s.lower()], [s], H.time_oracle[s]))
for s in ['Noh', 'Cog3', 'Cog4', 'Cog5', 'Cog6', 'Cog10', 'Cog12', 'Cog14', 'Cog16', 'Cog18', 'Cog19', 'Cog20']:
    _o.append(obl('C20.%s.never_rejects' % s.lower(), M, [T + '%s_never_rejects' % s.lower()], [s]))
_o.append(obl('C20.hydro.ok_leaves', M, [T + 'ok_leaves_pinned']))
for s in ['Noh', 'Noh2', 'Noh2Cog', 'Cog1', 'Cog2', 'Cog3', 'Cog4', 'Cog5', 'Cog6', 'Cog8', 'Cog9', 'Cog11', 'Cog12',
          'Cog18', 'Cog19', 'Cog21']:
    _o.append(obl('C20.%s.well_defined' % s.lower(), M, [T + '%s_well_defined' % s.lower()], [s], H.finite_oracle[s]))
for s in ['Cog7', 'Cog10', 'Cog16', 'Cog20']:
    # no theorem (partial): isfinite sweep on the real code only
    _o.append(obl('C20.%s.finite_sweep' % s.lower(), oracle=H.finite_oracle[s]))
_o += [
    obl('C20.cog13.in_domain', F + 'Cog13', [T + 'cog13_ok_leaves', T + 'finding_cog13_not_well_defined'], ['Cog13'], H.cog13_complex, finding=True),
    obl('C20.cog14.in_domain', F + 'Cog14', [T + 'cog14_ok_leaves', T + 'finding_cog14_base_negative', T + 'finding_cog14_not_well_defined'], ['Cog14'],
        H.cog14_complex, finding=True),
    obl('C20.cog17.in_domain', F + 'Cog17', [T + 'cog17_ok_leaves', T + 'finding_cog17_not_well_defined'], ['Cog17'], H.cog17_complex, finding=True),
]
PROP = dict(
    groups=['hydro', 'hydroinit'],
    obligations=_o,
    corr_models=SOLVERS,
    corr_n=40,
    oracle_budget=0.25,
    scope='Hydro part: for Noh, Noh2, Noh2Cog and the twenty Coggeshall solvers the traced constructor tree accepts exactly '
          'the documented parameter sets (hand catalogue Spec/AdmissibleHydro.lean, both directions) and every rejection is a '
          'ValueError — except Cog19 (u0 = 0 accepted) and Cog4 (gamma >= 1 only warned), findings; `_run` returns NaN exactly '
          'for t <= 0 (Cog 1, 2, 7, 8, 9, 11, 13, 17, 21), raises ValueError exactly for t >= 1 (Noh2, Noh2Cog), never rejects '
          'otherwise; every ok leaf is WellDefined (no zero denominator / non-positive rpow base) on the admissible domain '
          'for 16 solvers; Cog13/14/17 leave the reals on the range their warnings call valid (findings).  Partial: Cog 7, 10, '
          '16, 20 have an isfinite sweep only; overflow (e.g. t = 1e-300) is outside the theorems; gamma = 1 is accepted by '
          'every Coggeshall solver except Cog13 and gives inf (not documented as a restriction, so not in the catalogue).',
)
