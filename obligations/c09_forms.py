"""C09 — the value at a point may not depend on how the request is written down (real code)"""
from obligations import obl
from harness import o_c06

PROP = dict(
    groups=[],
    obligations=[obl('C09.request_forms', oracle=o_c06.batch_for('kenamond', 'dsd', 'riemann.ep_riemann'))],
    corr_models=[],
    scope='The symmetry theorems compare the solution at a point with the solution at its image; the burn-time and 1-D Riemann '
          'solvers are called here with the same points in other forms (shuffled, reversed, inside another batch, duplicated, alone, '
          'as an integer array, through one array object updated in place, on a used object, with non-default parameters) and the '
          'caller\'s array must come back unchanged: a solver that shifts the request in place to its own frame (seeded C09-9) '
          'returns image points that are not the images.  Oracle only.',
)
