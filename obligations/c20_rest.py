"""C20 (work package `c20rest`) — the solver classes whose constructor restrictions had no `accepts <-> Documented` theorem
yet: RateStick, ExplosiveArc, Kenamond2 (the exact gap; list lengths), NohBlackBoxEos, SuOlson, Hutchens1/2, Rectangle,
CylindricalSandwich, Mader (timmes), the 1-D Riemann wrappers (IGEOS_Solver, GenEOS_Solver), the 2-D steady Riemann
wrapper, the radiative-shock wrappers (oracle only: their constructors integrate ODEs)."""
from obligations import obl
from harness import o_c20rest as H

P = 'EPV.Props.C20.'
T = 'EPV.C20.'


def _t(*names):
    return [T + n for n in names]


PLAIN = ['InitSuOlson', 'InitHutchens1', 'InitHutchens2', 'InitRectangle', 'InitCylSandwich', 'InitMaderT', 'InitRiemIGEOS',
         'InitRiemGenEOS', 'InitRiem2D']
_o = [
    # ---- constructors: accepts <-> Coded (both directions), Documented -> accepts, exact gap, ValueError-only rejection
    obl('C20.rest.ratestick.constructor', P + 'RestDSD',
        _t('init_ratestick_accepts_iff_coded', 'ratestick_coded_of_documented', 'init_ratestick_accepts_of_documented',
           'init_ratestick_accepts_iff_partial', 'init_ratestick_rejects_with_ValueError'),
        ['InitRateStick'], H.catalogue_oracle['RateStick']),
    obl('C20.rest.explosivearc.constructor', P + 'RestDSD',
        _t('init_explosivearc_accepts_iff_coded', 'explosivearc_coded_of_documented', 'init_explosivearc_accepts_of_documented',
           'init_explosivearc_accepts_iff_partial', 'init_explosivearc_rejects_with_ValueError'),
        ['InitExplosiveArc'], H.catalogue_oracle['ExplosiveArc']),
    obl('C20.rest.bbnoh.constructor', P + 'RestBBNoh',
        _t('init_bbnoh_accepts_iff_coded', 'init_bbnoh_accepts_of_documented', 'init_bbnoh_accepts_iff_partial', 'init_bbnoh_loud',
           'init_bbnoh_never_eos_error', 'init_bbnoh_rejects_with_ValueError'),
        ['InitBBNoh'], H.catalogue_oracle['NohBlackBoxEos']),
    obl('C20.rest.bbnoh.family', P + 'RestBBNoh',
        _t(*['init_%s_%s' % (m, w) for m in ('resenergy', 'respressure', 'ressenergy', 'resspressure', 'bbnohplanar', 'bbnohcyl', 'bbnohsph')
             for w in ('accepts_iff', 'rejects_with_ValueError')]),
        ['InitResEnergy', 'InitResPressure', 'InitResSEnergy', 'InitResSPressure', 'InitBBNohPlanar', 'InitBBNohCyl', 'InitBBNohSph'],
        H.catalogue_oracle['NohBlackBoxFamily']),
    obl('C20.rest.k2.constructor', P + 'RestK2',
        _t('k2init_accepts_iff_partial', 'k2init_accepts_documented_of_ne', 'k2init_dets3_rejected', 'k2init_dets5_rejected',
           'k2init_td4_rejected', 'k2init_td6_rejected'),
        ['K2Init', 'K2InitDets3', 'K2InitDets5', 'K2InitTd4', 'K2InitTd6'], H.catalogue_oracle['Kenamond2']),
    obl('C20.rest.plain.constructors', P + 'RestPlain',
        _t('init_suolson_accepts_iff', 'init_hutchens1_accepts_iff', 'init_hutchens2_accepts_iff', 'init_rectangle_accepts_iff',
           'init_cylsandwich_accepts_iff', 'init_madert_accepts_iff', 'init_riemigeos_accepts_iff', 'init_riemgeneos_accepts_iff',
           'init_riem2d_accepts_iff', 'rest_plain_no_rejecting_leaf'),
        PLAIN, [H.catalogue_oracle[n] for n in ('SuOlson', 'Hutchens1', 'Hutchens2', 'Rectangle', 'CylindricalSandwich', 'Mader',
                                                'IGEOS_Solver', 'GenEOS_Solver', 'Riemann2D')]),
    # the traced constructor trees (and the traced Riemann classification) against the real code, boundary values
    obl('C20.rest.init_models', tie=H.init_tie),
    # ---- 1-D Riemann: classification, vacuum
    obl('C20.rest.riemann.classification', P + 'RestRiemann',
        _t('riem_driver_loud', 'riem_driver_never_unbound', 'riem_driver_nameerror_only_in_vacuum', 'riem_driver_reaches_grid'),
        ['RiemDriverClass'], H.finite['IGEOS_Solver']),
    # ---- Su-Olson: time domain
    obl('C20.rest.suolson.time_domain', P + 'RestSuOlson',
        _t('suolson_time_domain', 'suolson_never_raises', 'suolson_welldefined_partial'), ['SuOlson'], H.finite['SuOlson']),
    # ---- documented domain tests that hold (grids of the DSD level-set solvers, t <= 0 -> NaN)
    obl('C20.rest.domain_enforced', oracle=H.domain_enforced),
    # ---- FINDINGS (negation at a witness + reproduction on the real code)
    obl('C20.rest.ratestick.alpha_zero', P + 'FindingRestRateStick', _t('finding_ratestick_accepts_alpha_zero'), ['InitRateStick'],
        H.finding_ratestick_alpha, finding=True),
    obl('C20.rest.explosivearc.boundaries', P + 'FindingRestExplosiveArc',
        _t('finding_explosivearc_accepts_alpha_zero', 'finding_explosivearc_accepts_equal_angles'), ['InitExplosiveArc'],
        H.finding_explosivearc, finding=True),
    obl('C20.rest.bbnoh.u0_not_enforced', P + 'FindingRestBBNoh', _t('finding_bbnoh_u0_not_enforced'), ['InitBBNoh'],
        H.finding_bbnoh_u0, finding=True),
    obl('C20.rest.riemann.not_valueerror', P + 'FindingRestRiemann', _t('finding_riem_driver_vacuum_NameError', 'finding_riem_flag_accepted'),
        ['RiemDriverClass', 'InitRiemIGEOSBogus', 'InitRiemGenEOSBogus'], H.finding_riemann, finding=True),
    obl('C20.rest.radshock.flag', oracle=H.finding_radshock_flag, finding=True),
    obl('C20.rest.radshock.documented_options', oracle=H.catalogue_radshock),
    obl('C20.rest.suolson.space_domain', P + 'FindingRestSuOlson',
        _t('finding_suolson_no_space_domain_check', 'finding_suolson_negative_z_served'), ['SuOlson'], H.finding_suolson_space,
        finding=True),
    obl('C20.rest.outside_domain', oracle=H.domain_outside, finding=True),
    # (lead) the -10.0 'not reached by t_f' sentinel of RateStick/ExplosiveArc is finite but negative and cannot be
    # mistaken for a burn time: reporting it would demand more than C20 states; documented in DESIGN.md instead.
    obl('C20.rest.heat_overflow', oracle=H.finding_heat_overflow, finding=True),
    # ---- undocumented laxness: recorded, never a failure
    obl('C20.rest.observations', oracle=H.observations),
]
# ---- isfinite sweeps of the public call inside the documented domain (no theorem: grids, series, quadrature)
for _n in ('RateStick', 'ExplosiveArc', 'Hutchens1', 'Hutchens2', 'Rectangle', 'CylindricalSandwich', 'Mader', 'Riemann2D', 'nED_Solver'):
    _o.append(obl('C20.rest.finite.%s' % _n.lower(), oracle=H.finite[_n]))

PROP = dict(
    groups=['c20rest', 'suolson', 'burn'],
    obligations=_o,
    corr_models=[],
    oracle_budget=0.25,
    scope='Rest part: the traced constructor trees of RateStick (39 leaves, all ten parameters symbolic), ExplosiveArc (15), '
          'NohBlackBoxEos (22, with the checks of pressure_noh_residual) accept exactly the coded sets (both directions), which contain '
          'the documented ones; the gap is exactly alpha = 0 (RateStick, ExplosiveArc: "must also be positive", then ZeroDivisionError '
          'at the first call), omega_out = omega_in (ExplosiveArc) and the sign of u0 (NohBlackBoxEos never reads it) — findings; '
          'Kenamond 2: accepts <-> Documented or (Coded and D1 = D2), lists of the wrong length always raise ValueError; every '
          'reachable rejecting leaf raises ValueError.  SuOlson, Hutchens 1/2, Rectangle, CylindricalSandwich, Mader, the 1-D and 2-D '
          'Riemann wrappers document no restriction and have a single accepting leaf.  1-D Riemann driver traced to the grid line: no '
          'ValueError leaf, UnboundLocalError unreachable for real states, NameError only in the vacuum regime (finding: loud but not a '
          'ValueError and not at construction); unknown `problem` flags accepted (findings).  Su-Olson returns NaN exactly for t <= 0 and '
          'serves z < 0 (finding).  Oracle only: radiative-shock wrappers (constructors integrate ODEs), outside-domain requests of the '
          'heat solvers and t < 0 of the Riemann wrapper (finite numbers: findings), the -10.0 sentinel of the DSD level-set solvers, '
          'inf/inf overflow inside the domain of Hutchens2 and Rectangle (findings), isfinite sweeps inside the domain.  Partial: '
          'overflow/rounding; numerical atoms (bisect root, Su-Olson quadratures) are hypotheses.',
)
