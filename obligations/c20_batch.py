"""C20 — a domain check must not be defeated by the companions of the offending point (real code)"""
from obligations import obl
from harness import o_c20_batch

PROP = dict(
    groups=[],
    obligations=[obl('C20.space_domain.mixed_batch', oracle=[o_c20_batch.mixed_batch, o_c20_batch.eppiston_regrid])],
    corr_models=[],
    scope='Out-of-domain points inside otherwise valid batches (Kenamond 3 inert region, Blake negative radius): oracle only — the '
          'per-point rejection is proved on the one-point models (run_rejects_iff, k3dN_run_outcomes); that it is applied to every '
          'point of a batch is the point-wise model `call f pts`, tied by this run.',
)
