"""C10 (part: closed-form hydro) — Noh and Coggeshall 19 depend on (r, t) only through r/t."""
from obligations import obl
from harness import o_hydrojumps as H

_M = 'EPV.Props.C10.Hydro'


def _sim(s):
    return ['EPV.C10.%s_%s' % (s, k) for k in ('cond_similar', 'leaf_similar', 'outcome_similar', 'fields_similar',
                                                'position_similar')]


PROP = dict(
    groups=['hydro'],
    obligations=[
        obl('C10.noh.similarity', _M, _sim('noh'), ['Noh'], H.sim_noh),
        obl('C10.cog19.similarity', _M, _sim('cog19'), ['Cog19'], H.sim_cog19),
    ],
    corr_models=['Noh', 'Cog19'],
    corr_n=60,
    oracle_budget=0.4,
    scope='Noh, Cog19: for every s > 0 the call at (s r, s t) takes the same branch and returns the same density, '
          'velocity, pressure, energy (temperature) as the call at (r, t); position scales with s.  All real parameters.',
)
