"""C03 share of work package rad: e = p / rho / (gamma - 1) in the 2-D steady Riemann solver and the radiative-shock wrappers"""
from obligations import obl
from harness import o_rad

PAT = ['scs', 'scr', 'rcs', 'rcr']
PROP = dict(
    groups=['riemann2d'],
    obligations=[
        obl('C03.riemann2d.eos', 'EPV.Props.C19.Riemann2D', ['EPV.C19.r2d_%s_consistent' % p for p in PAT],
            models=['R2d' + p.upper() for p in PAT], oracle=o_rad.r2_consistency),
    ],
    corr_models=[],
    scope='2-D steady Riemann: specific_internal_energy = pressure / density / (gamma_side - 1) at every point of every wave pattern '
          '(part of ReportedConsistent).',
)
