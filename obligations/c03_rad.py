"""C03 share of work package rad: e = p / rho / (gamma - 1) in the 2-D steady Riemann solver and the radiative-shock wrappers"""
from obligations import obl
from harness import o_rad

PAT = ['scs', 'scr', 'rcs', 'rcr']
PROP = dict(
    groups=['riemann2d', 'radshock'],
    obligations=[
        obl('C03.radshock.eos', 'EPV.Props.C12.RadShock', ['EPV.C12.attr_%s_eos' % w for w in ('ed', 'ned', 'sn', 'ie')]
            + ['EPV.C12.attr_%s_fluxes' % w for w in ('ed', 'ned', 'sn')],
            models=['RadAttrED', 'RadAttrNED', 'RadAttrSn', 'RadAttrIE'], oracle=o_rad.rs_eos),
        obl('C03.riemann2d.eos', 'EPV.Props.C19.Riemann2D', ['EPV.C19.r2d_%s_consistent' % p for p in PAT],
            models=['R2d' + p.upper() for p in PAT], oracle=o_rad.r2_consistency),
    ],
    corr_models=[],
    scope='2-D steady Riemann: specific_internal_energy = pressure / density / (gamma_side - 1) at every point of every wave pattern '
          '(part of ReportedConsistent).  Radiative shocks: the solver attributes satisfy SIE = Pressure / Density / (gamma - 1), '
          'Sound_Speed = Speed / Mach at every node (the public call interpolates each array separately, so between nodes the '
          'identity holds only up to the interpolation error of the 8000+ node profile).',
)
