"""C19 — the value at a point may not depend on how the request is written down (real code)"""
from obligations import obl
from harness import o_c06

PROP = dict(
    groups=[],
    obligations=[obl('C19.request_forms', oracle=[o_c06.batch_for('riemann2D'), o_c06.r2d_fan_order, o_c06.r2d_direction_continuity])],
    corr_models=[],
    scope='The theorems of this property are statements about points; the steady 2-D Riemann are called here with the same points in other '
          'forms (shuffled, reversed, inside another batch, duplicated, alone, as an integer array, through one array object that is '
          'updated in place between two calls, on a used object): the values must agree, otherwise the property does not hold at the '
          'points as the user wrote them.  Oracle only (the point-wise model `call f pts` is C05/C06).',
)
