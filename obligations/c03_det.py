"""C03 (part: detonation) — EOS consistency of EHEP, Mader, SDRZ, EP piston."""
from obligations import obl
from harness import o_detonation as D

_E = 'EPV.Props.C03.EPPiston'


def _epp(m):
    return ['EPV.C03.%s_%s' % (m, k) for k in ('eos_yield', 'eos_plastic', 'residual_iff')]


PROP = dict(
    groups=['detonation'],
    obligations=[
        obl('C03.sdrz.eos', 'EPV.Props.C03.SDRZ', ['EPV.C03.sdrz_sound_speed', 'EPV.C03.sdrz_tail_sound_speed'],
            ['SDRZProfile', 'SDRZTail'], D.sdrz_eos, tie=D.tie_sdrz),
        obl('C03.eppiston.hypo', _E, _epp('hypo'), ['EPPistonHypo'], D.epp_eos, tie=D.tie_eppiston),
        obl('C03.eppiston.ifin', _E, _epp('ifin'), ['EPPistonIfin'], D.epp_eos),
        obl('C03.eppiston.fin', _E, _epp('fin'), ['EPPistonFin'], D.epp_eos),
        obl('C03.ehep.eos', 'EPV.Props.C03.EHEP', ['EPV.C03.ehep_sound_speed', 'EPV.C03.ehep_eos'], ['EHEP'], D.ehep_eos,
            tie=D.tie_ehep),
        obl('C03.mader.eos', 'EPV.Props.C03.Mader',
            ['EPV.C03.mader_cj_eos', 'EPV.C03.mader_profile_eos', 'EPV.C03.mader_profile_isentrope',
             'EPV.C03.mader_fan_is_average', 'EPV.C03.mader_plateau_eos', 'EPV.C03.mader_plateau_isentrope'],
            ['MaderRare'], D.mader_eos, tie=D.tie_mader_rare),
    ],
    corr_models=[],
    oracle_budget=0.4,
    scope='EHEP: c^2 rho = 3 p and p = (gamma-1) rho e on every leaf (all regions). SDRZ: cs^2 = gamma p / rho at every particle '
          'age. EP piston: p_y and (given the fsolve atom Plastic_Residual = 0) p2 equal the Mie-Gruneisen pressure at the '
          'returned (rho, e). Mader: the point profile behind the cell averages satisfies c^2 = gamma p / rho and the isentrope '
          'through CJ; the returned fan p and rho are its exact cell averages (integral form); the constant state satisfies '
          'both exactly.',
)
