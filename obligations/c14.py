"""C14 — heat-conduction solutions: diffusion equation, boundary conditions, initial profile, limits.

Hand model EPV/Model/HeatSeries.lean (one generic definition: `Ops Float` runs in the correspondence driver,
`Ops ℝ` is what the theorems are about) + generated models of the coefficient formulas, static parts,
constructor mappings and small-N end-to-end instances (tools/py2lean/targets/t_heat.py, group 'heat')."""
from obligations import obl
from harness import o_heat as H

R = 'EPV.Props.C14.'
C = 'EPV.C14.'


def T(*names):
    return [C + n for n in names]


_o = [
    # ---- 1-D rod (and, through the constructor mapping of C07, the three planar sandwiches) ----
    obl('C14.rod.pde', R + 'Rod', T('rod_heat_eq', 'rodBC1_heat_eq', 'rodBC2_heat_eq', 'rodBC3_heat_eq', 'rodBC4_heat_eq',
                                     'rodGen_heat_eq'), oracle=H.rod_pde, tie=H.tie_rod),
    obl('C14.rod.bc', R + 'Rod', T('ser_of_terms_zero', 'serX_of_terms_zero',
                                    'rodBC1_value_left', 'rodBC1_value_right', 'rodBC1_bc_left', 'rodBC1_bc_right',
                                    'rodBC2_flux_left', 'rodBC2_flux_right', 'rodBC2_bc_left', 'rodBC2_bc_right',
                                    'rodBC3_value_left', 'rodBC3_flux_right', 'rodBC3_bc_left', 'rodBC3_bc_right',
                                    'rodBC4_flux_left', 'rodBC4_value_right', 'rodBC4_bc_left', 'rodBC4_bc_right'),
        oracle=H.rod_boundary, tie=H.tie_sandwich),
    obl('C14.rod.large_t', R + 'Rod', T('rod_tendsto', 'rodBC1_tendsto', 'rodBC2_tendsto', 'rodBC3_tendsto', 'rodBC4_tendsto',
                                         'rod_static_is_steady'), oracle=H.rod_large_t),
    obl('C14.rod.coefficients', R + 'RodCoef', T('neg_one_rpow_nat', 'modes_BC1_eq', 'modes_BC2_eq', 'modes_BC3_eq', 'modes_BC4_eq'),
        models=['RodModes1', 'RodModes2', 'RodModes3', 'RodModes4'], tie=H.tie_coef),
    obl('C14.rod.run', R + 'RodCoef', T('genStatic_real', 'run2_outcome', 'run2_raises_only_valueError', 'run2_eq_rodSeries'),
        models=['RodRun2'], tie=H.tie_traced),
    obl('C14.rod.fourier', R + 'Fourier', T('integral_affine_sin', 'integral_affine_cos', 'bc1B_is_fourier', 'bc2A_zero_is_mean',
                                             'bc2A_is_fourier', 'bc3B_is_fourier', 'bc4A_is_fourier', 'initial_minus_static',
                                             'rect_top_coeff', 'sin_orthogonal', 'cos_orthogonal', 'sin_sq_integral',
                                             'cos_sq_integral', 'knInt_orth_conditions', 'knHalf_orth_conditions',
                                             'initial_value_is_partial_sum_partial'), oracle=H.initial_limit),
    obl('C14.rod.robin', R + 'RodRobin', T('rod_bc_of_modes', 'robin_An', 'robin_left', 'robin_right_iff', 'robin0_right_iff',
                                            'rodModesGen_leaves'), models=['RodModesGen'], oracle=None, tie=H.tie_series),
    # findings, general (Robin) case
    obl('C14.rod.robin_nan', R + 'FindingRobin', T('finding_robin_zero_root'), models=['RodModesGen'], oracle=H.robin_nan, finding=True),
    obl('C14.rod.robin_static', R + 'FindingRobin', T('finding_robin_static', 'robin_static_left_defect'),
        oracle=H.robin_boundary, finding=True),
    obl('C14.rod.robin_initial', 'EPV.Props.C08.FindingHeat', ['EPV.C08.finding_robin_coefficient_zero_data'], models=['RodModesGen'],
        oracle=H.robin_initial, finding=True),
    # ---- the traced code itself (small Nsum), without the hand model in the statement ----
    obl('C14.traced.end_to_end', R + 'Traced', T('sandwich3_heat_eq', 'sandwichHot3_heat_eq', 'sandwichHalf3_heat_eq', 'sandwich3_bc',
                                                  'rod3_heat_eq', 'rectangleN2_heat_eq', 'hutchens1N3_heat_eq', 'hutchens1N3_surface'),
        models=['Sandwich3', 'SandwichHot3', 'SandwichHalf3', 'Rod3', 'RectangleN2', 'Hutchens1N3'], tie=H.tie_traced),
    # ---- Hutchens 1 ----
    obl('C14.hutchens1.pde_bc_limits', R + 'Hutchens1', T('hutchens1_heat_eq', 'hutchens1_surface', 'hutchens1_tendsto',
                                                           'hutchens1_centre_limit', 'hutchens1N3_eq', 'hutchens1N3_leaves'),
        models=['Hutchens1N3'], oracle=H.h1_pde, tie=H.tie_h1),
    obl('C14.hutchens1.initial_partial', oracle=H.h1_initial),
    obl('C14.hutchens1.centre', R + 'FindingHutchens1', T('finding_hutchens1_value_at_zero', 'h1Centre_tendsto',
                                                           'finding_hutchens1_centre_ne', 'finding_hutchens1_witness'),
        models=['Hutchens1N3'], oracle=H.h1_centre, finding=True),
    # ---- Rectangle ----
    obl('C14.rectangle.pde_bc_limits', R + 'Rectangle', T('rectangle_heat_eq', 'rectangle_bottom', 'rectangle_top', 'rectangle_tendsto',
                                                           'rectangleN2_eq', 'rectangleN2_leaves'),
        models=['RectangleN2'], oracle=H.rect_pde, tie=H.tie_rect),
    obl('C14.rectangle.initial_partial', oracle=H.rect_initial),
    obl('C14.rectangle.sides', R + 'FindingRectangle', T('finding_rectangle_sides_dirichlet', 'rectC_nonneg', 'rectSideFlux_pos',
                                                          'rectangle_side_flux_tendsto', 'finding_rectangle_side_flux'),
        oracle=H.rect_sides, finding=True),
    # ---- Hutchens 2 ----
    obl('C14.hutchens2.partial', R + 'Hutchens2', T('hutchens2_bottom', 'hutchens2_top', 'hutchens2_laplace_partial',
                                                     'hutchens2_laplace_no_source_partial', 'hutchens2N2_eq', 'hutchens2N2_leaves'),
        models=['Hutchens2N2'], tie=H.tie_h2),
    obl('C14.hutchens2.accumulator', R + 'FindingHutchens2', T('finding_hutchens2_accumulator', 'finding_hutchens2_excess', 'leib_ge',
                                                                'leib_succ_ge', 'h2_surface_value'),
        oracle=H.h2_accumulator, finding=True),
    obl('C14.hutchens2.radial_bc', R + 'FindingHutchens2', T('finding_hutchens2_surface_diverges'), oracle=H.h2_boundary, finding=True),
    obl('C14.hutchens2.pde', R + 'FindingHutchens2', T('alt_partial', 'weighted_alt_pos', 'finding_hutchens2_pde'),
        oracle=H.h2_pde, finding=True),
    # ---- cylindrical sandwich ----
    obl('C14.cylsandwich.partial', R + 'CylSandwich', T('cyl_residual', 'cyl_heat_eq_if_squared_partial', 'cylTerm_eq', 'cyl_theta_zero'),
        tie=H.tie_cyl),
    obl('C14.cylsandwich.pde', R + 'FindingCylSandwich', T('finding_cyl_pde'), oracle=H.cyl_pde, finding=True),
    obl('C14.cylsandwich.theta', R + 'FindingCylSandwich', T('finding_cyl_theta_half', 'finding_cyl_theta_half_ne'),
        oracle=H.cyl_theta, finding=True),
]

PROP = dict(
    groups=['heat'],
    obligations=_o,
    corr_models=['Hutchens1N3', 'Sandwich3', 'SandwichHot3', 'SandwichHalf3'],
    corr_n=60,
    oracle_budget=0.4,
    trusted_extra=[
        'heat: the summation loops over n < Nsum live in the hand model EPV/Model/HeatSeries.lean (one generic definition, executed over '
        'Float against the real classes at random Nsum, proved over the reals); the coefficient formulas, static parts, constructor '
        'mappings and Nsum = 2, 3 instances are traced from the source and proved equal to the hand model',
        'heat: scipy fsolve / i0 / jn / yn / newton / quad are atoms: fsolve returns a root of the traced residual; I0 and J_k + beta Y_k '
        'are characterised only by their Bessel differential equations',
    ],
    scope='C14: for EVERY truncation order N and all parameters the truncated series of Rod1D (BC1-BC4 and any Robin coefficient '
          'arrays; hence the three planar sandwiches), Rectangle and Hutchens 1 satisfy their diffusion equations; the declared boundary '
          'values of BC1-BC4, the surface value of Hutchens 1 and the top/bottom values of Rectangle hold exactly for every N; the '
          'large-t limits are the stated steady solutions; the coefficients of BC1-BC4 are the Fourier coefficients of (initial - '
          'static) in an orthogonal system with norm L/2; the r -> 0 limit of Hutchens 1 exists in closed form. Robin case: boundary '
          'operators act term by term and a mode satisfies the condition at x = L iff the fsolve root satisfies the traced transcendental '
          'equation. PARTIAL: t -> 0+ convergence to the initial profile (completeness) is stated in Spec.Heat.InitialLimit and only '
          'sampled; Hutchens 2 and CylindricalSandwich are covered given only the Bessel equations of the atoms and only where the code '
          'is right. FINDINGS (negations proved, reproduced on the real code): Hutchens1 r=0 value; Hutchens2 accumulator, radial '
          'boundary value and source series; Rod1D Robin NaN (root mu = 0), Robin static part for L != 1, Robin initial profile; '
          'CylindricalSandwich decay exponent and theta = pi/2 value; Rectangle side condition.',
)
