"""C08 (Blake share) — a change of units in gives the same change out: Blake._run and set_elastic_params."""
from obligations import obl
from harness import o_c15, o_c08_blake as o

PAIRS = ['LG', 'LE', 'LNu', 'LK', 'LM', 'GE', 'GNu', 'GK', 'GM', 'ENu', 'EK', 'EM', 'NuK', 'NuM', 'KM']
FIELDS = ['position', 'curr_posn', 'displacement', 'strain_rr', 'strain_qq', 'strain_vol', 'density', 'stress_rr',
          'stress_qq', 'pressure', 'stress_dev_rr', 'stress_dev_qq', 'stress_diff']

_o = [obl('C08.blake.fields', 'EPV.Props.C08.Blake',
          ['EPV.C08.blake_fields_units', 'EPV.C08.blake_leaf_units', 'EPV.C08.blake_outcome_units']
          + ['EPV.C08.blake_%s_units' % f for f in FIELDS],
          ['BlakeFields'], o.fields, tie=o_c15.tie_fields)]
for nm in PAIRS:
    _o.append(obl('C08.blake.moduli.' + nm, 'EPV.Props.C08.Blake', ['EPV.C08.blake_mod%s_units' % nm],
                  ['BlakeMod' + nm], o.moduli[nm], tie=o_c15.ties_moduli[nm]))

PROP = dict(
    groups=['blake'],
    obligations=_o,
    corr_models=[],
    corr_n=60,
    oracle_budget=0.4,
    scope='Blake: for every change of units (M, L, T) and all real parameter values, Blake._run on the re-expressed '
          'attributes returns each of its thirteen fields re-expressed by its own dimension on the same branch, and '
          'set_elastic_params (15 pairs) returns the moduli re-expressed as pressures, the same Poisson ratio, on the same '
          'branch; structural dimensional analysis of the traced expressions, no admissibility hypothesis.',
)
