"""C19 — 2-D steady supersonic Riemann problem (work package rad)"""
from obligations import obl
from harness import o_rad

M = 'EPV.Props.C19.Riemann2D'
T = 'EPV.C19.'
MF = 'EPV.Props.C19.FindingPrandtlMeyer'
TF = 'EPV.C19.Finding.'
PAT = ['scs', 'scr', 'rcs', 'rcr']
SOLVER_MODELS = ['R2d' + p.upper() for p in PAT] + ['R2Star' + p.upper() for p in PAT]
PROP = dict(
    groups=['riemann2d'],
    obligations=[
        obl('C19.riemann2d.shock', M, [T + 'comp_rs', T + 'comp_Ms', T + 'comp_tan', T + 'comp_oblique_shock'],
            models=['R2Comp'], tie=o_rad.r2_func_tie('R2Comp'), oracle=o_rad.r2_shock),
        obl('C19.riemann2d.fan_isentrope', M, [T + 'exp_isentropic', T + 'exp_isentropic_text'],
            models=['R2Exp'], tie=o_rad.r2_func_tie('R2Exp'), oracle=o_rad.r2_isentrope),
        obl('C19.riemann2d.fan_turning_coded', M, [T + 'exp_turning_coded'],
            models=['R2Exp', 'R2PM'], tie=o_rad.r2_func_tie('R2PM')),
        # FINDING: the property is false on the current code; the theorems (own module) are its negation at concrete
        # witnesses plus the exact size of the defect, the oracles reproduce it on the real code
        obl('C19.riemann2d.prandtl_meyer', MF, [TF + 'pm_coded', TF + 'Finding_prandtl_meyer'], models=['R2PM'],
            oracle=o_rad.r2_pm, finding=True),
        obl('C19.riemann2d.fan_turning', MF, [TF + 'exp_turning_partial', TF + 'fanWitness_M2', TF + 'Finding_fan_turning'],
            models=['R2Exp', 'R2PM'], oracle=o_rad.r2_turning, finding=True),
        obl('C19.riemann2d.slipline', M, ['%sstar_%s_slipline' % (T, p) for p in PAT] + ['%sstar_%s_states' % (T, p) for p in PAT],
            models=['R2Star' + p.upper() for p in PAT], tie=o_rad.r2_solver_tie, oracle=o_rad.r2_slipline),
        obl('C19.riemann2d.states', M, ['%sr2d_%s_states' % (T, p) for p in PAT], models=['R2d' + p.upper() for p in PAT]),
        obl('C19.riemann2d.consistency', M, ['%sr2d_%s_consistent' % (T, p) for p in PAT] + [T + 'ReportedConsistent.speed'],
            models=['R2d' + p.upper() for p in PAT], oracle=o_rad.r2_consistency),
        # the wave pattern and the shock positions are ATOMS of the theorems: oracle only (both are FINDINGS for inflow angles != 0)
        obl('C19.riemann2d.pattern', None, [], oracle=o_rad.r2_pattern, finding=True),
        obl('C19.riemann2d.regions', None, [], oracle=o_rad.r2_regions, finding=True),
    ],
    corr_models=[],
    oracle_budget=1.5,
    scope='2-D steady Riemann: proved on the generated models of compression_states, expansion_states, PrandtlMeyer_function, '
          'set_starstate_values and of the public IGEOS_Solver._run for all four wave patterns: oblique-shock Rankine-Hugoniot state '
          'and turning angle; isentrope and total enthalpy of fan states (including states inside a fan); slip line carries p_star and '
          'cd_angle on both sides; velocity components / Mach / sound speed / flow angle / sie consistent at every point.  FINDING: the '
          'coded Prandtl-Meyer function has arctan(M^2-1) for arctan sqrt(M^2-1), so the fan turning property is false (negation proved at '
          'witnesses, reproduced by oracles).  ATOMS (oracle only): pressure-deflection intersection and pattern selection, shock-angle '
          'solves, pressure solve inside a fan.',
)
