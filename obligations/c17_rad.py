"""C17 share of work package rad: Su-Olson bounds and monotonicity (oracle only: the interiors are atoms)"""
from obligations import obl
from harness import o_rad

PROP = dict(
    groups=['suolson'],
    obligations=[
        obl('C17.suolson.bounds', None, [], oracle=o_rad.su_bounds),
    ],
    corr_models=[],
    scope='Su-Olson 0 <= v <= u <= 1 and monotonicity in x and tau: oracle on the public call only (the oscillatory integrals are atoms).',
)
