"""C12 — radiative shocks: travelling waves, conserved fluxes, far-field jump conditions (work package rad)"""
from obligations import obl
from harness import o_rad

M = 'EPV.Props.C12.RadShock'
T = 'EPV.C12.'
W = ['ed', 'ned', 'sn', 'ie']
PROP = dict(
    groups=['radshock'],
    obligations=[
        obl('C12.radshock.travelling_wave', M, ['%swrap_%s_travels' % (T, w) for w in W] + ['%swrap_%s_profile' % (T, w) for w in W]
            + ['%swrap_%s_position' % (T, w) for w in W],
            models=['RadWrapED', 'RadWrapNED', 'RadWrapSn', 'RadWrapIE'], oracle=o_rad.rs_shift),
        obl('C12.radshock.jump', M, [T + 'jump_momentum', T + 'jump_energy', T + 'jump_iff', T + 'jump_downstream'],
            models=['RadJump'], tie=o_rad.rs_jump_tie, oracle=o_rad.rs_farfield),
        obl('C12.radshock.ie_jump', M, [T + 'ieX_value', T + 'ie_jump', T + 'ie_rho1_rho0'], models=['RadIEJump']),
        obl('C12.radshock.ed_profile', M, [T + 'ed_density_eq', T + 'ed_fields_eq', T + 'ed_sigma_t_eq', T + 'ed_dxdT_eq', T + 'ed_Fr_eq',
                                           T + 'ed_mass', T + 'ed_momentum_const', T + 'ed_energy_const', T + 'ed_Fr_diffusion'],
            models=['RadED'], tie=o_rad.rs_ed_tie, oracle=o_rad.rs_flux),
        obl('C12.radshock.ed_far_field', M, [T + 'ed_upstream', T + 'ed_downstream', T + 'ed_far_field_jump', T + 'ed_last_node_energy'],
            models=['RadED', 'RadJump']),
        # the energy flux formed with the `Fr` attribute at the last node of an ED profile with an embedded hydrodynamic shock
        obl('C12.radshock.ed_last_node', None, [], oracle=o_rad.rs_ed_last_node, finding=True),
    ],
    corr_models=[],
    oracle_budget=2.0,
    scope='Radiative shocks: PARTIAL by design (DESIGN §4 C12).  Proved: the four public wrappers return a fixed profile displaced by '
          'M0 sqrt(gamma (gamma-1) Cv Tref) t with the INSTANCE parameters and nothing else depends on t (stored profile = uninterpreted '
          'interpolant); momentum_and_energy = 0 iff total momentum and energy fluxes incl. radiation match the upstream state; the '
          'ion-electron downstream state satisfies the hydrodynamic jumps; along the whole ED profile mass, total momentum and total '
          'energy flux are the upstream ones (fnctn_ED.rho is a root of the momentum quadratic, Fr is the energy-flux defect), end states '
          'are the equilibrium states.  ATOMS (oracle on solver attributes only): interiors of the nED / Sn / FLD / ion-electron '
          'profiles, the root solves and ODE integrations.',
)
