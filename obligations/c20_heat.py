"""C20 (heat share) — documented restrictions enforced by ValueError; no NaN/inf for valid in-domain requests."""
from obligations import obl
from harness import o_heat as H

C = 'EPV.C20.'
PROP = dict(
    groups=['heat'],
    obligations=[
        obl('C20.heat.accepts', 'EPV.Props.C20.Heat',
            [C + n for n in ('rod3_leaves', 'rod3_rejects_iff', 'rod3_bc1_welldefined', 'rod3_bc2_welldefined', 'rod3_bc3_welldefined',
                             'rod3_bc4_welldefined', 'sandwich_accepts', 'sandwichHot_accepts', 'sandwichHalf_accepts',
                             'hutchens1_welldefined', 'coef_denominators')],
            models=['Rod3', 'Sandwich3', 'SandwichHot3', 'SandwichHalf3', 'Hutchens1N3'], oracle=H.accepts, tie=H.tie_traced),
        obl('C20.heat.robin_nan', 'EPV.Props.C14.FindingRobin', ['EPV.C14.finding_robin_zero_root'], models=['RodModesGen'],
            oracle=H.robin_nan, finding=True),
    ],
    corr_models=['Sandwich3', 'SandwichHot3', 'SandwichHalf3', 'Hutchens1N3'],
    corr_n=60,
    oracle_budget=0.4,
    scope='C20 heat: on the traced constructor + _run of Rod1D the call raises iff it is the BC2 pattern with unequal end fluxes, and then '
          'ValueError; in the four special cases with L != 0 the selected leaf has no zero denominator; sandwiches and Hutchens 1 '
          'likewise. FINDING: ordinary Robin coefficients give NaN/ZeroDivisionError (fsolve lands on the root mu = 0). L = 0 and b = 0 '
          'are accepted and divide by zero (undocumented, not counted).',
)
