"""C08 (part hydro) — dimensional consistency of Noh, Noh2, Noh2Cog and the Coggeshall solvers whose constants are
all parameters (Cog 1-9, 11, 12, 18-21; Cog 10, 13, 14, 16, 17 hard-wire c and a and are excluded by the property)."""
from obligations import obl
from harness import o_hydroalg as H

M = 'EPV.Props.C08.Hydro'
F = 'EPV.Props.C08.Finding'       # one module per defect: a repair breaks only its own module
T = 'EPV.C08.'
_o = [obl('C08.noh.units', M, [T + 'noh_units', T + 'noh_units_admissible'], ['Noh'], H.units_oracle['Noh'])]
for n in (1, 2, 3, 4, 5, 6, 8, 9, 11, 12, 18, 19, 21):
    _o.append(obl('C08.cog%d.units' % n, M, [T + 'cog%d_units' % n], ['Cog%d' % n], H.units_oracle['Cog%d' % n]))
_o += [
    # the part that holds, and the defect, for the solvers that are NOT covariant as they stand
    obl('C08.noh2.units', F + 'Noh2', [T + 'noh2_units_partial'], ['Noh2'], H.units_oracle['Noh2']),
    obl('C08.noh2.time_unit', F + 'Noh2', [T + 'finding_noh2_time_unit'], ['Noh2'], H.noh2_time_unit, finding=True),
    obl('C08.noh2cog.units', F + 'Noh2', [T + 'noh2cog_units_partial'], ['Noh2Cog'], H.units_oracle['Noh2Cog']),
    obl('C08.noh2cog.time_unit', F + 'Noh2', [T + 'finding_noh2cog_time_unit'], ['Noh2Cog'], H.noh2cog_time_unit, finding=True),
    obl('C08.cog7.units', F + 'Cog7', [T + 'cog7_units_partial', T + 'cog7_density_dimension', T + 'cog7_pressure_dimension',
                              T + 'cog7RhoT_values', T + 'cog7_factor_tied'], ['Cog7'], H.units_oracle['Cog7']),
    obl('C08.cog7.mass_unit', F + 'Cog7', [T + 'finding_cog7_no_mass_scale'], ['Cog7'], H.cog7_mass_unit, finding=True),
    obl('C08.cog20.units', F + 'Cog20', [T + 'cog20_units_partial'], ['Cog20'], H.units_oracle['Cog20']),
    obl('C08.cog20.shock_position', F + 'Cog20', [T + 'finding_cog20_shock_position'], ['Cog20'], H.cog20_shock_position, finding=True),
    obl('C08.cog3.documented_dimensions', F + 'Cog3', [T + 'finding_cog3_documented_dimensions'], ['Cog3'],
        H.cog3_documented_dimensions, finding=True),
]
PROP = dict(
    groups=['hydro', 'hydroinit'],
    obligations=_o,
    corr_models=['Noh', 'Noh2', 'Noh2Cog'] + ['Cog%d' % n for n in (1, 2, 3, 4, 5, 6, 7, 8, 9, 11, 12, 18, 19, 20, 21)],
    corr_n=40,
    oracle_budget=0.4,
    scope='Hydro part: for Noh and Coggeshall 1-6, 8, 9, 11, 12, 18, 19, 21 every returned field of the generated model is '
          'covariant and the decision tree takes the same branch under EVERY positive change of the units of mass, length, '
          'time and temperature, for all real parameters and requests (proved by structural dimensional analysis of the '
          'traced expressions; hand tables of parameter dimensions in Props/C08/Hydro.lean).  Partial + finding: Noh2 and '
          'Noh2Cog (literal collapse time 1: covariant for mass/length only), Cog7 (no input of mass dimension), Cog20 (coded '
          'shock position is a length x time), Cog3 (documented dimensions of b and v are wrong).  Cog10/13/14/16/17 '
          'hard-wire c and a (CGS-eV) and are excluded as the property says.',
)
