"""C20 (burn-time share) — constructors of Kenamond 1-3 and CylindricalExpansion against the documented restrictions;
every rejection is a ValueError; no NaN/inf from the formulas inside the documented domain."""
from obligations import obl
from harness import o_burn as B

_M, _F, _T = 'EPV.Props.C20.Burn', 'EPV.Props.C20.FindingBurn', 'EPV.C20.'   # one module per solver: _M + 'K1' …
_RUN = ['K1d2', 'K1d3', 'K2d2', 'K2d3', 'K3d2', 'K3d3', 'DSDCyl']
_o = [
    obl('C20.burn.k1.constructor', _M + 'K1', [_T + n for n in ('k1init2_accepts_iff', 'k1init3_accepts_iff',
                                                         'k1init2_rejects_valueerror', 'k1init3_rejects_valueerror')],
        ['K1Init2', 'K1Init3'], B.catalogue_k1),
    obl('C20.burn.k2.constructor', _M + 'K2', [_T + n for n in ('k2init_accepts_iff_coded', 'k2init_accepts_of_documented',
                                                         'k2init_rejects_valueerror')], ['K2Init'], B.catalogue_k2),
    obl('C20.burn.k3.constructor', _M + 'K3', [_T + n for n in ('k3init2_accepts_iff', 'k3init3_accepts_iff',
                                                         'k3init2_rejects_valueerror', 'k3init3_rejects_valueerror')],
        ['K3Init2', 'K3Init3'], B.catalogue_k3),
    obl('C20.burn.dsd.constructor', _M + 'DSD', [_T + n for n in ('dsdcylinit_accepts_iff_coded', 'dsdcylinit_accepts_of_documented',
                                                          'dsdcylinit_rejects_valueerror')], ['DSDCylInit'], B.catalogue_dsd),
    # the traced constructor trees against the real constructors (outcome class, boundary and malformed values)
    obl('C20.burn.init_models', tie=B.init_tie),
    obl('C20.burn.k1.run_outcomes', _M + 'K1', [_T + 'k1d2_run_outcomes', _T + 'k1d3_run_outcomes'], ['K1d2', 'K1d3']),
    obl('C20.burn.k2.run_outcomes', _M + 'K2', [_T + 'k2d2_run_outcomes', _T + 'k2d3_run_outcomes'], ['K2d2', 'K2d3']),
    obl('C20.burn.k3.run_outcomes', _M + 'K3', [_T + 'k3d2_run_outcomes', _T + 'k3d3_run_outcomes'], ['K3d2', 'K3d3']),
    obl('C20.burn.dsd.run_outcomes', _M + 'DSD', [_T + 'dsdcyl_run_outcomes'], ['DSDCyl']),
    obl('C20.burn.k1.well_defined', _M + 'K1', [_T + 'k1d2_welldefined', _T + 'k1d3_welldefined'], ['K1d2', 'K1d3'], B.finite['k1']),
    obl('C20.burn.k2.well_defined', _M + 'K2', [_T + 'k2d2_welldefined', _T + 'k2d3_welldefined'], ['K2d2', 'K2d3'], B.finite['k2']),
    obl('C20.burn.k3.well_defined', _M + 'K3', [_T + 'k3d2_welldefined', _T + 'k3d3_welldefined'], ['K3d2', 'K3d3'], B.finite['k3']),
    obl('C20.burn.dsd.well_defined', _M + 'DSD', [_T + 'dsdcyl_welldefined'], ['DSDCyl'], B.finite['dsd']),
    # findings: negation of "accepts -> Documented" at concrete witnesses, reproduced on the real code
    obl('C20.burn.dsd.curvature_not_checked', _F, [_T + n for n in ('dsd_accepts_undocumented_r1', 'dsd_accepts_undocumented_r2',
                                                                    'dsd_not_welldefined_r1', 'dsd_not_welldefined_r2')],
        ['DSDCylInit', 'DSDCyl'], B.finding_dsd, finding=True),
    obl('C20.burn.k2.equal_speeds_accepted', _F, [_T + 'k2_accepts_undocumented_D1_eq_D2'], ['K2Init'], B.finding_k2,
        finding=True),
]
PROP = dict(
    groups=['burn'],
    obligations=_o,
    corr_models=_RUN,
    corr_n=40,
    oracle_budget=0.25,
    scope='Burn share: the traced constructor trees of Kenamond 1, 3 accept exactly the documented parameter sets (geometry '
          'symbolic; both directions); Kenamond 2 and CylindricalExpansion accept exactly the coded sets, which contain the '
          'documented ones — the converse fails (findings: DSD does not check r_1 > alpha_1/D_CJ_1, r_2 > alpha_2/D_CJ_2 and '
          'then returns NaN/inf or raises ZeroDivisionError at the first call; Kenamond 2 accepts D1 = D2 against "D1 > D2"); '
          'every rejecting leaf of the six constructor trees and seven _run trees raises ValueError; on the documented '
          'domain every ok leaf of every _run tree is WellDefined (no zero denominator, negative sqrt, arccos argument '
          'outside [-1,1], log of a non-positive number).  Partial: floating-point overflow and rounding at the acceptance '
          'boundaries; wrong-length dets / t_d lists are checked on the real code only (catalogue oracle).',
)
