"""C07 (part: c07rest) — the route pairs not covered by the other C07 parts: black-box Noh with an ideal gas = Noh (= Cog19);
Planar/Cylindrical/SphericalSedov = Sedov at that geometry; Planar/Cylindrical/SphericalNohBlackBox = NohBlackBoxEos with
that symmetry and geometry; two findings about how the black-box classes select the geometry."""
from obligations import obl
from harness import o_c07rest as H
from harness import o_c16 as H16

T = 'EPV.C07.'
_B, _S, _SG, _W, _WG, _WF = ('EPV.Props.C07.BBNoh', 'EPV.Props.C07.SedovWrappers', 'EPV.Props.C07.SedovWrappersGen',
                             'EPV.Props.C07.BBNohWrappers', 'EPV.Props.C07.BBNohWrappersGen', 'EPV.Props.C07.FindingBBNohWrappers')


def _t(*names):
    return [T + n for n in names]


_RUNS = ['BBRunBase', 'BBRunPlanar', 'BBRunCylindrical', 'BBRunSpherical']
_SED_INIT = ['SedovWPlanarInit', 'SedovG1Init', 'SedovWCylindricalInit', 'SedovG2Init', 'SedovWSphericalInit', 'SedovG3Init']
_SED_RUN = ['SedovWPlanarRun', 'SedovG1Run', 'SedovWCylindricalRun', 'SedovG2Run', 'SedovWSphericalRun', 'SedovG3Run',
            'SedovWSphericalRunSing', 'SedovG3RunSing', 'SedovWSphericalRunVac', 'SedovG3RunVac']
_BB_INIT = ['BBInitPlanar', 'BBInitGen1', 'BBInitCylindrical', 'BBInitGen2', 'BBInitSpherical', 'BBInitGen3']
_BB_RUNG = ['BBRunPlanar', 'BBRunGen1', 'BBRunCylindrical', 'BBRunGen2', 'BBRunSpherical', 'BBRunGen3', 'BBRunBase']

_o = [
    # ---- black-box Noh (ideal gas) = Noh = Cog19 ------------------------------------------------------------------
    obl('C07.bbnoh.root_unique', _B,
        _t('res_ok_iff', 'res_value', 'bbnoh_root_unique', 'bbnoh_root_speed_pos', 'bbnoh_noh_state_is_root', 'bbnoh_approx_root_partial'),
        ['ResPressureIdeal_res'], tie=H16.residual_ties('Pressure', whats=('F',), eos=('ideal',))),
    obl('C07.bbnoh.eq_noh', _B, _t('bbnoh_eq_noh', 'bbnoh_default_eq_noh', 'bbnoh_eq_cog19'),
        ['BBNohIdeal', 'ResPressureIdeal_res', 'Noh', 'Cog19'], H.bbnoh_vs_noh, tie=H16.bb_tie('BBNohIdeal', 'Ideal')),
    obl('C07.bbnoh.public_route', _B,
        _t('default_root_algebra', 'bbrunPlanar_eq_noh', 'bbrunCylindrical_eq_noh', 'bbrunSpherical_eq_noh', 'bbrunBase_eq_noh'),
        _RUNS + ['Noh'], H.bbnoh_vs_noh, tie=H.tie(_RUNS)),
    obl('C07.bbnoh.common_parameters', _B, _t('ic_root_algebra', 'bbrunIC1_eq_noh', 'bbrunIC2_eq_noh', 'bbrunIC3_eq_noh'),
        ['BBRunIC1', 'BBRunIC2', 'BBRunIC3', 'Noh'], H.bbnoh_vs_noh, tie=H.tie(['BBRunIC1', 'BBRunIC2', 'BBRunIC3'])),
    # ---- Sedov wrappers ------------------------------------------------------------------------------------------------
    obl('C07.sedov_wrappers.code', _S,
        _t('sedov_wrappers_inherit', 'sedov_wrappers_present', 'sedov_wrapper_bodies', 'sedov_wrapper_bodies_present'),
        ['Tables', 'C7Table'], tie=H.table_tie),
    obl('C07.sedov_wrappers.attributes', _SG,
        _t('sedovPlanar_init_eq_general', 'sedovCylindrical_init_eq_general', 'sedovSpherical_init_eq_general'),
        _SED_INIT, H.sedov_wrappers, tie=H.tie(_SED_INIT)),
    obl('C07.sedov_wrappers.constants', _S,
        _t('sedovPlanar_constants', 'sedovCylindrical_constants', 'sedovSpherical_constants', 'sedov_no_gap', 'sedov_wrappers_accept'),
        ['SedovWPlanarInit', 'SedovWCylindricalInit', 'SedovWSphericalInit']),
    obl('C07.sedov_wrappers.run', _SG,
        _t('sedovPlanar_run_eq_general', 'sedovCylindrical_run_eq_general', 'sedovSpherical_run_eq_general',
           'sedovSpherical_runSing_eq_general', 'sedovSpherical_runVac_eq_general'),
        _SED_RUN, H.sedov_wrappers, tie=H.tie(_SED_RUN)),
    # ---- black-box Noh wrappers ----------------------------------------------------------------------------------------
    obl('C07.bbnoh_wrappers.code', _W,
        _t('bbnoh_wrappers_inherit', 'bbnoh_wrappers_present', 'bbnoh_wrapper_bodies', 'bbnoh_wrapper_bodies_present',
           'bbnoh_default_dicts_isolated'),
        ['Tables', 'C7Table'], H.default_dicts_do_not_leak, tie=H.table_tie),
    obl('C07.bbnoh_wrappers.attributes', _WG,
        _t('bbinitPlanar_eq_general', 'bbinitCylindrical_eq_general', 'bbinitSpherical_eq_general'),
        _BB_INIT, H.bbnoh_wrappers, tie=H.tie(_BB_INIT)),
    obl('C07.bbnoh_wrappers.fix', _W, _t('bbinit_wrappers_fix', 'bbrun_symmetry_consistent'),
        ['BBInitPlanar', 'BBInitCylindrical', 'BBInitSpherical'] + _RUNS, H.default_dicts_do_not_leak),
    obl('C07.bbnoh_wrappers.run', _WG,
        _t('bbrunPlanar_eq_general', 'bbrunCylindrical_eq_general', 'bbrunSpherical_eq_general', 'bbrunSpherical_eq_base'),
        _BB_RUNG, H.bbnoh_wrappers, tie=H.tie(_BB_RUNG)),
    # ---- FINDINGS ------------------------------------------------------------------------------------------------------
    # the documented parameter `geometry` of NohBlackBoxEos is only range-checked; the geometry used is initial_conditions['symmetry']
    obl('C07.bbnoh_wrappers.geometry_keyword', _WF,
        _t('bbinitGeomOnly_symmetry', 'bbrunGeomOnly_eq_base', 'bbnoh_geometry_keyword_finding'),
        ['BBInitGeomOnly1', 'BBInitGeomOnly2', 'BBInitGeomOnly3', 'BBRunGeomOnly1', 'BBRunGeomOnly2', 'BBRunPlanar', 'BBRunBase'],
        H.geometry_keyword(), tie=H.tie(['BBInitGeomOnly1', 'BBInitGeomOnly2', 'BBInitGeomOnly3', 'BBRunGeomOnly1', 'BBRunGeomOnly2']),
        finding=True),
    # the wrappers write into the caller's dictionary and keep a reference to it
    obl('C07.bbnoh_wrappers.shared_ic', _WF, _t('bbrunSharedIC_symmetries', 'bbnoh_shared_ic_finding', 'bbrunSharedIC_hybrid'),
        ['BBRunSharedIC', 'BBRunPlanar', 'BBRunSpherical'], H.shared_ic(), tie=H.tie(['BBRunSharedIC']), finding=True),
]

PROP = dict(
    groups=['c07rest', 'eos', 'hydro', 'tables'],
    obligations=_o,
    corr_models=[],
    corr_n=60,
    oracle_budget=0.4,
    scope='c07rest.  Black-box Noh, ideal gas: on the accepted domain of the traced pressure_noh_residual with P0 = 0 the only '
          'root is Noh\'s post-shock state (so D > 0 is a conclusion; the spurious Newton limit is not a root) and it is a root; '
          'given that the Newton result is a root, every field of NohBlackBoxEos._run equals the field of Noh (geometry = symmetry + 1) '
          'and of Cog19 (T = (gamma-1) e / Gamma) at every (r, t), for symbolic initial state under the hypothesis that the rho0/u0/p0 '
          'attributes are the initial conditions (not enforced by the code: finding C02.bbnoh.initial_state), and with NO such '
          'hypothesis for the four public routes at the default initial conditions and for the general class given a symbolic '
          'incoming state (rho0, u0) consistently, i.e. the whole parameter set common to Noh and the black-box class '
          '(constructor + solve_jump_conditions + _run traced end to end, Newton loop = atoms).  Newton convergence itself is C16 (approximate roots: _partial).  '
          'Sedov wrappers: same code by the class tables, and the traces of W(gamma) and of Sedov(geometry=k, gamma, rho0=1, omega=0, '
          'eblast = documented E_k) are the same function, attribute by attribute (every constructor path) and for the whole of '
          '_run (standard type for all three, singular and vacuum for the spherical one; root finder / similarity functions / '
          'quadrature atoms as in wp sedov).  Black-box wrappers: same for W(eos, ic) and NohBlackBoxEos(eos, ic + symmetry k-1, '
          'geometry=k), symbolic initial conditions.  Findings: NohBlackBoxEos(eos, geometry=k) ignores k; a user dictionary '
          'shared by two wrappers couples them.',
)
