"""C17 — Guderley and RMTV admissibility (work package `guderley`)"""
from obligations import obl
from harness import o_guderley as G

M = 'EPV.Props.C17.Guderley'
T = 'EPV.C17.'
PROP = dict(
    groups=['guderley'],
    obligations=[
        obl('C17.guderley.signs', M,
            [T + 'guderley_density_pos', T + 'guderley_pressure_nonneg', T + 'guderley_sie_nonneg',
             T + 'guderley_sound_speed_sq', T + 'guderley_sound_speed_nonneg'],
            models=['GudRun', 'GudX', 'GudState'], oracle=G.gud_admissible, tie=G.tie_models),
        obl('C17.guderley.compressive', M, [T + 'converging_shock_compressive', T + 'reflected_shock_compressive'],
            models=['GudJump'], oracle=G.gud_rh),
        obl('C17.rmtv.compressive', 'EPV.Props.C02.RMTV', ['EPV.C02.rmtv_jump_compressive'],
            models=['RmtvJump'], oracle=G.rmtv_admissible),
    ],
    corr_models=[],
    oracle_budget=0.4,
    scope='Guderley: rho > 0, p, e >= 0, c^2 = gamma p/rho >= 0 from the coded formulas given rho0 > 0, gamma > 1, R > 0 '
          '(the interior of the integration is an atom: oracle); both coded shocks are compressive for supersonic upstream '
          'states.  RMTV: the coded isothermal jump is compressive for isothermally supersonic upstream states; signs by oracle.',
)
