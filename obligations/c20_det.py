"""C20 (part: detonation) — restrictions enforced, loud rejections, no NaN/inf inside: EHEP, SDRZ, EP piston, Mader."""
from obligations import obl
from harness import o_detonation as D

PROP = dict(
    groups=['detonation'],
    obligations=[
        obl('C20.ehep.ctor', 'EPV.Props.C20.EHEP',
            ['EPV.C20.ehep_accepts_iff', 'EPV.C20.ehep_documented_accepted', 'EPV.C20.ehep_rejects_loudly',
             'EPV.C20.ehep_boundaries', 'EPV.C20.ehep_init_accepts_iff', 'EPV.C20.ehep_no_nan'],
            ['EHEP', 'EHEPInit'], D.ctor_catalog, tie=D.tie_ehep),
        # FINDING: gamma "must be 3.0" is not checked
        obl('C20.ehep.gamma', 'EPV.Props.C20.FindingEHEP', ['EPV.C20.ehepW_accepted', 'EPV.C20.ehep_gamma_not_enforced'],
            ['EHEP'], D.ehep_gamma, finding=True),
        # FINDING: outside the x-t window (t > tmax, t <= 0, x > xmax) the solver returns finite zeros with region None
        obl('C20.ehep.outside_window', 'EPV.Props.C20.FindingEHEP', ['EPV.C20.ehep_outside_returns_zeros'], ['EHEP'],
            D.ehep_outside, finding=True),
        obl('C20.sdrz.ctor', 'EPV.Props.C20.SDRZ', ['EPV.C20.sdrz_accepts_iff', 'EPV.C20.sdrz_rejects_loudly', 'EPV.C20.sdrz_no_nan'],
            ['SDRZProfile'], D.finite_inside, tie=D.tie_sdrz),
        obl('C20.eppiston.ctor', 'EPV.Props.C20.EPPiston',
            ['EPV.C20.hypo_accepts_iff', 'EPV.C20.ifin_accepts_iff', 'EPV.C20.fin_accepts_iff', 'EPV.C20.hypo_rejects_loudly',
             'EPV.C20.ifin_rejects_loudly', 'EPV.C20.fin_rejects_loudly', 'EPV.C20.epprun_domain'],
            ['EPPistonHypo', 'EPPistonIfin', 'EPPistonFin', 'EPPistonRun'], D.ctor_catalog, tie=D.tie_eppiston_run),
        obl('C20.mader.cell_model', None, [], [], None, tie=D.tie_mader_cells),     # t <= 0 -> NaN lives in the cell loop
        obl('C20.ehep.region_model', None, [], [], None, tie=D.tie_ehep_region),   # region None outside every polygon
        obl('C20.mader.domain', 'EPV.Props.C20.Mader',
            ['EPV.C20.mader_rare_total', 'EPV.C20.mader_plateau_no_nan', 'EPV.C20.mader_fan_no_nan'],
            ['MaderRare'], D.finite_inside, tie=D.tie_mader_rare),
    ],
    corr_models=[],
    oracle_budget=0.4,
    scope='Traced constructors of EHEP, SDRZ, EP piston (three models): accepted iff the documented restrictions hold (EHEP: all '
          'but gamma = 3), every rejection a ValueError, boundary values as documented; EP piston _run raises exactly for '
          't > xmax/wv_el. WellDefined (no zero denominator / negative root) inside the domain: EHEP regions I-V, SDRZ profile, '
          'Mader fan and constant state. FINDINGS: EHEP accepts gamma != 3; EHEP returns finite zeros outside its x-t window.',
)
