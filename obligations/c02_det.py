"""C02 (part: detonation) — SDRZ steady zone, EP piston waves, EHEP detonation front, Mader CJ state."""
from obligations import obl
from harness import o_detonation as D

_E = 'EPV.Props.C02.EPPiston'


def _epp(m):
    return ['EPV.C02.%s_%s' % (m, k) for k in ('hugoniot', 'ey_unique', 'elastic_jump', 'plastic_jump')]


PROP = dict(
    groups=['detonation'],
    obligations=[
        obl('C02.spec.detonation', 'EPV.Spec.Detonation', ['EPV.Spec.SteadyZone.iff_fluxes', 'EPV.Spec.SteadyZone.of_short']),
        obl('C02.sdrz.steady', 'EPV.Props.C02.SDRZ',
            ['EPV.C02.sdrz_leaves', 'EPV.C02.sdrz_steady', 'EPV.C02.sdrz_short', 'EPV.C02.sdrz_lambda',
             'EPV.C02.sdrz_lambda_onto', 'EPV.C02.sdrz_tail_steady'],
            ['SDRZProfile', 'SDRZTail'], D.sdrz_steady, tie=D.tie_sdrz),
        obl('C02.sdrz.dxdt', 'EPV.Props.C02.SDRZ',
            ['EPV.C02.sdrz_tree_eq_L5', 'EPV.C02.sdrz_dxdt_leaf', 'EPV.C02.sdrz_dxdt', 'EPV.C02.sdrz_position',
             'EPV.C02.sdrz_tail_tree_eq_L14', 'EPV.C02.sdrz_tail_dxdt', 'EPV.C02.sdrz_x_continuous'],
            ['SDRZProfile', 'SDRZTail'], D.sdrz_dxdt),
        # FINDING (oracle only: the defect is a read of uninitialised memory in the grid loop, outside any model):
        # for t > 1 on a grid without the point t = 1 `xvec_rel[it1]` is read before it is assigned
        obl('C02.sdrz.x_rel_tail', None, [], [], D.sdrz_tail, finding=True),
        # interpolation back to x (time grid, masks, interp1d): hand model <-> public call, t <= 1
        obl('C02.sdrz.interp_model', None, [], [], None, tie=D.tie_sdrz_interp),
        obl('C02.eppiston.hypo', _E, _epp('hypo'), ['EPPistonHypo'], D.epp_jumps, tie=D.tie_eppiston),
        obl('C02.eppiston.ifin', _E, _epp('ifin'), ['EPPistonIfin'], D.epp_jumps),
        obl('C02.eppiston.fin', _E, _epp('fin'), ['EPPistonFin'], D.epp_jumps),
        obl('C02.eppiston.placement', 'EPV.Props.C02.EPPistonRun',
            ['EPV.C02.epprun_placement', 'EPV.C02.epprun_on_plastic_front', 'EPV.C02.epprun_speeds'],
            ['EPPistonRun'], None, tie=D.tie_eppiston_run),
        obl('C02.ehep.front', 'EPV.Props.C02.EHEP',
            ['EPV.C02.ehep_front_leaves', 'EPV.C02.ehep_front_placement', 'EPV.C02.ehep_front_hasDerivAt',
             'EPV.C02.ehep_front_state', 'EPV.C02.ehep_front_jump'],
            ['EHEP', 'EHEPInit'], D.ehep_front, tie=D.tie_ehep_init),
        obl('C02.mader.cj', 'EPV.Props.C02.Mader',
            ['EPV.C02.mader_leaves', 'EPV.C02.mader_cj_state', 'EPV.C02.mader_cj_jump', 'EPV.C02.mader_fan_head'],
            ['MaderRare'], D.mader_cj3, tie=D.tie_mader_rare),
        # FINDING: for gamma != 3 the head of the coded fan is not the CJ state (u + c = D (gamma+5)/(2 (gamma+1)))
        obl('C02.mader.fan_head_gamma', 'EPV.Props.C02.Mader',
            ['EPV.C02.mader_fan_head_gamma', 'EPV.C02.mader_fan_head_not_cj'], ['MaderRare'], D.mader_cj, finding=True),
    ],
    corr_models=[],
    oracle_budget=0.4,
    scope='SDRZ: mass and momentum flux in the front frame at every reaction progress (all gamma > 1), dx/dt = D - u for the '
          'coded x(t) (generated certificates), on the models run_tvec([t]) (t <= 1) and run_tvec([1, t]) (t >= 1). '
          'EP piston, three elasticity models: constructor in let-normal form, fsolve an atom; elastic precursor and plastic '
          'wave conserve mass, momentum (total stress) and energy, e_y is the unique solution of energy jump + Mie-Gruneisen; '
          'wave placement of _run. EHEP: detonation jump + CJ condition at the edge x = D t taken from the traced polygon '
          'corners. Mader: CJ state from the constant-state branch, jump with q = D^2/(2(gamma^2-1)), fan head for gamma = 3. '
          'FINDINGS: Mader fan for gamma != 3; SDRZ x(t) behind the reaction zone on grids without t = 1 (uninitialised read).',
)
