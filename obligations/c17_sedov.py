"""C17 (Sedov share) — positivity, compressive shock"""
from obligations import obl
from harness import o_sedov

PROP = dict(
    groups=['sedov'],
    obligations=[
        obl('C17.sedov.shock', 'EPV.Props.C17.Sedov',
            ['EPV.C17.sedov_shock_positive', 'EPV.C17.sedov_shock_compressive', 'EPV.C17.sedov_fields_nonneg'],
            models=['SedovShock'], oracle=o_sedov.admissible, tie=o_sedov.tie_models),
    ],
    corr_models=[], corr_n=20, oracle_budget=1.2,
    scope='Sedov: positive shock state, rho2/rho1 = (gamma+1)/(gamma-1) > 1, 0 < u2 < us, on the documented domain; signs of the '
          'similarity functions themselves are atoms (oracle).',
)
