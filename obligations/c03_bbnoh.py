"""C03 (part: black-box Noh) — returned pressure = eos.P(returned density, returned sie) on both sides of the shock."""
from obligations import obl
from harness import o_c16 as H

T = 'EPV.C03.'


def _t(*names):
    return [T + n for n in names]


PROP = dict(
    groups=['eos'],
    obligations=[
        obl('C03.bbnoh.eos', 'EPV.Props.C03.BBNoh',
            _t('bbnoh_ideal_eos', 'bbnoh_nobleAbel_eos', 'bbnoh_cs_eos', 'bbnoh_stiff_eos_partial'),
            ['BBNohIdeal', 'BBNohNobleAbel', 'BBNohCS', 'BBNohStiff', 'EosIdeal_P', 'EosNobleAbel_P', 'EosCS_P', 'EosStiff_P'],
            H.bb_eos(), tie=H.merge(H.bb_tie('BBNohIdeal', 'Ideal'), H.bb_tie('BBNohNobleAbel', 'NobleAbel'),
                                    H.bb_tie('BBNohCS', 'CS'), H.bb_tie('BBNohStiff', 'Stiff'))),
        # FINDING: stiffened gas, cylindrical / spherical: unshocked state off the EOS surface
        obl('C03.bbnoh.stiffened.unshocked', 'EPV.Props.C03.FindingBBNohStiff', _t('bbnoh_stiff_unshocked_finding'),
            ['BBNohStiff', 'EosStiff_P'], H.bb_eos_stiff_curvilinear(), finding=True),
    ],
    corr_models=[],
    corr_n=60,
    oracle_budget=0.35,
    scope='Black-box Noh (_run traced with the Newton result as free symbols, EOS constants symbolic): returned pressure = '
          'eos.P(density, sie) on the shocked side for every EOS, on the unshocked side for the ideal, Noble-Abel and '
          'Carnahan-Starling gases when p0 = 0 or the symmetry is planar (all the residual classes accept); stiffened gas: '
          'planar only (finding for cylindrical/spherical).  Steinberg/aluminium not traced through _run.',
)
