"""C16, second package -- the objects LIVE: EOS constants are changed through the documented setters, residual and
Newton-solver objects are re-used.  Everything in c16.py is about freshly constructed objects; here every object is a
state machine over its attribute dictionary (models of targets/t_eos_b.py, theorems of EPV/Props/C16/Setters*.lean)
and the real objects are driven through random operation sequences (harness/o_c16b.py)."""
from obligations import obl
from harness import o_c16b as B
from py2lean.targets import t_eos_b as TB

E = 'EPV.Props.C16.'
T = 'EPV.C16.'


def _t(*names):
    return [T + n for n in names]


def _models(pred):
    return [m for m, i in TB.SETTER_MODELS.items() if pred(m, i)]


# what the theorems cover (the coverage tie compares this with what introspection finds in the code)
PROVED_EOS = [('carnahan_starling_eos', 'set_new_co_volume'), ('noble_abel_eos', 'set_new_co_volume'),
              ('stiffened_gas_eos', 'set_new_reference_density'), ('stiffened_gas_eos', 'set_new_sound_speed')]
PROVED_RES = [('energy_noh_residual', 'set_new_equation_of_state'), ('energy_noh_residual', 'set_new_initial_conditions'),
              ('pressure_noh_residual', 'set_new_equation_of_state'), ('pressure_noh_residual', 'set_new_initial_conditions')]
PROVED_NEWTON = ['set_external_log_function', 'set_function', 'set_new_initial_guess', 'set_new_max_iteration', 'set_new_tolerance']

_PER_CLASS = ['attrs', 'calls_pure', 'sound', 'reachable_eq_fresh', 'final_gamma', 'interface_after_setters', 'after_setters']
_THEOREMS = {     # EOS class -> (module, theorems)
    'stiffened_gas_eos': (E + 'SettersStiff', _t(*(['stiff_' + n for n in _PER_CLASS] + ['stiffEOSAt_construct', 'stiff_final_example']))),
    'noble_abel_eos': (E + 'SettersNobleAbel', _t(*(['nobleAbel_' + n for n in _PER_CLASS] + ['nobleAbelEOSAt_construct']))),
    'carnahan_starling_eos': (E + 'SettersCS', _t(*(['cs_' + n for n in _PER_CLASS] + ['csEOSAt_construct']))),
}

_o = [
    obl('C16.seq.machine', 'EPV.Lemmas.SetterMachine',
        ['EPV.Setters.reachable_eq_fresh', 'EPV.Setters.method_on_reachable', 'EPV.Setters.invariant_run'],
        tie=B.coverage_tie(PROVED_EOS, PROVED_RES, PROVED_NEWTON)),
    obl('C16.seq.eos.state_models', None,
        models=_models(lambda m, i: i['kind'].startswith('eos_')), tie=B.state_ties),
]
# one obligation per concrete EOS class found in eos_library: classes with setters have theorems, every class is driven
# through operation sequences (for a class without setters the sequences are method calls only)
try:
    _classes = sorted(B.eos_classes())
except Exception as _ex:                      # reported by the coverage tie (C16.seq.machine)
    _classes = []
for _c in _classes:
    _short = TB.short_of(_c)
    _ms = _models(lambda m, i: i.get('cls') == _c and i['kind'].startswith('eos_'))
    if _c in _THEOREMS:
        _o.append(obl('C16.seq.eos.' + _short, _THEOREMS[_c][0], _THEOREMS[_c][1], _ms, B.eos_seq(_c)))
    else:
        _o.append(obl('C16.seq.eos.' + _short, None, models=_ms, oracle=B.eos_seq(_c)))

_RESK = ['attrs', 'accepts_iff', 'construct_eq', 'setIC_eq_construct', 'setEOS_keeps_e0', 'setEOS_eq_construct_iff',
         'mutateEOS_eq_construct_iff', 'consistent_iff_fresh', 'disciplined_apply', 'disciplined_reachable_eq_fresh_partial']
_o += [
    # residual objects: set_new_initial_conditions rebuilds the object from ANY state; with the discipline of
    # solve_jump_conditions (initial conditions re-set after every change of the EOS) reachable = fresh
    obl('C16.seq.residual', E + 'SettersResidual',
        _t(*(['resEnergy_' + n for n in _RESK] + ['resPressure_' + n for n in _RESK])),
        _models(lambda m, i: i['kind'].startswith('res_')), B.res_seq(True)),
    # FINDING: set_new_equation_of_state / a setter of the held EOS object leave the cached e_0 stale
    obl('C16.seq.residual.stale_e0', E + 'SettersResidual',
        _t('resEnergy_setEOS_stale_finding', 'resEnergy_not_sound', 'resPressure_setEOS_stale_finding', 'resPressure_not_sound'),
        _models(lambda m, i: i['kind'].startswith('res_')), B.res_seq(False), finding=True),
    # the Newton solver object: state machine; constructor, every setter (both state shapes) and solve() tied to the traced code
    obl('C16.seq.newton', E + 'SettersNewton',
        _t('newton_fresh_traced', 'newton_setters_traced', 'newton_setters_traced_used', 'newton_attrs', 'solveS_fuel2',
           'solve2_traced', 'solve2_used_eq', 'solve2_ignores_stored_state'),
        _models(lambda m, i: i['kind'].startswith('newton_')), B.newton_seq(True), tie=B.newton_object_tie),
    # re-solve: every solve, from any state, is the fresh solve (solve() resets the convergence state -- repaired in /repo,
    # 53f776b; before, a second solve without a new guess returned the guess after 0 iterations).  The oracle drives
    # sequences WITHOUT the set_new_initial_guess discipline, the recorded witness history first.
    obl('C16.seq.newton.resolve', E + 'SettersNewton',
        _t('solve_leaves_state', 'resolve_repeats', 'run_append', 'tolOK_step', 'tolOK_run', 'configured_eq', 'resolve_eq_fresh',
           'loopS_converged', 'solve_converged_exit', 'second_solve_same_as_first'),
        ['NewtonB_solve2', 'NewtonB_solve2_used', 'NewtonB_init'], B.newton_seq(False)),
    # through NohBlackBoxEos.solve_jump_conditions: set_function; set_new_initial_guess; solve on the instance's solver
    obl('C16.seq.bbnoh', E + 'SettersNewton',
        _t('solve_jump_conditions_eq_fresh', 'solve_jump_conditions_twice', 'solve_jump_conditions_calls'),
        ['BBNohB_solve_twice'], B.bb_seq()),
]

PROP = dict(
    groups=['eos'],
    obligations=_o,
    corr_models=[],
    corr_n=60,
    oracle_budget=0.35,
    scope='Mutable / re-used objects of the black-box Noh solver.  EOS classes with setters (stiffened gas, Noble-Abel, '
          'Carnahan-Starling; every set_* method, found by introspection): constructor, every setter (on a dictionary of '
          'independent symbols), the six interface methods and "call every public method" traced over the ATTRIBUTE '
          'DICTIONARY; proved: methods are pure, after (set_new_X v) (construct c) = construct (c with X := v) on all '
          'attributes, hence by induction over any finite sequence of setter / method calls the object equals the fresh '
          'object of the final constants and every fresh-object theorem (closures inverse, derivatives) transfers.  '
          'Residual classes (energy / pressure): set_new_initial_conditions rebuilds the object from any state and accepts '
          'what the constructor accepts; set_new_equation_of_state and setters of the held EOS leave the cached e_0 stale '
          '(FINDING, proved and reproduced); with the discipline of solve_jump_conditions reachable = fresh.  Newton solver '
          'object: hand state machine tied to the real object on operation sequences and, by theorem, to the traced '
          'constructor, every traced setter and the traced solve() (two updates, symbolic stored state, uninterpreted 1-D '
          'function; both shapes of a reachable state); every solve from ANY state reports what the fresh solver with the '
          'same function / guess / tolerance / max_iterations reports, the traced solve() does not depend on the stored '
          'residual / error, a reported convergence always meets the exit condition with at least one update; every '
          'solve_jump_conditions is a fresh solve (its four calls traced, twice on one instance).  (On the pinned tree the '
          're-solve statement was false -- repaired in /repo by 53f776b; the oracle keeps the witness history.)  Oracles '
          'drive the real objects through random operation sequences (shrunk to minimal ones on '
          'failure) and compare with fresh objects bit for bit.',
    trusted_extra=['object state = attribute dictionary: methods are functions of vars(self) and their arguments (class-level or '
                   'module-level caches are outside the traced state; the sequence oracles re-visit a pool of states so that an '
                   'argument-keyed cache would be hit)',
                   'a setter of the EOS object a residual holds is modelled as replacing the closure the residual sees '
                   '(Python reference semantics), no residual method runs'],
)
