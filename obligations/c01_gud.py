"""C01 — Guderley pre- and post-reflection flow (work package `guderley`)"""
from obligations import obl
from harness import o_guderley as G

M = 'EPV.Props.C01.Guderley'
T = 'EPV.C01.'
GUD = ['GudRun', 'GudX', 'GudState', 'GudJump', 'GudG']
PROP = dict(
    groups=['guderley'],
    obligations=[
        obl('C01.guderley.euler_lazarus', M,
            [T + 'guderley_euler_lazarus_partial', T + 'solvesAt_of_solvesG', T + 'fields_normal'],
            models=GUD, oracle=G.gud_pde_lazarus, tie=G.tie_models),
        obl('C01.guderley.system_consistency', M,
            [T + 'f_eq_g', T + 'f_eq_g_in_w', T + 'energy_integral_logderiv', T + 'energy_is_integral',
             T + 'energy_integral_conserved', T + 'energy_leaves', T + 'chisnell_is_phase_plane_of_lazarus',
             T + 'phase_plane_of_g'],
            models=['GudF', 'GudG', 'GudEnergy', 'GudFe']),
        obl('C01.guderley.solver_time', M,
            [T + 'finding_guderley_solver_time', T + 'finding_guderley_solver_time_witness'],
            models=GUD, oracle=G.gud_pde_solver, finding=True),
    ],
    corr_models=[],
    oracle_budget=0.4,
    scope='Guderley (partial): for ANY (V, C, R) solving the traced right-hand side ramsey.g (with the globals state sets) '
          'the fields assembled by the traced _run -> guderley_1d -> state chain satisfy mass, momentum and energy balance '
          'in LAZARUS time, every real geometry, gamma, rho0, lambda; solve_ivp, eexp, get_shock_position are atoms.  The right-hand '
          'side f used to find B is the same system as g (also in the variable w), and the adiabatic integral ramsey.energy '
          'checks is a first integral of it; the Chisnell right-hand side fe of eexp.py is the phase-plane form of the same system. '
          'Finding: in the solver\'s own time argument t = 0.750024322 (t_L + 1) the equations are violated (velocities are '
          'returned per unit Lazarus time).',
)
