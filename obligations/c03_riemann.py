"""C03 (part riemann) — EOS consistency of the 1-D Riemann solvers: ideal gas in every region with each side's
own gamma; JWL closure functions."""
from obligations import obl
from harness import o_riemann as R

# generated models (group 'riemann') that EPV.Lemmas.Riemann imports: every theorem below depends on them
BASE = ['RiemSound', 'RiemSie', 'RiemShock', 'RiemRare', 'RiemRhoShock', 'RiemRhoRare', 'RiemShockVel', 'RiemFan', 'RiemUSCN', 'RiemUNCS', 'RiemUNCR', 'RiemURCN', 'RiemURCVR', 'RiemSCS', 'RiemSCR', 'RiemRCS', 'RiemRCR', 'RiemSetup']

M = 'EPV.Props.C03.Riemann'
T = 'EPV.C03.Riemann.'
JWL = ['RiemJwlFun', 'RiemJwlDfun', 'RiemSieJWL', 'RiemSoundJWL', 'RiemDsdrJWL', 'RiemDsdpJWL', 'RiemDsdrIG', 'RiemDsdpIG']

PROP = dict(
    groups=['riemann'],
    obligations=[
        obl('C03.riemann_ig.closures', M,
            [T + 'riemann_sie_eos', T + 'riemann_sound_sq', T + 'riemann_ig_general_sound', T + 'riemann_setup'],
            BASE + ['RiemDsdrIG', 'RiemDsdpIG'], R.eos),
        obl('C03.riemann_ig.regions', M, [T + 'solve_sie', T + 'solve_eos'], BASE, R.eos),
        obl('C03.riemann_jwl.sie', M, [T + 'jwl_sie_inverts'], BASE + JWL, R.jwl),
        obl('C03.riemann_jwl.dfdr', M, [T + 'jwl_dfdr', T + 'jwlF_leaves'], BASE + JWL, R.jwl),
        obl('C03.riemann_jwl.sound', M, [T + 'jwl_dsdr', T + 'jwl_dsdp', T + 'jwl_sound_sq'], BASE + JWL, R.jwl),
        # FINDING: identical (p, rho, u), unequal gammas: left gas returned with the right gas's energy
        obl('C03.riemann_ig.identical_states', 'EPV.Props.C03.FindingRiemannIdentical',
            [T + 'finding_identical_states_eos'], ['RiemShockVel', 'RiemSCS', 'RiemShock', 'RiemSie'], R.identical_eos,
            finding=True),
        obl('C03.riemann.tie.helpers', models=BASE + JWL, tie=R.tie_models(BASE + JWL)),
        obl('C03.riemann.tie.assembly', tie=R.tie_assembly),
    ],
    corr_models=[],
    oracle_budget=0.4,
    scope='Riemann part: sie inverts p = (gamma-1) rho e and sound_speed^2 = gamma p/rho (traced functions); in EVERY region '
          'of the assembled ideal-gas solution (constant states, star states, fan interiors; all four patterns; unequal '
          'gammas) p = (gamma_side - 1) rho e; JWL: sie inverts the JWL pressure form, JWL_dfdr is the derivative of JWL_f '
          '(certificate), dsdr_cP/dsdp_cR are the partial derivatives of sie and sound_speed^2 is the general formula.',
)
