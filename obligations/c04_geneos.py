"""C04 (part geneos, partial) — integral conservation for the general-EOS Riemann solver, pinned to the model of the
driver's assembly (complements obligations/c04.py: C04.riemann_gen.*)."""
from obligations import obl
from harness import o_geneos as G
from obligations.c07_geneos import BASE, GEN, names

M = 'EPV.Props.C04.RiemannGenModel'
T = 'EPV.C04.RiemannGenModel.'
C04GEN = ['RiemDsdrIG', 'RiemDsdpIG', 'RiemDsdrJWL', 'RiemDsdpJWL']

PROP = dict(
    groups=['riemann'],
    obligations=[
        obl('C04.geneos.closure', M,
            names(T, 'closureOf_lawful closureOf_sie closureOf_sound genState_eq left_shock_order right_shock_order '
                     'left_half_shock right_half_shock left_half_fan right_half_fan'), BASE + GEN + C04GEN, G.conservation),
        obl('C04.geneos.conservation', M,
            names(T, 'gen_model_scs_conservation_partial gen_model_scr_conservation_partial '
                     'gen_model_rcs_conservation_partial gen_model_rcr_conservation_partial ex_exactFanL'),
            BASE + GEN + C04GEN, G.conservation),
        obl('C04.geneos.nodes', M,
            names(T, 'xi_le_iff row_xi gen_model_scs_nodes_partial gen_model_scr_nodes_partial gen_model_rcs_nodes_partial '
                     'gen_model_rcr_nodes_partial'), BASE + GEN + C04GEN, G.conservation),
        obl('C04.geneos.tie', tie=G.tie_geneos),
    ],
    corr_models=[],
    oracle_budget=0.4,
    scope='GenEOS part (PARTIAL): the self-similar solution made of the pieces of the hand model of the general-EOS driver '
          '(its own Vregs incl. the == side detection, its own constant states with the traced sie, a fan function solving the '
          'traced drdp_dudp between the model\'s head and tail speeds) satisfies the C04 conservation formula for all four '
          'patterns, ideal gas and JWL; and the values the driver\'s reg_state_geos sequence returns at its grid nodes (outside '
          'the smeared cells; fans: at table rows lying on the fan) ARE values of that conservative solution. Conditional on '
          'exact atoms (HugoniotAtom, LeftFan/RightFan, Crossing), L != R; what the driver returns between samples is outside '
          '(oracle: quadrature of the real solver\'s output within the grid resolution).',
)
