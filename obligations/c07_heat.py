"""C07 (heat share) — the planar sandwiches = Rod1D with the mapped boundary parameters; Rod BC3 = mirror image of BC4."""
from obligations import obl
from harness import o_heat as H

C = 'EPV.C07.'
PROP = dict(
    groups=['heat'],
    obligations=[
        obl('C07.heat.sandwich_is_rod', 'EPV.Props.C07.Heat',
            [C + n for n in ('sandwich_mapping', 'sandwichHot_mapping', 'sandwichHalf_mapping', 'sandwich_coefficients',
                             'sandwich3_eq_model', 'sandwichHot3_eq_model', 'sandwichHalf3_eq_model',
                             'rod3_bc1', 'rod3_bc2', 'rod3_bc3', 'rod3_bc4',
                             'sandwich3_eq_rod3', 'sandwichHot3_eq_rod3', 'sandwichHalf3_eq_rod3')],
            models=['SandwichInit', 'SandwichHotInit', 'SandwichHalfInit', 'Sandwich3', 'SandwichHot3', 'SandwichHalf3', 'Rod3'],
            oracle=H.sandwich_vs_rod, tie=H.tie_sandwich),
        obl('C07.heat.bc3_mirror_bc4', 'EPV.Props.C07.Heat', [C + 'bc3B_eq_mirror', C + 'rodBC3_eq_mirror_rodBC4'],
            oracle=H.bc3_vs_bc4, tie=H.tie_rod),
    ],
    corr_models=['Sandwich3', 'SandwichHot3', 'SandwichHalf3'],
    corr_n=60,
    oracle_budget=0.4,
    scope='C07 heat: constructor mappings TB/TT/F/FT -> (alpha, beta, gamma) traced and proved; the traced end-to-end Nsum = 3 models '
          'of the three sandwiches equal the traced Rod1D at the mapped parameters and the hand model; Rod BC3 at x equals Rod BC4 '
          'with the ends exchanged at L - x, term by term for every truncation order N (hand model).',
)
