"""C09 (part geneos, partial) — Galilean and mirror symmetry of the general-EOS Riemann driver's sign logic and assembly."""
from obligations import obl
from harness import o_geneos as G
from obligations.c07_geneos import BASE, GEN, names

M = 'EPV.Props.C09.RiemannGen'
T = 'EPV.C09.RiemannGen.'

PROP = dict(
    groups=['riemann'],
    obligations=[
        obl('C09.geneos.boost.sign_logic', M,
            names(T, 'isLeft_boost shockSpeed_boost starVelocity_boost hugoniotAtom_boost isentrope_boost fanAtom_boost'),
            BASE + GEN, G.boost),
        obl('C09.geneos.boost.vregs', M,
            names(T, 'side_boost vHeadL_boost vHeadR_boost vTailL_boost vTailR_boost vShockL_boost vShockR_boost vregs_boost'),
            BASE + GEN, G.boost),
        obl('C09.geneos.boost.solution', M,
            names(T, 'xpos_boost st_boost lerpS_boost fanTab_boost regions_boost solveAtNode_boost_partial'), BASE + GEN, G.boost),
        obl('C09.geneos.mirror.sign_logic', M,
            names(T, 'mirrorState_mirrorState mirror_mirror mirrorAtoms_mirrorAtoms isLeft_mirror_left isLeft_mirror_right '
                     'shockSpeed_mirror_left shockSpeed_mirror_right starVelocity_mirror_left starVelocity_mirror_right '
                     'hugoniotAtom_mirror_left hugoniotAtom_mirror_right isentrope_mirror'), BASE + GEN, G.mirror),
        obl('C09.geneos.mirror.vregs', M,
            names(T, 'side_mirror vHeadL_mirror vHeadR_mirror vTailL_mirror vTailR_mirror vShockL_mirror vShockR_mirror '
                     'vregs_mirror_partial'), BASE + GEN, G.mirror),
        obl('C09.geneos.mirror.solution', M,
            names(T, 'xpos_neg sorted_reflect fanTab_mirror_LR fanTab_mirror_RL mem_reflect contact_mirror '
                     'gen_mirror_rcs_partial gen_mirror_scr_partial gen_mirror_scs_partial gen_mirror_rcr_partial'),
            BASE + GEN, G.mirror),
        obl('C09.geneos.tie', tie=G.tie_geneos),
    ],
    corr_models=[],
    oracle_budget=0.4,
    scope='GenEOS part (PARTIAL): in the hand model of the general-EOS driver (tied to GenEOS_Solver) the == side detection of '
          'shock_speed / star_velocity gives the same answer in a boosted frame and the mirror-image answer for the mirrored '
          'problem when L != R; Vregs shift by v, resp. are reversed and negated (crossing ux1 = ux2); exact atoms transform '
          'into exact atoms; the WHOLE reg_state_geos sequence of the boosted problem at the translated node on the translated '
          'grid returns the boosted state from the same call; the mirrored problem at the reflected node returns the mirror '
          'image in every constant region and at the rows of the fan tables (RCS <-> SCR, SCS, RCR). The real grid is not '
          'transported with the problem (window rule 1.1 * Xregs, node at 0): oracles on the real solver with the table '
          'resolution. L = R excluded (known identical-states finding).',
)
