"""C17 (part: detonation) — admissibility of EHEP, Mader, SDRZ, EP piston."""
from obligations import obl
from harness import o_detonation as D

PROP = dict(
    groups=['detonation'],
    obligations=[
        obl('C17.ehep.admissible', 'EPV.Props.C17.EHEP',
            ['EPV.C17.ehep_admissible_of_cs', 'EPV.C17.ehep_cs_II', 'EPV.C17.ehep_II_unclamped_negative', 'EPV.C17.ehep_cs_III',
             'EPV.C17.ehep_cs_I', 'EPV.C17.ehep_cs_V', 'EPV.C17.ehep_cs_IV'],
            ['EHEP'], D.ehep_admissible, tie=D.tie_ehep),
        obl('C17.mader.fan', 'EPV.Props.C17.Mader',
            ['EPV.C17.mader_fan_mean_value', 'EPV.C17.mader_profile_strictMono', 'EPV.C17.mader_fan_between',
             'EPV.C17.mader_fan_positive', 'EPV.C17.mader_plateau_positive'],
            ['MaderRare'], D.mader_monotone, tie=D.tie_mader_rare),
        obl('C17.mader.fan_range', None, [], [], D.mader_between_fan),
        obl('C17.ehep.region_model', None, [], [], None, tie=D.tie_ehep_region),
        # FINDING: the cell straddling the tail of the Taylor wave leaves the range of the states it lies between
        obl('C17.mader.transition_cell', 'EPV.Props.C17.FindingMader',
            ['EPV.C17.maderW_leaf', 'EPV.C17.maderW_velocity', 'EPV.C17.maderW_sound_speed',
             'EPV.C17.mader_transition_cell_not_between'],
            ['MaderRare'], D.mader_transition, finding=True),
        obl('C17.sdrz.monotone', 'EPV.Props.C17.SDRZ',
            ['EPV.C17.sdrz_positive', 'EPV.C17.sdrz_tail_positive', 'EPV.C17.sdrz_lambda_strictMono', 'EPV.C17.sdrz_monotone',
             'EPV.C17.sdrz_tail_is_cj'],
            ['SDRZProfile', 'SDRZTail'], D.sdrz_monotone, tie=D.tie_sdrz),
        # FINDING: admissible weak pistons (0 <= up < vel_y) get an expansion "plastic wave" (rho2 < rho_y, p2 < p_y)
        obl('C17.eppiston.weak_piston', 'EPV.Props.C17.FindingEPPiston',
            ['EPV.C17.weak_piston_expansive', 'EPV.C17.weak_piston_witness', 'EPV.C17.weak_piston_not_compressive'],
            ['EPPistonIfin'], D.epp_weak_piston, finding=True),
        obl('C17.eppiston.compressive', 'EPV.Props.C17.EPPiston',
            ['EPV.C17.hypo_yield_compressive', 'EPV.C17.ifin_yield_compressive', 'EPV.C17.epp_finite_yield_pos',
             'EPV.C17.fin_yield_compressive', 'EPV.C17.hypo_plastic_compressive', 'EPV.C17.ifin_plastic_compressive',
             'EPV.C17.fin_plastic_compressive'],
            ['EPPistonHypo', 'EPPistonIfin', 'EPPistonFin'], [D.epp_compressive, D.epp_profile], tie=D.tie_eppiston),
    ],
    corr_models=[],
    oracle_budget=0.4,
    scope='EHEP: all fields non-negative as soon as the sound speed is; cs >= 0 in region II by the clamp (unconditional), in III '
          'unconditionally, in I, IV, V under the region half-planes (IV needs up <= D/4, i.e. the documented gamma = 3). Mader: fan '
          'values are interior values of a strictly monotone profile (between the cell-edge values, positive); constant state '
          'positive. SDRZ: positive, strictly monotone in the reaction progress, tail = CJ state. EP piston: rho_y > rho0 per model '
          '(hyperIfin needs Y < 2G; hyperFin from the fsolve atom), rho2 > rho_y for vel_y < up < wv_pl. '
          'FINDINGS: Mader transition cell; EP piston with an admissible weak piston (up < vel_y).',
)
