"""C07 (burn-time share) — 2-D and 3-D burn-time solvers agree on a common plane."""
from obligations import obl
from harness import o_burn as B

_M, _T = 'EPV.Props.C07.Burn', 'EPV.C07.'
_o = [
    obl('C07.burn.k1', _M, [_T + 'k1_plane', _T + 'k1_plane_positions', _T + 'k1_plane_outcome'], ['K1d2', 'K1d3'],
        B.plane['k1']),
    obl('C07.burn.k2', _M, [_T + 'k2_plane', _T + 'k2_plane_outcome', _T + 'k2_meridian'], ['K2d2', 'K2d3'], B.plane['k2']),
    obl('C07.burn.k3', _M, [_T + 'k3_plane', _T + 'k3_plane_outcome'], ['K3d2', 'K3d3'], B.plane['k3']),
]
PROP = dict(
    groups=['burn'],
    obligations=_o,
    corr_models=['K1d2', 'K1d3', 'K2d2', 'K2d3', 'K3d2', 'K3d3'],
    corr_n=60,
    oracle_budget=0.3,
    scope='Burn share: the 3-D traces of Kenamond 1 and 3 with the detonator in the plane z = 0, evaluated on that plane, '
          'equal the 2-D traces (burn time, outcome; all real parameters); Kenamond 2 (detonators on the y axis in 2-D, on '
          'the z axis in 3-D): the 3-D trace on the plane y = 0 in the coordinates (x, z) is the 2-D trace, and in general '
          't3d(x, y, z) = t2d(sqrt(x^2+y^2), z).  The DSD cylinder has a 2-D implementation only.',
)
