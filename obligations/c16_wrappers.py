"""C16 — the geometry wrappers solve the jump conditions of THEIR geometry (real code)"""
from obligations import obl
from harness import o_c07rest

PROP = dict(
    groups=[],
    obligations=[obl('C16.bbnoh.wrapper_geometry', oracle=o_c07rest.bbnoh_wrappers)],
    corr_models=[],
    scope='Planar/Cylindrical/SphericalNohBlackBox against the general class with that geometry, from the same Newton start, with '
          'default and user initial conditions incl. dictionaries that carry a foreign `symmetry` key: same attributes, same returned '
          'fields (the jump conditions solved are those of the wrapper\'s geometry).  Oracle shared with C07.',
)
