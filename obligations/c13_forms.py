"""C13 — the value at a point may not depend on how the request is written down (real code)"""
from obligations import obl
from harness import o_c06, o_burn

PROP = dict(
    groups=[],
    obligations=[obl('C13.request_forms', oracle=o_c06.batch_for('kenamond', 'dsd')),
                 obl('C13.reparameterised_instance', oracle=o_burn.reparam)],
    corr_models=[],
    scope='The theorems of this property are statements about points; the burn-time solvers (Kenamond 1-3, DSD) are called here with the same points in other '
          'forms (shuffled, reversed, inside another batch, duplicated, alone, as an integer array, through one array object that is '
          'updated in place between two calls, on a used object): the values must agree, otherwise the property does not hold at the '
          'points as the user wrote them.  Also (seeded C13-10): an instance of Kenamond 1, Kenamond 3 or the DSD cylinder whose public parameter attributes were '
          'set to another admissible parameter set must return what a fresh instance of that set returns (the solvers read their attributes at call time; '
          'a value remembered from construction yields burn times earlier than t_d and a jump at the interface).  Oracle only (the point-wise model `call f pts` is C05/C06).',
)
