"""C07 (part riemann, partial) — the ideal-gas and the general-EOS Riemann solver agree on ideal-gas data."""
from obligations import obl
from harness import o_riemann as R

# generated models (group 'riemann') that EPV.Lemmas.Riemann imports: every theorem below depends on them
BASE = ['RiemSound', 'RiemSie', 'RiemShock', 'RiemRare', 'RiemRhoShock', 'RiemRhoRare', 'RiemShockVel', 'RiemFan', 'RiemUSCN', 'RiemUNCS', 'RiemUNCR', 'RiemURCN', 'RiemURCVR', 'RiemSCS', 'RiemSCR', 'RiemRCS', 'RiemRCR', 'RiemSetup']

M = 'EPV.Props.C07.Riemann'
T = 'EPV.C07.Riemann.'
GEN = ['RiemShockJumpIG', 'RiemStarVelIG', 'RiemOdeIG']

PROP = dict(
    groups=['riemann'],
    obligations=[
        obl('C07.riemann.hugoniot_root', M, [T + 'hugoniot_root_partial', T + 'rhoShock_ne'], BASE + GEN, R.ig_vs_gen),
        obl('C07.riemann.star_velocity', M, [T + 'star_speeds', T + 'star_velocity_partial', T + 'starvel_leaves'],
            BASE + GEN, R.c07_helpers),
        obl('C07.riemann.rarefaction_ode', M,
            [T + 'rarefaction_ode_density_partial', T + 'rarefaction_ode_velocity_partial',
             T + 'rarefaction_ode_velocity_right_partial'], BASE + GEN, R.c07_helpers),
        obl('C07.riemann.tie.helpers', models=BASE + GEN, tie=R.tie_models(GEN + ['RiemRhoShock', 'RiemShock', 'RiemRare',
                                                                                   'RiemRhoRare', 'RiemSound'])),
    ],
    corr_models=[],
    oracle_budget=0.4,
    scope='Riemann part (PARTIAL): for problem=igeos the only root (other than rho0) of shock_jump is rho_star_shock, '
          'star_velocity at that density is u0 -/+ shock(px,...), and the closed forms rho_star_rarefaction/rarefaction solve '
          'drdp_dudp with the right initial values; the P-U table interpolation, its intersection and the array splicing of '
          'RiemannGenEOS.driver are numerical atoms / grid logic outside the model (oracle: the two public solvers agree).',
)
