"""C02 (part riemann) — Rankine–Hugoniot relations of the 1-D Riemann solvers (ideal gas, all four patterns,
unequal gammas; general-EOS helper functions)."""
from obligations import obl
from harness import o_riemann as R

# generated models (group 'riemann') that EPV.Lemmas.Riemann imports: every theorem below depends on them
BASE = ['RiemSound', 'RiemSie', 'RiemShock', 'RiemRare', 'RiemRhoShock', 'RiemRhoRare', 'RiemShockVel', 'RiemFan', 'RiemUSCN', 'RiemUNCS', 'RiemUNCR', 'RiemURCN', 'RiemURCVR', 'RiemSCS', 'RiemSCR', 'RiemRCS', 'RiemRCR', 'RiemSetup']

M = 'EPV.Props.C02.Riemann'
MC = 'EPV.Props.C02.RiemannCurves'
MS = 'EPV.Props.C02.RiemannSpec'
T = 'EPV.C02.Riemann.'
GEN = ['RiemShockJumpIG', 'RiemShockJumpJWL', 'RiemShockSpeedIG', 'RiemShockSpeedJWL', 'RiemStarVelIG', 'RiemStarVelJWL',
       'RiemSieJWL']

PROP = dict(
    groups=['riemann'],
    obligations=[
        obl('C02.riemann_ig.shock.left', M, [T + 'left_shock_rh'], BASE, R.rh),
        obl('C02.riemann_ig.shock.right', M, [T + 'right_shock_rh'], BASE, R.rh),
        obl('C02.riemann_ig.star_velocity', M, [T + 'scs_ux', T + 'scr_ux', T + 'rcs_ux', T + 'rcr_ux'], BASE, R.rh),
        obl('C02.riemann_ig.scs.waves', M, [T + 'scs_waves'], BASE, R.rh),
        obl('C02.riemann_ig.scr.waves', M, [T + 'scr_waves'], BASE, R.rh),
        obl('C02.riemann_ig.rcs.waves', M, [T + 'rcs_waves'], BASE, R.rh),
        obl('C02.riemann_ig.rcr.waves', M, [T + 'rcr_waves'], BASE, R.rh),
        obl('C02.riemann_gen.shock_jump', M, [T + 'jump_form', T + 'shock_jump_ig', T + 'shock_jump_jwl'], BASE + GEN, R.c07_helpers),
        obl('C02.riemann_gen.shock_speed', M,
            [T + 'mom_of_speed', T + 'shock_speed_ig', T + 'shock_speed_jwl', T + 'flux_balance',
             T + 'star_velocity_ig', T + 'star_velocity_jwl'], BASE + GEN, R.c07_helpers),
        # the star state is the intersection of the wave curves of Spec.Riemann (jump conditions / isentrope)
        obl('C02.riemann_ig.wave_curves', MC,
            [T + 'sie_eIG', T + 'shock_branch_unique', T + 'isentrope_iff', T + 'shock_branch_of_formula',
             T + 'shock_branch_iff', T + 'fan_branch_iff'], BASE, R.rh),
        obl('C02.riemann_ig.meet', MC, [T + 'scs_meet', T + 'scr_meet', T + 'rcs_meet', T + 'rcr_meet'], BASE, R.rh),
        # the same shocks/contact in the vocabulary of EPV.Spec.Jump: D = d/dt of the coded position
        obl('C02.riemann_ig.spec_jump', MS,
            [T + 'rh_iff_spec', T + 'position_hasDerivAt', T + 'left_shock_spec', T + 'scs_right_shock_spec',
             T + 'rcs_right_shock_spec', T + 'contact_spec'], BASE, R.rh),
        # FINDING: identical (p, rho, u), unequal gammas: the interface is moved with ur - ar; energy jump fails there
        obl('C02.riemann_ig.identical_states', 'EPV.Props.C02.FindingRiemannIdentical',
            [T + 'finding_identical_states_jump'], ['RiemShockVel', 'RiemSCS', 'RiemShock', 'RiemSie'], R.identical_rh,
            finding=True),
        # ties: Float twins of the function models vs the real functions; hand model of the assembly vs the real driver
        obl('C02.riemann.tie.helpers', models=BASE + GEN, tie=R.tie_models(BASE + GEN)),
        obl('C02.riemann.tie.assembly', tie=R.tie_assembly),
    ],
    corr_models=[],
    oracle_budget=0.4,
    scope='Riemann part: each shock the ideal-gas driver builds (rho_star_shock, shock_velocity, ux = ul -/+ shock) satisfies '
          'mass, momentum and energy jumps with that side\'s gamma; with the atom hypothesis X_call px = 0 the right-hand '
          'shock joins the right state to the star state the driver installs; in the assembled solution (hand model over R, '
          'tied to RiemannIGEOS.driver and IGEOS_Solver) every wave of every pattern obeys its jump condition and the contact '
          'carries px, ux and moves with ux; for each pattern X_call px = 0 <-> the left and right wave curves of Spec.Riemann '
          '(Rankine-Hugoniot + Lax orientation; isentrope + Riemann invariant) meet at px, incl. uniqueness on the Hugoniot; '
          'general EOS: shock_jump = 0 is the Hugoniot energy equation for the traced sie '
          '(ideal gas and JWL), shock_speed/star_velocity are the mass and momentum jumps.  (P): L = R in (p, rho, u) is '
          'excluded by hypothesis (q.Distinct).',
)
