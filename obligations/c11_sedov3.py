"""C11 — Sedov energy statement on the code's own similarity functions and alpha (work package sedov3)"""
from obligations import obl
from harness import o_sedov3

C = 'EPV.C11.'
E = 'EPV.Sedov.Energy.'
FUNCS = ['SedovFuncs', 'SedovFuncsO2', 'SedovFuncsO3']
PROP = dict(
    groups=['sedov'],
    obligations=[
        obl('C11.sedov3.energy', 'EPV.Props.C11.SedovEnergyCode',
            [C + t for t in ('sedov_energy_code', 'sedov_energy_code_standard', 'sedov_energy_code_vacuum',
                             'sedov_energy_code_omega2', 'sedov_energy_code_omega3', 'energy_of_evals', 'init_alpha',
                             'sedov_eval_of_substitution_standard', 'sedov_eval_of_substitution_vacuum',
                             'code_integrand_is_leaf1', 'std_of_c10', 'vac_of_c11', 'quad_limits')],
            models=FUNCS + ['SedovInit', 'SedovConsts', 'SedovShock', 'SedovQuad'],
            oracle=o_sedov3.quad_atom, tie=o_sedov3.tie_models),
        obl('C11.sedov3.band', 'EPV.Props.C11.SedovEnergyCode', [C + 'sedov_energy_band_omega3_partial', C + 'energy_of_evals'],
            models=['SedovInit', 'SedovShock', 'SedovConsts', 'SedovFuncsO3'], oracle=o_sedov3.band),
        obl('C11.sedov3.lemmas.band', 'EPV.Lemmas.SedovEnergyBand',
            [E + t for t in ('tL_pos_band', 'g_continuousOn3', 'o3_band_branch', 'eval_o3_band', 'exists_funcs_o3_band')],
            models=['SedovFuncsO3']),
        obl('C11.sedov3.lemmas.abstract', 'EPV.Lemmas.SedovEnergyAbstract',
            [E + t for t in ('integrable_mul_deriv_nonneg', 'integrable_mul_deriv_nonpos', 'subst_mono', 'subst_anti')]),
        obl('C11.sedov3.lemmas.branch', 'EPV.Lemmas.SedovEnergy',
            [E + t for t in ('mass_integrable_of_exact_nonneg', 'mass_integrable_of_exact_nonpos', 'mass_integrable_of_continuous',
                             'Branch.powDeriv', 'Branch.integrable_mono', 'Branch.integrable_anti', 'branch_mono', 'branch_anti',
                             'integral_nonneg_of_Ioo', 'Branch.pos_mono', 'Branch.pos_anti', 'extend_hole',
                             'exists_param_functions', 'Branch.injOn_mono', 'Branch.injOn_anti', 'alphaCode_pos',
                             'energy_of_alpha')],
            models=['SedovShock']),
        obl('C11.sedov3.lemmas.std', 'EPV.Lemmas.SedovEnergyStd',
            [E + t for t in ('dlamdv_eq', 'efun01_eq', 'efun02_eq', 'h_continuousOn_std', 'leaf1_of_interior', 'std_branch',
                             'eval_std', 'exists_funcs_std')],
            models=['SedovFuncs']),
        obl('C11.sedov3.lemmas.vac', 'EPV.Lemmas.SedovEnergyVac',
            [E + t for t in ('h_continuousOn_vac', 'vac_branch', 'eval_vac', 'exists_funcs_vac')],
            models=['SedovFuncs']),
        obl('C11.sedov3.lemmas.omega2', 'EPV.Lemmas.SedovEnergyO2',
            [E + t for t in ('dlamdv_eq2', 'h_pos2', 'efun01_eq2', 'efun02_eq2', 'h_continuousOn2', 'leaf1_of_interior2',
                             'o2_branch', 'eval_o2', 'exists_funcs_o2')],
            models=['SedovFuncsO2']),
        obl('C11.sedov3.lemmas.omega3', 'EPV.Lemmas.SedovEnergyO3',
            [E + t for t in ('dlamdv_eq3', 'h_pos3', 'efun01_eq3', 'efun02_eq3', 'h_continuousOn3', 'leaf1_of_interior3',
                             'o3_branch', 'eval_o3_of_branch', 'eval_o3', 'exists_funcs_o3')],
            models=['SedovFuncsO3']),
    ],
    corr_models=[], corr_n=20, oracle_budget=1.2,
    scope='Sedov energy, last partial hypothesis closed: the v-space quadratures eval1 = int efun01 dv, eval2 = int efun02 dv of '
          '__init__ ARE the lambda-space energy integrals of the traced similarity functions (monotone change of variables '
          'lambda = lambda(v) on the open branch, across the singular end; integrability of both integrands PROVED from the '
          'one-signed exact mass differential and from continuity of the pressure function up to the singular end; alpha > 0 '
          'proved), for the standard and the vacuum solution type with special_singularity none (every admissible parameter set) '
          'and for the omega2 / omega3 closed forms at the exactly special omega.  Hence sedov_energy_code: with alpha AS THE '
          'TRACED CONSTRUCTOR COMPUTES IT and f, g, h the traced closed forms of sedov_funcs_standard as functions of lambda, '
          'A_k int_0^r2(t) (rho u^2/2 + p/(gamma-1)) r^(k-1) dr = eblast at every t > 0, k in {1,2,3}, gamma > 1, rho0, E > 0, '
          '0 <= omega < k.  Atoms (hypotheses): quad returns the integral of the leaf-1 integrand between the code\'s limits '
          '(the limits themselves are traced: generated model SedovQuad, theorem quad_limits; the atom is checked numerically against '
          'an independent reference incl. nearly non-integrable ends: worst 6e-6, gamma >= 1.15); '
          'the root finder returns v(lambda).  The integrands are leaf 1 of the traced efun01/efun02 (guards max(1e-30,.), '
          'max(x4,1e-12) inactive); the guards act on slivers quad never samples.  Inside the bands |denom| <= 1e-4 off the '
          'special omega the coded closed forms are approximations: the energy of the returned fields is still eblast (alpha is '
          'computed from the same functions: energy_of_evals; PROVED for the omega3 band under three sign conditions on the coded '
          'constants, sedov_energy_band_omega3_partial) while alpha itself and the mass integral are off by at most '
          '0.32 |denom|/(gamma-1) (oracle band, asserted with a 10x margin).',
)
