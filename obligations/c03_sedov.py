"""C03 (Sedov share) — p = (gamma-1) rho e, c^2 = gamma p / rho"""
from obligations import obl
from harness import o_sedov

PROP = dict(
    groups=['sedov'],
    obligations=[
        obl('C03.sedov.eos', 'EPV.Props.C03.Sedov',
            ['EPV.C03.sedov_%s_%s' % (m, t) for m in ('sing', 'std', 'vac') for t in ('sie_def', 'sound_def', 'eos', 'sound')]
            + ['EPV.C03.sedov_physical_eos', 'EPV.C03.sedov_physical_guard'],
            models=['SedovRunSing', 'SedovRunStd', 'SedovRunVac', 'SedovPhysical'], oracle=o_sedov.eos,
            tie=o_sedov.tie_assemble),
    ],
    corr_models=[], corr_n=20, oracle_budget=1.2,
    scope='Sedov: EOS identities on every path of the traced _run (three solution types, both sides of the shock) and of physical().',
)
