"""C02 (Sedov share) — strong-shock Rankine-Hugoniot relations with the speed implied by the coded shock position"""
from obligations import obl
from harness import o_sedov

PROP = dict(
    groups=['sedov'],
    obligations=[
        obl('C02.sedov.shock', 'EPV.Props.C02.Sedov',
            ['EPV.C02.sedov_us_is_shock_speed', 'EPV.C02.sedov_strong_shock', 'EPV.C02.sedov_strong_shock_admissible',
             'EPV.C02.sedov_shock_jump'],
            models=['SedovShock'], oracle=o_sedov.rh, tie=o_sedov.tie_models),
        obl('C02.sedov.normalised', 'EPV.Props.C02.SedovNormalised',
            ['EPV.C02.shock_bases', 'EPV.C02.SedovFuncs_at_shock', 'EPV.C02.SedovFuncsO2_at_shock', 'EPV.C02.SedovFuncsO3_at_shock'],
            models=['SedovFuncs', 'SedovFuncsO2', 'SedovFuncsO3']),
    ],
    corr_models=[], corr_n=20, oracle_budget=1.2,
    scope='Sedov: us = d r2/dt (certificate) and the pre-/post-shock states the code assigns satisfy the three jump conditions with '
          'D = us, all geometries, density exponents and solution types (the type enters only through f, g, h normalised at the shock).',
)
