"""C09 (part riemann) — mirror and Galilean symmetry of the 1-D ideal-gas Riemann solver."""
from obligations import obl
from harness import o_riemann as R

# generated models (group 'riemann') that EPV.Lemmas.Riemann imports: every theorem below depends on them
BASE = ['RiemSound', 'RiemSie', 'RiemShock', 'RiemRare', 'RiemRhoShock', 'RiemRhoRare', 'RiemShockVel', 'RiemFan', 'RiemUSCN', 'RiemUNCS', 'RiemUNCR', 'RiemURCN', 'RiemURCVR', 'RiemSCS', 'RiemSCR', 'RiemRCS', 'RiemRCR', 'RiemSetup']

M = 'EPV.Props.C09.Riemann'
T = 'EPV.C09.Riemann.'

PROP = dict(
    groups=['riemann'],
    obligations=[
        obl('C09.riemann_ig.mirror.residuals', M,
            [T + 'scr_mirror', T + 'rcs_mirror', T + 'scs_mirror', T + 'rcr_mirror', T + 'root_mirror'], BASE, R.mirror),
        obl('C09.riemann_ig.mirror.classification', M,
            [T + 'uSCN_mirror', T + 'uNCS_mirror', T + 'uNCR_mirror', T + 'uRCN_mirror', T + 'uRCVR_mirror',
             T + 'chain_mirror', T + 'thresholds_eq', T + 'classify_mirror'], BASE, R.mirror),
        obl('C09.riemann_ig.mirror.waves', M,
            [T + 'mirror_distinct', T + 'fanSgn_mirror', T + 'shockVel_mirror', T + 'ux_mirror', T + 'fan_mirror'], BASE, R.mirror),
        obl('C09.riemann_ig.mirror.solution', M,
            [T + 'mirror_proj', T + 'leftState_mirror', T + 'rightState_mirror', T + 'toData_proj', T + 'fanState_mirror',
             T + 'solveWith_mirror_SCS', T + 'solveWith_mirror_SCR', T + 'solveWith_mirror_RCS', T + 'solveWith_mirror_RCR',
             T + 'solve_mirror'], BASE, R.mirror),
        obl('C09.riemann_ig.boost.residuals', M, [T + 'scs_boost', T + 'scr_boost', T + 'rcs_boost', T + 'rcr_boost'], BASE, R.xcall),
        obl('C09.riemann_ig.boost.classification', M,
            [T + 'uSCN_boost', T + 'uNCS_boost', T + 'uNCR_boost', T + 'uRCN_boost', T + 'uRCVR_boost', T + 'chain_boost',
             T + 'classify_boost'], BASE, R.boost),
        obl('C09.riemann_ig.boost.solution', M,
            [T + 'fanSgn_boost', T + 'shockVel_boost', T + 'fan_boost', T + 'uxS_boost', T + 'uxF_boost',
             T + 'solveWith_boost', T + 'solve_boost'], BASE, R.boost),
        obl('C09.riemann.tie.helpers', models=BASE, tie=R.tie_models(BASE)),
        obl('C09.riemann.tie.assembly', tie=R.tie_assembly),
    ],
    corr_models=[],
    oracle_budget=0.4,
    scope='Riemann part: SCR_call on mirrored data = -RCS_call (and vice versa), SCS/RCR map to themselves, the classification '
          'speeds map onto each other and the if/elif chain selects the mirror-image pattern (also for pl = pr); shock '
          'speeds, star velocity and fan profiles of the mirrored problem are the mirror images, and the WHOLE assembled '
          'solution of the mirrored problem at 2 xd0 - x is the mirror image of the original one at x (x off the waves; px '
          'the root of the selected pattern; wave speeds proved strictly ordered); boost: residuals unchanged, '
          'thresholds and wave speeds shift by v, pattern unchanged, and the WHOLE assembled solution at (x + v t, t) is the '
          'original one with velocities shifted by v.  (P): L = R in (p, rho, u) excluded by hypothesis (q.Distinct); it is '
          'a covered boundary case of the assembly tie.',
)
