"""C08 (part riemann) — dimensional consistency of the 1-D ideal-gas Riemann solver."""
from obligations import obl
from harness import o_riemann as R

# generated models (group 'riemann') that EPV.Lemmas.Riemann imports: every theorem below depends on them
BASE = ['RiemSound', 'RiemSie', 'RiemShock', 'RiemRare', 'RiemRhoShock', 'RiemRhoRare', 'RiemShockVel', 'RiemFan', 'RiemUSCN', 'RiemUNCS', 'RiemUNCR', 'RiemURCN', 'RiemURCVR', 'RiemSCS', 'RiemSCR', 'RiemRCS', 'RiemRCR', 'RiemSetup']

M = 'EPV.Props.C08.Riemann'
T = 'EPV.C08.Riemann.'

PROP = dict(
    groups=['riemann'],
    obligations=[
        obl('C08.riemann_ig.helpers', M,
            [T + 'sound_scale', T + 'sie_scale', T + 'shock_scale', T + 'rare_scale', T + 'rhoShock_scale',
             T + 'rhoRare_scale', T + 'fanSgn_scale', T + 'shockVel_scale', T + 'fan_scale', T + 'uthr_scale'], BASE, R.xcall),
        obl('C08.riemann_ig.root', M, [T + 'xcall_scale', T + 'root_scale', T + 'pmax_scale'], BASE, R.xcall),
        obl('C08.riemann_ig.classification', M, [T + 'chain_scale', T + 'classify_scale'], BASE, R.units),
        obl('C08.riemann_ig.solution', M, [T + 'ux_scale', T + 'solveWith_scale', T + 'solve_scale'], BASE, R.units),
        obl('C08.riemann.tie.helpers', models=BASE, tie=R.tie_models(BASE)),
        obl('C08.riemann.tie.assembly', tie=R.tie_assembly),
    ],
    corr_models=[],
    oracle_budget=0.4,
    scope='Riemann part: every helper of riemann/utils.py is homogeneous of the right degree under (M, L, T) rescaling, every '
          'star-state residual scales like a velocity so its root scales like a pressure, pmax = 10 max(pl, pr) scales like a '
          'pressure (the bracket [0, pmax] is scale covariant), the pattern is unit independent, and the whole assembled '
          'solution rescales accordingly in the same region.  (P): the absolute tolerance xtol = 2e-12 of scipy bisect is '
          'not scale free (it lives in the atom px); the 1.1*Xregs window only affects the internal grid.',
)
