"""C01 (part: Coggeshall solutions 1-12) — the returned fields satisfy the documented balance
equations of mass, momentum and energy (with the conduction term where the problem has one)"""
from obligations import obl
from harness import o_c01_cog

NS = [1, 2, 3, 4, 5, 6, 7, 8, 9, 10, 11, 12]
# pure hydrodynamic problems (no mean-free-path law in the documentation, lambda0 = 0): the energy
# obligation is the hydrodynamic form plus the full residual with lambda0 = 0
HYDRO = [1, 2, 3, 4, 5, 6, 7]

_o = []
for n in NS:
    mod = 'EPV.Props.C01.Cog%d' % n
    T = lambda s: 'EPV.C01.cog%d_%s' % (n, s)
    m = ['Cog%d' % n]
    # leaf-level theorem (every ok leaf, pinned by cog<n>_leaves) + the same for the returned (tree-level) fields
    _o.append(obl('C01.cog%d.mass' % n, mod, [T('leaves'), T('mass'), T('tree'), T('mass_tree')], m,
                  o_c01_cog.cog(n, 'mass')))
    _o.append(obl('C01.cog%d.momentum' % n, mod, [T('leaves'), T('momentum'), T('tree'), T('momentum_tree')], m,
                  o_c01_cog.cog(n, 'momentum')))
    if n in HYDRO:
        th = [T('leaves'), T('energy_hydro'), T('energy')]
    elif n == 10:
        th = [T('leaves'), T('energy')]
    elif n in (11, 12):
        th = [T('leaves'), T('energy_hydro_L%d' % (1 if n == 11 else 0)), T('flux_div_L%d' % (1 if n == 11 else 0)),
              T('energy')]
    else:
        th = [T('leaves'), T('energy_hydro'), T('flux_div'), T('energy')]
    _o.append(obl('C01.cog%d.energy' % n, mod, th + [T('tree'), T('energy_tree')], m, o_c01_cog.cog(n, 'energy')))

PROP = dict(
    groups=['cog'],
    obligations=_o,
    corr_models=['Cog%d' % n for n in NS],
    corr_n=60,
    oracle_budget=0.4,
    scope='Coggeshall solutions 1-12: on every ok leaf of the traced model the returned density, velocity and '
          'temperature satisfy the mass, momentum and energy balance of exactpack/solvers/cog/__init__.py '
          '(energy as Gamma/(gamma-1) (T_t + u T_r) + ...; the documentation prints T/(gamma-1), a typographical slip) '
          'for all real parameters in the documented domain and a REAL geometry factor k = geometry - 1 '
          '(Cog5: the documented k = 2, gamma = 1/2; Cog3/6/7: the documented gamma(k)). '
          'Cog1-7 have no conduction (lambda0 = 0); Cog8, 9, 11, 12: hydrodynamic part and flux divergence vanish '
          'separately, with the documented alpha (Cog12: the code tests a different alpha, only for a printed warning); '
          'Cog10: conduction balances the hydrodynamic part with the constants c, a hard-wired in cog10.py. '
          'Flux terms need rho > 0 and T > 0 (real powers). Cog3: the literal 2.718281828459045 is idealised as e.',
)
