"""C20 (Sedov share, work package sedov3) — admissible omega just outside the special-singularity bands"""
from obligations import obl
from harness import o_sedov3

PROP = dict(
    groups=['sedov'],
    obligations=[
        # the property is FALSE there on the current tree (floating-point overflow): negation-side facts at a
        # witness in Lean, the witness itself reproduced on the real code on every run
        obl('C20.sedov3.near_special', 'EPV.Props.C20.FindingSedovNearSpecial',
            ['EPV.C20.finding_sedov_near_special_overflow', 'EPV.C20.wNear_documented', 'EPV.C20.wNear_path',
             'EPV.C20.wNear_consts'],
            models=['SedovInit', 'SedovConsts', 'SedovFuncs'], oracle=o_sedov3.near_special, tie=o_sedov3.tie_models,
            finding=True),
    ],
    corr_models=[], corr_n=20, oracle_budget=1.2,
    scope='Sedov, admissible omega with 1e-4 < |denom2| or |denom3| up to 2e-4...3e-3 (just outside the bands in which the '
          'code switches to the special closed forms): the exponents ~ 1/denom make x4**a5 overflow and x3**(a4+a1 omega) '
          'underflow; the constructor raises OverflowError (Python floats) or returns alpha = nan / inf (NumPy floats).  The '
          'real-number model is well-defined there (Std.Bases on the whole branch, proved), so the defect is purely floating '
          'point: the Lean theorem proves validity, acceptance, the path, well-definedness and that the two factors leave the '
          'range of doubles; the failure itself is reproduced on the real code (finding).',
)
