"""C09 (burn-time half) — invariance of the burn-time fields under rotations / reflections about the symmetry
axis (Kenamond 2, 3, DSD) and under every isometry incl. translations (Kenamond 1)."""
from obligations import obl
from harness import o_burn as B

_M, _T = 'EPV.Props.C09.Burn', 'EPV.C09.'      # one module per solver: _M + 'K1' | 'K2' | 'K3' | 'DSD'
_o = [
    obl('C09.burn.k1', _M + 'K1', [_T + n for n in ('k1d2_isometry', 'k1d3_isometry', 'k1d2_translation', 'k1d3_translation',
                                             'k1d2_rotation', 'k1d2_reflection', 'k1d3_rotation_z')],
        ['K1d2', 'K1d3'], B.symmetry['k1']),
    obl('C09.burn.k2', _M + 'K2', [_T + n for n in ('k2d2_axis_isometry', 'k2d3_axis_isometry', 'k2d2_reflection',
                                             'k2d3_rotation_z', 'k2d3_reflection', 'k2d2_axis_flip', 'k2d3_axis_flip')],
        ['K2d2', 'K2d3'], B.symmetry['k2']),
    obl('C09.burn.k3', _M + 'K3', [_T + n for n in ('k3d2_linearIsometry', 'k3d3_linearIsometry', 'k3d2_rotation',
                                             'k3d2_reflection', 'k3d3_rotation_z')],
        ['K3d2', 'K3d3'], B.symmetry['k3']),
    obl('C09.burn.dsd', _M + 'DSD', [_T + n for n in ('dsdcyl_norm_invariant', 'dsdcyl_linearIsometry', 'dsdcyl_rotation',
                                              'dsdcyl_reflection')], ['DSDCyl'], B.symmetry['dsd']),
]
PROP = dict(
    groups=['burn'],
    obligations=_o,
    corr_models=['K1d2', 'K1d3', 'K2d2', 'K2d3', 'K3d2', 'K3d3', 'DSDCyl'],
    corr_n=60,
    oracle_budget=0.3,
    scope='Burn-time half: on the traced models, with points in EuclideanSpace R (Fin n): Kenamond 1 is invariant under '
          'every isometry (rotations, reflections, translations) applied to detonator and point; Kenamond 2 under every '
          'linear isometry fixing the symmetry axis pointwise (2-D reflection, 3-D rotations about and reflections through '
          'the axis) and under the flip of the axis with a_i -> -a_i; Kenamond 3 under every linear isometry applied to '
          'detonator and point (acceptance preserved); the DSD cylinder under every norm-preserving map.  Coordinate forms '
          '(rotation by any angle, reflection, translation by any vector) are corollaries via explicit linear isometries.',
)
