"""C02 — Guderley converging / reflected shock, RMTV isothermal shock (work package `guderley`)"""
from obligations import obl
from harness import o_guderley as G

M = 'EPV.Props.C02.Guderley'
T = 'EPV.C02.'
GUD = ['GudRun', 'GudX', 'GudState', 'GudJump']
PROP = dict(
    groups=['guderley'],
    obligations=[
        obl('C02.guderley.converging_shock', M,
            [T + 'guderley_converging_shock_rh_partial', T + 'xi_on_converging_shock', T + 'Xc_hasDerivAt',
             T + 'returned_behind', T + 'returned_ahead'],
            models=GUD, oracle=G.gud_rh_conv, tie=G.tie_models),
        obl('C02.guderley.reflected_shock', M,
            [T + 'guderley_reflected_shock_rh_partial', T + 'xi_on_reflected_shock', T + 'Xr_hasDerivAt'],
            models=GUD, oracle=G.gud_rh_refl),
        obl('C02.guderley.shock_speed_solver_time', M, [T + 'finding_guderley_shock_speed_solver_time'],
            models=GUD, oracle=G.gud_rh_solver, finding=True),
        obl('C02.rmtv.isothermal_jump', 'EPV.Props.C02.RMTV',
            [T + 'rmtv_isothermal_shock_partial', T + 'rmtv_jump_mass', T + 'rmtv_jump_momentum', T + 'rmtv_jump_isothermal', T + 'rmtv_jump_energy',
             T + 'rmtv_jump_leaves'],
            models=['RmtvJump', 'RmtvRun'], oracle=[G.rmtv_jump, G.rmtv_pde, G.rmtv_similarity]),
        obl('C02.rmtv.shock_position_xis', 'EPV.Props.C02.RMTV', [T + 'finding_rmtv_xis_ignored'],
            models=['RmtvRun'], oracle=G.rmtv_xis, finding=True),
    ],
    corr_models=[],
    oracle_budget=0.4,
    scope='Guderley (partial): Rankine-Hugoniot at the coded positions x = -1 and x = B with the speed = derivative of the '
          'coded position, in Lazarus time, for the coded strong-shock start values and the coded Lazarus (2.6) jump; '
          'lambda, B and the integrations are atoms.  Finding: with the speed implied by the solver\'s own time argument '
          'the mass flux is not conserved.  RMTV (partial): the coded Kamm Eq. 15 jump conserves mass and momentum flux, '
          'keeps T, and balances the energy flux with the conductive flux H T W; xi_s and the integrations are atoms.  Finding: the parameter xis does not position the shock (literal 1.0 in rs).',
)
