"""C07 (part geneos, partial) — the general-EOS Riemann DRIVER inside the model: on ideal-gas data, with exact atoms,
it selects the same pattern and returns the same wave speeds, constant states and fan profile as the ideal-gas driver."""
from obligations import obl
from harness import o_geneos as G

# generated models (group 'riemann') behind the lemma files these theorems import
BASE = ['RiemSound', 'RiemSie', 'RiemShock', 'RiemRare', 'RiemRhoShock', 'RiemRhoRare', 'RiemShockVel', 'RiemFan', 'RiemUSCN',
        'RiemUNCS', 'RiemUNCR', 'RiemURCN', 'RiemURCVR', 'RiemSCS', 'RiemSCR', 'RiemRCS', 'RiemRCR', 'RiemSetup']
GEN = ['RiemSieJWL', 'RiemSoundJWL', 'RiemShockSpeedIG', 'RiemShockSpeedJWL', 'RiemStarVelIG', 'RiemStarVelJWL',
       'RiemShockJumpIG', 'RiemShockJumpJWL', 'RiemOdeIG', 'RiemOdeJWL']

LM = 'EPV.Lemmas.RiemannGenModel'
M = 'EPV.Props.C07.RiemannGen'
L = 'EPV.RiemGen.'
T = 'EPV.C07.RiemannGen.'


def names(prefix, s):
    return [prefix + x for x in s.split()]


PROP = dict(
    groups=['riemann'],
    obligations=[
        # the hand model over R: its closures / shock formulas ARE the traced functions; np.interp; the reg_state_geos sequence
        obl('C07.geneos.model.closures', LM,
            names(L, 'sie_ig sound_ig sie_jwl sound_jwl shockSpeed_gen shockSpeed_gen_jwl starVelocity_gen starVelocity_gen_jwl '
                     'isLeft_left isLeft_right sgnOf_left sgnOf_right sqrt_swap shockSpeed_eq starVelocity_eq'), BASE + GEN),
        obl('C07.geneos.model.interp', LM,
            names(L, 'interpFrom_cons_le interpFrom_cons_eq interpFrom_cons_lt interpG_cons_lt interpG_cons_ge interpFrom_self '
                     'interpFrom_mem interpG_mem interpFrom_form interpG_form interpFrom_shift interpG_shift lerp_self lerpS_self '
                     'lerp_shift lerpS_shift interpS_const2 interpS_ssr_left interpS_ssr_right interpS_srr_right interpS_srr_left '
                     'interpFrom_tr interpG_tr fold_tr'), BASE + GEN),
        obl('C07.geneos.model.sequence', LM,
            names(L, 'userAt_const userAt_lerp atoms_tables side_R side_S side_N fold_fire fold_skip vregs_SS vregs_SR vregs_RS vregs_RR rowL_mem rowR_mem '
                     'rcs_regions rcs_zone_left rcs_zone_fan rcs_zone_starL rcs_node_contact rcs_zone_starR rcs_zone_right '
                     'scr_regions scr_zone_left scr_zone_starL scr_zone_starR scr_zone_fan scr_zone_right '
                     'rcr_regions rcr_zone_left rcr_zone_fanL rcr_zone_starL rcr_zone_starR rcr_zone_fanR rcr_zone_right '
                     'scs_regions scs_zone_left scs_zone_starL scs_zone_starR scs_zone_right'), BASE + GEN),
        # exact atoms, ideal gas: uniqueness of the isentrope, the Hugoniot root
        obl('C07.geneos.isentrope_unique', M,
            names(T, 'const_of_hasDerivAt_zero odeR_ig odeU_ig isentrope_density_ig isentrope_velocity_ig fan_exact_ig '
                     'closedForm_isentrope fanAtom_closedForm'), BASE + GEN, G.ig_vs_gen),
        obl('C07.geneos.hugoniot', M, names(T, 'shockJump_ig hugoniot_exact_ig hugoniotAtom_closedForm'), BASE + GEN, G.ig_vs_gen),
        # the pattern: px < p0 / px > p0  <->  Gottlieb-Groth thresholds
        obl('C07.geneos.pattern', M,
            names(T, 'chain_eq_SCS chain_eq_SCR chain_eq_RCS chain_eq_RCR uSCN_le uNCS_le rare_ge uNCR_ge uRCN_ge '
                     'rcr_root_lt_vacuum classify_of_root_SCS classify_of_root_SCR classify_of_root_RCS classify_of_root_RCR '
                     'starL_fan_exact starL_shock_exact starR_fan_exact starR_shock_exact gen_root_SCS gen_root_SCR '
                     'gen_root_RCS gen_root_RCR gen_pattern_eq_ig_partial'), BASE + GEN, G.ig_vs_gen),
        obl('C07.geneos.vregs', M,
            names(T, 'vHeadL_ig vHeadR_ig vTailL_ig vTailR_ig vShockL_ig vShockR_ig gen_vregs_eq_ig_SCS gen_vregs_eq_ig_SCR '
                     'gen_vregs_eq_ig_RCS gen_vregs_eq_ig_RCR'), BASE + GEN, G.ig_vs_gen),
        obl('C07.geneos.states', M,
            names(T, 'leftState_ig rightState_ig starL_ig_shock starL_ig_fan starR_ig_shock starR_ig_fan toSpec_inj '
                     'ig_fanL_at_row ig_fanR_at_row fanL_row_mem fanR_row_mem xiL_strictAnti xiR_strictMono '
                     'fanIncrL_of_exact fanIncrR_of_exact'), BASE + GEN, G.ig_vs_gen),
        obl('C07.geneos.assembled', M,
            names(T, 'gen_eq_ig_rcs_partial gen_eq_ig_scr_partial gen_eq_ig_rcr_partial gen_eq_ig_scs_partial '
                     'qEx_ok ex_cube_root ex_exactIG'), BASE + GEN, G.ig_vs_gen),
        # the hand model (Float) against the real GenEOS_Solver, atoms captured from the real call
        obl('C07.geneos.tie', tie=G.tie_geneos),
    ],
    corr_models=[],
    oracle_budget=0.4,
    scope='GenEOS part (PARTIAL): hand model EPV.Model.RiemannGen of RiemannGenEOS.driver + GenEOS_Solver (pressure ladders, '
          'star_velocity on the Hugoniot ladder, splice, np.interp star values, filters, side classification px < p0 / px > p0, '
          'Vregs with the == side detection, window, grid, reg_state_geos sequence, final np.interp), run on Float against the '
          'real public solver with the scipy atoms (ode tables, bisect roots, star pressure) captured from that call: ideal gas '
          'and JWL, all four patterns with velocity differences, agreement to rounding. Over R, with exact atoms on ideal-gas '
          'data: the solution of the traced drdp_dudp through a state is unique and is the closed form of the ideal-gas solver; '
          'the Hugoniot root is rho_star_shock and star_velocity = u0 -/+ shock; px is a root of the X_call of the pattern; the '
          'ideal-gas driver\'s threshold classification selects the pattern the general driver reads off px; Vregs coincide; the '
          'two assembly sequences return the same region index and (p, rho, u, e) at every grid node outside the smeared cells '
          'and off the waves (fans: at the rows of the fan table). Conditional on exact atoms (named _partial); linear '
          'interpolation between table rows / grid nodes and the smeared cells are outside (oracle on the two public solvers).',
)
