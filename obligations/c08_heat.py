"""C08 (heat share) — change of units for the heat rod family and Hutchens 1."""
from obligations import obl
from harness import o_heat as H

C = 'EPV.C08.'
PROP = dict(
    groups=['heat'],
    obligations=[
        obl('C08.heat.rod', 'EPV.Props.C08.Heat',
            [C + n for n in ('knInt_scale', 'knHalf_scale', 'knInt_scaled', 'knHalf_scaled', 'decay_scale', 'rodSeries_scale',
                             'bc1B_scale', 'bc2A_scale', 'bc3B_scale', 'bc4A_scale',
                             'rodBC1_units', 'rodBC2_units', 'rodBC3_units', 'rodBC4_units')],
            oracle=H.units, tie=H.tie_rod),
        obl('C08.heat.hutchens1', 'EPV.Props.C08.Heat', [C + 'hutchens1_units', C + 'diffusivity_units', C + 'hutchens1_centre_units'],
            oracle=H.units_h1, tie=H.tie_h1),
        obl('C08.heat.robin_units', 'EPV.Props.C08.FindingHeat', [C + 'finding_robin_static_units', C + 'finding_robin_coefficient_zero_data'],
            models=['RodModesGen'], oracle=H.units_robin, finding=True),
    ],
    corr_models=[],
    corr_n=60,
    oracle_budget=0.4,
    scope='C08 heat: for every truncation order N the hand model of Rod1D BC1-BC4 (hence the sandwiches) and of Hutchens 1 is '
          'covariant under lengths x l, times x tau, temperatures x theta (kappa x l^2/tau, beta x l, gamma x theta). FINDING: the '
          'general Robin case is not (static denominator mixes a length with pure numbers; coefficient formula not homogeneous in '
          'the temperatures).',
)
