"""C04 — integral conservation of the 1-D Riemann solutions (ideal-gas and general-EOS solver)"""
from obligations import obl
from harness import o_c04

_A = 'EPV.Lemmas.Conservation'
_S = 'EPV.Lemmas.ConservationState'
_W = 'EPV.Lemmas.RiemannIGWaves'
_F = 'EPV.Lemmas.RiemannIGFan'
_P = 'EPV.Props.C04.Riemann'
_X = 'EPV.Props.C04.FindingIdentical'
_C = 'EPV.Props.C04.RiemannClassified'
_G = 'EPV.Props.C04.RiemannGen'
_GW = 'EPV.Lemmas.RiemannGenWaves'

# generated models (group 'riemann') behind the hand model's helper formulas (EPV.Lemmas.Riemann, m_*)
_PIECES = ['RiemSound', 'RiemSie', 'RiemShock', 'RiemRare', 'RiemRhoShock', 'RiemRhoRare', 'RiemShockVel', 'RiemFan']

PROP = dict(
    groups=['riemann'],
    obligations=[
        # the abstract theorem: piecewise self-similar solution, any finite list of waves
        obl('C04.abstract.scalar', _A,
            ['EPV.Conservation.integral_pw', 'EPV.Conservation.overwrite_eq_pwFun',
             'EPV.Conservation.integral_comp_selfsimilar', 'EPV.Conservation.conservation_of_valid',
             'EPV.Conservation.constPiece_good']),
        obl('C04.abstract.state', _S,
            ['EPV.Conservation.rankineHugoniot_iff_match', 'EPV.Conservation.conservationFormula_of_svalid',
             'EPV.Conservation.integral_riemannInitial', 'EPV.Conservation.IntegralConservation.of_formula',
             'EPV.Conservation.svalid_append', 'EPV.Conservation.conservationFormula_of_halves']),
        # the elementary waves of the ideal gas
        obl('C04.riemann_ig.shock', _W,
            ['EPV.C04.shock_rankineHugoniot', 'EPV.C04.shock_order', 'EPV.C04.shockRho_pos']),
        obl('C04.riemann_ig.fan', _F,
            ['EPV.C04.fan_mass', 'EPV.C04.fan_momentum', 'EPV.C04.fan_energy', 'EPV.C04.fan_head', 'EPV.C04.fan_tail',
             'EPV.C04.fan_star_sound', 'EPV.C04.fanY_ge', 'EPV.C04.fan_order', 'EPV.C04.fan_sgood']),
        # the four patterns of the ideal-gas solver (hand-model assembly tied below, generated pieces)
        obl('C04.riemann_ig.scs', _P, ['EPV.C04.scs_solve', 'EPV.C04.scs_conservationFormula', 'EPV.C04.scs_conservation'],
            _PIECES + ['RiemSCS'], o_c04.ig['SCS']),
        obl('C04.riemann_ig.scr', _P, ['EPV.C04.scr_solve', 'EPV.C04.scr_conservationFormula', 'EPV.C04.scr_conservation'],
            _PIECES + ['RiemSCR'], o_c04.ig['SCR']),
        obl('C04.riemann_ig.rcs', _P, ['EPV.C04.rcs_solve', 'EPV.C04.rcs_conservationFormula', 'EPV.C04.rcs_conservation'],
            _PIECES + ['RiemRCS'], o_c04.ig['RCS']),
        obl('C04.riemann_ig.rcr', _P, ['EPV.C04.rcr_solve', 'EPV.C04.rcr_conservationFormula', 'EPV.C04.rcr_conservation'],
            _PIECES + ['RiemRCR'], o_c04.ig['RCR']),
        # all patterns at once, pattern chosen by the driver's own classification (px range from monotonicity)
        obl('C04.riemann_ig.classified', _C,
            ['EPV.C04.riemann_ig_conservation', 'EPV.C04.sod_classify'],
            _PIECES + ['RiemSCS', 'RiemSCR', 'RiemRCS', 'RiemRCR', 'RiemUSCN', 'RiemUNCS', 'RiemUNCR', 'RiemURCN', 'RiemURCVR'],
            o_c04.ig_all),
        # the hand model of the assembly (EPV.Model.RiemannIG) against the real driver and the public solver
        obl('C04.riemann_ig.assembly_tie', tie=o_c04.tie_assembly),
        # identical (p, rho, u) with EQUAL gammas: constant solution, conserved whatever Vregs are
        obl('C04.riemann_ig.identical_equal_gamma', 'EPV.Props.C04.RiemannIdentical',
            ['EPV.C04.scs_root_identical', 'EPV.C04.identical_solution', 'EPV.C04.identical_equal_gamma_conservation'],
            ['RiemShock', 'RiemRhoShock', 'RiemShockVel', 'RiemSCS']),
        # FINDING: identical (p, rho, u), unequal gammas: the `==` side detection moves the interface
        obl('C04.riemann_ig.identical_states', _X,
            ['EPV.C04.qId_classify', 'EPV.C04.qId_root', 'EPV.C04.qId_vregs', 'EPV.C04.qId_wavesInside',
             'EPV.C04.qId_solution', 'EPV.C04.identical_states_not_conserved'],
            ['RiemShockVel', 'RiemSCS'], o_c04.identical, finding=True),
        # (P) general-EOS solver: ODE solution, its inversion and the Hugoniot root are atoms
        obl('C04.riemann_gen.waves', _GW,
            ['EPV.C04.gen_shock_rankineHugoniot', 'EPV.C04.gen_first_law', 'EPV.C04.gen_fan_hasDerivAt',
             'EPV.C04.GenFan.sgood']),
        obl('C04.riemann_gen.partial', _G,
            ['EPV.C04.closureIG_lawful', 'EPV.C04.closureJWL_lawful', 'EPV.C04.gen_shock_rh',
             'EPV.C04.shockSpeed_left', 'EPV.C04.shockSpeed_right', 'EPV.C04.starVel_left', 'EPV.C04.starVel_right',
             'EPV.C04.FanAtoms.sgood', 'EPV.C04.closureIG_chainRule', 'EPV.C04.jwl_dsdr', 'EPV.C04.closureJWL_chainRule',
             'EPV.C04.FanAtoms.solves_of_chainRule',
             'EPV.C04.gen_scs_conservationFormula_partial', 'EPV.C04.gen_scr_conservationFormula_partial',
             'EPV.C04.gen_rcs_conservationFormula_partial', 'EPV.C04.gen_rcr_conservationFormula_partial',
             'EPV.C04.igFan_solves', 'EPV.C04.ex_leftFan'],
            ['RiemOdeIG', 'RiemOdeJWL', 'RiemSound', 'RiemSoundJWL', 'RiemSie', 'RiemSieJWL', 'RiemDsdrIG', 'RiemDsdpIG',
             'RiemDsdrJWL', 'RiemDsdpJWL', 'RiemShockJumpIG', 'RiemShockJumpJWL', 'RiemShockSpeedIG',
             'RiemShockSpeedJWL', 'RiemStarVelIG', 'RiemStarVelJWL']),
        # general-EOS solver on the real code (thorough tier only: 2 s per call)
        obl('C04.riemann_gen.real_igeos', oracle=o_c04.gen_ig),
        obl('C04.riemann_gen.real_jwl', oracle=o_c04.gen_jwl),
    ],
    corr_models=[],
    corr_n=60,
    oracle_budget=0.4,
    scope='Abstract theorem (Lean): a piecewise self-similar solution whose regions satisfy G\' = U for '
          'G = xi U - F(U) and whose waves satisfy Rankine-Hugoniot conserves mass, momentum and energy over every '
          'interval containing all waves, for any finite list of waves (induction over the list). Ideal-gas solver: '
          'proved for the four patterns SCS, SCR, RCS, RCR with unequal gammas, any velocities, any membrane position, '
          't > 0, given X_call(px) = 0 for the traced X_call (px is the bisect atom) and px <= p on a rarefaction side; '
          'the theorems are about the real-number instantiation of the hand model EPV.Model.RiemannIG of the '
          'driver\'s assembly (Vregs, reg_state sequence), whose helper formulas are proved equal to the generated '
          'models of utils.py and which is run on Float against the real driver and the public solver (tie). '
          'With the monotonicity of the four residuals (generated derivative certificates) the pattern hypothesis is '
          'discharged from the driver\'s own classification (riemann_ig_conservation). '
          'FINDING: identical (p, rho, u) with unequal gammas is not conserved (negation proved at a witness, '
          'reproduced on the real code). The internal grid / interp of the wrapper is modelled-not-verified. '
          'General-EOS solver (PARTIAL): conservation of the four patterns for ideal-gas and JWL closures with the ODE '
          'solution of the traced drdp_dudp, its inversion, the bisect root of the traced shock_jump and the crossing '
          'of the P-U curves as atoms (the chain rule of sie with the coded dsdp_cR, dsdr_cP is proved for both closures); the '
          'driver\'s interpolation onto its grid is not modelled (oracle on the real solver, thorough tier).',
)
