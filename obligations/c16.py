"""C16 — black-box Noh: EOS closures and derivative methods, residual Jacobians / inverses, Newton exit condition."""
from obligations import obl
from harness import o_c16 as H

E = 'EPV.Props.C16.'
T = 'EPV.C16.'


def _t(*names):
    return [T + n for n in names]


def _eos_models(short):
    from py2lean.targets import t_eos
    return [m for m, i in t_eos.EOS_MODELS.items() if i['cls'] == short]


def _res_models(res):
    from py2lean.targets import t_eos
    return [m for m, i in t_eos.RES_MODELS.items() if i['res'] == res]


ALLD = ['de_drho', 'de_dP', 'dP_drho', 'dP_de']
STEIN_ALL = ALLD + ['deta_drho', 'dgru_drho', 'dPinf_drho', 'deinf_drho', 'dpoly_deta']

_o = [
    # ---- EOS library ------------------------------------------------------------------------------------
    obl('C16.eos.ideal', E + 'Ideal', _t('ideal_leaves', 'ideal_inverse', 'ideal_energy_derivs', 'ideal_pressure_derivs'),
        _eos_models('Ideal'), H.deriv_oracle('Ideal', ALLD), tie=H.eos_ties('Ideal')),
    obl('C16.eos.ideal.roundtrip', None, oracle=H.roundtrip('Ideal')),
    obl('C16.eos.stiffened', E + 'Stiff', _t('stiff_leaves', 'stiff_inverse', 'stiff_energy_derivs', 'stiff_pressure_derivs'),
        _eos_models('Stiff'), H.deriv_oracle('Stiff', ALLD), tie=H.eos_ties('Stiff')),
    obl('C16.eos.stiffened.roundtrip', None, oracle=H.roundtrip('Stiff')),
    obl('C16.eos.noble_abel', E + 'NobleAbel',
        _t('nobleAbel_leaves', 'nobleAbel_inverse', 'nobleAbel_energy_derivs', 'nobleAbel_pressure_derivs'),
        _eos_models('NobleAbel'), H.deriv_oracle('NobleAbel', ALLD), tie=H.eos_ties('NobleAbel')),
    obl('C16.eos.noble_abel.roundtrip', None, oracle=H.roundtrip('NobleAbel')),
    obl('C16.eos.carnahan_starling', E + 'CarnahanStarling',
        _t('cs_leaves', 'cs_inverse', 'cs_e_hasDerivAt_rho', 'cs_de_dP', 'cs_pressure_derivs', 'cs_dZ_deta', 'cs_deta_drho',
           'cs_de_drho_swapped_times_P'),
        _eos_models('CS'), H.deriv_oracle('CS', ['de_dP', 'dP_drho', 'dP_de', 'dZ_deta', 'deta_drho']), tie=H.eos_ties('CS')),
    obl('C16.eos.carnahan_starling.roundtrip', None, oracle=H.roundtrip('CS')),
    # FINDING: de_drho(self, P, rho): arguments swapped and the factor P missing
    obl('C16.eos.carnahan_starling.de_drho', E + 'FindingCarnahanStarling', _t('cs_de_drho_finding', 'cs_de_drho_swapped_finding'),
        ['EosCS_e', 'EosCS_de_drho'], H.deriv_oracle('CS', ['de_drho']), finding=True),
    obl('C16.eos.steinberg.closures', E + 'Steinberg',
        _t('stein_leaves', 'stein_exp_conds', 'stein_comp_conds', 'stein_inverse_expanded', 'stein_inverse_compressed', 'stein_inverse_at_reference',
           'aluminium_constants', 'aluminium_expanded'),
        _eos_models('Stein') + ['EosAluminium'], H.roundtrip('Stein'), tie=H.eos_ties('Stein')),
    obl('C16.eos.steinberg.expanded', E + 'Steinberg',
        _t('stein_energy_derivs_expanded', 'stein_pressure_derivs_expanded', 'stein_deta_drho', 'stein_dpoly_deta',
           'stein_helper_derivs_expanded'),
        _eos_models('Stein'), H.deriv_oracle('Stein', STEIN_ALL, 'exp', name='c16.deriv.Stein.expanded')),
    obl('C16.eos.steinberg.compressed', E + 'SteinbergCompressed',
        _t('stein_de_dP_compressed_partial', 'stein_dP_de_compressed_partial', 'stein_dgru_drho_compressed',
           'stein_e_hasDerivAt_rho_compressed', 'stein_P_hasDerivAt_rho_compressed', 'stein_ref_hasDerivAt_compressed',
           'aluminium_compressed_3', 'aluminium_compressed'),
        _eos_models('Stein'),
        H.deriv_oracle('Stein', ['de_dP', 'dP_de', 'deta_drho', 'dgru_drho', 'dpoly_deta'], 'comp', name='c16.deriv.Stein.compressed')),
    # FINDINGS: wrong sign in the quotient rule of dPinf_drho for rho >= rho_ref, inherited by three more methods
    obl('C16.eos.steinberg.dPinf_drho', E + 'FindingSteinberg', _t('stein_dPinf_drho_finding'),
        ['EosStein_P_inf', 'EosStein_dPinf_drho', 'EosAluminium'], H.deriv_oracle('Stein', ['dPinf_drho'], 'comp'), finding=True),
    obl('C16.eos.steinberg.deinf_drho', E + 'FindingSteinberg', _t('stein_deinf_drho_finding'),
        ['EosStein_e_inf', 'EosStein_deinf_drho', 'EosAluminium'], H.deriv_oracle('Stein', ['deinf_drho'], 'comp'), finding=True),
    obl('C16.eos.steinberg.dP_drho', E + 'FindingSteinberg', _t('stein_dP_drho_finding'),
        ['EosStein_P', 'EosStein_dP_drho', 'EosAluminium'], H.deriv_oracle('Stein', ['dP_drho'], 'comp'), finding=True),
    obl('C16.eos.steinberg.de_drho', E + 'FindingSteinberg', _t('stein_de_drho_finding'),
        ['EosStein_e', 'EosStein_de_drho', 'EosAluminium'], H.deriv_oracle('Stein', ['de_drho'], 'comp'), finding=True),
    # ---- residual classes ---------------------------------------------------------------------------------
    obl('C16.res.energy.jacobian', E + 'ResEnergy', _t('resEnergy_leaves', 'energyS0_jacobian', 'energyS1_jacobian', 'energyS2_jacobian'),
        _res_models('Energy'), H.jacobian_oracle('Energy'), tie=H.residual_ties('Energy')),
    obl('C16.res.energy.inverse', E + 'ResEnergy',
        _t('energyS0_det', 'energyS0_inverse', 'energyS1_det', 'energyS1_inverse', 'energyS2_det', 'energyS2_inverse'),
        _res_models('Energy'), H.inverse_oracle('Energy')),
    obl('C16.res.simplified_energy', E + 'ResSEnergy', _t('resSEnergy_leaves', 'sEnergyS0_jacobian', 'sEnergyS0_det', 'sEnergyS0_inverse'),
        _res_models('SEnergy'), H.jacobian_oracle('SEnergy'), tie=H.residual_ties('SEnergy')),
    obl('C16.res.simplified_energy.inverse', None, oracle=H.inverse_oracle('SEnergy')),
    obl('C16.res.pressure.jacobian', E + 'ResPressure',
        _t('resPressure_leaves', 'pressureS0_jacobian_partial', 'pressureS0_jacobian_P0_zero', 'pressureS1_jacobian', 'pressureS2_jacobian'),
        _res_models('Pressure'), H.jacobian_oracle('Pressure', skip_20_when_p0=True), tie=H.residual_ties('Pressure')),
    obl('C16.res.pressure.inverse', E + 'ResPressure',
        _t('pressureS0_det', 'pressureS0_inverse', 'pressureS1_det', 'pressureS1_inverse', 'pressureS2_det', 'pressureS2_inverse'),
        _res_models('Pressure'), H.inverse_oracle('Pressure')),
    # FINDING: DF[2,0] has the wrong sign when P0 != 0
    obl('C16.res.pressure.DF20', E + 'FindingResPressure',
        _t('pressureS0_F2_hasDerivAt_rho', 'pressure_DF20_witness_admissible', 'pressure_DF20_finding'),
        ['ResPressureAbsS0_res', 'ResPressureAbsS0_jac'],
        H.jacobian_oracle('Pressure', only=(2, 0), p0_nonzero=True, name='c16.jacobian.Pressure.DF20'), finding=True),
    obl('C16.res.simplified_pressure', E + 'ResSPressure',
        _t('resSPressure_leaves', 'sPressureS0_jacobian', 'sPressureS0_det', 'sPressureS0_inverse'),
        _res_models('SPressure'), H.jacobian_oracle('SPressure'), tie=H.residual_ties('SPressure')),
    obl('C16.res.simplified_pressure.inverse', None, oracle=H.inverse_oracle('SPressure')),
    obl('C16.res.instances', E + 'Instances',
        _t('pressure_ideal_accepts_iff', 'pressure_ideal_concrete_eq_abstract_spherical', 'pressureS2_jacobian_ideal',
           'pressureS2_jacobian_stiff', 'pressureS2_jacobian_nobleAbel', 'pressureS2_jacobian_cs', 'pressureS2_jacobian_stein_expanded',
           'energyS2_jacobian_ideal'),
        ['ResPressureIdeal_res', 'ResPressureAbsS2_res']),
    # ---- Newton ---------------------------------------------------------------------------------------------
    obl('C16.newton.exit', E + 'Newton', _t('loop_converged', 'loop_iterations', 'newton_converged'),
        oracle=H.newton_reasonable(), tie=H.newton_tie),
    # FINDING: convergence does not imply a positive shock speed; the default guess lands on the spurious root
    obl('C16.newton.positive_speed', E + 'FindingSpuriousRoot',
        _t('spurious_admissible', 'spurious_root_finding', 'spurious_root_any_tolerance'),
        ['ResPressureAbsS2_res', 'EosIdeal_P', 'EosIdeal_e'],
        H.combine(H.newton_default_guess(), H.newton_reasonable('speed')), finding=True),
    # FINDING: the exit test of the while loop is passed by NaN: solve() returns NaN states as converged solutions
    obl('C16.newton.nan_exit', E + 'FindingNewtonNaN', _t('loop_accepts_incomparable', 'incomparable_exists'),
        oracle=H.newton_reasonable('nan'), finding=True),
]

PROP = dict(
    groups=['eos'],
    obligations=_o,
    corr_models=[],
    corr_n=60,
    oracle_budget=0.35,
    scope='Black-box Noh.  EOS library (ideal, stiffened, Noble-Abel, Carnahan-Starling, Steinberg incl. aluminium): every method '
          'traced with symbolic constants; closures proved mutually inverse and every derivative method proved to be the HasDerivAt '
          'derivative of its closure with the documented argument order, on the stated domains -- except the methods proved WRONG '
          '(findings: Carnahan-Starling de_drho; Steinberg dPinf_drho, deinf_drho, dP_drho, de_drho for rho > rho_ref).  Residual '
          'classes: traced over an abstract EOS (methods = free symbols, argument order checked) per symmetry; every F_prime entry '
          'proved to be the partial derivative of F for ANY EOS with correct derivative methods (finding: pressure_noh_residual '
          'DF[2,0] when P0 != 0), determinant = det(F_prime), F_prime_inv F_prime = 1 when determinant != 0 (numpy.linalg.inv/det of '
          'the two 3x3 classes are modelled by adjugate/cofactor formulas -- an idealisation; the two 2x2 classes hand-code them).  '
          'Newton: hand model of solve(); returned => last step and |F| <= tol, at least one and at most max_iterations updates '
          '(over the reals; over doubles NaN also passes the exit test).  Positivity of the shock speed is NOT implied (finding).  '
          'Function models are tied to the code by Float-twin comparisons with the real methods on every run.',
    trusted_extra=['numpy.linalg.inv / numpy.linalg.det on the 3x3 Jacobians are modelled by the adjugate / cofactor formulas '
                   '(their exact-arithmetic meaning); the tie compares them with numpy numerically',
                   'the abstract-EOS trace replaces each EOS method by a free symbol standing for its value at the call arguments; '
                   'the stub rejects any call whose arguments are not (rho, second unknown) or (rho_0, P_0)'],
)
