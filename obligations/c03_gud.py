"""C03 — Guderley and RMTV equation of state (work package `guderley`)"""
from obligations import obl
from harness import o_guderley as G

T = 'EPV.C03.'
PROP = dict(
    groups=['guderley'],
    obligations=[
        obl('C03.guderley.eos', 'EPV.Props.C03.Guderley',
            [T + 'gudstate_eos', T + 'gudstate_sound_speed', T + 'guderley_eos', T + 'guderley_sound_speed'],
            models=['GudRun', 'GudX', 'GudState'], oracle=G.gud_eos, tie=G.tie_models),
        obl('C03.rmtv.eos', 'EPV.Props.C03.RMTV',
            [T + 'rmtv_pressure_energy', T + 'rmtv_pressure_temperature', T + 'rmtv_energy_temperature',
             T + 'rmtv_eos_internal_units'],
            models=['RmtvWire', 'RmtvLoop', 'RmtvRun'], oracle=G.rmtv_eos),
    ],
    corr_models=[],
    oracle_budget=0.4,
    scope='Guderley: p = (gamma-1) rho e and c^2 = gamma p / rho on every branch of the traced state and for the arrays '
          'returned under the public names (traced wiring), arbitrary atom values.  RMTV: P = Gamma rho T, '
          'e = Gamma T/(gamma-1) in internal units and with the unit factors 1e16/1e3 after conversion, '
          'P = (gamma-1) rho e, every branch of the traced rmtv_1d, public names.',
)
