"""C03 (part geneos, partial) — the fields of the general-EOS Riemann solution obey the declared closure (ideal gas, JWL)."""
from obligations import obl
from harness import o_geneos as G
from obligations.c07_geneos import BASE, GEN, names

M = 'EPV.Props.C03.RiemannGen'
T = 'EPV.C03.RiemannGen.'
JWL = ['RiemJwlFun', 'RiemJwlDfun', 'RiemDsdrJWL', 'RiemDsdpJWL', 'RiemDsdrIG', 'RiemDsdpIG']

PROP = dict(
    groups=['riemann'],
    obligations=[
        obl('C03.geneos.states', M, names(T, 'st_eos gen_states_eos fan_interp_eos'), BASE + GEN + JWL, G.eos),
        obl('C03.geneos.regions', M,
            names(T, 'gen_rcs_eos_partial gen_scr_eos_partial gen_rcr_eos_partial gen_scs_eos_partial'), BASE + GEN + JWL, G.eos),
        obl('C03.geneos.pressure_form', M, names(T, 'eos_ig_pressure eos_jwl_pressure'), BASE + GEN + JWL, G.eos),
        obl('C03.geneos.tie', tie=G.tie_geneos),
    ],
    corr_models=[],
    oracle_budget=0.4,
    scope='GenEOS part (PARTIAL): in the hand model of the general-EOS driver (tied to GenEOS_Solver) the constant states and '
          'every row of both fan tables store e = sie(p, rho, gamma_side) with the traced sie; at every grid node outside the '
          'smeared cells the assembled state satisfies the closure of its side of the contact — in a fan at the rows of the '
          'table, between two rows p, rho, u, e are ONE linear interpolation of the neighbouring rows; p = (gamma-1) rho e, '
          'resp. the JWL pressure form. No hypothesis on the atoms. Separate interpolation of the fields between rows / grid '
          'nodes is outside (oracle with the tolerance of the table resolution).',
)
