"""C13 — burn times are causal first-arrival times: Kenamond 1-3 (2-D and 3-D) and the DSD cylindrical expansion."""
from obligations import obl
from harness import o_burn as B

_L1, _L2, _L3, _LD = 'EPV.Lemmas.BurnK1', 'EPV.Lemmas.BurnK2', 'EPV.Lemmas.BurnK3', 'EPV.Lemmas.BurnDSD'
_K1, _K2, _K3, _DS = ('EPV.Props.C13.Kenamond1', 'EPV.Props.C13.Kenamond2', 'EPV.Props.C13.Kenamond3',
                      'EPV.Props.C13.DSDCyl')
_B, _T = 'EPV.Burn.', 'EPV.C13.'


def _both(fmt, pre=_T):
    return [pre + fmt % n for n in (2, 3)]


_o = [
    # the bridge: traced model = documented formula on EuclideanSpace, acceptance = the constructor's conditions
    obl('C13.k1.model', _L1, _both('k1d%d_leaves', _B) + _both('k1d%d_outcome', _B) + _both('k1d%d_eq_cone', _B),
        ['K1d2', 'K1d3'], B.k1),
    obl('C13.k2.model', _L2, _both('k2d%d_leaves', _B) + _both('k2d%d_outcome', _B) + _both('k2d%d_eq_spec', _B),
        ['K2d2', 'K2d3'], B.k2),
    obl('C13.k3.model', _L3, _both('k3d%d_leaves', _B) + _both('k3d%d_outcome', _B) + _both('k3d%d_shadow_iff', _B)
        + _both('k3d%d_eq_spec', _B), ['K3d2', 'K3d3'], B.k3),
    obl('C13.dsd.model', _LD, [_B + 'dsdcyl_leaves', _B + 'dsdcyl_outcome', _B + 'dsdcyl_accepts', _B + 'dsdcyl_eq_spec',
                              _B + 'dsdcyl_eq_L8', _B + 'dsdcyl_eq_L9'], ['DSDCyl'], B.dsd),
    # Kenamond 1
    obl('C13.k1.arrival', _K1, _both('k1d%d_at_detonator') + _both('k1d%d_ge') + _both('k1d%d_eq_td_iff') + _both('k1d%d_gt')
        + _both('k1d%d_causal'), ['K1d2', 'K1d3'], B.k1),
    obl('C13.k1.lipschitz', _K1, _both('k1d%d_lipschitz') + _both('k1d%d_continuous'), ['K1d2', 'K1d3'], B.k1),
    obl('C13.k1.eikonal', _K1, _both('k1d%d_eikonal_rays') + _both('k1d%d_gradient'), ['K1d2', 'K1d3'], B.k1),
    # Kenamond 2
    obl('C13.k2.arrival', _K2, _both('k2d%d_ge_min') + _both('k2d%d_at_det1_le') + _both('k2d%d_at_det2_le')
        + _both('k2d%d_at_det4_le') + _both('k2d%d_at_det5_le') + _both('k2d%d_at_det3'), ['K2d2', 'K2d3'], B.k2),
    obl('C13.k2.lipschitz', _K2, _both('k2d%d_lipschitz') + _both('k2d%d_lipschitz_inside') + _both('k2d%d_continuous'),
        ['K2d2', 'K2d3'], B.k2),
    obl('C13.k2.sphere', _K2, _both('k2d%d_inside') + _both('k2d%d_outside'), ['K2d2', 'K2d3'], B.k2),
    # Kenamond 3
    obl('C13.k3.arrival', _K3, _both('k3d%d_ge') + _both('k3d%d_at_detonator') + _both('k3d%d_ge_straight')
        + _both('k3d%d_shadow_path_ge_dist') + _both('k3d%d_gt') + _both('k3d%d_eq_td_iff'), ['K3d2', 'K3d3'], B.k3),
    obl('C13.k3.shadow_boundary', _K3, _both('k3d%d_boundary_dist') + _both('k3d%d_boundary') + _both('k3d%d_continuousOn'),
        ['K3d2', 'K3d3'], B.k3),
    obl('C13.k3.line_of_sight', _K3, _both('k3d%d_los') + _both('k3d%d_lipschitz_partial') + _both('k3d%d_gradient_los'),
        ['K3d2', 'K3d3'], B.k3),
    obl('C13.k3.shadow_gradient', _K3, _both('k3d%d_gradient_shadow'), ['K3d2', 'K3d3'], B.k3),
    # DSD cylinder
    obl('C13.dsd.radial_derivative', _DS, [_T + 'dsdcyl_radial_deriv_inner', _T + 'dsdcyl_radial_deriv_outer',
                                           _T + 'dsdcyl_gradient_inner', _T + 'dsdcyl_gradient_outer'], ['DSDCyl'], B.dsd),
    obl('C13.dsd.arrival', _DS, [_T + 'dsdcyl_ge', _T + 'dsdcyl_at_detonator', _T + 'dsdcyl_strictMono'], ['DSDCyl'], B.dsd),
    obl('C13.dsd.lipschitz', _DS, [_T + 'dsdcyl_lipschitz_inner', _T + 'dsdcyl_lipschitz_outer'], ['DSDCyl'], B.dsd),
    obl('C13.dsd.continuity', _DS, [_T + 'dsdcyl_continuous', _T + 'dsdcyl_interface'], ['DSDCyl'], B.dsd),
]

PROP = dict(
    groups=['burn'],
    obligations=_o,
    corr_models=['K1d2', 'K1d3', 'K2d2', 'K2d3', 'K3d2', 'K3d3', 'DSDCyl'],
    corr_n=60,
    oracle_budget=0.3,
    scope='Kenamond 1-3 (each traced in 2-D and in 3-D, constructor + _run on one symbolic point) and the DSD cylindrical '
          'expansion.  The traced burn time is proved equal to the documented formula over EuclideanSpace R (Fin n) '
          '(EPV.Lemmas.BurnK1/K2/K3/DSD, one module per solver), acceptance = the constructor\'s ordering conditions.  Proved for all admissible '
          'parameters and all points: K1 t(x_d)=t_d, t>=t_d, t = t_d ONLY at the detonator (strictly later elsewhere), t p <= t q + dist/D, |t p - t q| <= dist/D, eikonal equality along rays, gradient '
          'norm 1/D from the generated certificates; K2 t >= min t_di, t(x_di) <= t_di, t(x_d3) = t_d3, global 1/D2 and '
          'inner 1/D1 Lipschitz bounds, ||p|| <= R -> t = t_d3 + ||p||/D1, continuity across the sphere; K3 t >= t_d, '
          't(x_d) = t_d, t = t_d only at the detonator, theta = 0 -> ||p - x_d|| = l_da + l_bp (both leaves agree), continuity on the explosive, shadow '
          'path >= straight distance, gradient norm 1/D strictly inside the line-of-sight region and strictly inside the shadow region off the ray directly behind the obstacle (generated certificates through arccos/sqrt); DSD dt/dr = 1/(D_CJ - alpha/r) per material (radial HasDerivAt and gradient norm '
          'from the log certificates), continuity at r_1 and r_2, t >= t_d, strict monotonicity, |t p - t q| <= dist/(D_CJ - alpha/rho) for two points of one material at radii >= rho, under r_1 > alpha_1/D_1, '
          'r_2 > alpha_2/D_2.  Partial: the 1/D bound of Kenamond 3 when a point is shadowed (bound '
          'proved for line-of-sight pairs only; sampled by the oracle), the pointwise gradient of Kenamond 2; RateStick and '
          'ExplosiveArc (numerical PDE inversion) are not modelled.',
)
