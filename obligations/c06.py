"""C06 — a value depends only on (parameters, point, time), not on history or batch"""
from obligations import obl
from harness import o_c06, o_c07rest

E = 'EPV.Props.C06.Effects'
B = 'EPV.Props.C05.Base'
PROP = dict(
    groups=['effects', 'tables'],
    obligations=[
        # shared mutable state: effect programs regenerated from the AST, analysis proved sound
        obl('C06.effects.accepted', E, ['EPV.C06.all_accepted', 'EPV.C06.programs_names', 'EPV.C06.programs_classes',
                                        'EPV.C06.programs_read', 'EPV.C06.entry_points_clean'], models=['Effects'],
            tie=o_c06.effects_tie, oracle=o_c06.two_instances),
        obl('C06.effects.finding', E, ['EPV.C06.nohblackbox_shared_solver_finding'], models=['Effects'], finding=True),
        obl('C06.effects.soundness', 'EPV.Props.C06.Soundness', ['EPV.C06.da_sound', 'EPV.C06.accepted_clean']),
        obl('C06.effects.noninterference', E, ['EPV.C06.run_agree', 'EPV.C06.clean_run_store_independent',
                                               'EPV.C06.history_independent']),
        # point-wise purity: the model of a point-wise solver is `call f pts`
        obl('C06.batch.model', B, ['EPV.C05.call_getElem?', 'EPV.C05.call_perm', 'EPV.C05.call_append',
                                   'EPV.C05.call_replicate', 'EPV.C05.call_value_batch_independent']),
        # the real code
        obl('C06.batch.real', oracle=[o_c06.batch, o_c06.eppiston_batch, o_c06.ie_batch, o_c06.r2d_fan_order, o_c06.guderley_batch,
                                      o_c07rest.default_dicts_do_not_leak, o_c06.coord_major_instances]),
        obl('C06.history.real', oracle=o_c06.history),
        obl('C06.shared_solver.real', oracle=o_c06.shared_solver),
    ],
    corr_models=[],
    oracle_budget=1.0,
    scope='Module-level globals (Guderley, RMTV, Su-Olson, radiative-shock `fnctn`): effect programs extracted from the AST on '
          'every run, accepted by a definite-assignment analysis with constant propagation whose soundness is proved, and lifted '
          'to store- and history-independence of a deterministic call; the extractor is tied to the code by matching the real '
          'LOAD_GLOBAL/STORE_GLOBAL event traces of real calls against the IR. Batch independence of point-wise solvers is the '
          'model `call f pts`; for every public class the real value at a point is compared across batches, orders, duplicates, '
          'repeated calls and against a fresh interpreter. Class-level and per-instance attributes are covered by the history '
          'oracle only (partial); grid-dependent solvers are compared within their documented resolution.',
)
