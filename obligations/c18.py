"""C18 — Su-Olson: modes of the linear system, Marshak phase, assembly, dimensionalisation (work package rad)"""
from obligations import obl
from harness import o_rad

M = 'EPV.Props.C18.SuOlson'
T = 'EPV.C18.'
PROP = dict(
    groups=['suolson'],
    obligations=[
        obl('C18.suolson.family1', M, [T + 'fam1_dispersion', T + 'fam1_marshakPhase', T + 'fam1_integrand', T + 'fam1_solves'],
            models=['SuFam1'], tie=o_rad.su_family_tie('SuFam1'), oracle=o_rad.su_pde),
        obl('C18.suolson.family2', M, [T + 'fam2_dispersion', T + 'fam2_marshakPhase', T + 'fam2_integrand_u',
                                       T + 'fam2_integrand_v', T + 'fam2_solves', T + 'fam2_weights', T + 'fam2_v_companion'],
            models=['SuFam2'], tie=o_rad.su_family_tie('SuFam2')),
        obl('C18.suolson.family3', M, [T + 'fam3_dispersion', T + 'fam3_marshakPhase', T + 'fam3_integrand', T + 'fam3_solves'],
            models=['SuFam3'], tie=o_rad.su_family_tie('SuFam3')),
        obl('C18.suolson.assembly', M, [T + 'usol_shape', T + 'vsol_shape'], models=['SuUsol', 'SuVsol'],
            tie=o_rad.su_assembly_tie, oracle=o_rad.su_table),
        obl('C18.suolson.marshak', M, [T + 'mode_pair_iff_dispersion', T + 'one_minus_modes', T + 'fam1_solves', T + 'fam2_solves', T + 'fam3_solves'],
            models=['SuFam1', 'SuFam2', 'SuFam3'], oracle=o_rad.su_marshak),
        obl('C18.suolson.conversion', M, [T + 'suolson_conversion_rad', T + 'suolson_conversion_mat', T + 'cLight_close',
                                          T + 'suolson_physical_rad', T + 'suolson_physical_mat', T + 'suolson_physical_marshak'],
            models=['SuOlson'], oracle=o_rad.su_conversion),
    ],
    corr_models=[],
    oracle_budget=4.0,
    scope='Su-Olson: PARTIAL by design (DESIGN §4 C18). Proved on the generated models of gamma_i, theta_i and the four integrands '
          '(every leaf of the trace): each integrand is a separable mode W e^{-s tau} sin(gamma x + theta); inside the clamps the coded '
          'gamma_i satisfy the dispersion relation gamma^2 = eps s + s/(1-s) (s1 = eta^2, s2 = 1 + 1/(eps eta), s3 = 1 - eta^2), which is '
          'equivalent to the mode pair (u, u/(1-s)) solving eps u_tau = u_xx + v - u, v_tau = u - v; theta_i is the Marshak phase on every '
          'leaf; the assembly 1 - 2k I1 - k e^{-tau} I2 (quadratures as atoms); the returned temperatures are the stated conversion of '
          '(u, v) and the change of variables maps the dimensionless system to the documented physical one.  ATOMS (oracle only): '
          'mode weights, eta -> sqrt(1-eta^2) reparametrisation relating family 3 to family 1, splitting at zeros, quadrature, '
          'initial condition, decay at infinity.',
)
