"""Registry of proof obligations, per property (DESIGN.md §2.1).

One file per property (cNN.py), each defining PROP = dict(groups=…, obligations=[…], corr_models=[…], …).
An obligation owns: the Lean theorem(s) that discharge it, the generated models it
depends on (tie = Float-twin correspondence), optionally a hand-model tie, and a
numeric oracle on the real code used to look for a failing input.  A theorem named
here but absent from the build counts as *not discharged*, never as skipped."""
import importlib
import os
import sys

sys.path.insert(0, os.path.join(os.path.dirname(os.path.dirname(os.path.abspath(__file__))), 'tools'))


def obl(id, module=None, theorems=(), models=(), oracle=None, tie=None, **kw):
    d = dict(id=id, module=module, theorems=list(theorems), models=list(models), oracle=oracle, tie=tie)
    d.update(kw)
    return d


PROPS = {}
for _f in sorted(os.listdir(os.path.dirname(os.path.abspath(__file__)))):
    if len(_f) == 6 and _f[0] == 'c' and _f.endswith('.py'):
        _m = importlib.import_module('obligations.' + _f[:-3])
        PROPS[_f[:-3].upper()] = _m.PROP
