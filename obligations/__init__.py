"""Registry of proof obligations, per property (DESIGN.md §2.1).

One file per property (cNN.py), each defining PROP = dict(groups=…, obligations=[…], corr_models=[…], …).
An obligation owns: the Lean theorem(s) that discharge it, the generated models it
depends on (tie = Float-twin correspondence), optionally a hand-model tie, and a
numeric oracle on the real code used to look for a failing input.  A theorem named
here but absent from the build counts as *not discharged*, never as skipped."""
import importlib
import os
import sys

sys.path.insert(0, os.path.join(os.path.dirname(os.path.dirname(os.path.abspath(__file__))), 'tools'))


def obl(id, module=None, theorems=(), models=(), oracle=None, tie=None, **kw):
    d = dict(id=id, module=module, theorems=list(theorems), models=list(models), oracle=oracle, tie=tie)
    d.update(kw)
    return d


PROPS = {}
# cNN.py and cNN_<part>.py files are merged into one property record
import re as _re
for _f in sorted(os.listdir(os.path.dirname(os.path.abspath(__file__)))):
    _mt = _re.match(r'^(c\d\d)(_\w+)?\.py$', _f)
    if not _mt:
        continue
    _m = importlib.import_module('obligations.' + _f[:-3])
    _id = _mt.group(1).upper()
    _p = _m.PROP
    if _id not in PROPS:
        PROPS[_id] = dict(groups=[], obligations=[], corr_models=[], scope='', trusted_extra=[],
                          corr_n=_p.get('corr_n', 60), oracle_budget=_p.get('oracle_budget', 0.5))
    _d = PROPS[_id]
    _d['obligations'] += _p.get('obligations', [])
    for _k in ('groups', 'corr_models', 'trusted_extra'):
        for _x in _p.get(_k, []):
            if _x not in _d[_k]:
                _d[_k].append(_x)
    _d['scope'] = (_d['scope'] + ' ' + _p.get('scope', '')).strip()
    _d['corr_n'] = min(_d['corr_n'], _p.get('corr_n', 60))
    _d['oracle_budget'] = min(_d['oracle_budget'], _p.get('oracle_budget', 0.5))
_ids = {}
for _id, _d in PROPS.items():
    for _o in _d['obligations']:
        assert _o['id'] not in _ids, 'duplicate obligation id ' + _o['id']
        _ids[_o['id']] = 1
