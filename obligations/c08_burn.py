"""C08 (burn-time share) — Kenamond 1-3 and the DSD cylindrical expansion are dimensionally consistent."""
from obligations import obl
from harness import o_burn as B

_M, _T = 'EPV.Props.C08.Burn', 'EPV.C08.'      # one module per solver: _M + 'K1' | 'K2' | 'K3' | 'DSD'
_o = [
    obl('C08.burn.k1', _M + 'K1', [_T + n for n in ('k1d2_outcome_scale', 'k1d2_scale', 'k1d3_outcome_scale', 'k1d3_scale',
                                             'k1d2_positions_scale')], ['K1d2', 'K1d3'], B.units['k1']),
    obl('C08.burn.k2', _M + 'K2', [_T + n for n in ('k2d2_adm_scale', 'k2d2_scale', 'k2d3_adm_scale', 'k2d3_scale')],
        ['K2d2', 'K2d3'], B.units['k2']),
    obl('C08.burn.k3', _M + 'K3', [_T + 'k3d2_scale', _T + 'k3d3_scale'], ['K3d2', 'K3d3'], B.units['k3']),
    obl('C08.burn.dsd', _M + 'DSD', [_T + 'dsdcyl_outcome_scale', _T + 'dsdcyl_scale'], ['DSDCyl'], B.units['dsd']),
]
PROP = dict(
    groups=['burn'],
    obligations=_o,
    corr_models=['K1d2', 'K1d3', 'K2d2', 'K2d3', 'K3d2', 'K3d3', 'DSDCyl'],
    corr_n=60,
    oracle_budget=0.3,
    scope='Burn share: for every L, T > 0, re-expressing positions, radii and detonator locations x L, detonation times x T, '
          'detonation speeds x L/T and the DSD curvature coefficients x L^2/T multiplies the traced burn time by T and '
          'preserves acceptance (Kenamond 1-3 in 2-D and 3-D, DSD cylinder); positions are returned x L (stated for '
          'Kenamond 1; the other models return the input coordinates the same way).',
)
