"""C08 (part: detonation) — dimensional consistency of EHEP, Mader, EP piston."""
from obligations import obl
from harness import o_detonation as D

PROP = dict(
    groups=['detonation'],
    obligations=[
        obl('C08.ehep.units', 'EPV.Props.C08.EHEP',
            ['EPV.C08.ehep_accepted_units', 'EPV.C08.ehep_atoms', 'EPV.C08.ehep_units_I', 'EPV.C08.ehep_units_II',
             'EPV.C08.ehep_units_III', 'EPV.C08.ehep_units_IV', 'EPV.C08.ehep_units_V', 'EPV.C08.ehep_units_const',
             'EPV.C08.ehep_units'],
            ['EHEP'], D.units_ehep_fields, tie=D.tie_ehep),
        # FINDING: the closed-boundary test of the region selection mixes cm and microseconds under one absolute tolerance
        obl('C08.ehep.region_test', 'EPV.Props.C08.FindingEHEP',
            ['EPV.C08.ehep_on_line_micro', 'EPV.C08.ehep_on_line_sec', 'EPV.C08.ehep_region_test_not_unit_invariant'],
            ['EHEPOnLine'], D.units_ehep_region, tie=D.tie_ehep_on_line, finding=True),
        # the region value is an atom of the units theorems: the hand model of the region selection (incl. the width of the
        # closed-boundary band that _run passes on) is tied to the code, and up-scaled units are tried next to the edges
        obl('C08.ehep.region_model', None, [], [], D.units_ehep_region_up, tie=D.tie_ehep_region),
        obl('C08.mader.units', 'EPV.Props.C08.Mader', ['EPV.C08.mader_units'], ['MaderRare'], D.units_mader,
            tie=D.tie_mader_rare),
        obl('C08.eppiston.units', 'EPV.Props.C08.EPPiston',
            ['EPV.C08.hypo_units', 'EPV.C08.hypo_consistent_units', 'EPV.C08.ifin_units', 'EPV.C08.ifin_consistent_units',
             'EPV.C08.fin_units', 'EPV.C08.fin_consistent_units', 'EPV.C08.epprun_units'],
            ['EPPistonHypo', 'EPPistonIfin', 'EPPistonFin', 'EPPistonRun'], D.units_epp, tie=D.tie_eppiston),
    ],
    corr_models=[],
    oracle_budget=0.4,
    scope='Mader: full scaling group of rare at tree level (same branch, scaled fields). EHEP: acceptance and the five fields in '
          'every region transform with their dimensions (region value = atom). EP piston: every definition of the constructor '
          '(incl. the residuals handed to fsolve) and the region selection of _run transform with their dimensions. '
          'FINDING: EHEP point_on_line is not unit invariant (time in seconds moves points into other regions).',
)
