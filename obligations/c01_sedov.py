"""C01 (Sedov share, partial) — dlamdv is the derivative of the similarity function lambda(v)"""
from obligations import obl
from harness import o_sedov

FUNCS = ('SedovFuncs', 'SedovFuncsO2', 'SedovFuncsO3')
PROP = dict(
    groups=['sedov'],
    obligations=[
        obl('C01.sedov.dlamdv', 'EPV.Props.C01.Sedov',
            ['EPV.C01.%s_%s' % (m, t) for m in FUNCS for t in ('dlamdv', 'dlamdv_tree')],
            models=list(FUNCS), tie=o_sedov.tie_models),
        obl('C01.sedov.fields', 'EPV.Props.C01.SedovRun',
            ['EPV.C01.sedov_behind_sing', 'EPV.C01.sedov_behind_std', 'EPV.C01.sedov_behind_vac_hole', 'EPV.C01.sedov_behind_vac',
             'EPV.C01.runVac_c2'],
            models=['SedovRunSing', 'SedovRunStd', 'SedovRunVac', 'SedovSingular', 'SedovShock'], tie=o_sedov.tie_assemble),
    ],
    corr_models=[], corr_n=20, oracle_budget=1.2,
    scope='Sedov (partial): the coded dlamdv is d lambda/dv in all three singularity branches (generated certificates); that f, g, h '
          'solve the similarity ODEs is a growth target; behind the shock the traced _run returns the post-shock state times the '
          'similarity functions at lambda = r/r2 (all three solution types).',
)
