"""C01 (part: detonation) — escape of HE products, regions I-V: Riemann-invariant form and the gamma = 3 Euler equations."""
from obligations import obl
from harness import o_detonation as D

_M = 'EPV.Props.C01.EHEP'
_R = ['I', 'II', 'III', 'IV', 'V']

PROP = dict(
    groups=['detonation'],
    obligations=[
        obl('C01.ehep.riemann', _M, ['EPV.C01.ehep_leaves'] + ['EPV.C01.ehep_%s_%s' % (r, k) for r in _R for k in ('riemann', 'isentrope')],
            ['EHEP'], D.ehep_pde, tie=D.tie_ehep),
        obl('C01.ehep.euler', _M, ['EPV.C01.ehep_%s_%s' % (r, k) for r in _R for k in ('mass', 'momentum', 'energy')],
            ['EHEP'], D.ehep_pde),
    ],
    corr_models=[],
    oracle_budget=0.4,
    scope='EHEP regions I-V (generated model of __init__ + _run, polygon test = atom): (u+c) and (u-c) are transported '
          'with their own speed (Riemann-invariant form), rho and p are the p_rho powers of c, and the planar mass, '
          'momentum and (for gamma = 3) internal-energy balances vanish, for all real D != 0, rho_0, up, xtilde wherever the '
          'region formulas are defined; region II on the unclamped branch.',
)
