"""C10 — Guderley self-similarity (work package `guderley`)"""
from obligations import obl
from harness import o_guderley as G

M = 'EPV.Props.C10.Guderley'
T = 'EPV.C10.'
PROP = dict(
    groups=['guderley'],
    obligations=[
        obl('C10.guderley.similarity', M,
            [T + 'guderley_similarity', T + 'guderley_power_law_form', T + 'guderley_ahead', T + 'xi_similarity'],
            models=['GudRun', 'GudX', 'GudState'], oracle=[G.gud_similarity, G.gud_real], tie=G.tie_models),
    ],
    corr_models=[],
    oracle_budget=0.4,
    scope='Guderley: the fields are rho0 R(x), r^(1-lambda)/(-lambda x) V(x), ... with x = t_L / r^lambda for arbitrary '
          '(V, C, R); the similarity map (r, t_L) -> (s r, s^lambda t_L) multiplies them by 1, s^(1-lambda), '
          's^(2(1-lambda)).  (V, C, R), lambda, B are atoms; oracle on the real code with the published lambda (quick) and '
          'one unpatched call (thorough).',
)
