"""C08 — Guderley dimensional consistency (work package `guderley`)"""
from obligations import obl
from harness import o_guderley as G

M = 'EPV.Props.C08.Guderley'
T = 'EPV.C08.'
GUD = ['GudRun', 'GudX', 'GudState']
PROP = dict(
    groups=['guderley'],
    obligations=[
        obl('C08.guderley.units', M, [T + 'guderley_units_partial', T + 'factor_density', T + 'factor_velocity',
                                      T + 'factor_pressure', T + 'factor_sie'],
            models=GUD, oracle=G.gud_units, tie=G.tie_models),
        obl('C08.guderley.length_time_units', M, [T + 'finding_guderley_length_time_units'],
            models=GUD, oracle=G.gud_units_lt, finding=True),
    ],
    corr_models=[],
    oracle_budget=0.4,
    scope='Guderley (partial): covariant under every change of the unit of mass (rho0) and under the changes of length and '
          'time units with T = L^lambda applied to the Lazarus time.  Finding: independent length / time units are not '
          'honoured (the shock trajectory r_s = (-t_L)^(1/lambda), t_L = t/0.750024322 - 1, is built in).',
)
