"""C10 (part riemann) — the 1-D ideal-gas Riemann solution depends on x, t only through (x - xd0)/t."""
from obligations import obl
from harness import o_riemann as R

# generated models (group 'riemann') that EPV.Lemmas.Riemann imports: every theorem below depends on them
BASE = ['RiemSound', 'RiemSie', 'RiemShock', 'RiemRare', 'RiemRhoShock', 'RiemRhoRare', 'RiemShockVel', 'RiemFan', 'RiemUSCN', 'RiemUNCS', 'RiemUNCR', 'RiemURCN', 'RiemURCVR', 'RiemSCS', 'RiemSCR', 'RiemRCS', 'RiemRCR', 'RiemSetup']

M = 'EPV.Props.C10.Riemann'
T = 'EPV.C10.Riemann.'

PROP = dict(
    groups=['riemann'],
    obligations=[
        obl('C10.riemann_ig.fan', M, [T + 'fan_selfsimilar', T + 'fan_similar'], BASE, R.similar),
        obl('C10.riemann_ig.solution', M, [T + 'solveWith_selfsimilar', T + 'solve_selfsimilar'], BASE, R.similar),
        obl('C10.riemann.tie.helpers', models=BASE, tie=R.tie_models(['RiemFan', 'RiemShockVel', 'RiemSound', 'RiemSie'])),
        obl('C10.riemann.tie.assembly', tie=R.tie_assembly),
    ],
    corr_models=[],
    oracle_budget=0.4,
    scope='Riemann part: rho_p_u_rarefaction at (xd0 + s (x - xd0), s t) equals its value at (x, t) on every leaf, and the '
          'whole assembled solution (pattern, region, p, rho, u, e) is invariant under that map for s > 0.',
)
