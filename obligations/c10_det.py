"""C10 (part: detonation) — self-similarity of EHEP region I and of Mader (cell width scaled with t)."""
from obligations import obl
from harness import o_detonation as D

PROP = dict(
    groups=['detonation'],
    obligations=[
        obl('C10.ehep.region_I', 'EPV.Props.C10.EHEP', ['EPV.C10.ehep_region_I_self_similar', 'EPV.C10.ehep_region_I_xi'],
            ['EHEP'], D.similar_ehep, tie=D.tie_ehep),
        # the region atom: polygon corners <-> half-planes (theorem) and hand model of the polygon test <-> code (tie)
        obl('C10.ehep.region_model', 'EPV.Props.C10.EHEP', ['EPV.C10.ehep_region_I_halfplanes'], ['EHEPInit'], None,
            tie=D.tie_ehep_region),
        # Mader's cell width comes from the batch: hand model of the cell loop <-> public call
        obl('C10.mader.cell_model', None, [], [], None, tie=D.tie_mader_cells),
        obl('C10.mader.self_similar', 'EPV.Props.C10.Mader', ['EPV.C10.mader_self_similar'], ['MaderRare'], D.similar_mader,
            tie=D.tie_mader_rare),
    ],
    corr_models=[],
    oracle_budget=0.4,
    scope='EHEP region I: the returned fields at (s x, s t) and (x, t) coincide whenever both are in region I (tree level). '
          'Mader: rare at (s xlab, s time) with cell width s dx returns the same values and takes the same branch, all branches.',
)
