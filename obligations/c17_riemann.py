"""C17 (part riemann) — admissibility of the 1-D ideal-gas Riemann solution: compressive shocks, monotone fans."""
from obligations import obl
from harness import o_riemann as R

# generated models (group 'riemann') that EPV.Lemmas.Riemann imports: every theorem below depends on them
BASE = ['RiemSound', 'RiemSie', 'RiemShock', 'RiemRare', 'RiemRhoShock', 'RiemRhoRare', 'RiemShockVel', 'RiemFan', 'RiemUSCN', 'RiemUNCS', 'RiemUNCR', 'RiemURCN', 'RiemURCVR', 'RiemSCS', 'RiemSCR', 'RiemRCS', 'RiemRCR', 'RiemSetup']

M = 'EPV.Props.C17.Riemann'
T = 'EPV.C17.Riemann.'
D = ['RiemShock', 'RiemRare', 'RiemFan']       # models whose derivative certificates are used

PROP = dict(
    groups=['riemann'],
    obligations=[
        obl('C17.riemann_ig.fan_monotone', M,
            [T + 'fan_dsign', T + 'fan_leaves', T + 'fan_deriv_L0', T + 'fan_deriv_L1', T + 'fan_deriv_L2', T + 'fan_deriv_L3',
             T + 'fan_monotone', T + 'fan_expansive'], BASE, R.fans),
        obl('C17.riemann_ig.fan_interior', M,
            [T + 'fanY_inside', T + 'left_fan_monotone_inside', T + 'right_fan_monotone_inside', T + 'right_fan_ux'], BASE,
            R.fans),
        obl('C17.riemann_ig.residual_monotone', M,
            [T + 'xcall_deriv_sign', T + 'xcall_strict_monotone', T + 'root_unique'], BASE, R.xcall),
        obl('C17.riemann_ig.pressure_range', M, [T + 'pattern_pressure_range'], BASE, R.fans),
        obl('C17.riemann_ig.compressive', M,
            [T + 'shock_compressive', T + 'shock_direction', T + 'scs_compressive', T + 'scr_compressive',
             T + 'rcs_compressive'], BASE, R.fans),
        obl('C17.riemann.tie.helpers', models=BASE, tie=R.tie_models(BASE)),
        obl('C17.riemann.tie.assembly', tie=R.tie_assembly),
    ],
    corr_models=[],
    oracle_budget=0.4,
    scope='Riemann part: each star-state residual is strictly monotone in p (generated derivative certificates), each '
          'classification condition is the sign of a residual at pl or pr, hence in the selected pattern px >= p0 behind every '
          'shock and px < p0 behind every fan; shocks raise pressure and density in the direction the gas crosses them; inside '
          'a fan rho, p are strictly monotone in x and u is strictly increasing (certificates of rho_p_u_rarefaction).',
)
