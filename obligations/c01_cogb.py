"""C01 (part: Coggeshall solutions 13, 14, 16, 17, 18, 19, 20, 21 and the Noh family) — the returned
fields satisfy the documented balance equations of mass, momentum and energy (with the conduction
term where the problem has one) on every ok leaf of the traced models.

Obligations whose property is FALSE on the current tree carry the closed-form residual and a
`Finding_…` theorem (negation at a witness); their oracle reproduces the failure on the real code
with the site named in the comment — these are the entries for known_findings.json."""
from obligations import obl
from harness import o_c01_b as O

_o = []


def _cog(n, part, thms, eq=None, **kw):
    T = ['EPV.C01.cog%d_leaves' % n] + ['EPV.C01.' + t for t in thms]
    orc = O.cog(n, eq) if eq else None
    _o.append(obl('C01.cog%d.%s' % (n, part), 'EPV.Props.C01.Cog%d' % n, T, ['Cog%d' % n], orc, **kw))


# --- Cog13: mass, momentum hold; energy is violated (site Cog13:energy) ----------------------------
_cog(13, 'mass', ['cog13_mass', 'cog13_tree_agree', 'cog13_mass_tree'], 'mass')
_cog(13, 'momentum', ['cog13_momentum', 'cog13_tree_agree', 'cog13_momentum_tree'], 'momentum')
_cog(13, 'energy', ['cog13_energy_residual', 'cog13_energy_ne_zero', 'cog13_default_wellDefined', 'Finding_cog13_energy',
                     'cog13_tree_agree', 'cog13_energy_tree_ne_zero', 'Finding_cog13_energy_tree'],
     'energy', finding=True)                                            # KNOWN FINDING  site 'Cog13:energy'
_o.append(obl('C01.cog13.domain', 'EPV.Props.C01.Cog13', ['EPV.C01.Finding_cog13_domain'], ['Cog13'],
              O.cog_domain(13), finding=True))                          # KNOWN FINDING  site 'Cog13:domain'
# --- Cog14: all three hold where the generated expressions are well defined -----------------------
_cog(14, 'mass', ['cog14_mass', 'cog14_tree', 'cog14_mass_tree'], 'mass')
_cog(14, 'momentum', ['cog14_momentum', 'cog14_tree', 'cog14_momentum_tree'], 'momentum')
_cog(14, 'energy', ['cog14_energy', 'cog14_tree', 'cog14_energy_tree'], 'energy')
_o.append(obl('C01.cog14.domain', 'EPV.Props.C01.Cog14', ['EPV.C01.Finding_cog14_domain'], ['Cog14'],
              O.cog_domain(14), finding=True))                          # KNOWN FINDING  site 'Cog14:domain'
# --- Cog16 ------------------------------------------------------------------------------------------
_cog(16, 'mass', ['cog16_mass', 'cog16_tree', 'cog16_mass_tree'], 'mass')
_cog(16, 'momentum', ['cog16_momentum', 'cog16_tree', 'cog16_momentum_tree'], 'momentum')
_cog(16, 'energy', ['cog16_energy', 'cog16_tree', 'cog16_energy_tree'], 'energy')
# --- Cog17: momentum holds; mass and energy are violated; negative T, rho at the defaults ----------
_cog(17, 'mass', ['cog17_mass_residual', 'cog17_mass_ne_zero', 'cog17_witness_wellDefined', 'Finding_cog17_mass',
                   'cog17_tree_agree', 'cog17_mass_tree_ne_zero', 'Finding_cog17_mass_tree'],
     'mass', finding=True)                                              # KNOWN FINDING  site 'Cog17:mass'
_cog(17, 'momentum', ['cog17_momentum', 'cog17_tree_agree', 'cog17_momentum_tree'], 'momentum')
_cog(17, 'energy', ['cog17_energy_residual', 'cog17_energy_two_point', 'Finding_cog17_energy', 'cog17_tree_agree',
                     'Finding_cog17_energy_tree'],
     'energy', finding=True)                                            # KNOWN FINDING  site 'Cog17:energy'
_o.append(obl('C01.cog17.domain', 'EPV.Props.C01.Cog17', ['EPV.C01.Finding_cog17_domain'], ['Cog17'],
              O.cog_domain(17), finding=True))                          # KNOWN FINDING  site 'Cog17:domain'
# --- Cog18: all three hold; negative temperature at the class defaults ------------------------------
_cog(18, 'mass', ['cog18_mass', 'cog18_tree', 'cog18_mass_tree'], 'mass')
_cog(18, 'momentum', ['cog18_momentum', 'cog18_tree', 'cog18_momentum_tree'], 'momentum')
_cog(18, 'energy', ['cog18_energy', 'cog18_tree', 'cog18_energy_tree'], 'energy')
# (lead) Cog18's negative temperature at the class defaults is real-valued and still satisfies the PDEs: it is an
# admissibility remark (documented in DESIGN.md), not a C01 violation, so no obligation reports it.
# --- Cog19: both smooth regions ---------------------------------------------------------------------
_T19 = ['cog19_tree_post', 'cog19_tree_pre']
_cog(19, 'mass', ['cog19_post_mass', 'cog19_pre_domain', 'cog19_pre_mass'] + _T19 + ['cog19_mass_tree'], 'mass')
_cog(19, 'momentum', ['cog19_post_momentum', 'cog19_pre_momentum'] + _T19 + ['cog19_momentum_tree'], 'momentum')
_cog(19, 'energy', ['cog19_post_energy', 'cog19_pre_energy'] + _T19 + ['cog19_energy_tree'], 'energy')
# --- Cog20: both smooth regions; energy behind the shock needs gamma = (k+3)/(k+1) ------------------
_T20 = ['cog20_shock_continuousAt', 'cog20_tree_post', 'cog20_tree_pre']
_cog(20, 'mass', ['cog20_post_mass', 'cog20_pre_mass'] + _T20 + ['cog20_mass_tree'], 'mass')
_cog(20, 'momentum', ['cog20_post_momentum', 'cog20_pre_momentum'] + _T20 + ['cog20_momentum_tree'], 'momentum')
_cog(20, 'energy', ['cog20_post_energy_residual', 'cog20_post_energy_partial', 'Finding_cog20_post_energy',
                    'cog20_pre_energy'] + _T20 + ['cog20_energy_tree_partial', 'Finding_cog20_energy_tree'],
     'energy', finding=True)        # KNOWN FINDING  site 'Cog20:energy'
# --- Cog21: both smooth regions (k = 2, gamma = 5, no conduction) -----------------------------------
_T21 = ['cog21_shock_continuousAt', 'cog21_tree_post', 'cog21_tree_pre']
_cog(21, 'mass', ['cog21_post_mass', 'cog21_pre_mass'] + _T21 + ['cog21_mass_tree'], 'mass')
_cog(21, 'momentum', ['cog21_post_momentum', 'cog21_pre_momentum'] + _T21 + ['cog21_momentum_tree'], 'momentum')
_cog(21, 'energy', ['cog21_post_energy', 'cog21_pre_energy'] + _T21 + ['cog21_energy_tree'], 'energy')

# --- Noh family (rho, u, p, e form) -----------------------------------------------------------------
_N = 'EPV.Props.C01.Noh'


def _noh(oid, thms, models, orc):
    _o.append(obl(oid, _N, ['EPV.C01.' + t for t in thms], models, orc))


_noh('C01.noh.post.mass', ['noh_leaves', 'noh_post_mass'], ['Noh'], O.noh('mass'))
_noh('C01.noh.post.momentum', ['noh_leaves', 'noh_post_momentum'], ['Noh'], O.noh('momentum'))
_noh('C01.noh.post.energy', ['noh_leaves', 'noh_post_energy'], ['Noh'], O.noh('energy'))
_noh('C01.noh.pre.mass', ['noh_leaves', 'noh_pre_mass'], ['Noh'], None)
_noh('C01.noh.pre.momentum', ['noh_leaves', 'noh_pre_momentum'], ['Noh'], None)
_noh('C01.noh.pre.energy', ['noh_leaves', 'noh_pre_energy'], ['Noh'], None)
_noh('C01.noh.tree', ['noh_tree_post', 'noh_tree_pre', 'noh_tree'], ['Noh'], None)
_noh('C01.noh2.mass', ['noh2_leaves', 'noh2_mass'], ['Noh2'], O.noh2('mass'))
_noh('C01.noh2.momentum', ['noh2_leaves', 'noh2_momentum'], ['Noh2'], O.noh2('momentum'))
_noh('C01.noh2.energy', ['noh2_leaves', 'noh2_energy'], ['Noh2'], O.noh2('energy'))
_noh('C01.noh2cog.mass', ['noh2cog_leaves'] + ['noh2cog_L%d_mass' % l for l in (5, 7, 9)], ['Noh2Cog'], O.noh2cog('mass'))
_noh('C01.noh2cog.momentum', ['noh2cog_leaves'] + ['noh2cog_L%d_momentum' % l for l in (5, 7, 9)], ['Noh2Cog'],
     O.noh2cog('momentum'))
_noh('C01.noh2cog.energy', ['noh2cog_leaves'] + ['noh2cog_L%d_energy' % l for l in (5, 7, 9)], ['Noh2Cog'],
     O.noh2cog('energy'))
_noh('C01.noh2.tree', ['noh2_tree_agree', 'noh2_tree'], ['Noh2'], None)
_noh('C01.noh2cog.tree', ['noh2cog_tree_eq', 'noh2cog_tree_agree', 'noh2cog_tree'], ['Noh2Cog'], None)

PROP = dict(
    groups=['hydro'],
    obligations=_o,
    corr_models=['Cog%d' % n for n in (13, 14, 16, 17, 18, 19, 20, 21)] + ['Noh', 'Noh2', 'Noh2Cog'],
    corr_n=60,
    oracle_budget=0.4,
    scope='Coggeshall 13, 14, 16-21 and Noh, Noh2, Noh2Cog: on every ok leaf of the traced model (leaf sets pinned) the '
          'returned fields satisfy the documented mass, momentum and energy balance for a REAL geometry factor '
          'k = geometry - 1 and all real parameters for which the generated expressions are well defined (the generated '
          'L<i>.WellDefined side conditions: positive bases of real powers, no zero denominators; Cog14 also Gamma, lambda0, '
          'gamma - 1 > 0 and 0 < b < k; Cog16 u0 > 0; Cog18 rho0, T0 > 0). Energy includes the radiative heat flux with the '
          "solver's own alpha, beta, lambda0 and the constants c = 2.997e10, a = 137.2 hard-wired in cog<N>.py "
          '(Cog16: the documented alpha = 1 - 1/k, beta = alpha/2 - 3; Cog18: any c, a, lambda0, gamma = (k+3)/(k+1); '
          'Cog19-21: no conduction; flat temperature or lambda0 = 0), via the closed form of the flux divergence for '
          'fields that are power laws in r (Lemmas/Euler1Db.lean). Shocked solutions 19-21 and Noh: each smooth region '
          'separately; every leaf theorem is transferred to the RETURNED (tree-level) fields at points away from the '
          'coded shock position / for t > 0 resp. t < 1 (…_tree theorems, germ congruence lemmas in Lemmas/Euler1Db.lean). '
          'FALSE on the current tree and recorded as findings with closed-form residuals: Cog13 energy '
          '(residual Gamma T/(t (beta+3)(gamma-1))), Cog17 mass (residual 2(2 beta+5)/(1-alpha) rho/t) and energy, '
          'Cog20 energy behind the shock unless gamma = (k+3)/(k+1) (proved as _partial under that hypothesis); '
          'domain findings: Cog13, Cog14, Cog17, Cog18 leave the reals / return negative T or rho on part of the '
          'documented parameter range.',
)
