"""C10 (Sedov share) — self-similarity with the documented exponents"""
from obligations import obl
from harness import o_sedov

PROP = dict(
    groups=['sedov'],
    obligations=[
        obl('C10.sedov.similarity', 'EPV.Props.C10.Sedov',
            ['EPV.C10.sedov_r2_power_law', 'EPV.C10.sedov_r2_ratio', 'EPV.C10.sedov_density_similarity',
             'EPV.C10.sedov_velocity_similarity', 'EPV.C10.sedov_pressure_similarity', 'EPV.C10.sedov_time_exponents'],
            models=['SedovShock'], oracle=o_sedov.similarity, tie=o_sedov.tie_models),
    ],
    corr_models=[], corr_n=20, oracle_budget=1.2,
    scope='Sedov: r2(t) = r2(1) t^(2/(k+2-omega)) and the fields at equal r/r2 scale with r2^-omega, r2/t, r2^-omega (r2/t)^2 '
          '(generated SedovShock model, arbitrary similarity functions).',
)
