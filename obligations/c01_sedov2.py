"""C01 (Sedov share, growth target closed) — the similarity functions of sedov_funcs_standard solve the
similarity ODEs of the Euler equations; the assembled fields solve the PDEs (work package sedov2)"""
from obligations import obl
from harness import o_sedov, o_sedov2

FUNCS = ['SedovFuncs', 'SedovFuncsO2', 'SedovFuncsO3']
BR = ('none', 'omega2', 'omega3')
C = 'EPV.C01.'
PROP = dict(
    groups=['sedov'],
    obligations=[
        obl('C01.sedov2.ode', 'EPV.Props.C01.SedovODE',
            [C + 'sedov_ode_leaves', C + 'sedov_bases_none', C + 'sedov_dlamdv_sign_none', C + 'sedov_ode_none_tree']
            + [C + 'sedov_%s_%s' % (t, b) for b in BR for t in ('ode_param', 'dlamdv_ne', 'ode', 'euler', 'ode_code', 'tree')],
            models=FUNCS + ['SedovConsts', 'SedovShock'], oracle=o_sedov2.ode, tie=o_sedov.tie_models),
        obl('C01.sedov2.lemmas.std', 'EPV.Lemmas.SedovODEStd',
            ['EPV.Sedov.Std.' + t for t in ('l_dv', 'f_dv', 'g_dv', 'h_dv', 'hasDerivAt', 'h_rel', 'brackets', 'bases',
                                             'mass_ode', 'mom_ode', 'energy_ode', 'l_dv_eq', 'l_dv_pos', 'l_dv_neg',
                                             'l_dv_ne', 'l_strict', 'solvesAt')],
            models=['SedovFuncs']),
        obl('C01.sedov2.lemmas.omega2', 'EPV.Lemmas.SedovODEO2',
            ['EPV.Sedov.O2.' + t for t in ('l_dv', 'f_dv', 'g_dv', 'h_dv', 'hasDerivAt', 'h_rel', 'brackets', 'bases',
                                            'mass_ode', 'mom_ode', 'energy_ode', 'l_dv_neg', 'l_strict', 'solvesAt')],
            models=['SedovFuncsO2']),
        obl('C01.sedov2.lemmas.omega3', 'EPV.Lemmas.SedovODEO3',
            ['EPV.Sedov.O3.' + t for t in ('l_dv', 'f_dv', 'g_dv', 'h_dv', 'hasDerivAt', 'h_rel', 'brackets', 'bases',
                                            'mass_ode', 'mom_ode', 'energy_ode', 'l_dv_pos', 'l_strict', 'solvesAt')],
            models=['SedovFuncsO3']),
        obl('C01.sedov2.algebra', 'EPV.Lemmas.SedovODEAlg',
            ['EPV.Sedov.Alg.' + t for t in ['massODEv_factor', 'momODEv_factor', 'energyODEv_factor', 'N_pos',
                                             's_L_eq', 'o_L_eq', 't_L_eq']
             + ['%s_%s_bracket' % (b, o) for b in 'sot' for o in ('mass', 'mom', 'energy')]]),
        obl('C01.sedov2.chain', 'EPV.Lemmas.SedovODEChain',
            ['EPV.Sedov.' + t for t in ('field_dt', 'field_dr', 'r2_hasDerivAt', 'us_hasDerivAt', 'rho2_hasDerivAt',
                                         'u2_hasDerivAt', 'p2_hasDerivAt', 'euler_of_similarity', 'scale_factors_ne',
                                         'euler_of_solvesAt')],
            models=['SedovShock']),
        obl('C01.sedov2.param', 'EPV.Lemmas.SedovODEParam',
            ['EPV.Sedov.deriv_of_param', 'EPV.Sedov.solvesAt_of_param']),
        obl('C01.sedov2.consts', 'EPV.Lemmas.SedovODEConsts',
            ['EPV.Sedov.' + t for t in ('consts_c0', 'consts_c1', 'consts_c2', 'consts_c3', 'consts_c4', 'consts_c5',
                                         'consts_c6', 'consts_c7', 'consts_c8', 'consts_c9', 'consts_c12',
                                         'consts_type_trichotomy', 'consts_none', 'consts_omega2', 'consts_omega3', 'ends_eq')],
            models=['SedovConsts', 'SedovEnds'], tie=o_sedov2.tie_consts),
        obl('C01.sedov2.domain', 'EPV.Lemmas.SedovODEDomain',
            ['EPV.Sedov.StdInterior.signs', 'EPV.Sedov.VacInterior.signs']),
        obl('C01.sedov2.spec', 'EPV.Spec.SedovODE',
            ['EPV.Spec.SedovODE.massODEv_eq', 'EPV.Spec.SedovODE.momODEv_eq', 'EPV.Spec.SedovODE.energyODEv_eq']),
    ],
    corr_models=[], corr_n=20, oracle_budget=1.2,
    scope='Sedov (growth target closed): for gamma > 1, k > 0, omega < k and v strictly inside the branch of the standard or '
          'vacuum solution type, the traced (lambda, f, g, h)(v) of sedov_funcs_standard with their generated derivative '
          'certificates satisfy the three similarity ODEs written from the Euler equations (parametric form), d lambda/dv != 0 '
          '(sign proved), hence any f, g, h with f(lambda(v)) = F(v) etc. solve the ODEs in lambda (inverse function theorem) and '
          'the assembled fields rho2 g, u2 f, p2 h satisfy massRes = momResP = energyResE = 0 at r = lambda(v) r2(t), t > 0 (chain '
          'rule on the generated SedovShock).  All three singularity branches; the constants a0..a5, a_val..e_val are those of '
          'the traced constructor (generated SedovConsts, tied).  The omega2/omega3 closed forms are proved exact only AT the '
          'special omega (the code uses them on |denom| <= 1e-4, where the oracle allows a residual 2|denom|).  Not covered: the '
          'branch end points, the singular type (own closed forms), the root finding v(lambda) (atom).',
)
