"""C20 (Blake share) — the constructor accepts exactly the documented-valid inputs and rejects the others with
ValueError; the call rejects exactly r < 0; finding: OverflowError inside the documented domain."""
from obligations import obl
from harness import o_c15, o_c20_blake as o

PAIRS = ['LG', 'LE', 'LNu', 'LK', 'LM', 'GE', 'GNu', 'GK', 'GM', 'ENu', 'EK', 'EM', 'NuK', 'NuM', 'KM']
INITMOD = {}
for _i, _nm in enumerate(PAIRS):
    INITMOD[_nm] = 'EPV.Props.C20.BlakeInit' + 'ABC'[_i // 5]

_o = []
for nm in PAIRS:
    _o.append(obl('C20.blake.set_elastic_params.' + nm, 'EPV.Props.C20.BlakeMod', ['EPV.C20.mod%s_accepts_iff' % nm],
                  ['BlakeMod' + nm], o.accept[nm], tie=o_c15.ties_moduli[nm]))
    _o.append(obl('C20.blake.init.' + nm, INITMOD[nm],
                  ['EPV.C20.init%s_bridge' % nm, 'EPV.C20.init%s_ok' % nm, 'EPV.C20.init%s_accepts_iff' % nm,
                   'EPV.C20.init%s_total' % nm, 'EPV.C20.init%s_raise' % nm, 'EPV.C20.init%s_admissible' % nm],
                  ['BlakeInit' + nm, 'BlakeMod' + nm], o.accept[nm], tie=o.tie_init[nm]))
_o += [
    obl('C20.blake.init.default', 'EPV.Props.C20.Blake',
        ['EPV.C20.initDefault_accepts_iff', 'EPV.C20.initDefault_raise', 'EPV.C20.initDefault_material'],
        ['BlakeInitDefault'], o.malformed, tie=o.tie_default),
    obl('C20.blake.init.count', 'EPV.Props.C20.Blake', ['EPV.C20.init1_rejects', 'EPV.C20.init3_rejects'],
        ['BlakeInit1', 'BlakeInit3'], o.malformed, tie=o.tie_count),
    obl('C20.blake.run_domain', 'EPV.Props.C20.Blake',
        ['EPV.C20.run_rejects_iff', 'EPV.C20.run_accepts_iff', 'EPV.C20.run_wellDefined_partial', 'EPV.C20.run_leaves'],
        ['BlakeFields'], o.run_domain, tie=o_c15.tie_fields),
    obl('C20.blake.overflow', 'EPV.Props.C20.FindingBlakeOverflow',
        ['EPV.C20.L1_strain_rr_shape', 'EPV.C20.dflt_nn', 'EPV.C20.finding_overflow_argument', 'EPV.C20.finding_overflow_product',
         'EPV.C20.exp_687_gt', 'EPV.C20.dflt_bb_ge', 'EPV.C20.overflow_leaves'],
        ['BlakeFields'], o.overflow, tie=o_c15.tie_fields, finding=True),
]

PROP = dict(
    groups=['blake'],
    obligations=_o,
    corr_models=[],
    corr_n=60,
    oracle_budget=0.4,
    scope='Blake: for each of the 15 pairs, set_elastic_params and the whole constructor accept ⇔ the input is '
          'documented-valid (given moduli > 0, given ν in (-1,1/2), the pair is that of some positive-definite material, '
          'the documented 1e-13 near-singular bands of (G,E), (E,K) excluded; geometry = 3, ρ₀, a, P₀ > 0); every rejection '
          'is ValueError (pair (λ,ν) at ν = 0: ZeroDivisionError, C15 finding); one/three elastic parameters always '
          'ValueError; default material ⇔ problem parameters valid; the call raises ValueError exactly for r < 0.  '
          'Partial: WellDefined of the closed form assumes 1 + ε_vol ≠ 0 (small strain).  blake_debug (not a number) only '
          'by oracle.  Finding: OverflowError for n(t + a/c_L) > 709.78 (t ≳ 0.0213 s at defaults) although the solution '
          'is finite; silent -inf / density -0.0 from n(t + a/c_L) ≈ 681 on (0.0205 s ≲ t < 0.0213 s at defaults).',
)
