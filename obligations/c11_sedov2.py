"""C11 — Sedov mass integral closed for the traced similarity functions (work package sedov2)"""
from obligations import obl
from harness import o_sedov, o_sedov2

C = 'EPV.C11.'
M = 'EPV.Sedov.Mass.'
PROP = dict(
    groups=['sedov'],
    obligations=[
        obl('C11.sedov2.mass', 'EPV.Props.C11.SedovMass',
            [C + t for t in ('mass_iff_integral', 'sedov_mass_exact_differential', 'sedov_mass_integral_standard',
                             'sedov_mass_integral_vacuum', 'sedov_mass_standard', 'sedov_mass_vacuum',
                             'sedov_mass_standard_code', 'exists_density_of_lambda',
                             'sedov_mass_exact_differential_omega2', 'sedov_mass_exact_differential_omega3',
                             'sedov_mass_omega2', 'sedov_mass_omega3')],
            models=['SedovFuncs', 'SedovFuncsO2', 'SedovFuncsO3', 'SedovShock', 'SedovConsts'],
            oracle=o_sedov2.mass_v, tie=o_sedov2.tie_consts),
        obl('C11.sedov2.lemmas.abstract', 'EPV.Lemmas.SedovMassAbstract',
            [M + t for t in ('image_Ioo_of_strictMono', 'image_Ioo_of_strictAnti', 'integral_param_mono',
                             'integral_param_anti')]),
        obl('C11.sedov2.lemmas.std', 'EPV.Lemmas.SedovMassStd',
            [M + t for t in ('M_hasDerivAt', 'StdClosed.signs', 'denom2_pos', 'closedBases', 'neg_a2_pos',
                             'e2_pos', 'l_continuousOn', 'rpow_combine0', 'M_eq_Mc', 'Mc_continuousOn', 'l_at_v0', 'at_v2',
                             'mass_integral_std')],
            models=['SedovFuncs']),
        obl('C11.sedov2.lemmas.vac', 'EPV.Lemmas.SedovMassVac',
            [M + t for t in ('VacClosed.signs', 'denom3_neg', 'vacBases', 'one_add_a5_pos',
                             'l_continuousOn_vac', 'M_eq_Mv', 'Mv_continuousOn', 'mass_integral_vac')],
            models=['SedovFuncs']),
        obl('C11.sedov2.lemmas.omega2', 'EPV.Lemmas.SedovMassO2',
            [M + t for t in ('M2_hasDerivAt', 'o2_is_vacuum', 'vacBases2', 'one_add_a5_pos2', 'l_continuousOn2',
                             'M2_eq_Mv2', 'Mv2_continuousOn', 'at_v2_2', 'mass_integral_o2')],
            models=['SedovFuncsO2']),
        obl('C11.sedov2.lemmas.omega3', 'EPV.Lemmas.SedovMassO3',
            [M + t for t in ('M3_hasDerivAt', 'o3_is_standard', 'closedBases3', 'neg_a2_pos3', 'e2_pos3', 'l_continuousOn3',
                             'M3_eq_Mc3', 'Mc3_continuousOn', 'l_at_v0_3', 'at_v2_3', 'mass_integral_o3')],
            models=['SedovFuncsO3']),
    ],
    corr_models=[], corr_n=20, oracle_budget=1.2,
    scope='Sedov mass (remaining obligation of sedov_mass_iff_partial closed): the mass ODE is an exact differential, '
          'd/dv[lambda^k g (1 - X v/2)] = (k-omega) g lambda^(k-1) dlambda/dv, so int_0^1 g lambda^(k-1) dlambda = '
          '(gamma-1)/((gamma+1)(k-omega)) is a boundary term; proved IN FULL (no integrability or limit hypothesis; the monotone '
          'change of variables lambda = lambda(v) is proved across the singular inner end, where g may be unbounded) for the '
          'standard and the vacuum solution type with special_singularity none, and for the omega2 / omega3 closed forms at the '
          'exactly special omega; every k in {1,2,3}, gamma > 1, 0 <= omega < k; hence MassConserved at every t > 0 for any g with '
          'g(lambda(v)) = G(v) inside the branch (and g = 0 in the vacuum hole).  With the singular type (Props/C11/Sedov.lean) '
          'this covers every branch of the code where its closed forms are exact; inside the bands |denom| <= 1e-4 off the special '
          'omega the coded closed forms are approximations (oracle tolerance 2|denom|).',
)
