/-
The Guderley solver assembled from its traced parts (C01, C02, C03, C08, C10, C17 shares).

`Guderley(geometry, gamma, rho0)(r, t)` runs

    Guderley._run                 (model GudRun:   keyword wiring, field names)
      -> ramsey.guderley_1d       (model GudX:     t -> Lazarus time, x = t_L / r^λ, arguments of `state`)
           -> ramsey.state        (model GudState: branch on x, dimensionalisation)

with three kinds of numerical atoms:

  * `lam` = eexp(geometry, gamma), `B` = get_shock_position(…)  (brentq roots);
  * `V, C, R : ℝ → ℝ` — the value at abscissa x of the similarity variables that `state`
    obtains by `solve_ivp` (before the reflected shock: integration of `g` from the converging
    shock x = -1; behind it: integration to B, coded jump, integration from B);
  * `Cb` — the value of C at x = B from the first of the two integrations (only its sign is
    used, by `np.sign`, and only behind the reflected shock).

`density … velocity … : Spec.Field` below are the five returned fields as functions of the
solver's own arguments (r, t), built from the *generated* definitions only.  Theorems about
them carry explicit hypotheses on the atoms; nothing else is assumed.

The time argument: `guderley_1d` converts `t` by  t_L = t / 0.750024322 - 1  ("the input time
is a Caramana/Whalen time … converted to Lazarus time") and `state` evaluates Lazarus' Eq. (2.5)
with t_L, so velocities, sound speed, pressure and energy come out per unit of *Lazarus* time.
`inLazarusTime f` re-expresses a returned field as a function of (r, t_L).
-/
import EPV.Gen.GudRun
import EPV.Gen.GudX
import EPV.Gen.GudState
import EPV.Gen.GudJump
import EPV.Gen.GudG
import EPV.Spec.Euler1D
import EPV.Tactics
import EPV.Lemmas.Bridge.SemiGud

set_option linter.all false

open EPV EPV.Gen

namespace EPV.Spec.Guderley

noncomputable section

/-- the parameters of the solver class -/
structure Inp where
  geometry : ℝ
  gamma : ℝ
  rho0 : ℝ

/-- the numerical atoms (see the header) -/
structure Atoms where
  lam : ℝ
  B : ℝ
  Cb : ℝ
  V : ℝ → ℝ
  C : ℝ → ℝ
  R : ℝ → ℝ

/-- the literal `factorC = 0.750024322` of `guderley_1d` (exact value of the double) -/
def fC : ℝ := (3377809257078009 : ℝ) / 4503599627370496

theorem fC_pos : 0 < fC := by unfold fC; norm_num

/-- parameters of `Guderley._run` (the outputs of `guderley_1d` are filled in later) -/
def runP (i : Inp) : GudRun.P :=
  { gamma := i.gamma, geometry := i.geometry, rho0 := i.rho0, o_den := 0, o_pres := 0, o_sie := 0, o_snd := 0,
    o_vel := 0 }

/-- parameters of `guderley_1d` as `_run` calls it (the results of `state` are filled in later) -/
def xP (i : Inp) (a : Atoms) (r t : ℝ) : GudX.P :=
  { B := a.B, lambda_ := a.lam, gamma := GudRun.arg_gamma (runP i) r t, ngeom := GudRun.arg_ngeom (runP i) r t,
    rho0 := GudRun.arg_rho0 (runP i) r t, s_den := 0, s_pres := 0, s_sie := 0, s_snd := 0, s_vel := 0 }

/-- the similarity coordinate `guderley_1d` hands to `state` for the point (r, t) -/
def xi (i : Inp) (a : Atoms) (r t : ℝ) : ℝ := GudX.st_targetx (xP i a r t) r (GudRun.arg_t (runP i) r t)

/-- arguments and atoms of `state` as `guderley_1d` calls it for the point (r, t) -/
def stP (i : Inp) (a : Atoms) (r t : ℝ) : GudState.P :=
  let q := xP i a r t
  let s := GudRun.arg_t (runP i) r t
  { B := GudX.st_B q r s, gamma_d := GudX.st_gamma q r s, lambda_d := GudX.st_lambda q r s, r := GudX.st_r q r s,
    rho0 := GudX.st_rho0 q r s, targetx := GudX.st_targetx q r s,
    V := a.V (GudX.st_targetx q r s), C := a.C (GudX.st_targetx q r s), R := a.R (GudX.st_targetx q r s),
    Cb := a.Cb }

/-- `guderley_1d`'s parameter record with the five results of `state` filled in -/
def xPfull (i : Inp) (a : Atoms) (r t : ℝ) : GudX.P :=
  { xP i a r t with
    s_den := GudState.density (stP i a r t), s_vel := GudState.velocity (stP i a r t),
    s_pres := GudState.pressure (stP i a r t), s_snd := GudState.sound_speed (stP i a r t),
    s_sie := GudState.specific_internal_energy (stP i a r t) }

/-- `_run`'s parameter record with the five results of `guderley_1d` filled in -/
def runPfull (i : Inp) (a : Atoms) (r t : ℝ) : GudRun.P :=
  let s := GudRun.arg_t (runP i) r t
  { runP i with
    o_den := GudX.den (xPfull i a r t) r s, o_vel := GudX.vel (xPfull i a r t) r s,
    o_pres := GudX.pres (xPfull i a r t) r s, o_snd := GudX.snd (xPfull i a r t) r s,
    o_sie := GudX.sie (xPfull i a r t) r s }

/-- the returned fields of `Guderley(**i)(r, t)` -/
def density (i : Inp) (a : Atoms) : Field := fun r t => GudRun.density (runPfull i a r t) r t
def velocity (i : Inp) (a : Atoms) : Field := fun r t => GudRun.velocity (runPfull i a r t) r t
def pressure (i : Inp) (a : Atoms) : Field := fun r t => GudRun.pressure (runPfull i a r t) r t
def sound_speed (i : Inp) (a : Atoms) : Field := fun r t => GudRun.sound_speed (runPfull i a r t) r t
def sie (i : Inp) (a : Atoms) : Field := fun r t => GudRun.specific_internal_energy (runPfull i a r t) r t
def position (i : Inp) (a : Atoms) : Field := fun r t => GudRun.position (runPfull i a r t) r t

/-! ### What the assembly amounts to -/

/-- the driver's similarity coordinate:  x = (t / 0.750024322 - 1) / r^λ -/
theorem xi_eq (i : Inp) (a : Atoms) (r t : ℝ) : xi i a r t = (t / fC - 1) / r ^ a.lam := by
  simp only [xi, xP, runP, fC, epv_tree, epv_leaf]
  epv_semi_gud_eq

/-- the record `state` is evaluated on: every parameter is handed through unchanged, in the right slot -/
theorem stP_eq (i : Inp) (a : Atoms) (r t : ℝ) :
    stP i a r t = { B := a.B, gamma_d := i.gamma, lambda_d := a.lam, r := r, rho0 := i.rho0, targetx := xi i a r t,
                    V := a.V (xi i a r t), C := a.C (xi i a r t), R := a.R (xi i a r t), Cb := a.Cb } := by
  simp only [stP, xi, xP, runP, epv_tree, epv_leaf]

theorem density_eq (i : Inp) (a : Atoms) (r t : ℝ) : density i a r t = GudState.density (stP i a r t) := by
  simp only [density, runPfull, xPfull, epv_tree, epv_leaf]
theorem velocity_eq (i : Inp) (a : Atoms) (r t : ℝ) : velocity i a r t = GudState.velocity (stP i a r t) := by
  simp only [velocity, runPfull, xPfull, epv_tree, epv_leaf]
theorem pressure_eq (i : Inp) (a : Atoms) (r t : ℝ) : pressure i a r t = GudState.pressure (stP i a r t) := by
  simp only [pressure, runPfull, xPfull, epv_tree, epv_leaf]
theorem sound_speed_eq (i : Inp) (a : Atoms) (r t : ℝ) :
    sound_speed i a r t = GudState.sound_speed (stP i a r t) := by
  simp only [sound_speed, runPfull, xPfull, epv_tree, epv_leaf]
theorem sie_eq (i : Inp) (a : Atoms) (r t : ℝ) :
    sie i a r t = GudState.specific_internal_energy (stP i a r t) := by
  simp only [sie, runPfull, xPfull, epv_tree, epv_leaf]
theorem position_eq (i : Inp) (a : Atoms) (r t : ℝ) : position i a r t = r := by
  simp only [position, epv_tree, epv_leaf]

/-- in real arithmetic `state` always returns (its `UnboundLocalError` path needs a NaN coordinate) -/
theorem state_total (p : GudState.P) : GudState.outcome p = .ok := by
  simp only [epv_tree]
  split_ifs <;> first | rfl | (exfalso; simp only [epv_cond] at *; linarith)

/-- behind the converging shock (x ≥ -1) every branch of `state` evaluates the same formulas
(Lazarus Eq. 2.5) on the atoms (V, C, R) -/
theorem state_behind (p : GudState.P) (hx : ¬ p.targetx < -1) :
    GudState.density p = p.R * p.rho0
    ∧ GudState.velocity p = p.V * p.r ^ (1 - p.lambda_d) / (p.targetx * (-1) * p.lambda_d)
    ∧ GudState.sound_speed p = p.C * p.r ^ (1 - p.lambda_d) / (p.targetx * (-1) * p.lambda_d)
    ∧ GudState.pressure p
        = (p.C * p.r ^ (1 - p.lambda_d) / (p.targetx * (-1) * p.lambda_d)) ^ 2 / (p.gamma_d * (1 / p.rho0) * (1 / p.R))
    ∧ GudState.specific_internal_energy p
        = (p.C * p.r ^ (1 - p.lambda_d) / (p.targetx * (-1) * p.lambda_d)) ^ 2 / (p.gamma_d * (1 / p.rho0) * (1 / p.R))
            / ((p.gamma_d - 1) * p.rho0 * p.R) := by
  exact ⟨Bridge.SemiGud.state_density_behind p hx, Bridge.SemiGud.state_velocity_behind p hx,
    Bridge.SemiGud.state_sound_speed_behind p hx, Bridge.SemiGud.state_pressure_behind p hx,
    Bridge.SemiGud.state_sie_behind p hx⟩

/-- ahead of the converging shock (x < -1): the undisturbed gas -/
theorem state_ahead (p : GudState.P) (hx : p.targetx < -1) :
    GudState.density p = p.rho0 ∧ GudState.velocity p = 0 ∧ GudState.sound_speed p = 0
    ∧ GudState.pressure p = 0 ∧ GudState.specific_internal_energy p = 0 := by
  exact ⟨Bridge.SemiGud.state_density_ahead p hx, Bridge.SemiGud.state_velocity_ahead p hx,
    Bridge.SemiGud.state_sound_speed_ahead p hx, Bridge.SemiGud.state_pressure_ahead p hx,
    Bridge.SemiGud.state_sie_ahead p hx⟩


/-! ### The assembled fields on either side of the converging shock -/

/-- behind the converging shock (x ≥ -1): Lazarus' Eq. (2.5) with the coded prefactors -/
theorem power_law_form (i : Inp) (a : Atoms) (r t : ℝ) (hx : -1 ≤ xi i a r t) :
    density i a r t = a.R (xi i a r t) * i.rho0
    ∧ velocity i a r t = a.V (xi i a r t) * r ^ (1 - a.lam) / (xi i a r t * (-1) * a.lam)
    ∧ sound_speed i a r t = a.C (xi i a r t) * r ^ (1 - a.lam) / (xi i a r t * (-1) * a.lam)
    ∧ pressure i a r t = (a.C (xi i a r t) * r ^ (1 - a.lam) / (xi i a r t * (-1) * a.lam)) ^ 2
        / (i.gamma * (1 / i.rho0) * (1 / a.R (xi i a r t)))
    ∧ sie i a r t = (a.C (xi i a r t) * r ^ (1 - a.lam) / (xi i a r t * (-1) * a.lam)) ^ 2
        / (i.gamma * (1 / i.rho0) * (1 / a.R (xi i a r t))) / ((i.gamma - 1) * i.rho0 * a.R (xi i a r t)) := by
  have hb := state_behind (stP i a r t) (by rw [stP_eq]; exact not_lt.mpr hx)
  rw [density_eq, velocity_eq, sound_speed_eq, pressure_eq, sie_eq, hb.1, hb.2.1, hb.2.2.1, hb.2.2.2.1, hb.2.2.2.2,
    stP_eq]
  exact ⟨rfl, rfl, rfl, rfl, rfl⟩

/-- ahead of the converging shock (x < -1): the undisturbed gas -/
theorem ahead_form (i : Inp) (a : Atoms) (r t : ℝ) (hx : xi i a r t < -1) :
    density i a r t = i.rho0 ∧ velocity i a r t = 0 ∧ sound_speed i a r t = 0 ∧ pressure i a r t = 0
    ∧ sie i a r t = 0 := by
  have hb := state_ahead (stP i a r t) (by rw [stP_eq]; exact hx)
  rw [density_eq, velocity_eq, sound_speed_eq, pressure_eq, sie_eq, hb.1, hb.2.1, hb.2.2.1, hb.2.2.2.1, hb.2.2.2.2,
    stP_eq]
  exact ⟨rfl, rfl, rfl, rfl, rfl⟩

/-- the physical content of the dimensionalisation: p = ρ c² / γ and e = c² / (γ (γ-1)) -/
theorem pressure_energy_form (γ ρ0 R c : ℝ) :
    c ^ 2 / (γ * (1 / ρ0) * (1 / R)) = R * ρ0 * c ^ 2 / γ := by
  simp only [one_div, div_eq_mul_inv, mul_inv, inv_inv]
  ring

/-! ### The coded jumps (model GudJump) -/

/-- the coded reflected-shock jump in closed form (all three `np.sign` branches) -/
theorem jump_form (p : GudJump.P) (hC : p.Cb ≠ 0) :
    GudJump.V1 p = (p.gamma_d - 1) * (1 + p.Vb) / (p.gamma_d + 1)
        + 2 * p.Cb ^ 2 / ((p.gamma_d + 1) * (1 + p.Vb)) - 1
    ∧ GudJump.R1 p = p.Rb * (1 + p.Vb) / (1 + GudJump.V1 p)
    ∧ GudJump.C1 p ^ 2 = Real.sqrt (p.Cb ^ 2 + 1 / 2 * (p.gamma_d - 1) * ((1 + p.Vb) ^ 2 - (1 + GudJump.V1 p) ^ 2)) ^ 2 := by
  simp only [epv_tree]
  split_ifs <;>
    first
    | (exfalso; simp only [epv_cond] at *; exact hC (by linarith))
    | (simp only [epv_leaf]; epv_semi_gud_conj)

/-- the start values at the converging shock x = -1 (strong-shock values), all branches -/
theorem start_form (p : GudJump.P) :
    GudJump.Vs p = -2 / (p.gamma_d + 1)
    ∧ GudJump.Cs p = Real.sqrt (2 * p.gamma_d * (p.gamma_d - 1)) / (p.gamma_d + 1)
    ∧ GudJump.Rs p = (p.gamma_d + 1) / (p.gamma_d - 1) := by
  simp only [epv_tree]
  split_ifs <;> (simp only [epv_leaf]; epv_semi_gud_conj)

/-! ### Lazarus time -/

/-- Lazarus time of the solver time t:  t_L = t / 0.750024322 - 1 -/
def lazarus (t : ℝ) : ℝ := t / fC - 1
/-- solver time of the Lazarus time t_L -/
def solverTime (tL : ℝ) : ℝ := fC * (tL + 1)

theorem lazarus_solverTime (tL : ℝ) : lazarus (solverTime tL) = tL := by
  unfold lazarus solverTime
  have := fC_pos.ne'
  field_simp
  ring

/-- a returned field as a function of (r, Lazarus time) -/
def inLazarusTime (f : Field) : Field := fun r tL => f r (solverTime tL)

theorem xi_solverTime (i : Inp) (a : Atoms) (r tL : ℝ) : xi i a r (solverTime tL) = tL / r ^ a.lam := by
  rw [xi_eq]
  have := lazarus_solverTime tL
  unfold lazarus at this
  rw [this]

/-! ### The atoms as solutions of the traced right-hand side -/

/-- the module globals gamma, lambda_, nu that `state` sets before it integrates `g` (read off
the traced GudJump model, which records them at the moment `solve_ivp` is called) -/
def jumpP (i : Inp) (a : Atoms) (Vb Cb Rb : ℝ) : GudJump.P :=
  { Vb := Vb, Cb := Cb, Rb := Rb, gamma_d := i.gamma, lambda_d := a.lam, n := i.geometry }

/-- the argument record of the traced right-hand side `ramsey.g` at abscissa x on the atoms -/
def gP (i : Inp) (a : Atoms) (x : ℝ) : GudG.P :=
  { gamma := GudJump.glob_gamma (jumpP i a 0 a.Cb 0), lambda_ := GudJump.glob_lambda (jumpP i a 0 a.Cb 0),
    nu := GudJump.glob_nu (jumpP i a 0 a.Cb 0), x := x, V := a.V x, C := a.C x, R := a.R x }

/-- **hypothesis on the atoms (`solve_ivp` is exact):** at the abscissa x the functions (V, C, R)
are differentiable with the derivatives the traced right-hand side `g` returns there -/
structure SolvesG (i : Inp) (a : Atoms) (x : ℝ) : Prop where
  hV : HasDerivAt a.V (GudG.dV (gP i a x)) x
  hC : HasDerivAt a.C (GudG.dC (gP i a x)) x
  hR : HasDerivAt a.R (GudG.dR (gP i a x)) x

end

end EPV.Spec.Guderley
