/-
Specification (C08), hand table for Blake (`exactpack/solvers/blake/blake.py`, SI units in the parameter help
strings): "ref_density … (kg/m**3)", "cavity_radius … (m)", "pressure_scale … (Pa)", the moduli
"Lame modulus (Pa)", "Shear Modulus (Pa)", "Young's modulus (Pa)", "Bulk modulus (Pa)", "Longitudinal modulus
(Pa)", "Poisson's Ratio (dimensionless)"; radii are lengths, the snapshot time a time.  Returned fields:
position, curr_posn, displacement — lengths; the strains — pure numbers; density — a mass density; the stresses,
the pressure, the deviators and the stress difference — pressures.
-/
import EPV.Gen.BlakeModLG
import EPV.Gen.BlakeModLE
import EPV.Gen.BlakeModLNu
import EPV.Gen.BlakeModLK
import EPV.Gen.BlakeModLM
import EPV.Gen.BlakeModGE
import EPV.Gen.BlakeModGNu
import EPV.Gen.BlakeModGK
import EPV.Gen.BlakeModGM
import EPV.Gen.BlakeModENu
import EPV.Gen.BlakeModEK
import EPV.Gen.BlakeModEM
import EPV.Gen.BlakeModNuK
import EPV.Gen.BlakeModNuM
import EPV.Gen.BlakeModKM
import EPV.Gen.BlakeFields
import EPV.Spec.Units

set_option linter.all false

open EPV EPV.Gen EPV.Spec

namespace EPV.Spec.UnitsBlake

/-- the instance attributes `Blake._run` reads, re-expressed in the units σ -/
noncomputable def fieldsSP (σ : Scaling) (p : BlakeFields.P) : BlakeFields.P :=
  { p with
    cavity_radius := scale σ Dim.length p.cavity_radius
    lame_mod := scale σ Dim.pressure p.lame_mod
    long_mod := scale σ Dim.pressure p.long_mod
    pressure_scale := scale σ Dim.pressure p.pressure_scale
    ref_density := scale σ Dim.density p.ref_density
    shear_mod := scale σ Dim.pressure p.shear_mod }

/-- C08 for `Blake._run`: every returned field is re-expressed according to its own dimension and the
decision tree takes the same branch -/
def CovariantBlake (A : Scaling → BlakeFields.P → ℝ → ℝ → Prop) : Prop :=
  UnitCovariant fieldsSP BlakeFields.position Dim.length A ∧
  UnitCovariant fieldsSP BlakeFields.curr_posn Dim.length A ∧
  UnitCovariant fieldsSP BlakeFields.displacement Dim.length A ∧
  UnitCovariant fieldsSP BlakeFields.strain_rr 0 A ∧
  UnitCovariant fieldsSP BlakeFields.strain_qq 0 A ∧
  UnitCovariant fieldsSP BlakeFields.strain_vol 0 A ∧
  UnitCovariant fieldsSP BlakeFields.density Dim.density A ∧
  UnitCovariant fieldsSP BlakeFields.stress_rr Dim.pressure A ∧
  UnitCovariant fieldsSP BlakeFields.stress_qq Dim.pressure A ∧
  UnitCovariant fieldsSP BlakeFields.pressure Dim.pressure A ∧
  UnitCovariant fieldsSP BlakeFields.stress_dev_rr Dim.pressure A ∧
  UnitCovariant fieldsSP BlakeFields.stress_dev_qq Dim.pressure A ∧
  UnitCovariant fieldsSP BlakeFields.stress_diff Dim.pressure A ∧
  SameBranch fieldsSP BlakeFields.leaf A ∧ SameBranch fieldsSP BlakeFields.outcome A

/-- C08 for a map from two elastic parameters to the six: the five moduli are pressures, Poisson's ratio is a
pure number, and the call is accepted or rejected alike -/
def CovariantModuli {P : Type} (sp : Scaling → P → P) (lam G E nu K M : P → ℝ) (leaf : P → ℕ) (out : P → EPV.Out) : Prop :=
  ∀ (σ : Scaling) (p : P),
    lam (sp σ p) = scale σ Dim.pressure (lam p) ∧ G (sp σ p) = scale σ Dim.pressure (G p) ∧
    E (sp σ p) = scale σ Dim.pressure (E p) ∧ nu (sp σ p) = nu p ∧
    K (sp σ p) = scale σ Dim.pressure (K p) ∧ M (sp σ p) = scale σ Dim.pressure (M p) ∧
    leaf (sp σ p) = leaf p ∧ out (sp σ p) = out p

/-- pair (λ, G) re-expressed in the units σ -/
noncomputable def modLGSP (σ : Scaling) (p : BlakeModLG.P) : BlakeModLG.P :=
  { p with lame_mod := scale σ Dim.pressure p.lame_mod, shear_mod := scale σ Dim.pressure p.shear_mod }

/-- pair (λ, E) re-expressed in the units σ -/
noncomputable def modLESP (σ : Scaling) (p : BlakeModLE.P) : BlakeModLE.P :=
  { p with lame_mod := scale σ Dim.pressure p.lame_mod, youngs_mod := scale σ Dim.pressure p.youngs_mod }

/-- pair (λ, ν) re-expressed in the units σ -/
noncomputable def modLNuSP (σ : Scaling) (p : BlakeModLNu.P) : BlakeModLNu.P :=
  { p with lame_mod := scale σ Dim.pressure p.lame_mod, poisson_ratio := scale σ 0 p.poisson_ratio }

/-- pair (λ, K) re-expressed in the units σ -/
noncomputable def modLKSP (σ : Scaling) (p : BlakeModLK.P) : BlakeModLK.P :=
  { p with lame_mod := scale σ Dim.pressure p.lame_mod, bulk_mod := scale σ Dim.pressure p.bulk_mod }

/-- pair (λ, M) re-expressed in the units σ -/
noncomputable def modLMSP (σ : Scaling) (p : BlakeModLM.P) : BlakeModLM.P :=
  { p with lame_mod := scale σ Dim.pressure p.lame_mod, long_mod := scale σ Dim.pressure p.long_mod }

/-- pair (G, E) re-expressed in the units σ -/
noncomputable def modGESP (σ : Scaling) (p : BlakeModGE.P) : BlakeModGE.P :=
  { p with shear_mod := scale σ Dim.pressure p.shear_mod, youngs_mod := scale σ Dim.pressure p.youngs_mod }

/-- pair (G, ν) re-expressed in the units σ -/
noncomputable def modGNuSP (σ : Scaling) (p : BlakeModGNu.P) : BlakeModGNu.P :=
  { p with shear_mod := scale σ Dim.pressure p.shear_mod, poisson_ratio := scale σ 0 p.poisson_ratio }

/-- pair (G, K) re-expressed in the units σ -/
noncomputable def modGKSP (σ : Scaling) (p : BlakeModGK.P) : BlakeModGK.P :=
  { p with shear_mod := scale σ Dim.pressure p.shear_mod, bulk_mod := scale σ Dim.pressure p.bulk_mod }

/-- pair (G, M) re-expressed in the units σ -/
noncomputable def modGMSP (σ : Scaling) (p : BlakeModGM.P) : BlakeModGM.P :=
  { p with shear_mod := scale σ Dim.pressure p.shear_mod, long_mod := scale σ Dim.pressure p.long_mod }

/-- pair (E, ν) re-expressed in the units σ -/
noncomputable def modENuSP (σ : Scaling) (p : BlakeModENu.P) : BlakeModENu.P :=
  { p with youngs_mod := scale σ Dim.pressure p.youngs_mod, poisson_ratio := scale σ 0 p.poisson_ratio }

/-- pair (E, K) re-expressed in the units σ -/
noncomputable def modEKSP (σ : Scaling) (p : BlakeModEK.P) : BlakeModEK.P :=
  { p with youngs_mod := scale σ Dim.pressure p.youngs_mod, bulk_mod := scale σ Dim.pressure p.bulk_mod }

/-- pair (E, M) re-expressed in the units σ -/
noncomputable def modEMSP (σ : Scaling) (p : BlakeModEM.P) : BlakeModEM.P :=
  { p with youngs_mod := scale σ Dim.pressure p.youngs_mod, long_mod := scale σ Dim.pressure p.long_mod }

/-- pair (ν, K) re-expressed in the units σ -/
noncomputable def modNuKSP (σ : Scaling) (p : BlakeModNuK.P) : BlakeModNuK.P :=
  { p with poisson_ratio := scale σ 0 p.poisson_ratio, bulk_mod := scale σ Dim.pressure p.bulk_mod }

/-- pair (ν, M) re-expressed in the units σ -/
noncomputable def modNuMSP (σ : Scaling) (p : BlakeModNuM.P) : BlakeModNuM.P :=
  { p with poisson_ratio := scale σ 0 p.poisson_ratio, long_mod := scale σ Dim.pressure p.long_mod }

/-- pair (K, M) re-expressed in the units σ -/
noncomputable def modKMSP (σ : Scaling) (p : BlakeModKM.P) : BlakeModKM.P :=
  { p with bulk_mod := scale σ Dim.pressure p.bulk_mod, long_mod := scale σ Dim.pressure p.long_mod }

end EPV.Spec.UnitsBlake
