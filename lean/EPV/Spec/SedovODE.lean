/-
Specification (C01 growth target, Sedov): the similarity reduction of the Euler equations.

The Sedov package documents (exactpack/solvers/sedov/__init__.py, Kamm & Timmes) a point explosion
of energy E in a γ-law gas with ambient density ρ₀ r^(-ω), zero pressure, in planar / cylindrical /
spherical symmetry k = 1, 2, 3.  The flow behind the shock solves the Euler equations in the
symmetry index k (`EPV.Spec.massRes`, `momResP`, `energyResE` with geometry factor k - 1):

    ρ_t + u ρ_r + ρ u_r + (k-1) ρ u / r = 0
    u_t + u u_r + p_r / ρ = 0
    e_t + u e_r + (p/ρ)(u_r + (k-1) u / r) = 0 ,      e = p / ((γ-1) ρ)

and is self-similar:  with the shock radius R(t) ∝ t^δ, δ = 2/(k+2-ω) (so Ṙ = δ R/t and
R̈ = (δ-1) Ṙ/t = -((k-ω)/2) Ṙ²/R), the similarity variable λ = r/R(t) and the strong-shock
post-shock state ρ₂ = (γ+1)/(γ-1) ρ₀ R^(-ω), u₂ = 2Ṙ/(γ+1), p₂ = 2 ρ₀ R^(-ω) Ṙ²/(γ+1),

    ρ = ρ₂(t) g(λ),     u = u₂(t) f(λ),     p = p₂(t) h(λ) .

Substituting (λ_t = -λ Ṙ/R, λ_r = 1/R, ρ₂'/ρ₂ = -ω Ṙ/R, u₂'/u₂ = -((k-ω)/2) Ṙ/R,
(p₂/ρ₂)'/(p₂/ρ₂) = -(k-ω) Ṙ/R, p₂/ρ₂ = (γ-1) u₂ Ṙ/(γ+1)) and dividing the three equations by
ρ₂Ṙ/R, u₂Ṙ/R and (p₂/((γ-1)ρ₂)) Ṙ/R respectively leaves three ordinary differential equations
in λ for (f, g, h), written below from the Euler equations (NOT copied from the code, which only
contains the closed-form solution):

    mass      (2f/(γ+1) - λ) g' + 2/(γ+1) g (f' + (k-1) f/λ) - ω g                       = 0
    momentum  (2f/(γ+1) - λ) f' - ((k-ω)/2) f + ((γ-1)/(γ+1)) h'/g                        = 0
    energy    (2f/(γ+1) - λ) (h/g)' - (k-ω) (h/g) + (γ-1) 2/(γ+1) (h/g)(f' + (k-1) f/λ)  = 0

`Lemmas/SedovODEChain.lean` proves that the Euler residuals of the assembled fields ARE these
ODE residuals times the non-zero scale factors (so "solves the ODEs" ⇔ "solves the PDEs").

The code gives (λ, f, g, h) parametrically in the similarity velocity v (`sedov_funcs_standard`);
with ' = d/dv the chain rule f'(λ) = F'(v)/L'(v) turns the system into the parametric form
`massODEv`, `momODEv`, `energyODEv` (the λ-form multiplied by L' = dλ/dv, no division by L').
-/
import EPV.Spec.Euler1D

namespace EPV.Spec.SedovODE

noncomputable section

/-- similarity form of the mass equation at λ, for the values f, g and derivatives f', g' at λ -/
def massODE (γ k ω lam f g f' g' : ℝ) : ℝ :=
  (2 / (γ + 1) * f - lam) * g' + 2 / (γ + 1) * g * (f' + (k - 1) * f / lam) - ω * g

/-- similarity form of the momentum equation -/
def momODE (γ k ω lam f g f' h' : ℝ) : ℝ :=
  (2 / (γ + 1) * f - lam) * f' - (k - ω) / 2 * f + (γ - 1) / (γ + 1) * h' / g

/-- similarity form of the internal-energy equation; (h/g)' = (h' g - h g')/g² -/
def energyODE (γ k ω lam f g h f' g' h' : ℝ) : ℝ :=
  (2 / (γ + 1) * f - lam) * ((h' * g - h * g') / g ^ 2) - (k - ω) * (h / g)
    + (γ - 1) * (2 / (γ + 1)) * (h / g) * (f' + (k - 1) * f / lam)

/-- (f, g, h) solve the similarity ODE system at λ -/
def SolvesAt (γ k ω : ℝ) (f g h : ℝ → ℝ) (lam : ℝ) : Prop :=
  ∃ f' g' h', HasDerivAt f f' lam ∧ HasDerivAt g g' lam ∧ HasDerivAt h h' lam ∧
    massODE γ k ω lam (f lam) (g lam) f' g' = 0 ∧
    momODE γ k ω lam (f lam) (g lam) f' h' = 0 ∧
    energyODE γ k ω lam (f lam) (g lam) (h lam) f' g' h' = 0

/-! ### Parametric form: (L, F, G, H)(v) with derivatives (L', F', G', H') in v -/

/-- mass equation, parametric form (= L' · massODE with f' = F'/L', g' = G'/L') -/
def massODEv (γ k ω L F G L' F' G' : ℝ) : ℝ :=
  (2 / (γ + 1) * F - L) * G' + 2 / (γ + 1) * G * (F' + (k - 1) * F / L * L') - ω * G * L'

/-- momentum equation, parametric form -/
def momODEv (γ k ω L F G L' F' H' : ℝ) : ℝ :=
  (2 / (γ + 1) * F - L) * F' - (k - ω) / 2 * F * L' + (γ - 1) / (γ + 1) * H' / G

/-- energy equation, parametric form -/
def energyODEv (γ k ω L F G H L' F' G' H' : ℝ) : ℝ :=
  (2 / (γ + 1) * F - L) * ((H' * G - H * G') / G ^ 2) - (k - ω) * (H / G) * L'
    + (γ - 1) * (2 / (γ + 1)) * (H / G) * (F' + (k - 1) * F / L * L')

theorem massODEv_eq (γ k ω L F G L' F' G' : ℝ) (hL' : L' ≠ 0) :
    massODEv γ k ω L F G L' F' G' = L' * massODE γ k ω L F G (F' / L') (G' / L') := by
  unfold massODEv massODE; field_simp

theorem momODEv_eq (γ k ω L F G L' F' H' : ℝ) (hL' : L' ≠ 0) :
    momODEv γ k ω L F G L' F' H' = L' * momODE γ k ω L F G (F' / L') (H' / L') := by
  unfold momODEv momODE; field_simp

theorem energyODEv_eq (γ k ω L F G H L' F' G' H' : ℝ) (hL' : L' ≠ 0) :
    energyODEv γ k ω L F G H L' F' G' H'
      = L' * energyODE γ k ω L F G H (F' / L') (G' / L') (H' / L') := by
  unfold energyODEv energyODE; field_simp

/-- the end points of the two solution branches in the similarity velocity v (Kamm & Timmes;
`__init__`: v0, v2, vstar, vv — generated model SedovEnds) -/
def v0 (γ k ω : ℝ) : ℝ := 2 / ((k + 2 - ω) * γ)
def v2 (γ k ω : ℝ) : ℝ := 4 / ((k + 2 - ω) * (γ + 1))
def vstar (γ k : ℝ) : ℝ := 2 / ((γ - 1) * k + 2)
def vv (k ω : ℝ) : ℝ := 2 / (k + 2 - ω)

end

end EPV.Spec.SedovODE
