/-
Specification (C13, and the burn-time shares of C07 / C08 / C09 / C20): the documented
burn-time solutions of the programmed-burn solvers, written once over an arbitrary
Euclidean space `E` (the theorems instantiate `E = EuclideanSpace ℝ (Fin 2)` and
`EuclideanSpace ℝ (Fin 3)`), and what "first-arrival-time field" means.

Quoted from the module docstrings of `exactpack/solvers/kenamond/kenamond{1,2,3}.py`
and `exactpack/solvers/dsd/cylexpansion.py`:

* Kenamond 1:   t(x) = t_d + ‖x - x_d‖ / D
* Kenamond 2:   t(p) = min(t₁, t₂, max(t₃, t₄), t₅, t₆),
                t_i = t_{d_i} + ‖p - x_{d_i}‖ / D₂ (i = 1, 2, 5, 6 ↔ detonators 1, 2, 4, 5),
                t₃ = t_{d_3} + ‖p‖ / D₁,   t₄ = t_{d_3} + ‖p‖ / D₂ + R (1/D₁ - 1/D₂)
* Kenamond 3:   t = t_d + ‖p - x_d‖ / D                         if θ ≤ 0  (line of sight)
                t = t_d + (l_da + R θ + l_bp) / D                if θ > 0  (shadow),
                θ = π - α - β - ψ,  α = arccos(-p·x_d / (‖p‖ ‖x_d‖)),  β = arccos(R/‖p‖),
                ψ = arccos(R/‖x_d‖),  l_da = √(‖x_d‖² - R²),  l_bp = √(‖p‖² - R²)
* DSD cylinder: D_CJ (t - t₀) = (r - r₀) + (α/D_CJ) ln((r - α/D_CJ)/(r₀ - α/D_CJ)),  r > α/D_CJ,
                in each material, i.e.  dr/dt = D_CJ - α/r.
-/
import Mathlib.Analysis.InnerProductSpace.PiL2
import Mathlib.Analysis.SpecialFunctions.Trigonometric.Inverse
import Mathlib.Analysis.SpecialFunctions.Log.Basic

namespace EPV.Spec.Burn

noncomputable section

/-- arrival time at `q` of a wave that starts at `c` at time `td` and moves with the
constant speed `D` along straight lines (Kenamond 1; every candidate of Kenamond 2;
the line-of-sight branch of Kenamond 3) -/
def cone {E : Type*} [PseudoMetricSpace E] (td D : ℝ) (c q : E) : ℝ := td + dist q c / D

variable {E : Type*} [NormedAddCommGroup E] [InnerProductSpace ℝ E]

/-- Kenamond 2, documented solution: sphere of radius `R` and speed `D1` at the origin
(detonator 3 at its centre, time `td3`), outer explosive of speed `D2`, detonators
`d1 d2 d4 d5` with times `td1 td2 td4 td5`. -/
def k2 (R D1 D2 td1 td2 td3 td4 td5 : ℝ) (d1 d2 d4 d5 q : E) : ℝ :=
  min (min (min (min (max (td3 + ‖q‖ / D1) (td3 + ‖q‖ / D2 + R * (1 / D1 - 1 / D2)))
    (cone td1 D2 d1 q)) (cone td2 D2 d2 q)) (cone td4 D2 d4 q)) (cone td5 D2 d5 q)

/-- Kenamond 3: the angle θ by which `q` lies inside the shadow of the obstacle -/
def k3theta (R : ℝ) (xd q : E) : ℝ :=
  Real.pi - Real.arccos (-(inner ℝ q xd) / (‖xd‖ * ‖q‖)) - Real.arccos (R / ‖q‖) - Real.arccos (R / ‖xd‖)

/-- Kenamond 3: length of the shortest path from `xd` to a shadowed point `q` around the
obstacle: tangent segment, arc of angle θ, tangent segment -/
def k3path (R : ℝ) (xd q : E) : ℝ :=
  Real.sqrt (‖xd‖ ^ 2 - R ^ 2) + R * k3theta R xd q + Real.sqrt (‖q‖ ^ 2 - R ^ 2)

/-- Kenamond 3, documented solution -/
def k3 (R D td : ℝ) (xd q : E) : ℝ :=
  if 0 < k3theta R xd q then td + k3path R xd q / D else cone td D xd q

/-- DSD cylindrical expansion: time the front needs to go from radius `r0` to radius `r`
in a material with `D_n = D - α κ`, κ = 1/r (documented solution of dr/dt = D - α/r) -/
def dsdLeg (D α r0 r : ℝ) : ℝ := ((r - r0) + α / D * Real.log ((r - α / D) / (r0 - α / D))) / D

/-- DSD cylindrical expansion, burn time as a function of the radius -/
def dsd (r1 r2 D1 D2 α1 α2 td r : ℝ) : ℝ :=
  if r < r1 then td
  else if r < r2 then td + dsdLeg D1 α1 r1 r
  else td + dsdLeg D1 α1 r1 r2 + dsdLeg D2 α2 r2 r

/-! ### what C13 asks of a burn-time field `t : E → ℝ` -/

/-- derivative-free eikonal equation along the ray from `c` in the unit direction `u`:
moving outwards by `s' - s` costs exactly `(s' - s) / D` -/
def EikonalOnRays (t : E → ℝ) (D : ℝ) (c : E) : Prop :=
  ∀ u : E, ‖u‖ = 1 → ∀ s s' : ℝ, 0 ≤ s → 0 ≤ s' → t (c + s' • u) - t (c + s • u) = (s' - s) / D

/-! ### documented parameter restrictions (C20 catalogue for the four classes)

Quoted from the `parameters` help strings, the class / module docstrings and the error
messages of the constructors. -/

/-- Kenamond 1: "geometry: 2=two-dimensional, 3=three-dimensional"; "Detonation velocity must be
> 0"; "Detonator location and geometry dimensions must be compatible" (`n` = length of `x_d`). -/
def K1Documented (geometry D : ℝ) (n : ℕ) : Prop :=
  (geometry = 2 ∨ geometry = 3) ∧ 0 < D ∧ geometry = n

/-- Kenamond 2: geometry 2 or 3; "Inner HE radius must be > 0"; both detonation velocities > 0;
"The detonation velocity of the inner HE region is higher than the detonation velocity of the
outer HE region: D₁ > D₂" (help string "D2 < D1", error message "D1 must be > D2"); "Only
detonator 3 is located inside the inner HE region"; and for i = 1, 2, 4, 5
"t_{d_i} ≥ t_{d_3} + R (1/D₁ + 1/D₂) - |a_{d_i}| / D₂". -/
def K2Documented (geometry R D1 D2 a1 a2 a4 a5 td1 td2 td3 td4 td5 : ℝ) : Prop :=
  (geometry = 2 ∨ geometry = 3) ∧ 0 < R ∧ 0 < D1 ∧ 0 < D2 ∧ D2 < D1 ∧
  R < |a1| ∧ R < |a2| ∧ R < |a4| ∧ R < |a5| ∧
  td3 + R * (1 / D1 + 1 / D2) - |a1| / D2 ≤ td1 ∧ td3 + R * (1 / D1 + 1 / D2) - |a2| / D2 ≤ td2 ∧
  td3 + R * (1 / D1 + 1 / D2) - |a4| / D2 ≤ td4 ∧ td3 + R * (1 / D1 + 1 / D2) - |a5| / D2 ≤ td5

/-- what the constructor of Kenamond 2 enforces: the same with D₁ ≥ D₂ -/
def K2Coded (geometry R D1 D2 a1 a2 a4 a5 td1 td2 td3 td4 td5 : ℝ) : Prop :=
  (geometry = 2 ∨ geometry = 3) ∧ 0 < R ∧ 0 < D1 ∧ 0 < D2 ∧ D2 ≤ D1 ∧
  R < |a1| ∧ R < |a2| ∧ R < |a4| ∧ R < |a5| ∧
  td3 + R * (1 / D1 + 1 / D2) - |a1| / D2 ≤ td1 ∧ td3 + R * (1 / D1 + 1 / D2) - |a2| / D2 ≤ td2 ∧
  td3 + R * (1 / D1 + 1 / D2) - |a4| / D2 ≤ td4 ∧ td3 + R * (1 / D1 + 1 / D2) - |a5| / D2 ≤ td5

/-- Kenamond 3: geometry 2 or 3 and compatible with `x_d`; "Inert obstacle radius must be > 0";
"Detonation velocity must be > 0"; "The detonator must be located outside of the inert region"
(`lod` = ‖x_d‖). -/
def K3Documented (geometry R D lod : ℝ) (n : ℕ) : Prop :=
  (geometry = 2 ∨ geometry = 3) ∧ geometry = n ∧ 0 < R ∧ 0 < D ∧ R < lod

/-- DSD cylindrical expansion: "geometry: 2=cylindrical"; "All radii are assumed to be positive and
large enough to avoid the singularity at the origin, i.e. r₁ > α₁/D_CJ₁ and r₂ > α₂/D_CJ₂";
interface radius > inner radius; "The nominal detonation velocities of both HEs must be positive";
α_i ≥ 0 (error messages "Alpha for HE1 must be >= 0"; the docstring says "positive"). -/
def DsdDocumented (geometry r1 r2 D1 D2 α1 α2 : ℝ) : Prop :=
  geometry = 2 ∧ 0 < r1 ∧ 0 < r2 ∧ r1 < r2 ∧ 0 < D1 ∧ 0 < D2 ∧ 0 ≤ α1 ∧ 0 ≤ α2 ∧ α1 / D1 < r1 ∧ α2 / D2 < r2

/-- what the constructor of `CylindricalExpansion` enforces: no curvature conditions -/
def DsdCoded (geometry r1 r2 D1 D2 α1 α2 : ℝ) : Prop :=
  geometry = 2 ∧ 0 < r1 ∧ 0 < r2 ∧ r1 < r2 ∧ 0 < D1 ∧ 0 < D2 ∧ 0 ≤ α1 ∧ 0 ≤ α2

end

end EPV.Spec.Burn
