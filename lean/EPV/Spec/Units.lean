/-
Specification (C08): dimensional consistency.

"If every dimensional input (parameters, positions, time) is re-expressed in a different
consistent system of units, every output field is the original output re-expressed in
those units.  Equivalently, multiplying inputs by powers of arbitrary mass, length and
time scale factors according to their dimensions multiplies each output by the scale
factors its own dimension dictates."

A change of units is a `Scaling` σ = (M, L, T, Θ) of positive reals (mass, length, time,
temperature).  A quantity of dimension d = (m, l, t, θ) — real exponents, because the
dimension of e.g. a Coggeshall density coefficient ρ₀ in ρ = ρ₀ r^b t^(-b-k-1) depends on
the free exponent b and on the geometry — is re-expressed by

    scale σ d x = M^m · L^l · T^t · Θ^θ · x .

`UnitCovariant` is the statement of the property for one returned field of one solver,
`SameBranch` for the selector of the decision-tree branch.  The per-solver hand tables
(dimension of every parameter and field, quoted from the docstrings) of the closed-form
hydro solvers are in `EPV/Spec/UnitsHydro.lean`; the derivation system that proves
covariance by structural dimensional analysis is `EPV/Lemmas/Units.lean`.
-/
import Mathlib.Analysis.SpecialFunctions.Pow.Real

namespace EPV.Spec

/-- a change of units: positive factors for mass, length, time and temperature -/
structure Scaling where
  M : ℝ
  L : ℝ
  T : ℝ
  Θ : ℝ
  hM : 0 < M
  hL : 0 < L
  hT : 0 < T
  hΘ : 0 < Θ

/-- a dimension vector: exponents of mass, length, time, temperature -/
@[ext] structure Dim where
  m : ℝ
  l : ℝ
  t : ℝ
  θ : ℝ

namespace Dim

instance : Zero Dim := ⟨⟨0, 0, 0, 0⟩⟩
instance : Add Dim := ⟨fun a b => ⟨a.m + b.m, a.l + b.l, a.t + b.t, a.θ + b.θ⟩⟩
instance : Sub Dim := ⟨fun a b => ⟨a.m - b.m, a.l - b.l, a.t - b.t, a.θ - b.θ⟩⟩
instance : Neg Dim := ⟨fun a => ⟨-a.m, -a.l, -a.t, -a.θ⟩⟩
instance : SMul ℝ Dim := ⟨fun e a => ⟨e * a.m, e * a.l, e * a.t, e * a.θ⟩⟩

/-- a pure number -/
def one : Dim := 0
def mass : Dim := ⟨1, 0, 0, 0⟩
def length : Dim := ⟨0, 1, 0, 0⟩
def time : Dim := ⟨0, 0, 1, 0⟩
def temperature : Dim := ⟨0, 0, 0, 1⟩
/-- mass density M L⁻³ -/
def density : Dim := ⟨1, -3, 0, 0⟩
/-- velocity L T⁻¹ -/
def velocity : Dim := ⟨0, 1, -1, 0⟩
/-- pressure M L⁻¹ T⁻² -/
def pressure : Dim := ⟨1, -1, -2, 0⟩
/-- specific internal energy L² T⁻² -/
def sie : Dim := ⟨0, 2, -2, 0⟩
/-- the Grüneisen gas constant Γ of the Coggeshall equation of state p = Γ ρ T:  L² T⁻² Θ⁻¹ -/
def gruneisen : Dim := ⟨0, 2, -2, -1⟩
/-- an inverse time -/
def rate : Dim := ⟨0, 0, -1, 0⟩

end Dim

noncomputable section

/-- the factor by which a quantity of dimension `d` is multiplied under the change of units `σ` -/
def factor (σ : Scaling) (d : Dim) : ℝ := σ.M ^ d.m * σ.L ^ d.l * σ.T ^ d.t * σ.Θ ^ d.θ

/-- the value `x` of a quantity of dimension `d`, re-expressed in the units `σ` -/
def scale (σ : Scaling) (d : Dim) (x : ℝ) : ℝ := factor σ d * x

/-- C08 for one field `f` of a solver with parameter type `P`: `sp σ` re-expresses every
parameter according to its dimension, positions are lengths, times are times, and the field
has dimension `d`.  `A σ p r t` is the set of changes of units and requests the statement is
made for; full strength is `A = fun _ _ _ _ => True`. -/
def UnitCovariant {P : Type} (sp : Scaling → P → P) (f : P → ℝ → ℝ → ℝ) (d : Dim)
    (A : Scaling → P → ℝ → ℝ → Prop) : Prop :=
  ∀ (σ : Scaling) (p : P) (r t : ℝ), A σ p r t →
    f (sp σ p) (σ.L * r) (σ.T * t) = scale σ d (f p r t)

/-- the decision tree takes the same branch for the re-expressed request -/
def SameBranch {P α : Type} (sp : Scaling → P → P) (leaf : P → ℝ → ℝ → α)
    (A : Scaling → P → ℝ → ℝ → Prop) : Prop :=
  ∀ (σ : Scaling) (p : P) (r t : ℝ), A σ p r t → leaf (sp σ p) (σ.L * r) (σ.T * t) = leaf p r t

/-- every change of units, every parameter set, every request -/
def Everywhere {P : Type} : Scaling → P → ℝ → ℝ → Prop := fun _ _ _ _ => True

end

end EPV.Spec
