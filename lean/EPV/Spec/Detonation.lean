/-
Specification (C02, detonation / piston family): the forms of the Rankine–Hugoniot
relations used by the steady reaction zone, the Chapman–Jouguet detonation front and the
elastic–plastic piston.  All of them are instances of `Spec.RankineHugoniot` (Spec/Jump.lean):

* **steady zone** (SDRZ, `exactpack/solvers/sdrz/__init__.py`: "the equations of motion have a
  solution that is steady in the frame attached to the shock"): in the frame of a front that
  moves with speed `D` into material at rest with density `ρ₀` and negligible pressure, the
  mass flux and the momentum flux are the same at every point behind the front:
      ρ (D - u) = ρ₀ D ,      p + ρ (D - u)² = ρ₀ D² ;
* **detonation front** with specific heat release `q` (Mader, EHEP): mass, momentum and
  total energy (chemical energy `q` included ahead of the front) are conserved, and the
  Chapman–Jouguet condition says the flow behind the front is sonic relative to it,
  `u + c = D`;
* **elastic–plastic wave** (EP piston; property text: "the total stress (pressure minus
  deviatoric stress) replaces pressure").
-/
import EPV.Spec.Jump

namespace EPV.Spec

noncomputable section

/-- steady zone behind a front of speed `D` running into `(ρ₀, u = 0, p = 0)`:
mass flux and momentum flux in the front's frame are those of the undisturbed material -/
def SteadyZone (ρ₀ D ρ u p : ℝ) : Prop :=
  ρ * (D - u) = ρ₀ * D ∧ p + ρ * (D - u) ^ 2 = ρ₀ * D ^ 2

/-- the steady-zone relations are mass and momentum of `RankineHugoniot` between the
undisturbed state and the state at the point, with the front speed `D` -/
theorem SteadyZone.iff_fluxes (ρ₀ D ρ u p e₀ e : ℝ) :
    SteadyZone ρ₀ D ρ u p ↔
      (State.massFlux ⟨ρ₀, 0, 0, e₀⟩ D = State.massFlux ⟨ρ, u, p, e⟩ D ∧
       State.momFlux ⟨ρ₀, 0, 0, e₀⟩ D = State.momFlux ⟨ρ, u, p, e⟩ D) := by
  unfold SteadyZone State.massFlux State.momFlux
  constructor
  · rintro ⟨h1, h2⟩
    exact ⟨by linear_combination h1, by linear_combination D * h1 - h2⟩
  · rintro ⟨h1, h2⟩
    simp only at h1 h2
    exact ⟨by linear_combination h1, by linear_combination D * h1 - h2⟩

/-- the usual short form: with the mass relation, the momentum relation is `p = ρ₀ D u` -/
theorem SteadyZone.of_short {ρ₀ D ρ u p : ℝ} (hm : ρ * (D - u) = ρ₀ * D) (hp : p = ρ₀ * D * u) :
    SteadyZone ρ₀ D ρ u p := by
  refine ⟨hm, ?_⟩
  have : ρ * (D - u) ^ 2 = ρ₀ * D * (D - u) := by rw [pow_two, ← mul_assoc, hm]
  rw [this, hp]
  ring

/-- detonation front with specific heat release `q`: the material ahead (`a`) carries the
chemical energy `q` in addition to its thermal energy -/
def DetonationJump (a b : State) (q D : ℝ) : Prop :=
  RankineHugoniot ⟨a.ρ, a.u, a.p, a.e + q⟩ b D

/-- Chapman–Jouguet condition: the burnt flow is sonic relative to the front -/
def ChapmanJouguet (b : State) (c D : ℝ) : Prop := b.u + c = D

/-- elastic–plastic wave: Rankine–Hugoniot with the total axial stress `p - s` in place of
the pressure (`s` = deviatoric stress, negative in compression) -/
def RankineHugoniotEP (a b : State) (sa sb D : ℝ) : Prop :=
  RankineHugoniot ⟨a.ρ, a.u, a.p - sa, a.e⟩ ⟨b.ρ, b.u, b.p - sb, b.e⟩ D

/-- Mie–Grüneisen equation of state with the linear `U_s = c₀ + s₀ u_p` Hugoniot as the
reference curve (`exactpack/solvers/ep_piston`: `Gruneisen`):
    η = 1 - ρ₀/ρ,  P_H = ρ₀ c₀² η / (1 - s₀ η)²,  E_H = η P_H / (2 ρ₀),
    p = P_H + Γ ρ (e - E_H). -/
def mieGruneisen (ρ₀ Γ c₀ s₀ ρ e : ℝ) : ℝ :=
  let η := 1 - ρ₀ / ρ
  let PH := ρ₀ * c₀ ^ 2 * η / (1 - s₀ * η) ^ 2
  PH + Γ * ρ * (e - η * PH / (2 * ρ₀))

end

end EPV.Spec

namespace EPV.Spec

noncomputable section

/-- Riemann-invariant form of the planar γ = 3 Euler equations: for γ = 3 the Riemann invariants
are `u ± c` themselves and each is transported with its own characteristic speed,
`w_t + w w_x = 0` for `w = u + c` and for `w = u - c` ([Doebling2015], [Fickett1974]). -/
def riemannRes (w : ℝ → ℝ → ℝ) (x t : ℝ) : ℝ :=
  deriv (fun s => w x s) t + w x t * deriv (fun y => w y t) x

end

end EPV.Spec
