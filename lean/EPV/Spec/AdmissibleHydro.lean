/-
Specification (C20): the catalogue of DOCUMENTED restrictions on the parameters of the closed-form
hydro solvers Noh, Noh2, Noh2Cog and Coggeshall 1–21 — every restriction stated in a parameter help
string, a class or module docstring or an error message, with the source line quoted next to it.

"Every documented restriction on a solver's parameters (admissible geometry values, sign and range
of velocities, densities, gammas, …) is enforced by a ValueError at construction."

`<Solver>.Documented p` is stated over the parameter structure of the traced constructor model
`EPV.Gen.Init<Solver>` (the parameters `__init__` reads).  What is NOT in the catalogue, on purpose:

  * the ranges "α ∈ [-2,-1]", "β ∈ [1,3]" of the opacity exponents.  The constructors only print
    "*** warning: alpha lies outside range [-2,-1] ***", the package docstring gives the different
    range "-1 ≤ α ≤ 2", and the class defaults (α = 2, β = 1) lie outside the warned range: they are
    advice, not a restriction.  They are recorded as `Advised` and used as the domain on which
    "valid requests never produce NaN" is tested (C20, `finding_cog13/14/17_…`).
  * Cog12's "Note that T > 0 only when γ < 1" (a remark; its help string for gamma has no "must").
-/
import EPV.Gen.InitNoh
import EPV.Gen.InitNoh2
import EPV.Gen.InitNoh2Cog
import EPV.Gen.InitCog1
import EPV.Gen.InitCog2
import EPV.Gen.InitCog3
import EPV.Gen.InitCog4
import EPV.Gen.InitCog5
import EPV.Gen.InitCog6
import EPV.Gen.InitCog7
import EPV.Gen.InitCog8
import EPV.Gen.InitCog9
import EPV.Gen.InitCog10
import EPV.Gen.InitCog11
import EPV.Gen.InitCog12
import EPV.Gen.InitCog13
import EPV.Gen.InitCog14
import EPV.Gen.InitCog16
import EPV.Gen.InitCog17
import EPV.Gen.InitCog18
import EPV.Gen.InitCog19
import EPV.Gen.InitCog20
import EPV.Gen.InitCog21

set_option linter.unusedVariables false

namespace EPV.Spec.AdmissibleHydro

open EPV.Gen

/-- 'geometry': "1=planar, 2=cylindrical, 3=spherical" -/
def Geom123 (g : ℝ) : Prop := g = 1 ∨ g = 2 ∨ g = 3
/-- 'geometry': "2=cylindrical, 3=spherical" -/
def Geom23 (g : ℝ) : Prop := g = 2 ∨ g = 3

/-- the ranges of the opacity exponents the constructors warn about (advice, see the header) -/
def Advised (alpha beta : ℝ) : Prop := -2 ≤ alpha ∧ alpha ≤ -1 ∧ 1 ≤ beta ∧ beta ≤ 3

/-- Noh: every documented restriction on the constructor's parameters -/
def Noh.Documented (p : InitNoh.P) : Prop :=
  -- parameters: 'geometry': "1=planar, 2=cylindrical, 3=spherical"
  -- __init__:   raise ValueError("geometry must be 1, 2, or 3")
  Geom123 p.geometry ∧
  -- parameters: 'u0': "incident velocity (negative)"
  -- __init__:   raise ValueError("Incident velocity must be negative")
  p.u0 < 0

/-- Noh2: every documented restriction on the constructor's parameters -/
def Noh2.Documented (p : InitNoh2.P) : Prop :=
  -- parameters: 'geometry': "1=planar, 2=cylindrical, 3=spherical"
  -- __init__:   raise ValueError("geometry must be 1, 2, or 3")
  Geom123 p.geometry

/-- Noh2Cog: every documented restriction on the constructor's parameters -/
def Noh2Cog.Documented (p : InitNoh2Cog.P) : Prop :=
  -- parameters: 'geometry': "1=planar, 2=cylindrical, 3=spherical"
  -- __init__:   raise ValueError("geometry must be 1, 2, or 3")
  Geom123 p.geometry

/-- Cog1: every documented restriction on the constructor's parameters -/
def Cog1.Documented (p : InitCog1.P) : Prop :=
  -- parameters: 'geometry': "1=planar, 2=cylindrical, 3=spherical"
  -- __init__:   raise ValueError("geometry must be 1, 2, or 3")
  Geom123 p.geometry

/-- Cog2: every documented restriction on the constructor's parameters -/
def Cog2.Documented (p : InitCog2.P) : Prop :=
  -- parameters: 'geometry': "1=planar, 2=cylindrical, 3=spherical"
  -- __init__:   raise ValueError("geometry must be 1, 2, or 3")
  Geom123 p.geometry

/-- Cog3: every documented restriction on the constructor's parameters -/
def Cog3.Documented (p : InitCog3.P) : Prop :=
  -- parameters: 'geometry': "1=planar, 2=cylindrical, 3=spherical"
  -- __init__:   raise ValueError("geometry must be 1, 2, or 3")
  Geom123 p.geometry

/-- Cog4: every documented restriction on the constructor's parameters -/
def Cog4.Documented (p : InitCog4.P) : Prop :=
  -- parameters: 'geometry': "1=planar, 2=cylindrical, 3=spherical"
  -- __init__:   raise ValueError("geometry must be 1, 2, or 3")
  Geom123 p.geometry ∧
  -- parameters: 'gamma': "specific heat ratio γ ≡ c_p/c_v (must be < 1)"
  -- module docstring: "The only physical solutions for which T > 0 are for γ < 1."
  p.gamma < 1

/-- Cog5: every documented restriction on the constructor's parameters -/
def Cog5.Documented (p : InitCog5.P) : Prop :=
  -- parameters rho0, u0, Gamma: no restriction is stated anywhere
  True

/-- Cog6: every documented restriction on the constructor's parameters -/
def Cog6.Documented (p : InitCog6.P) : Prop :=
  -- parameters: 'geometry': "1=planar, 2=cylindrical, 3=spherical"
  -- __init__:   raise ValueError("geometry must be 1, 2, or 3")
  Geom123 p.geometry

/-- Cog7: every documented restriction on the constructor's parameters -/
def Cog7.Documented (p : InitCog7.P) : Prop :=
  -- parameters: 'geometry': "1=planar, 2=cylindrical, 3=spherical"
  -- __init__:   raise ValueError("geometry must be 1, 2, or 3")
  Geom123 p.geometry

/-- Cog8: every documented restriction on the constructor's parameters -/
def Cog8.Documented (p : InitCog8.P) : Prop :=
  -- parameters: 'geometry': "1=planar, 2=cylindrical, 3=spherical"
  -- __init__:   raise ValueError("geometry must be 1, 2, or 3")
  Geom123 p.geometry

/-- Cog9: every documented restriction on the constructor's parameters -/
def Cog9.Documented (p : InitCog9.P) : Prop :=
  -- parameters: 'geometry': "1=planar, 2=cylindrical, 3=spherical"
  -- __init__:   raise ValueError("geometry must be 1, 2, or 3")
  Geom123 p.geometry

/-- Cog10: every documented restriction on the constructor's parameters -/
def Cog10.Documented (p : InitCog10.P) : Prop :=
  -- parameters: 'geometry': "2=cylindrical, 3=spherical"
  -- __init__:   raise ValueError("geometry must be 2, or 3")
  Geom23 p.geometry

/-- Cog11: every documented restriction on the constructor's parameters -/
def Cog11.Documented (p : InitCog11.P) : Prop :=
  -- parameters: 'geometry': "1=planar, 2=cylindrical, 3=spherical"
  -- __init__:   raise ValueError("geometry must be 1, 2, or 3")
  Geom123 p.geometry

/-- Cog12: every documented restriction on the constructor's parameters -/
def Cog12.Documented (p : InitCog12.P) : Prop :=
  -- parameters: 'geometry': "2=cylindrical, 3=spherical"
  -- __init__:   raise ValueError("geometry must be 2, or 3")
  Geom23 p.geometry

/-- Cog13: every documented restriction on the constructor's parameters -/
def Cog13.Documented (p : InitCog13.P) : Prop :=
  -- parameters: 'geometry': "1=planar, 2=cylindrical, 3=spherical"
  -- __init__:   raise ValueError("geometry must be 1, 2, or 3")
  Geom123 p.geometry ∧
  -- __init__:   raise ValueError("gamma cannot be one")
  p.gamma ≠ 1

/-- Cog14: every documented restriction on the constructor's parameters -/
def Cog14.Documented (p : InitCog14.P) : Prop :=
  -- parameters: 'geometry': "1=planar, 2=cylindrical, 3=spherical"
  -- __init__:   raise ValueError("geometry must be 1, 2, or 3")
  Geom123 p.geometry

/-- Cog16: every documented restriction on the constructor's parameters -/
def Cog16.Documented (p : InitCog16.P) : Prop :=
  -- parameters: 'geometry': "2=cylindrical, 3=spherical"
  -- __init__:   raise ValueError("geometry must be 2, or 3")
  Geom23 p.geometry ∧
  -- __init__:   raise ValueError("the parameter b canot equal to geometry-1")
  p.geometry - 1 ≠ p.b

/-- Cog17: every documented restriction on the constructor's parameters -/
def Cog17.Documented (p : InitCog17.P) : Prop :=
  -- parameters: 'geometry': "1=planar, 2=cylindrical, 3=spherical"
  -- __init__:   raise ValueError("geometry must be 1, 2, or 3")
  Geom123 p.geometry

/-- Cog18: every documented restriction on the constructor's parameters -/
def Cog18.Documented (p : InitCog18.P) : Prop :=
  -- parameters: 'geometry': "1=planar, 2=cylindrical, 3=spherical"
  -- __init__:   raise ValueError("geometry must be 1, 2, or 3")
  Geom123 p.geometry ∧
  -- __init__:   raise ValueError("alpha cannot equal 0")
  p.alpha ≠ 0

/-- Cog19: every documented restriction on the constructor's parameters -/
def Cog19.Documented (p : InitCog19.P) : Prop :=
  -- parameters: 'geometry': "1=planar, 2=cylindrical, 3=spherical"
  -- __init__:   raise ValueError("geometry must be 1, 2, or 3")
  Geom123 p.geometry ∧
  -- module docstring: "Free parameters: k, ρ₀, and u₀ (with u₀ < 0), γ, and Γ."
  -- __init__:   raise ValueError("u0 must be strictly negative")
  p.u0 < 0

/-- Cog20: every documented restriction on the constructor's parameters -/
def Cog20.Documented (p : InitCog20.P) : Prop :=
  -- parameters: 'geometry': "1=planar, 2=cylindrical, 3=spherical"
  -- __init__:   raise ValueError("geometry must be 1, 2, or 3")
  Geom123 p.geometry ∧
  -- __init__:   raise ValueError("parameter a cannot be zero")
  p.a ≠ 0

/-- Cog21: every documented restriction on the constructor's parameters -/
def Cog21.Documented (p : InitCog21.P) : Prop :=
  -- parameters rho0, temp0, Gamma: no restriction is stated anywhere
  True

end EPV.Spec.AdmissibleHydro
