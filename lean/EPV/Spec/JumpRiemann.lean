/-
Specification for the 1-D Riemann problem (properties C02, C03, C07, C09, C17).

Everything here is written from the conservation laws and the thermodynamics the
ExactPack documentation states (`exactpack/solvers/riemann/__init__.py`, eqs.
`conservation`, `conservation_fluxes`, `similarity_conservation`), *not* from the
formulas in `riemann/utils.py`:

* Rankine–Hugoniot conditions for U = (ρ, ρu, ρ(e+u²/2)), F = (ρu, ρu²+p, u(ρ(e+u²/2)+p))
  across a discontinuity moving with speed D (DESIGN §C02):
      [ρ(u-D)] = 0,   [ρ(u-D)u + p] = 0,   [ρ(u-D)(e+u²/2) + pu] = 0 ;
* contact: [p] = [u] = 0 and D = u;
* ideal gas: e = p/((γ-1)ρ), c² = γp/ρ;
* wave curves of the γ-law gas through a state (p₀,ρ₀,u₀):
  - shock branch  = states joined to it by an admissible (Lax) shock: the three jump
    conditions hold for some D, the pressure rises, and the gas ahead enters the
    shock from the side the wave faces;
  - rarefaction branch = states on the same isentrope p/ρ^γ with the same Riemann
    invariant u ± 2c/(γ-1), at lower pressure;
* the JWL pressure form  p = A(1-ωρ/(R₁ρ₀))e^{-R₁ρ₀/ρ} + B(1-ωρ/(R₂ρ₀))e^{-R₂ρ₀/ρ} + ωρe,
  ω = γ-1  ([Kamm2015], [Lee2013]; `riemann/__init__.py` section JWL).
-/
import EPV.Support

namespace EPV.Spec.Riemann

noncomputable section

/-- mass, momentum, energy jump between state 0 = (p₀,ρ₀,u₀,e₀) and state 1 across a
discontinuity of speed `D` -/
def massJump (ρ0 u0 ρ1 u1 D : ℝ) : Prop := ρ1 * (u1 - D) = ρ0 * (u0 - D)

def momJump (p0 ρ0 u0 p1 ρ1 u1 D : ℝ) : Prop :=
  ρ1 * (u1 - D) * u1 + p1 = ρ0 * (u0 - D) * u0 + p0

def energyJump (p0 ρ0 u0 e0 p1 ρ1 u1 e1 D : ℝ) : Prop :=
  ρ1 * (u1 - D) * (e1 + u1 ^ 2 / 2) + p1 * u1 = ρ0 * (u0 - D) * (e0 + u0 ^ 2 / 2) + p0 * u0

/-- the three Rankine–Hugoniot conditions -/
def RH (p0 ρ0 u0 e0 p1 ρ1 u1 e1 D : ℝ) : Prop :=
  massJump ρ0 u0 ρ1 u1 D ∧ momJump p0 ρ0 u0 p1 ρ1 u1 D ∧ energyJump p0 ρ0 u0 e0 p1 ρ1 u1 e1 D

/-- the conservative form  F(U₁) - F(U₀) = D (U₁ - U₀)  (what C04 uses) -/
def RHflux (p0 ρ0 u0 e0 p1 ρ1 u1 e1 D : ℝ) : Prop :=
  ρ1 * u1 - ρ0 * u0 = D * (ρ1 - ρ0) ∧
  (ρ1 * u1 ^ 2 + p1) - (ρ0 * u0 ^ 2 + p0) = D * (ρ1 * u1 - ρ0 * u0) ∧
  u1 * (ρ1 * (e1 + u1 ^ 2 / 2) + p1) - u0 * (ρ0 * (e0 + u0 ^ 2 / 2) + p0)
    = D * (ρ1 * (e1 + u1 ^ 2 / 2) - ρ0 * (e0 + u0 ^ 2 / 2))

theorem RH_iff_RHflux (p0 ρ0 u0 e0 p1 ρ1 u1 e1 D : ℝ) :
    RH p0 ρ0 u0 e0 p1 ρ1 u1 e1 D ↔ RHflux p0 ρ0 u0 e0 p1 ρ1 u1 e1 D := by
  unfold RH RHflux massJump momJump energyJump
  constructor
  · rintro ⟨h1, h2, h3⟩
    exact ⟨by linear_combination h1, by linear_combination h2, by linear_combination h3⟩
  · rintro ⟨h1, h2, h3⟩
    exact ⟨by linear_combination h1, by linear_combination h2, by linear_combination h3⟩

/-- contact discontinuity: equal pressure and normal velocity, moving with the fluid -/
def Contact (p0 u0 p1 u1 D : ℝ) : Prop := p1 = p0 ∧ u1 = u0 ∧ D = u0

/-- γ-law gas -/
def eIG (γ p ρ : ℝ) : ℝ := p / ((γ - 1) * ρ)

/-- a flow state -/
structure St where
  p : ℝ
  ρ : ℝ
  u : ℝ

/-- γ-law sound speed -/
def cIG (γ : ℝ) (s : St) : ℝ := Real.sqrt (γ * s.p / s.ρ)

/-- `s` is joined to the state `s0` ahead of it by an admissible shock of the γ-law gas.
`σ = -1`: left-facing wave (the gas ahead, on the left, enters the shock: u₀ - D > 0);
`σ = +1`: right-facing wave (gas ahead on the right: u₀ - D < 0).  Pressure rises. -/
def OnShockBranch (γ σ : ℝ) (s0 s : St) : Prop :=
  s0.p < s.p ∧ 0 < s.ρ ∧
  ∃ D, RH s0.p s0.ρ s0.u (eIG γ s0.p s0.ρ) s.p s.ρ s.u (eIG γ s.p s.ρ) D ∧ σ * (s0.u - D) < 0

/-- `s` lies on the rarefaction branch through `s0`: same entropy function p/ρ^γ, same
Riemann invariant u - σ·2c/(γ-1) (σ = -1 left-facing: u + 2c/(γ-1)), pressure not higher. -/
def OnFanBranch (γ σ : ℝ) (s0 s : St) : Prop :=
  0 < s.p ∧ s.p ≤ s0.p ∧ 0 < s.ρ ∧
  s.p / s.ρ ^ γ = s0.p / s0.ρ ^ γ ∧
  s.u - σ * (2 * cIG γ s / (γ - 1)) = s0.u - σ * (2 * cIG γ s0 / (γ - 1))

/-- the left (σ = -1) and right (σ = +1) wave curves meet at pressure `px`: one velocity `ux`
and two densities such that the left star state is on the left curve through L and the
right star state is on the right curve through R; `BL`, `BR` select the branch. -/
def Meet (BL BR : St → St → Prop) (L R : St) (px : ℝ) : Prop :=
  ∃ ux ρ1 ρ2, BL L ⟨px, ρ1, ux⟩ ∧ BR R ⟨px, ρ2, ux⟩

/-- the JWL pressure form, ω = γ - 1 -/
def jwlPressure (A B R1 R2 ρ0 ω ρ e : ℝ) : ℝ :=
  A * (1 - ω * ρ / (R1 * ρ0)) * Real.exp (-(R1 * ρ0 / ρ))
    + B * (1 - ω * ρ / (R2 * ρ0)) * Real.exp (-(R2 * ρ0 / ρ)) + ω * ρ * e

/-- the general (Menikoff–Plohr / [Kamm2015] eqs. 5, 6) sound speed of an EOS e(p,ρ):
c² = (p/ρ² - ∂e/∂ρ|ₚ) / ∂e/∂p|ᵨ -/
def cSqGeneral (p ρ de_dρ de_dp : ℝ) : ℝ := (p / ρ ^ 2 - de_dρ) / de_dp

/-- the Hugoniot energy equation  e₁ - e₀ = (p₁+p₀)/2 · (1/ρ₀ - 1/ρ₁) -/
def Hugoniot (p0 ρ0 e0 p1 ρ1 e1 : ℝ) : Prop := e1 - e0 = (p1 + p0) / 2 * (1 / ρ0 - 1 / ρ1)

end

end EPV.Spec.Riemann
