/-
Specification (C11, and the Sedov shares of C02/C10): what the Sedov blast-wave solver
promises, quoted from exactpack/solvers/sedov/__init__.py:

    E₀ = ∫ dV [ ½ ρ u² + P/(γ-1) ] ,

  "where the integration runs over the volume behind the shock at time t, i.e. over
   0 ≤ r ≤ r_shock(t).  The volume element takes the form dV = 4π r² dr for k = 3
   (spherical), dV = 2π r dr for k = 2 (cylindrical), and dV = dr for k = 1 (planar)."

So in the planar case the documented integral is ONE-SIDED (0 ≤ r ≤ r_shock, dV = dr): the
blast energy parameter is the energy on one side of the symmetry plane.  This is also what
the code normalises (`alpha = 0.5*eval1 + eval2/gamm1` for geometry 1).

The initial density is ρ(r, 0) = ρ₀ r^(-ω) (parameter help of `omega`), at rest, at zero
pressure.
-/
import Mathlib.MeasureTheory.Integral.IntervalIntegral.Basic
import Mathlib.Analysis.SpecialFunctions.Pow.Real
import Mathlib.Analysis.SpecialFunctions.Trigonometric.Basic

namespace EPV.Spec.Sedov

noncomputable section

open MeasureTheory

/-- the factor of the volume element dV = A_k r^(k-1) dr: 1 (planar, one-sided), 2π, 4π -/
def Ak (k : ℕ) : ℝ := if k = 1 then 1 else 2 * ((k : ℝ) - 1) * Real.pi

theorem Ak_one : Ak 1 = 1 := by simp [Ak]
theorem Ak_two : Ak 2 = 2 * Real.pi := by norm_num [Ak]
theorem Ak_three : Ak 3 = 4 * Real.pi := by norm_num [Ak]

theorem Ak_pos {k : ℕ} (hk : k = 1 ∨ k = 2 ∨ k = 3) : 0 < Ak k := by
  rcases hk with rfl | rfl | rfl
  · rw [Ak_one]; exact one_pos
  · rw [Ak_two]; positivity
  · rw [Ak_three]; positivity

/-- kinetic plus internal energy of the fields `ρ u p` (functions of r at one time) in the
region 0 ≤ r ≤ R of a k-dimensional symmetric flow of a γ-law gas -/
def energyBehind (k : ℕ) (γ : ℝ) (ρ u p : ℝ → ℝ) (R : ℝ) : ℝ :=
  Ak k * ∫ r in (0 : ℝ)..R, (ρ r * u r ^ 2 / 2 + p r / (γ - 1)) * r ^ (k - 1)

/-- mass of the density field `ρ` in the region 0 ≤ r ≤ R -/
def massBehind (k : ℕ) (ρ : ℝ → ℝ) (R : ℝ) : ℝ :=
  Ak k * ∫ r in (0 : ℝ)..R, ρ r * r ^ (k - 1)

/-- the undisturbed initial density profile ρ₀ r^(-ω) -/
def ambientDensity (ρ₀ ω : ℝ) (r : ℝ) : ℝ := ρ₀ * r ^ (-ω)

/-- **C11, energy**: at time `t` the energy behind the shock (placed at `R`) is the blast energy -/
def EnergyConserved (k : ℕ) (γ E : ℝ) (ρ u p : ℝ → ℝ) (R : ℝ) : Prop :=
  energyBehind k γ ρ u p R = E

/-- **C11, mass**: the mass behind the shock is the mass the initial profile held inside `R` -/
def MassConserved (k : ℕ) (ρ₀ ω : ℝ) (ρ : ℝ → ℝ) (R : ℝ) : Prop :=
  massBehind k ρ R = massBehind k (ambientDensity ρ₀ ω) R

/-! ### The normalisation `__init__` computes (sedov.py:139-180), in λ-space

`alpha` is defined by the code from two integrals, `eval1 = quad(efun01, vmin, v2)` and
`eval2 = quad(efun02, vmin, v2)`.  After the substitution λ = λ(v) (theorems
`*_efun01_pullback`, `*_efun02_pullback` in Props/C11/SedovIntegrands.lean) these are the
λ-space integrals below, for the similarity functions f (velocity), g (density), h (pressure). -/

/-- first energy integral in λ-space: ∫₀¹ g f² λ^(k-1) dλ (kinetic) -/
def J1 (k : ℕ) (f g : ℝ → ℝ) : ℝ := ∫ x in (0:ℝ)..1, g x * f x ^ 2 * x ^ (k - 1)
/-- second energy integral in λ-space: ∫₀¹ h λ^(k-1) dλ (internal) -/
def J2 (k : ℕ) (h : ℝ → ℝ) : ℝ := ∫ x in (0:ℝ)..1, h x * x ^ (k - 1)

/-- `eval1` of `__init__` after the substitution λ = λ(v): `efun01 = dλ/dv · λ^(k+1) · gpogm · g · v²`
with f = a_val·v·λ, a_val = xg2·gamp1/4, gpogm = (γ+1)/(γ-1)  (see `efun01_pullback`) -/
def eval1 (k : ℕ) (γ ω : ℝ) (f g : ℝ → ℝ) : ℝ :=
  ((γ + 1) / (γ - 1)) / ((1 / 4) * ((k : ℝ) + 2 - ω) * (γ + 1)) ^ 2 * J1 k f g
/-- `eval2` of `__init__` after the substitution: `efun02 = dλ/dv · λ^(k-1) · h · 8/((k+2-ω)²(γ+1))` -/
def eval2 (k : ℕ) (γ ω : ℝ) (h : ℝ → ℝ) : ℝ :=
  8 / (((k : ℝ) + 2 - ω) ^ 2 * (γ + 1)) * J2 k h

/-- `alpha` as `__init__` computes it from eval1, eval2 (sedov.py:176-180) -/
def alphaCode (kr γ e1 e2 : ℝ) : ℝ :=
  if kr = 1 then (1 / 2) * e1 + e2 / (γ - 1) else (kr - 1) * Real.pi * (e1 + 2 * e2 / (γ - 1))

end

end EPV.Spec.Sedov
