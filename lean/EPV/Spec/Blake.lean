/-
Specification (C15, C20 share): the spherical Blake problem of
`exactpack/solvers/blake`.

Material.  `exactpack/solvers/blake/blake.py` (class docstring): "There are six
parameters which are commonly used to characterize an isotropic, linear-elastic
solid [λ, G, E, ν, K, M].  The material is determined by specifying any **two**
of these six; the other four are calculated internally."  The relations among the
six are the textbook ones, written here in terms of the two Lamé moduli (λ, G):

    K = λ + 2G/3,  M = λ + 2G,  E = G (3λ + 2G) / (λ + G),  ν = λ / (2 (λ + G)),

and the strain energy is positive definite iff G > 0 and 3λ + 2G > 0 (Gurtin's
condition (ii), quoted by `set_check_elastic_params.check_ii`).

Fields.  `exactpack/solvers/blake/__init__.py`: the radial displacement u(r,t)
"satisfies the *scalar* wave equation in spherical coordinates"

    u_rr + (2/r) u_r - 2u/r² = (1/c_L²) u_tt ,    c_L² = (λ + 2μ)/ρ₀ ,

"at the cavity surface we require that the radial normal stress component equal
the imposed normal traction" (T_rr(a,t) = -p(t), eq. bdryCon, p(t) = P₀ H(t)),
the solution is a function of the reduced time t' = t - (r-a)/c_L and vanishes
for t' < 0 (factor H(t') in eq. heavisideSoln), and the stresses follow from
"the isotropic, linear elastic constitutive model" T = λ tr(E) 1 + 2μ E with
E_rr = ∂u/∂r, E_θθ = E_φφ = u/r.
-/
import EPV.Support

namespace EPV.Spec.Blake

noncomputable section

/-- the six elastic parameters describe one isotropic linear-elastic material with a
positive-definite strain energy -/
structure IsoMaterial (lam G E nu K M : ℝ) : Prop where
  shear_pos : 0 < G
  bulk_pos : 0 < 3 * lam + 2 * G
  bulk : K = lam + 2 * G / 3
  long : M = lam + 2 * G
  youngs : E = G * (3 * lam + 2 * G) / (lam + G)
  poisson : nu = lam / (2 * (lam + G))

/-- the same with the two quotient identities cleared of their denominator (λ + G > 0 follows from
G > 0 and 3λ + 2G > 0) -/
theorem IsoMaterial.of_mul {lam G E nu K M : ℝ} (hG : 0 < G) (hB : 0 < 3 * lam + 2 * G)
    (hK : K = lam + 2 * G / 3) (hM : M = lam + 2 * G) (hE : E * (lam + G) = G * (3 * lam + 2 * G))
    (hν : nu * (2 * (lam + G)) = lam) : IsoMaterial lam G E nu K M := by
  have h : 0 < lam + G := by linarith
  refine ⟨hG, hB, hK, hM, ?_, ?_⟩
  · rw [eq_div_iff (ne_of_gt h)]; exact hE
  · rw [eq_div_iff (by positivity)]; exact hν

theorem IsoMaterial.lame_add_shear_pos {lam G E nu K M : ℝ} (h : IsoMaterial lam G E nu K M) : 0 < lam + G := by
  have := h.shear_pos; have := h.bulk_pos; linarith

/-- which of the six parameters a user-supplied value is meant to be -/
inductive Kind where
  | lame | shear | youngs | poisson | bulk | long
  deriving DecidableEq, Repr

/-- the value of the parameter of a given kind for the material with Lamé moduli (λ, G) -/
def Kind.of (k : Kind) (lam G : ℝ) : ℝ :=
  match k with
  | .lame => lam
  | .shear => G
  | .youngs => G * (3 * lam + 2 * G) / (lam + G)
  | .poisson => lam / (2 * (lam + G))
  | .bulk => lam + 2 * G / 3
  | .long => lam + 2 * G

/-- the six parameters of a material are the values of the six kinds -/
theorem IsoMaterial.kind_of {lam G E nu K M : ℝ} (m : IsoMaterial lam G E nu K M) :
    Kind.lame.of lam G = lam ∧ Kind.shear.of lam G = G ∧ Kind.youngs.of lam G = E
      ∧ Kind.poisson.of lam G = nu ∧ Kind.bulk.of lam G = K ∧ Kind.long.of lam G = M :=
  ⟨rfl, rfl, m.youngs.symm, m.poisson.symm, m.bulk.symm, m.long.symm⟩

/-- `set_elastic_params` docstring, requirement 1 ("Each user-specified modulus parameter is
positive") and the constructor's comment "a GIVEN poisson_ratio (pnu) lies in the PD strain
energy range: -1.0 < pnu < 0.5" -/
def Kind.GivenOk (k : Kind) (x : ℝ) : Prop :=
  match k with
  | .poisson => -1 < x ∧ x < 1 / 2
  | _ => 0 < x

/-- `set_elastic_params` docstring, requirement 2: "Each pair of user-specified parameters define
a material which has a positive-definite (PD) strain energy function": some positive-definite
isotropic material has the value `x` for the parameter of kind `k₁` and `y` for kind `k₂` -/
def PairDefinesPD (k₁ k₂ : Kind) (x y : ℝ) : Prop :=
  ∃ lam G : ℝ, 0 < G ∧ 0 < 3 * lam + 2 * G ∧ k₁.of lam G = x ∧ k₂.of lam G = y

/-- the relative tolerance of the "sufficiently close to yielding a NaN param value" tests
(`reltol = 1.0e-13` in `set_elastic_params`), as the double it is -/
def reltol : ℝ := (3961408125713217 : ℝ) / 39614081257132168796771975168

/-- `term_nan_lame` / `term_nan_poisson` docstrings: the pair is rejected when it "will produce a
NaN value … (to within a small rel. tolerance) due to divide by zero": `x` is within `reltol`
(relative to `s`) of the singular value `s`  (`numpy.isclose(x, s, rtol=reltol, atol=0)`) -/
def NearSingular (x s : ℝ) : Prop := |x - s| ≤ 0 + reltol * |s|

/-- documented admissible pair of elastic parameters (requirements 1 and 2) -/
def DocumentedPair (k₁ k₂ : Kind) (x y : ℝ) : Prop :=
  k₁.GivenOk x ∧ k₂.GivenOk y ∧ PairDefinesPD k₁ k₂ x y

/-- documented admissible problem parameters: `geometry` "3 = spherical" ("Only spherical
geometry (= 3) implemented"), and the three error messages "ref_density / cavity_radius /
pressure_scale parameter is non-positive" -/
def DocumentedProblem (geometry ref_density cavity_radius pressure_scale : ℝ) : Prop :=
  geometry = 3 ∧ 0 < ref_density ∧ 0 < cavity_radius ∧ 0 < pressure_scale

/-! ### the governing equations -/

/-- a field of (r, t) -/
abbrev Field := ℝ → ℝ → ℝ

def dr (f : Field) (r t : ℝ) : ℝ := deriv (fun x => f x t) r
def dt (f : Field) (r t : ℝ) : ℝ := deriv (fun s => f r s) t

/-- residual of the scalar wave equation in spherical coordinates (eq. sphWaveEq, multiplied by c_L²):
`u_tt - c_L² (u_rr + (2/r) u_r - 2u/r²)` -/
def waveRes (u : Field) (cL2 r t : ℝ) : ℝ :=
  dt (dt u) r t - cL2 * (dr (dr u) r t + 2 / r * dr u r t - 2 * u r t / r ^ 2)

/-- isotropic linear elasticity in spherical symmetry, T = λ tr(E) 1 + 2G E -/
def hookeRR (lam G err eqq : ℝ) : ℝ := lam * (err + 2 * eqq) + 2 * G * err
def hookeQQ (lam G err eqq : ℝ) : ℝ := lam * (err + 2 * eqq) + 2 * G * eqq

end

end EPV.Spec.Blake
