/-
Specification (C16, and the black-box-Noh parts of C02/C03): what the black-box Noh solver
needs from an equation-of-state object, and what its Newton iteration is asked to solve.

`eos_library.py` documents the interface (base class `equation_of_state`):

    e(rho, P)        e = e(ρ, P)                 P(rho, e)        P = P(ρ, e)
    de_drho(rho, P)  ∂e/∂ρ at constant P         dP_drho(rho, e)  ∂P/∂ρ at constant e
    de_dP(rho, P)    ∂e/∂P at constant ρ         dP_de(rho, e)    ∂P/∂e at constant ρ

— always with the density as the *first* argument.  The residual classes call the methods
positionally in exactly this order.

The package documentation (`nohblackboxeos/__init__.py`) states the jump conditions the
Newton iteration solves for the shocked state (ρ_L, P_L or e_L) and the shock speed D,

    ρ₀ (1 - u₀/D)^(m+1) = ρ_L ,   P_L = P₀ - ρ_L D u₀ ,   e_L = e₀ + u₀²/2 - u₀ P₀ / (ρ_L D) ,

m = 0, 1, 2 for planar, cylindrical, spherical symmetry.  `StagnationShock` below states
them independently of these formulas: Rankine–Hugoniot (`EPV.Spec.RankineHugoniot`)
between the gas at rest behind the shock and the incoming gas, whose density at the shock
position r = D t is ρ₀ (1 - u₀ t / r)^m = ρ₀ (1 - u₀/D)^m (geometric convergence).
-/
import EPV.Spec.Jump
import Mathlib.LinearAlgebra.Matrix.Notation
import Mathlib.LinearAlgebra.Matrix.Determinant.Basic

namespace EPV.Spec

noncomputable section

/-- an equation-of-state object as the black-box Noh solver sees it: six functions of two
arguments, density first (the argument order documented by `equation_of_state`) -/
structure EOS where
  /-- `e(rho, P)` -/
  e : ℝ → ℝ → ℝ
  /-- `de_drho(rho, P)` -/
  de_drho : ℝ → ℝ → ℝ
  /-- `de_dP(rho, P)` -/
  de_dP : ℝ → ℝ → ℝ
  /-- `P(rho, e)` -/
  P : ℝ → ℝ → ℝ
  /-- `dP_drho(rho, e)` -/
  dP_drho : ℝ → ℝ → ℝ
  /-- `dP_de(rho, e)` -/
  dP_de : ℝ → ℝ → ℝ

/-- the two closures are mutual inverses at density `ρ`: `P(ρ, e(ρ, P)) = P` and `e(ρ, P(ρ, e)) = e` -/
def EOS.InverseAt (s : EOS) (ρ : ℝ) : Prop :=
  (∀ P, s.P ρ (s.e ρ P) = P) ∧ (∀ e, s.e ρ (s.P ρ e) = e)

/-- `de_drho`, `de_dP` are the partial derivatives of the closure `e(ρ, P)` at `(ρ, P)` -/
def EOS.EnergyDerivsAt (s : EOS) (ρ P : ℝ) : Prop :=
  HasDerivAt (fun r => s.e r P) (s.de_drho ρ P) ρ ∧ HasDerivAt (fun q => s.e ρ q) (s.de_dP ρ P) P

/-- `dP_drho`, `dP_de` are the partial derivatives of the closure `P(ρ, e)` at `(ρ, e)` -/
def EOS.PressureDerivsAt (s : EOS) (ρ e : ℝ) : Prop :=
  HasDerivAt (fun r => s.P r e) (s.dP_drho ρ e) ρ ∧ HasDerivAt (fun q => s.P ρ q) (s.dP_de ρ e) e

/-- `J` is the Jacobian matrix of the map `F : ℝ³ → ℝ³` at `(a, b, c)`: every entry is the partial
derivative of the corresponding component with respect to the corresponding unknown -/
def IsJacobian3 (F : ℝ → ℝ → ℝ → Fin 3 → ℝ) (J : Matrix (Fin 3) (Fin 3) ℝ) (a b c : ℝ) : Prop :=
  ∀ i, HasDerivAt (fun r => F r b c i) (J i 0) a ∧ HasDerivAt (fun q => F a q c i) (J i 1) b
    ∧ HasDerivAt (fun d => F a b d i) (J i 2) c

/-- `J` is the Jacobian matrix of the map `F : ℝ² → ℝ²` at `(a, b)` -/
def IsJacobian2 (F : ℝ → ℝ → Fin 2 → ℝ) (J : Matrix (Fin 2) (Fin 2) ℝ) (a b : ℝ) : Prop :=
  ∀ i, HasDerivAt (fun r => F r b i) (J i 0) a ∧ HasDerivAt (fun q => F a q i) (J i 1) b

/-- the initial state of the Noh problem as the residual classes store it -/
structure NohIC where
  /-- `initial_conditions['density']` -/
  rho_0 : ℝ
  /-- `initial_conditions['velocity']` -/
  u_0 : ℝ
  /-- `initial_conditions['pressure']` -/
  P_0 : ℝ

/-- what the constructors of the residual classes accept (for symmetry m ∈ {0,1,2}):
inflow, positive density, non-negative pressure, and zero pressure unless planar -/
def NohIC.Admissible (ic : NohIC) (m : ℕ) : Prop :=
  ic.u_0 < 0 ∧ 0 < ic.rho_0 ∧ 0 ≤ ic.P_0 ∧ (m ≠ 0 → ic.P_0 = 0)

/-- the gas at rest behind the stagnation shock -/
def shockedState (ρ P e : ℝ) : State := ⟨ρ, 0, P, e⟩

/-- the incoming gas immediately ahead of a shock that moves with speed `D` from the origin:
at the shock position r = D t the converging flow has density ρ₀ (1 - u₀ t / r)^m = ρ₀ (1 - u₀/D)^m -/
def incomingState (ic : NohIC) (m : ℕ) (e_0 D : ℝ) : State :=
  ⟨ic.rho_0 * (1 - ic.u_0 / D) ^ m, ic.u_0, ic.P_0, e_0⟩

/-- the three jump conditions at the stagnation shock of the Noh problem in symmetry `m`:
mass, momentum and total energy are conserved between the shocked gas at rest
`(ρ, 0, P, e)` and the incoming gas, across a front moving with speed `D` -/
def StagnationShock (ic : NohIC) (m : ℕ) (e_0 ρ P e D : ℝ) : Prop :=
  RankineHugoniot (shockedState ρ P e) (incomingState ic m e_0 D) D

end

end EPV.Spec
