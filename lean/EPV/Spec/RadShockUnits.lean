/-
Specification (C12, physical units): what the nondimensional constants of the radiative-shock
problem classes MEAN, written from the documentation (`exactpack/solvers/radshocks/__init__.py`,
the attribute comments of `radshock.py`, Lowrie & Rauenzahn 2007 §2) and the physics — not copied
from the code.

Reference scales (upstream state): density ρ₀ (g/cm³), temperature T_ref (eV), velocity c_s, the
upstream sound speed of an ideal gas,  c_s² = γ p/ρ = γ(γ-1) C_v T_ref.  Length scale L = 1 cm.

    ρ = ρ₀ ρ̂    u = c_s û    p = ρ₀ c_s² p̂    e = c_s² ê    T = T_ref T̂
    E_r = a_r T_ref⁴ Ê   (radiation energy density; equilibrium: a_r T⁴)
    P_r = a_r T_ref⁴ P̂   (radiation pressure; Eddington: E_r/3)
    F_r = c a_r T_ref⁴ F̂ (radiation energy flux)

    P₀ = a_r T_ref⁴ / (ρ₀ c_s²)    ("a ratio proportional to the radiation pressure over an ideal kinetic energy")
    C₀ = c / c_s                    ("the ratio of the speed of light to the sound speed")
    σ̂(ρ̂, T̂) = σ₀ ρ̂^a T̂^b          (σ₀ in 1/cm, L = 1 cm; σ_t = σ_a + σ_s)

a_r = 4σ_SB/c = 137.20172 erg cm⁻³ eV⁻⁴ ("the radiation constant in units of erg / cm^3 / eV^4";
CODATA 7.5657·10⁻¹⁵ erg cm⁻³ K⁻⁴ with 1 eV = 11604.5 K), c = 2.99792458·10¹⁰ cm/s.

The physical conservation laws of a steady flow (what C12 is about, in the units of the returned
fields):      ρ u,      ρ u² + p + P_r,      u(½ρu² + ρe + p) + F_r      are constant.
`mom_of_nondim`, `energy_of_nondim` say that these are ρ₀c_s², ρ₀c_s³ times the nondimensional
fluxes of Spec/RadShock.lean **formed with P₀ and C₀ as defined above**; `mom_const_iff` says that a
profile which conserves the nondimensional momentum flux formed with some other constant P₀' does
NOT conserve the physical one (as soon as the radiation temperature varies).
-/
import EPV.Spec.RadShock

set_option linter.all false

namespace EPV.Spec.RadShock

noncomputable section

/-- speed of light, cm/s (exact) -/
def cLight : ℝ := 29979245800

/-- radiation constant a_r = 4σ_SB/c in erg cm⁻³ eV⁻⁴ -/
def radConst : ℝ := 137.20172

/-- the IEEE double nearest to `radConst` (what a program that writes `137.20172` computes with) -/
def radConstF : ℝ := 4827356367707743 / 35184372088832

theorem radConstF_close : |radConstF - radConst| < 1 / 10 ^ 13 := by
  unfold radConstF radConst
  rw [abs_lt]
  constructor <;> norm_num

/-- the CODATA value 7.565733·10⁻¹⁵ erg cm⁻³ K⁻⁴ with 1 eV = 11604.518 K, to 2·10⁻⁶ relative -/
theorem radConst_codata :
    |(7.565733e-15 : ℝ) * 11604.518 ^ 4 - radConst| < 2 / 10 ^ 6 * radConst := by
  unfold radConst
  rw [abs_lt]
  constructor <;> norm_num

/-- c_s² = γ(γ-1) C_v T_ref for admissible (γ(γ-1)C_vT_ref ≥ 0) parameters -/
theorem soundSpeed_sq (γ Cv Tref : ℝ) (h : 0 ≤ γ * (γ - 1) * Cv * Tref) :
    soundSpeed γ Cv Tref ^ 2 = γ * (γ - 1) * Cv * Tref := by
  unfold soundSpeed
  exact Real.sq_sqrt h

/-- P₀ = a_r T_ref⁴ / (ρ₀ c_s²) -/
def physP0 (ar Tref ρ0 cs : ℝ) : ℝ := ar * Tref ^ 4 / (ρ0 * cs ^ 2)

/-- C₀ = c / c_s -/
def physC0 (cs : ℝ) : ℝ := cLight / cs

/-- power-law cross section σ₀ ρ^a T^b (real exponents) -/
def crossSection (σ0 a b ρ T : ℝ) : ℝ := σ0 * ρ ^ a * T ^ b

/-- total cross section: absorption plus scattering, each with ITS OWN exponents -/
def totalCrossSection (σA aA bA σS aS bS ρ T : ℝ) : ℝ :=
  crossSection σA aA bA ρ T + crossSection σS aS bS ρ T

/-! ### physical fluxes -/

/-- total momentum flux ρu² + p + f E_r with E_r = a_r T_r⁴ (f = 1/3: Eddington) -/
def physMomFlux (ar f ρ u p Tr : ℝ) : ℝ := ρ * u ^ 2 + p + f * (ar * Tr ^ 4)

/-- total energy flux u(½ρu² + ρe + p) + F_r -/
def physEnergyFlux (ρ u p e Fr : ℝ) : ℝ := u * (ρ * u ^ 2 / 2 + ρ * e + p) + Fr

/-- total energy flux of an equilibrium state: F_r = (4/3) a_r T⁴ u (advected radiation enthalpy) -/
def physEnergyFluxEq (ar ρ u p e T : ℝ) : ℝ := physEnergyFlux ρ u p e (4 / 3 * (ar * T ^ 4) * u)

/-- nondimensional total momentum flux with a given Eddington factor f (f = 1/3 is `momFlux`) -/
def momFluxF (P0 f ρ v p T : ℝ) : ℝ := ρ * v ^ 2 + p + P0 * f * T ^ 4

theorem momFluxF_third (γ P0 ρ T v : ℝ) : momFluxF P0 (1 / 3) ρ v (ρ * T / γ) T = momFlux γ P0 ρ T v := by
  unfold momFluxF momFlux; ring

/-- the physical momentum flux of the dimensionalised state is ρ₀c_s² × the nondimensional one
formed with P₀ = a_r T_ref⁴/(ρ₀c_s²) -/
theorem mom_of_nondim (ar f ρ0 cs Tref ρ v p T : ℝ) (hρ : ρ0 ≠ 0) (hc : cs ≠ 0) :
    physMomFlux ar f (ρ0 * ρ) (cs * v) (ρ0 * cs ^ 2 * p) (Tref * T)
      = ρ0 * cs ^ 2 * momFluxF (physP0 ar Tref ρ0 cs) f ρ v p T := by
  unfold physMomFlux momFluxF physP0
  field_simp

/-- the physical energy flux of the dimensionalised state, with F_r = c a_r T_ref⁴ F̂, is ρ₀c_s³ × the
nondimensional one formed with P₀ and C₀ as specified -/
theorem energy_of_nondim (ar ρ0 cs Tref ρ v p e F : ℝ) (hρ : ρ0 ≠ 0) (hc : cs ≠ 0) :
    physEnergyFlux (ρ0 * ρ) (cs * v) (ρ0 * cs ^ 2 * p) (cs ^ 2 * e) (cLight * ar * Tref ^ 4 * F)
      = ρ0 * cs ^ 3 * (v * (ρ * v ^ 2 / 2 + ρ * e + p) + physP0 ar Tref ρ0 cs * physC0 cs * F) := by
  unfold physEnergyFlux physP0 physC0
  field_simp

/-- **why the constant matters**: two nodes of a profile that conserves the nondimensional momentum
flux formed with a constant P₀'.  If the radiation temperature differs between them, the PHYSICAL
momentum flux is the same at both iff P₀' is the specified P₀. -/
theorem mom_const_iff (ar f ρ0 cs Tref P0' ρ₁ v₁ p₁ T₁ ρ₂ v₂ p₂ T₂ : ℝ) (hρ : ρ0 ≠ 0) (hc : cs ≠ 0)
    (hf : f ≠ 0) (hT : T₁ ^ 4 ≠ T₂ ^ 4)
    (hsolver : momFluxF P0' f ρ₁ v₁ p₁ T₁ = momFluxF P0' f ρ₂ v₂ p₂ T₂) :
    physMomFlux ar f (ρ0 * ρ₁) (cs * v₁) (ρ0 * cs ^ 2 * p₁) (Tref * T₁)
        = physMomFlux ar f (ρ0 * ρ₂) (cs * v₂) (ρ0 * cs ^ 2 * p₂) (Tref * T₂)
      ↔ P0' = physP0 ar Tref ρ0 cs := by
  rw [mom_of_nondim _ _ _ _ _ _ _ _ _ hρ hc, mom_of_nondim _ _ _ _ _ _ _ _ _ hρ hc]
  have hk : ρ0 * cs ^ 2 ≠ 0 := mul_ne_zero hρ (pow_ne_zero 2 hc)
  generalize physP0 ar Tref ρ0 cs = P0
  unfold momFluxF at *
  have hd : T₁ ^ 4 - T₂ ^ 4 ≠ 0 := sub_ne_zero.mpr hT
  constructor
  · intro h
    have h2 := mul_left_cancel₀ hk h
    have : (P0 - P0') * f * (T₁ ^ 4 - T₂ ^ 4) = 0 := by linear_combination h2 - hsolver
    rcases mul_eq_zero.mp this with h3 | h3
    · rcases mul_eq_zero.mp h3 with h4 | h4
      · linarith
      · exact absurd h4 hf
    · exact absurd h3 hd
  · rintro rfl
    rw [hsolver]

/-! ### one object, many calls

`run σ i = (σ', o)`: a call with input `i` on an object in state `σ` (attribute ↦ value) returns the
output `o` and leaves the object in state `σ'`.  `Frame run R W`: the output depends only on the
attributes in `R` and only attributes in `W` are changed. -/

section Frame

variable {Attr Val In Out : Type}

structure Frame (run : (Attr → Val) → In → (Attr → Val) × Out) (R W : Attr → Prop) : Prop where
  reads : ∀ σ σ' i, (∀ a, R a → σ a = σ' a) → (run σ i).2 = (run σ' i).2
  writes : ∀ σ i a, ¬ W a → (run σ i).1 a = σ a

/-- the state after a sequence of calls -/
def after (run : (Attr → Val) → In → (Attr → Val) × Out) (σ : Attr → Val) : List In → (Attr → Val)
  | [] => σ
  | i :: is => after run (run σ i).1 is

/-- **history independence**: if no attribute that is read is ever written, the answer to a request
does not depend on the calls made before it — it is the answer of the fresh object -/
theorem history_independent (run : (Attr → Val) → In → (Attr → Val) × Out) (R W : Attr → Prop)
    (hF : Frame run R W) (hdisj : ∀ a, R a → ¬ W a) (σ : Attr → Val) (hist : List In) (i : In) :
    (run (after run σ hist) i).2 = (run σ i).2 := by
  have key : ∀ (hist : List In) (σ' : Attr → Val), (∀ a, R a → σ' a = σ a) →
      ∀ a, R a → after run σ' hist a = σ a := by
    intro hist
    induction hist with
    | nil => intro σ' h a ha; exact h a ha
    | cons j js ih =>
      intro σ' h a ha
      apply ih (run σ' j).1 _ a ha
      intro b hb
      rw [hF.writes σ' j b (hdisj b hb)]
      exact h b hb
  exact hF.reads _ _ i (fun a ha => key hist σ (fun _ _ => rfl) a ha)

end Frame

end

end EPV.Spec.RadShock
