/-
Specification (C02): the Rankine–Hugoniot conditions at a moving discontinuity of a
one-dimensional compressible flow in planar, cylindrical or spherical symmetry.

For the conservation laws

    (r^k ρ)_t + (r^k ρ u)_r = 0
    (r^k ρ u)_t + (r^k (ρ u² + p))_r = k r^(k-1) p
    (r^k ρ E)_t + (r^k u (ρ E + p))_r = 0 ,      E = e + u²/2 ,

a weak solution that is smooth on either side of a curve r = X(t) must satisfy, with
D = X'(t) and [q] = q₊ - q₋ the difference of the one-sided limits at r = X(t),

    [ρ (u - D)] = 0
    [ρ (u - D) u + p] = 0
    [ρ (u - D) (e + u²/2) + p u] = 0 .

The geometric factor r^k is continuous across the curve and the geometric source term is
bounded, so neither contributes: the conditions are the same for k = 0, 1, 2 (and for
every real k).  At a contact discontinuity no mass crosses (D = u on both sides) and the
conditions reduce to  [p] = 0, [u] = 0.

The property text asks for the speed "as implied by where the solver places [the
discontinuity] at neighbouring times": D is therefore *defined* here as the time
derivative (`HasDerivAt`) of the coded position X, never taken from a formula of the
documentation.
-/
import EPV.Support

namespace EPV.Spec

noncomputable section

open Filter Topology

/-- the hydrodynamic state on one side of a discontinuity -/
structure State where
  ρ : ℝ
  u : ℝ
  p : ℝ
  e : ℝ

/-- mass flux through a surface moving with speed `D` -/
def State.massFlux (s : State) (D : ℝ) : ℝ := s.ρ * (s.u - D)
/-- momentum flux through a surface moving with speed `D` -/
def State.momFlux (s : State) (D : ℝ) : ℝ := s.ρ * (s.u - D) * s.u + s.p
/-- total-energy flux through a surface moving with speed `D` -/
def State.energyFlux (s : State) (D : ℝ) : ℝ := s.ρ * (s.u - D) * (s.e + s.u ^ 2 / 2) + s.p * s.u

/-- Rankine–Hugoniot: mass, momentum and total energy are conserved across a discontinuity
that separates the states `a` and `b` and moves with speed `D` -/
def RankineHugoniot (a b : State) (D : ℝ) : Prop :=
  a.massFlux D = b.massFlux D ∧ a.momFlux D = b.momFlux D ∧ a.energyFlux D = b.energyFlux D

/-- contact discontinuity: equal pressure and normal velocity, and the surface moves with the fluid -/
def Contact (a b : State) (D : ℝ) : Prop := a.p = b.p ∧ a.u = b.u ∧ D = a.u

/-- a contact conserves mass, momentum and energy (no flux crosses it) -/
theorem Contact.rankineHugoniot {a b : State} {D : ℝ} (h : Contact a b D) : RankineHugoniot a b D := by
  obtain ⟨hp, hu, hD⟩ := h
  subst hD
  simp only [RankineHugoniot, State.massFlux, State.momFlux, State.energyFlux, ← hu, hp, sub_self]
  simp

/-- the state assembled from four fields at one point and time -/
def stateAt (ρ u p e : ℝ → ℝ → ℝ) (r t : ℝ) : State := ⟨ρ r t, u r t, p r t, e r t⟩

/-- **Leaf form.**  A solution given by the closed-form branch `inner` for `r < X t` and the
closed-form branch `outer` for `r ≥ X t` conserves mass, momentum and energy across
`r = X t`: the position `X` has time derivative `D` at `t` and the two branch expressions,
evaluated at `r = X t`, satisfy Rankine–Hugoniot with that `D`.  (When both branch
expressions are continuous in `r` at `X t` their values there are the one-sided limits of
the returned fields — `sideLimits_of_piecewise` below.) -/
def ShockJump (inner outer : ℝ → ℝ → State) (X : ℝ → ℝ) (D t : ℝ) : Prop :=
  HasDerivAt X D t ∧ RankineHugoniot (inner (X t) t) (outer (X t) t) D

/-- the four returned fields have the one-sided limits `a` (from `r < x`) and `b` (from
`r > x`) at position `x`, time `t`: "the states returned immediately on either side" -/
def HasSideStates (ρ u p e : ℝ → ℝ → ℝ) (x t : ℝ) (a b : State) : Prop :=
  (Tendsto (fun r => ρ r t) (𝓝[<] x) (𝓝 a.ρ) ∧ Tendsto (fun r => u r t) (𝓝[<] x) (𝓝 a.u) ∧
   Tendsto (fun r => p r t) (𝓝[<] x) (𝓝 a.p) ∧ Tendsto (fun r => e r t) (𝓝[<] x) (𝓝 a.e)) ∧
  (Tendsto (fun r => ρ r t) (𝓝[>] x) (𝓝 b.ρ) ∧ Tendsto (fun r => u r t) (𝓝[>] x) (𝓝 b.u) ∧
   Tendsto (fun r => p r t) (𝓝[>] x) (𝓝 b.p) ∧ Tendsto (fun r => e r t) (𝓝[>] x) (𝓝 b.e))

/-- **Full statement of C02 for one discontinuity** of the returned fields `ρ u p e`,
placed by the solver at `r = X t`: the one-sided limits of the returned fields exist, the
placement is differentiable in time, and limits and speed satisfy Rankine–Hugoniot. -/
def ConservesAcross (ρ u p e : ℝ → ℝ → ℝ) (X : ℝ → ℝ) (t : ℝ) : Prop :=
  ∃ a b : State, ∃ D : ℝ, HasSideStates ρ u p e (X t) t a b ∧ HasDerivAt X D t ∧ RankineHugoniot a b D

/-- one-sided limits of a function defined by two branches, each continuous at the switch point -/
theorem sideLimits_of_piecewise {f a b : ℝ → ℝ} {x : ℝ}
    (hf : ∀ r, f r = if r < x then a r else b r) (ha : ContinuousAt a x) (hb : ContinuousAt b x) :
    Tendsto f (𝓝[<] x) (𝓝 (a x)) ∧ Tendsto f (𝓝[>] x) (𝓝 (b x)) := by
  constructor
  · refine (ha.tendsto.mono_left nhdsWithin_le_nhds).congr' ?_
    filter_upwards [self_mem_nhdsWithin] with r hr
    rw [hf r, if_pos (Set.mem_Iio.mp hr)]
  · refine (hb.tendsto.mono_left nhdsWithin_le_nhds).congr' ?_
    filter_upwards [self_mem_nhdsWithin] with r hr
    rw [hf r, if_neg (not_lt.mpr (le_of_lt (Set.mem_Ioi.mp hr)))]

/-- from the leaf form to the full statement: if each returned field is the `inner` branch
for `r < X t` and the `outer` branch otherwise, and the branch expressions are continuous
in `r` at `X t`, then `ShockJump` gives `ConservesAcross`. -/
theorem ConservesAcross.of_shockJump {ρ u p e : ℝ → ℝ → ℝ} {iρ iu ip ie oρ ou op oe : ℝ → ℝ → ℝ}
    {X : ℝ → ℝ} {D t : ℝ}
    (hρ : ∀ r, ρ r t = if r < X t then iρ r t else oρ r t)
    (hu : ∀ r, u r t = if r < X t then iu r t else ou r t)
    (hp : ∀ r, p r t = if r < X t then ip r t else op r t)
    (he : ∀ r, e r t = if r < X t then ie r t else oe r t)
    (ciρ : ContinuousAt (fun r => iρ r t) (X t)) (ciu : ContinuousAt (fun r => iu r t) (X t))
    (cip : ContinuousAt (fun r => ip r t) (X t)) (cie : ContinuousAt (fun r => ie r t) (X t))
    (coρ : ContinuousAt (fun r => oρ r t) (X t)) (cou : ContinuousAt (fun r => ou r t) (X t))
    (cop : ContinuousAt (fun r => op r t) (X t)) (coe : ContinuousAt (fun r => oe r t) (X t))
    (h : ShockJump (stateAt iρ iu ip ie) (stateAt oρ ou op oe) X D t) :
    ConservesAcross ρ u p e X t := by
  refine ⟨stateAt iρ iu ip ie (X t) t, stateAt oρ ou op oe (X t) t, D, ?_, h.1, h.2⟩
  have h1 := sideLimits_of_piecewise (f := fun r => ρ r t) hρ ciρ coρ
  have h2 := sideLimits_of_piecewise (f := fun r => u r t) hu ciu cou
  have h3 := sideLimits_of_piecewise (f := fun r => p r t) hp cip cop
  have h4 := sideLimits_of_piecewise (f := fun r => e r t) he cie coe
  exact ⟨⟨h1.1, h2.1, h3.1, h4.1⟩, ⟨h1.2, h2.2, h3.2, h4.2⟩⟩

end

end EPV.Spec
