/-
Specification (C20, work package `c20rest`): the catalogue of DOCUMENTED restrictions on the constructor
parameters of the solver classes that had no `accepts ↔ Documented` theorem yet — every restriction
stated in a parameter help string, a class or module docstring or an error message, with the source
text quoted next to the conjunct that formalises it.

"Every documented restriction on a solver's parameters (admissible geometry values, sign and range of
velocities, densities, gammas, radii, angles, ordering of detonation times, …) is enforced by a
ValueError at construction."

`<Solver>.Documented p` is stated over the parameter structure of the traced constructor model
`EPV.Gen.Init<Solver>` (the parameters `__init__` reads).  `<Solver>.Coded p` is what the constructor
enforces where that differs (then `accepts ↔ Coded`, `Documented → Coded`, and the converse is refuted
at the boundary witness in a `Finding…` module).

Where two pieces of documentation disagree the catalogue follows the sentence that says "must" /
"is assumed to satisfy" in the class docstring, and the disagreement is quoted:

  * `alpha` of RateStick / ExplosiveArc: class docstring "The linear coefficient, α, of detonation
    velocity deviance must also be positive."; error message "Alpha must be >= 0".  The docstring is the
    one the solver needs: `_run` computes `dt = 0.8 * (0.5 * dx**2.0 / self.alpha)`, so α = 0 is a
    ZeroDivisionError at the first call.  (For `CylindricalExpansion`, work package `burn`, the same
    pair of sentences was read as α ≥ 0 because α = 0 is harmless there.)
  * `omega_out` of ExplosiveArc: class docstring "For the confined case, ω_c is assumed to satisfy
    ω_s < ω_c < π/2" (strict) or ω_out = π/2 for a fixed boundary; error message "Outer DSD edge angle
    must be >= inner DSD edge angle".
  * RateStick, IC = 1: the class docstring says r_d ≥ R / cos ω_c (and so does the code); the module
    docstring prints the same condition as "r_d >= R / ω_c" — a typo of the module docstring (its own
    IC = 2 paragraph uses r_d = R / cos ω_c "which clearly satisfies the initial angle condition").

What is NOT in the catalogue, on purpose (no sentence states it as a restriction; recorded as
observations in the work-package report): SuOlson α ≠ 0, opacity ≥ 0; Hutchens 1/2, Rectangle,
CylindricalSandwich lengths > 0, a < b; Mader γ ≠ 1, d_cj ≠ 0; Riemann ρ, p > 0, γ ≠ 1, ordering
xmin < xd0 < xmax; 2-D Riemann supersonic inflow.
-/
import EPV.Gen.InitRateStick
import EPV.Gen.InitExplosiveArc
import EPV.Gen.InitSuOlson
import EPV.Gen.InitHutchens1
import EPV.Gen.InitHutchens2
import EPV.Gen.InitRectangle
import EPV.Gen.InitCylSandwich
import EPV.Gen.InitMaderT
import EPV.Gen.InitRiemIGEOS
import EPV.Gen.InitRiemGenEOS
import EPV.Gen.InitRiem2D
import EPV.Gen.InitBBNoh
import EPV.Gen.InitBBNohPlanar
import EPV.Gen.InitBBNohCyl
import EPV.Gen.InitBBNohSph
import EPV.Gen.InitResEnergy
import EPV.Gen.InitResSEnergy
import EPV.Gen.InitResPressure
import EPV.Gen.InitResSPressure

set_option linter.unusedVariables false

namespace EPV.Spec.AdmissibleRest

open EPV.Gen

/-! ### DSD rate stick (`exactpack/solvers/dsd/ratestick.py`) -/

/-- RateStick: every documented restriction on the constructor's parameters -/
def RateStick.Documented (p : InitRateStick.P) : Prop :=
  -- parameters: 'geometry': "1=planar, 2=cylindrical"
  -- __init__:   raise ValueError("geometry must be 1 or 2")            (test_geometry_error)
  (p.geometry = 1 ∨ p.geometry = 2) ∧
  -- __init__:   raise ValueError('Radius/thickness must be > 0')        (test_radius_neg_error, test_radius_zero_error)
  0 < p.R ∧
  -- class docstring: "The edge angle, ω_c is assumed to satisfy 0 < ω_c < π/2."
  -- __init__:   'DSD edge angle must be > 0' / 'DSD edge angle must be < pi/2'   (test_omega_C_{neg,zero,big,top}_error)
  0 < p.omega_c ∧ p.omega_c < Real.pi / 2 ∧
  -- class docstring: "The nominal detonation velocity of the HE, D_CJ, must be positive."
  -- __init__:   raise ValueError('Detonation velocity must be > 0')      (test_D_CJ_{neg,zero}_error)
  0 < p.D_CJ ∧
  -- class docstring: "The linear coefficient, α, of detonation velocity deviance must also be positive."
  -- (__init__ says 'Alpha must be >= 0', test_alpha_neg_error; see the header)
  0 < p.alpha ∧
  -- parameters: 'IC': "initial condition (see descriptions)" — module docstring: cases IC = 1, 2, 3
  -- __init__:   raise ValueError('IC must be 1, 2 or 3')                 (test_IC_error)
  (p.IC = 1 ∨ p.IC = 2 ∨ p.IC = 3) ∧
  -- class docstring: "if IC = 1, the radius of the detonation front, r_d, and the radius/thickness of the HE, R,
  --                  must satisfy the condition r_d >= R / cos(ω_c)."
  -- __init__:   raise ValueError('Detonation radius must satisfy edge angle condition')   (test_IC1limit_error)
  (p.IC = 1 → p.R / Real.cos p.omega_c ≤ p.r_d) ∧
  -- __init__:   raise ValueError('Final time must be positive')           (test_t_f_{neg,zero}_error)
  0 < p.t_f ∧
  -- class docstring: "the user must input the number of nodes in the x-direction, xnodes, and the number of nodes in
  --                  the y-direction, ynodes"; defaults "xnodes = 0  # must be changed by user"
  -- __init__:   'Number of x-nodes must be specified' / 'Number of y-nodes must be specified'   (test_{x,y}nodes_{neg,zero}_error)
  0 < p.xnodes ∧ 0 < p.ynodes

/-- what the constructor of RateStick enforces: the same with α ≥ 0 -/
def RateStick.Coded (p : InitRateStick.P) : Prop :=
  (p.geometry = 1 ∨ p.geometry = 2) ∧ 0 < p.R ∧ 0 < p.omega_c ∧ p.omega_c < Real.pi / 2 ∧ 0 < p.D_CJ ∧
  0 ≤ p.alpha ∧ (p.IC = 1 ∨ p.IC = 2 ∨ p.IC = 3) ∧ (p.IC = 1 → p.R / Real.cos p.omega_c ≤ p.r_d) ∧
  0 < p.t_f ∧ 0 < p.xnodes ∧ 0 < p.ynodes

/-! ### DSD explosive arc (`exactpack/solvers/dsd/explosivearc.py`) -/

/-- ExplosiveArc: every documented restriction on the constructor's parameters -/
def ExplosiveArc.Documented (p : InitExplosiveArc.P) : Prop :=
  -- parameters: 'geometry': "1=planar"
  -- __init__:   raise ValueError("geometry must be 1")                   (test_geometry_error)
  p.geometry = 1 ∧
  -- class docstring: "The HE semi-annulus is assumed to lie in the region r_1 <= r <= r_2"
  -- __init__:   'Inner radius must be > 0' / 'Outer radius must be > 0' / 'Outer radius must be larger than inner radius'
  --             (test_r1_{neg,zero}_error, test_r2_{neg,zero,smaller}_error)
  0 < p.r_1 ∧ 0 < p.r_2 ∧ p.r_1 < p.r_2 ∧
  -- class docstring: "the sonic angle is assumed to satisfy 0 < ω_s < π/2"
  -- __init__:   'Inner DSD edge angle must be > 0' / 'Inner DSD edge angle must be < pi/2'   (test_omegain_*_error)
  0 < p.omega_in ∧ p.omega_in < Real.pi / 2 ∧
  -- class docstring: "either confined by a material, in which case … ω_out = ω_c, or a fixed boundary, in which case
  --                  the DSD edge angle is ω_out = π/2.  For the confined case, ω_c is assumed to satisfy ω_s < ω_c < π/2."
  -- (__init__ says 'Outer DSD edge angle must be >= inner DSD edge angle', test_omegaout_min_error; see the header)
  -- __init__:   raise ValueError('Outer DSD edge angle must be <= pi/2')   (test_omegaout_max_error)
  p.omega_in < p.omega_out ∧ p.omega_out ≤ Real.pi / 2 ∧
  -- class docstring: "the x-coordinate of the detonator position, x_d, is assumed to be negative"
  -- __init__:   raise ValueError('Detonator position must be < 0')        (test_detloc_{zero,pos}_error)
  p.x_d < 0 ∧
  -- class docstring: "The nominal detonation velocity of the HE, D_CJ, must be positive."
  -- __init__:   raise ValueError('Detonation velocity must be > 0')       (test_D_CJ_{neg,zero}_error)
  0 < p.D_CJ ∧
  -- class docstring: "The linear coefficient, α, of detonation velocity deviance must also be positive."
  -- (__init__ says 'Alpha must be >= 0', test_alpha_neg_error; see the header)
  0 < p.alpha ∧
  -- __init__:   raise ValueError('Final time must be positive')            (test_t_f_{neg,zero}_error)
  0 < p.t_f ∧
  -- class docstring: "the user must input the number of nodes in the x-direction, xnodes, and … ynodes"
  -- __init__:   'Number of x-nodes must be specified' / 'Number of y-nodes must be specified'
  0 < p.xnodes ∧ 0 < p.ynodes

/-- what the constructor of ExplosiveArc enforces: the same with ω_in ≤ ω_out and α ≥ 0 -/
def ExplosiveArc.Coded (p : InitExplosiveArc.P) : Prop :=
  p.geometry = 1 ∧ 0 < p.r_1 ∧ 0 < p.r_2 ∧ p.r_1 < p.r_2 ∧ 0 < p.omega_in ∧ p.omega_in < Real.pi / 2 ∧
  p.omega_in ≤ p.omega_out ∧ p.omega_out ≤ Real.pi / 2 ∧ p.x_d < 0 ∧ 0 < p.D_CJ ∧ 0 ≤ p.alpha ∧ 0 < p.t_f ∧
  0 < p.xnodes ∧ 0 < p.ynodes

/-! ### black-box Noh (`exactpack/solvers/nohblackboxeos/blackboxnoh.py`, `solution_tools/residual_functions.py`) -/

/-- NohBlackBoxEos: every documented restriction on the constructor's arguments.  `u0` is an argument of its own
because the traced constructor model has no field for it (no condition of `__init__` reads it). -/
def BBNoh.Documented (p : InitBBNoh.P) (u0 : ℝ) : Prop :=
  -- parameters: 'geometry': "1=planar, 2=cylindrical, 3=spherical"
  -- __init__:   raise ValueError("geometry must be 1, 2, or 3")
  (p.geometry = 1 ∨ p.geometry = 2 ∨ p.geometry = 3) ∧
  -- parameters: 'u0': "incident velocity (negative)"      (the same help string as `Noh`, which enforces it)
  u0 < 0 ∧
  -- pressure_noh_residual.__init__ (initial_conditions['velocity']):
  --   raise ValueError("Error: initial velocity must be negative by assumptions of the Noh Problem.")
  p.ic_velocity < 0 ∧
  --   raise ValueError("Error: initial density must be postive and nonzero.")
  0 < p.ic_density ∧
  --   raise ValueError("Error: initial pressure must be nonnegative for the Noh Problem.")
  0 ≤ p.ic_pressure ∧
  --   raise ValueError("Error: Symmetry must be 0, 1, or 2.")
  (p.ic_symmetry = 0 ∨ p.ic_symmetry = 1 ∨ p.ic_symmetry = 2) ∧
  --   raise ValueError("Error: if `symmetry' != 0, then the initial pressure must be 0.")
  (p.ic_symmetry ≠ 0 → p.ic_pressure = 0)

/-- what the constructor of NohBlackBoxEos enforces: everything but the sign of `u0` -/
def BBNoh.Coded (p : InitBBNoh.P) : Prop :=
  (p.geometry = 1 ∨ p.geometry = 2 ∨ p.geometry = 3) ∧ p.ic_velocity < 0 ∧ 0 < p.ic_density ∧ 0 ≤ p.ic_pressure ∧
  (p.ic_symmetry = 0 ∨ p.ic_symmetry = 1 ∨ p.ic_symmetry = 2) ∧ (p.ic_symmetry ≠ 0 → p.ic_pressure = 0)

/-- what the two general residual classes (`energy_noh_residual`, `pressure_noh_residual`) state about
`initial_conditions`, in their error messages:
  "Error: initial velocity must be negative by assumptions of the Noh Problem."
  "Error: initial density must be postive and nonzero."
  "Error: initial pressure must be nonnegative for the Noh Problem."
  "Error: Symmetry must be 0, 1, or 2."
  "Error: if `symmetry' != 0, then the initial pressure must be 0."  -/
def NohIC (velocity density pressure symmetry : ℝ) : Prop :=
  velocity < 0 ∧ 0 < density ∧ 0 ≤ pressure ∧ (symmetry = 0 ∨ symmetry = 1 ∨ symmetry = 2) ∧
  (symmetry ≠ 0 → pressure = 0)

/-- the two simplified residual classes (package docstring: "`simplified_energy_noh_residual` should only be used if the
Noh problem is being posed in planar geometry and the initial pressure is zero"; error messages "This residual assumes
the initial pressure is 0.", "This residual assumes symmetry = 0.") -/
def NohICSimplified (velocity density pressure symmetry : ℝ) : Prop :=
  velocity < 0 ∧ 0 < density ∧ pressure = 0 ∧ symmetry = 0

def ResEnergy.Documented (p : InitResEnergy.P) : Prop := NohIC p.ic_velocity p.ic_density p.ic_pressure p.ic_symmetry
def ResPressure.Documented (p : InitResPressure.P) : Prop := NohIC p.ic_velocity p.ic_density p.ic_pressure p.ic_symmetry
def ResSEnergy.Documented (p : InitResSEnergy.P) : Prop :=
  NohICSimplified p.ic_velocity p.ic_density p.ic_pressure p.ic_symmetry
def ResSPressure.Documented (p : InitResSPressure.P) : Prop :=
  NohICSimplified p.ic_velocity p.ic_density p.ic_pressure p.ic_symmetry

/-- the geometry wrappers set `symmetry` themselves (0, 1, 2) and take no keyword: the restrictions are those of
`pressure_noh_residual` on the remaining three entries -/
def BBNohPlanar.Documented (p : InitBBNohPlanar.P) : Prop := NohIC p.ic_velocity p.ic_density p.ic_pressure 0
def BBNohCyl.Documented (p : InitBBNohCyl.P) : Prop := NohIC p.ic_velocity p.ic_density p.ic_pressure 1
def BBNohSph.Documented (p : InitBBNohSph.P) : Prop := NohIC p.ic_velocity p.ic_density p.ic_pressure 2

/-! ### classes whose documentation states no restriction on any parameter -/

/-- SuOlson: 'trad_bc_ev': "radiation boundary condition", 'opac': "constant opacity κ₀", 'alpha': "coefficient α …
for the specific heat (α = 4a)" — no range, sign or "must" anywhere (class and package docstring). -/
def SuOlson.Documented (p : InitSuOlson.P) : Prop := True

/-- Hutchens1: 'k', 'cp', 'rho', 'Tb', 'T0', 'Nsum', 'b' — units only ("thermal conductivity [erg/s-cm-eV]", …,
"Radius of the sphere [cm]"); no restriction is stated. -/
def Hutchens1.Documented (p : InitHutchens1.P) : Prop := True

/-- Hutchens2: 'k', 'g0', 'Tb', 'T0', 'TL', 'Nsum', 'b', 'L' — units only; no restriction is stated. -/
def Hutchens2.Documented (p : InitHutchens2.P) : Prop := True

/-- Rectangle: 'kappa', 'Nsum', 'a', 'b', 'Ttop', 'NonHomogeneousOnly' — no restriction is stated. -/
def Rectangle.Documented (p : InitRectangle.P) : Prop := True

/-- CylindricalSandwich: 'kappa', 'a': "Inner radius of annulus", 'b': "Outer radius of annulus", 'T1', 'T0', 'Nsum',
'Msum', 'NonHomogeneousOnly' — no restriction is stated ("# fragile: n <= 20" is a code comment). -/
def CylSandwich.Documented (p : InitCylSandwich.P) : Prop := True

/-- Mader (`mader/timmes.py`): 'p_cj', 'd_cj', 'gamma', 'u_piston' — no restriction is stated. -/
def MaderT.Documented (p : InitMaderT.P) : Prop := True

/-- 1-D Riemann wrappers (`riemann/ep_riemann.py`): positions, states, adiabatic indices, JWL constants, grid sizes:
no range or sign is stated in any help string.  ('problem': "Default is 'igeos'; 'JWL' is currently an option." is an
enumerated flag; a string has no place in the real-valued structure — see `FindingRestFlags`.) -/
def RiemIGEOS.Documented (p : InitRiemIGEOS.P) : Prop := True
def RiemGenEOS.Documented (p : InitRiemGenEOS.P) : Prop := True

/-- 2-D steady Riemann wrapper: 'bottom_state', 'top_state': "List of values for pressure, density, Mach number, flow
angle in degrees, and the adiabatic index", 't' — no restriction is stated. -/
def Riem2D.Documented (p : InitRiem2D.P) : Prop := True

end EPV.Spec.AdmissibleRest
