/-
Specification (C08), hand tables for the closed-form hydro solvers: the dimension of every parameter of Noh,
Noh2, Noh2Cog and of the Coggeshall solvers whose constants are all parameters, quoted from the docstrings
(`<solver>SP σ p` re-expresses the parameter set `p` in the units `σ`), and the statement of the property for a
solver that returns the standard hydro fields.

Common to all Coggeshall solvers: the equation of state p = Γ ρ T gives [Γ] = L² T⁻² Θ⁻¹; γ, the geometry flag and
the exponents b, α, β are pure numbers; the symbols `a_rad`, `c_light`, `lam0_`, `alpha_`, `beta_` of the generated
structures belong to the derived heat-flux quantity of C01, are not read by any returned field and are left alone.

EXCLUDED, as the property says ("Coggeshall solutions without built-in radiation constants"): Cog10, Cog13, Cog14,
Cog16 and Cog17 hard-wire `c = 2.997e10` [cm/s] and `a = 1.3720e+02` [erg cm⁻³ eV⁻⁴] in `_run`.
-/
import EPV.Gen.Noh
import EPV.Gen.Noh2
import EPV.Gen.Noh2Cog
import EPV.Gen.Cog1
import EPV.Gen.Cog2
import EPV.Gen.Cog3
import EPV.Gen.Cog4
import EPV.Gen.Cog5
import EPV.Gen.Cog6
import EPV.Gen.Cog7
import EPV.Gen.Cog8
import EPV.Gen.Cog9
import EPV.Gen.Cog11
import EPV.Gen.Cog12
import EPV.Gen.Cog18
import EPV.Gen.Cog19
import EPV.Gen.Cog20
import EPV.Gen.Cog21
import EPV.Spec.Units

set_option linter.all false

open EPV EPV.Gen EPV.Spec

namespace EPV.Spec.UnitsHydro

/-- C08 for a solver returning (position, density, velocity, pressure, specific internal energy) -/
def CovariantGas {P : Type} (sp : Scaling → P → P) (A : Scaling → P → ℝ → ℝ → Prop)
    (pos ρ u pr e : P → ℝ → ℝ → ℝ) (leaf : P → ℝ → ℝ → ℕ) (out : P → ℝ → ℝ → EPV.Out) : Prop :=
  UnitCovariant sp pos Dim.length A ∧ UnitCovariant sp ρ Dim.density A ∧ UnitCovariant sp u Dim.velocity A ∧
  UnitCovariant sp pr Dim.pressure A ∧ UnitCovariant sp e Dim.sie A ∧
  SameBranch sp leaf A ∧ SameBranch sp out A

/-- C08 for a Coggeshall solver: (position, density, velocity, temperature, pressure, sie) -/
def CovariantCog {P : Type} (sp : Scaling → P → P) (A : Scaling → P → ℝ → ℝ → Prop)
    (pos ρ u T pr e : P → ℝ → ℝ → ℝ) (leaf : P → ℝ → ℝ → ℕ) (out : P → ℝ → ℝ → EPV.Out) : Prop :=
  UnitCovariant sp pos Dim.length A ∧ UnitCovariant sp ρ Dim.density A ∧ UnitCovariant sp u Dim.velocity A ∧
  UnitCovariant sp T Dim.temperature A ∧ UnitCovariant sp pr Dim.pressure A ∧ UnitCovariant sp e Dim.sie A ∧
  SameBranch sp leaf A ∧ SameBranch sp out A

/-- changes of units that leave the unit of time alone -/
def FixedTime {P : Type} : Scaling → P → ℝ → ℝ → Prop := fun σ _ _ _ => σ.T = 1

/-- Noh: "rho0: density", "u0: incident velocity (negative)"; γ and the geometry flag are pure numbers -/
noncomputable def nohSP (σ : Scaling) (p : Noh.P) : Noh.P :=
  { p with rho0 := scale σ Dim.density p.rho0, u0 := scale σ Dim.velocity p.u0 }

/-- Noh2: "rho0: initial density", "e0: initial internal energy" (per mass) -/
noncomputable def noh2SP (σ : Scaling) (p : Noh2.P) : Noh2.P :=
  { p with rho0 := scale σ Dim.density p.rho0, e0 := scale σ Dim.sie p.e0 }

/-- Noh2Cog (Noh2 through Cog1 with the class constants b = 0, Γ = 1): "rho0: initial density", "e0: initial
internal energy".  Because Γ = 1 is hard-wired, the returned `temperature` T = e₀ (γ-1) (1-t)^(…) is an energy
per mass. -/
noncomputable def noh2cogSP (σ : Scaling) (p : Noh2Cog.P) : Noh2Cog.P :=
  { p with rho0 := scale σ Dim.density p.rho0, e0 := scale σ Dim.sie p.e0 }

/-- Cog1: ρ = ρ₀ r^b t^(-b-k-1),  T = T₀ r^(-b) t^(b-(γ-1)(k+1))  ⇒  [ρ₀] = [ρ] L^(-b) T^(b+k+1),  [T₀] = Θ L^b T^(-(b-(γ-1)(k+1))) -/
noncomputable def cog1SP (σ : Scaling) (p : Cog1.P) : Cog1.P :=
  { p with
    Gamma := scale σ Dim.gruneisen p.Gamma
    rho0 := scale σ ⟨1, -3 - p.b, p.b + (p.geometry - 1) + 1, 0⟩ p.rho0
    temp0 := scale σ ⟨0, p.b, -(p.b - (p.gamma - 1) * ((p.geometry - 1) + 1)), 1⟩ p.temp0 }

/-- Cog2: ρ = ρ₀ r^b t^(c₂), c₂ = -2(b+k+1)/[2+(γ-1)(k+1)]  ⇒  [ρ₀] = [ρ] L^(-b) T^(-c₂);  u, T are built from r/t and Γ only -/
noncomputable def cog2SP (σ : Scaling) (p : Cog2.P) : Cog2.P :=
  { p with
    Gamma := scale σ Dim.gruneisen p.Gamma
    rho0 := scale σ ⟨1, -3 - p.b, -((-2 * (p.b + (p.geometry - 1) + 1)) / (2 + (p.gamma - 1) * ((p.geometry - 1) + 1))), 0⟩ p.rho0 }

/-- Cog3: ρ = ρ₀ r^(v-k-1) e^(b t),  u = -(b/v) r,  T = b² r² / (v² Γ (k-v-1)):  the exponent b t must be a pure number, so
[b] = T⁻¹, and v is an exponent, so it is a pure number;  [ρ₀] = [ρ] L^(-(v-k-1)).  (The parameter help strings say
"b: free dimensionless parameter", "v: free parameter with dimensions of velocity" — see `finding_cog3_documented_dimensions`.) -/
noncomputable def cog3SP (σ : Scaling) (p : Cog3.P) : Cog3.P :=
  { p with
    Gamma := scale σ Dim.gruneisen p.Gamma
    b := scale σ Dim.rate p.b
    rho0 := scale σ ⟨1, -3 - (p.v - (p.geometry - 1) - 1), 0, 0⟩ p.rho0 }

/-- Cog4: ρ = ρ₀ r^(-2k/(γ+1)),  u = u₀ r^(-k(γ-1)/(γ+1))  ⇒  [ρ₀] = [ρ] L^(2k/(γ+1)),  [u₀] = L T⁻¹ L^(k(γ-1)/(γ+1)) -/
noncomputable def cog4SP (σ : Scaling) (p : Cog4.P) : Cog4.P :=
  { p with
    Gamma := scale σ Dim.gruneisen p.Gamma
    rho0 := scale σ ⟨1, -3 - 2 * (-(p.geometry - 1) / (p.gamma + 1)), 0, 0⟩ p.rho0
    u0 := scale σ ⟨0, 1 - (-(p.geometry - 1) * (p.gamma - 1)) / (p.gamma + 1), -1, 0⟩ p.u0 }

/-- Cog5: ρ = ρ₀ r⁻²,  u = u₀ t,  T = u₀ r / Γ  ⇒  [ρ₀] = M L⁻¹,  [u₀] = L T⁻² -/
noncomputable def cog5SP (σ : Scaling) (p : Cog5.P) : Cog5.P :=
  { p with
    Gamma := scale σ Dim.gruneisen p.Gamma
    rho0 := scale σ ⟨1, -1, 0, 0⟩ p.rho0
    u0 := scale σ ⟨0, 1, -2, 0⟩ p.u0 }

/-- Cog6: ρ = ρ₀ r^b / (τ²-t²)^((k+1+b)/2)  ⇒  [ρ₀] = [ρ] L^(-b) T^(k+1+b);  "tau: free parameter with dimensions of time" -/
noncomputable def cog6SP (σ : Scaling) (p : Cog6.P) : Cog6.P :=
  { p with
    Gamma := scale σ Dim.gruneisen p.Gamma
    tau := scale σ Dim.time p.tau
    rho0 := scale σ ⟨1, -3 - p.b, (p.geometry - 1) + 1 + p.b, 0⟩ p.rho0 }

/-- Cog8: ρ = ρ₀ r^(c₁) t^(-(k+1)-c₁),  T = T₀ r^(-c₁) t^((1-γ)(k+1)+c₁),  c₁ = (k-1)/(β-α+4);  α, β "dimensionless" -/
noncomputable def cog8SP (σ : Scaling) (p : Cog8.P) : Cog8.P :=
  { p with
    Gamma := scale σ Dim.gruneisen p.Gamma
    rho0 := scale σ ⟨1, -3 - ((p.geometry - 1) - 1) / (p.beta - p.alpha + 4), ((p.geometry - 1) + 1) + ((p.geometry - 1) - 1) / (p.beta - p.alpha + 4), 0⟩ p.rho0
    temp0 := scale σ ⟨0, ((p.geometry - 1) - 1) / (p.beta - p.alpha + 4), -((1 - p.gamma) * ((p.geometry - 1) + 1) + ((p.geometry - 1) - 1) / (p.beta - p.alpha + 4)), 1⟩ p.temp0 }

/-- Cog9: ρ = ρ₀ r^(-(2β+k+7)/α) t^(c₄),  c₄ = -2[α(k+1)-2β-k-7]/(α[2+(γ-1)(k+1)])  ⇒  [ρ₀] = [ρ] L^((2β+k+7)/α) T^(-c₄) -/
noncomputable def cog9SP (σ : Scaling) (p : Cog9.P) : Cog9.P :=
  { p with
    Gamma := scale σ Dim.gruneisen p.Gamma
    rho0 := scale σ ⟨1, -3 - (-(2 * p.beta + (p.geometry - 1) + 7)) / p.alpha,
      -(((-2 * (p.alpha * ((p.geometry - 1) + 1) - (2 * p.beta + (p.geometry - 1) + 7))) / p.alpha) / (2 + (p.gamma - 1) * ((p.geometry - 1) + 1))), 0⟩ p.rho0 }

/-- Cog11: ρ = ρ₀ r^((γ-1)(k+1)-2) t^(1-k-(γ-1)(k+1)),  T = T₀ r^(2-(γ-1)(k+1)) t⁻² -/
noncomputable def cog11SP (σ : Scaling) (p : Cog11.P) : Cog11.P :=
  { p with
    Gamma := scale σ Dim.gruneisen p.Gamma
    rho0 := scale σ ⟨1, -3 - ((p.gamma - 1) * ((p.geometry - 1) + 1) - 2), -(1 - (p.geometry - 1) - (p.gamma - 1) * ((p.geometry - 1) + 1)), 0⟩ p.rho0
    temp0 := scale σ ⟨0, -(2 - (p.gamma - 1) * ((p.geometry - 1) + 1)), 2, 1⟩ p.temp0 }

/-- Cog12: ρ = ρ₀ r^(-2k/(γ+1)),  u = u₀ r^(k(1-γ)/(1+γ))  (no radiation constant enters the returned fields) -/
noncomputable def cog12SP (σ : Scaling) (p : Cog12.P) : Cog12.P :=
  { p with
    Gamma := scale σ Dim.gruneisen p.Gamma
    rho0 := scale σ ⟨1, -3 - (-2 * (p.geometry - 1)) / (p.gamma + 1), 0, 0⟩ p.rho0
    u0 := scale σ ⟨0, 1 - ((p.geometry - 1) * (1 - p.gamma)) / (1 + p.gamma), -1, 0⟩ p.u0 }

/-- Cog18: ρ = ρ₀ r^(c₁) (τ²-t²)^(c₃),  c₁ = -(2β+k+7)/α,  c₃ = -(k+1)/2 - c₁/2;  "tau: free parameter of dimension time" -/
noncomputable def cog18SP (σ : Scaling) (p : Cog18.P) : Cog18.P :=
  { p with
    Gamma := scale σ Dim.gruneisen p.Gamma
    tau := scale σ Dim.time p.tau
    rho0 := scale σ ⟨1, -3 - (-(2 * p.beta + (p.geometry - 1) + 7)) / p.alpha,
      -2 * ((-((p.geometry - 1) + 1)) / 2 - ((-(2 * p.beta + (p.geometry - 1) + 7)) / p.alpha) / 2), 0⟩ p.rho0 }

/-- Cog19: ρ₀ is a density, u₀ a velocity; shock at R = -(γ-1) u₀ t / 2 -/
noncomputable def cog19SP (σ : Scaling) (p : Cog19.P) : Cog19.P :=
  { p with
    Gamma := scale σ Dim.gruneisen p.Gamma
    rho0 := scale σ Dim.density p.rho0
    u0 := scale σ Dim.velocity p.u0 }

/-- Cog21: ρ = (3/2) ρ₀ r⁻³,  T = T₀ r³,  shock at 2/(Γ T₀ t²)  ⇒  [ρ₀] = M,  [T₀] = Θ L⁻³ -/
noncomputable def cog21SP (σ : Scaling) (p : Cog21.P) : Cog21.P :=
  { p with
    Gamma := scale σ Dim.gruneisen p.Gamma
    rho0 := scale σ Dim.mass p.rho0
    temp0 := scale σ ⟨0, -3, 0, 1⟩ p.temp0 }

/-- Cog3 with the dimensions its parameter help strings state: "b: free dimensionless parameter",
"v: free parameter with dimensions of velocity" -/
noncomputable def cog3DocSP (σ : Scaling) (p : Cog3.P) : Cog3.P :=
  { p with
    Gamma := scale σ Dim.gruneisen p.Gamma
    v := scale σ Dim.velocity p.v
    rho0 := scale σ ⟨1, -3 - (p.v - (p.geometry - 1) - 1), 0, 0⟩ p.rho0 }

/-- Cog7: "tau: free parameter" (it is subtracted from t: a time), "R0, Ri: free parameter with dimensions of
length".  "Free parameters: b, k, τ, R₀, Rᵢ and Γ" — there is no density coefficient. -/
noncomputable def cog7SP (σ : Scaling) (p : Cog7.P) : Cog7.P :=
  { p with
    Gamma := scale σ Dim.gruneisen p.Gamma
    tau := scale σ Dim.time p.tau
    R0 := scale σ Dim.length p.R0
    Ri := scale σ Dim.length p.Ri }

/-- γ of Cog7 as the code computes it, (k+3)/(k+1) -/
noncomputable def cog7Gamma (p : Cog7.P) : ℝ := ((p.geometry - 1) + 3) / ((p.geometry - 1) + 1)

/-- the time exponent of the coded Cog7 density, c₅ - c₃ - c₁ c₂ in the notation of `_run`;
it is -1, -1, 0 for geometry = 1, 2, 3 (`cog7RhoT_values`) -/
noncomputable def cog7RhoT (p : Cog7.P) : ℝ :=
  ((((p.geometry - 1) + 1) * cog7Gamma p - 1 - p.b) / (cog7Gamma p - 1))
    - (((p.geometry - 1) + 1) - p.b / cog7Gamma p)
    - (2 - p.b / cog7Gamma p) * (1 / (cog7Gamma p - 1))

/-- changes of units in which the unit of density is tied to the unit of time the way the coded Cog7
normalisation demands: M L⁻³ = T^(cog7RhoT) -/
def Cog7Tied : Scaling → Cog7.P → ℝ → ℝ → Prop := fun σ p _ _ => σ.M = σ.L ^ (3 : ℝ) * σ.T ^ cog7RhoT p

/-- Cog20: "a: free parameter with dimensions of inverse time"; ρ₀ a density, u₀ a velocity -/
noncomputable def cog20SP (σ : Scaling) (p : Cog20.P) : Cog20.P :=
  { p with
    Gamma := scale σ Dim.gruneisen p.Gamma
    rho0 := scale σ Dim.density p.rho0
    u0 := scale σ Dim.velocity p.u0
    a := scale σ Dim.rate p.a }

/-- requests for which the re-expressed request happens to fall into the same region -/
def Cog20SameRegion : Scaling → Cog20.P → ℝ → ℝ → Prop :=
  fun σ p r t => Cog20.leaf (cog20SP σ p) (σ.L * r) (σ.T * t) = Cog20.leaf p r t

end EPV.Spec.UnitsHydro
