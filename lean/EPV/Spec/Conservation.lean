/-
Specification (C04): integral conservation of a one-dimensional Riemann solution.

The one-dimensional Euler equations are the conservation laws  U_t + F(U)_x = 0  for

    U = (ρ, ρ u, ρ (e + u²/2))          (mass, momentum, total energy per unit volume)
    F = (ρ u, ρ u² + p, u (ρ (e + u²/2) + p)) .

A Riemann problem has the initial data  U(x, 0) = U_L  for x < x_d0,  U_R  for x ≥ x_d0
(`x_d0` is the membrane position).  The property (C04) says:

  "For any left and right state, the integrals of density, momentum density and total
   energy density of the returned Riemann solution over any interval that contains all
   waves equal the integrals of the initial data plus the elapsed time multiplied by the
   difference of the undisturbed fluxes at the two ends."

i.e. for every interval [a, b] such that at time t > 0 all waves lie strictly inside it
(and which therefore contained all waves at every earlier time, in particular the
membrane: a ≤ x_d0 ≤ b),

    ∫_a^b U(x, t) dx = ∫_a^b U(x, 0) dx + t (F(U_L) - F(U_R)) .                    (*)

`IntegralConservation` is (*) for the three components, together with the integrability
of the returned fields.  `ConservationFormula` is the same statement with the integral of
the initial data evaluated, `(x_d0 - a) U_L + (b - x_d0) U_R`; it is what the proofs
establish (it needs only `a` left of the slowest and `b` right of the fastest wave at time
`t`), and `IntegralConservation.of_formula` (in `EPV.Lemmas.Conservation`) turns it into
(*) when `a ≤ x_d0 ≤ b`.

The state type (`ρ u p e`) is `EPV.Spec.State` of the jump-condition specification (C02):
the same conserved quantities and fluxes enter the Rankine–Hugoniot conditions there.
-/
import EPV.Spec.Jump
import Mathlib.MeasureTheory.Integral.IntervalIntegral.Basic

namespace EPV.Spec

noncomputable section

open MeasureTheory

/-- the three conservation laws -/
inductive Comp where
  | mass
  | momentum
  | energy
  deriving DecidableEq, Repr

/-- conserved density per unit volume: ρ, ρ u, ρ (e + u²/2) -/
def State.cons (s : State) : Comp → ℝ
  | .mass => s.ρ
  | .momentum => s.ρ * s.u
  | .energy => s.ρ * (s.e + s.u ^ 2 / 2)

/-- flux of the conserved density: ρ u, ρ u² + p, u (ρ (e + u²/2) + p) -/
def State.flux (s : State) : Comp → ℝ
  | .mass => s.ρ * s.u
  | .momentum => s.ρ * s.u ^ 2 + s.p
  | .energy => s.u * (s.ρ * (s.e + s.u ^ 2 / 2) + s.p)

/-- the initial data of a Riemann problem with membrane at `xd0` -/
def riemannInitial (xd0 : ℝ) (L R : State) (x : ℝ) : State := if x < xd0 then L else R

/-- **C04**, literal form: at time `t` the integral over `[a, b]` of each conserved density
of the solution `W` equals the integral of the initial data plus `t` times the difference of
the undisturbed fluxes at the two ends. -/
def IntegralConservation (W : ℝ → ℝ → State) (xd0 : ℝ) (L R : State) (a b t : ℝ) : Prop :=
  ∀ c : Comp, IntervalIntegrable (fun x => (W x t).cons c) volume a b ∧
    ∫ x in a..b, (W x t).cons c
      = (∫ x in a..b, (riemannInitial xd0 L R x).cons c) + t * (L.flux c - R.flux c)

/-- **C04**, evaluated form: the same with `∫_a^b U(x,0) dx = (x_d0 - a) U_L + (b - x_d0) U_R`. -/
def ConservationFormula (W : ℝ → ℝ → State) (xd0 : ℝ) (L R : State) (a b t : ℝ) : Prop :=
  ∀ c : Comp, IntervalIntegrable (fun x => (W x t).cons c) volume a b ∧
    ∫ x in a..b, (W x t).cons c
      = (xd0 - a) * L.cons c + (b - xd0) * R.cons c + t * (L.flux c - R.flux c)

end

end EPV.Spec
