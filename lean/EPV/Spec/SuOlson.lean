/-
Specification (C18): the Su–Olson problem (non-equilibrium Marshak wave).

Dimensionless form (Su & Olson, JQSRT 56 (1996), eqs. 9–12), the one the property text quotes:

    ε u_τ = u_xx + (v - u)          x > 0, τ > 0
      v_τ = u - v
    u - (2/√3) u_x = 1              at x = 0          (Marshak condition)
    u, v → 0                        as x → ∞

Physical form (`exactpack/solvers/suolson/__init__.py`), E the radiation energy density and T the
material temperature, with c_v = α T³ and constant opacity κ:

    E_t - (c/(3κ)) E_zz = c κ (a T⁴ - E)
    α T³ T_t           = c κ (E - a T⁴)
    E - (2/(3κ)) E_z   = 4 F_in / c             at z = 0

The conversion stated in the code's documentation (`timmes.py:so_wave`):

    x = √3 κ z ,   τ = (4 a c κ / α) t ,   ε = 4 a / α ,
    E = u · a T_bc⁴ ,   a T⁴ = v · a T_bc⁴    (so 4 F_in / c = a T_bc⁴).

Derivatives are Mathlib's `deriv`; `Smooth` records the differentiability that makes them meaningful.
-/
import EPV.Support

namespace EPV.Spec.SuOlson

noncomputable section

open Filter Topology

/-- a field of (position, time) -/
abbrev Field := ℝ → ℝ → ℝ

def dτ (f : Field) (x τ : ℝ) : ℝ := deriv (fun s => f x s) τ
def dx (f : Field) (x τ : ℝ) : ℝ := deriv (fun y => f y τ) x
def dxx (f : Field) (x τ : ℝ) : ℝ := deriv (fun y => dx f y τ) x

/-- the derivatives that occur in the radiation equation exist at (x, τ) -/
def Smooth (u : Field) (x τ : ℝ) : Prop :=
  DifferentiableAt ℝ (fun s => u x s) τ ∧ DifferentiableAt ℝ (fun y => u y τ) x ∧
    DifferentiableAt ℝ (fun y => dx u y τ) x

/-- ε u_τ = u_xx + (v - u) at (x, τ) -/
def RadEq (ε : ℝ) (u v : Field) (x τ : ℝ) : Prop :=
  ε * dτ u x τ = dxx u x τ + (v x τ - u x τ)

/-- v_τ = u - v at (x, τ) -/
def MatEq (u v : Field) (x τ : ℝ) : Prop :=
  dτ v x τ = u x τ - v x τ

/-- Marshak condition u - (2/√3) u_x = b at x = 0 -/
def Marshak (u : Field) (τ b : ℝ) : Prop :=
  u 0 τ - 2 / Real.sqrt 3 * dx u 0 τ = b

/-- **C18, dimensionless part, full strength**: the pair (u, v) solves the Su–Olson problem. -/
structure Solves (ε : ℝ) (u v : Field) : Prop where
  smooth : ∀ x τ, 0 < x → 0 < τ → Smooth u x τ ∧ DifferentiableAt ℝ (fun s => v x s) τ
  rad : ∀ x τ, 0 < x → 0 < τ → RadEq ε u v x τ
  mat : ∀ x τ, 0 < x → 0 < τ → MatEq u v x τ
  marshak : ∀ τ, 0 < τ → Marshak u τ 1
  decay_u : ∀ τ, 0 < τ → Tendsto (fun x => u x τ) atTop (𝓝 0)
  decay_v : ∀ τ, 0 < τ → Tendsto (fun x => v x τ) atTop (𝓝 0)

/-- the pointwise (local) part of `Solves`: both equations at one interior point -/
def SolvesAt (ε : ℝ) (u v : Field) (x τ : ℝ) : Prop :=
  Smooth u x τ ∧ DifferentiableAt ℝ (fun s => v x s) τ ∧ RadEq ε u v x τ ∧ MatEq u v x τ

/-! ### physical form -/

/-- E_t - (c/(3κ)) E_zz = c κ (a T⁴ - E) -/
def PhysRadEq (c a κ : ℝ) (E T : Field) (z t : ℝ) : Prop :=
  dτ E z t - c / (3 * κ) * dxx E z t = c * κ * (a * T z t ^ 4 - E z t)

/-- c_v T_t = c κ (E - a T⁴) with c_v = α T³ -/
def PhysMatEq (c a κ α : ℝ) (E T : Field) (z t : ℝ) : Prop :=
  α * T z t ^ 3 * dτ T z t = c * κ * (E z t - a * T z t ^ 4)

/-- E - (2/(3κ)) E_z = b at z = 0 -/
def PhysMarshak (κ : ℝ) (E : Field) (t b : ℝ) : Prop :=
  E 0 t - 2 / (3 * κ) * dx E 0 t = b

/-- one separable mode  W e^{-sτ} sin(γ x + θ)  of the linear system -/
def mode (W s γ θ : ℝ) : Field := fun x τ => W * Real.exp (-(s * τ)) * Real.sin (γ * x + θ)

/-- the dispersion relation of the system: a mode with decay rate s has wavenumber γ -/
def Dispersion (ε s γ : ℝ) : Prop := γ ^ 2 = ε * s + s / (1 - s)

/-- the Marshak phase: the mode satisfies the homogeneous Marshak condition -/
def MarshakPhase (γ θ : ℝ) : Prop := Real.sin θ = 2 / Real.sqrt 3 * γ * Real.cos θ

end

end EPV.Spec.SuOlson
