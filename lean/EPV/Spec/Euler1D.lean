/-
Specification (C01): the one-dimensional Euler equations with heat conduction in
planar / cylindrical / spherical symmetry, exactly as the documentation of the
Coggeshall package (`exactpack/solvers/cog/__init__.py`) writes them, with
ρ, u, T as the independent fields and k = geometry - 1:

    ρ_t + u ρ_r + ρ u_r + k ρ u / r = 0
    u_t + u u_r + (Γ T / ρ) ρ_r + Γ T_r = 0
    Γ/(γ-1) (T_t + u T_r) + Γ T (u_r + k u / r) + (1/ρ)(F_r + k F / r) = 0
    F = -(c λ₀ ρ^α T^β / 3) ∂_r (a T⁴)

(the documentation prints the first factor of the energy equation as
`T/(γ-1)`; that is a typographical slip for `Γ/(γ-1)` — with e = Γ T/(γ-1) and
P = Γ ρ T the energy balance ρ (e_t + u e_r) + P div u + div F = 0 is the form
stated here, and it is the one the solutions satisfy.)

and, for the gamma-law problems of the Noh package, in ρ, u, p:

    ρ_t + u ρ_r + ρ u_r + k ρ u / r = 0
    u_t + u u_r + p_r / ρ = 0
    e_t + u e_r + (p/ρ)(u_r + k u / r) = 0 ,   p = (γ-1) ρ e .

Derivatives are Mathlib's `deriv`; the generated `HasDerivAt` certificates
connect them to the generated derivative expressions.
-/
import EPV.Support

namespace EPV.Spec

noncomputable section

/-- a field of (r, t) -/
abbrev Field := ℝ → ℝ → ℝ

def dr (f : Field) (r t : ℝ) : ℝ := deriv (fun x => f x t) r
def dt (f : Field) (r t : ℝ) : ℝ := deriv (fun s => f r s) t

/-- mass balance residual -/
def massRes (ρ u : Field) (k r t : ℝ) : ℝ :=
  dt ρ r t + u r t * dr ρ r t + ρ r t * dr u r t + k * ρ r t * u r t / r

/-- momentum balance residual, ideal gas P = Γ ρ T -/
def momResT (ρ u T : Field) (Γ r t : ℝ) : ℝ :=
  dt u r t + u r t * dr u r t + Γ * T r t / ρ r t * dr ρ r t + Γ * dr T r t

/-- hydrodynamic part of the temperature form of the energy balance -/
def energyHydroT (u T : Field) (Γ γ k r t : ℝ) : ℝ :=
  Γ / (γ - 1) * (dt T r t + u r t * dr T r t) + Γ * T r t * (dr u r t + k * u r t / r)

/-- radiative heat flux  F = -(c λ₀ ρ^α T^β / 3) ∂_r (a T⁴) -/
def heatFlux (ρ T : Field) (c a lam0 α β : ℝ) : Field := fun r t =>
  -(c * lam0 * ρ r t ^ α * T r t ^ β / 3) * dr (fun x s => a * T x s ^ (4 : ℕ)) r t

/-- full energy residual with conduction -/
def energyResT (ρ u T : Field) (Γ γ k c a lam0 α β r t : ℝ) : ℝ :=
  energyHydroT u T Γ γ k r t
    + (dr (heatFlux ρ T c a lam0 α β) r t + k * heatFlux ρ T c a lam0 α β r t / r) / ρ r t

/-- momentum balance residual in (ρ, u, p) -/
def momResP (ρ u p : Field) (r t : ℝ) : ℝ :=
  dt u r t + u r t * dr u r t + dr p r t / ρ r t

/-- internal-energy balance residual in (ρ, u, p, e) -/
def energyResE (ρ u p e : Field) (k r t : ℝ) : ℝ :=
  dt e r t + u r t * dr e r t + p r t / ρ r t * (dr u r t + k * u r t / r)

end

end EPV.Spec
