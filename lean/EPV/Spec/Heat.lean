/-
Specification (C14 and the heat shares of C07, C08, C20).

1. The real-number reading of the hand model `EPV/Model/HeatSeries.lean`: the instance `Ops ℝ`
   and the bridge lemmas that rewrite the model's generic operations and its loop-ordered sum
   `sumTo` into Mathlib's arithmetic and `Finset.sum`.  Nothing else is assumed about the model:
   the theorems in EPV/Props/C14 are about the SAME definitions the correspondence driver executes
   over `Float`.

2. What property C14 asks of a temperature field, as the package documentation states it
   (`exactpack/solvers/heat/__init__.py`, eq. diffEq, InitCondNonB; `rod1d.py` eq. DE, BCs, IC):

       T_t = κ T_xx                               0 < x < L, t > 0
       α₁ T(0,t) + β₁ T_x(0,t) = γ₁ ,  α₂ T(L,t) + β₂ T_x(L,t) = γ₂      t > 0
       T(x,t) → T_L + (T_R - T_L) x / L           as t → 0⁺, 0 < x < L
       T(x,t) → the static solution               as t → ∞

   The third line is the one part of C14 that is NOT mechanised (it needs completeness of the
   trigonometric system under each boundary condition): it is stated here as `InitialLimit`,
   and `EPV/Props/C14` proves only the coefficient identities that it rests on (`_partial`).
-/
import EPV.Support
import EPV.Model.HeatSeries
import Mathlib.Algebra.BigOperators.Group.Finset.Basic
import Mathlib.Topology.Order.Basic
import Mathlib.Analysis.SpecificLimits.Basic

namespace EPV.Spec.Heat

open EPV.Model.HeatSeries

noncomputable section

/-- the real numbers as a carrier of the hand model -/
instance opsReal : Ops ℝ where
  add := fun a b => a + b
  sub := fun a b => a - b
  mul := fun a b => a * b
  div := fun a b => a / b
  neg := fun a => -a
  ofNat := fun n => (n : ℝ)
  pi := Real.pi
  sin := Real.sin
  cos := Real.cos
  exp := Real.exp
  sinh := Real.sinh

/-! ### bridge: the model's operations at ℝ are Mathlib's -/

theorem add_real (a b : ℝ) : @HAdd.hAdd ℝ ℝ ℝ (@instHAdd ℝ opsAdd) a b = a + b := rfl
theorem sub_real (a b : ℝ) : @HSub.hSub ℝ ℝ ℝ (@instHSub ℝ opsSub) a b = a - b := rfl
theorem mul_real (a b : ℝ) : @HMul.hMul ℝ ℝ ℝ (@instHMul ℝ opsMul) a b = a * b := rfl
theorem div_real (a b : ℝ) : @HDiv.hDiv ℝ ℝ ℝ (@instHDiv ℝ opsDiv) a b = a / b := rfl
theorem neg_real (a : ℝ) : @Neg.neg ℝ opsNeg a = -a := rfl
theorem ofNat_real (n : ℕ) : (Ops.ofNat n : ℝ) = (n : ℝ) := rfl
theorem pi_real : (Ops.pi : ℝ) = Real.pi := rfl
theorem sin_real (a : ℝ) : Ops.sin a = Real.sin a := rfl
theorem cos_real (a : ℝ) : Ops.cos a = Real.cos a := rfl
theorem exp_real (a : ℝ) : Ops.exp a = Real.exp a := rfl
theorem sinh_real (a : ℝ) : Ops.sinh a = Real.sinh a := rfl

/-- `simp only [heat_ops]` turns an unfolded model term over ℝ into ordinary real arithmetic -/
macro "heat_ops" : tactic =>
  `(tactic| simp only [add_real, sub_real, mul_real, div_real, neg_real, ofNat_real, pi_real, sin_real, cos_real,
      exp_real, sinh_real])

theorem sumTo_real (f : ℕ → ℝ) (N : ℕ) : sumTo f N = ∑ n ∈ Finset.range N, f n := by
  induction N with
  | zero => simp [sumTo, ofNat_real]
  | succ n ih => rw [sumTo, add_real, ih, Finset.sum_range_succ]

theorem negOnePow_real (n : ℕ) : (negOnePow n : ℝ) = (-1) ^ n := by
  unfold negOnePow
  rcases Nat.even_or_odd n with h | h
  · rw [if_pos (Nat.even_iff.mp h), h.neg_one_pow, ofNat_real]; norm_num
  · rw [if_neg (by rw [Nat.odd_iff.mp h]; norm_num), h.neg_one_pow, neg_real, ofNat_real]; norm_num

/-! ### the model at ℝ in Mathlib form -/

theorem rodTerm_real (κ k A B x t : ℝ) :
    rodTerm κ k A B x t = (A * Real.cos (k * x) + B * Real.sin (k * x)) * Real.exp (-κ * (k * k) * t) := rfl

theorem rodSeries_real (N : ℕ) (κ : ℝ) (st : ℝ → ℝ) (k A B : ℕ → ℝ) (x t : ℝ) :
    rodSeries N κ st k A B x t
      = (∑ n ∈ Finset.range N, (A n * Real.cos (k n * x) + B n * Real.sin (k n * x)) * Real.exp (-κ * (k n * k n) * t))
        + st x := by
  unfold rodSeries
  rw [add_real, sumTo_real]
  rfl

/-! ### what C14 asks (1-D rod) -/

/-- a temperature field of (x, t) -/
abbrev TField := ℝ → ℝ → ℝ

def dx (T : TField) (x t : ℝ) : ℝ := deriv (fun y => T y t) x
def dt (T : TField) (x t : ℝ) : ℝ := deriv (fun s => T x s) t
def dxx (T : TField) (x t : ℝ) : ℝ := deriv (fun y => dx T y t) x

/-- `T_t = κ T_xx` at (x, t)  (rod1d.py eq. DE) -/
def HeatEq1D (κ : ℝ) (T : TField) (x t : ℝ) : Prop := dt T x t = κ * dxx T x t

/-- boundary operator `α T + β T_x` at the point x  (rod1d.py eq. BCs) -/
def bcOp (α β : ℝ) (T : TField) (x t : ℝ) : ℝ := α * T x t + β * dx T x t

/-- the linear initial profile of rod1d.py eq. IC -/
def initialProfile (TL TR L x : ℝ) : ℝ := TL + (TR - TL) * x / L

/-- **Remaining obligation of C14 (not mechanised).**  For a family of truncations `T N`, the initial
profile is recovered in the interior: for every interior point and every tolerance there is a
truncation order beyond which the solution is within the tolerance of the initial profile for all
small enough positive times.  (Needs completeness of the eigenfunction system; covered numerically by
the oracle `o_heat.initial_limit` at increasing Nsum.) -/
def InitialLimit (T : ℕ → TField) (TL TR L : ℝ) : Prop :=
  ∀ x, 0 < x → x < L → ∀ ε > 0, ∃ N₀, ∀ N ≥ N₀, ∃ δ > 0, ∀ t, 0 < t → t < δ →
    |T N x t - initialProfile TL TR L x| < ε

/-- radial heat equation in a sphere, `T_t = a (1/r²) (r² T_r)_r = a (T_rr + 2 T_r / r)`  (hutchens1.py) -/
def HeatEqSphere (a : ℝ) (T : TField) (r t : ℝ) : Prop := dt T r t = a * (dxx T r t + 2 / r * dx T r t)

/-- a field of (x, y, t) -/
abbrev TField2 := ℝ → ℝ → ℝ → ℝ

/-- `T_t = κ (T_xx + T_yy)`  (heat/__init__.py eq. diffEq in the plane) -/
def HeatEq2D (κ : ℝ) (T : TField2) (x y t : ℝ) : Prop :=
  deriv (fun s => T x y s) t
    = κ * (deriv (fun u => deriv (fun v => T v y t) u) x + deriv (fun u => deriv (fun v => T x v t) u) y)

/-- steady heat conduction with a uniform source in a cylinder, `(1/r)(r T_r)_r + T_zz + g₀/k = 0`.
(hutchens2.py prints the radial operator as `(1/r²)(r² T_r)_r`; the problem is stated "in cylindrical
coordinates" and solved with the modified Bessel function I₀, i.e. for the operator written here.) -/
def PoissonCyl (src : ℝ) (T : ℝ → ℝ → ℝ) (r z : ℝ) : Prop :=
  deriv (fun u => deriv (fun v => T v z) u) r + 1 / r * deriv (fun v => T v z) r
    + deriv (fun u => deriv (fun v => T r v) u) z + src = 0

/-- residual of the heat equation in plane polar coordinates,
`T_t - κ (T_rr + T_r / r + T_θθ / r²)`  (cylindrical_sandwich.py) -/
def heatResPolar (κ : ℝ) (T : ℝ → ℝ → ℝ → ℝ) (r θ t : ℝ) : ℝ :=
  deriv (fun s => T r θ s) t
    - κ * (deriv (fun u => deriv (fun v => T v θ t) u) r + 1 / r * deriv (fun v => T v θ t) r
           + 1 / r ^ 2 * deriv (fun u => deriv (fun v => T r v t) u) θ)

/-- the modified Bessel function of order 0 as an atom: all that is assumed of `scipy.special.i0` is that it is
twice differentiable and satisfies `x² y'' + x y' - x² y = 0` -/
structure IsModBessel0 (I I' I'' : ℝ → ℝ) : Prop where
  d1 : ∀ x, HasDerivAt I (I' x) x
  d2 : ∀ x, HasDerivAt I' (I'' x) x
  ode : ∀ x, x ^ 2 * I'' x + x * I' x - x ^ 2 * I x = 0

/-- a radial factor of the cylindrical sandwich, `R(r) = J_k(α r) + β Y_k(α r)`, as an atom: twice differentiable
for r > 0 with Bessel's equation `r² R'' + r R' + (α² r² - k²) R = 0` -/
structure IsBesselRadial (k α : ℝ) (R R' R'' : ℝ → ℝ) : Prop where
  d1 : ∀ r, 0 < r → HasDerivAt R (R' r) r
  d2 : ∀ r, 0 < r → HasDerivAt R' (R'' r) r
  ode : ∀ r, 0 < r → r ^ 2 * R'' r + r * R' r + (α ^ 2 * r ^ 2 - k ^ 2) * R r = 0

end

end EPV.Spec.Heat
