/-
Specification (C12): steady radiative shocks in the nondimensional variables of
`exactpack/solvers/radshocks/__init__.py` (Lowrie & Rauenzahn 2007; Lowrie & Edwards 2008):

    ∂ₓ(ρ u) = 0
    ∂ₓ(ρ u² + p) = -P₀ ∂ₓ𝒫              ⇒  ρ u² + p + P₀ 𝒫          is constant
    ∂ₓ[u(½ρu² + ρe + p)] = -P₀ C₀ ∂ₓℱ    ⇒  u(½ρu² + ρe + p) + P₀ C₀ ℱ is constant

with the ideal gas e = T/(γ(γ-1)), p = ρT/γ, the upstream state (ρ, T, u) = (1, 1, M₀), and, in
equilibrium diffusion, 𝒫 = T⁴/3.  In an equilibrium far field the (lab-frame) radiation flux is the
advected radiation enthalpy, ℱ = (4/3) β T⁴ with β = u/C₀, so P₀ C₀ ℱ = 4 P₀ T⁴ u / 3.

Convention of the solver attributes (taken from the test suite's own flux tests,
`exactpack/tests/test_radshocks.py::Test_ConservationEquationsSatisfied`): the attribute `Fr` is
C₀ a_r T_ref⁴ ℱ, i.e. the dimensional radiation energy flux divided by the upstream sound speed,
and it already contains the advected radiation enthalpy.

A travelling wave: the solvers return the steady profile displaced by M₀ c_s t, with
c_s = √(γ(γ-1) C_v T_ref) the upstream sound speed of the user's γ, C_v, T_ref.
-/
import EPV.Support

namespace EPV.Spec.RadShock

noncomputable section

def massFlux (ρ v : ℝ) : ℝ := ρ * v

/-- total momentum flux including the radiation pressure P₀ T⁴ / 3 -/
def momFlux (γ P0 ρ T v : ℝ) : ℝ := ρ * v ^ 2 + ρ * T / γ + P0 * T ^ 4 / 3

/-- material energy flux u(½ρu² + ρe + p) with e = T/(γ(γ-1)), p = ρT/γ -/
def hydroEnergyFlux (γ ρ T v : ℝ) : ℝ := v * (ρ * v ^ 2 / 2 + ρ * (T / γ / (γ - 1)) + ρ * T / γ)

/-- total energy flux with the radiation energy flux ℱ -/
def energyFlux (γ P0 C0 ρ T v F : ℝ) : ℝ := hydroEnergyFlux γ ρ T v + P0 * C0 * F

/-- total energy flux of an equilibrium state: ℱ = (4/3)(v/C₀)T⁴, i.e. P₀C₀ℱ = 4P₀T⁴v/3 -/
def energyFluxEq (γ P0 ρ T v : ℝ) : ℝ := hydroEnergyFlux γ ρ T v + 4 * P0 * T ^ 4 * v / 3

/-- hydrodynamic momentum flux (no radiation): ion–electron shock -/
def hydroMomFlux (γ ρ T v : ℝ) : ℝ := ρ * v ^ 2 + ρ * T / γ

/-- upstream sound speed of an ideal gas with the user's γ, C_v and reference temperature -/
def soundSpeed (γ Cv Tref : ℝ) : ℝ := Real.sqrt (γ * (γ - 1) * Cv * Tref)

/-- a field of (x, t) is a travelling wave with speed w: it is a fixed profile displaced by w t -/
def TravelsWith (f : ℝ → ℝ → ℝ) (w : ℝ) : Prop := ∀ x t δ, f (x + w * δ) (t + δ) = f x t

end

end EPV.Spec.RadShock
