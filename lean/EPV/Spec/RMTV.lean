/-
The RMTV solver assembled from its traced parts (C02, C03 shares).

`Rmtv(**params)(r, t)` runs

    Rmtv._run          (model RmtvWire: attribute → keyword wiring, field names; `t` is ignored)
      -> timmes.rmtv   (model RmtvLoop: positional hand-over to rmtv_1d, wiring of its five results)
           -> timmes.rmtv_1d   (model RmtvRun: derived constants, ambient / heated / shocked
                                branches, dimensionalisation, unit conversion)

with the numerical atoms `ans` (quad), (U2, H2, T2) / (U, H, T) (solve_ivp: the similarity
variables at the end of the first / of the last integration).  `density … velocity` below are
the returned fields under their public names, built from the generated definitions only.
-/
import EPV.Gen.RmtvWire
import EPV.Gen.RmtvLoop
import EPV.Gen.RmtvRun
import EPV.Gen.RmtvJump
import EPV.Tactics
import EPV.Lemmas.Bridge.SemiGud

set_option linter.all false

open EPV EPV.Gen

namespace EPV.Spec.RMTV

noncomputable section

/-- the parameters of the solver class -/
structure Inp where
  aval : ℝ
  bval : ℝ
  chi0 : ℝ
  gamma : ℝ
  bigamma : ℝ
  rf : ℝ
  xif : ℝ
  xis : ℝ
  beta0 : ℝ
  g0 : ℝ

/-- the numerical atoms of one point -/
structure Atoms where
  ans : ℝ
  U : ℝ
  H : ℝ
  T : ℝ
  U2 : ℝ
  H2 : ℝ
  T2 : ℝ

def wireP (i : Inp) : RmtvWire.P :=
  { aval := i.aval, bval := i.bval, chi0 := i.chi0, gamma := i.gamma, bigamma := i.bigamma, rf := i.rf, xif := i.xif,
    xis := i.xis, beta0 := i.beta0, g0 := i.g0, o_den := 0, o_ener := 0, o_pres := 0, o_tev := 0, o_vel := 0 }

def loopP (i : Inp) (r t : ℝ) : RmtvLoop.P :=
  let w := wireP i
  { aval_in := RmtvWire.arg_aval_in w r t, bval_in := RmtvWire.arg_bval_in w r t, chi0 := RmtvWire.arg_chi0 w r t,
    gamma := RmtvWire.arg_gamma w r t, bigamma := RmtvWire.arg_bigamma w r t, rf := RmtvWire.arg_rf w r t,
    xif_in := RmtvWire.arg_xif_in w r t, xis := RmtvWire.arg_xis w r t, beta0_in := RmtvWire.arg_beta0_in w r t,
    g0 := RmtvWire.arg_g0 w r t, s_d := 0, s_t := 0, s_e := 0, s_p := 0, s_v := 0 }

/-- arguments and atoms of `rmtv_1d` as the public call reaches it for the point r -/
def runP (i : Inp) (a : Atoms) (r t : ℝ) : RmtvRun.P :=
  let l := loopP i r t
  { rpos := RmtvLoop.p_rpos l r, aval_in := RmtvLoop.p_aval_in l r, bval_in := RmtvLoop.p_bval_in l r,
    chi0 := RmtvLoop.p_chi0 l r, gamma := RmtvLoop.p_gamma l r, bigamma := RmtvLoop.p_bigamma l r,
    rf := RmtvLoop.p_rf l r, xif_in := RmtvLoop.p_xif_in l r, xis := RmtvLoop.p_xis l r,
    beta0_in := RmtvLoop.p_beta0_in l r, g0 := RmtvLoop.p_g0 l r,
    ans := a.ans, U := a.U, H := a.H, T := a.T, U2 := a.U2, H2 := a.H2, T2 := a.T2 }

def loopPfull (i : Inp) (a : Atoms) (r t : ℝ) : RmtvLoop.P :=
  { loopP i r t with
    s_d := RmtvRun.den (runP i a r t), s_t := RmtvRun.tev (runP i a r t), s_e := RmtvRun.ener (runP i a r t),
    s_p := RmtvRun.pres (runP i a r t), s_v := RmtvRun.vel (runP i a r t) }

def wirePfull (i : Inp) (a : Atoms) (r t : ℝ) : RmtvWire.P :=
  { wireP i with
    o_den := RmtvLoop.den (loopPfull i a r t) r, o_tev := RmtvLoop.tev (loopPfull i a r t) r,
    o_ener := RmtvLoop.ener (loopPfull i a r t) r, o_pres := RmtvLoop.pres (loopPfull i a r t) r,
    o_vel := RmtvLoop.vel (loopPfull i a r t) r }

/-- the returned fields of `Rmtv(**i)(r, t)` under their public names -/
def density (i : Inp) (a : Atoms) (r t : ℝ) : ℝ := RmtvWire.density (wirePfull i a r t) r t
def temperature (i : Inp) (a : Atoms) (r t : ℝ) : ℝ := RmtvWire.temperature (wirePfull i a r t) r t
def energy (i : Inp) (a : Atoms) (r t : ℝ) : ℝ := RmtvWire.energy (wirePfull i a r t) r t
def pressure (i : Inp) (a : Atoms) (r t : ℝ) : ℝ := RmtvWire.pressure (wirePfull i a r t) r t
def velocity (i : Inp) (a : Atoms) (r t : ℝ) : ℝ := RmtvWire.velocity (wirePfull i a r t) r t

/-- the record `rmtv_1d` is evaluated on: every parameter handed through unchanged, in its slot -/
theorem runP_eq (i : Inp) (a : Atoms) (r t : ℝ) :
    runP i a r t = { rpos := r, aval_in := i.aval, bval_in := i.bval, chi0 := i.chi0, gamma := i.gamma,
                     bigamma := i.bigamma, rf := i.rf, xif_in := i.xif, xis := i.xis, beta0_in := i.beta0, g0 := i.g0,
                     ans := a.ans, U := a.U, H := a.H, T := a.T, U2 := a.U2, H2 := a.H2, T2 := a.T2 } := by
  simp only [runP, loopP, wireP, epv_tree, epv_leaf]

theorem density_eq (i : Inp) (a : Atoms) (r t : ℝ) : density i a r t = RmtvRun.den (runP i a r t) := by
  simp only [density, wirePfull, loopPfull, epv_tree, epv_leaf]
theorem temperature_eq (i : Inp) (a : Atoms) (r t : ℝ) : temperature i a r t = RmtvRun.tev (runP i a r t) := by
  simp only [temperature, wirePfull, loopPfull, epv_tree, epv_leaf]
theorem energy_eq (i : Inp) (a : Atoms) (r t : ℝ) : energy i a r t = RmtvRun.ener (runP i a r t) := by
  simp only [energy, wirePfull, loopPfull, epv_tree, epv_leaf]
theorem pressure_eq (i : Inp) (a : Atoms) (r t : ℝ) : pressure i a r t = RmtvRun.pres (runP i a r t) := by
  simp only [pressure, wirePfull, loopPfull, epv_tree, epv_leaf]
theorem velocity_eq (i : Inp) (a : Atoms) (r t : ℝ) : velocity i a r t = RmtvRun.vel (runP i a r t) := by
  simp only [velocity, wirePfull, loopPfull, epv_tree, epv_leaf]

/-- `rmtv_1d` returns on every path (no NaN / raise leaf in the traced tree) -/
theorem run_total (p : RmtvRun.P) : RmtvRun.outcome p = .ok := by
  simp only [epv_tree]
  split_ifs <;> rfl

/-- temperature and specific internal energy come from one quantity Q = (α r / t)² T(ξ):
tev = Q / Γ · 10³ (keV → eV), ener = Q / (γ-1) · 10¹⁶ (jerk/g → erg/g); Q = 0 ahead of the heat front -/
theorem run_Q (p : RmtvRun.P) :
    ∃ Q, RmtvRun.tev p = Q / p.bigamma * 1000 ∧ RmtvRun.ener p = Q / (p.gamma - 1) * 10000000000000000 := by
  -- no `Q` is read off the generated term: both fields vanish with their divisor, and otherwise
  -- ener (γ-1) / 10¹⁶ = tev Γ / 10³ on every leaf (Bridge.SemiGud.exists_Q_of)
  simp only [epv_tree]
  split_ifs <;> simp only [epv_leaf] <;>
    (refine Bridge.SemiGud.exists_Q_of (fun h => ?_) (fun h => ?_) (fun hG hg => ?_) <;>
      [(simp [h]); (simp [sub_eq_zero.mp h]); (first | (field_simp <;> ring1) | simp | ring1)])

/-- pressure is computed from density and energy: pres = (γ-1) · den · ener (both sides in cgs) -/
theorem run_pres (p : RmtvRun.P) : RmtvRun.pres p = (p.gamma - 1) * RmtvRun.den p * RmtvRun.ener p := by
  simp only [epv_tree]
  split_ifs <;> simp only [epv_leaf] <;> first | ring1 | epv_semi_gud_eq

end

end EPV.Spec.RMTV
