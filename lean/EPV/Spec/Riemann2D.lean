/-
Specification (C19): steady supersonic flow of an ideal gas through an oblique shock and through
a centred (Prandtl–Meyer) expansion fan, and the slip line between two such waves.

Oblique shock.  Decompose the velocity into the components normal (`un`) and tangential (`ut`) to
the shock.  The tangential component is continuous; across the normal direction mass, momentum and
total enthalpy are conserved (Rankine–Hugoniot):

    ρ₀ un₀ = ρ₁ un₁ ,  p₀ + ρ₀ un₀² = p₁ + ρ₁ un₁² ,
    γ/(γ-1) p₀/ρ₀ + un₀²/2 = γ/(γ-1) p₁/ρ₁ + un₁²/2 .

The flow is turned by the angle δ between (ut, un₀) and (ut, un₁):
tan δ = ut (un₀ - un₁) / (ut² + un₀ un₁)  (tangent of the difference of the two flow angles).

Expansion fan.  The flow is isentropic, p/ρ^γ = const, the total enthalpy
c²/(γ-1) + q²/2 = c² (1/(γ-1) + M²/2) is constant, and the flow direction turns by the difference
of the Prandtl–Meyer function

    ν(M) = √((γ+1)/(γ-1)) · arctan √((γ-1)/(γ+1) (M²-1)) - arctan √(M²-1)

between its end states (Liepmann & Roshko, Elements of Gasdynamics, §4.10).

Slip line.  Pressure and flow direction are equal on the two sides.
-/
import EPV.Support

namespace EPV.Spec.Riemann2D

noncomputable section

/-- the state (p₁, ρ₁, speed q₁) lies behind an oblique shock in the flow (p₀, ρ₀, speed q₀) of an
ideal gas with index γ, and `tanδ` is the tangent of the turning angle of that shock -/
def ObliqueShock (γ p₀ ρ₀ q₀ p₁ ρ₁ q₁ tanδ : ℝ) : Prop :=
  ∃ un₀ ut un₁ : ℝ, 0 < un₀ ∧ 0 ≤ ut ∧
    un₀ ^ 2 + ut ^ 2 = q₀ ^ 2 ∧                      -- normal / tangential decomposition upstream
    un₁ ^ 2 + ut ^ 2 = q₁ ^ 2 ∧                      -- same tangential component downstream
    ρ₀ * un₀ = ρ₁ * un₁ ∧                            -- mass
    p₀ + ρ₀ * un₀ ^ 2 = p₁ + ρ₁ * un₁ ^ 2 ∧          -- normal momentum
    γ / (γ - 1) * (p₀ / ρ₀) + un₀ ^ 2 / 2 = γ / (γ - 1) * (p₁ / ρ₁) + un₁ ^ 2 / 2 ∧   -- energy
    tanδ * (ut ^ 2 + un₀ * un₁) = ut * (un₀ - un₁)    -- turning angle

/-- the state (p₁, ρ₁, Mach M₁) lies on the isentrope through (p₀, ρ₀, Mach M₀) with the same
total enthalpy -/
def IsentropicState (γ p₀ ρ₀ M₀ p₁ ρ₁ M₁ : ℝ) : Prop :=
  p₁ / ρ₁ ^ γ = p₀ / ρ₀ ^ γ ∧
    γ * p₁ / ρ₁ * (1 / (γ - 1) + M₁ ^ 2 / 2) = γ * p₀ / ρ₀ * (1 / (γ - 1) + M₀ ^ 2 / 2)

/-- the (standard) Prandtl–Meyer function -/
def nu (γ M : ℝ) : ℝ :=
  Real.sqrt ((γ + 1) / (γ - 1)) * Real.arctan (Real.sqrt ((γ - 1) / (γ + 1) * (M ^ 2 - 1)))
    - Real.arctan (Real.sqrt (M ^ 2 - 1))

/-- a fan between Mach numbers M₀ and M₁ turns the flow by δ -/
def FanTurning (γ M₀ M₁ δ : ℝ) : Prop := δ = nu γ M₀ - nu γ M₁

/-- velocity components, Mach number, sound speed c = √(γ p/ρ) and flow angle φ of one reported
state are mutually consistent -/
def Consistent (γ p ρ M u v φ : ℝ) : Prop :=
  u = Real.sqrt (γ * p / ρ) * M * Real.cos φ ∧ v = Real.sqrt (γ * p / ρ) * M * Real.sin φ

theorem Consistent.speed_sq {γ p ρ M u v φ : ℝ} (h : Consistent γ p ρ M u v φ) (hc : 0 ≤ γ * p / ρ) :
    u ^ 2 + v ^ 2 = (γ * p / ρ) * M ^ 2 := by
  obtain ⟨hu, hv⟩ := h
  rw [hu, hv]
  have := Real.sq_sqrt hc
  have h2 := Real.sin_sq_add_cos_sq φ
  calc _ = Real.sqrt (γ * p / ρ) ^ 2 * M ^ 2 * (Real.sin φ ^ 2 + Real.cos φ ^ 2) := by ring
    _ = _ := by rw [this, h2]; ring

theorem Consistent.tan {γ p ρ M u v φ : ℝ} (h : Consistent γ p ρ M u v φ) (hcos : Real.cos φ ≠ 0) :
    v = u * Real.tan φ := by
  obtain ⟨hu, hv⟩ := h
  rw [hu, hv, Real.tan_eq_sin_div_cos]
  field_simp

/-- slip line: equal pressure and equal flow direction φ on the two sides -/
def SlipLine (γB pB ρB MB uB vB γT pT ρT MT uT vT φ : ℝ) : Prop :=
  pB = pT ∧ Consistent γB pB ρB MB uB vB φ ∧ Consistent γT pT ρT MT uT vT φ

end

end EPV.Spec.Riemann2D
