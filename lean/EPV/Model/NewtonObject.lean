/-
Hand model of the OBJECT `newton_solver` (newton_solvers.py) as a state machine (Mathlib-free, executable).

`EPV.Model.Newton` models ONE call of `solve()` on a solver that has just been given its guess.  The real object
lives longer: `NohBlackBoxEos` keeps one solver and calls `set_function`, `set_new_initial_guess`, `solve` on it
again and again, users change tolerance / guess / function and re-solve.  What carries over from one operation to
the next is the attribute dictionary.  The code, operation by operation:

    __init__                     function = None; tolerance = 1e-6; initial_guess = None; residual = error = 10;
                                 max_iterations = 10000; x_old = x_new = F_x = None
    set_function(f)              function = f
    set_new_tolerance(eps)       if eps > 1e-2: raise ValueError ; tolerance = eps
    set_new_max_iteration(N)     max_iterations = N
    set_new_initial_guess(x0)    initial_guess = x0 ; residual = 10 ; error = 10
    solve()                      if function == None: raise ValueError ; if initial_guess == None: raise ValueError
                                 iteration_counter = 0 ; x_old = initial_guess
                                 self.residual = 10 ; self.error = 10       # the convergence state is reset at entry
                                 while self.residual > self.tolerance or self.error > self.tolerance:
                                     if iteration_counter >= max_iterations: raise IterationError
                                     J_inv = F_prime_inv(x_old) ; F_x = F(x_old) ; x_new = x_old - dot(J_inv, F_x)
                                     self.residual = norm(x_new - x_old)
                                     self.error = norm(F(x_new))
                                     x_old = x_new ; iteration_counter += 1
                                 return x_old.copy(), iteration_counter, self.residual.copy(), self.error.copy()

The STATE of the machine is the attributes some method READS before writing them:

    function, tolerance, initial_guess, max_iterations.

`residual`, `error`, `x_old`, `x_new`, `F_x` are written by `solve` before it reads them and read by nothing else — this
is not assumed but proved on the traced code (`EPV/Props/C16/SettersNewton.lean`: `solve2_ignores_stored_state`,
`solve2_used_eq`, and the traced setters).  Until the repair 53f776b in /repo `solve` did NOT reset `residual` / `error`:
they were part of the state, the loop was entered on whatever the last operation had left there, and a second solve
without a new guess returned the guess after 0 iterations as a converged solution.

When the loop is not entered at all — tolerance ≥ 10, which `set_new_tolerance` (cap 1e-2) cannot produce —
`self.residual.copy()` is called on the int 10: AttributeError (traced, `NewtonB_solve2` leaf `¬ tol < 10`).

`step : State → Op → State × Out` mirrors this; it is generic in the function-object type `Fn`, the unknown `X`, the
scalar type `α`, so the same definition is run on `Float` by the correspondence driver (below, tied to the real
object on operation sequences by `harness/o_c16b.py:newton_object_tie`) and reasoned about in
`EPV/Props/C16/SettersNewton.lean`.

-- driver: NewtonObj EPV.Model.NewtonObject.driver
-/
import EPV.Model.Newton

namespace EPV.Model.NewtonObject

open EPV.Model.Newton

/-- the attributes of a `newton_solver` object that its methods read -/
structure State (Fn X α : Type) where
  fn : Option Fn
  tol : α
  guess : Option X
  maxIter : Nat

/-- the documented operations -/
inductive Op (Fn X α : Type) where
  | setFunction (f : Fn)
  | setTolerance (eps : α)
  | setMaxIter (n : Nat)
  | setGuess (x : X)
  | solve

/-- what an operation reports -/
inductive Out (X α : Type) where
  /-- a setter returned -/
  | done
  /-- an exception left the method -/
  | raised (kind : String)
  /-- `solve` returned {'solution', 'number_of_iterations', 'residual_achieved', 'error_achieved'} -/
  | converged (x : X) (iters : Nat) (residual error : α)
  deriving DecidableEq

/-- the constants of the code and the meaning of a function object -/
structure Sem (Fn X α : Type) where
  /-- `a > b` -/
  gt : α → α → Bool
  /-- the value `residual` and `error` are reset to at the entry of `solve`: 10 -/
  ten : α
  /-- default tolerance: 1e-6 -/
  tolDefault : α
  /-- `set_new_tolerance` rejects anything above: 1e-2 -/
  tolCap : α
  /-- first half of an update: `J_inv = F_prime_inv(x)`, `F_x = F(x)`, `x_new = x - dot(J_inv, F_x)`,
  `residual = norm(x_new - x)`; returns `(x_new, residual)` or the exception raised -/
  upd : Fn → X → Except String (X × α)
  /-- second half: `error = norm(F(x_new))` -/
  err : Fn → X → Except String α

variable {Fn X α : Type}

/-- the `while` loop of `solve`, fuel = max_iterations - iteration_counter -/
def loopS (S : Sem Fn X α) (f : Fn) (tol : α) : Nat → X → α → α → Nat → Out X α
  | 0, x, res, err, it =>
    if S.gt res tol || S.gt err tol then .raised "IterationError" else .converged x it res err
  | fuel + 1, x, res, err, it =>
    if S.gt res tol || S.gt err tol then
      match S.upd f x with
      | .error k => .raised k
      | .ok (x', r') =>
        match S.err f x' with
        | .error k => .raised k
        | .ok e' => loopS S f tol fuel x' r' e' (it + 1)
    else .converged x it res err

/-- `solve()` once function and guess are there: residual = error = 10, then the loop.  Nothing of an earlier solve
enters. -/
def solveS (S : Sem Fn X α) (f : Fn) (tol : α) (maxIter : Nat) (x0 : X) : Out X α :=
  if S.gt S.ten tol then loopS S f tol maxIter x0 S.ten S.ten 0 else .raised "AttributeError"

/-- `newton_solver()` -/
def fresh (S : Sem Fn X α) : State Fn X α :=
  { fn := none, tol := S.tolDefault, guess := none, maxIter := 10000 }

/-- one operation on the object: the state afterwards and what the call reported -/
def step (S : Sem Fn X α) (s : State Fn X α) : Op Fn X α → State Fn X α × Out X α
  | .setFunction f => ({ s with fn := some f }, .done)
  | .setTolerance eps => if S.gt eps S.tolCap then (s, .raised "ValueError") else ({ s with tol := eps }, .done)
  | .setMaxIter n => ({ s with maxIter := n }, .done)
  | .setGuess x => ({ s with guess := some x }, .done)
  | .solve =>
    match s.fn, s.guess with
    | none, _ => (s, .raised "ValueError")
    | some _, none => (s, .raised "ValueError")
    | some f, some x0 => (s, solveS S f s.tol s.maxIter x0)

/-- a sequence of operations: the final state and everything that was reported -/
def run (S : Sem Fn X α) : List (Op Fn X α) → State Fn X α → State Fn X α × List (Out X α)
  | [], s => (s, [])
  | o :: os, s =>
    let r := step S s o
    let rs := run S os r.1
    (rs.1, r.2 :: rs.2)

/-! ### Float instance for the correspondence: `pressure_noh_residual` objects with `ideal_gas_eos` -/

/-- a `pressure_noh_residual(ic, ideal_gas_eos(gamma))` object is what its parameters are (`EPV.Model.Newton.PR`);
`set_new_initial_conditions` on the object the solver holds is, for the solver, a different function -/
def floatSem : Sem PR V3 Float where
  gt := fun a b => a > b
  ten := 10.0
  tolDefault := 1.0e-6
  tolCap := 1.0e-2
  upd := fun p x =>
    match p.Finv x with
    | .error k => .error k
    | .ok Ji =>
      match p.F x with
      | .error k => .error k
      | .ok Fx =>
        let x' := x.sub (Ji.mulVec Fx)
        .ok (x', (x'.sub x).norm)
  err := fun p x' =>
    match p.F x' with
    | .error k => .error k
    | .ok Fx' => .ok Fx'.norm

open EPV.Run

/-- tokens of one line (all decimal numbers: the driver parses every token as a number before dispatching):
`1 gamma rho0 u0 P0 m` set_function | `2 a b c` set_new_initial_guess | `3 tol` set_new_tolerance |
`4 n` set_new_max_iteration | `5` solve   (floats as bit patterns) -/
def parseOps : List String → List (Op PR V3 Float)
  | [] => []
  | t :: rest =>
    if t == "5" then .solve :: parseOps rest
    else if t == "3" then
      match rest with
      | e :: rest' => .setTolerance (parseFloatBits e) :: parseOps rest'
      | _ => []
    else if t == "4" then
      match rest with
      | n :: rest' => .setMaxIter n.toNat! :: parseOps rest'
      | _ => []
    else if t == "2" then
      match rest with
      | a :: b :: c :: rest' => .setGuess ⟨parseFloatBits a, parseFloatBits b, parseFloatBits c⟩ :: parseOps rest'
      | _ => []
    else if t == "1" then
      match rest with
      | g :: r0 :: u0 :: p0 :: m :: rest' =>
        .setFunction ⟨parseFloatBits g, parseFloatBits r0, parseFloatBits u0, parseFloatBits p0, m.toNat!⟩ :: parseOps rest'
      | _ => []
    else []
termination_by l => l.length
decreasing_by all_goals simp_wf <;> omega

def showOut : Out V3 Float → String
  | .done => "ok"
  | .raised k => "raise:" ++ k
  | .converged x it res err =>
    s!"converged {it} {showFloatBits x.a} {showFloatBits x.b} {showFloatBits x.c} {showFloatBits res} {showFloatBits err}"

/-- line protocol: `NewtonObj <tokens>`; answer: the outcome of every operation, separated by ` | ` -/
def driver (args : List String) : String :=
  " | ".intercalate (((run floatSem (parseOps args) (fresh floatSem)).2).map showOut)

end EPV.Model.NewtonObject
