/-
Hand model of `newton_solvers.py:newton_solver.solve` (Mathlib-free, executable).

    iteration_counter = 0 ; x_old = initial_guess          # residual = error = 10 (set_new_initial_guess)
    while residual > tolerance or error > tolerance:
        if iteration_counter >= max_iterations: raise IterationError
        J_inv = F_prime_inv(x_old) ; F_x = F(x_old)
        x_new = x_old - dot(J_inv, F_x)
        residual = norm(x_new - x_old) ; error = norm(F(x_new))
        x_old = x_new ; iteration_counter += 1
    return x_old, iteration_counter, residual, error

`loop` is that loop with fuel = max_iterations - iteration_counter; it is generic in the state type `X`, the
scalar type `α` and the comparison `gt`, so the same definition is run on `Float` by the correspondence
driver (below) and reasoned about over `ℝ` in `EPV/Props/C16/Newton.lean`.  Exceptions raised inside one
update (ZeroDensityError, ZeroDeterminantError, EOS errors) leave `solve` — `Result.raised`.

-- driver: Newton EPV.Model.Newton.driver
-/
import EPV.Run.Base

namespace EPV.Model.Newton

/-- what `solve` does: returns (solution, iterations, residual, error), raises IterationError, or lets an
exception of the residual class escape -/
inductive Result (X α : Type) where
  | converged (x : X) (iters : Nat) (residual error : α)
  | iterationError
  | raised (kind : String)

/-- the `while` loop; `step x = (x_new, ‖x_new - x‖, ‖F x_new‖)` or the exception it raised -/
def loop {X α : Type} (gt : α → α → Bool) (step : X → Except String (X × α × α)) (tol : α) :
    Nat → X → α → α → Nat → Result X α
  | 0, x, res, err, it =>
    if gt res tol || gt err tol then .iterationError else .converged x it res err
  | fuel + 1, x, res, err, it =>
    if gt res tol || gt err tol then
      match step x with
      | .error k => .raised k
      | .ok (x', r', e') => loop gt step tol fuel x' r' e' (it + 1)
    else .converged x it res err

/-- one Newton update as `solve` performs it: evaluation order `F_prime_inv(x)`, `F(x)`, then `F(x_new)` -/
def newtonStep {X M V α : Type} (Finv : X → Except String M) (F : X → Except String V)
    (upd : X → M → V → X) (dist : X → X → α) (norm : V → α) (x : X) : Except String (X × α × α) :=
  match Finv x with
  | .error k => .error k
  | .ok Ji =>
    match F x with
    | .error k => .error k
    | .ok Fx =>
      let x' := upd x Ji Fx
      match F x' with
      | .error k => .error k
      | .ok Fx' => .ok (x', dist x' x, norm Fx')

/-- `solve()` after `set_new_initial_guess(x0)`: residual = error = 10 -/
def solve {X α : Type} (gt : α → α → Bool) (step : X → Except String (X × α × α)) (tol ten : α)
    (maxIter : Nat) (x0 : X) : Result X α :=
  loop gt step tol maxIter x0 ten ten 0

/-! ### Float instance for the correspondence: `pressure_noh_residual` with `ideal_gas_eos` -/

structure V3 where
  a : Float
  b : Float
  c : Float

structure M3 where
  r0 : V3
  r1 : V3
  r2 : V3

def V3.dot (u v : V3) : Float := u.a * v.a + u.b * v.b + u.c * v.c
def V3.sub (u v : V3) : V3 := ⟨u.a - v.a, u.b - v.b, u.c - v.c⟩
/-- `numpy.linalg.norm` of a 3-vector -/
def V3.norm (u : V3) : Float := Float.sqrt (u.a * u.a + u.b * u.b + u.c * u.c)
/-- `numpy.dot(M, v)` -/
def M3.mulVec (m : M3) (v : V3) : V3 := ⟨m.r0.dot v, m.r1.dot v, m.r2.dot v⟩
def M3.det (m : M3) : Float :=
  m.r0.a * (m.r1.b * m.r2.c - m.r1.c * m.r2.b) - m.r0.b * (m.r1.a * m.r2.c - m.r1.c * m.r2.a)
    + m.r0.c * (m.r1.a * m.r2.b - m.r1.b * m.r2.a)
/-- `numpy.linalg.inv` as adjugate / determinant -/
def M3.inv (m : M3) : M3 :=
  let d := m.det
  ⟨⟨(m.r1.b * m.r2.c - m.r1.c * m.r2.b) / d, (m.r0.c * m.r2.b - m.r0.b * m.r2.c) / d, (m.r0.b * m.r1.c - m.r0.c * m.r1.b) / d⟩,
   ⟨(m.r1.c * m.r2.a - m.r1.a * m.r2.c) / d, (m.r0.a * m.r2.c - m.r0.c * m.r2.a) / d, (m.r0.c * m.r1.a - m.r0.a * m.r1.c) / d⟩,
   ⟨(m.r1.a * m.r2.b - m.r1.b * m.r2.a) / d, (m.r0.b * m.r2.a - m.r0.a * m.r2.b) / d, (m.r0.a * m.r1.b - m.r0.b * m.r1.a) / d⟩⟩

/-- parameters of the ideal-gas pressure residual -/
structure PR where
  gamma : Float
  rho0 : Float
  u0 : Float
  P0 : Float
  /-- symmetry m = 0, 1, 2 -/
  m : Nat

/-- `ideal_gas_eos.e(rho_0, P_0)` -/
def PR.e0 (p : PR) : Float := p.P0 / (p.rho0 * (p.gamma - 1.0))

/-- `pressure_noh_residual.F` with `ideal_gas_eos` -/
def PR.F (p : PR) (x : V3) : Except String V3 :=
  let rho := x.a; let e := x.b; let D := x.c
  if rho == 0.0 then .error "ZeroDensityError" else
  .ok ⟨rho - p.rho0 * Float.pow (1.0 - p.u0 / D) (Float.ofNat (p.m + 1)),
       rho * e * (p.gamma - 1.0) - p.P0 + rho * p.u0 * D,
       e - p.e0 - 0.5 * Float.pow p.u0 2.0 + (p.u0 / rho) * (p.P0 / D)⟩

/-- `pressure_noh_residual.F_prime` with `ideal_gas_eos` -/
def PR.J (p : PR) (x : V3) : M3 :=
  let rho := x.a; let e := x.b; let D := x.c
  ⟨⟨1.0, 0.0, -(Float.ofNat (p.m + 1)) * p.rho0 * Float.pow (1.0 - p.u0 / D) (Float.ofNat p.m) * (p.u0 / Float.pow D 2.0)⟩,
   ⟨e * (p.gamma - 1.0) + p.u0 * D, rho * (p.gamma - 1.0), rho * p.u0⟩,
   ⟨(p.u0 * p.P0) / (Float.pow rho 2.0 * D), 1.0, -(p.u0 * p.P0) / (rho * Float.pow D 2.0)⟩⟩

/-- `pressure_noh_residual.F_prime_inv` -/
def PR.Finv (p : PR) (x : V3) : Except String M3 :=
  if x.a == 0.0 then .error "ZeroDensityError" else
  let j := p.J x
  if j.det == 0.0 then .error "ZeroDeterminantError" else .ok j.inv

def PR.step (p : PR) : V3 → Except String (V3 × Float × Float) :=
  newtonStep p.Finv p.F (fun x Ji Fx => x.sub (Ji.mulVec Fx)) (fun a b => (a.sub b).norm) V3.norm

open EPV.Run in
/-- line protocol: `Newton gamma rho0 u0 P0 m tol maxIter g0 g1 g2` (floats as bit patterns, m and maxIter decimal) -/
def driver (args : List String) : String :=
  match args with
  | [g, r0, u0, p0, m, tol, mx, a, b, c] =>
    let p : PR := ⟨parseFloatBits g, parseFloatBits r0, parseFloatBits u0, parseFloatBits p0, m.toNat!⟩
    match solve (fun x y => x > y) p.step (parseFloatBits tol) 10.0 mx.toNat! ⟨parseFloatBits a, parseFloatBits b, parseFloatBits c⟩ with
    | .converged x it res err =>
      s!"converged {it} {showFloatBits x.a} {showFloatBits x.b} {showFloatBits x.c} {showFloatBits res} {showFloatBits err}"
    | .iterationError => "raise:IterationError"
    | .raised k => "raise:" ++ k
  | _ => "bad-args"

end EPV.Model.Newton
