/-
Hand model (executable, Mathlib-free): `SteadyDetonationReactionZone._run` — the internal time grid,
the profile on it, and the interpolation back to the user's positions — for final times t ≤ 1
(reaction in progress everywhere; for t > 1 the grid code reads `xvec_rel[it1]` before assigning it,
see the C02 finding, and has no model).

    tvec = numpy.linspace(0, t, NP)                    i * (t / (NP-1)), last entry = t
    profile(t_i) = run_tvec(tvec)[i]                   generated Float twin EPV.GenF.SDRZProfile (t_i ≤ 1: the
                                                       maximum.accumulate / clamp passes are no-ops)
    position_i = D * t - position_relative_i           descending in i
    x > position_0       → density = rho_0, everything else 0          (ahead of the front)
    x < position_last    → the values at the last grid time            (behind the oldest particle)
    otherwise            → scipy interp1d (linear) on the reversed arrays:
                           j = clip(searchsorted(xs, x, 'left'), 1, n-1);
                           y = (y_j - y_{j-1}) / (x_j - x_{j-1}) * (x - x_{j-1}) + y_{j-1}
Returned fields, in order: pressure, velocity, density, sound_speed, reaction_progress,
position_relative (`position` is the input).  Tied to the public call by
`harness/o_detonation.py:tie_sdrz_interp`.
-/
import EPV.Run.Base
import EPV.Gen.SDRZProfileF

namespace EPV.Model.SDRZ

open EPV.Run

def linspace0 (t : Float) (np : Nat) : Array Float :=
  let step := t / (np - 1).toFloat
  (Array.range np).map fun i => if i + 1 == np then t else i.toFloat * step + 0.0

/-- columns of the profile on the grid: #[pressure, velocity, density, sound_speed, lambda, x_rel] and positions -/
def profile (D gamma rho0 t : Float) (np : Nat) : Array (Array Float) × Array Float :=
  let tv := linspace0 t np
  let rows := tv.map fun ti => (EPV.GenF.SDRZProfile.eval #[D, gamma, rho0, ti]).2
  -- twin field order: position, pressure, velocity, density, sound_speed, reaction_progress, position_relative
  let cols := (Array.range 6).map fun k => rows.map fun r => r[k + 1]!
  let pos := rows.map fun r => D * t - r[6]!
  (cols, pos)

/-- numpy.searchsorted(xs, x, side='left') on an ascending array -/
def searchLeft (xs : Array Float) (x : Float) : Nat := Id.run do
  let mut k := xs.size
  for i in [0:xs.size] do
    if xs[i]! ≥ x && k == xs.size then k := i
  return k

def interpAt (cols : Array (Array Float)) (pos : Array Float) (rho0 x : Float) : Array Float :=
  let n := pos.size
  if x > pos[0]! then #[0.0, 0.0, rho0, 0.0, 0.0, 0.0]
  else if x < pos[n - 1]! then cols.map fun c => c[n - 1]!
  else
    let xs := pos.reverse
    let j := max 1 (min (searchLeft xs x) (n - 1))
    cols.map fun c =>
      let ys := c.reverse
      (ys[j]! - ys[j - 1]!) / (xs[j]! - xs[j - 1]!) * (x - xs[j - 1]!) + ys[j - 1]!

/-- driver: `sdrz_interp D gamma rho_0 t NP x0 x1 …` → `interp v*6 v*6 …` -/
def driver (args : List String) : String :=
  match args.map parseFloatBits with
  | D :: g :: r0 :: t :: np :: xs =>
    let (cols, pos) := profile D g r0 t np.toUInt64.toNat
    xs.foldl (fun acc x => (interpAt cols pos r0 x).foldl (fun a v => a ++ " " ++ showFloatBits v) acc) "interp"
  | _ => "bad-args"

end EPV.Model.SDRZ

-- driver: sdrz_interp EPV.Model.SDRZ.driver
