/-
C06 — effect model of shared mutable state (module-level globals, class-level
mutable attributes, per-call instance attributes).  Core Lean only.

The extractor (tools/py2lean/effects.py) turns every entry point of a module with
shared mutable locations into a call-free *effect program* over

    r ℓ | w ℓ | wc ℓ c | seq | ite | iteEq ℓ c | loop | skip

(calls inlined; a callback handed to an integrator / root finder / quadrature is a
`loop` of its body; flag-valued locations are tracked by constant propagation because
the code is path-sensitive there: `ramsey.f` reads `sigma` only under `intno == 2`).

`da` is a definite-assignment analysis with constant propagation.  `da_sound` proves:
if `da` accepts a program, then in *every* execution from *every* initial store each
read hits a location the same execution has already written (`cleanFrom`).
`EPV/Props/C06/Effects.lean` lifts that to store-independence of a call and to
arbitrary histories of calls.
-/
namespace EPV.Model.Effects

abbrev Loc := Nat
abbrev Val := Int

inductive Stmt where
  | r (l : Loc)                       -- read of a shared location
  | w (l : Loc)                       -- write of a value computed in this call
  | wc (l : Loc) (c : Val)            -- write of a literal constant (flags)
  | seq (a b : Stmt)
  | ite (a b : Stmt)                  -- data-dependent branch: either side may run
  | iteEq (l : Loc) (c : Val) (a b : Stmt)   -- `if ℓ == c then a else b` (reads ℓ)
  | loop (a : Stmt)                   -- any number of repetitions (loops, callbacks)
  | skip
  deriving Repr, DecidableEq

inductive Ev where
  | r (l : Loc)
  | w (l : Loc)
  deriving DecidableEq, Repr

abbrev Store := Loc → Val

def Store.set (σ : Store) (l : Loc) (v : Val) : Store := fun x => if x = l then v else σ x

/-- big-step executions: `Exec s σ tr σ'` — from store σ the program may produce the event
trace `tr` and end in σ' (values of computed writes are arbitrary) -/
inductive Exec : Stmt → Store → List Ev → Store → Prop where
  | r (l σ) : Exec (.r l) σ [.r l] σ
  | w (l σ v) : Exec (.w l) σ [.w l] (σ.set l v)
  | wc (l c σ) : Exec (.wc l c) σ [.w l] (σ.set l c)
  | seq {a b σ σ₁ σ₂ ta tb} : Exec a σ ta σ₁ → Exec b σ₁ tb σ₂ → Exec (.seq a b) σ (ta ++ tb) σ₂
  | iteL {a b σ σ' t} : Exec a σ t σ' → Exec (.ite a b) σ t σ'
  | iteR {a b σ σ' t} : Exec b σ t σ' → Exec (.ite a b) σ t σ'
  | eqT {l c a b σ σ' t} : σ l = c → Exec a σ t σ' → Exec (.iteEq l c a b) σ (.r l :: t) σ'
  | eqF {l c a b σ σ' t} : σ l ≠ c → Exec b σ t σ' → Exec (.iteEq l c a b) σ (.r l :: t) σ'
  | loopNil {a σ} : Exec (.loop a) σ [] σ
  | loopCons {a σ σ₁ σ₂ t ts} : Exec a σ t σ₁ → Exec (.loop a) σ₁ ts σ₂ → Exec (.loop a) σ (t ++ ts) σ₂
  | skip {σ} : Exec .skip σ [] σ

/-- analysis state: locations definitely written so far in this call, and locations known to
hold a literal constant -/
structure AState where
  wr : List Loc
  kn : List (Loc × Val)
  deriving Repr, DecidableEq

def eraseKn (kn : List (Loc × Val)) (l : Loc) : List (Loc × Val) := kn.filter (fun p => p.1 ≠ l)

def lookupKn (kn : List (Loc × Val)) (l : Loc) : Option Val := (kn.find? (fun p => p.1 = l)).map (·.2)

/-- locations a program may write (syntactic) -/
def writes : Stmt → List Loc
  | .r _ => []
  | .w l => [l]
  | .wc l _ => [l]
  | .seq a b => writes a ++ writes b
  | .ite a b => writes a ++ writes b
  | .iteEq _ _ a b => writes a ++ writes b
  | .loop a => writes a
  | .skip => []

def merge (x y : AState) : AState :=
  { wr := x.wr.filter (· ∈ y.wr), kn := x.kn.filter (· ∈ y.kn) }

/-- definite assignment with constant propagation: `none` if some read may precede its write -/
def da : Stmt → AState → Option AState
  | .r l, s => if l ∈ s.wr then some s else none
  | .w l, s => some { wr := l :: s.wr, kn := eraseKn s.kn l }
  | .wc l c, s => some { wr := l :: s.wr, kn := (l, c) :: eraseKn s.kn l }
  | .seq a b, s => (da a s).bind (da b)
  | .ite a b, s =>
    match da a s, da b s with
    | some x, some y => some (merge x y)
    | _, _ => none
  | .iteEq l c a b, s =>
    if l ∈ s.wr then
      match lookupKn s.kn l with
      | some c' => if c' = c then da a s else da b s
      | none =>
        match da a s, da b s with
        | some x, some y => some (merge x y)
        | _, _ => none
    else none
  | .loop a, s =>
    let s' : AState := { wr := s.wr, kn := s.kn.filter (fun p => p.1 ∉ writes a) }
    match da a s' with
    | some _ => some s'
    | none => none
  | .skip, s => some s

/-- a trace is clean from `d` if every read hits `d` or an earlier write of the same trace -/
def cleanFrom : List Ev → List Loc → Bool
  | [], _ => true
  | .r l :: t, d => decide (l ∈ d) && cleanFrom t d
  | .w l :: t, d => cleanFrom t (l :: d)

/-- locations written by a trace, added to `d` -/
def after : List Ev → List Loc → List Loc
  | [], d => d
  | .r _ :: t, d => after t d
  | .w l :: t, d => after t (l :: d)

/-- the known-constants part of an analysis state is true of a store -/
def KnSound (kn : List (Loc × Val)) (σ : Store) : Prop := ∀ p ∈ kn, σ p.1 = p.2

/-! ### lemmas about traces -/

theorem cleanFrom_mono {t : List Ev} :
    ∀ {d d' : List Loc}, (∀ x, x ∈ d → x ∈ d') → cleanFrom t d = true → cleanFrom t d' = true := by
  induction t with
  | nil => intros; rfl
  | cons e t ih =>
    intro d d' h hc
    cases e with
    | r l =>
      simp only [cleanFrom, Bool.and_eq_true, decide_eq_true_eq] at hc ⊢
      exact ⟨h _ hc.1, ih h hc.2⟩
    | w l =>
      simp only [cleanFrom] at hc ⊢
      exact ih (fun x hx => by
        rcases List.mem_cons.mp hx with rfl | hx
        · exact List.mem_cons_self
        · exact List.mem_cons_of_mem _ (h x hx)) hc

theorem cleanFrom_append {t1 t2 : List Ev} :
    ∀ {d : List Loc}, cleanFrom t1 d = true → cleanFrom t2 (after t1 d) = true →
      cleanFrom (t1 ++ t2) d = true := by
  induction t1 with
  | nil => intro d _ h; simpa [after] using h
  | cons e t ih =>
    intro d h1 h2
    cases e with
    | r l =>
      simp only [cleanFrom, Bool.and_eq_true, decide_eq_true_eq, List.cons_append, after] at h1 h2 ⊢
      exact ⟨h1.1, ih h1.2 h2⟩
    | w l =>
      simp only [cleanFrom, List.cons_append, after] at h1 h2 ⊢
      exact ih h1 h2

theorem after_mono {t : List Ev} : ∀ {d : List Loc} x, x ∈ d → x ∈ after t d := by
  induction t with
  | nil => intro d x h; exact h
  | cons e t ih =>
    intro d x h
    cases e with
    | r l => exact ih x h
    | w l => exact ih x (List.mem_cons_of_mem _ h)

theorem after_append {t1 t2 : List Ev} :
    ∀ {d : List Loc}, after (t1 ++ t2) d = after t2 (after t1 d) := by
  induction t1 with
  | nil => intro d; rfl
  | cons e t ih =>
    intro d
    cases e with
    | r l => simpa [after] using ih
    | w l => simpa [after] using ih

theorem after_subset {t : List Ev} :
    ∀ {e e' : List Loc}, (∀ y, y ∈ e → y ∈ e') → ∀ y, y ∈ after t e → y ∈ after t e' := by
  induction t with
  | nil => intro e e' h y hy; exact h y hy
  | cons ev t ih =>
    intro e e' h y hy
    cases ev with
    | r l => exact ih h y hy
    | w l =>
      exact ih (fun z hz => by
        rcases List.mem_cons.mp hz with rfl | hz
        · exact List.mem_cons_self
        · exact List.mem_cons_of_mem _ (h z hz)) y hy

/-! ### lemmas about stores -/

theorem set_other {σ : Store} {l x : Loc} {v : Val} (h : x ≠ l) : (σ.set l v) x = σ x := by
  simp [Store.set, h]

theorem set_same {σ : Store} {l : Loc} {v : Val} : (σ.set l v) l = v := by
  simp [Store.set]

/-- a program leaves untouched every location it cannot write -/
theorem exec_frame {s : Stmt} {σ σ' : Store} {t : List Ev} (h : Exec s σ t σ') :
    ∀ x, x ∉ writes s → σ' x = σ x := by
  induction h with
  | r l σ => intro x _; rfl
  | w l σ v => intro x hx; exact set_other (by simpa [writes] using hx)
  | wc l c σ => intro x hx; exact set_other (by simpa [writes] using hx)
  | seq _ _ iha ihb =>
    intro x hx
    simp only [writes, List.mem_append, not_or] at hx
    rw [ihb x hx.2, iha x hx.1]
  | iteL _ ih => intro x hx; simp only [writes, List.mem_append, not_or] at hx; exact ih x hx.1
  | iteR _ ih => intro x hx; simp only [writes, List.mem_append, not_or] at hx; exact ih x hx.2
  | eqT _ _ ih => intro x hx; simp only [writes, List.mem_append, not_or] at hx; exact ih x hx.1
  | eqF _ _ ih => intro x hx; simp only [writes, List.mem_append, not_or] at hx; exact ih x hx.2
  | loopNil => intro x _; rfl
  | loopCons _ _ ih1 ih2 =>
    intro x hx
    rw [ih2 x hx, ih1 x (by simpa [writes] using hx)]
  | skip => intro x _; rfl

theorem knSound_erase {kn : List (Loc × Val)} {σ : Store} {l : Loc} {v : Val} (h : KnSound kn σ) :
    KnSound (eraseKn kn l) (σ.set l v) := by
  intro p hp
  simp only [eraseKn, List.mem_filter, decide_eq_true_eq] at hp
  rw [set_other hp.2]
  exact h p hp.1

theorem lookupKn_sound {kn : List (Loc × Val)} {σ : Store} {l : Loc} {c : Val} (h : KnSound kn σ)
    (hl : lookupKn kn l = some c) : σ l = c := by
  simp only [lookupKn, Option.map_eq_some_iff] at hl
  obtain ⟨p, hp, rfl⟩ := hl
  have hm := List.mem_of_find?_eq_some hp
  have hk := List.find?_some hp
  simp only [decide_eq_true_eq] at hk
  rw [← hk]
  exact h p hm

/-! ### soundness -/

/-- **Soundness.**  If the analysis accepts `s` from state `A` whose constants are true of the
initial store, then every execution is clean from `A.wr`, everything the analysis claims written
is written, and the resulting constants are true of the final store. -/
theorem da_sound {s : Stmt} {σ σ' : Store} {tr : List Ev} (h : Exec s σ tr σ') :
    ∀ {A A' : AState}, da s A = some A' → KnSound A.kn σ →
      cleanFrom tr A.wr = true ∧ (∀ x, x ∈ A'.wr → x ∈ after tr A.wr) ∧ KnSound A'.kn σ' := by
  induction h with
  | r l σ =>
    intro A A' hd hk
    simp only [da] at hd
    split at hd
    · cases hd
      rename_i hmem
      exact ⟨by simp [cleanFrom, hmem], fun x hx => hx, hk⟩
    · cases hd
  | w l σ v =>
    intro A A' hd hk
    simp only [da, Option.some.injEq] at hd
    subst hd
    exact ⟨by simp [cleanFrom], fun x hx => hx, knSound_erase hk⟩
  | wc l c σ =>
    intro A A' hd hk
    simp only [da, Option.some.injEq] at hd
    subst hd
    refine ⟨by simp [cleanFrom], fun x hx => hx, ?_⟩
    intro p hp
    rcases List.mem_cons.mp hp with rfl | hp
    · exact set_same
    · exact knSound_erase hk p hp
  | @seq a b σ σ₁ σ₂ ta tb _ _ iha ihb =>
    intro A A' hd hk
    simp only [da, Option.bind_eq_some_iff] at hd
    obtain ⟨A1, h1, h2⟩ := hd
    obtain ⟨ca, wa, ka⟩ := iha h1 hk
    obtain ⟨cb, wb, kb⟩ := ihb h2 ka
    refine ⟨cleanFrom_append ca (cleanFrom_mono wa cb), ?_, kb⟩
    intro x hx
    rw [after_append]
    exact after_subset wa x (wb x hx)
  | @iteL a b σ σ' t _ ih =>
    intro A A' hd hk
    simp only [da] at hd
    split at hd
    · rename_i x y ha hb
      cases hd
      obtain ⟨c, w, k⟩ := ih ha hk
      refine ⟨c, fun z hz => w z ?_, fun p hp => k p ?_⟩
      · exact (List.mem_filter.mp hz).1
      · exact (List.mem_filter.mp hp).1
    · cases hd
  | @iteR a b σ σ' t _ ih =>
    intro A A' hd hk
    simp only [da] at hd
    split at hd
    · rename_i x y ha hb
      cases hd
      obtain ⟨c, w, k⟩ := ih hb hk
      refine ⟨c, fun z hz => w z ?_, fun p hp => k p ?_⟩
      · simpa using (List.mem_filter.mp hz).2
      · simpa using (List.mem_filter.mp hp).2
    · cases hd
  | @eqT l c a b σ σ' t hσ _ ih =>
    intro A A' hd hk
    simp only [da] at hd
    split at hd
    · rename_i hmem
      split at hd
      · rename_i c' hl
        have hc' : σ l = c' := lookupKn_sound hk hl
        split at hd
        · obtain ⟨cl, w, k⟩ := ih hd hk
          exact ⟨by simp [cleanFrom, hmem, cl], fun x hx => by simpa [after] using w x hx, k⟩
        · rename_i hne
          exact absurd (hc'.symm.trans hσ) hne
      · split at hd
        · rename_i x y ha hb
          cases hd
          obtain ⟨cl, w, k⟩ := ih ha hk
          refine ⟨by simp [cleanFrom, hmem, cl], fun z hz => ?_, fun p hp => k p ?_⟩
          · simpa [after] using w z (List.mem_filter.mp hz).1
          · exact (List.mem_filter.mp hp).1
        · cases hd
    · cases hd
  | @eqF l c a b σ σ' t hσ _ ih =>
    intro A A' hd hk
    simp only [da] at hd
    split at hd
    · rename_i hmem
      split at hd
      · rename_i c' hl
        have hc' : σ l = c' := lookupKn_sound hk hl
        split at hd
        · rename_i heq
          exact absurd (hc'.trans heq) hσ
        · obtain ⟨cl, w, k⟩ := ih hd hk
          exact ⟨by simp [cleanFrom, hmem, cl], fun x hx => by simpa [after] using w x hx, k⟩
      · split at hd
        · rename_i x y ha hb
          cases hd
          obtain ⟨cl, w, k⟩ := ih hb hk
          refine ⟨by simp [cleanFrom, hmem, cl], fun z hz => ?_, fun p hp => k p ?_⟩
          · have := (List.mem_filter.mp hz).2
            simpa [after] using w z (by simpa using this)
          · have := (List.mem_filter.mp hp).2
            simpa using this
        · cases hd
    · cases hd
  | @loopNil a σ =>
    intro A A' hd hk
    simp only [da] at hd
    split at hd
    · cases hd
      exact ⟨rfl, fun x hx => hx, fun p hp => hk p (List.mem_filter.mp hp).1⟩
    · cases hd
  | @loopCons a σ σ₁ σ₂ t ts hbody _ ih1 ih2 =>
    intro A A' hd hk
    have hd0 := hd
    simp only [da] at hd
    split at hd
    · rename_i B hB
      cases hd
      -- the loop state: same written set, constants of locations the body cannot write
      have hk' : KnSound (A.kn.filter (fun p => p.1 ∉ writes a)) σ :=
        fun p hp => hk p (List.mem_filter.mp hp).1
      obtain ⟨c1, _, _⟩ := ih1 (A := { wr := A.wr, kn := A.kn.filter (fun p => p.1 ∉ writes a) }) hB hk'
      -- after one iteration those constants are still true (frame)
      have hk1 : KnSound A.kn.attach.unattach σ₁ → True := fun _ => trivial
      have hkσ₁ : KnSound (A.kn.filter (fun p => p.1 ∉ writes a)) σ₁ := by
        intro p hp
        have hp' := List.mem_filter.mp hp
        have hnot : p.1 ∉ writes a := by simpa using hp'.2
        rw [exec_frame hbody p.1 hnot]
        exact hk p hp'.1
      -- run the rest of the loop from the loop state itself
      have hd1 : da (.loop a) { wr := A.wr, kn := A.kn.filter (fun p => p.1 ∉ writes a) }
          = some { wr := A.wr, kn := (A.kn.filter (fun p => p.1 ∉ writes a)).filter (fun p => p.1 ∉ writes a) } := by
        simp only [da]
        have : (A.kn.filter (fun p => p.1 ∉ writes a)).filter (fun p => p.1 ∉ writes a)
            = A.kn.filter (fun p => p.1 ∉ writes a) := by
          rw [List.filter_filter]; congr 1; funext p; simp
        rw [this, hB]
      obtain ⟨c2, w2, k2⟩ := ih2 hd1 hkσ₁
      refine ⟨cleanFrom_append c1 (cleanFrom_mono (fun x hx => after_mono x hx) c2), ?_, ?_⟩
      · intro x hx
        rw [after_append]
        exact after_mono x (after_mono x hx)
      · intro p hp
        apply k2 p
        rw [List.filter_filter]
        have hp' := List.mem_filter.mp hp
        exact List.mem_filter.mpr ⟨hp'.1, by simpa using hp'.2⟩
    · cases hd
  | skip =>
    intro A A' hd hk
    simp only [da, Option.some.injEq] at hd
    subst hd
    exact ⟨rfl, fun x hx => hx, hk⟩

/-- the empty analysis state: nothing written yet, nothing known -/
def A0 : AState := { wr := [], kn := [] }

/-- **Corollary.**  An accepted entry point, started from *any* store (any history of earlier
calls and constructions), reads only what it has itself written. -/
theorem accepted_clean {s : Stmt} (hacc : (da s A0).isSome = true) {σ σ' : Store} {tr : List Ev}
    (h : Exec s σ tr σ') : cleanFrom tr [] = true := by
  obtain ⟨A', hA'⟩ := Option.isSome_iff_exists.mp hacc
  exact (da_sound h hA' (fun p hp => by simp [A0] at hp)).1

end EPV.Model.Effects
