/-
Hand model of the assembly in `Sedov._run` (exactpack/solvers/sedov/sedov.py:182-380),
Mathlib-free and executable on `Float`, for the correspondence run (harness/o_sedov.py:tie_assemble).

What `_run(r, t)` does for t > 0:
  1. shock radius r2 = (E/(α ρ₀))^(1/xg2) · t^(2/xg2), xg2 = k + 2 - ω; pre-shock density at the
     shock ρ₁ = ρ₀ r2^(-ω); shock speed us = (2/xg2) r2/t; post-shock state u₂ = 2us/(γ+1),
     ρ₂ = (γ+1)/(γ-1) ρ₁, p₂ = 2ρ₁us²/(γ+1)                                   (lines 220-234)
  2. on a grid of 3001 nodes between max(r) and 0 (descending) it stores, per node rn:
       rn ≤ r2 :  (ρ₂ g, u₂ f, p₂ h)  with (f, g, h) the similarity functions at λ = rn/r2
                  (root finding + `sedov_funcs_standard`, or the singular / vacuum closed forms)
       rn > r2 :  (ρ₀ rn^(-ω), 0, 0)        — the undisturbed initial state     (lines 262-324)
     it stops early when the root stops moving, drops the last node evaluated and appends the
     origin node (0, ρ₂ g₀, 0, p₂ h₀) with the velocity set to 0                (lines 326-355)
  3. density, velocity, pressure at the user's points are linear interpolants of the node
     values (`interp1d`, which delegates to `numpy.interp`)                     (lines 359-366)
  4. specific_internal_energy = p/(γ-1)/ρ,  sound_speed = (γ p/ρ)^(1/2) from the interpolated
     p and ρ                                                                    (lines 369-370)

The numerical atoms are arguments: `alpha` (energy integral), and for the two grid nodes that
bracket the user's point their radii and the values (f, g, h) the real run obtained there
(captured by wrapping `physical` and `interp1d` for one call).  Everything else — which
branch a node takes, the shock state, scaling, interpolation, the two derived fields — is
computed here and compared with what the real call returned.

-- driver: SedovAssemble EPV.Model.Sedov.run
-/
import EPV.Run.Base

namespace EPV.Model.Sedov

open EPV.Run

structure Params where
  geometry : Float
  gamma : Float
  rho0 : Float
  omega : Float
  eblast : Float
  alpha : Float

structure Shock where
  r2 : Float
  rho1 : Float
  us : Float
  u2 : Float
  rho2 : Float
  p2 : Float

/-- lines 220-234 -/
def shock (q : Params) (t : Float) : Shock :=
  let xg2 := q.geometry + 2.0 - q.omega
  let gamp1 := q.gamma + 1.0
  let gamm1 := q.gamma - 1.0
  let gpogm := gamp1 / gamm1
  let r2 := Float.pow (q.eblast / (q.alpha * q.rho0)) (1.0 / xg2) * Float.pow t (2.0 / xg2)
  let rho1 := q.rho0 * Float.pow r2 (-q.omega)
  let us := (2.0 / xg2) * r2 / t
  let u2 := 2.0 * us / gamp1
  let rho2 := gpogm * rho1
  let p2 := 2.0 * rho1 * (us * us) / gamp1
  { r2 := r2, rho1 := rho1, us := us, u2 := u2, rho2 := rho2, p2 := p2 }

structure State where
  density : Float
  velocity : Float
  pressure : Float

/-- the value stored for the grid node at radius `rn` (pre/post-shock selection, similarity
scaling by `physical`, origin node with zero velocity) -/
def node (q : Params) (s : Shock) (rn f g h : Float) : State :=
  if rn <= s.r2 then
    { density := s.rho2 * g, velocity := if rn == 0.0 then 0.0 else s.u2 * f, pressure := s.p2 * h }
  else
    { density := q.rho0 * Float.pow rn (-q.omega), velocity := 0.0, pressure := 0.0 }

/-- `numpy.interp` between the nodes (xa, ya), (xb, yb), xa ≤ x < xb (or x = xb = last node) -/
def lerp (xa ya xb yb x : Float) : Float :=
  if x == xa then ya
  else if x == xb then yb
  else ((yb - ya) / (xb - xa)) * (x - xa) + ya

structure Fields where
  density : Float
  pressure : Float
  sie : Float
  velocity : Float
  sound : Float

/-- the returned fields at the user's point `x`, bracketed by the nodes `xa ≤ x ≤ xb` -/
def assemble (q : Params) (t x xa fa ga ha xb fb gb hb : Float) : Shock × Fields :=
  let s := shock q t
  let a := node q s xa fa ga ha
  let b := node q s xb fb gb hb
  let rho := lerp xa a.density xb b.density x
  let u := lerp xa a.velocity xb b.velocity x
  let p := lerp xa a.pressure xb b.pressure x
  let gamm1 := q.gamma - 1.0
  (s, { density := rho, pressure := p, sie := p / gamm1 / rho, velocity := u,
        sound := Float.pow (q.gamma * p / rho) (1.0 / 2.0) })

/-- line protocol: geometry gamma rho0 omega eblast alpha t x xa fa ga ha xb fb gb hb (bit patterns)
→ `ok r2 rho2 u2 p2 density pressure sie velocity sound`, or `nan` for t ≤ 0 (line 185) -/
def run (args : List String) : String :=
  match args.map parseFloatBits with
  | [k, gam, rho0, om, e, al, t, x, xa, fa, ga, ha, xb, fb, gb, hb] =>
    if t <= 0.0 then "nan"
    else
      let q : Params := { geometry := k, gamma := gam, rho0 := rho0, omega := om, eblast := e, alpha := al }
      let (s, f) := assemble q t x xa fa ga ha xb fb gb hb
      showResult ("ok", #[s.r2, s.rho2, s.u2, s.p2, f.density, f.pressure, f.sie, f.velocity, f.sound])
  | _ => "bad-arity"

end EPV.Model.Sedov
