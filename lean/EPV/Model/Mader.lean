/-
Hand model (executable, Mathlib-free): the cell loop of `exactpack/solvers/mader/rarefaction.py:mader`
around the traced `rare` (generated Float twin `EPV.GenF.MaderRare`, regenerated from the source on
every run):

    nstep = len(x);  dx = (x[-1] - x[0]) / nstep          -- the cell width comes from the batch
    t <= 0  →  every field NaN ("There is no valid solution at t = 0")
    else    →  (u, p, c, rho, xdet)[i] = rare(t, x[i], dx, p_cj, d_cj, gamma, u_piston)

and `Mader._run`, which returns the fields in the order position, velocity, pressure, sound_speed,
density, xdet.  Tied to the public call by `harness/o_detonation.py:tie_mader_cells`.
-/
import EPV.Run.Base
import EPV.Gen.MaderRareF

namespace EPV.Model.Mader

open EPV.Run

/-- one record per point: (tag, #[velocity, pressure, sound_speed, density, xdet]) -/
def cells (t p_cj d_cj gamma u_piston : Float) (xs : Array Float) : Array (String × Array Float) :=
  let n := xs.size
  let dx := (xs[n - 1]! - xs[0]!) / n.toFloat
  xs.map fun x =>
    if t ≤ 0.0 then ("nan", #[])
    else EPV.GenF.MaderRare.eval #[d_cj, dx, gamma, p_cj, u_piston, x, t]

/-- driver: `mader_cells t p_cj d_cj gamma u_piston x0 x1 …` → `cells <tag> v v v v v <tag> …` -/
def driver (args : List String) : String :=
  match args.map parseFloatBits with
  | t :: pcj :: dcj :: g :: up :: xs =>
    if xs.isEmpty then "bad-args"
    else (cells t pcj dcj g up xs.toArray).foldl (fun acc r => acc ++ " " ++ showResult r) "cells"
  | _ => "bad-args"

end EPV.Model.Mader

-- driver: mader_cells EPV.Model.Mader.driver
