/-
Hand model of `exactpack/base.py` (Mathlib-free, executable):

* `construct` mirrors `ExactSolver.__init__` line by line:
      if not params.keys() <= set(self.parameters): raise ValueError("Unknown parameters: …")
      self.__dict__.update(params)
      for param in self.parameters:
          if not hasattr(self, param): raise ValueError("Missing parameter: …")
  (`hasattr` sees the given keywords and the class-level defaults);
* `call` is what `__call__`/`_run` do for a solver whose value at a point does not
  depend on the other points: one record per point, in the order given, whose first
  component is the point itself;
* `dump`/`read` model `ExactSolution.dump` (csv.writer, QUOTE_MINIMAL) and reading the
  file back, for fields that contain no separator or line break — which is the case
  for the standard field names and for `repr` of a finite double.
-/
namespace EPV.Model.Base

inductive Err where
  | unknown (names : List String)
  | missing (name : String)
  deriving DecidableEq, Repr

/-- `ExactSolver.__init__(**given)` for a class with these declared / class-defaulted parameters -/
def construct (declared defaulted given : List String) : Except Err Unit :=
  if given.all (fun g => declared.contains g) then
    match declared.find? (fun d => !(given.contains d || defaulted.contains d)) with
    | some d => .error (.missing d)
    | none => .ok ()
  else .error (.unknown (given.filter (fun g => !declared.contains g)))

/-- a point-wise solver applied to a batch -/
def call {α β : Type} (f : α → β) (pts : List α) : List (α × β) :=
  pts.map (fun x => (x, f x))

/-- one csv row: fields joined by commas (no quoting needed for these fields) -/
def dumpRow (fs : List (List Char)) : List Char := [','].intercalate fs

/-- the csv file: header row, then one row per record -/
def dump (names : List (List Char)) (rows : List (List (List Char))) : List Char :=
  ['\n'].intercalate ((names :: rows).map dumpRow)

/- driver for the correspondence: `base.construct <declared> <defaulted> <given>`, lists comma-joined, `-` = empty -/
def parseList (s : String) : List String :=
  if s == "-" then [] else s.splitOn ","

def constructDriver (args : List String) : String :=
  match args with
  | [d, f, g] =>
    match construct (parseList d) (parseList f) (parseList g) with
    | .ok () => "ok"
    | .error (.unknown _) => "unknown"
    | .error (.missing n) => "missing:" ++ n
  | _ => "bad-op"

end EPV.Model.Base

-- driver: base.construct EPV.Model.Base.constructDriver
