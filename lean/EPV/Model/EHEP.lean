/-
Hand model (executable, Mathlib-free): the region selection of
`exactpack/solvers/ehep/ehep.py` — the polygon corners of `__init__` and the chain of tests in `_run`

    path.Path(corners[R]).contains_point((x, t)) or self.point_on_boundary(corners[R], (x, t))   R = I … V
    path.Path(corners[R]).contains_point((x, t))                                                   R = 00, 0V, 0H

Two versions:
* `region`   mirrors the code operation by operation: matplotlib's `point_in_path` (crossings test
             of the +x ray against every edge incl. the closing one, with its `>=` conventions) and
             `point_on_line` (|d(P,A) + d(P,B) − d(A,B)| < 1e-12, distances as sqrt(dx² + dt²));
* `regionHP` is the specification-level version: every polygon is convex, a point is inside iff it
             is strictly on the same side of every edge (one half-plane per edge, cross products);
             it agrees with `region` (and with the code) away from the edges.
Region codes: 1..5 = I..V, 6 = '00', 7 = '0V', 8 = '0H', 0 = outside every polygon (`region = None`).
These are the values of the atom `region` of the generated model EPV.Gen.EHEP.

Tied to the real code by `harness/o_detonation.py:tie_ehep_region` (random points, points on and next
to every edge and corner).
-/
import EPV.Run.Base

namespace EPV.Model.EHEP

open EPV.Run

abbrev Pt := Float × Float

/-- polygon corners exactly as `__init__` computes them (same operations in the same order) -/
def corners (D up xtilde xmax tmax : Float) : Array (Array Pt) :=
  let ttilde := xtilde / D
  let a : Pt := (xmax, xmax / D)
  let b : Pt := (up * tmax, tmax)
  let c : Pt := ((2.0 * up + D / 2.0) * tmax, tmax)
  let e : Pt := ((-1.5) * xtilde + (2.0 * up + D / 2.0) * tmax, tmax)
  let x0 : Pt := (0.0, tmax)
  let t0 : Pt := (xmax, 0.0)
  let tCD := 1.5 * xtilde / (2.0 * up + D)
  let xCD := 1.5 * xtilde * (1.0 - D / (4.0 * up + 2.0 * D))
  let tBD := 3.0 * xtilde / (2.0 * up + D)
  let xBD := up * tBD
  let o : Pt := (0.0, 0.0)
  let s : Pt := (xtilde, ttilde)
  let cd : Pt := (xCD, tCD)
  let bd : Pt := (xBD, tBD)
  #[ #[o, s, cd],                        -- I
     #[s, cd, c, a],                     -- II
     #[o, cd, bd],                       -- III
     #[cd, bd, e, c],                    -- IV
     #[bd, b, e],                        -- V
     #[o, x0, b],                        -- 00
     #[(xtilde, 0.0), s, a, t0],         -- 0V
     #[o, s, (xtilde, 0.0)] ]            -- 0H

/-- matplotlib `point_in_path` for one closed polygon, radius 0: crossings of the +x ray -/
def containsPoint (poly : Array Pt) (p : Pt) : Bool := Id.run do
  let n := poly.size
  if n == 0 then return false
  let (tx, ty) := p
  let mut inside := false
  let mut v0 := poly[0]!
  let mut yflag0 := decide (v0.2 ≥ ty)
  for i in [1:n+1] do
    let v1 := poly[i % n]!
    let yflag1 := decide (v1.2 ≥ ty)
    if yflag0 != yflag1 then
      if (decide ((v1.2 - ty) * (v0.1 - v1.1) ≥ (v1.1 - tx) * (v0.2 - v1.2))) == yflag1 then
        inside := !inside
    yflag0 := yflag1
    v0 := v1
  return inside

def hypot (x y : Float) : Float := Float.sqrt (x * x + y * y)

/-- `point_on_line` -/
def onLine (a b p : Pt) (tol : Float) : Bool :=
  let d01 := hypot (a.1 - b.1) (a.2 - b.2)
  let dp0 := hypot (a.1 - p.1) (a.2 - p.2)
  let dp1 := hypot (b.1 - p.1) (b.2 - p.2)
  Float.abs (dp0 + dp1 - d01) < tol

/-- `point_on_boundary` -/
def onBoundary (poly : Array Pt) (p : Pt) (tol : Float := 1e-12) : Bool := Id.run do
  let n := poly.size
  let mut r := false
  for i in [0:n] do
    if onLine poly[i]! poly[(i + 1) % n]! p tol then r := true
  return r

/-- the chain of tests of `_run` -/
def region (D up xtilde xmax tmax x t : Float) : Nat := Id.run do
  let cs := corners D up xtilde xmax tmax
  let p : Pt := (x, t)
  for k in [0:5] do
    if containsPoint cs[k]! p || onBoundary cs[k]! p then return k + 1
  for k in [5:8] do
    if containsPoint cs[k]! p then return k + 1
  return 0

/-- cross product (b − a) × (p − a): its sign says on which side of the edge a → b the point lies -/
def cross (a b p : Pt) : Float := (b.1 - a.1) * (p.2 - a.2) - (b.2 - a.2) * (p.1 - a.1)

/-- strictly inside a convex polygon: the same strict side of every edge (one half-plane per edge) -/
def insideHP (poly : Array Pt) (p : Pt) : Bool := Id.run do
  let n := poly.size
  let mut pos := true
  let mut neg := true
  for i in [0:n] do
    let c := cross poly[i]! poly[(i + 1) % n]! p
    if !(c > 0.0) then pos := false
    if !(c < 0.0) then neg := false
  return pos || neg

/-- region selection by half-planes -/
def regionHP (D up xtilde xmax tmax x t : Float) : Nat := Id.run do
  let cs := corners D up xtilde xmax tmax
  for k in [0:8] do
    if insideHP cs[k]! (x, t) then return k + 1
  return 0

/-- smallest distance-sum excess `d(P,A) + d(P,B) − d(A,B)` over all edges of all polygons: how close the
point is to an edge (the tie skips the half-plane comparison for points within the closed-boundary tolerance) -/
def edgeExcess (D up xtilde xmax tmax x t : Float) : Float := Id.run do
  let cs := corners D up xtilde xmax tmax
  let mut m := 1.0e300
  for poly in cs do
    let n := poly.size
    for i in [0:n] do
      let a := poly[i]!
      let b := poly[(i + 1) % n]!
      let d := Float.abs (hypot (a.1 - x) (a.2 - t) + hypot (b.1 - x) (b.2 - t) - hypot (a.1 - b.1) (a.2 - b.2))
      if d < m then m := d
  return m

/-- driver: `ehep_region D up xtilde xmax tmax x t` → `region <code> <half-plane code> <edge excess bits>` -/
def driver (args : List String) : String :=
  match args.map parseFloatBits with
  | [D, up, xt, xm, tm, x, t] =>
    s!"region {region D up xt xm tm x t} {regionHP D up xt xm tm x t} {showFloatBits (edgeExcess D up xt xm tm x t)}"
  | _ => "bad-args"

end EPV.Model.EHEP

-- driver: ehep_region EPV.Model.EHEP.driver
