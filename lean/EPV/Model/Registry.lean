/-
Registry of the hand-written executable models (Mathlib-free) for the
correspondence driver.  Arguments arrive as the raw tokens of the line.
-/
import EPV.Run.Base

namespace EPV.Model

def eval (model : String) (args : List String) : Option String :=
  match model with
  | _ => none

end EPV.Model
