/-
Hand model (H) of the ideal-gas Riemann driver `RiemannIGEOS.driver`
(`exactpack/solvers/riemann/riemann.py`, lines 96–201): wave-pattern classification,
star state, region boundaries `Vregs`/`Xregs`, and the `reg_state` sequence that assembles
the solution, evaluated at ONE user point `x`.

The model is *polymorphic in the number type* (`Num α`): the same definitions are
  * run on `Float` by the correspondence driver (`-- driver:` line below) against the real
    `RiemannIGEOS`/`IGEOS_Solver` (tie `harness/o_riemann.py:tie_assembly`), and
  * instantiated with `ℝ` in `EPV/Lemmas/Riemann.lean`, where every helper formula is proved
    equal to the generated model of the corresponding function of `riemann/utils.py`, and
    the property theorems about the assembled solution are stated.

What is NOT in the model (modelled-not-verified, DESIGN §3 item 3): the internal grid
(`linspace`, the `1.1·Xregs` window, `sort`) and the final `interp` of `IGEOS_Solver._run` —
the driver inserts the user points into its grid, so the value returned at a user point is
the value computed here at that point.  The star pressure `px` (scipy `bisect`) is an ATOM:
an argument of the model; theorems carry `X_call px = 0` as a hypothesis.

This file must stay Mathlib-free and must not import generated files.

-- driver: RiemannIG EPV.Model.RiemannIG.driver
-/

namespace EPV.Model.RiemannIG

/-- what the model needs besides `+ - * / -` : literals, `sqrt`, `**`, and the three comparisons
the driver performs (`<=`, `<`, `==`) -/
class Num (α : Type) where
  ofNat : Nat → α
  sqrt : α → α
  pow : α → α → α
  le : α → α → Bool
  lt : α → α → Bool
  beq : α → α → Bool

instance : Num Float where
  ofNat := Float.ofNat
  sqrt := Float.sqrt
  pow := Float.pow
  le a b := a ≤ b
  lt a b := a < b
  beq a b := a == b

section
variable {α : Type} [Add α] [Sub α] [Mul α] [Div α] [Neg α] [Num α]

local notation "n0" => (Num.ofNat 0 : α)
local notation "n1" => (Num.ofNat 1 : α)
local notation "n2" => (Num.ofNat 2 : α)

/-- the eight numbers that define the problem (`SetupRiemannProblem.__init__`) -/
structure Data (α : Type) where
  pl : α
  rl : α
  ul : α
  gl : α
  pr : α
  rr : α
  ur : α
  gr : α

/-- one entry of the driver's `vals` tuple, in its order (p, r, u, e) -/
structure State (α : Type) where
  p : α
  r : α
  u : α
  e : α

/-- `utils.sound_speed`, problem = 'igeos' -/
def soundSpeed (p r g : α) : α := Num.sqrt (g * p / r)

/-- `utils.sie`, problem = 'igeos' (`JWL_fval = 0`) -/
def sie (p r g : α) : α := (p - n0) / (g - n1) / r

/-- `utils.shock` -/
def shock (px p r u g : α) : α :=
  (px - p) * Num.sqrt (n2 / (g + n1) / r / (px + (g - n1) / (g + n1) * p)) + u

/-- `utils.rarefaction` -/
def rarefaction (px p r u g : α) : α :=
  n2 * soundSpeed p r g / (g - n1) * (n1 - Num.pow (px / p) ((g - n1) / n2 / g)) + u

/-- `utils.rho_star_shock` -/
def rhoStarShock (px p r g : α) : α := r * (p * (g - n1) + px * (g + n1)) / (px * (g - n1) + p * (g + n1))

/-- `utils.rho_star_rarefaction` -/
def rhoStarRarefaction (px p r g : α) : α := r * Num.pow (px / p) (n1 / g)

/-- the `==`-based side detection `(p == inst.pl) and (u == inst.ul) and (r == inst.rl)` -/
def isLeft (d : Data α) (p r u : α) : Bool := Num.beq p d.pl && Num.beq u d.ul && Num.beq r d.rl

/-- `utils.shock_velocity` -/
def shockVelocity (d : Data α) (px p r u g : α) : α :=
  let sgn : α := if isLeft d p r u then -n1 else n1
  u + sgn * soundSpeed p r g * Num.sqrt ((g + n1) * px / n2 / g / p + (g - n1) / n2 / g)

/-- `utils.rho_p_u_rarefaction` followed by `sie` (the driver's `rarefaction_region`);
the result is in the order of `vals`: (prs, rho, vel, e) -/
def fanState (d : Data α) (p r u g x xd0 t : α) : State α :=
  let sgn : α := if isLeft d p r u then n1 else -n1
  let a := soundSpeed p r g
  let y := n2 / (g + n1) + sgn * (g - n1) / a / (g + n1) * (u - (x - xd0) / t)
  let v := n2 * (sgn * a + (g - n1) * u / n2 + (x - xd0) / t) / (g + n1)
  let rho := r * Num.pow y (n2 / (g - n1))
  let prs := p * Num.pow y (n2 * g / (g - n1))
  { p := prs, r := rho, u := v, e := sie prs rho g }

/-- classification speeds, all evaluated by the driver at `px = pr` -/
def uSCN (d : Data α) (px : α) : α :=
  d.ul - soundSpeed d.pl d.rl d.gl / d.gl * (px / d.pl - n1)
    / Num.sqrt ((d.gl + n1) / n2 / d.gl * px / d.pl + (d.gl - n1) / n2 / d.gl)

def uNCS (d : Data α) (px : α) : α :=
  d.ul - soundSpeed px d.rr d.gr / d.gr * (d.pl / px - n1)
    / Num.sqrt ((d.gr + n1) / n2 / d.gr * d.pl / px + (d.gr - n1) / n2 / d.gr)

def uNCR (d : Data α) (px : α) : α :=
  d.ul + n2 * soundSpeed px d.rr d.gr / (d.gr - n1) * (n1 - Num.pow (d.pl / px) ((d.gr - n1) / n2 / d.gr))

def uRCN (d : Data α) (px : α) : α :=
  d.ul + n2 * soundSpeed d.pl d.rl d.gl / (d.gl - n1) * (n1 - Num.pow (px / d.pl) ((d.gl - n1) / n2 / d.gl))

/-- `u_RCVR` with `ul_tilde = ul + 2 al/(gl-1)` set by the driver -/
def uRCVR (d : Data α) (px : α) : α :=
  (d.ul + n2 * soundSpeed d.pl d.rl d.gl / (d.gl - n1)) + n2 * soundSpeed px d.rr d.gr / (d.gr - n1)

/-- the wave patterns; `RCVCR` is the vacuum case the driver announces as "not ready" (it then
fails with a NameError), `none` is the fall-through (no branch taken: UnboundLocalError) -/
inductive Pattern where
  | SCS | SCR | RCS | RCR | RCVCR | none
  deriving DecidableEq, Repr, Inhabited

def Pattern.name : Pattern → String
  | .SCS => "SCS" | .SCR => "SCR" | .RCS => "RCS" | .RCR => "RCR" | .RCVCR => "RCVCR" | .none => "none"

/-- the `if/elif` chain of the driver (based on Fig. 3 of Gottlieb & Groth) -/
def classify (d : Data α) : Pattern :=
  let pl := d.pl; let pr := d.pr; let ur := d.ur
  let ge (a b : α) : Bool := Num.le b a
  let gt (a b : α) : Bool := Num.lt b a
  let sCN := uSCN d pr; let nCS := uNCS d pr; let nCR := uNCR d pr; let rCN := uRCN d pr
  let rCVR := uRCVR d pr
  if (ge pr pl && Num.le ur sCN) || (gt pl pr && Num.le ur nCS) then .SCS
  else if ge pr pl && (Num.lt sCN ur && Num.le ur nCR) then .SCR
  else if gt pl pr && (Num.lt nCS ur && Num.le ur rCN) then .RCS
  else if (ge pr pl && (Num.lt nCR ur && Num.le ur rCVR)) || (gt pl pr && (Num.lt rCN ur && Num.le ur rCVR)) then .RCR
  else if gt ur rCVR then .RCVCR
  else .none

/-- star velocity `ux = ul + z * <left wave>(px, pl, rl, 0, gl)` -/
def ux (d : Data α) (pat : Pattern) (px : α) : α :=
  match pat with
  | .SCS | .SCR => d.ul + (-n1) * shock px d.pl d.rl n0 d.gl
  | _ => d.ul + n1 * rarefaction px d.pl d.rl n0 d.gl

def rx1 (d : Data α) (pat : Pattern) (px : α) : α :=
  match pat with
  | .SCS | .SCR => rhoStarShock px d.pl d.rl d.gl
  | _ => rhoStarRarefaction px d.pl d.rl d.gl

def rx2 (d : Data α) (pat : Pattern) (px : α) : α :=
  match pat with
  | .SCS | .RCS => rhoStarShock px d.pr d.rr d.gr
  | _ => rhoStarRarefaction px d.pr d.rr d.gr

def leftState (d : Data α) : State α := { p := d.pl, r := d.rl, u := d.ul, e := sie d.pl d.rl d.gl }
def rightState (d : Data α) : State α := { p := d.pr, r := d.rr, u := d.ur, e := sie d.pr d.rr d.gr }
def starL (d : Data α) (pat : Pattern) (px : α) : State α :=
  { p := px, r := rx1 d pat px, u := ux d pat px, e := sie px (rx1 d pat px) d.gl }
def starR (d : Data α) (pat : Pattern) (px : α) : State α :=
  { p := px, r := rx2 d pat px, u := ux d pat px, e := sie px (rx2 d pat px) d.gr }

/-- `Vregs`: the speeds that bound the regions -/
def vregs (d : Data α) (pat : Pattern) (px : α) : List α :=
  let u := ux d pat px
  let al := soundSpeed d.pl d.rl d.gl
  let ar := soundSpeed d.pr d.rr d.gr
  let ax1 := soundSpeed px (rx1 d pat px) d.gl
  let ax2 := soundSpeed px (rx2 d pat px) d.gr
  match pat with
  | .SCS => [shockVelocity d px d.pl d.rl d.ul d.gl, u, shockVelocity d px d.pr d.rr d.ur d.gr]
  | .SCR => [shockVelocity d px d.pl d.rl d.ul d.gl, u, u + ax2, d.ur + ar]
  | .RCS => [d.ul - al, u - ax1, u, shockVelocity d px d.pr d.rr d.ur d.gr]
  | .RCR => [d.ul - al, u - ax1, u, u + ax2, d.ur + ar]
  | _ => []

/-- the states the `reg_state` calls install, in the order of the calls; a fan entry is
evaluated at the point itself -/
def regStates (d : Data α) (pat : Pattern) (px xd0 x t : α) : List (State α) :=
  let sL := starL d pat px
  let sR := starR d pat px
  let fL := fanState d d.pl d.rl d.ul d.gl x xd0 t
  let fR := fanState d d.pr d.rr d.ur d.gr x xd0 t
  let R := rightState d
  match pat with
  | .SCS => [sL, sR, R]
  | .SCR => [sL, sR, fR, R]
  | .RCS => [fL, sL, sR, R]
  | .RCR => [fL, sL, sR, fR, R]
  | _ => []

/-- `Xregs = xd0 + t * Vregs` -/
def xregs (xd0 t : α) (vs : List α) : List α := vs.map (fun v => xd0 + t * v)

/-- the `reg_state` sequence at one point: start from the left state; each call
`where(xl <= x, regvals, exactvals)` overwrites when its boundary is at or left of `x`.
Returns the region index (0 = left state, i = installed by the i-th call) and the state. -/
def assemble (x : α) : List α → List (State α) → Nat → Nat × State α → Nat × State α
  | X :: Xs, s :: ss, i, cur => assemble x Xs ss (i + 1) (if Num.le X x then (i + 1, s) else cur)
  | _, _, _, cur => cur

/-- the solution at one point, for a given pattern -/
def solveWith (d : Data α) (pat : Pattern) (px xd0 x t : α) : Nat × State α :=
  assemble x (xregs xd0 t (vregs d pat px)) (regStates d pat px xd0 x t) 0 (0, leftState d)

/-- pattern, region index and (p, ρ, u, e) at `x` -/
def solve (d : Data α) (px xd0 x t : α) : Pattern × Nat × State α :=
  let pat := classify d
  (pat, solveWith d pat px xd0 x t)

end

/-! ### line-protocol driver (Float) -/

def bitsToFloat (s : String) : Float := Float.ofBits (s.toNat!).toUInt64
def floatToBits (f : Float) : String := toString f.toBits.toNat

/-- input tokens: pl rl ul gl pr rr ur gr px xd0 x t (decimal UInt64 bit patterns);
output: `<pattern> <region> <p> <r> <u> <e> <V0> <V1> …` -/
def driver (args : List String) : String :=
  match args.map bitsToFloat with
  | [pl, rl, ul, gl, pr, rr, ur, gr, px, xd0, x, t] =>
    let d : Data Float := { pl := pl, rl := rl, ul := ul, gl := gl, pr := pr, rr := rr, ur := ur, gr := gr }
    let (pat, reg, s) := solve d px xd0 x t
    let vs := vregs d pat px
    String.intercalate " " ([pat.name, toString reg, floatToBits s.p, floatToBits s.r, floatToBits s.u, floatToBits s.e]
      ++ vs.map floatToBits)
  | _ => "bad-args"

end EPV.Model.RiemannIG
