/-
Hand model (H) of the GENERAL-EOS Riemann driver `RiemannGenEOS.driver`
(`exactpack/solvers/riemann/riemann.py`, lines 232–414) and of the public wrapper
`GenEOS_Solver._run` (`ep_riemann.py`, lines 192–238), for `problem = 'igeos'` and `problem = 'JWL'`.

Same style as `EPV.Model.RiemannIG`: polymorphic in the number type (`RiemannIG.Num α`, plus `NumE α`
for the exponential of the JWL closure), run on `Float` by the correspondence driver (`-- driver:` line
below; tie `harness/o_geneos.py:tie_geneos`) and instantiated over `ℝ` in `EPV/Lemmas/RiemannGenModel.lean`.

NUMERICAL ATOMS (arguments of the model, captured by the harness from the real call):
  * `rls, uls` / `rrs, urs`  the isentrope tables `r_int_call` obtained from scipy's `ode` (vode/bdf)
                             on the pressure ladder `linspace(p0, 0, n+2)[1:-1]`,
  * `rlx` / `rrx`            the Hugoniot densities `match_shocks` obtained from scipy's `bisect` on
                             `shock_jump` for the ladder `linspace(p0, pmax, n+2)`,
  * `px`                     the `bisect` root of the difference of the two interpolated P–U curves.
Everything else is computed here as the code computes it, in three layers:

  L1 (tables)    pressure ladders (`linspace`), `star_velocity` on the Hugoniot ladder (array call: the
                 inner side detection of `shock_speed` is skipped), the splice, the crossing residual at
                 `px`, the star values `rx1, ux1, rx2, ux2` by `np.interp` in the tables, the three
                 separate `where(… > …)` filters and the `append`s that build the fan tables;
  L2 (assembly)  side classification `px < p0` / `px > p0`, `Vregs` (scalar `shock_speed` with its
                 `==` side detection; fan head/tail `u ∓ a` with the closure's `sound_speed`), `Xregs`,
                 the `reg_state_geos` sequence of each pattern — every region is
                 `where(xl < x, interp(x, xr, regvals), previous)` — evaluated at ONE grid node;
                 the grid nodes the driver looks up with `argmin(|x - Xregs[i]|) ± 1` enter through the
                 functions `prev`, `next`, the right end of the window through `xmaxW`;
  L3 (grid)      the window `min(xmin, 1.1 min Xregs) … max(xmax, 1.1 max Xregs)`, the grid
                 `sort(linspace ++ Xregs ++ [0])` (the wrapper calls `driver()` with `x_user = 0`), the
                 look-ups `prev`/`next`, and the wrapper's final `np.interp` from the grid to a user point.

`np.interp(x, xp, fp)`: `j` = the last index with `xp[j] ≤ x`; `fp[0]` left of the table, `fp[j]` when
`j` is the last index or `xp[j] == x`, else `(fp[j+1]-fp[j])/(xp[j+1]-xp[j]) * (x - xp[j]) + fp[j]`.

NOT in the model: the ODE integrator and the root finders themselves (atoms), the bracket
`[(1+int_tol) r, (g+1)/(g-1) r]` of `match_shocks`, failure paths (a ladder cut short by a failed
`bisect`/integration step is accepted as it comes; `px == pl` or `px == pr` is reported as pattern
`N…`: the driver then fails with UnboundLocalError), duplicates in the grid (a wave position or 0 that
coincides with a `linspace` node), and a first wave left of the whole grid (`argmin - 1 = -1`).

This file must stay Mathlib-free and must not import generated files.

-- driver: RiemannGen EPV.Model.RiemannGen.driver
-/
import EPV.Model.RiemannIG

namespace EPV.Model.RiemannGen

open EPV.Model.RiemannIG (Num Data State)

/-- the exponential (JWL closure) -/
class NumE (α : Type) where
  exp : α → α

instance : NumE Float where
  exp := Float.exp

section
variable {α : Type} [Add α] [Sub α] [Mul α] [Div α] [Neg α] [Num α] [NumE α]

local notation "n0" => (Num.ofNat 0 : α)
local notation "n1" => (Num.ofNat 1 : α)
local notation "n2" => (Num.ofNat 2 : α)

/-! ### closures (`utils.py` lines 5–60) -/

/-- the JWL constants `A, B, R1, R2, r0` of the problem object -/
structure Jwl (α : Type) where
  A : α
  B : α
  R1 : α
  R2 : α
  r0 : α

/-- `inst.problem`: `jwl = false` ↔ `'igeos'`, `jwl = true` ↔ `'JWL'` -/
structure Eos (α : Type) where
  jwl : Bool
  c : Jwl α

/-- `utils.JWL_f` -/
def jwlF (c : Jwl α) (r g : α) : α :=
  let G := g - n1
  let R1r := c.R1 * c.r0 / r
  let R2r := c.R2 * c.r0 / r
  c.A * (n1 - G / R1r) * NumE.exp (-R1r) + c.B * (n1 - G / R2r) * NumE.exp (-R2r)

/-- `utils.JWL_dfdr` -/
def jwlDf (c : Jwl α) (r g : α) : α :=
  let G := g - n1
  let R1r := c.R1 * c.r0 / r
  let R2r := c.R2 * c.r0 / r
  c.A * (R1r / r - G / c.R1 / c.r0 - G / r) * NumE.exp (-R1r)
    + c.B * (R2r / r - G / c.R2 / c.r0 - G / r) * NumE.exp (-R2r)

/-- `utils.sie` -/
def sie (e : Eos α) (p r g : α) : α :=
  (p - (if e.jwl then jwlF e.c r g else n0)) / (g - n1) / r

/-- `utils.dsdr_cP` -/
def dsdr (e : Eos α) (p r g : α) : α :=
  let G := g - n1
  if e.jwl then -(jwlDf e.c r g) / G / r - (p - jwlF e.c r g) / G / (r * r)
  else -p / G / (r * r)

/-- `utils.dsdp_cR` -/
def dsdp (r g : α) : α := n1 / r / (g - n1)

/-- `utils.sound_speed` -/
def soundSpeed (e : Eos α) (p r g : α) : α :=
  if e.jwl then Num.sqrt ((p / (r * r) - dsdr e p r g) / dsdp r g)
  else Num.sqrt (g * p / r)

/-! ### shock relations (`utils.py` lines 69–89) -/

/-- `(pb == inst.pl) and (rb == inst.rl) and (u == inst.ul)` -/
def isLeft (d : Data α) (p r u : α) : Bool := Num.beq p d.pl && Num.beq r d.rl && Num.beq u d.ul

/-- `utils.shock_speed(pa, ra, pb, rb, u, inst)` called with SCALARS (the driver's call for `Vregs`):
the `==` side detection is active -/
def shockSpeed (d : Data α) (pa ra pb rb u : α) : α :=
  let sgn : α := if isLeft d pb rb u then -n1 else n1
  sgn * Num.sqrt (ra / rb * (pa - pb) / (ra - rb)) + u

/-- `utils.star_velocity(p0, r0, u0, p, r, inst)` called with ARRAYS `p, r` (the only call:
`match_shocks`): inside it `shock_speed` sees a scalar and an array, skips its side detection and uses
`sgn = 1`, `u = 0` -/
def starVelocity (d : Data α) (p0 r0 u0 p r : α) : α :=
  let sgn : α := if isLeft d p0 r0 u0 then -n1 else n1
  let w1 := n1 * Num.sqrt (r / r0 * (p - p0) / (r - r0)) + n0
  let w2 := n1 * Num.sqrt (r0 / r * (p0 - p) / (r0 - r)) + n0
  u0 + (w1 - w2) * sgn

/-! ### `np.interp` -/

/-- the interpolation formula of `np.interp` between two nodes -/
def lerp (x x0 x1 f0 f1 : α) : α := (f1 - f0) / (x1 - x0) * (x - x0) + f0

/-- the same for the four fields of a state (the driver interpolates p, r, u, e with one abscissa array) -/
def lerpS (x x0 x1 : α) (s0 s1 : State α) : State α :=
  { p := lerp x x0 x1 s0.p s1.p, r := lerp x x0 x1 s0.r s1.r, u := lerp x x0 x1 s0.u s1.u,
    e := lerp x x0 x1 s0.e s1.e }

/-- walk to the last node `≤ x`; `(x0, f0)` is the current node, known to be `≤ x` -/
def interpFrom {β : Type} (lp : α → α → α → β → β → β) (x x0 : α) (f0 : β) : List (α × β) → β
  | [] => f0
  | (x1, f1) :: rest =>
    if Num.le x1 x then interpFrom lp x x1 f1 rest
    else if Num.beq x0 x then f0 else lp x x0 x1 f0 f1

/-- `np.interp(x, xp, fp)` for the table `tab = zip xp fp` (`dflt` for an empty table, for which numpy
raises) -/
def interpG {β : Type} (lp : α → α → α → β → β → β) (x : α) (tab : List (α × β)) (dflt : β) : β :=
  match tab with
  | [] => dflt
  | (x0, f0) :: rest => if Num.lt x x0 then f0 else interpFrom lp x x0 f0 rest

/-- scalar `np.interp` -/
def interp (x : α) (xs fs : List α) : α := interpG lerp x (xs.zip fs) n0

/-- `np.interp` of the four fields -/
def interpS (x : α) (tab : List (α × State α)) (dflt : State α) : State α := interpG lerpS x tab dflt

/-! ### L2: classification, wave speeds, `reg_state_geos` sequence at one grid node -/

/-- one row (p, ρ, u) of a P–U table -/
structure P3 (α : Type) where
  p : α
  r : α
  u : α

/-- what the assembly takes from the tables: star pressure, the star densities and velocities the driver
interpolates at `px`, and the two fan tables as the driver splices them (`tabL` runs from `(pl, rl, ul)` to
`(px, rx1, ux1)`, `tabR` from `(px, rx2, ux2)` to `(pr, rr, ur)`; a table is only used on a rarefaction side) -/
structure Atoms (α : Type) where
  px : α
  rx1 : α
  ux1 : α
  rx2 : α
  ux2 : α
  tabL : List (P3 α)
  tabR : List (P3 α)

/-- the driver's `soln_type[0]`, `soln_type[-1]`: `R` for `px < p0`, `S` for `px > p0`, else still `N` -/
inductive Side where
  | R | S | N
  deriving DecidableEq, Repr, Inhabited

def Side.name : Side → String
  | .R => "R" | .S => "S" | .N => "N"

def side (px p0 : α) : Side := if Num.lt px p0 then .R else if Num.lt p0 px then .S else .N

def sideL (d : Data α) (a : Atoms α) : Side := side a.px d.pl
def sideR (d : Data α) (a : Atoms α) : Side := side a.px d.pr

/-- `soln_type` as the driver joins it -/
def patternName (d : Data α) (a : Atoms α) : String := (sideL d a).name ++ "C" ++ (sideR d a).name

/-- a state with the closure's energy: (p, r, u, sie(p, r, g)) -/
def st (e : Eos α) (g p r u : α) : State α := { p := p, r := r, u := u, e := sie e p r g }

def leftState (e : Eos α) (d : Data α) : State α := st e d.gl d.pl d.rl d.ul
def rightState (e : Eos α) (d : Data α) : State α := st e d.gr d.pr d.rr d.ur
/-- `[px, rx1, ux1, ex1]` -/
def starL (e : Eos α) (d : Data α) (a : Atoms α) : State α := st e d.gl a.px a.rx1 a.ux1
/-- `[px, rx2, ux2, ex2]` -/
def starR (e : Eos α) (d : Data α) (a : Atoms α) : State α := st e d.gr a.px a.rx2 a.ux2

/-- the wave speeds, named -/
def vHeadL (e : Eos α) (d : Data α) : α := d.ul - soundSpeed e d.pl d.rl d.gl
def vTailL (e : Eos α) (d : Data α) (a : Atoms α) : α := a.ux1 - soundSpeed e a.px a.rx1 d.gl
def vShockL (d : Data α) (a : Atoms α) : α := shockSpeed d a.px a.rx1 d.pl d.rl d.ul
def vTailR (e : Eos α) (d : Data α) (a : Atoms α) : α := a.ux2 + soundSpeed e a.px a.rx2 d.gr
def vHeadR (e : Eos α) (d : Data α) : α := d.ur + soundSpeed e d.pr d.rr d.gr
def vShockR (d : Data α) (a : Atoms α) : α := shockSpeed d a.px a.rx2 d.pr d.rr d.ur

/-- `Vregs`: left wave, contact (`ux1`), right wave -/
def vregs (e : Eos α) (d : Data α) (a : Atoms α) : List α :=
  (match sideL d a with
    | .R => [vHeadL e d, vTailL e d a]
    | .S => [vShockL d a]
    | .N => [])
  ++ [a.ux1] ++
  (match sideR d a with
    | .R => [vTailR e d a, vHeadR e d]
    | .S => [vShockR d a]
    | .N => [])

/-- `Xregs = xd0 + t * Vregs` -/
def xpos (xd0 t v : α) : α := xd0 + t * v
def xregs (xd0 t : α) (vs : List α) : List α := vs.map (xpos xd0 t)

/-- a fan region: abscissae `xd0 + t (u + sgn a(p, r))` (`sgn = -1` left, `+1` right), values (p, r, u, sie) -/
def fanTab (e : Eos α) (g sgn xd0 t : α) (tab : List (P3 α)) : List (α × State α) :=
  tab.map fun q => (xd0 + t * (q.u + sgn * soundSpeed e q.p q.r g), st e g q.p q.r q.u)

/-- one `reg_state_geos(xl, xr, x, regvals, vals)` call: left edge and the table `zip xr regvals` -/
structure Region (α : Type) where
  xl : α
  tab : List (α × State α)

/-- the `reg_state_geos` calls of the driver for the selected pattern, in order.  `prev X` / `next X` stand
for `x[argmin(|x - X|) - 1]` / `x[argmin(|x - X|) + 1]`, `xmaxW` for the right end of the window. -/
def regions (e : Eos α) (d : Data α) (a : Atoms α) (prev next : α → α) (xd0 t xmaxW : α) : List (Region α) :=
  let L := leftState e d
  let R := rightState e d
  let sL := starL e d a
  let sR := starR e d a
  let Xc := xpos xd0 t a.ux1
  let final (Xl : α) : Region α := ⟨prev Xl, [(prev Xl, sR), (Xl, R), (xmaxW, R)]⟩
  match sideL d a, sideR d a with
  | .R, .S =>
    let X0 := xpos xd0 t (vHeadL e d)
    let X1 := xpos xd0 t (vTailL e d a)
    let X3 := xpos xd0 t (vShockR d a)
    [⟨X0, fanTab e d.gl (-n1) xd0 t a.tabL⟩,
     ⟨X1, [(X1, sL), (prev Xc, sL), (Xc, sR)]⟩,
     ⟨Xc, [(Xc, sR), (prev X3, sR), (X3, R)]⟩,
     final X3]
  | .S, .R =>
    let X0 := xpos xd0 t (vShockL d a)
    let X2 := xpos xd0 t (vTailR e d a)
    let X3 := xpos xd0 t (vHeadR e d)
    [⟨X0, [(X0, L), (next X0, sL), (Xc, sL)]⟩,
     ⟨Xc, [(Xc, sR), (X2, sR)]⟩,
     ⟨X2, fanTab e d.gr n1 xd0 t a.tabR⟩,
     final X3]
  | .R, .R =>
    let X0 := xpos xd0 t (vHeadL e d)
    let X1 := xpos xd0 t (vTailL e d a)
    let X3 := xpos xd0 t (vTailR e d a)
    let X4 := xpos xd0 t (vHeadR e d)
    [⟨X0, fanTab e d.gl (-n1) xd0 t a.tabL⟩,
     ⟨X1, [(X1, sL), (Xc, sL)]⟩,
     ⟨Xc, [(Xc, sR), (X3, sR)]⟩,
     ⟨X3, fanTab e d.gr n1 xd0 t a.tabR⟩,
     final X4]
  | .S, .S =>
    let X0 := xpos xd0 t (vShockL d a)
    let X2 := xpos xd0 t (vShockR d a)
    [⟨X0, [(X0, L), (next X0, sL), (Xc, sL)]⟩,
     ⟨Xc, [(Xc, sR), (prev X2, sR), (X2, R)]⟩,
     final X2]
  | _, _ => []

/-- the sequence at one node `x`: each call `where(xl < x, interp(x, xr, regvals), previous)`.
Returns the index of the last call that fired (0 = none: the constant left state) and the state. -/
def fold (x : α) : List (Region α) → Nat → Nat × State α → Nat × State α
  | [], _, cur => cur
  | R :: Rs, i, cur => fold x Rs (i + 1) (if Num.lt R.xl x then (i + 1, interpS x R.tab cur.2) else cur)

/-- the driver's arrays `(p, r, u, e)` at the grid node `x` -/
def solveAtNode (e : Eos α) (d : Data α) (a : Atoms α) (prev next : α → α) (xd0 t xmaxW x : α) : Nat × State α :=
  fold x (regions e d a prev next xd0 t xmaxW) 0 (0, leftState e d)

/-! ### L1: the tables -/

/-- `numpy.linspace(start, stop, n)` (n ≥ 2): `arange(n) * step + start`, last entry set to `stop` -/
def linspace (start stop : α) (n : Nat) : List α :=
  let step := (stop - start) / Num.ofNat (n - 1)
  (List.range n).map fun k => if k + 1 == n then stop else Num.ofNat k * step + start

/-- `integ_array[::-1]` of `r_int_call([r, u, p0], …, 0.)`: `linspace(p0, 0, n + 2)[1:-1]`, ascending -/
def integPs (p0 : α) (n : Nat) : List α := (((linspace p0 n0 (n + 2)).drop 1).dropLast).reverse

/-- `shock_array` of `match_shocks`: `linspace(p0, pmax, n + 2)` with the first entry moved off `p0` -/
def shockPs (p0 pmax : α) (n : Nat) : List α :=
  match linspace p0 pmax (n + 2) with
  | a :: b :: rest => ((b - a) * (n1 / Num.ofNat 100000000) + a) :: b :: rest
  | l => l

/-- Python's `max(a, b)` / `min(a, b)` -/
def pyMax (a b : α) : α := if Num.lt a b then b else a
def pyMin (a b : α) : α := if Num.lt b a then b else a

/-- `self.pmax = 10. * max(pl, pr)` -/
def pmax (d : Data α) : α := Num.ofNat 10 * pyMax d.pl d.pr

/-- the numerical atoms as the real call obtained them -/
structure Raw (α : Type) where
  nInt : Nat
  px : α
  rls : List α
  uls : List α
  rrs : List α
  urs : List α
  rlx : List α
  rrx : List α

/-- the Hugoniot ladder of one side: `shock_array[:len(rxs)]`, `rxs`, `star_velocity(p, r, u, …, rxs)` -/
def shockTable (d : Data α) (p0 r0 u0 : α) (nInt : Nat) (rxs : List α) : List α × List α × List α :=
  let ps := (shockPs p0 (pmax d) nInt).take rxs.length
  (ps, rxs, (ps.zip rxs).map fun pr => starVelocity d p0 r0 u0 pr.1 pr.2)

/-- `px`-crossing residual `interp(px, ps_left_splice, us_left_splice) - interp(px, ps_right_splice, us_right_splice)` -/
def crossing (d : Data α) (w : Raw α) : α :=
  let iL := integPs d.pl w.nInt
  let iR := integPs d.pr w.nInt
  let (sLp, _, sLu) := shockTable d d.pl d.rl d.ul w.nInt w.rlx
  let (sRp, _, sRu) := shockTable d d.pr d.rr d.ur w.nInt w.rrx
  interp w.px (iL ++ [d.pl] ++ sLp) (w.uls ++ [d.ul] ++ sLu)
    - interp w.px (iR ++ [d.pr] ++ sRp) (w.urs ++ [d.ur] ++ sRu)

/-- the three separate filters of the driver on a rarefaction side, zipped into rows -/
def fanRows (ps rs us : List α) (keepP keepR keepU : α → Bool) : List (P3 α) :=
  (((ps.filter keepP).zip (rs.filter keepR)).zip (us.filter keepU)).map fun q => ⟨q.1.1, q.1.2, q.2⟩

/-- star values and fan tables from the raw tables (`riemann.py` lines 262–308) -/
def atoms (d : Data α) (w : Raw α) : Atoms α :=
  let px := w.px
  let iL := integPs d.pl w.nInt
  let iR := integPs d.pr w.nInt
  let (sLp, sLr, sLu) := shockTable d d.pl d.rl d.ul w.nInt w.rlx
  let (sRp, sRr, sRu) := shockTable d d.pr d.rr d.ur w.nInt w.rrx
  let rx1 := match side px d.pl with
    | .R => interp px iL w.rls | .S => interp px sLp sLr | .N => n0
  let ux1 := match side px d.pl with
    | .R => interp px iL w.uls | .S => interp px sLp sLu | .N => n0
  let rx2 := match side px d.pr with
    | .R => interp px iR w.rrs | .S => interp px sRp sRr | .N => n0
  let ux2 := match side px d.pr with
    | .R => interp px iR w.urs | .S => interp px sRp sRu | .N => n0
  -- left: `[::-1]` of the filtered arrays, between (pl, rl, ul) and (px, rx1, ux1)
  let midL := (fanRows iL w.rls w.uls (fun p => Num.lt px p) (fun r => Num.lt rx1 r) (fun u => Num.lt u ux1)).reverse
  -- right: the filtered arrays as they are, between (px, rx2, ux2) and (pr, rr, ur)
  let midR := fanRows iR w.rrs w.urs (fun p => Num.lt px p) (fun r => Num.lt rx2 r) (fun u => Num.lt ux2 u)
  { px := px, rx1 := rx1, ux1 := ux1, rx2 := rx2, ux2 := ux2,
    tabL := [⟨d.pl, d.rl, d.ul⟩] ++ midL ++ [⟨px, rx1, ux1⟩],
    tabR := [⟨px, rx2, ux2⟩] ++ midR ++ [⟨d.pr, d.rr, d.ur⟩] }

/-! ### L3: window, grid, look-ups, the wrapper's interpolation to a user point -/

def listMin : List α → α → α
  | [], m => m
  | x :: xs, m => listMin xs (if Num.lt x m then x else m)
def listMax : List α → α → α
  | [], m => m
  | x :: xs, m => listMax xs (if Num.lt m x then x else m)

/-- `min(xmin, 1.1 * min(Xregs))`, `max(xmax, 1.1 * max(Xregs))` -/
def window (xmin xmax : α) (X : List α) : α × α :=
  match X with
  | [] => (xmin, xmax)
  | x0 :: xs =>
    let f : α := Num.ofNat 11 / Num.ofNat 10
    (pyMin xmin (f * listMin xs x0), pyMax xmax (f * listMax xs x0))

/-- the elements of `x = sort(linspace(xmin', xmax', nx) ++ Xregs ++ [0])` (unsorted: only order statistics are used) -/
def gridNodes (xminW xmaxW : α) (nx : Nat) (X : List α) : List α := linspace xminW xmaxW nx ++ X ++ [n0]

/-- `x[argmin(|x - X|) - 1]` for a grid element `X`: the largest element below `X`
(index -1, the last element, when there is none) -/
def prevNode (G : List α) (X : α) : α :=
  match G.filter (fun g => Num.lt g X) with
  | [] => listMax G X
  | b :: bs => listMax bs b

/-- `x[argmin(|x - X|) + 1]` for a grid element `X`: `X` again when it occurs twice, else the smallest
element above `X` -/
def nextNode (G : List α) (X : α) : α :=
  if (G.filter (fun g => Num.beq g X)).length ≥ 2 then X
  else match G.filter (fun g => Num.lt X g) with
    | [] => X
    | b :: bs => listMin bs b

/-- everything that is computed once per problem -/
structure Ctx (α : Type) where
  e : Eos α
  d : Data α
  a : Atoms α
  xd0 : α
  t : α
  xmaxW : α
  G : List α

def mkCtx (e : Eos α) (d : Data α) (w : Raw α) (xmin xd0 xmax t : α) (nx : Nat) : Ctx α :=
  let a := atoms d w
  let X := xregs xd0 t (vregs e d a)
  let (lo, hi) := window xmin xmax X
  { e := e, d := d, a := a, xd0 := xd0, t := t, xmaxW := hi, G := gridNodes lo hi nx X }

def Ctx.node (c : Ctx α) (x : α) : Nat × State α :=
  solveAtNode c.e c.d c.a (prevNode c.G) (nextNode c.G) c.xd0 c.t c.xmaxW x

/-- the wrapper's `np.interp` between the two grid nodes `lo ≤ x < hi` that bracket a user point, given the
driver's values `sl`, `sh` at those nodes; the index is that of `lo` -/
def userAt (sl sh : Nat × State α) (lo hi x : α) : Nat × State α :=
  if Num.beq lo x then sl else (sl.1, lerpS x lo hi sl.2 sh.2)

/-- `GenEOS_Solver._run`: `interp(x, self.x, self.p)` … at one user point; the index is that of the grid
node at or left of the point -/
def Ctx.user (c : Ctx α) (x : α) : Nat × State α :=
  match c.G.filter (fun g => Num.le g x) with
  | [] => match c.G with
    | [] => c.node x
    | g :: gs => c.node (listMin gs g)
  | b :: bs =>
    let lo := listMax bs b
    match c.G.filter (fun g => Num.lt x g) with
    | [] => c.node lo
    | h :: hs =>
      let hi := listMin hs h
      userAt (c.node lo) (c.node hi) lo hi x

end

/-! ### line-protocol driver (Float) -/

open EPV.Model.RiemannIG (bitsToFloat floatToBits)

def takeFloats (n : Nat) (l : List String) : List Float × List String :=
  ((l.take n).map bitsToFloat, l.drop n)

/-- input tokens (plain decimal): `jwl nInt nX nLs nRs nPts`, then bit patterns:
`pl rl ul gl pr rr ur gr A B R1 R2 r0 xmin xd0 xmax t px`, `rls[nInt] uls[nInt] rrs[nInt] urs[nInt]`,
`rlx[nLs] rrx[nRs]`, `pts[nPts]`.
output: `<pattern> <k> V_1 … V_k <crossing> <rx1> <ux1> <rx2> <ux2> <xminW> <xmaxW>` then per point
`<region> <p> <r> <u> <e>` (a pattern with an `N` has k = 0 and no point values). -/
def driver (args : List String) : String :=
  match args with
  | sj :: sn :: sx :: sl :: sr :: sp :: rest =>
    let (jw, nInt, nX, nLs, nRs, nPts) := (sj.toNat!, sn.toNat!, sx.toNat!, sl.toNat!, sr.toNat!, sp.toNat!)
    let (h, rest) := takeFloats 18 rest
    match h with
    | [pl, rl, ul, gl, pr, rr, ur, gr, A, B, R1, R2, r0, xmin, xd0, xmax, t, px] =>
      let (rls, rest) := takeFloats nInt rest
      let (uls, rest) := takeFloats nInt rest
      let (rrs, rest) := takeFloats nInt rest
      let (urs, rest) := takeFloats nInt rest
      let (rlx, rest) := takeFloats nLs rest
      let (rrx, rest) := takeFloats nRs rest
      let (pts, _) := takeFloats nPts rest
      let d : Data Float := { pl := pl, rl := rl, ul := ul, gl := gl, pr := pr, rr := rr, ur := ur, gr := gr }
      let e : Eos Float := { jwl := jw != 0, c := { A := A, B := B, R1 := R1, R2 := R2, r0 := r0 } }
      let w : Raw Float := { nInt := nInt, px := px, rls := rls, uls := uls, rrs := rrs, urs := urs, rlx := rlx, rrx := rrx }
      let c := mkCtx e d w xmin xd0 xmax t nX
      let name := patternName d c.a
      if sideL d c.a == Side.N || sideR d c.a == Side.N then name ++ " 0"
      else
        let vs := vregs e d c.a
        let (lo, _) := window xmin xmax (xregs xd0 t vs)
        let head := [name, toString vs.length] ++ vs.map floatToBits
          ++ [crossing d w, c.a.rx1, c.a.ux1, c.a.rx2, c.a.ux2, lo, c.xmaxW].map floatToBits
        let body := pts.foldl (fun acc x =>
          let (i, s) := c.user x
          acc ++ [toString i, floatToBits s.p, floatToBits s.r, floatToBits s.u, floatToBits s.e]) []
        String.intercalate " " (head ++ body)
    | _ => "bad-args"
  | _ => "bad-args"

end EPV.Model.RiemannGen
