/-
Hand model of the series solutions of exactpack/solvers/heat (the loops with a data-dependent
trip count that the tracer cannot unroll for a general truncation N).

Everything is written ONCE, over an arbitrary carrier `α` with the operations `Ops α`.
  * `Ops Float` (below) makes the model executable: the correspondence driver runs it against the
    real Python on random inputs (tools/harness/o_heat.py, line protocol, `-- driver:` lines).
  * `Ops ℝ` (EPV/Spec/Heat.lean) is what the theorems of EPV/Props/C14, C07, C08, C20 are about.
The file is Mathlib-free.

Mirrors (line numbers of the pinned tree):
  rod1d.py  modes_BC1..4 (368-431), Rod1D._run (480-529): static part + Σ_{n<N} (A_n cos k_n x + B_n sin k_n x) e^{-κ k_n² t}
  hutchens1.py  _run (93-110)       rectangle.py  _run (38-70)
  hutchens2.py  _run (101-124)      cylindrical_sandwich.py  _run (181-225, one (n,m) term)
-/
import EPV.Run.Base

namespace EPV.Model.HeatSeries

/-- the arithmetic and the elementary functions the series formulas use -/
class Ops (α : Type) where
  add : α → α → α
  sub : α → α → α
  mul : α → α → α
  div : α → α → α
  neg : α → α
  ofNat : Nat → α
  pi : α
  sin : α → α
  cos : α → α
  exp : α → α
  sinh : α → α

/-! `+ - * /` and unary minus of the generic code below are these operations.  The instances are
named and *scoped* (active only inside this namespace when opened), so they never compete with the
arithmetic of `Float` or `ℝ` elsewhere. -/
@[instance_reducible] def opsAdd {α : Type} [Ops α] : Add α := ⟨Ops.add⟩
@[instance_reducible] def opsSub {α : Type} [Ops α] : Sub α := ⟨Ops.sub⟩
@[instance_reducible] def opsMul {α : Type} [Ops α] : Mul α := ⟨Ops.mul⟩
@[instance_reducible] def opsDiv {α : Type} [Ops α] : Div α := ⟨Ops.div⟩
@[instance_reducible] def opsNeg {α : Type} [Ops α] : Neg α := ⟨Ops.neg⟩

instance : Ops Float where
  add := Float.add
  sub := Float.sub
  mul := Float.mul
  div := Float.div
  neg := Float.neg
  ofNat := Float.ofNat
  pi := Float.ofBits 4614256656552045848      -- numpy.pi
  sin := Float.sin
  cos := Float.cos
  exp := Float.exp
  sinh := Float.sinh

section
variable {α : Type} [Ops α]

attribute [local instance] opsAdd opsSub opsMul opsDiv opsNeg

open Ops (ofNat pi sin cos exp sinh)

/-- `Σ_{n<N} f n`, accumulated in the order of the Python loops (`acc = 0; acc += f(n)`) -/
def sumTo (f : Nat → α) : Nat → α
  | 0 => ofNat 0
  | n + 1 => sumTo f n + f n

/-- `(-1)**n` for an integer n -/
def negOnePow (n : Nat) : α := if n % 2 = 0 then ofNat 1 else -(ofNat 1)

/-! ### 1-D rod (rod1d.py) -/

/-- one summand of `Rod1D._run` -/
def rodTerm (κ k A B x t : α) : α :=
  (A * cos (k * x) + B * sin (k * x)) * exp (-κ * (k * k) * t)

/-- `Rod1D._run`: the truncated series plus the static (non-homogeneous) part -/
def rodSeries (N : Nat) (κ : α) (static : α → α) (k A B : Nat → α) (x t : α) : α :=
  sumTo (fun n => rodTerm κ (k n) (A n) (B n) x t) N + static x

/-- the parameters of `Rod1D` that enter the coefficient formulas -/
structure RodP (α : Type) where
  κ : α
  L : α
  TL : α
  TR : α
  α1 : α
  β1 : α
  γ1 : α
  α2 : α
  β2 : α
  γ2 : α

/-- wave numbers of BC1 and BC2: `n * np.pi / L` -/
def knInt (L : α) (n : Nat) : α := ofNat n * pi / L
/-- wave numbers of BC3 and BC4: `(2 n + 1) * np.pi / (2 L)` -/
def knHalf (L : α) (n : Nat) : α := (ofNat (2 * n + 1)) * pi / (ofNat 2 * L)

def zeroCoef (_ : Nat) : α := ofNat 0

-- BC1: T(0) = γ1/α1, T(L) = γ2/α2
def bc1Ta (p : RodP α) : α := p.TL - p.γ1 / p.α1
def bc1Tb (p : RodP α) : α := p.TR - p.γ2 / p.α2
def bc1B (p : RodP α) (n : Nat) : α :=
  if n = 0 then ofNat 0
  else ofNat 2 * bc1Ta p * (ofNat 1 - negOnePow n) / (ofNat n * pi)
        + ofNat 2 * (bc1Ta p - bc1Tb p) * negOnePow n / (ofNat n * pi)
def bc1Static (p : RodP α) (x : α) : α := p.γ1 / p.α1 + (p.γ2 / p.α2 - p.γ1 / p.α1) * x / p.L

-- BC2: T_x(0) = T_x(L) = γ1/β1 (= γ2/β2, else the call raises)
def bc2Ta (p : RodP α) : α := p.TL
def bc2Tb (p : RodP α) : α := p.TR - p.γ1 / p.β1 * p.L
def bc2A (p : RodP α) (n : Nat) : α :=
  if n = 0 then (bc2Ta p + bc2Tb p) / ofNat 2
  else ofNat 2 * (bc2Ta p - bc2Tb p) * (ofNat 1 - negOnePow n) / ((ofNat n * pi) * (ofNat n * pi))
def bc2Static (p : RodP α) (x : α) : α := p.γ1 / p.β1 * x

-- BC3: T(0) = γ1/α1, T_x(L) = γ2/β2
def bc3Ta (p : RodP α) : α := p.TL - p.γ1 / p.α1
def bc3Tb (p : RodP α) : α := p.TR - (p.γ1 / p.α1 + p.γ2 / p.β2 * p.L)
def bc3B (p : RodP α) (n : Nat) : α :=
  ofNat 4 * bc3Ta p / (ofNat (2 * n + 1) * pi)
    + ofNat 8 * (bc3Tb p - bc3Ta p) * negOnePow n / ((ofNat (2 * n + 1) * pi) * (ofNat (2 * n + 1) * pi))
def bc3Static (p : RodP α) (x : α) : α := p.γ1 / p.α1 + p.γ2 / p.β2 * x

-- BC4: T_x(0) = γ1/β1, T(L) = γ2/α2
def bc4Ta (p : RodP α) : α := p.TL - (p.γ2 / p.α2 - p.γ1 / p.β1 * p.L)
def bc4Tb (p : RodP α) : α := p.TR - p.γ2 / p.α2
def bc4A (p : RodP α) (n : Nat) : α :=
  ofNat 4 * bc4Ta p * negOnePow n / (ofNat (2 * n + 1) * pi)
    - ofNat 8 * (bc4Tb p - bc4Ta p) / ((ofNat (2 * n + 1) * pi) * (ofNat (2 * n + 1) * pi))
    + ofNat 4 * (bc4Tb p - bc4Ta p) * negOnePow n / (ofNat (2 * n + 1) * pi)
def bc4Static (p : RodP α) (x : α) : α := (p.γ2 / p.α2 - p.L * (p.γ1 / p.β1)) + p.γ1 / p.β1 * x

def rodBC1 (N : Nat) (p : RodP α) (x t : α) : α :=
  rodSeries N p.κ (bc1Static p) (knInt p.L) zeroCoef (bc1B p) x t
def rodBC2 (N : Nat) (p : RodP α) (x t : α) : α :=
  rodSeries N p.κ (bc2Static p) (knInt p.L) (bc2A p) zeroCoef x t
def rodBC3 (N : Nat) (p : RodP α) (x t : α) : α :=
  rodSeries N p.κ (bc3Static p) (knHalf p.L) zeroCoef (bc3B p) x t
def rodBC4 (N : Nat) (p : RodP α) (x t : α) : α :=
  rodSeries N p.κ (bc4Static p) (knHalf p.L) (bc4A p) zeroCoef x t

/-- static part of the general (Robin) case, `Rod1D._run` lines 505-515 -/
def genStatic (p : RodP α) (x : α) : α :=
  let b1 := p.β1 / p.L
  let b2 := p.β2 / p.L
  let den := p.α1 * b2 - p.α2 * b1 + p.L * p.α1 * p.α2
  let T1 := (b2 * p.γ1 - b1 * p.γ2 + p.L * p.α2 * p.γ1) / den
  let T2 := (b2 * p.γ1 - b1 * p.γ2 + p.L * p.α1 * p.γ2) / den
  T1 + (T2 - T1) * x / p.L

/-! ### Hutchens 1 (hutchens1.py): sphere, surface held at Tb -/

/-- summand n ≥ 1 of the r ≠ 0 branch -/
def h1Term (a b r t : α) (n : Nat) : α :=
  negOnePow n / ofNat n * (ofNat 2 * b / (pi * r) * sin (pi * ofNat n / b * r))
    * exp (-a * (pi * ofNat n / b * (pi * ofNat n / b)) * t)

/-- the r ≠ 0 formula: `Tb + (Tb - T0) Σ_{n=1}^{N-1} …` (the loop is `range(1, Nsum)`) -/
def h1Series (N : Nat) (a b Tb T0 r t : α) : α :=
  Tb + (Tb - T0) * sumTo (fun m => h1Term a b r t (m + 1)) (N - 1)

/-- what the code assigns at r = 0: `Tb + (Tb - T0) * (-1)` -/
def h1AtZero (Tb T0 : α) : α := Tb + (Tb - T0) * (-(ofNat 1))

/-! ### Rectangle (rectangle.py) -/

def rectStaticTerm (a b Ttop x y : α) (n : Nat) : α :=
  ofNat 2 * Ttop * (ofNat 1 - negOnePow n) / (ofNat n * pi)
    * sin (ofNat n * pi / a * x) * sinh (ofNat n * pi / a * y) / sinh (ofNat n * pi / a * b)

def rectKn (a : α) (n : Nat) : α := ofNat (2 * n + 1) * pi / a
def rectKm (b : α) (m : Nat) : α := ofNat m * pi / b
def rectAlpha2 (a b : α) (n m : Nat) : α := rectKn a n * rectKn a n + rectKm b m * rectKm b m
/-- `Anm = 4 Ttop 2 (-1)^m (m/(2n+1)) / alpha2 / b²` -/
def rectAnm (a b Ttop : α) (n m : Nat) : α :=
  ofNat 4 * Ttop * ofNat 2 * negOnePow m * (ofNat m / ofNat (2 * n + 1)) / rectAlpha2 a b n m / (b * b)
def rectDynTerm (κ a b Ttop x y t : α) (n m : Nat) : α :=
  rectAnm a b Ttop n m * sin (rectKn a n * x) * sin (rectKm b m * y) * exp (-κ * rectAlpha2 a b n m * t)

def rectStatic (N : Nat) (a b Ttop x y : α) : α :=
  sumTo (fun i => rectStaticTerm a b Ttop x y (i + 1)) (N - 1)
def rectDyn (N : Nat) (κ a b Ttop x y t : α) : α :=
  sumTo (fun n => sumTo (fun j => rectDynTerm κ a b Ttop x y t n (j + 1)) (N - 1)) N
/-- `Rectangle._run` with NonHomogeneousOnly = False -/
def rectangle (N : Nat) (κ a b Ttop x y t : α) : α := rectDyn N κ a b Ttop x y t + rectStatic N a b Ttop x y

/-! ### Hutchens 2 (hutchens2.py): steady cylinder; `I0r n = I0(λ_n r)`, `I0b n = I0(λ_n b)` are atoms -/

def h2Static (k g0 T0 TL L z : α) : α := T0 + (TL - T0) * z / L + g0 / (ofNat 2 * k) * z * (L - z)

/-- what one pass of the loop adds to the variable `sum` -/
def h2Inc (k g0 Tb T0 TL L z : α) (I0r I0b : Nat → α) (n : Nat) : α :=
  let nodd : α := ofNat (2 * n + 1)
  let lam := nodd * pi / L
  let iratio := ofNat 2 / pi * I0r n / I0b n
  (ofNat 2 * Tb - T0) * iratio * sin (lam * z) / nodd
    + TL * iratio * (-(ofNat 1)) * sin (lam * z) / nodd
    + -(ofNat 2 * g0 * (L * L) / (pi * pi * k)) * sin (lam * z) / (nodd * nodd)

/-- the loop as written: `sum += …` three times, then `temperature += sum` INSIDE the loop -/
def h2Loop (k g0 Tb T0 TL L z : α) (I0r I0b : Nat → α) : Nat → α × α
  | 0 => (h2Static k g0 T0 TL L z, ofNat 0)
  | n + 1 =>
    let (temp, sum) := h2Loop k g0 Tb T0 TL L z I0r I0b n
    let sum' := sum + h2Inc k g0 Tb T0 TL L z I0r I0b n
    (temp + sum', sum')

def hutchens2 (N : Nat) (k g0 Tb T0 TL L z : α) (I0r I0b : Nat → α) : α :=
  (h2Loop k g0 Tb T0 TL L z I0r I0b N).1

/-! ### Cylindrical sandwich (cylindrical_sandwich.py): one (n, m) term; α_nm, β_nm, the Bessel values
R(r), R(a), R(b) and the quadrature ∫_a^b x R(x) dx are atoms -/

/-- `Anm = ½ (b² - m²/α²) R(b) - ½ (a² - m²/α²) R(a)`  (un-squared R as in the code) -/
def cylAnm (a b alpha Rb Ra : α) (m : Nat) : α :=
  ofNat 1 / ofNat 2 * (b * b - ofNat m * ofNat m / (alpha * alpha)) * Rb
    - ofNat 1 / ofNat 2 * (a * a - ofNat m * ofNat m / (alpha * alpha)) * Ra

/-- `Tnm Rnm sin(kθ) exp(-κ α_nm t)` with k = 2(n+1) — the exponent is linear in α_nm, as in the code -/
def cylTerm (κ T1 a b alpha Rr Rb Ra quad θ t : α) (n m : Nat) : α :=
  let k := 2 * (n + 1)
  let Tnm := ofNat 4 * T1 / pi * (negOnePow (n + 1) / ofNat k) * (ofNat 1 / cylAnm a b alpha Rb Ra m) * quad
  Tnm * Rr * sin (ofNat k * θ) * exp (-κ * alpha * t)

def cylStatic (T0 T1 θ : α) : α := T0 + ofNat 2 * T1 * θ / pi

end

/-! ### line-protocol drivers (Float instance) -/

open EPV.Run

private def fl (s : String) : Float := parseFloatBits s
private def ok (x : Float) : String := "ok " ++ showFloatBits x
private def nth (l : List String) (i : Nat) : Float := fl (l.getD i "0")

/-- `heat.series N κ x t static k0 A0 B0 k1 A1 B1 …` — the summation loop alone (any boundary condition:
the coefficient arrays and the static value come from the real object) -/
def driveSeries (args : List String) : String :=
  match args with
  | n :: κ :: x :: t :: st :: rest =>
    let N := n.toNat!
    let a := rest.toArray
    let g (j : Nat) (i : Nat) : Float := fl (a.getD (3 * i + j) "0")
    ok (rodSeries N (fl κ) (fun _ => fl st) (g 0) (g 1) (g 2) (fl x) (fl t))
  | _ => "bad-args"

/-- `heat.rod bc N κ L TL TR α1 β1 γ1 α2 β2 γ2 x t` — BC1..BC4 with the model's own coefficient formulas -/
def driveRod (args : List String) : String :=
  match args with
  | bc :: n :: rest =>
    if rest.length ≠ 12 then "bad-args" else
    let N := n.toNat!
    let p : RodP Float := ⟨nth rest 0, nth rest 1, nth rest 2, nth rest 3, nth rest 4, nth rest 5, nth rest 6,
                           nth rest 7, nth rest 8, nth rest 9⟩
    let x := nth rest 10
    let t := nth rest 11
    match bc.toNat! with
    | 1 => ok (rodBC1 N p x t)
    | 2 => ok (rodBC2 N p x t)
    | 3 => ok (rodBC3 N p x t)
    | 4 => ok (rodBC4 N p x t)
    | _ => "bad-bc"
  | _ => "bad-args"

/-- `heat.coef bc n L TL TR α1 β1 γ1 α2 β2 γ2` → `ok k_n A_n B_n` -/
def driveCoef (args : List String) : String :=
  match args with
  | bc :: n :: rest =>
    if rest.length ≠ 9 then "bad-args" else
    let n := n.toNat!
    let p : RodP Float := ⟨0, nth rest 0, nth rest 1, nth rest 2, nth rest 3, nth rest 4, nth rest 5,
                           nth rest 6, nth rest 7, nth rest 8⟩
    let out (k a b : Float) := "ok " ++ showFloatBits k ++ " " ++ showFloatBits a ++ " " ++ showFloatBits b
    match bc.toNat! with
    | 1 => out (knInt p.L n) 0 (bc1B p n)
    | 2 => out (knInt p.L n) (bc2A p n) 0
    | 3 => out (knHalf p.L n) 0 (bc3B p n)
    | 4 => out (knHalf p.L n) (bc4A p n) 0
    | _ => "bad-bc"
  | _ => "bad-args"

/-- `heat.h1 N k cp rho b Tb T0 r t` — `Hutchens1._run` including its r = 0 assignment -/
def driveH1 (args : List String) : String :=
  match args with
  | n :: rest =>
    if rest.length ≠ 8 then "bad-args" else
    let N := n.toNat!
    let a := nth rest 0 / (nth rest 2 * nth rest 1)     -- k / (rho * cp)
    let r := nth rest 6
    if r != 0 then ok (h1Series N a (nth rest 3) (nth rest 4) (nth rest 5) r (nth rest 7))
    else ok (h1AtZero (nth rest 4) (nth rest 5))
  | _ => "bad-args"

/-- `heat.rect N κ a b Ttop x y t` -/
def driveRect (args : List String) : String :=
  match args with
  | n :: rest =>
    if rest.length ≠ 7 then "bad-args" else
    ok (rectangle n.toNat! (nth rest 0) (nth rest 1) (nth rest 2) (nth rest 3) (nth rest 4) (nth rest 5) (nth rest 6))
  | _ => "bad-args"

/-- `heat.h2 N k g0 Tb T0 TL L z I0r_0 I0b_0 I0r_1 I0b_1 …` -/
def driveH2 (args : List String) : String :=
  match args with
  | n :: k :: g0 :: tb :: t0 :: tl :: l :: z :: rest =>
    let a := rest.toArray
    ok (hutchens2 n.toNat! (fl k) (fl g0) (fl tb) (fl t0) (fl tl) (fl l) (fl z)
          (fun i => fl (a.getD (2 * i) "0")) (fun i => fl (a.getD (2 * i + 1) "0")))
  | _ => "bad-args"

/-- `heat.cyl n m κ T0 T1 a b alpha Rr Rb Ra quad θ t` — static part plus the single (n, m) term -/
def driveCyl (args : List String) : String :=
  match args with
  | n :: m :: rest =>
    if rest.length ≠ 12 then "bad-args" else
    ok (cylTerm (nth rest 0) (nth rest 2) (nth rest 3) (nth rest 4) (nth rest 5) (nth rest 6) (nth rest 7)
          (nth rest 8) (nth rest 9) (nth rest 10) (nth rest 11) n.toNat! m.toNat!
        + cylStatic (nth rest 1) (nth rest 2) (nth rest 10))
  | _ => "bad-args"

end EPV.Model.HeatSeries

-- driver: heat.series EPV.Model.HeatSeries.driveSeries
-- driver: heat.rod EPV.Model.HeatSeries.driveRod
-- driver: heat.coef EPV.Model.HeatSeries.driveCoef
-- driver: heat.h1 EPV.Model.HeatSeries.driveH1
-- driver: heat.rect EPV.Model.HeatSeries.driveRect
-- driver: heat.h2 EPV.Model.HeatSeries.driveH2
-- driver: heat.cyl EPV.Model.HeatSeries.driveCyl
