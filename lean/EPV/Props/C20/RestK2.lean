/-
C20 (work package `c20rest`) — Kenamond 2: what was missing after work package `burn`.

`burn` proved `k2init_accepts_iff_coded` (accepts ↔ K2Coded: the full documented catalogue — geometry, R > 0,
D₁, D₂ > 0, the four detonators outside the inner sphere, the four ordering conditions
t_{d_i} ≥ t_{d_3} + R(1/D₁ + 1/D₂) − |a_{d_i}|/D₂ — with D₁ ≥ D₂), `k2init_accepts_of_documented`, and the negation of
the converse at D₁ = D₂ (`FindingBurn.k2_accepts_undocumented_D1_eq_D2`; documented "D1 > D2", help string "D2 < D1",
error message 'D1 must be > D2', coded `if self.D1 < self.D2: raise`).  Added here:

* `k2init_accepts_iff_partial`   : accepts ↔ Documented ∨ (Coded ∧ D₁ = D₂) — the boundary D₁ = D₂ is the ONLY gap between
                                   the coded and the documented acceptance set (in particular all four ordering conditions
                                   on the detonation times and the four position conditions are enforced exactly, `≥`/`>`
                                   as documented);
* `k2init_accepts_documented_of_ne` : the converse `accepts → Documented` for every request with D₁ ≠ D₂;
* `k2init_dets{3,5}_rejected`, `k2init_td{4,6}_rejected` : with a `dets` list of length ≠ 4 or a `t_d` list of
                                   length ≠ 5 ("enter as a list: [a_d1, a_d2, a_d4, a_d5]", "[t_d1, …, t_d5]"; error
                                   messages '4 detonator locations must be specified', '5 detonation times must be
                                   specified') every path of the traced constructor raises ValueError.
-/
import EPV.Gen.K2Init
import EPV.Gen.K2InitDets3
import EPV.Gen.K2InitDets5
import EPV.Gen.K2InitTd4
import EPV.Gen.K2InitTd6
import EPV.Spec.Burn
import EPV.Lemmas.C20Rest
import EPV.Lemmas.Bridge.DetonTactics

set_option linter.all false

open EPV EPV.Gen EPV.Spec.Burn

namespace EPV.C20

private theorem k2_coded (p : K2Init.P) :
    K2Init.outcome p = .ok ↔
      K2Coded p.geometry p.R p.D1 p.D2 p.a1 p.a2 p.a4 p.a5 p.td1 p.td2 p.td3 p.td4 p.td5 := by
  -- case analysis along the constructor tree; each leaf against the documented atoms by linear arithmetic
  -- (independent of the order of the checks and of how `t_d3 + R (1/D1 + 1/D2) - |a|/D2` is written)
  unfold K2Coded
  epv_deton_accept_iff

/-- partial: the property asks for `accepts ↔ Documented`; the only gap is the boundary D₁ = D₂ -/
theorem k2init_accepts_iff_partial (p : K2Init.P) :
    K2Init.outcome p = .ok ↔
      K2Documented p.geometry p.R p.D1 p.D2 p.a1 p.a2 p.a4 p.a5 p.td1 p.td2 p.td3 p.td4 p.td5 ∨
      (K2Coded p.geometry p.R p.D1 p.D2 p.a1 p.a2 p.a4 p.a5 p.td1 p.td2 p.td3 p.td4 p.td5 ∧ p.D1 = p.D2) := by
  rw [k2_coded]
  constructor
  · intro h
    by_cases hD : p.D1 = p.D2
    · exact Or.inr ⟨h, hD⟩
    · obtain ⟨g, r, d1, d2, d12, rest⟩ := h
      exact Or.inl ⟨g, r, d1, d2, lt_of_le_of_ne d12 (Ne.symm hD), rest⟩
  · rintro (⟨g, r, d1, d2, d12, rest⟩ | ⟨h, _⟩)
    · exact ⟨g, r, d1, d2, d12.le, rest⟩
    · exact h

theorem k2init_accepts_documented_of_ne (p : K2Init.P) (h : K2Init.outcome p = .ok) (hD : p.D1 ≠ p.D2) :
    K2Documented p.geometry p.R p.D1 p.D2 p.a1 p.a2 p.a4 p.a5 p.td1 p.td2 p.td3 p.td4 p.td5 := by
  rcases (k2init_accepts_iff_partial p).1 h with h | ⟨_, h⟩
  · exact h
  · exact absurd h hD

/-- non-vacuity of `k2init_accepts_documented_of_ne`: the class defaults are accepted and have D₁ ≠ D₂ -/
example : K2Init.outcome ⟨2, 1, 3, 10, 5, -5, -10, 2, 2, 1, 0, 1, 2⟩ = .ok ∧ (2 : ℝ) ≠ 1 := by
  refine ⟨?_, by norm_num⟩
  rw [k2_coded]; unfold K2Coded; norm_num [abs_of_pos, abs_of_neg]

/-! ### lists of the wrong length -/

theorem k2init_dets3_rejected (p : K2InitDets3.P) : K2InitDets3.outcome p = .raise "ValueError" := by
  have h1 : K2InitDets3.outcome p = .ok ∨ K2InitDets3.outcome p = .raise "ValueError" := by rest_ok_or_raise
  have h2 : ¬ K2InitDets3.outcome p = .ok := by rest_ok_formula; exact not_false
  exact h1.resolve_left h2

theorem k2init_dets5_rejected (p : K2InitDets5.P) : K2InitDets5.outcome p = .raise "ValueError" := by
  have h1 : K2InitDets5.outcome p = .ok ∨ K2InitDets5.outcome p = .raise "ValueError" := by rest_ok_or_raise
  have h2 : ¬ K2InitDets5.outcome p = .ok := by rest_ok_formula; exact not_false
  exact h1.resolve_left h2

theorem k2init_td4_rejected (p : K2InitTd4.P) : K2InitTd4.outcome p = .raise "ValueError" := by
  have h1 : K2InitTd4.outcome p = .ok ∨ K2InitTd4.outcome p = .raise "ValueError" := by rest_ok_or_raise
  have h2 : ¬ K2InitTd4.outcome p = .ok := by rest_ok_formula; exact not_false
  exact h1.resolve_left h2

theorem k2init_td6_rejected (p : K2InitTd6.P) : K2InitTd6.outcome p = .raise "ValueError" := by
  have h1 : K2InitTd6.outcome p = .ok ∨ K2InitTd6.outcome p = .raise "ValueError" := by rest_ok_or_raise
  have h2 : ¬ K2InitTd6.outcome p = .ok := by rest_ok_formula; exact not_false
  exact h1.resolve_left h2

end EPV.C20
