/-
C20 (burn-time share) — "documented parameter restrictions of Kenamond 1-3 and the DSD
cylindrical expansion are enforced by ValueError at construction; valid in-domain requests
never give NaN/inf".

Constructor trees (`K1Init2/3`, `K2Init`, `K3Init2/3`, `DSDCylInit`: `__init__` alone, with
`geometry` symbolic) against the documented catalogue of `EPV.Spec.Burn`:

* Kenamond 1, Kenamond 3:  accepts ↔ Documented, both directions     (`k1initN_accepts_iff`, `k3initN_accepts_iff`)
* Kenamond 2:  accepts ↔ `K2Coded` (D₁ ≥ D₂), and Documented → accepts  (`k2init_accepts_iff_coded`,
  `k2init_accepts_of_documented`).  `accepts → Documented` is FALSE at the boundary D₁ = D₂:
  see `FindingBurn.lean` (documented "D1 > D2", coded `D1 < D2 → raise`).
* DSD cylinder: accepts ↔ `DsdCoded`, Documented → accepts           (`dsdcylinit_accepts_iff_coded`,
  `dsdcylinit_accepts_of_documented`).  `accepts → Documented` is FALSE: the documented
  r₁ > α₁/D_CJ₁ and r₂ > α₂/D_CJ₂ are not checked — see `FindingBurn.lean`.
* every rejecting leaf of every constructor and of every `_run` raises ValueError  (`…_rejects_valueerror`).

No NaN/inf inside the domain (exact arithmetic): on the documented domain, and for Kenamond 3
for points of the explosive, every `ok` leaf of the traced `_run` is `WellDefined`: no zero
denominator, no negative square root, no `arccos` argument outside [-1, 1], no logarithm of a
non-positive number                                               (`…_welldefined`).
(P) floating-point overflow/rounding is outside the theorems (trusted base).
-/
import EPV.Gen.K1Init2
import EPV.Gen.K1Init3
import EPV.Gen.K2Init
import EPV.Gen.K3Init2
import EPV.Gen.K3Init3
import EPV.Gen.DSDCylInit
import EPV.Lemmas.BurnModels

set_option linter.all false

open EPV EPV.Gen EPV.Spec.Burn EPV.Burn

namespace EPV.C20

/-! ### constructors: acceptance vs. the documented restrictions -/

theorem k1init2_accepts_iff (p : K1Init2.P) : K1Init2.outcome p = .ok ↔ K1Documented p.geometry p.D 2 := by
  unfold K1Documented
  simp only [epv_tree]
  split_ifs <;> simp_all [epv_cond] <;> norm_num at * <;> linarith

theorem k1init3_accepts_iff (p : K1Init3.P) : K1Init3.outcome p = .ok ↔ K1Documented p.geometry p.D 3 := by
  unfold K1Documented
  simp only [epv_tree]
  split_ifs <;> simp_all [epv_cond] <;> norm_num at * <;> linarith

theorem k3init2_accepts_iff (p : K3Init2.P) :
    K3Init2.outcome p = .ok ↔ K3Documented p.geometry p.R p.D (Real.sqrt (p.xd0 * p.xd0 + p.xd1 * p.xd1)) 2 := by
  unfold K3Documented
  simp only [epv_tree]
  split_ifs <;> simp_all [epv_cond] <;> norm_num at * <;> linarith

theorem k3init3_accepts_iff (p : K3Init3.P) :
    K3Init3.outcome p = .ok ↔
      K3Documented p.geometry p.R p.D (Real.sqrt (p.xd0 * p.xd0 + p.xd1 * p.xd1 + p.xd2 * p.xd2)) 3 := by
  unfold K3Documented
  simp only [epv_tree]
  split_ifs <;> simp_all [epv_cond] <;> norm_num at * <;> linarith

theorem k2init_accepts_iff_coded (p : K2Init.P) :
    K2Init.outcome p = .ok ↔
      K2Coded p.geometry p.R p.D1 p.D2 p.a1 p.a2 p.a4 p.a5 p.td1 p.td2 p.td3 p.td4 p.td5 := by
  unfold K2Coded
  by_cases g2 : K2Init.c0 p
  · simp only [epv_tree, if_pos g2, ite_raise_eq_ok]
    simp only [epv_cond, not_le, not_lt, and_true] at g2 ⊢
    exact ⟨fun h => ⟨Or.inl g2, h⟩, fun h => h.2⟩
  · simp only [epv_tree, if_neg g2, ite_raise_eq_ok, ite_else_raise_eq_ok]
    simp only [epv_cond, not_le, not_lt, and_true] at g2 ⊢
    exact ⟨fun h => ⟨Or.inr h.1, h.2⟩, fun h => ⟨h.1.resolve_left g2, h.2⟩⟩

theorem k2init_accepts_of_documented (p : K2Init.P)
    (h : K2Documented p.geometry p.R p.D1 p.D2 p.a1 p.a2 p.a4 p.a5 p.td1 p.td2 p.td3 p.td4 p.td5) :
    K2Init.outcome p = .ok := by
  rw [k2init_accepts_iff_coded]
  obtain ⟨g, a, b, c, d, e⟩ := h
  exact ⟨g, a, b, c, d.le, e⟩

theorem dsdcylinit_accepts_iff_coded (p : DSDCylInit.P) :
    DSDCylInit.outcome p = .ok ↔ DsdCoded p.geometry p.r_1 p.r_2 p.D_CJ_1 p.D_CJ_2 p.alpha_1 p.alpha_2 := by
  unfold DsdCoded
  simp only [epv_tree]
  split_ifs <;> simp_all [epv_cond] <;> norm_num at * <;> linarith

theorem dsdcylinit_accepts_of_documented (p : DSDCylInit.P)
    (h : DsdDocumented p.geometry p.r_1 p.r_2 p.D_CJ_1 p.D_CJ_2 p.alpha_1 p.alpha_2) :
    DSDCylInit.outcome p = .ok := by
  rw [dsdcylinit_accepts_iff_coded]
  obtain ⟨g, a, b, c, d, e, f, g', -, -⟩ := h
  exact ⟨g, a, b, c, d, e, f, g'⟩

/-! ### every rejection is a ValueError -/

theorem k1init2_rejects_valueerror (p : K1Init2.P) :
    K1Init2.outcome p = .ok ∨ K1Init2.outcome p = .raise "ValueError" := by
  epv_ok_or_raise
theorem k1init3_rejects_valueerror (p : K1Init3.P) :
    K1Init3.outcome p = .ok ∨ K1Init3.outcome p = .raise "ValueError" := by
  epv_ok_or_raise
theorem k2init_rejects_valueerror (p : K2Init.P) :
    K2Init.outcome p = .ok ∨ K2Init.outcome p = .raise "ValueError" := by
  epv_ok_or_raise
theorem k3init2_rejects_valueerror (p : K3Init2.P) :
    K3Init2.outcome p = .ok ∨ K3Init2.outcome p = .raise "ValueError" := by
  epv_ok_or_raise
theorem k3init3_rejects_valueerror (p : K3Init3.P) :
    K3Init3.outcome p = .ok ∨ K3Init3.outcome p = .raise "ValueError" := by
  epv_ok_or_raise
theorem dsdcylinit_rejects_valueerror (p : DSDCylInit.P) :
    DSDCylInit.outcome p = .ok ∨ DSDCylInit.outcome p = .raise "ValueError" := by
  epv_ok_or_raise

/-- the `_run` trees (constructor + evaluation): the only other rejection is Kenamond 3's
"HE grid points must be outside of inert region", also a ValueError; none of them has a NaN leaf -/
theorem k1d2_run_outcomes (p : K1d2.P) (x y : ℝ) :
    K1d2.outcome p x y = .ok ∨ K1d2.outcome p x y = .raise "ValueError" := by
  epv_ok_or_raise
theorem k1d3_run_outcomes (p : K1d3.P) (x y z : ℝ) :
    K1d3.outcome p x y z = .ok ∨ K1d3.outcome p x y z = .raise "ValueError" := by
  epv_ok_or_raise
theorem k2d2_run_outcomes (p : K2d2.P) (x y : ℝ) :
    K2d2.outcome p x y = .ok ∨ K2d2.outcome p x y = .raise "ValueError" := by
  epv_ok_or_raise
theorem k2d3_run_outcomes (p : K2d3.P) (x y z : ℝ) :
    K2d3.outcome p x y z = .ok ∨ K2d3.outcome p x y z = .raise "ValueError" := by
  epv_ok_or_raise
theorem k3d2_run_outcomes (p : K3d2.P) (x y : ℝ) :
    K3d2.outcome p x y = .ok ∨ K3d2.outcome p x y = .raise "ValueError" := by
  epv_ok_or_raise
theorem k3d3_run_outcomes (p : K3d3.P) (x y z : ℝ) :
    K3d3.outcome p x y z = .ok ∨ K3d3.outcome p x y z = .raise "ValueError" := by
  epv_ok_or_raise
theorem dsdcyl_run_outcomes (p : DSDCyl.P) (x y : ℝ) :
    DSDCyl.outcome p x y = .ok ∨ DSDCyl.outcome p x y = .raise "ValueError" := by
  epv_ok_or_raise

/-! ### no NaN / inf from the formulas inside the documented domain -/

theorem k1d2_welldefined (p : K1d2.P) (hD : 0 < p.D) (x y : ℝ) : K1d2.L1.WellDefined p x y :=
  ⟨add_nonneg (mul_self_nonneg _) (mul_self_nonneg _), hD.ne'⟩

theorem k1d3_welldefined (p : K1d3.P) (hD : 0 < p.D) (x y z : ℝ) : K1d3.L1.WellDefined p x y z :=
  ⟨add_nonneg (add_nonneg (mul_self_nonneg _) (mul_self_nonneg _)) (mul_self_nonneg _), hD.ne'⟩

theorem k2d2_welldefined (p : K2d2.P) (h : K2d2.Adm p) (x y : ℝ) : K2d2.L12.WellDefined p x y := by
  have h1 : p.D1 ≠ 0 := (h.hD2.trans_le h.hD).ne'
  have h2 : p.D2 ≠ 0 := h.hD2.ne'
  unfold K2d2.L12.WellDefined
  refine ⟨?_, h1, h2, ?_, ?_, ?_, ?_⟩ <;> exact add_nonneg (mul_self_nonneg _) (mul_self_nonneg _)

theorem k2d3_welldefined (p : K2d3.P) (h : K2d3.Adm p) (x y z : ℝ) : K2d3.L12.WellDefined p x y z := by
  have h1 : p.D1 ≠ 0 := (h.hD2.trans_le h.hD).ne'
  have h2 : p.D2 ≠ 0 := h.hD2.ne'
  unfold K2d3.L12.WellDefined
  refine ⟨?_, h1, h2, ?_, ?_, ?_, ?_⟩ <;>
    exact add_nonneg (add_nonneg (mul_self_nonneg _) (mul_self_nonneg _)) (mul_self_nonneg _)

/-- the facts about norms that make both leaves of Kenamond 3 well defined -/
private theorem k3_wd_core {R lod lop c : ℝ} (hR : 0 < R) (hxd : R < lod) (hq : R ≤ lop) :
    0 ≤ lod ^ 2 - R ^ 2 ∧ lod * lop ≠ 0 ∧ lop ≠ 0 ∧ -1 ≤ R / lop ∧ R / lop ≤ 1 ∧ lod ≠ 0 ∧ -1 ≤ R / lod ∧
      R / lod ≤ 1 ∧ 0 ≤ lop ^ 2 - R ^ 2 := by
  have hlod : 0 < lod := hR.trans hxd
  have hlop : 0 < lop := hR.trans_le hq
  refine ⟨by nlinarith, (mul_pos hlod hlop).ne', hlop.ne', ?_, (div_le_one hlop).mpr hq, hlod.ne', ?_,
    (div_le_one hlod).mpr hxd.le, by nlinarith⟩
  · have := div_nonneg hR.le hlop.le; linarith
  · have := div_nonneg hR.le hlod.le; linarith

theorem k3d2_welldefined (p : K3d2.P) (h : K3d2.Adm p) (q : E2) (hq : p.R ≤ ‖q‖) :
    K3d2.L4.WellDefined p (q 0) (q 1) ∧ K3d2.L5.WellDefined p (q 0) (q 1) := by
  have e1 := sqrt_norm2 (K3d2.det p)
  simp only [K3d2.det_0, K3d2.det_1] at e1
  have e2 := sqrt_norm2 q
  have e3 := inner2 q (K3d2.det p)
  simp only [K3d2.det_0, K3d2.det_1] at e3
  obtain ⟨c1, c2⟩ := k3_cos_arg_mem (hxd := h.hR.trans h.hdet) (hq := h.hR.trans_le hq) (xd := K3d2.det p) (q := q)
  obtain ⟨w1, w2, w3, w4, w5, w6, w7, w8, w9⟩ := k3_wd_core (c := 0) h.hR h.hdet hq
  constructor
  · unfold K3d2.L4.WellDefined
    simp only [e1, e2, e3]
    exact ⟨add_nonneg (mul_self_nonneg _) (mul_self_nonneg _), w1,
      add_nonneg (mul_self_nonneg _) (mul_self_nonneg _), w2, c1, c2, w3, w4, w5, w6, w7, w8, w9, h.hD.ne'⟩
  · exact ⟨add_nonneg (mul_self_nonneg _) (mul_self_nonneg _), h.hD.ne'⟩

theorem k3d3_welldefined (p : K3d3.P) (h : K3d3.Adm p) (q : E3) (hq : p.R ≤ ‖q‖) :
    K3d3.L4.WellDefined p (q 0) (q 1) (q 2) ∧ K3d3.L5.WellDefined p (q 0) (q 1) (q 2) := by
  have e1 := sqrt_norm3 (K3d3.det p)
  simp only [K3d3.det_0, K3d3.det_1, K3d3.det_2] at e1
  have e2 := sqrt_norm3 q
  have e3 := inner3 q (K3d3.det p)
  simp only [K3d3.det_0, K3d3.det_1, K3d3.det_2] at e3
  obtain ⟨c1, c2⟩ := k3_cos_arg_mem (hxd := h.hR.trans h.hdet) (hq := h.hR.trans_le hq) (xd := K3d3.det p) (q := q)
  obtain ⟨w1, w2, w3, w4, w5, w6, w7, w8, w9⟩ := k3_wd_core (c := 0) h.hR h.hdet hq
  constructor
  · unfold K3d3.L4.WellDefined
    simp only [e1, e2, e3]
    exact ⟨add_nonneg (add_nonneg (mul_self_nonneg _) (mul_self_nonneg _)) (mul_self_nonneg _), w1,
      add_nonneg (add_nonneg (mul_self_nonneg _) (mul_self_nonneg _)) (mul_self_nonneg _), w2, c1, c2, w3, w4, w5,
      w6, w7, w8, w9, h.hD.ne'⟩
  · exact ⟨add_nonneg (add_nonneg (mul_self_nonneg _) (mul_self_nonneg _)) (mul_self_nonneg _), h.hD.ne'⟩

/-- DSD cylinder on the documented domain: the logarithms' arguments are positive in the leaf the
point selects (inner material r₁ ≤ r < r₂: leaf 8; outer material r ≥ r₂: leaf 9) -/
theorem dsdcyl_welldefined (p : DSDCyl.P) (h : DSDCyl.Adm p) (x y : ℝ) :
    (p.r_1 ≤ Real.sqrt (x * x + y * y) → DSDCyl.L8.WellDefined p x y) ∧
    (p.r_2 ≤ Real.sqrt (x * x + y * y) → DSDCyl.L9.WellDefined p x y) := by
  have hs : 0 ≤ x * x + y * y := add_nonneg (mul_self_nonneg _) (mul_self_nonneg _)
  have g1 : 0 < p.r_1 - p.alpha_1 / p.D_CJ_1 := sub_pos.mpr h.h1
  have g2 : 0 < p.r_2 - p.alpha_2 / p.D_CJ_2 := sub_pos.mpr h.h2
  constructor
  · intro hr
    exact ⟨hs, h.hD1.ne', g1.ne', div_pos (sub_pos.mpr (h.h1.trans_le hr)) g1⟩
  · intro hr
    exact ⟨h.hD1.ne', g1.ne', div_pos (sub_pos.mpr (h.h1.trans h.hr)) g1, hs, h.hD2.ne', g2.ne',
      div_pos (sub_pos.mpr (h.h2.trans_le hr)) g2⟩

/-- non-vacuity: the defaults of the four classes are documented-admissible -/
example : K1Documented 2 1 2 := by unfold K1Documented; norm_num
example : K2Documented 2 3 2 1 10 5 (-5) (-10) 2 1 0 1 2 := by
  unfold K2Documented; norm_num [abs_of_pos, abs_of_neg]
example : K3Documented 2 3 2 5 2 := by unfold K3Documented; norm_num
example : DsdDocumented 2 1 2 (1/2) 1 (1/10) (1/10) := by unfold DsdDocumented; norm_num

end EPV.C20
