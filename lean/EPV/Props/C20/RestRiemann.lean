/-
C20 (work package `c20rest`) — 1-D Riemann, ideal gas: what `RiemannIGEOS.driver` does with a problem it cannot solve.

`RiemDriverClass` is the real `driver` traced from its first line to the line that builds the grid (riemann.py:163):
the Gottlieb–Groth classification into SCS / SCR / RCS / RCR / "R,C,V,C,R" (vacuum), the star state through the
driver's own `eval(soln_type.split('-')[0] + "(px,pl,rl,0,gl,self)")` dispatch; `bisect` is the atom `px`.  176 leaves;
a leaf is `raise GridReached` (a sentinel of the tracer: classification and star state went through) or the exception
the real code raises before the grid exists.

* `riem_driver_loud`            : the leaves are GridReached, NameError or UnboundLocalError — there is NO ValueError
                                  leaf: nothing in the classification is ever rejected with ValueError;
* `riem_driver_never_unbound`   : for real-valued states the if/elif chain is exhaustive: the 52 leaves that would
                                  leave `soln_type` unbound (UnboundLocalError) are unreachable (they are reached with NaN
                                  states, e.g. a negative density: NaN sound speed, every comparison False);
* `riem_driver_nameerror_only_in_vacuum` : NameError is raised only when `ur > u_RCVR(pr)`, i.e. when the two
                                  rarefaction fans do not meet and a vacuum opens ("the solution for this problem is not
                                  ready" is printed; then `eval("R,C,V,C,R(px,…)")` fails on the name `R`).

So a vacuum-generating request IS rejected loudly (second clause of the property: it raises, it does not return
finite numbers) but not with ValueError and not at construction; see `FindingRestRiemann` for the witness.
-/
import EPV.Gen.RiemDriverClass
import EPV.Lemmas.C20Rest

set_option linter.all false

open EPV EPV.Gen

namespace EPV.C20

/-- the two rarefaction fans do not meet: `ur > u_RCVR(pr)` (riemann.py:134 with utils.py `u_RCVR`) -/
def RiemVacuum (p : RiemDriverClass.P) : Prop :=
  p.ul + 2 * Real.sqrt (p.gl * p.pl / p.rl) / (p.gl - 1) + 2 * Real.sqrt (p.gr * p.pr / p.rr) / (p.gr - 1) < p.ur

theorem riem_driver_loud (p : RiemDriverClass.P) :
    Rest.Loud ["GridReached", "NameError", "UnboundLocalError"] (RiemDriverClass.outcome p) := by
  rest_loud

theorem riem_driver_never_unbound (p : RiemDriverClass.P) :
    RiemDriverClass.outcome p ≠ .raise "UnboundLocalError" := by
  intro h
  simp only [epv_tree, Rest.ite_eq_raise_iff, Rest.ok_eq_raise, EPV.Out.raise.injEq, String.reduceEq,
    and_false, false_and, or_false, false_or, and_true, true_and] at h
  simp only [epv_cond, not_le, not_lt] at h
  casesm* _ ∨ _, _ ∧ _ <;> linarith

theorem riem_driver_nameerror_only_in_vacuum (p : RiemDriverClass.P)
    (h : RiemDriverClass.outcome p = .raise "NameError") : RiemVacuum p := by
  simp only [epv_tree, Rest.ite_eq_raise_iff, Rest.ok_eq_raise, EPV.Out.raise.injEq, String.reduceEq,
    and_false, false_and, or_false, false_or, and_true, true_and] at h
  -- every path that ends in NameError carries the vacuum test among its conditions; it is found by what it
  -- says (linear arithmetic over the normalised square roots), not by its number in the generated file
  casesm* _ ∨ _, _ ∧ _ <;>
    (simp only [epv_cond, not_le, not_lt] at *
     unfold RiemVacuum
     first | assumption | linarith | (ring_nf at *; linarith)
           -- `x ** 0.5` written for `sqrt(x)` (the same real function, `Real.sqrt_eq_rpow`)
           | (simp only [← Real.sqrt_eq_rpow] at *; first | assumption | linarith | (ring_nf at *; linarith)))

/-- outside the vacuum regime the driver reaches the grid -/
theorem riem_driver_reaches_grid (p : RiemDriverClass.P) (h : ¬ RiemVacuum p) :
    RiemDriverClass.outcome p = .raise "GridReached" := by
  rcases riem_driver_loud p with h0 | ⟨s, hs, h0⟩
  · exact absurd h0 (by
      have : ¬ RiemDriverClass.outcome p = .ok := by rest_ok_formula; exact not_false
      exact this)
  · simp only [List.mem_cons, List.mem_nil_iff, or_false] at hs
    rcases hs with rfl | rfl | rfl
    · exact h0
    · exact absurd (riem_driver_nameerror_only_in_vacuum p h0) h
    · exact absurd h0 (riem_driver_never_unbound p)

/-- non-vacuity of `riem_driver_reaches_grid`: the Sod shock tube (the class defaults) is not a vacuum problem -/
example : ¬ RiemVacuum { gl := 7 / 5, gr := 7 / 5, pl := 1, pr := 1 / 10, rl := 1, rr := 1 / 8, ul := 0, ur := 0 } := by
  simp only [RiemVacuum, not_lt]
  have h1 : (0 : ℝ) ≤ Real.sqrt (7 / 5 * 1 / 1) := Real.sqrt_nonneg _
  have h2 : (0 : ℝ) ≤ Real.sqrt (7 / 5 * (1 / 10) / (1 / 8)) := Real.sqrt_nonneg _
  have e : (7 / 5 : ℝ) - 1 = 2 / 5 := by norm_num
  rw [e]
  positivity

end EPV.C20
