/-
C20 (work package `c20rest`) — FINDING: `RateStick` accepts α = 0.

Documented (class docstring): "The nominal detonation velocity of the HE, D_CJ, must be positive.  The linear
coefficient, α, of detonation velocity deviance must also be positive."  Coded: `if self.alpha < 0: raise
ValueError('Alpha must be >= 0')` — α = 0 passes, and the first call then evaluates
`dt = 0.8 * (0.5 * dx**2.0 / self.alpha)`: ZeroDivisionError (a Python float; `ValueError: arange: cannot compute
length` for a NumPy float) instead of a ValueError at construction.

Witness: the class defaults with planar initiation (IC = 3), ω_c = 0.5, a 3 × 3 request grid and alpha = 0.
Oracle site `RateStick:alpha=0` (harness/o_c20rest.py reproduces the acceptance and the ZeroDivisionError of the call).
-/
import EPV.Spec.AdmissibleRest
import EPV.Tactics

set_option linter.all false

open EPV EPV.Gen EPV.Spec.AdmissibleRest

namespace EPV.C20

noncomputable def rateStickW : InitRateStick.P :=
  { D_CJ := 1, IC := 3, R := 1, alpha := 0, geometry := 1, omega_c := 1 / 2, r_d := 25, t_f := 6, xnodes := 3, ynodes := 3 }

/-- negation of `accepts → Documented` at the boundary α = 0 -/
theorem finding_ratestick_accepts_alpha_zero :
    InitRateStick.outcome rateStickW = .ok ∧ ¬ RateStick.Documented rateStickW := by
  have hpi : ¬ ((1 : ℝ) * Real.pi / 2 ≤ 1 / 2) := by have := Real.two_le_pi; linarith
  constructor
  · simp only [epv_tree, epv_cond, rateStickW, hpi]
    norm_num
  · simp only [RateStick.Documented, rateStickW]; norm_num

end EPV.C20
