/-
C20 (Sedov share) — invalid problems are rejected with ValueError; what the constructor accepts.

Generated model SedovInit: the REAL constructor run on five symbolic parameters (acceptance tree
of sedov.py:63-77, then solution-type and special-singularity classification).

Documented restrictions (`Documented`), quoted from sedov.py:
  'geometry': '1=planar, 2=cylindrical, 3=spherical'      "geometry must be 1, 2, or 3"
  "gamma must be greater than 1"   "density must be greater than 0"   "eblast must be greater than 0"
  "omega must be between 0 and geometry"  with the comment "Omega must be between 0 and geometry
  (see Kamm&Timmes)" and the code `omega < 0 or omega >= geometry` → 0 ≤ ω < geometry.

Proved:
  * `sedov_accepts_iff`: the traced constructor returns normally IFF `Accepted` (the six checks);
  * `sedov_rejects_with_valueerror`: every rejecting path raises ValueError — the three
    `raise AttributeError` leaves of the traced tree (solution_type never assigned) are unreachable
    for real numbers;
  * `sedov_documented_accepted`: every documented-valid problem is accepted;
  * `sedov_accepted_undocumented_iff`: the accepted-but-undocumented inputs are EXACTLY the boundary
    slips γ = 1, ρ₀ = 0, E = 0 (the checks use `<` where the messages say "greater than"):
    the full-strength statement `Accepted ↔ Documented` is therefore FALSE — findings with
    witnesses in Props/C20/FindingSedov.lean;
  * `sedov_documented_no_zero_division`: on the documented domain the constructor's own divisions
    (by γ-1, (k+2-ω)(γ+1), (γ-1)k+2, k) are by non-zero numbers, and the remaining one, the
    denominator of `d_val`, vanishes exactly when v2 = vstar (the exactly singular ω): there the
    real constructor dies with ZeroDivisionError — finding.
-/
import EPV.Lemmas.SedovInit

set_option linter.all false
set_option maxRecDepth 100000

open EPV EPV.Gen EPV.Sedov

namespace EPV.C20

/-- the traced constructor returns normally iff the six checks pass -/
theorem sedov_accepts_iff (p : SedovInit.P) : SedovInit.outcome p = .ok ↔ Accepted p := by
  constructor
  · intro h
    by_contra hA
    rw [sedov_not_accepted_raises p hA] at h
    exact absurd h (by decide)
  · exact sedov_accepted_ok p

/-- every rejecting path raises ValueError (never AttributeError, TypeError, …) -/
theorem sedov_rejects_with_valueerror (p : SedovInit.P) :
    SedovInit.outcome p = .ok ∨ SedovInit.outcome p = .raise "ValueError" := by
  by_cases A : Accepted p
  · exact Or.inl (sedov_accepted_ok p A)
  · exact Or.inr (sedov_not_accepted_raises p A)

/-- no false rejections: every documented-valid problem is accepted -/
theorem sedov_documented_accepted (p : SedovInit.P) (D : Documented p) : SedovInit.outcome p = .ok := by
  exact sedov_accepted_ok p D.accepted

/-- the accepted-but-undocumented inputs are exactly the boundary slips γ = 1, ρ₀ = 0, E = 0 -/
theorem sedov_accepted_undocumented_iff (p : SedovInit.P) :
    (SedovInit.outcome p = .ok ∧ ¬ Documented p)
      ↔ (Accepted p ∧ (p.gamma = 1 ∨ p.rho0 = 0 ∨ p.eblast = 0)) := by
  rw [sedov_accepts_iff]
  constructor
  · rintro ⟨A, hD⟩
    refine ⟨A, ?_⟩
    by_contra hne
    simp only [not_or] at hne
    obtain ⟨h1, h2, h3⟩ := hne
    exact hD ⟨A.geo, lt_of_le_of_ne (not_lt.mp A.gamma) (Ne.symm h1), lt_of_le_of_ne (not_lt.mp A.rho0) (Ne.symm h2),
      lt_of_le_of_ne (not_lt.mp A.eblast) (Ne.symm h3), not_lt.mp A.omega0, not_le.mp A.omegak⟩
  · rintro ⟨A, h | h | h⟩
    · exact ⟨A, fun D => absurd h D.gamma.ne'⟩
    · exact ⟨A, fun D => absurd h D.rho0.ne'⟩
    · exact ⟨A, fun D => absurd h D.eblast.ne'⟩

/-- on the documented domain the constructor's divisions are by non-zero numbers, except the
denominator of `d_val`, which vanishes exactly at the singular ω (v2 = vstar) -/
theorem sedov_documented_no_zero_division (p : SedovInit.P) (D : Documented p) :
    p.gamma - 1 ≠ 0 ∧ (p.geometry + 2 - p.omega) * (p.gamma + 1) ≠ 0 ∧ (p.gamma - 1) * p.geometry + 2 ≠ 0
      ∧ p.geometry ≠ 0
      ∧ ((p.geometry + 2 - p.omega) * (p.gamma + 1) - 2 * (2 + p.geometry * (p.gamma - 1)) = 0
          ↔ 4 / ((p.geometry + 2 - p.omega) * (p.gamma + 1)) = 2 / ((p.gamma - 1) * p.geometry + 2)) := by
  have hγ := D.gamma
  have hk : 0 < p.geometry := by rcases D.geo with h | h | h <;> rw [h] <;> norm_num
  have hx : 0 < p.geometry + 2 - p.omega := by have := D.omegak; linarith
  have h1 : 0 < (p.geometry + 2 - p.omega) * (p.gamma + 1) := mul_pos hx (by linarith)
  have h2 : 0 < (p.gamma - 1) * p.geometry + 2 := by have := mul_pos (sub_pos.mpr hγ) hk; linarith
  refine ⟨by linarith, h1.ne', h2.ne', hk.ne', ?_⟩
  rw [div_eq_div_iff h1.ne' h2.ne']
  constructor <;> intro h <;> linarith

/-- non-vacuity: the defaults are documented-valid -/
example : Documented ⟨851072/1000000, 1, 1, 7/5, 3, 0, 1⟩ :=
  ⟨Or.inr (Or.inr rfl), by norm_num, by norm_num, by norm_num, by norm_num, by norm_num⟩

end EPV.C20
