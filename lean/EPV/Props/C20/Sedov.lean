/-
C20 (Sedov share) — invalid problems are rejected with ValueError; what the constructor accepts.

Generated model SedovInit: the REAL constructor run on five symbolic parameters (acceptance tree
of sedov.py:63-77, then solution-type and special-singularity classification).

Documented restrictions (`Documented`), quoted from sedov.py:
  'geometry': '1=planar, 2=cylindrical, 3=spherical'      "geometry must be 1, 2, or 3"
  "gamma must be greater than 1"   "density must be greater than 0"   "eblast must be greater than 0"
  "omega must be between 0 and geometry"  with the comment "Omega must be between 0 and geometry
  (see Kamm&Timmes)" and the code `omega < 0 or omega >= geometry` → 0 ≤ ω < geometry.

Proved:
  * `sedov_accepts_iff`: the traced constructor returns normally IFF `Accepted` (the six checks);
  * `sedov_rejects_with_valueerror`: every rejecting path raises ValueError — the three
    `raise AttributeError` leaves of the traced tree (solution_type never assigned) are unreachable
    for real numbers;
  * `sedov_documented_accepted`: every documented-valid problem is accepted;
  * `sedov_accepted_undocumented_iff`: the accepted-but-undocumented inputs are EXACTLY the boundary
    slips γ = 1, ρ₀ = 0, E = 0 (the checks use `<` where the messages say "greater than"):
    the full-strength statement `Accepted ↔ Documented` is therefore FALSE — findings with
    witnesses in Props/C20/FindingSedov.lean;
  * `sedov_documented_no_zero_division`: on the documented domain the constructor's own divisions
    (by γ-1, (k+2-ω)(γ+1), (γ-1)k+2, k) are by non-zero numbers, and the remaining one, the
    denominator of `d_val`, vanishes exactly when v2 = vstar (the exactly singular ω): there the
    real constructor dies with ZeroDivisionError — finding.
-/
import EPV.Lemmas.SedovInit

set_option linter.all false
set_option maxRecDepth 100000

open EPV EPV.Gen EPV.Sedov

namespace EPV.C20

/-- the documented admissible domain of the Sedov constructor -/
structure SedovDocumented (p : SedovInit.P) : Prop where
  geo : p.geometry = 1 ∨ p.geometry = 2 ∨ p.geometry = 3
  gamma : 1 < p.gamma
  rho0 : 0 < p.rho0
  eblast : 0 < p.eblast
  omega0 : 0 ≤ p.omega
  omegak : p.omega < p.geometry

/-- the six checks in the order the code makes them: a failed check raises ValueError -/
theorem sedov_not_accepted_raises (p : SedovInit.P) (hA : ¬ Accepted p) :
    SedovInit.outcome p = .raise "ValueError" := by
  have key : ∀ hg : p.geometry = 1 ∨ p.geometry = 2 ∨ p.geometry = 3,
      SedovInit.c1 p ∨ SedovInit.c4 p ∨ SedovInit.c5 p ∨ SedovInit.c6 p ∨ SedovInit.c7 p := by
    intro hg
    by_contra hne
    simp only [not_or] at hne
    exact hA ⟨hg, hne.1, hne.2.1, hne.2.2.1, hne.2.2.2.1, hne.2.2.2.2⟩
  have checks : ∀ {X Y : EPV.Out}, (SedovInit.c1 p ∨ SedovInit.c4 p ∨ SedovInit.c5 p ∨ SedovInit.c6 p ∨ SedovInit.c7 p) →
      (if SedovInit.c1 p then EPV.Out.raise "ValueError" else if SedovInit.c4 p then EPV.Out.raise "ValueError"
        else if SedovInit.c5 p then EPV.Out.raise "ValueError" else if SedovInit.c6 p then EPV.Out.raise "ValueError"
        else if SedovInit.c7 p then EPV.Out.raise "ValueError" else X) = EPV.Out.raise "ValueError" := by
    intro X Y h
    split_ifs <;> first | rfl | (exfalso; tauto)
  by_cases hc0 : SedovInit.c0 p
  · simp only [SedovInit.outcome, hc0, if_true]
    exact checks (Y := .ok) (key (Or.inl hc0))
  · by_cases hc2 : SedovInit.c2 p
    · simp only [SedovInit.outcome, hc0, hc2, if_true, if_false]
      exact checks (Y := .ok) (key (Or.inr (Or.inl hc2)))
    · by_cases hc3 : SedovInit.c3 p
      · simp only [SedovInit.outcome, hc0, hc2, hc3, if_true, if_false]
        exact checks (Y := .ok) (key (Or.inr (Or.inr hc3)))
      · simp only [SedovInit.outcome, hc0, hc2, hc3, if_false]

/-- the six checks passed: the constructor returns normally (the three `raise AttributeError`
leaves of the traced tree — solution_type never assigned — are unreachable for real numbers) -/
theorem sedov_accepted_ok (p : SedovInit.P) (A : Accepted p) : SedovInit.outcome p = .ok := by
  init_cases A p on SedovInit.outcome with
    first
    | rfl
    | (exfalso
       have h8 : ¬ SedovInit.c8 p := by assumption
       simp only [epv_cond, not_le, not_lt] at *
       rcases lt_abs.mp h8 with hh | hh <;> linarith)

/-- the traced constructor returns normally iff the six checks pass -/
theorem sedov_accepts_iff (p : SedovInit.P) : SedovInit.outcome p = .ok ↔ Accepted p := by
  constructor
  · intro h
    by_contra hA
    rw [sedov_not_accepted_raises p hA] at h
    exact absurd h (by decide)
  · exact sedov_accepted_ok p

/-- every rejecting path raises ValueError (never AttributeError, TypeError, …) -/
theorem sedov_rejects_with_valueerror (p : SedovInit.P) :
    SedovInit.outcome p = .ok ∨ SedovInit.outcome p = .raise "ValueError" := by
  by_cases A : Accepted p
  · exact Or.inl (sedov_accepted_ok p A)
  · exact Or.inr (sedov_not_accepted_raises p A)

/-- no false rejections: every documented-valid problem is accepted -/
theorem sedov_documented_accepted (p : SedovInit.P) (D : SedovDocumented p) : SedovInit.outcome p = .ok := by
  rw [sedov_accepts_iff]
  exact ⟨D.geo, not_lt.mpr D.gamma.le, not_lt.mpr D.rho0.le, not_lt.mpr D.eblast.le, not_lt.mpr D.omega0,
    not_le.mpr D.omegak⟩

/-- the accepted-but-undocumented inputs are exactly the boundary slips γ = 1, ρ₀ = 0, E = 0 -/
theorem sedov_accepted_undocumented_iff (p : SedovInit.P) :
    (SedovInit.outcome p = .ok ∧ ¬ SedovDocumented p)
      ↔ (Accepted p ∧ (p.gamma = 1 ∨ p.rho0 = 0 ∨ p.eblast = 0)) := by
  rw [sedov_accepts_iff]
  constructor
  · rintro ⟨A, hD⟩
    refine ⟨A, ?_⟩
    by_contra hne
    simp only [not_or] at hne
    obtain ⟨h1, h2, h3⟩ := hne
    exact hD ⟨A.geo, lt_of_le_of_ne (not_lt.mp A.gamma) (Ne.symm h1), lt_of_le_of_ne (not_lt.mp A.rho0) (Ne.symm h2),
      lt_of_le_of_ne (not_lt.mp A.eblast) (Ne.symm h3), not_lt.mp A.omega0, not_le.mp A.omegak⟩
  · rintro ⟨A, h | h | h⟩
    · exact ⟨A, fun D => absurd h D.gamma.ne'⟩
    · exact ⟨A, fun D => absurd h D.rho0.ne'⟩
    · exact ⟨A, fun D => absurd h D.eblast.ne'⟩

/-- on the documented domain the constructor's divisions are by non-zero numbers, except the
denominator of `d_val`, which vanishes exactly at the singular ω (v2 = vstar) -/
theorem sedov_documented_no_zero_division (p : SedovInit.P) (D : SedovDocumented p) :
    p.gamma - 1 ≠ 0 ∧ (p.geometry + 2 - p.omega) * (p.gamma + 1) ≠ 0 ∧ (p.gamma - 1) * p.geometry + 2 ≠ 0
      ∧ p.geometry ≠ 0
      ∧ ((p.geometry + 2 - p.omega) * (p.gamma + 1) - 2 * (2 + p.geometry * (p.gamma - 1)) = 0
          ↔ 4 / ((p.geometry + 2 - p.omega) * (p.gamma + 1)) = 2 / ((p.gamma - 1) * p.geometry + 2)) := by
  have hγ := D.gamma
  have hk : 0 < p.geometry := by rcases D.geo with h | h | h <;> rw [h] <;> norm_num
  have hx : 0 < p.geometry + 2 - p.omega := by have := D.omegak; linarith
  have h1 : 0 < (p.geometry + 2 - p.omega) * (p.gamma + 1) := mul_pos hx (by linarith)
  have h2 : 0 < (p.gamma - 1) * p.geometry + 2 := by have := mul_pos (sub_pos.mpr hγ) hk; linarith
  refine ⟨by linarith, h1.ne', h2.ne', hk.ne', ?_⟩
  rw [div_eq_div_iff h1.ne' h2.ne']
  constructor <;> intro h <;> linarith

/-- non-vacuity: the defaults are documented-valid -/
example : SedovDocumented ⟨851072/1000000, 1, 1, 7/5, 3, 0, 1⟩ :=
  ⟨Or.inr (Or.inr rfl), by norm_num, by norm_num, by norm_num, by norm_num, by norm_num⟩

end EPV.C20
