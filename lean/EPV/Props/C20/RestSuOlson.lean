/-
C20 (work package `c20rest`) — Su-Olson: time domain and no NaN from the conversion formulas.

`SuOlson` is the traced public call (`suolson.py` + `timmes.suolson`/`so_wave`) with the dimensionless solutions
`usolution`, `vsolution` as uninterpreted functions `Usol`, `Vsol` (quadrature + root finding: atoms).

* `suolson_time_domain`   : the call returns NaN exactly for t ≤ 0 ("# At t=0 the solution is invalid");
* `suolson_never_raises`  : no leaf raises;
* `suolson_welldefined_partial` : for t > 0, α ≠ 0, T_bc ≠ 0 and positive dimensionless solutions U, V > 0 (hypotheses on
                            the atoms — Su & Olson's u, v lie in (0, 1]) the conversion to temperatures has no zero
                            denominator and no non-positive base under the exponent 1/4.  `_partial`: the positivity of the
                            numerically integrated U, V is assumed, not proved (C17's oracle `su_bounds` samples it).

FALSE on the current tree (module `FindingRestSuOlson`): the documented half space 0 ≤ z < ∞ is not checked.
-/
import EPV.Gen.SuOlson
import EPV.Lemmas.C20Rest

set_option linter.all false

open EPV EPV.Gen

namespace EPV.C20

theorem suolson_time_domain (p : SuOlson.P) (z t : ℝ) : SuOlson.outcome p z t = .nan ↔ t ≤ 0 := by
  simp only [epv_tree, epv_cond]
  by_cases h : t ≤ 0 <;> simp [h]

theorem suolson_never_raises (p : SuOlson.P) (z t : ℝ) :
    SuOlson.outcome p z t = .ok ∨ SuOlson.outcome p z t = .nan := by
  simp only [epv_tree]
  by_cases h : SuOlson.c0 p z t <;> simp [h]

theorem suolson_welldefined_partial (p : SuOlson.P) (z t : ℝ) (hα : p.alpha ≠ 0) (hT : p.trad_bc_ev ≠ 0)
    (hU : ∀ x τ ε, 0 < p.Usol x τ ε) (hV : ∀ x τ ε u, 0 < p.Vsol x τ ε u) : SuOlson.L1.WellDefined p z t := by
  unfold SuOlson.L1.WellDefined
  have h4 : ∀ k : ℝ, 0 < k → 0 < (p.trad_bc_ev / k) ^ (4 : ℕ) := fun k hk => by
    have : p.trad_bc_ev / k ≠ 0 := div_ne_zero hT hk.ne'
    positivity
  exact ⟨hα, div_pos (mul_pos (hU _ _ _) (mul_pos (by norm_num) (h4 _ (by norm_num)))) (by norm_num),
    div_pos (mul_pos (hV _ _ _ _) (mul_pos (by norm_num) (h4 _ (by norm_num)))) (by norm_num)⟩

/-- non-vacuity: constant positive U, V with the class defaults -/
example : ∃ p : SuOlson.P, p.alpha ≠ 0 ∧ p.trad_bc_ev ≠ 0 ∧ (∀ x τ ε, 0 < p.Usol x τ ε) ∧ (∀ x τ ε u, 0 < p.Vsol x τ ε u) :=
  ⟨⟨fun _ _ _ => 1 / 2, fun _ _ _ _ => 1 / 3, 1, 1, 1000⟩, by norm_num, by norm_num, fun _ _ _ => by norm_num,
    fun _ _ _ _ => by norm_num⟩

end EPV.C20
