/-
C20 (work package `c20rest`) — Su-Olson: time domain and no NaN from the conversion formulas.

`SuOlson` is the traced public call (`suolson.py` + `timmes.suolson`/`so_wave`) with the dimensionless solutions
`usolution`, `vsolution` as uninterpreted functions `Usol`, `Vsol` (quadrature + root finding: atoms).

* `suolson_time_domain`   : the call returns NaN exactly for t ≤ 0 ("# At t=0 the solution is invalid");
* `suolson_never_raises`  : no leaf raises;
* `suolson_welldefined_partial` : for t > 0, α ≠ 0, T_bc ≠ 0 and positive dimensionless solutions U, V > 0 (hypotheses on
                            the atoms — Su & Olson's u, v lie in (0, 1]) the conversion to temperatures has no zero
                            denominator and no non-positive base under the exponent 1/4.  `_partial`: the positivity of the
                            numerically integrated U, V is assumed, not proved (C17's oracle `su_bounds` samples it).

FALSE on the current tree (module `FindingRestSuOlson`): the documented half space 0 ≤ z < ∞ is not checked.
-/
import EPV.Gen.SuOlson
import EPV.Lemmas.C20Rest
import EPV.Lemmas.Bridge.SemiSu

set_option linter.all false

open EPV EPV.Gen

namespace EPV.C20

theorem suolson_time_domain (p : SuOlson.P) (z t : ℝ) : SuOlson.outcome p z t = .nan ↔ t ≤ 0 := by
  simp only [epv_tree]
  split_ifs with h <;> simp only [epv_cond] at h <;> constructor <;> intro h' <;>
    first | rfl | (exfalso; epv_semi_lin) | epv_semi_lin | cases h'

theorem suolson_never_raises (p : SuOlson.P) (z t : ℝ) :
    SuOlson.outcome p z t = .ok ∨ SuOlson.outcome p z t = .nan := by
  simp only [epv_tree]
  split_ifs <;> simp

theorem suolson_welldefined_partial (p : SuOlson.P) (z t : ℝ) (hα : p.alpha ≠ 0) (hT : p.trad_bc_ev ≠ 0)
    (hU : ∀ x τ ε, 0 < p.Usol x τ ε) (hV : ∀ x τ ε u, 0 < p.Vsol x τ ε u) : SuOlson.L1.WellDefined p z t := by
  unfold SuOlson.L1.WellDefined
  -- every conjunct is `α ≠ 0` or `0 < <a quotient / product of U or V, constants and (T_bc/k_B)⁴>`, whatever the
  -- order of the factors: decompose by the rules, the numerals by `norm_num`
  have h4 : ∀ a : ℝ, a ≠ 0 → 0 < a ^ (4 : ℕ) := fun a ha => by positivity
  repeat' apply And.intro
  all_goals
    first
    | exact hα
    | (apply_rules [div_pos, mul_pos, hU, hV, h4, div_ne_zero, mul_ne_zero, hT, hα] <;> norm_num)

/-- non-vacuity: constant positive U, V with the class defaults -/
example : ∃ p : SuOlson.P, p.alpha ≠ 0 ∧ p.trad_bc_ev ≠ 0 ∧ (∀ x τ ε, 0 < p.Usol x τ ε) ∧ (∀ x τ ε u, 0 < p.Vsol x τ ε u) :=
  ⟨⟨fun _ _ _ => 1 / 2, fun _ _ _ _ => 1 / 3, 1, 1, 1000⟩, by norm_num, by norm_num, fun _ _ _ => by norm_num,
    fun _ _ _ _ => by norm_num⟩

end EPV.C20
