/-
C20 (burn-time share, Kenamond 1; the summary for all four solvers is repeated in each file) — "documented parameter restrictions of Kenamond 1-3 and the DSD
cylindrical expansion are enforced by ValueError at construction; valid in-domain requests
never give NaN/inf".

Constructor trees (`K1Init2/3`, `K2Init`, `K3Init2/3`, `DSDCylInit`: `__init__` alone, with
`geometry` symbolic) against the documented catalogue of `EPV.Spec.Burn`:

* Kenamond 1, Kenamond 3:  accepts ↔ Documented, both directions     (`k1initN_accepts_iff`, `k3initN_accepts_iff`)
* Kenamond 2:  accepts ↔ `K2Coded` (D₁ ≥ D₂), and Documented → accepts  (`k2init_accepts_iff_coded`,
  `k2init_accepts_of_documented`).  `accepts → Documented` is FALSE at the boundary D₁ = D₂:
  see `FindingBurn.lean` (documented "D1 > D2", coded `D1 < D2 → raise`).
* DSD cylinder: accepts ↔ `DsdCoded`, Documented → accepts           (`dsdcylinit_accepts_iff_coded`,
  `dsdcylinit_accepts_of_documented`).  `accepts → Documented` is FALSE: the documented
  r₁ > α₁/D_CJ₁ and r₂ > α₂/D_CJ₂ are not checked — see `FindingBurn.lean`.
* every rejecting leaf of every constructor and of every `_run` raises ValueError  (`…_rejects_valueerror`).

No NaN/inf inside the domain (exact arithmetic): on the documented domain, and for Kenamond 3
for points of the explosive, every `ok` leaf of the traced `_run` is `WellDefined`: no zero
denominator, no negative square root, no `arccos` argument outside [-1, 1], no logarithm of a
non-positive number                                               (`…_welldefined`).
(P) floating-point overflow/rounding is outside the theorems (trusted base).
-/
import EPV.Gen.K1Init2
import EPV.Gen.K1Init3
import EPV.Lemmas.BurnK1

set_option linter.all false

open EPV EPV.Gen EPV.Spec.Burn EPV.Burn

namespace EPV.C20

theorem k1init2_accepts_iff (p : K1Init2.P) : K1Init2.outcome p = .ok ↔ K1Documented p.geometry p.D 2 := by
  unfold K1Documented
  simp only [epv_tree]
  split_ifs <;> simp_all [epv_cond] <;> norm_num at * <;> linarith

theorem k1init3_accepts_iff (p : K1Init3.P) : K1Init3.outcome p = .ok ↔ K1Documented p.geometry p.D 3 := by
  unfold K1Documented
  simp only [epv_tree]
  split_ifs <;> simp_all [epv_cond] <;> norm_num at * <;> linarith

theorem k1init2_rejects_valueerror (p : K1Init2.P) :
    K1Init2.outcome p = .ok ∨ K1Init2.outcome p = .raise "ValueError" := by
  epv_ok_or_raise

theorem k1init3_rejects_valueerror (p : K1Init3.P) :
    K1Init3.outcome p = .ok ∨ K1Init3.outcome p = .raise "ValueError" := by
  epv_ok_or_raise

/-- the `_run` trees (constructor + evaluation): the only other rejection is Kenamond 3's
"HE grid points must be outside of inert region", also a ValueError; none of them has a NaN leaf -/
theorem k1d2_run_outcomes (p : K1d2.P) (x y : ℝ) :
    K1d2.outcome p x y = .ok ∨ K1d2.outcome p x y = .raise "ValueError" := by
  epv_ok_or_raise

theorem k1d3_run_outcomes (p : K1d3.P) (x y z : ℝ) :
    K1d3.outcome p x y z = .ok ∨ K1d3.outcome p x y z = .raise "ValueError" := by
  epv_ok_or_raise

theorem k1d2_welldefined (p : K1d2.P) (hD : 0 < p.D) (x y : ℝ) : K1d2.L1.WellDefined p x y :=
  ⟨add_nonneg (mul_self_nonneg _) (mul_self_nonneg _), hD.ne'⟩

theorem k1d3_welldefined (p : K1d3.P) (hD : 0 < p.D) (x y z : ℝ) : K1d3.L1.WellDefined p x y z :=
  ⟨add_nonneg (add_nonneg (mul_self_nonneg _) (mul_self_nonneg _)) (mul_self_nonneg _), hD.ne'⟩

/-- non-vacuity: the defaults of the four classes are documented-admissible -/
example : K1Documented 2 1 2 := by unfold K1Documented; norm_num

end EPV.C20
