/-
C20 (work package `c20rest`) — FINDINGS: `ExplosiveArc` accepts α = 0 and ω_out = ω_in.

1. α = 0.  Documented (class docstring): "The linear coefficient, α, of detonation velocity deviance must also be
   positive."  Coded: `if self.alpha < 0: raise ValueError('Alpha must be >= 0')`; with α = 0 the first call dies with
   ZeroDivisionError in `dt = 0.8 * (0.5 * dr**2.0 / self.alpha)`.  Oracle site `ExplosiveArc:alpha=0`.
2. ω_out = ω_in.  Documented (class docstring): the outer boundary is "either confined by a material, in which case the
   DSD edge angle is the confinement angle … or a fixed boundary, in which case the DSD edge angle is ω_out = π/2.  For
   the confined case, ω_c is assumed to satisfy ω_s < ω_c < π/2."  Coded: `if self.omega_out < self.omega_in: raise
   ValueError('Outer DSD edge angle must be >= inner DSD edge angle')`.  A boundary slip (the call itself returns finite
   burn times).  Oracle site `ExplosiveArc:omega_out=omega_in`.

Witnesses: the class defaults (r_1 = 2, r_2 = 4, x_d = -4, D_CJ = 1, t_f = 14) on a 3 × 5 request grid with
(1) ω_in = 1/2, ω_out = 1, α = 0;  (2) ω_in = ω_out = 1/2, α = 0.1.
-/
import EPV.Spec.AdmissibleRest
import EPV.Tactics

set_option linter.all false

open EPV EPV.Gen EPV.Spec.AdmissibleRest

namespace EPV.C20

noncomputable def arcAlphaW : InitExplosiveArc.P :=
  { D_CJ := 1, alpha := 0, geometry := 1, omega_in := 1 / 2, omega_out := 1, r_1 := 2, r_2 := 4, t_f := 14, x_d := -4,
    xnodes := 3, ynodes := 5 }

noncomputable def arcAngleW : InitExplosiveArc.P :=
  { D_CJ := 1, alpha := 1 / 10, geometry := 1, omega_in := 1 / 2, omega_out := 1 / 2, r_1 := 2, r_2 := 4, t_f := 14,
    x_d := -4, xnodes := 3, ynodes := 5 }

private theorem hpi1 : ¬ ((1 : ℝ) * Real.pi / 2 ≤ 1 / 2) := by have := Real.two_le_pi; linarith
private theorem hpi2 : ¬ ((1 : ℝ) * Real.pi / 2 < 1) := by have := Real.two_le_pi; linarith
private theorem hpi3 : ¬ ((1 : ℝ) * Real.pi / 2 < 1 / 2) := by have := Real.two_le_pi; linarith

/-- negation of `accepts → Documented` at the boundary α = 0 -/
theorem finding_explosivearc_accepts_alpha_zero :
    InitExplosiveArc.outcome arcAlphaW = .ok ∧ ¬ ExplosiveArc.Documented arcAlphaW := by
  constructor
  · simp only [epv_tree, epv_cond, arcAlphaW, hpi1, hpi2]
    norm_num
  · simp only [ExplosiveArc.Documented, arcAlphaW]; norm_num

/-- negation of `accepts → Documented` at the boundary ω_out = ω_in -/
theorem finding_explosivearc_accepts_equal_angles :
    InitExplosiveArc.outcome arcAngleW = .ok ∧ ¬ ExplosiveArc.Documented arcAngleW := by
  constructor
  · simp only [epv_tree, epv_cond, arcAngleW, hpi1, hpi3]
    norm_num
  · simp only [ExplosiveArc.Documented, arcAngleW]; norm_num

end EPV.C20
