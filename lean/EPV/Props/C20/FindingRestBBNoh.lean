/-
C20 (work package `c20rest`) — FINDING: `NohBlackBoxEos` does not enforce the sign of `u0`.

Documented (parameter help string, the same as `Noh`, which enforces it with "Incident velocity must be negative"):
    'u0': "incident velocity (negative)".
Coded: `__init__` checks `initial_conditions['velocity'] >= 0` (inside `pressure_noh_residual`) and the geometry, but
never reads the keyword `u0`, which is the velocity `_run` actually uses for the unshocked state.  `u0 = +1` (and
`u0 = 0`) is accepted and the call returns finite fields: density ρ₀(1 - t/r)^m, velocity +1 — finite numbers that
look like a solution of a problem that has none.

The traced constructor model has no field `u0` at all (no traced condition reads it), so the statement is: the
default request is accepted, whatever `u0` is, and it is not documented-admissible for `u0 = 1`.
Oracle site `NohBlackBoxEos:u0>=0`.
-/
import EPV.Spec.AdmissibleRest
import EPV.Tactics

set_option linter.all false

open EPV EPV.Gen EPV.Spec.AdmissibleRest

namespace EPV.C20

/-- the default arguments: geometry = 3, initial conditions density 1, velocity -1, pressure 0, symmetry 2 -/
noncomputable def bbnohW : InitBBNoh.P :=
  { geometry := 3, ic_density := 1, ic_pressure := 0, ic_symmetry := 2, ic_velocity := -1 }

theorem finding_bbnoh_u0_not_enforced :
    InitBBNoh.outcome bbnohW = .ok ∧ ¬ BBNoh.Documented bbnohW 1 ∧ ¬ BBNoh.Documented bbnohW 0 := by
  refine ⟨?_, ?_, ?_⟩
  · simp only [epv_tree, epv_cond, bbnohW]; norm_num
  · simp only [BBNoh.Documented, bbnohW]; norm_num
  · simp only [BBNoh.Documented, bbnohW]; norm_num

end EPV.C20
