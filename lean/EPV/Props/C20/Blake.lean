/-
C20 (Blake share) — what the constructor and the call reject, beyond the fifteen pair theorems of
`BlakeMod.lean` / `BlakeInit{A,B,C}.lean`:

  * "EXACTLY *two* of the six possible elastic parameters must be specified to create a non-default Blake
    instance": with one or with three elastic parameters the traced constructor raises `ValueError` whatever
    the values (`BlakeInit1`, `BlakeInit3`); with none it uses the default material and accepts iff the four
    problem parameters are the documented admissible ones (`BlakeInitDefault`);
  * the call `solver(r, t)`: `ValueError` exactly for a negative radius ("Minimum coordinate … of radial grid
    is negative"), numbers for every r ≥ 0 and every real t (`BlakeFields`);
  * no zero denominator, no non-positive base under a real exponent in the closed form (leaf 1) for any
    admissible problem and r > 0 — *partial*: the one side condition that needs the "small strain" regime,
    1 + ε_vol ≠ 0 in `density = ρ₀/(1 + ε_vol)`, is a hypothesis (the constructor only warns when
    pressure_scale ≥ 0.1·bulk_mod).

Not expressible over ℝ: `blake_debug` must be a `bool` (checked by the oracle `o_c20_blake.malformed`).
Overflow of the intermediate `exp(+n(t + a/c_L))` is a finding: `FindingBlakeOverflow.lean`.
-/
import EPV.Gen.BlakeInit1
import EPV.Gen.BlakeInit3
import EPV.Gen.BlakeInitDefault
import EPV.Gen.BlakeFields
import EPV.Spec.Blake
import EPV.Lemmas.Blake
import EPV.Lemmas.BlakeFields
import EPV.Tactics

import EPV.Lemmas.Bridge.DetonTactics

set_option linter.all false

open EPV EPV.Gen EPV.Spec.Blake EPV.Blake

namespace EPV.C20

/-- one elastic parameter given: always `ValueError` -/
theorem init1_rejects (p : BlakeInit1.P) : BlakeInit1.outcome p = .raise "ValueError" := rfl

/-- three elastic parameters given: always `ValueError` -/
theorem init3_rejects (p : BlakeInit3.P) : BlakeInit3.outcome p = .raise "ValueError" := rfl

/-- no elastic parameter given (default material): accepted ⇔ the problem parameters are documented-valid -/
theorem initDefault_accepts_iff (p : BlakeInitDefault.P) :
    BlakeInitDefault.outcome p = .ok
      ↔ DocumentedProblem p.geometry p.ref_density p.cavity_radius p.pressure_scale := by
  unfold DocumentedProblem
  epv_deton_accept_iff

theorem initDefault_raise (p : BlakeInitDefault.P) (h : BlakeInitDefault.outcome p ≠ .ok) :
    BlakeInitDefault.outcome p = .raise "ValueError" := by
  have : BlakeInitDefault.outcome p = .ok ∨ BlakeInitDefault.outcome p = .raise "ValueError" := by
    unfold BlakeInitDefault.outcome
    epv_ok_or_valueError
  exact this.resolve_left h

/-- the default material: the four attributes `_run` reads satisfy the isotropy identities exactly, Young's
modulus too; the default bulk modulus is the decimal literal `41.66666666666667e9`, i.e. λ + 2G/3 rounded
(within 1e-5 Pa) -/
theorem initDefault_material (p : BlakeInitDefault.P) (h : BlakeInitDefault.outcome p = .ok) :
    BlakeInitDefault.long_mod p = BlakeInitDefault.lame_mod p + 2 * BlakeInitDefault.shear_mod p
    ∧ BlakeInitDefault.poisson_ratio p
        = BlakeInitDefault.lame_mod p / (2 * (BlakeInitDefault.lame_mod p + BlakeInitDefault.shear_mod p))
    ∧ BlakeInitDefault.youngs_mod p
        = BlakeInitDefault.shear_mod p * (3 * BlakeInitDefault.lame_mod p + 2 * BlakeInitDefault.shear_mod p)
            / (BlakeInitDefault.lame_mod p + BlakeInitDefault.shear_mod p)
    ∧ 0 < BlakeInitDefault.shear_mod p
    ∧ 0 < 3 * BlakeInitDefault.lame_mod p + 2 * BlakeInitDefault.shear_mod p
    ∧ |BlakeInitDefault.bulk_mod p - (BlakeInitDefault.lame_mod p + 2 * BlakeInitDefault.shear_mod p / 3)|
        < 1 / 100000 := by
  epv_paths (
    simp only [epv_leaf]
    refine ⟨?_, ?_, ?_, ?_, ?_, ?_⟩ <;> norm_num [abs_lt])

/-! ### the call -/

/-- `solver(r, t)` raises `ValueError` exactly for r < 0 … -/
theorem run_rejects_iff (p : BlakeFields.P) (r t : ℝ) :
    BlakeFields.outcome p r t = .raise "ValueError" ↔ r < 0 := by
  simp only [epv_tree, epv_cond]
  split_ifs <;> simp_all

/-- … and returns numbers for every r ≥ 0, every real t and all parameter values -/
theorem run_accepts_iff (p : BlakeFields.P) (r t : ℝ) :
    BlakeFields.outcome p r t = .ok ↔ 0 ≤ r := by
  simp only [epv_tree, epv_cond]
  split_ifs <;> simp_all

/-- leaf pin for the statement below -/
theorem run_leaves : BlakeFields.okLeaves = [1, 2, 3] := rfl

/-- **partial** (needs `hvol`, see the header): for an admissible problem and r > 0 the closed form evaluated
behind the front has no zero denominator and no non-positive base under a real exponent -/
theorem run_wellDefined_partial {p : BlakeFields.P} (h : Admissible p) {r : ℝ} (t : ℝ) (hr : 0 < r)
    (hvol : 1 + BlakeFields.L1.strain_vol p r t ≠ 0) : BlakeFields.L1.WellDefined p r t := by
  have h1 := one_sub_nu_pos h
  have h2 := one_sub_two_nu_pos h
  have hρ := h.density
  have ha := h.radius
  have hM := long_pos h
  have hc := cL_pos h
  have hn := nn_pos h
  have hb := bb_pos h
  have hbarg := bb_arg_pos h
  have hρ' := hρ.ne'; have ha' := ha.ne'; have h1' := h1.ne'; have hc' := hc.ne'; have hb' := hb.ne'
  have hr' := hr.ne'; have hn' := hn.ne'
  unfold bb nn cL at *
  simp only [epv_leaf] at hvol
  unfold BlakeFields.L1.WellDefined
  -- every side condition is a fact of the pool, a sign `positivity` sees, or a pool fact up to ring
  -- normalisation — whatever their order and writing
  epv_deton_wd_pool []

/-- non-vacuity of the admissibility hypothesis -/
example : Admissible dflt := dflt_admissible

end EPV.C20
