/-
C20 (heat share) — invalid problems are rejected with ValueError; valid in-domain requests give no NaN/inf.

Documented restrictions of the heat family (parameter help strings, docstrings, error messages):
  * Rod1D, case BC2 (α₁ = 0, β₁ ≠ 0, α₂ = 0, β₂ ≠ 0): "The flux at either end of rod must be equal"  (γ₁/β₁ = γ₂/β₂).
  * nothing else: no range is documented for κ, L, the end temperatures, b, a, …; the physical domain
    (L > 0, b > 0, ρ c_p ≠ 0, r ≥ 0) is what "in-domain" means below.

Proved on the traced constructor + `_run` of Rod1D (`Rod3`, Nsum = 3, all eleven parameters symbolic):
  * `rod3_rejects_iff`: the call raises iff it is the BC2 pattern with unequal fluxes, and then it is a ValueError;
    every other leaf returns numbers (no other exception class on any path);
  * `rod3_bc?_welldefined`: in the four special cases, with L ≠ 0, the selected leaf has no zero denominator
    (exact arithmetic) — no NaN/inf from the formula;
  * the three sandwiches accept every parameter value and are well defined iff L ≠ 0;
  * Hutchens 1 is well defined for r ≠ 0, b ≠ 0, ρ c_p ≠ 0 and at r = 0 unconditionally;
  * for every n the denominators of the hand model's coefficient formulas are non-zero (`coef_denominators`).
NOT true for the general Robin case: ordinary coefficients give NaN — `C14/FindingRobin.lean: finding_robin_zero_root`
(registered as C20.heat.robin_nan).  L = 0, b = 0 are accepted silently and divide by zero: undocumented, hence not
counted against the property; listed in the report.
-/
import EPV.Lemmas.HeatSeries
import EPV.Gen.Rod3
import EPV.Gen.Sandwich3
import EPV.Gen.SandwichHot3
import EPV.Gen.SandwichHalf3
import EPV.Gen.Hutchens1N3
import EPV.Tactics

set_option linter.all false

open EPV EPV.Gen EPV.Spec.Heat EPV.Model.HeatSeries EPV.Lemmas.Heat

namespace EPV.C20

noncomputable section

/-- leaf pins: a new or renumbered leaf breaks the build instead of escaping the theorems below -/
theorem rod3_leaves : Rod3.okLeaves = [0, 1, 2, 3, 4, 5, 6, 7, 8, 9, 10, 11, 12, 13, 15, 16] ∧ Rod3.nLeaves = 17 := ⟨rfl, rfl⟩

/-- case analysis over the zero pattern of (α₁, β₁, α₂, β₂) and the flux equality (`hs`: the flux test may be traced
in either orientation, `F1 != F2` or `F2 != F1`) -/
macro "rod_cases" q:ident : tactic =>
  `(tactic| (have hs : (($q).gamma2 / ($q).beta2 = ($q).gamma1 / ($q).beta1) ↔ (($q).gamma1 / ($q).beta1 = ($q).gamma2 / ($q).beta2) :=
               eq_comm
             by_cases h0 : ($q).alpha1 = 0 <;> by_cases h1 : ($q).beta1 = 0 <;> by_cases h2 : ($q).alpha2 = 0 <;>
             by_cases h3 : ($q).beta2 = 0 <;> by_cases h4 : ($q).gamma1 / ($q).beta1 = ($q).gamma2 / ($q).beta2 <;>
             simp [h0, h1, h2, h3, h4, hs]))

/-- **the documented restriction is enforced, by ValueError, and nothing else is rejected** -/
theorem rod3_rejects_iff (q : Rod3.P) (x t : ℝ) :
    (Rod3.outcome q x t = .raise "ValueError"
        ↔ (q.alpha1 = 0 ∧ q.beta1 ≠ 0 ∧ q.alpha2 = 0 ∧ q.beta2 ≠ 0 ∧ q.gamma1 / q.beta1 ≠ q.gamma2 / q.beta2))
      ∧ (Rod3.outcome q x t = .ok ∨ Rod3.outcome q x t = .raise "ValueError") := by
  simp only [epv_tree, epv_cond]
  constructor
  · rod_cases q
  · rod_cases q

/-- BC1 with L ≠ 0: leaf 4, all denominators non-zero -/
theorem rod3_bc1_welldefined (q : Rod3.P) (x t : ℝ) (h1 : q.alpha1 ≠ 0) (h2 : q.beta1 = 0) (h3 : q.alpha2 ≠ 0)
    (h4 : q.beta2 = 0) (hL : q.L ≠ 0) : Rod3.leaf q x t = 4 ∧ Rod3.L4.WellDefined q x t := by
  have hπ := Real.pi_ne_zero
  refine ⟨by simp [epv_tree, epv_cond, h1, h2, h3, h4], ?_⟩
  unfold Rod3.L4.WellDefined
  simp [hL, h1, h3, hπ]

/-- BC2 with equal fluxes and L ≠ 0: leaf 13 -/
theorem rod3_bc2_welldefined (q : Rod3.P) (x t : ℝ) (h1 : q.alpha1 = 0) (h2 : q.beta1 ≠ 0) (h3 : q.alpha2 = 0)
    (h4 : q.beta2 ≠ 0) (hF : q.gamma1 / q.beta1 = q.gamma2 / q.beta2) (hL : q.L ≠ 0) :
    Rod3.leaf q x t = 13 ∧ Rod3.L13.WellDefined q x t := by
  have hπ := Real.pi_ne_zero
  have hc5 : (q.gamma1 / q.beta1 = q.gamma2 / q.beta2) = True := eq_true hF
  have hc5' : (q.gamma2 / q.beta2 = q.gamma1 / q.beta1) = True := eq_true hF.symm
  refine ⟨by simp only [epv_tree, epv_cond, h1, h2, h3, h4, hc5, hc5', if_true, if_false, not_true_eq_false, not_false_eq_true,
    ne_eq], ?_⟩
  unfold Rod3.L13.WellDefined
  simp [hL, h2, h4, hπ]

/-- BC3 with L ≠ 0: leaf 7 -/
theorem rod3_bc3_welldefined (q : Rod3.P) (x t : ℝ) (h1 : q.alpha1 ≠ 0) (h2 : q.beta1 = 0) (h3 : q.alpha2 = 0)
    (h4 : q.beta2 ≠ 0) (hL : q.L ≠ 0) : Rod3.leaf q x t = 7 ∧ Rod3.L7.WellDefined q x t := by
  have hπ := Real.pi_ne_zero
  refine ⟨by simp [epv_tree, epv_cond, h1, h2, h3, h4], ?_⟩
  unfold Rod3.L7.WellDefined
  simp [hL, h1, h4, hπ]

/-- BC4 with L ≠ 0: leaf 10 -/
theorem rod3_bc4_welldefined (q : Rod3.P) (x t : ℝ) (h1 : q.alpha1 = 0) (h2 : q.beta1 ≠ 0) (h3 : q.alpha2 ≠ 0)
    (h4 : q.beta2 = 0) (hL : q.L ≠ 0) : Rod3.leaf q x t = 10 ∧ Rod3.L10.WellDefined q x t := by
  have hπ := Real.pi_ne_zero
  refine ⟨by simp [epv_tree, epv_cond, h1, h2, h3, h4], ?_⟩
  unfold Rod3.L10.WellDefined
  simp [hL, h2, h3, hπ]

/-- Rod1D defaults (BC1, L = 2) -/
example : (1 : ℝ) ≠ 0 ∧ (0 : ℝ) = 0 ∧ (2 : ℝ) ≠ 0 := by norm_num

/-- the sandwiches accept every parameter value; their formulas are well defined exactly when L ≠ 0 -/
theorem sandwich_accepts (p : Sandwich3.P) (x t : ℝ) :
    Sandwich3.outcome p x t = .ok ∧ (Sandwich3.L0.WellDefined p x t ↔ p.L ≠ 0) := by
  have hπ := Real.pi_ne_zero
  refine ⟨by simp [epv_tree], ?_⟩
  unfold Sandwich3.L0.WellDefined
  simp [hπ]

theorem sandwichHot_accepts (p : SandwichHot3.P) (x t : ℝ) :
    SandwichHot3.outcome p x t = .ok ∧ (SandwichHot3.L0.WellDefined p x t ↔ p.L ≠ 0) := by
  have hπ := Real.pi_ne_zero
  refine ⟨by simp [epv_tree], ?_⟩
  unfold SandwichHot3.L0.WellDefined
  simp [hπ]

theorem sandwichHalf_accepts (p : SandwichHalf3.P) (x t : ℝ) :
    SandwichHalf3.outcome p x t = .ok ∧ (SandwichHalf3.L0.WellDefined p x t ↔ p.L ≠ 0) := by
  have hπ := Real.pi_ne_zero
  refine ⟨by simp [epv_tree], ?_⟩
  unfold SandwichHalf3.L0.WellDefined
  simp [hπ]

/-- Hutchens 1: no rejection; well defined for r ≠ 0, b ≠ 0, ρ c_p ≠ 0, and at r = 0 unconditionally -/
theorem hutchens1_welldefined (p : Hutchens1N3.P) (r t : ℝ) :
    Hutchens1N3.outcome p r t = .ok
      ∧ (r ≠ 0 → p.b ≠ 0 → p.rho * p.cp ≠ 0 → Hutchens1N3.leaf p r t = 1 ∧ Hutchens1N3.L1.WellDefined p r t)
      ∧ (r = 0 → Hutchens1N3.leaf p r t = 0 ∧ Hutchens1N3.L0.WellDefined p r t) := by
  have hπ := Real.pi_ne_zero
  refine ⟨?_, ?_, ?_⟩
  · simp only [epv_tree, epv_cond]; by_cases hr : r = 0 <;> simp [hr]
  · intro hr hb hρ
    refine ⟨by simp [epv_tree, epv_cond, hr], ?_⟩
    unfold Hutchens1N3.L1.WellDefined
    obtain ⟨hρ1, hρ2⟩ := mul_ne_zero_iff.mp hρ
    simp [hr, hb, hπ, hρ1, hρ2]
  · intro hr
    exact ⟨by simp [epv_tree, epv_cond, hr], trivial⟩

/-- iron-sphere defaults -/
example : (1 : ℝ) ≠ 0 ∧ (7.897 : ℝ) * 5.2441e10 ≠ 0 := by norm_num

/-- **every n**: the denominators that occur in the hand model's coefficient formulas are non-zero
(`n π` for n ≥ 1 in BC1/BC2, `(2n+1) π` in BC3/BC4) and, for L ≠ 0, so is the `L` under the wave numbers -/
theorem coef_denominators (n : ℕ) :
    (n ≠ 0 → (n : ℝ) * Real.pi ≠ 0) ∧ (2 * (n : ℝ) + 1) * Real.pi ≠ 0 := by
  have hπ := Real.pi_ne_zero
  refine ⟨fun hn => mul_ne_zero (by exact_mod_cast hn) hπ, mul_ne_zero (by positivity) hπ⟩

end

end EPV.C20
