/-
C20 (burn-time share, Kenamond 3; the summary for all four solvers is repeated in each file) — "documented parameter restrictions of Kenamond 1-3 and the DSD
cylindrical expansion are enforced by ValueError at construction; valid in-domain requests
never give NaN/inf".

Constructor trees (`K1Init2/3`, `K2Init`, `K3Init2/3`, `DSDCylInit`: `__init__` alone, with
`geometry` symbolic) against the documented catalogue of `EPV.Spec.Burn`:

* Kenamond 1, Kenamond 3:  accepts ↔ Documented, both directions     (`k1initN_accepts_iff`, `k3initN_accepts_iff`)
* Kenamond 2:  accepts ↔ `K2Coded` (D₁ ≥ D₂), and Documented → accepts  (`k2init_accepts_iff_coded`,
  `k2init_accepts_of_documented`).  `accepts → Documented` is FALSE at the boundary D₁ = D₂:
  see `FindingBurn.lean` (documented "D1 > D2", coded `D1 < D2 → raise`).
* DSD cylinder: accepts ↔ `DsdCoded`, Documented → accepts           (`dsdcylinit_accepts_iff_coded`,
  `dsdcylinit_accepts_of_documented`).  `accepts → Documented` is FALSE: the documented
  r₁ > α₁/D_CJ₁ and r₂ > α₂/D_CJ₂ are not checked — see `FindingBurn.lean`.
* every rejecting leaf of every constructor and of every `_run` raises ValueError  (`…_rejects_valueerror`).

No NaN/inf inside the domain (exact arithmetic): on the documented domain, and for Kenamond 3
for points of the explosive, every `ok` leaf of the traced `_run` is `WellDefined`: no zero
denominator, no negative square root, no `arccos` argument outside [-1, 1], no logarithm of a
non-positive number                                               (`…_welldefined`).
(P) floating-point overflow/rounding is outside the theorems (trusted base).
-/
import EPV.Gen.K3Init2
import EPV.Gen.K3Init3
import EPV.Lemmas.BurnK3
import EPV.Lemmas.Bridge.DetonTactics

set_option linter.all false

open EPV EPV.Gen EPV.Spec.Burn EPV.Burn

namespace EPV.C20

theorem k3init2_accepts_iff (p : K3Init2.P) :
    K3Init2.outcome p = .ok ↔ K3Documented p.geometry p.R p.D (Real.sqrt (p.xd0 * p.xd0 + p.xd1 * p.xd1)) 2 := by
  unfold K3Documented
  simp only [epv_tree]
  split_ifs <;> simp_all [epv_cond] <;> norm_num at * <;> linarith

theorem k3init3_accepts_iff (p : K3Init3.P) :
    K3Init3.outcome p = .ok ↔
      K3Documented p.geometry p.R p.D (Real.sqrt (p.xd0 * p.xd0 + p.xd1 * p.xd1 + p.xd2 * p.xd2)) 3 := by
  unfold K3Documented
  simp only [epv_tree]
  split_ifs <;> simp_all [epv_cond] <;> norm_num at * <;> linarith

theorem k3init2_rejects_valueerror (p : K3Init2.P) :
    K3Init2.outcome p = .ok ∨ K3Init2.outcome p = .raise "ValueError" := by
  epv_ok_or_raise

theorem k3init3_rejects_valueerror (p : K3Init3.P) :
    K3Init3.outcome p = .ok ∨ K3Init3.outcome p = .raise "ValueError" := by
  epv_ok_or_raise

theorem k3d2_run_outcomes (p : K3d2.P) (x y : ℝ) :
    K3d2.outcome p x y = .ok ∨ K3d2.outcome p x y = .raise "ValueError" := by
  epv_ok_or_raise

theorem k3d3_run_outcomes (p : K3d3.P) (x y z : ℝ) :
    K3d3.outcome p x y z = .ok ∨ K3d3.outcome p x y z = .raise "ValueError" := by
  epv_ok_or_raise

/-- the facts about norms that make both leaves of Kenamond 3 well defined -/
private theorem k3_wd_core {R lod lop c : ℝ} (hR : 0 < R) (hxd : R < lod) (hq : R ≤ lop) :
    0 ≤ lod ^ 2 - R ^ 2 ∧ lod * lop ≠ 0 ∧ lop ≠ 0 ∧ -1 ≤ R / lop ∧ R / lop ≤ 1 ∧ lod ≠ 0 ∧ -1 ≤ R / lod ∧
      R / lod ≤ 1 ∧ 0 ≤ lop ^ 2 - R ^ 2 := by
  have hlod : 0 < lod := hR.trans hxd
  have hlop : 0 < lop := hR.trans_le hq
  refine ⟨by nlinarith, (mul_pos hlod hlop).ne', hlop.ne', ?_, (div_le_one hlop).mpr hq, hlod.ne', ?_,
    (div_le_one hlod).mpr hxd.le, by nlinarith⟩
  · have := div_nonneg hR.le hlop.le; linarith
  · have := div_nonneg hR.le hlod.le; linarith

theorem k3d2_welldefined (p : K3d2.P) (h : K3d2.Adm p) (q : E2) (hq : p.R ≤ ‖q‖) :
    K3d2.L4.WellDefined p (q 0) (q 1) ∧ K3d2.L5.WellDefined p (q 0) (q 1) := by
  have e1 := sqrt_norm2 (K3d2.det p)
  simp only [K3d2.det_0, K3d2.det_1] at e1
  have e2 := sqrt_norm2 q
  have e3 := inner2 q (K3d2.det p)
  simp only [K3d2.det_0, K3d2.det_1] at e3
  obtain ⟨c1, c2⟩ := k3_cos_arg_mem (hxd := h.hR.trans h.hdet) (hq := h.hR.trans_le hq) (xd := K3d2.det p) (q := q)
  obtain ⟨w1, w2, w3, w4, w5, w6, w7, w8, w9⟩ := k3_wd_core (c := 0) h.hR h.hdet hq
  have hD := h.hD.ne'
  -- the pool of facts, in coordinates; every side condition of either leaf is one of them up to
  -- ring normalisation, whatever order and writing the traced expression gives them
  simp only [← e1, ← e2, ← e3] at c1 c2 w1 w2 w3 w4 w5 w6 w7 w8 w9
  clear e1 e2 e3
  unfold K3d2.L4.WellDefined K3d2.L5.WellDefined
  (try constructorm* _ ∧ _) <;> first | assumption | positivity | nlinarith [mul_self_nonneg (q 0 - p.xd0), mul_self_nonneg (q 1 - p.xd1)] | (ring_nf at *; assumption)

theorem k3d3_welldefined (p : K3d3.P) (h : K3d3.Adm p) (q : E3) (hq : p.R ≤ ‖q‖) :
    K3d3.L4.WellDefined p (q 0) (q 1) (q 2) ∧ K3d3.L5.WellDefined p (q 0) (q 1) (q 2) := by
  have e1 := sqrt_norm3 (K3d3.det p)
  simp only [K3d3.det_0, K3d3.det_1, K3d3.det_2] at e1
  have e2 := sqrt_norm3 q
  have e3 := inner3 q (K3d3.det p)
  simp only [K3d3.det_0, K3d3.det_1, K3d3.det_2] at e3
  obtain ⟨c1, c2⟩ := k3_cos_arg_mem (hxd := h.hR.trans h.hdet) (hq := h.hR.trans_le hq) (xd := K3d3.det p) (q := q)
  obtain ⟨w1, w2, w3, w4, w5, w6, w7, w8, w9⟩ := k3_wd_core (c := 0) h.hR h.hdet hq
  have hD := h.hD.ne'
  simp only [← e1, ← e2, ← e3] at c1 c2 w1 w2 w3 w4 w5 w6 w7 w8 w9
  clear e1 e2 e3
  unfold K3d3.L4.WellDefined K3d3.L5.WellDefined
  (try constructorm* _ ∧ _) <;> first | assumption | positivity | nlinarith [mul_self_nonneg (q 0 - p.xd0), mul_self_nonneg (q 1 - p.xd1), mul_self_nonneg (q 2 - p.xd2)] | (ring_nf at *; assumption)

example : K3Documented 2 3 2 5 2 := by unfold K3Documented; norm_num

end EPV.C20
