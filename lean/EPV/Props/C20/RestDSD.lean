/-
C20 (work package `c20rest`) — constructors of the DSD solvers RateStick and ExplosiveArc.

"Every documented restriction on a solver's parameters … is enforced by a ValueError at construction."

`InitRateStick` / `InitExplosiveArc` are the traced decision trees of `__init__` on fully symbolic
parameters (39 and 15 leaves), `Spec.AdmissibleRest.<Solver>.Documented` the hand catalogue (every
conjunct quoted from a help string, docstring or error message; each is pinned by a test of
`exactpack/tests/test_dsd.py`), `<Solver>.Coded` the same with the two boundary slips of the code.

* `init_<s>_accepts_iff_coded`        : accepts ↔ Coded, both directions;
* `init_<s>_accepts_of_documented`    : Documented → accepts;
* `init_<s>_accepts_iff_partial`      : accepts ↔ Documented ∨ (Coded ∧ on a boundary the documentation excludes)
                                        — the exact size of the gap (`_partial`: the full statement
                                        accepts ↔ Documented is FALSE, see the Finding modules);
* `init_<s>_rejects_with_ValueError`  : every rejecting leaf raises ValueError.

FALSE on the current tree (modules `FindingRestRateStick`, `FindingRestExplosiveArc`):
  RateStick / ExplosiveArc accept α = 0 against "must also be positive" (and the first call then dies
  with ZeroDivisionError: `dt = 0.8 * (0.5 * dx**2.0 / self.alpha)`); ExplosiveArc accepts
  ω_out = ω_in against "ω_s < ω_c < π/2".
-/
import EPV.Spec.AdmissibleRest
import EPV.Lemmas.C20Rest

set_option linter.all false

open EPV EPV.Gen EPV.Spec.AdmissibleRest

namespace EPV.C20

/-! ## RateStick -/

theorem init_ratestick_accepts_iff_coded (p : InitRateStick.P) :
    InitRateStick.outcome p = .ok ↔ RateStick.Coded p := by
  rest_ok_formula
  simp only [epv_cond, RateStick.Coded, not_le, not_lt, one_mul]
  constructor
  · intro h
    casesm* _ ∨ _, _ ∧ _ <;> tauto
  · intro h
    casesm* _ ∨ _, _ ∧ _ <;> simp_all <;> norm_num

theorem ratestick_coded_of_documented (p : InitRateStick.P) (h : RateStick.Documented p) : RateStick.Coded p := by
  obtain ⟨g, r, w1, w2, d, a, ic, rd, t, x, y⟩ := h
  exact ⟨g, r, w1, w2, d, a.le, ic, rd, t, x, y⟩

theorem init_ratestick_accepts_of_documented (p : InitRateStick.P) (h : RateStick.Documented p) :
    InitRateStick.outcome p = .ok :=
  (init_ratestick_accepts_iff_coded p).2 (ratestick_coded_of_documented p h)

/-- partial: the property asks for `accepts ↔ Documented`; what holds is that the constructor accepts exactly the
documented sets plus the boundary α = 0 (negation of the full statement: `finding_ratestick_accepts_alpha_zero`) -/
theorem init_ratestick_accepts_iff_partial (p : InitRateStick.P) :
    InitRateStick.outcome p = .ok ↔ RateStick.Documented p ∨ (RateStick.Coded p ∧ p.alpha = 0) := by
  rw [init_ratestick_accepts_iff_coded]
  constructor
  · intro h
    by_cases ha : p.alpha = 0
    · exact Or.inr ⟨h, ha⟩
    · obtain ⟨g, r, w1, w2, d, a, ic, rd, t, x, y⟩ := h
      exact Or.inl ⟨g, r, w1, w2, d, lt_of_le_of_ne a (Ne.symm ha), ic, rd, t, x, y⟩
  · rintro (h | ⟨h, _⟩)
    · exact ratestick_coded_of_documented p h
    · exact h

theorem init_ratestick_rejects_with_ValueError (p : InitRateStick.P) :
    InitRateStick.outcome p = .ok ∨ InitRateStick.outcome p = .raise "ValueError" := by
  rest_ok_or_raise

/-- non-vacuity: the class defaults (planar, R = 1, ω_c = π/4, D_CJ = 1, α = 0.1, IC = 1, r_d = √626, t_f = 6) with
the 11 × 11 request grid of `test_burntime_IC1_planar` are documented-admissible -/
example : RateStick.Documented
    { D_CJ := 1, IC := 1, R := 1, alpha := 1 / 10, geometry := 1, omega_c := Real.pi / 4, r_d := Real.sqrt 626,
      t_f := 6, xnodes := 11, ynodes := 11 } := by
  have hpi := Real.pi_pos
  have h2 : (1 : ℝ) ≤ Real.sqrt 2 := Real.le_sqrt_of_sq_le (by norm_num)
  have h626 : (25 : ℝ) ≤ Real.sqrt 626 := Real.le_sqrt_of_sq_le (by norm_num)
  refine ⟨Or.inl rfl, by norm_num, by positivity, by linarith, by norm_num, by norm_num, Or.inl rfl, fun _ => ?_,
    by norm_num, by norm_num, by norm_num⟩
  show (1 : ℝ) / Real.cos (Real.pi / 4) ≤ Real.sqrt 626
  rw [Real.cos_pi_div_four, div_le_iff₀ (by positivity)]
  nlinarith

/-! ## ExplosiveArc -/

theorem init_explosivearc_accepts_iff_coded (p : InitExplosiveArc.P) :
    InitExplosiveArc.outcome p = .ok ↔ ExplosiveArc.Coded p := by
  rest_ok_formula
  simp only [epv_cond, ExplosiveArc.Coded, not_le, not_lt, one_mul]

theorem explosivearc_coded_of_documented (p : InitExplosiveArc.P) (h : ExplosiveArc.Documented p) :
    ExplosiveArc.Coded p := by
  obtain ⟨g, r1, r2, r12, w1, w2, w3, w4, xd, d, a, t, x, y⟩ := h
  exact ⟨g, r1, r2, r12, w1, w2, w3.le, w4, xd, d, a.le, t, x, y⟩

theorem init_explosivearc_accepts_of_documented (p : InitExplosiveArc.P) (h : ExplosiveArc.Documented p) :
    InitExplosiveArc.outcome p = .ok :=
  (init_explosivearc_accepts_iff_coded p).2 (explosivearc_coded_of_documented p h)

/-- partial: the property asks for `accepts ↔ Documented`; what holds is that the constructor accepts exactly the
documented sets plus the two boundaries α = 0 and ω_out = ω_in (negations of the full statement:
`finding_explosivearc_accepts_alpha_zero`, `finding_explosivearc_accepts_equal_angles`) -/
theorem init_explosivearc_accepts_iff_partial (p : InitExplosiveArc.P) :
    InitExplosiveArc.outcome p = .ok ↔
      ExplosiveArc.Documented p ∨ (ExplosiveArc.Coded p ∧ (p.alpha = 0 ∨ p.omega_out = p.omega_in)) := by
  rw [init_explosivearc_accepts_iff_coded]
  constructor
  · intro h
    by_cases ha : p.alpha = 0
    · exact Or.inr ⟨h, Or.inl ha⟩
    · by_cases hw : p.omega_out = p.omega_in
      · exact Or.inr ⟨h, Or.inr hw⟩
      · obtain ⟨g, r1, r2, r12, w1, w2, w3, w4, xd, d, a, t, x, y⟩ := h
        exact Or.inl ⟨g, r1, r2, r12, w1, w2, lt_of_le_of_ne w3 (Ne.symm hw), w4, xd, d,
          lt_of_le_of_ne a (Ne.symm ha), t, x, y⟩
  · rintro (h | ⟨h, _⟩)
    · exact explosivearc_coded_of_documented p h
    · exact h

theorem init_explosivearc_rejects_with_ValueError (p : InitExplosiveArc.P) :
    InitExplosiveArc.outcome p = .ok ∨ InitExplosiveArc.outcome p = .raise "ValueError" := by
  rest_ok_or_raise

/-- non-vacuity: the class defaults (r_1 = 2, r_2 = 4, ω_in = π/4, ω_out = π/2, x_d = -4, D_CJ = 1, α = 0.1,
t_f = 14) with the 21 × 41 request grid of `test_burntime_default` are documented-admissible -/
example : ExplosiveArc.Documented
    { D_CJ := 1, alpha := 1 / 10, geometry := 1, omega_in := Real.pi / 4, omega_out := Real.pi / 2, r_1 := 2, r_2 := 4,
      t_f := 14, x_d := -4, xnodes := 21, ynodes := 41 } := by
  have hpi := Real.pi_pos
  refine ⟨rfl, by norm_num, by norm_num, by norm_num, by positivity, by linarith, by linarith, le_refl _, by norm_num,
    by norm_num, by norm_num, by norm_num, by norm_num, by norm_num⟩

end EPV.C20
