/-
C20 (Blake share) — the constructor `Blake(**kwargs)` with exactly two elastic parameters (pairs (G, E), (G, ν), (G, K), (G, M), (E, ν)), every
parameter symbolic (models `BlakeInit<XY>`): the traced constructor **accepts ⇔ the input is documented-valid**

    BlakeInit<XY>.outcome p = .ok  ↔  DocumentedPair k₁ k₂ x y  ∧  DocumentedProblem geometry ρ₀ a P₀

(`DocumentedProblem`: geometry = 3, ref_density > 0, cavity_radius > 0, pressure_scale > 0 — the parameter help
strings and the four error messages), every rejection is a `ValueError`, and on acceptance the six attributes
are one positive-definite isotropic material reproducing the two supplied values (so the hypotheses of the
C15 field theorems hold for every constructed solver).  `blake_debug` is not a number and is left at its
default; the pressure_scale ≥ 0.1·bulk_mod branch only warns (both branches accept).
-/
import EPV.Gen.BlakeInitGE
import EPV.Gen.BlakeInitGNu
import EPV.Gen.BlakeInitGK
import EPV.Gen.BlakeInitGM
import EPV.Gen.BlakeInitENu
import EPV.Spec.Blake
import EPV.Lemmas.Blake
import EPV.Lemmas.BlakeModuli
import EPV.Tactics

set_option linter.all false

open EPV EPV.Gen EPV.Spec.Blake EPV.Blake

namespace EPV.C20

/-- pair (G, E), constructor: an accepting path ends with one positive-definite isotropic material that
reproduces the two supplied values; the problem parameters and the supplied values are the documented
admissible ones -/
theorem initGE_ok (p : BlakeInitGE.P) (h : BlakeInitGE.outcome p = .ok) :
    IsoMaterial (BlakeInitGE.lame_mod p) (BlakeInitGE.shear_mod p) (BlakeInitGE.youngs_mod p) (BlakeInitGE.poisson_ratio p) (BlakeInitGE.bulk_mod p) (BlakeInitGE.long_mod p)
      ∧ BlakeInitGE.shear_mod p = p.shear_mod ∧ BlakeInitGE.youngs_mod p = p.youngs_mod ∧ DocumentedProblem p.geometry p.ref_density p.cavity_radius p.pressure_scale
      ∧ Kind.GivenOk .shear p.shear_mod ∧ Kind.GivenOk .youngs p.youngs_mod := by
  epv_paths (
    simp only [epv_cond] at *
    simp only [epv_leaf, Kind.GivenOk]
    simp only [not_le, not_lt] at *
    have hG : 0 < p.shear_mod := by linarith
    have hE : 0 < p.youngs_mod := by linarith
    have hlt : p.youngs_mod < 3 * p.shear_mod := by
      have h2G : 0 < 2 * p.shear_mod := by linarith
      have := (div_lt_iff₀ h2G).mp (by linarith : p.youngs_mod / (2 * p.shear_mod) < 3 / 2)
      linarith
    have h1 : 3 * p.shear_mod - p.youngs_mod ≠ 0 := by intro h0; linarith
    have h1p : 0 < 3 * p.shear_mod - p.youngs_mod := by linarith
    have hG0 : p.shear_mod ≠ 0 := ne_of_gt hG
    have e1 : 3 * (p.shear_mod * (p.youngs_mod - 2 * p.shear_mod) / (3 * p.shear_mod - p.youngs_mod)) + 2 * p.shear_mod
        = p.shear_mod * p.youngs_mod / (3 * p.shear_mod - p.youngs_mod) := by fsimp; ring1
    have e2 : p.shear_mod * (p.youngs_mod - 2 * p.shear_mod) / (3 * p.shear_mod - p.youngs_mod) + p.shear_mod
        = p.shear_mod * p.shear_mod / (3 * p.shear_mod - p.youngs_mod) := by fsimp; ring1
    have h2 : p.shear_mod * (p.youngs_mod - 2 * p.shear_mod) / (3 * p.shear_mod - p.youngs_mod) + p.shear_mod ≠ 0 := by
      rw [e2]; positivity
    have h3 : 0 < 3 * (p.shear_mod * (p.youngs_mod - 2 * p.shear_mod) / (3 * p.shear_mod - p.youngs_mod)) + 2 * p.shear_mod := by
      rw [e1]; positivity
    refine ⟨IsoMaterial.of_mul ?_ ?_ ?_ ?_ ?_ ?_, ?_, ?_, ⟨?_, ?_, ?_, ?_⟩, ?_, ?_⟩ <;> first | trivial | assumption | linarith | ring1 | (fsimp <;> ring1) | exact ⟨by linarith, by linarith⟩)

/-- pair (G, E): the constructor **accepts ⇔ the input is documented-valid** -/
theorem initGE_accepts_iff (p : BlakeInitGE.P) :
    BlakeInitGE.outcome p = .ok ↔ (DocumentedPair .shear .youngs p.shear_mod p.youngs_mod ∧ ¬ NearSingular p.youngs_mod (3 * p.shear_mod)) ∧ DocumentedProblem p.geometry p.ref_density p.cavity_radius p.pressure_scale := by
  constructor
  · intro h
    obtain ⟨m, e1, e2, d, g1, g2⟩ := initGE_ok p h
    refine ⟨⟨⟨g1, g2, _, _, m.shear_pos, m.bulk_pos, ?_, ?_⟩, ?_⟩, d⟩
    · rw [← e1]; exact m.kind_of.2.1
    · rw [← e2]; exact m.kind_of.2.2.1
    · clear m e1 e2 d g1 g2
      epv_paths (simp only [epv_cond] at *; simp only [NearSingular, reltol]; assumption)
  · rintro ⟨⟨⟨hx, hy, L, G, hG, hB, h1, h2⟩, hband⟩, hgeo, hrho, hrad, hprs⟩
    simp only [Kind.of, Kind.GivenOk] at hx hy h1 h2
    have hLG : 0 < L + G := by linarith
    have hE : p.youngs_mod * (L + G) = G * (3 * L + 2 * G) := by rw [← h2]; field_simp
    have e : (3 * G - p.youngs_mod) * (L + G) = G ^ 2 := by linear_combination (-1 : ℝ) * hE
    have hlt : 0 < 3 * G - p.youngs_mod := (mul_pos_iff_of_pos_right hLG).mp (e ▸ by positivity)
    have hq : 0 < p.youngs_mod / (2 * p.shear_mod) := by positivity
    have hq2 : p.youngs_mod / (2 * p.shear_mod) < 3 / 2 := by
      rw [div_lt_iff₀ (by positivity)]; linarith
    have hc0 : ¬ BlakeInitGE.c0 p := by
      simp only [epv_cond]
      linarith
    have hc1 : ¬ BlakeInitGE.c1 p := by
      simp only [epv_cond]
      linarith
    have hc2 : ¬ BlakeInitGE.c2 p := by
      simp only [epv_cond]
      simpa only [NearSingular, reltol] using hband
    have hc4 : BlakeInitGE.c4 p := by
      simp only [epv_cond]
      linarith
    have hc5 : BlakeInitGE.c5 p := by
      simp only [epv_cond]
      linarith
    have hc6 : BlakeInitGE.c6 p := by
      simp only [epv_cond]
      linarith
    have hc7 : BlakeInitGE.c7 p := by simp only [epv_cond]; exact hgeo
    have hc8 : BlakeInitGE.c8 p := by simp only [epv_cond]; exact hrho
    have hc9 : BlakeInitGE.c9 p := by simp only [epv_cond]; exact hrad
    have hc10 : BlakeInitGE.c10 p := by simp only [epv_cond]; exact hprs
    simp only [epv_tree, hc0, hc1, hc2, hc4, hc5, hc6, hc7, hc8, hc9, hc10, if_true, if_false, ite_self]

/-- pair (G, E): the constructor returns or raises `ValueError`, nothing else -/
theorem initGE_total (p : BlakeInitGE.P) : BlakeInitGE.outcome p = .ok ∨ BlakeInitGE.outcome p = .raise "ValueError" := by
  epv_ok_or_valueError

theorem initGE_raise (p : BlakeInitGE.P) (h : BlakeInitGE.outcome p ≠ .ok) : BlakeInitGE.outcome p = .raise "ValueError" :=
  (initGE_total p).resolve_left h

/-- pair (G, ν), constructor: an accepting path ends with one positive-definite isotropic material that
reproduces the two supplied values; the problem parameters and the supplied values are the documented
admissible ones -/
theorem initGNu_ok (p : BlakeInitGNu.P) (h : BlakeInitGNu.outcome p = .ok) :
    IsoMaterial (BlakeInitGNu.lame_mod p) (BlakeInitGNu.shear_mod p) (BlakeInitGNu.youngs_mod p) (BlakeInitGNu.poisson_ratio p) (BlakeInitGNu.bulk_mod p) (BlakeInitGNu.long_mod p)
      ∧ BlakeInitGNu.shear_mod p = p.shear_mod ∧ BlakeInitGNu.poisson_ratio p = p.poisson_ratio ∧ DocumentedProblem p.geometry p.ref_density p.cavity_radius p.pressure_scale
      ∧ Kind.GivenOk .shear p.shear_mod ∧ Kind.GivenOk .poisson p.poisson_ratio := by
  epv_paths (
    simp only [epv_cond] at *
    simp only [epv_leaf, Kind.GivenOk]
    simp only [not_le, not_lt] at *
    have hG : 0 < p.shear_mod := by linarith
    have h1p : 0 < 1 - 2 * p.poisson_ratio := by linarith
    have h1 : 1 - 2 * p.poisson_ratio ≠ 0 := ne_of_gt h1p
    have hn : 0 < 1 + p.poisson_ratio := by linarith
    have e1 : 3 * (2 * p.shear_mod * p.poisson_ratio / (1 - 2 * p.poisson_ratio)) + 2 * p.shear_mod
        = 2 * p.shear_mod * (1 + p.poisson_ratio) / (1 - 2 * p.poisson_ratio) := by fsimp; ring1
    have e2 : 2 * p.shear_mod * p.poisson_ratio / (1 - 2 * p.poisson_ratio) + p.shear_mod
        = p.shear_mod / (1 - 2 * p.poisson_ratio) := by fsimp; ring1
    have h2 : 2 * p.shear_mod * p.poisson_ratio / (1 - 2 * p.poisson_ratio) + p.shear_mod ≠ 0 := by
      rw [e2]; positivity
    have h3 : 0 < 3 * (2 * p.shear_mod * p.poisson_ratio / (1 - 2 * p.poisson_ratio)) + 2 * p.shear_mod := by
      rw [e1]; positivity
    refine ⟨IsoMaterial.of_mul ?_ ?_ ?_ ?_ ?_ ?_, ?_, ?_, ⟨?_, ?_, ?_, ?_⟩, ?_, ?_⟩ <;> first | trivial | assumption | linarith | ring1 | (fsimp <;> ring1) | exact ⟨by linarith, by linarith⟩)

/-- pair (G, ν): the constructor **accepts ⇔ the input is documented-valid** -/
theorem initGNu_accepts_iff (p : BlakeInitGNu.P) :
    BlakeInitGNu.outcome p = .ok ↔ (DocumentedPair .shear .poisson p.shear_mod p.poisson_ratio) ∧ DocumentedProblem p.geometry p.ref_density p.cavity_radius p.pressure_scale := by
  constructor
  · intro h
    obtain ⟨m, e1, e2, d, g1, g2⟩ := initGNu_ok p h
    refine ⟨⟨g1, g2, _, _, m.shear_pos, m.bulk_pos, ?_, ?_⟩, d⟩
    · rw [← e1]; exact m.kind_of.2.1
    · rw [← e2]; exact m.kind_of.2.2.2.1
  · rintro ⟨⟨hx, hy, L, G, hG, hB, h1, h2⟩, hgeo, hrho, hrad, hprs⟩
    simp only [Kind.of, Kind.GivenOk] at hx hy h1 h2
    have hLG : 0 < L + G := by linarith
    have hc0 : ¬ BlakeInitGNu.c0 p := by
      simp only [epv_cond]
      linarith
    have hc1 : BlakeInitGNu.c1 p := by
      simp only [epv_cond]
      exact hy.1
    have hc2 : BlakeInitGNu.c2 p := by
      simp only [epv_cond]
      exact hy.2
    have hc3 : BlakeInitGNu.c3 p := by
      simp only [epv_cond]
      linarith
    have hc4 : BlakeInitGNu.c4 p := by simp only [epv_cond]; exact hgeo
    have hc5 : BlakeInitGNu.c5 p := by simp only [epv_cond]; exact hrho
    have hc6 : BlakeInitGNu.c6 p := by simp only [epv_cond]; exact hrad
    have hc7 : BlakeInitGNu.c7 p := by simp only [epv_cond]; exact hprs
    simp only [epv_tree, hc0, hc1, hc2, hc3, hc4, hc5, hc6, hc7, if_true, if_false, ite_self]

/-- pair (G, ν): the constructor returns or raises `ValueError`, nothing else -/
theorem initGNu_total (p : BlakeInitGNu.P) : BlakeInitGNu.outcome p = .ok ∨ BlakeInitGNu.outcome p = .raise "ValueError" := by
  epv_ok_or_valueError

theorem initGNu_raise (p : BlakeInitGNu.P) (h : BlakeInitGNu.outcome p ≠ .ok) : BlakeInitGNu.outcome p = .raise "ValueError" :=
  (initGNu_total p).resolve_left h

/-- pair (G, K), constructor: an accepting path ends with one positive-definite isotropic material that
reproduces the two supplied values; the problem parameters and the supplied values are the documented
admissible ones -/
theorem initGK_ok (p : BlakeInitGK.P) (h : BlakeInitGK.outcome p = .ok) :
    IsoMaterial (BlakeInitGK.lame_mod p) (BlakeInitGK.shear_mod p) (BlakeInitGK.youngs_mod p) (BlakeInitGK.poisson_ratio p) (BlakeInitGK.bulk_mod p) (BlakeInitGK.long_mod p)
      ∧ BlakeInitGK.shear_mod p = p.shear_mod ∧ BlakeInitGK.bulk_mod p = p.bulk_mod ∧ DocumentedProblem p.geometry p.ref_density p.cavity_radius p.pressure_scale
      ∧ Kind.GivenOk .shear p.shear_mod ∧ Kind.GivenOk .bulk p.bulk_mod := by
  epv_paths (
    simp only [epv_cond] at *
    simp only [epv_leaf, Kind.GivenOk]
    simp only [not_le, not_lt] at *
    have h1 : 0 < 3 * p.bulk_mod + p.shear_mod := by linarith
    have h2 : 0 < 6 * p.bulk_mod + 2 * p.shear_mod := by linarith
    refine ⟨IsoMaterial.of_mul ?_ ?_ ?_ ?_ ?_ ?_, ?_, ?_, ⟨?_, ?_, ?_, ?_⟩, ?_, ?_⟩ <;> first | trivial | assumption | linarith | ring1 | (fsimp <;> ring1) | exact ⟨by linarith, by linarith⟩)

/-- pair (G, K): the constructor **accepts ⇔ the input is documented-valid** -/
theorem initGK_accepts_iff (p : BlakeInitGK.P) :
    BlakeInitGK.outcome p = .ok ↔ (DocumentedPair .shear .bulk p.shear_mod p.bulk_mod) ∧ DocumentedProblem p.geometry p.ref_density p.cavity_radius p.pressure_scale := by
  constructor
  · intro h
    obtain ⟨m, e1, e2, d, g1, g2⟩ := initGK_ok p h
    refine ⟨⟨g1, g2, _, _, m.shear_pos, m.bulk_pos, ?_, ?_⟩, d⟩
    · rw [← e1]; exact m.kind_of.2.1
    · rw [← e2]; exact m.kind_of.2.2.2.2.1
  · rintro ⟨⟨hx, hy, L, G, hG, hB, h1, h2⟩, hgeo, hrho, hrad, hprs⟩
    simp only [Kind.of, Kind.GivenOk] at hx hy h1 h2
    have hLG : 0 < L + G := by linarith
    have hc0 : ¬ BlakeInitGK.c0 p := by
      simp only [epv_cond]
      linarith
    have hc1 : ¬ BlakeInitGK.c1 p := by
      simp only [epv_cond]
      linarith
    have hc3 : BlakeInitGK.c3 p := by
      simp only [epv_cond]
      linarith
    have hc4 : BlakeInitGK.c4 p := by
      simp only [epv_cond]
      linarith
    have hc5 : BlakeInitGK.c5 p := by simp only [epv_cond]; exact hgeo
    have hc6 : BlakeInitGK.c6 p := by simp only [epv_cond]; exact hrho
    have hc7 : BlakeInitGK.c7 p := by simp only [epv_cond]; exact hrad
    have hc8 : BlakeInitGK.c8 p := by simp only [epv_cond]; exact hprs
    simp only [epv_tree, hc0, hc1, hc3, hc4, hc5, hc6, hc7, hc8, if_true, if_false, ite_self]

/-- pair (G, K): the constructor returns or raises `ValueError`, nothing else -/
theorem initGK_total (p : BlakeInitGK.P) : BlakeInitGK.outcome p = .ok ∨ BlakeInitGK.outcome p = .raise "ValueError" := by
  epv_ok_or_valueError

theorem initGK_raise (p : BlakeInitGK.P) (h : BlakeInitGK.outcome p ≠ .ok) : BlakeInitGK.outcome p = .raise "ValueError" :=
  (initGK_total p).resolve_left h

/-- pair (G, M), constructor: an accepting path ends with one positive-definite isotropic material that
reproduces the two supplied values; the problem parameters and the supplied values are the documented
admissible ones -/
theorem initGM_ok (p : BlakeInitGM.P) (h : BlakeInitGM.outcome p = .ok) :
    IsoMaterial (BlakeInitGM.lame_mod p) (BlakeInitGM.shear_mod p) (BlakeInitGM.youngs_mod p) (BlakeInitGM.poisson_ratio p) (BlakeInitGM.bulk_mod p) (BlakeInitGM.long_mod p)
      ∧ BlakeInitGM.shear_mod p = p.shear_mod ∧ BlakeInitGM.long_mod p = p.long_mod ∧ DocumentedProblem p.geometry p.ref_density p.cavity_radius p.pressure_scale
      ∧ Kind.GivenOk .shear p.shear_mod ∧ Kind.GivenOk .long p.long_mod := by
  epv_paths (
    simp only [epv_cond] at *
    simp only [epv_leaf, Kind.GivenOk]
    simp only [not_le, not_lt] at *
    have hG : 0 < p.shear_mod := by linarith
    have hne : p.long_mod - p.shear_mod ≠ 0 := by
      intro h0
      have hh := ‹_ < |p.long_mod - p.shear_mod|›
      rw [h0, abs_zero] at hh
      have : (0 : ℝ) ≤ 0 + 3961408125713217 / 39614081257132168796771975168 * |p.shear_mod| := by positivity
      linarith
    have hgt : p.shear_mod < p.long_mod := by
      rcases lt_or_gt_of_ne hne with hlt | hgt
      · exfalso
        have hneg : 2 * p.long_mod - 2 * p.shear_mod < 0 := by linarith
        have := (div_lt_iff_of_neg hneg).mp ‹_ < (1:ℝ) / 2›
        linarith
      · linarith
    have hpos : 0 < 2 * p.long_mod - 2 * p.shear_mod := by linarith
    have h34 : 0 < 3 * p.long_mod - 4 * p.shear_mod := by
      have := (lt_div_iff₀ hpos).mp ‹(-1 : ℝ) < _›
      linarith
    have h1 : 2 * p.long_mod - 2 * p.shear_mod ≠ 0 := ne_of_gt hpos
    have h2 : p.long_mod - 2 * p.shear_mod + p.shear_mod ≠ 0 := by intro h0; linarith
    refine ⟨IsoMaterial.of_mul ?_ ?_ ?_ ?_ ?_ ?_, ?_, ?_, ⟨?_, ?_, ?_, ?_⟩, ?_, ?_⟩ <;> first | trivial | assumption | linarith | ring1 | (fsimp <;> ring1) | exact ⟨by linarith, by linarith⟩)

/-- pair (G, M): the constructor **accepts ⇔ the input is documented-valid** -/
theorem initGM_accepts_iff (p : BlakeInitGM.P) :
    BlakeInitGM.outcome p = .ok ↔ (DocumentedPair .shear .long p.shear_mod p.long_mod) ∧ DocumentedProblem p.geometry p.ref_density p.cavity_radius p.pressure_scale := by
  constructor
  · intro h
    obtain ⟨m, e1, e2, d, g1, g2⟩ := initGM_ok p h
    refine ⟨⟨g1, g2, _, _, m.shear_pos, m.bulk_pos, ?_, ?_⟩, d⟩
    · rw [← e1]; exact m.kind_of.2.1
    · rw [← e2]; exact m.kind_of.2.2.2.2.2
  · rintro ⟨⟨hx, hy, L, G, hG, hB, h1, h2⟩, hgeo, hrho, hrad, hprs⟩
    simp only [Kind.of, Kind.GivenOk] at hx hy h1 h2
    have hLG : 0 < L + G := by linarith
    have hc0 : ¬ BlakeInitGM.c0 p := by
      simp only [epv_cond]
      linarith
    have hc1 : ¬ BlakeInitGM.c1 p := by
      simp only [epv_cond]
      linarith
    have hc2 : ¬ BlakeInitGM.c2 p := by
      simp only [epv_cond]
      rw [← h1, ← h2, abs_of_pos (by linarith), abs_of_pos hG]
      linarith
    have hc4 : BlakeInitGM.c4 p := by
      simp only [epv_cond]
      linarith
    have hc5 : BlakeInitGM.c5 p := by
      simp only [epv_cond]
      rw [lt_div_iff₀ (by linarith)]
      linarith
    have hc6 : BlakeInitGM.c6 p := by
      simp only [epv_cond]
      rw [div_lt_iff₀ (by linarith)]
      linarith
    have hc7 : BlakeInitGM.c7 p := by simp only [epv_cond]; exact hgeo
    have hc8 : BlakeInitGM.c8 p := by simp only [epv_cond]; exact hrho
    have hc9 : BlakeInitGM.c9 p := by simp only [epv_cond]; exact hrad
    have hc10 : BlakeInitGM.c10 p := by simp only [epv_cond]; exact hprs
    simp only [epv_tree, hc0, hc1, hc2, hc4, hc5, hc6, hc7, hc8, hc9, hc10, if_true, if_false, ite_self]

/-- pair (G, M): the constructor returns or raises `ValueError`, nothing else -/
theorem initGM_total (p : BlakeInitGM.P) : BlakeInitGM.outcome p = .ok ∨ BlakeInitGM.outcome p = .raise "ValueError" := by
  epv_ok_or_valueError

theorem initGM_raise (p : BlakeInitGM.P) (h : BlakeInitGM.outcome p ≠ .ok) : BlakeInitGM.outcome p = .raise "ValueError" :=
  (initGM_total p).resolve_left h

/-- pair (E, ν), constructor: an accepting path ends with one positive-definite isotropic material that
reproduces the two supplied values; the problem parameters and the supplied values are the documented
admissible ones -/
theorem initENu_ok (p : BlakeInitENu.P) (h : BlakeInitENu.outcome p = .ok) :
    IsoMaterial (BlakeInitENu.lame_mod p) (BlakeInitENu.shear_mod p) (BlakeInitENu.youngs_mod p) (BlakeInitENu.poisson_ratio p) (BlakeInitENu.bulk_mod p) (BlakeInitENu.long_mod p)
      ∧ BlakeInitENu.youngs_mod p = p.youngs_mod ∧ BlakeInitENu.poisson_ratio p = p.poisson_ratio ∧ DocumentedProblem p.geometry p.ref_density p.cavity_radius p.pressure_scale
      ∧ Kind.GivenOk .youngs p.youngs_mod ∧ Kind.GivenOk .poisson p.poisson_ratio := by
  epv_paths (
    simp only [epv_cond] at *
    simp only [epv_leaf, Kind.GivenOk]
    simp only [not_le, not_lt] at *
    have hE : 0 < p.youngs_mod := by linarith
    have h1p : 0 < 1 - 2 * p.poisson_ratio := by linarith
    have h1 : 1 - 2 * p.poisson_ratio ≠ 0 := ne_of_gt h1p
    have hn : 0 < 1 + p.poisson_ratio := by linarith
    have hn0 : 1 + p.poisson_ratio ≠ 0 := ne_of_gt hn
    have e1 : 3 * (p.youngs_mod * p.poisson_ratio / ((1 + p.poisson_ratio) * (1 - 2 * p.poisson_ratio)))
          + 2 * (1 / 2 * p.youngs_mod / (1 + p.poisson_ratio))
        = p.youngs_mod / (1 - 2 * p.poisson_ratio) := by fsimp; ring1
    have e2 : p.youngs_mod * p.poisson_ratio / ((1 + p.poisson_ratio) * (1 - 2 * p.poisson_ratio))
          + 1 / 2 * p.youngs_mod / (1 + p.poisson_ratio)
        = p.youngs_mod / (2 * ((1 + p.poisson_ratio) * (1 - 2 * p.poisson_ratio))) := by fsimp; ring1
    have h2 : p.youngs_mod * p.poisson_ratio / ((1 + p.poisson_ratio) * (1 - 2 * p.poisson_ratio))
          + 1 / 2 * p.youngs_mod / (1 + p.poisson_ratio) ≠ 0 := by
      rw [e2]; positivity
    have h3 : 0 < 3 * (p.youngs_mod * p.poisson_ratio / ((1 + p.poisson_ratio) * (1 - 2 * p.poisson_ratio)))
          + 2 * (1 / 2 * p.youngs_mod / (1 + p.poisson_ratio)) := by
      rw [e1]; positivity
    have h4 : 0 < 1 / 2 * p.youngs_mod / (1 + p.poisson_ratio) := by positivity
    refine ⟨IsoMaterial.of_mul ?_ ?_ ?_ ?_ ?_ ?_, ?_, ?_, ⟨?_, ?_, ?_, ?_⟩, ?_, ?_⟩ <;> first | trivial | assumption | linarith | ring1 | (fsimp <;> ring1) | exact ⟨by linarith, by linarith⟩)

/-- pair (E, ν): the constructor **accepts ⇔ the input is documented-valid** -/
theorem initENu_accepts_iff (p : BlakeInitENu.P) :
    BlakeInitENu.outcome p = .ok ↔ (DocumentedPair .youngs .poisson p.youngs_mod p.poisson_ratio) ∧ DocumentedProblem p.geometry p.ref_density p.cavity_radius p.pressure_scale := by
  constructor
  · intro h
    obtain ⟨m, e1, e2, d, g1, g2⟩ := initENu_ok p h
    refine ⟨⟨g1, g2, _, _, m.shear_pos, m.bulk_pos, ?_, ?_⟩, d⟩
    · rw [← e1]; exact m.kind_of.2.2.1
    · rw [← e2]; exact m.kind_of.2.2.2.1
  · rintro ⟨⟨hx, hy, L, G, hG, hB, h1, h2⟩, hgeo, hrho, hrad, hprs⟩
    simp only [Kind.of, Kind.GivenOk] at hx hy h1 h2
    have hLG : 0 < L + G := by linarith
    have hc0 : ¬ BlakeInitENu.c0 p := by
      simp only [epv_cond]
      linarith
    have hc1 : BlakeInitENu.c1 p := by
      simp only [epv_cond]
      exact hy.1
    have hc2 : BlakeInitENu.c2 p := by
      simp only [epv_cond]
      exact hy.2
    have hc3 : BlakeInitENu.c3 p := by
      simp only [epv_cond]
      linarith
    have hc4 : BlakeInitENu.c4 p := by simp only [epv_cond]; exact hgeo
    have hc5 : BlakeInitENu.c5 p := by simp only [epv_cond]; exact hrho
    have hc6 : BlakeInitENu.c6 p := by simp only [epv_cond]; exact hrad
    have hc7 : BlakeInitENu.c7 p := by simp only [epv_cond]; exact hprs
    simp only [epv_tree, hc0, hc1, hc2, hc3, hc4, hc5, hc6, hc7, if_true, if_false, ite_self]

/-- pair (E, ν): the constructor returns or raises `ValueError`, nothing else -/
theorem initENu_total (p : BlakeInitENu.P) : BlakeInitENu.outcome p = .ok ∨ BlakeInitENu.outcome p = .raise "ValueError" := by
  epv_ok_or_valueError

theorem initENu_raise (p : BlakeInitENu.P) (h : BlakeInitENu.outcome p ≠ .ok) : BlakeInitENu.outcome p = .raise "ValueError" :=
  (initENu_total p).resolve_left h

end EPV.C20
