/-
C20 (Blake share) — the constructor `Blake(**kwargs)` with exactly two elastic parameters (pairs (G, E), (G, ν), (G, K), (G, M), (E, ν)), every
parameter symbolic (models `BlakeInit<XY>`): the traced constructor **accepts ⇔ the input is documented-valid**

    BlakeInit<XY>.outcome p = .ok  ↔  DocumentedPair k₁ k₂ x y  ∧  DocumentedProblem geometry ρ₀ a P₀

(`DocumentedProblem`: geometry = 3, ref_density > 0, cavity_radius > 0, pressure_scale > 0 — the parameter help
strings and the four error messages), every rejection is a `ValueError`, and on acceptance the six attributes
are one positive-definite isotropic material reproducing the two supplied values (so the hypotheses of the
C15 field theorems hold for every constructed solver).  `blake_debug` is not a number and is left at its
default; the pressure_scale ≥ 0.1·bulk_mod branch only warns (both branches accept).
-/
import EPV.Gen.BlakeInitGE
import EPV.Gen.BlakeInitGNu
import EPV.Gen.BlakeInitGK
import EPV.Gen.BlakeInitGM
import EPV.Gen.BlakeInitENu
import EPV.Spec.Blake
import EPV.Lemmas.Blake
import EPV.Lemmas.BlakeModuli
import EPV.Lemmas.BlakeFields
import EPV.Lemmas.BlakeAccept
import EPV.Tactics

set_option linter.all false

open EPV EPV.Gen EPV.Spec.Blake EPV.Blake

namespace EPV.C20

/-- pair (G, E): an accepting path of the constructor is an accepting path of `set_elastic_params` on the two
supplied values, followed by the four problem-parameter checks; the six attributes are what it returned -/
theorem initGE_bridge (p : BlakeInitGE.P) (h : BlakeInitGE.outcome p = .ok) :
    BlakeModGE.outcome { shear_mod := p.shear_mod, youngs_mod := p.youngs_mod } = .ok ∧ DocumentedProblem p.geometry p.ref_density p.cavity_radius p.pressure_scale
    ∧ BlakeInitGE.lame_mod p = BlakeModGE.lame_mod { shear_mod := p.shear_mod, youngs_mod := p.youngs_mod }
    ∧ BlakeInitGE.shear_mod p = BlakeModGE.shear_mod { shear_mod := p.shear_mod, youngs_mod := p.youngs_mod }
    ∧ BlakeInitGE.youngs_mod p = BlakeModGE.youngs_mod { shear_mod := p.shear_mod, youngs_mod := p.youngs_mod }
    ∧ BlakeInitGE.poisson_ratio p = BlakeModGE.poisson_ratio { shear_mod := p.shear_mod, youngs_mod := p.youngs_mod }
    ∧ BlakeInitGE.bulk_mod p = BlakeModGE.bulk_mod { shear_mod := p.shear_mod, youngs_mod := p.youngs_mod }
    ∧ BlakeInitGE.long_mod p = BlakeModGE.long_mod { shear_mod := p.shear_mod, youngs_mod := p.youngs_mod } := by
  unfold BlakeInitGE.outcome at h
  unfold BlakeInitGE.lame_mod BlakeInitGE.shear_mod BlakeInitGE.youngs_mod BlakeInitGE.poisson_ratio BlakeInitGE.bulk_mod BlakeInitGE.long_mod
  epv_walk (
    simp only [epv_tree, epv_cond, DocumentedProblem] at *
    simp only [*, if_true, if_false, not_true_eq_false, not_false_eq_true, and_self, true_and]
    exact ⟨rfl, rfl, rfl, rfl, rfl, rfl⟩)

/-- pair (G, E), constructor: on acceptance the six attributes are one positive-definite isotropic material that
reproduces the two supplied values (the hypotheses of the C15 field theorems hold for the constructed solver) -/
theorem initGE_ok (p : BlakeInitGE.P) (h : BlakeInitGE.outcome p = .ok) :
    IsoMaterial (BlakeInitGE.lame_mod p) (BlakeInitGE.shear_mod p) (BlakeInitGE.youngs_mod p) (BlakeInitGE.poisson_ratio p) (BlakeInitGE.bulk_mod p) (BlakeInitGE.long_mod p)
      ∧ BlakeInitGE.shear_mod p = p.shear_mod ∧ BlakeInitGE.youngs_mod p = p.youngs_mod := by
  obtain ⟨hm, -, e1, e2, e3, e4, e5, e6⟩ := initGE_bridge p h
  rw [e1, e2, e3, e4, e5, e6]
  exact EPV.Blake.modGE_ok _ hm

/-- pair (G, E): the constructor **accepts ⇔ the input is documented-valid** -/
theorem initGE_accepts_iff (p : BlakeInitGE.P) :
    BlakeInitGE.outcome p = .ok ↔ (DocumentedPair .shear .youngs p.shear_mod p.youngs_mod ∧ ¬ NearSingular p.youngs_mod (3 * p.shear_mod)) ∧ DocumentedProblem p.geometry p.ref_density p.cavity_radius p.pressure_scale := by
  constructor
  · intro h
    obtain ⟨hm, d, -⟩ := initGE_bridge p h
    exact ⟨(EPV.Blake.modGE_accepts_iff _).mp hm, d⟩
  · rintro ⟨⟨⟨hx, hy, L, G, hG, hB, h1, h2⟩, hband⟩, hgeo, hrho, hrad, hprs⟩
    simp only [Kind.of, Kind.GivenOk] at hx hy h1 h2
    have hLG : 0 < L + G := by linarith
    have hE : p.youngs_mod * (L + G) = G * (3 * L + 2 * G) := by rw [← h2]; field_simp
    have e : (3 * G - p.youngs_mod) * (L + G) = G ^ 2 := by linear_combination (-1 : ℝ) * hE
    have hlt : 0 < 3 * G - p.youngs_mod := (mul_pos_iff_of_pos_right hLG).mp (e ▸ by positivity)
    have hq : 0 < p.youngs_mod / (2 * p.shear_mod) := by positivity
    have hq2 : p.youngs_mod / (2 * p.shear_mod) < 3 / 2 := by
      rw [div_lt_iff₀ (by positivity)]; linarith
    have hc0 : ¬ BlakeInitGE.c0 p := by
      simp only [epv_cond]
      linarith
    have hc1 : ¬ BlakeInitGE.c1 p := by
      simp only [epv_cond]
      linarith
    have hc2 : ¬ BlakeInitGE.c2 p := by
      simp only [epv_cond]
      simpa only [NearSingular, reltol] using hband
    have hc4 : BlakeInitGE.c4 p := by
      simp only [epv_cond]
      linarith
    have hc5 : BlakeInitGE.c5 p := by
      simp only [epv_cond]
      linarith
    have hc6 : BlakeInitGE.c6 p := by
      simp only [epv_cond]
      linarith
    have hc7 : BlakeInitGE.c7 p := by simp only [epv_cond]; first | exact hgeo | exact hrho | exact hrad | exact hprs
    have hc8 : BlakeInitGE.c8 p := by simp only [epv_cond]; first | exact hgeo | exact hrho | exact hrad | exact hprs
    have hc9 : BlakeInitGE.c9 p := by simp only [epv_cond]; first | exact hgeo | exact hrho | exact hrad | exact hprs
    have hc10 : BlakeInitGE.c10 p := by simp only [epv_cond]; first | exact hgeo | exact hrho | exact hrad | exact hprs
    simp only [epv_tree, hc0, hc1, hc2, hc4, hc5, hc6, hc7, hc8, hc9, hc10, if_true, if_false, ite_self]

/-- pair (G, E): **the constructed solver is in the domain of the C15 field theorems** — the attributes `_run` reads
(a, ρ₀, P₀ as supplied, λ, G, ν, M as the constructor computed them) form an admissible problem
(`EPV.Blake.Admissible`: one positive-definite isotropic material, ρ₀, a, P₀ > 0) -/
theorem initGE_admissible (p : BlakeInitGE.P) (h : BlakeInitGE.outcome p = .ok) :
    EPV.Blake.Admissible
      { cavity_radius := p.cavity_radius, lame_mod := BlakeInitGE.lame_mod p, long_mod := BlakeInitGE.long_mod p,
        poisson_ratio := BlakeInitGE.poisson_ratio p, pressure_scale := p.pressure_scale, ref_density := p.ref_density,
        shear_mod := BlakeInitGE.shear_mod p } := by
  obtain ⟨m, -, -⟩ := initGE_ok p h
  obtain ⟨-, hρ, ha, hP⟩ := (initGE_bridge p h).2.1
  exact ⟨⟨_, _, m⟩, hρ, ha, hP⟩

/-- pair (G, E): the constructor returns or raises `ValueError`, nothing else -/
theorem initGE_total (p : BlakeInitGE.P) : BlakeInitGE.outcome p = .ok ∨ BlakeInitGE.outcome p = .raise "ValueError" := by
  unfold BlakeInitGE.outcome
  epv_ok_or_valueError

theorem initGE_raise (p : BlakeInitGE.P) (h : BlakeInitGE.outcome p ≠ .ok) : BlakeInitGE.outcome p = .raise "ValueError" :=
  (initGE_total p).resolve_left h

/-- pair (G, ν): an accepting path of the constructor is an accepting path of `set_elastic_params` on the two
supplied values, followed by the four problem-parameter checks; the six attributes are what it returned -/
theorem initGNu_bridge (p : BlakeInitGNu.P) (h : BlakeInitGNu.outcome p = .ok) :
    BlakeModGNu.outcome { shear_mod := p.shear_mod, poisson_ratio := p.poisson_ratio } = .ok ∧ DocumentedProblem p.geometry p.ref_density p.cavity_radius p.pressure_scale
    ∧ BlakeInitGNu.lame_mod p = BlakeModGNu.lame_mod { shear_mod := p.shear_mod, poisson_ratio := p.poisson_ratio }
    ∧ BlakeInitGNu.shear_mod p = BlakeModGNu.shear_mod { shear_mod := p.shear_mod, poisson_ratio := p.poisson_ratio }
    ∧ BlakeInitGNu.youngs_mod p = BlakeModGNu.youngs_mod { shear_mod := p.shear_mod, poisson_ratio := p.poisson_ratio }
    ∧ BlakeInitGNu.poisson_ratio p = BlakeModGNu.poisson_ratio { shear_mod := p.shear_mod, poisson_ratio := p.poisson_ratio }
    ∧ BlakeInitGNu.bulk_mod p = BlakeModGNu.bulk_mod { shear_mod := p.shear_mod, poisson_ratio := p.poisson_ratio }
    ∧ BlakeInitGNu.long_mod p = BlakeModGNu.long_mod { shear_mod := p.shear_mod, poisson_ratio := p.poisson_ratio } := by
  unfold BlakeInitGNu.outcome at h
  unfold BlakeInitGNu.lame_mod BlakeInitGNu.shear_mod BlakeInitGNu.youngs_mod BlakeInitGNu.poisson_ratio BlakeInitGNu.bulk_mod BlakeInitGNu.long_mod
  epv_walk (
    simp only [epv_tree, epv_cond, DocumentedProblem] at *
    simp only [*, if_true, if_false, not_true_eq_false, not_false_eq_true, and_self, true_and]
    exact ⟨rfl, rfl, rfl, rfl, rfl, rfl⟩)

/-- pair (G, ν), constructor: on acceptance the six attributes are one positive-definite isotropic material that
reproduces the two supplied values (the hypotheses of the C15 field theorems hold for the constructed solver) -/
theorem initGNu_ok (p : BlakeInitGNu.P) (h : BlakeInitGNu.outcome p = .ok) :
    IsoMaterial (BlakeInitGNu.lame_mod p) (BlakeInitGNu.shear_mod p) (BlakeInitGNu.youngs_mod p) (BlakeInitGNu.poisson_ratio p) (BlakeInitGNu.bulk_mod p) (BlakeInitGNu.long_mod p)
      ∧ BlakeInitGNu.shear_mod p = p.shear_mod ∧ BlakeInitGNu.poisson_ratio p = p.poisson_ratio := by
  obtain ⟨hm, -, e1, e2, e3, e4, e5, e6⟩ := initGNu_bridge p h
  rw [e1, e2, e3, e4, e5, e6]
  exact EPV.Blake.modGNu_ok _ hm

/-- pair (G, ν): the constructor **accepts ⇔ the input is documented-valid** -/
theorem initGNu_accepts_iff (p : BlakeInitGNu.P) :
    BlakeInitGNu.outcome p = .ok ↔ (DocumentedPair .shear .poisson p.shear_mod p.poisson_ratio) ∧ DocumentedProblem p.geometry p.ref_density p.cavity_radius p.pressure_scale := by
  constructor
  · intro h
    obtain ⟨hm, d, -⟩ := initGNu_bridge p h
    exact ⟨(EPV.Blake.modGNu_accepts_iff _).mp hm, d⟩
  · rintro ⟨⟨hx, hy, L, G, hG, hB, h1, h2⟩, hgeo, hrho, hrad, hprs⟩
    simp only [Kind.of, Kind.GivenOk] at hx hy h1 h2
    have hLG : 0 < L + G := by linarith
    have hc0 : ¬ BlakeInitGNu.c0 p := by
      simp only [epv_cond]
      linarith
    have hc1 : BlakeInitGNu.c1 p := by
      simp only [epv_cond]
      exact hy.1
    have hc2 : BlakeInitGNu.c2 p := by
      simp only [epv_cond]
      exact hy.2
    have hc3 : BlakeInitGNu.c3 p := by
      simp only [epv_cond]
      linarith
    have hc4 : BlakeInitGNu.c4 p := by simp only [epv_cond]; first | exact hgeo | exact hrho | exact hrad | exact hprs
    have hc5 : BlakeInitGNu.c5 p := by simp only [epv_cond]; first | exact hgeo | exact hrho | exact hrad | exact hprs
    have hc6 : BlakeInitGNu.c6 p := by simp only [epv_cond]; first | exact hgeo | exact hrho | exact hrad | exact hprs
    have hc7 : BlakeInitGNu.c7 p := by simp only [epv_cond]; first | exact hgeo | exact hrho | exact hrad | exact hprs
    simp only [epv_tree, hc0, hc1, hc2, hc3, hc4, hc5, hc6, hc7, if_true, if_false, ite_self]

/-- pair (G, ν): **the constructed solver is in the domain of the C15 field theorems** — the attributes `_run` reads
(a, ρ₀, P₀ as supplied, λ, G, ν, M as the constructor computed them) form an admissible problem
(`EPV.Blake.Admissible`: one positive-definite isotropic material, ρ₀, a, P₀ > 0) -/
theorem initGNu_admissible (p : BlakeInitGNu.P) (h : BlakeInitGNu.outcome p = .ok) :
    EPV.Blake.Admissible
      { cavity_radius := p.cavity_radius, lame_mod := BlakeInitGNu.lame_mod p, long_mod := BlakeInitGNu.long_mod p,
        poisson_ratio := BlakeInitGNu.poisson_ratio p, pressure_scale := p.pressure_scale, ref_density := p.ref_density,
        shear_mod := BlakeInitGNu.shear_mod p } := by
  obtain ⟨m, -, -⟩ := initGNu_ok p h
  obtain ⟨-, hρ, ha, hP⟩ := (initGNu_bridge p h).2.1
  exact ⟨⟨_, _, m⟩, hρ, ha, hP⟩

/-- pair (G, ν): the constructor returns or raises `ValueError`, nothing else -/
theorem initGNu_total (p : BlakeInitGNu.P) : BlakeInitGNu.outcome p = .ok ∨ BlakeInitGNu.outcome p = .raise "ValueError" := by
  unfold BlakeInitGNu.outcome
  epv_ok_or_valueError

theorem initGNu_raise (p : BlakeInitGNu.P) (h : BlakeInitGNu.outcome p ≠ .ok) : BlakeInitGNu.outcome p = .raise "ValueError" :=
  (initGNu_total p).resolve_left h

/-- pair (G, K): an accepting path of the constructor is an accepting path of `set_elastic_params` on the two
supplied values, followed by the four problem-parameter checks; the six attributes are what it returned -/
theorem initGK_bridge (p : BlakeInitGK.P) (h : BlakeInitGK.outcome p = .ok) :
    BlakeModGK.outcome { shear_mod := p.shear_mod, bulk_mod := p.bulk_mod } = .ok ∧ DocumentedProblem p.geometry p.ref_density p.cavity_radius p.pressure_scale
    ∧ BlakeInitGK.lame_mod p = BlakeModGK.lame_mod { shear_mod := p.shear_mod, bulk_mod := p.bulk_mod }
    ∧ BlakeInitGK.shear_mod p = BlakeModGK.shear_mod { shear_mod := p.shear_mod, bulk_mod := p.bulk_mod }
    ∧ BlakeInitGK.youngs_mod p = BlakeModGK.youngs_mod { shear_mod := p.shear_mod, bulk_mod := p.bulk_mod }
    ∧ BlakeInitGK.poisson_ratio p = BlakeModGK.poisson_ratio { shear_mod := p.shear_mod, bulk_mod := p.bulk_mod }
    ∧ BlakeInitGK.bulk_mod p = BlakeModGK.bulk_mod { shear_mod := p.shear_mod, bulk_mod := p.bulk_mod }
    ∧ BlakeInitGK.long_mod p = BlakeModGK.long_mod { shear_mod := p.shear_mod, bulk_mod := p.bulk_mod } := by
  unfold BlakeInitGK.outcome at h
  unfold BlakeInitGK.lame_mod BlakeInitGK.shear_mod BlakeInitGK.youngs_mod BlakeInitGK.poisson_ratio BlakeInitGK.bulk_mod BlakeInitGK.long_mod
  epv_walk (
    simp only [epv_tree, epv_cond, DocumentedProblem] at *
    simp only [*, if_true, if_false, not_true_eq_false, not_false_eq_true, and_self, true_and]
    exact ⟨rfl, rfl, rfl, rfl, rfl, rfl⟩)

/-- pair (G, K), constructor: on acceptance the six attributes are one positive-definite isotropic material that
reproduces the two supplied values (the hypotheses of the C15 field theorems hold for the constructed solver) -/
theorem initGK_ok (p : BlakeInitGK.P) (h : BlakeInitGK.outcome p = .ok) :
    IsoMaterial (BlakeInitGK.lame_mod p) (BlakeInitGK.shear_mod p) (BlakeInitGK.youngs_mod p) (BlakeInitGK.poisson_ratio p) (BlakeInitGK.bulk_mod p) (BlakeInitGK.long_mod p)
      ∧ BlakeInitGK.shear_mod p = p.shear_mod ∧ BlakeInitGK.bulk_mod p = p.bulk_mod := by
  obtain ⟨hm, -, e1, e2, e3, e4, e5, e6⟩ := initGK_bridge p h
  rw [e1, e2, e3, e4, e5, e6]
  exact EPV.Blake.modGK_ok _ hm

/-- pair (G, K): the constructor **accepts ⇔ the input is documented-valid** -/
theorem initGK_accepts_iff (p : BlakeInitGK.P) :
    BlakeInitGK.outcome p = .ok ↔ (DocumentedPair .shear .bulk p.shear_mod p.bulk_mod) ∧ DocumentedProblem p.geometry p.ref_density p.cavity_radius p.pressure_scale := by
  constructor
  · intro h
    obtain ⟨hm, d, -⟩ := initGK_bridge p h
    exact ⟨(EPV.Blake.modGK_accepts_iff _).mp hm, d⟩
  · rintro ⟨⟨hx, hy, L, G, hG, hB, h1, h2⟩, hgeo, hrho, hrad, hprs⟩
    simp only [Kind.of, Kind.GivenOk] at hx hy h1 h2
    have hLG : 0 < L + G := by linarith
    have hc0 : ¬ BlakeInitGK.c0 p := by
      simp only [epv_cond]
      linarith
    have hc1 : ¬ BlakeInitGK.c1 p := by
      simp only [epv_cond]
      linarith
    have hc3 : BlakeInitGK.c3 p := by
      simp only [epv_cond]
      linarith
    have hc4 : BlakeInitGK.c4 p := by
      simp only [epv_cond]
      linarith
    have hc5 : BlakeInitGK.c5 p := by simp only [epv_cond]; first | exact hgeo | exact hrho | exact hrad | exact hprs
    have hc6 : BlakeInitGK.c6 p := by simp only [epv_cond]; first | exact hgeo | exact hrho | exact hrad | exact hprs
    have hc7 : BlakeInitGK.c7 p := by simp only [epv_cond]; first | exact hgeo | exact hrho | exact hrad | exact hprs
    have hc8 : BlakeInitGK.c8 p := by simp only [epv_cond]; first | exact hgeo | exact hrho | exact hrad | exact hprs
    simp only [epv_tree, hc0, hc1, hc3, hc4, hc5, hc6, hc7, hc8, if_true, if_false, ite_self]

/-- pair (G, K): **the constructed solver is in the domain of the C15 field theorems** — the attributes `_run` reads
(a, ρ₀, P₀ as supplied, λ, G, ν, M as the constructor computed them) form an admissible problem
(`EPV.Blake.Admissible`: one positive-definite isotropic material, ρ₀, a, P₀ > 0) -/
theorem initGK_admissible (p : BlakeInitGK.P) (h : BlakeInitGK.outcome p = .ok) :
    EPV.Blake.Admissible
      { cavity_radius := p.cavity_radius, lame_mod := BlakeInitGK.lame_mod p, long_mod := BlakeInitGK.long_mod p,
        poisson_ratio := BlakeInitGK.poisson_ratio p, pressure_scale := p.pressure_scale, ref_density := p.ref_density,
        shear_mod := BlakeInitGK.shear_mod p } := by
  obtain ⟨m, -, -⟩ := initGK_ok p h
  obtain ⟨-, hρ, ha, hP⟩ := (initGK_bridge p h).2.1
  exact ⟨⟨_, _, m⟩, hρ, ha, hP⟩

/-- pair (G, K): the constructor returns or raises `ValueError`, nothing else -/
theorem initGK_total (p : BlakeInitGK.P) : BlakeInitGK.outcome p = .ok ∨ BlakeInitGK.outcome p = .raise "ValueError" := by
  unfold BlakeInitGK.outcome
  epv_ok_or_valueError

theorem initGK_raise (p : BlakeInitGK.P) (h : BlakeInitGK.outcome p ≠ .ok) : BlakeInitGK.outcome p = .raise "ValueError" :=
  (initGK_total p).resolve_left h

/-- pair (G, M): an accepting path of the constructor is an accepting path of `set_elastic_params` on the two
supplied values, followed by the four problem-parameter checks; the six attributes are what it returned -/
theorem initGM_bridge (p : BlakeInitGM.P) (h : BlakeInitGM.outcome p = .ok) :
    BlakeModGM.outcome { shear_mod := p.shear_mod, long_mod := p.long_mod } = .ok ∧ DocumentedProblem p.geometry p.ref_density p.cavity_radius p.pressure_scale
    ∧ BlakeInitGM.lame_mod p = BlakeModGM.lame_mod { shear_mod := p.shear_mod, long_mod := p.long_mod }
    ∧ BlakeInitGM.shear_mod p = BlakeModGM.shear_mod { shear_mod := p.shear_mod, long_mod := p.long_mod }
    ∧ BlakeInitGM.youngs_mod p = BlakeModGM.youngs_mod { shear_mod := p.shear_mod, long_mod := p.long_mod }
    ∧ BlakeInitGM.poisson_ratio p = BlakeModGM.poisson_ratio { shear_mod := p.shear_mod, long_mod := p.long_mod }
    ∧ BlakeInitGM.bulk_mod p = BlakeModGM.bulk_mod { shear_mod := p.shear_mod, long_mod := p.long_mod }
    ∧ BlakeInitGM.long_mod p = BlakeModGM.long_mod { shear_mod := p.shear_mod, long_mod := p.long_mod } := by
  unfold BlakeInitGM.outcome at h
  unfold BlakeInitGM.lame_mod BlakeInitGM.shear_mod BlakeInitGM.youngs_mod BlakeInitGM.poisson_ratio BlakeInitGM.bulk_mod BlakeInitGM.long_mod
  epv_walk (
    simp only [epv_tree, epv_cond, DocumentedProblem] at *
    simp only [*, if_true, if_false, not_true_eq_false, not_false_eq_true, and_self, true_and]
    exact ⟨rfl, rfl, rfl, rfl, rfl, rfl⟩)

/-- pair (G, M), constructor: on acceptance the six attributes are one positive-definite isotropic material that
reproduces the two supplied values (the hypotheses of the C15 field theorems hold for the constructed solver) -/
theorem initGM_ok (p : BlakeInitGM.P) (h : BlakeInitGM.outcome p = .ok) :
    IsoMaterial (BlakeInitGM.lame_mod p) (BlakeInitGM.shear_mod p) (BlakeInitGM.youngs_mod p) (BlakeInitGM.poisson_ratio p) (BlakeInitGM.bulk_mod p) (BlakeInitGM.long_mod p)
      ∧ BlakeInitGM.shear_mod p = p.shear_mod ∧ BlakeInitGM.long_mod p = p.long_mod := by
  obtain ⟨hm, -, e1, e2, e3, e4, e5, e6⟩ := initGM_bridge p h
  rw [e1, e2, e3, e4, e5, e6]
  exact EPV.Blake.modGM_ok _ hm

/-- pair (G, M): the constructor **accepts ⇔ the input is documented-valid** -/
theorem initGM_accepts_iff (p : BlakeInitGM.P) :
    BlakeInitGM.outcome p = .ok ↔ (DocumentedPair .shear .long p.shear_mod p.long_mod) ∧ DocumentedProblem p.geometry p.ref_density p.cavity_radius p.pressure_scale := by
  constructor
  · intro h
    obtain ⟨hm, d, -⟩ := initGM_bridge p h
    exact ⟨(EPV.Blake.modGM_accepts_iff _).mp hm, d⟩
  · rintro ⟨⟨hx, hy, L, G, hG, hB, h1, h2⟩, hgeo, hrho, hrad, hprs⟩
    simp only [Kind.of, Kind.GivenOk] at hx hy h1 h2
    have hLG : 0 < L + G := by linarith
    have hc0 : ¬ BlakeInitGM.c0 p := by
      simp only [epv_cond]
      linarith
    have hc1 : ¬ BlakeInitGM.c1 p := by
      simp only [epv_cond]
      linarith
    have hc2 : ¬ BlakeInitGM.c2 p := by
      simp only [epv_cond]
      rw [← h1, ← h2, abs_of_pos (by linarith), abs_of_pos hG]
      linarith
    have hc4 : BlakeInitGM.c4 p := by
      simp only [epv_cond]
      linarith
    have hc5 : BlakeInitGM.c5 p := by
      simp only [epv_cond]
      rw [lt_div_iff₀ (by linarith)]
      linarith
    have hc6 : BlakeInitGM.c6 p := by
      simp only [epv_cond]
      rw [div_lt_iff₀ (by linarith)]
      linarith
    have hc7 : BlakeInitGM.c7 p := by simp only [epv_cond]; first | exact hgeo | exact hrho | exact hrad | exact hprs
    have hc8 : BlakeInitGM.c8 p := by simp only [epv_cond]; first | exact hgeo | exact hrho | exact hrad | exact hprs
    have hc9 : BlakeInitGM.c9 p := by simp only [epv_cond]; first | exact hgeo | exact hrho | exact hrad | exact hprs
    have hc10 : BlakeInitGM.c10 p := by simp only [epv_cond]; first | exact hgeo | exact hrho | exact hrad | exact hprs
    simp only [epv_tree, hc0, hc1, hc2, hc4, hc5, hc6, hc7, hc8, hc9, hc10, if_true, if_false, ite_self]

/-- pair (G, M): **the constructed solver is in the domain of the C15 field theorems** — the attributes `_run` reads
(a, ρ₀, P₀ as supplied, λ, G, ν, M as the constructor computed them) form an admissible problem
(`EPV.Blake.Admissible`: one positive-definite isotropic material, ρ₀, a, P₀ > 0) -/
theorem initGM_admissible (p : BlakeInitGM.P) (h : BlakeInitGM.outcome p = .ok) :
    EPV.Blake.Admissible
      { cavity_radius := p.cavity_radius, lame_mod := BlakeInitGM.lame_mod p, long_mod := BlakeInitGM.long_mod p,
        poisson_ratio := BlakeInitGM.poisson_ratio p, pressure_scale := p.pressure_scale, ref_density := p.ref_density,
        shear_mod := BlakeInitGM.shear_mod p } := by
  obtain ⟨m, -, -⟩ := initGM_ok p h
  obtain ⟨-, hρ, ha, hP⟩ := (initGM_bridge p h).2.1
  exact ⟨⟨_, _, m⟩, hρ, ha, hP⟩

/-- pair (G, M): the constructor returns or raises `ValueError`, nothing else -/
theorem initGM_total (p : BlakeInitGM.P) : BlakeInitGM.outcome p = .ok ∨ BlakeInitGM.outcome p = .raise "ValueError" := by
  unfold BlakeInitGM.outcome
  epv_ok_or_valueError

theorem initGM_raise (p : BlakeInitGM.P) (h : BlakeInitGM.outcome p ≠ .ok) : BlakeInitGM.outcome p = .raise "ValueError" :=
  (initGM_total p).resolve_left h

/-- pair (E, ν): an accepting path of the constructor is an accepting path of `set_elastic_params` on the two
supplied values, followed by the four problem-parameter checks; the six attributes are what it returned -/
theorem initENu_bridge (p : BlakeInitENu.P) (h : BlakeInitENu.outcome p = .ok) :
    BlakeModENu.outcome { youngs_mod := p.youngs_mod, poisson_ratio := p.poisson_ratio } = .ok ∧ DocumentedProblem p.geometry p.ref_density p.cavity_radius p.pressure_scale
    ∧ BlakeInitENu.lame_mod p = BlakeModENu.lame_mod { youngs_mod := p.youngs_mod, poisson_ratio := p.poisson_ratio }
    ∧ BlakeInitENu.shear_mod p = BlakeModENu.shear_mod { youngs_mod := p.youngs_mod, poisson_ratio := p.poisson_ratio }
    ∧ BlakeInitENu.youngs_mod p = BlakeModENu.youngs_mod { youngs_mod := p.youngs_mod, poisson_ratio := p.poisson_ratio }
    ∧ BlakeInitENu.poisson_ratio p = BlakeModENu.poisson_ratio { youngs_mod := p.youngs_mod, poisson_ratio := p.poisson_ratio }
    ∧ BlakeInitENu.bulk_mod p = BlakeModENu.bulk_mod { youngs_mod := p.youngs_mod, poisson_ratio := p.poisson_ratio }
    ∧ BlakeInitENu.long_mod p = BlakeModENu.long_mod { youngs_mod := p.youngs_mod, poisson_ratio := p.poisson_ratio } := by
  unfold BlakeInitENu.outcome at h
  unfold BlakeInitENu.lame_mod BlakeInitENu.shear_mod BlakeInitENu.youngs_mod BlakeInitENu.poisson_ratio BlakeInitENu.bulk_mod BlakeInitENu.long_mod
  epv_walk (
    simp only [epv_tree, epv_cond, DocumentedProblem] at *
    simp only [*, if_true, if_false, not_true_eq_false, not_false_eq_true, and_self, true_and]
    exact ⟨rfl, rfl, rfl, rfl, rfl, rfl⟩)

/-- pair (E, ν), constructor: on acceptance the six attributes are one positive-definite isotropic material that
reproduces the two supplied values (the hypotheses of the C15 field theorems hold for the constructed solver) -/
theorem initENu_ok (p : BlakeInitENu.P) (h : BlakeInitENu.outcome p = .ok) :
    IsoMaterial (BlakeInitENu.lame_mod p) (BlakeInitENu.shear_mod p) (BlakeInitENu.youngs_mod p) (BlakeInitENu.poisson_ratio p) (BlakeInitENu.bulk_mod p) (BlakeInitENu.long_mod p)
      ∧ BlakeInitENu.youngs_mod p = p.youngs_mod ∧ BlakeInitENu.poisson_ratio p = p.poisson_ratio := by
  obtain ⟨hm, -, e1, e2, e3, e4, e5, e6⟩ := initENu_bridge p h
  rw [e1, e2, e3, e4, e5, e6]
  exact EPV.Blake.modENu_ok _ hm

/-- pair (E, ν): the constructor **accepts ⇔ the input is documented-valid** -/
theorem initENu_accepts_iff (p : BlakeInitENu.P) :
    BlakeInitENu.outcome p = .ok ↔ (DocumentedPair .youngs .poisson p.youngs_mod p.poisson_ratio) ∧ DocumentedProblem p.geometry p.ref_density p.cavity_radius p.pressure_scale := by
  constructor
  · intro h
    obtain ⟨hm, d, -⟩ := initENu_bridge p h
    exact ⟨(EPV.Blake.modENu_accepts_iff _).mp hm, d⟩
  · rintro ⟨⟨hx, hy, L, G, hG, hB, h1, h2⟩, hgeo, hrho, hrad, hprs⟩
    simp only [Kind.of, Kind.GivenOk] at hx hy h1 h2
    have hLG : 0 < L + G := by linarith
    have hc0 : ¬ BlakeInitENu.c0 p := by
      simp only [epv_cond]
      linarith
    have hc1 : BlakeInitENu.c1 p := by
      simp only [epv_cond]
      exact hy.1
    have hc2 : BlakeInitENu.c2 p := by
      simp only [epv_cond]
      exact hy.2
    have hc3 : BlakeInitENu.c3 p := by
      simp only [epv_cond]
      linarith
    have hc4 : BlakeInitENu.c4 p := by simp only [epv_cond]; first | exact hgeo | exact hrho | exact hrad | exact hprs
    have hc5 : BlakeInitENu.c5 p := by simp only [epv_cond]; first | exact hgeo | exact hrho | exact hrad | exact hprs
    have hc6 : BlakeInitENu.c6 p := by simp only [epv_cond]; first | exact hgeo | exact hrho | exact hrad | exact hprs
    have hc7 : BlakeInitENu.c7 p := by simp only [epv_cond]; first | exact hgeo | exact hrho | exact hrad | exact hprs
    simp only [epv_tree, hc0, hc1, hc2, hc3, hc4, hc5, hc6, hc7, if_true, if_false, ite_self]

/-- pair (E, ν): **the constructed solver is in the domain of the C15 field theorems** — the attributes `_run` reads
(a, ρ₀, P₀ as supplied, λ, G, ν, M as the constructor computed them) form an admissible problem
(`EPV.Blake.Admissible`: one positive-definite isotropic material, ρ₀, a, P₀ > 0) -/
theorem initENu_admissible (p : BlakeInitENu.P) (h : BlakeInitENu.outcome p = .ok) :
    EPV.Blake.Admissible
      { cavity_radius := p.cavity_radius, lame_mod := BlakeInitENu.lame_mod p, long_mod := BlakeInitENu.long_mod p,
        poisson_ratio := BlakeInitENu.poisson_ratio p, pressure_scale := p.pressure_scale, ref_density := p.ref_density,
        shear_mod := BlakeInitENu.shear_mod p } := by
  obtain ⟨m, -, -⟩ := initENu_ok p h
  obtain ⟨-, hρ, ha, hP⟩ := (initENu_bridge p h).2.1
  exact ⟨⟨_, _, m⟩, hρ, ha, hP⟩

/-- pair (E, ν): the constructor returns or raises `ValueError`, nothing else -/
theorem initENu_total (p : BlakeInitENu.P) : BlakeInitENu.outcome p = .ok ∨ BlakeInitENu.outcome p = .raise "ValueError" := by
  unfold BlakeInitENu.outcome
  epv_ok_or_valueError

theorem initENu_raise (p : BlakeInitENu.P) (h : BlakeInitENu.outcome p ≠ .ok) : BlakeInitENu.outcome p = .raise "ValueError" :=
  (initENu_total p).resolve_left h

/-- non-vacuity: the default problem, specified through the pair (G, K), is accepted -/
example : BlakeInitGK.outcome { shear_mod := 25000000000, bulk_mod := 125000000000 / 3, geometry := 3, ref_density := 3000, cavity_radius := 1 / 10, pressure_scale := 1000000 } = .ok := by
  simp only [epv_tree, epv_cond]; norm_num

end EPV.C20
