/-
C20 — Cog17 returns a complex density inside the parameter range its own warnings call valid (finding).
-/
import EPV.Gen.Cog17
import EPV.Lemmas.HydroTactics

set_option linter.all false

open EPV EPV.Gen EPV.Spec.AdmissibleHydro

namespace EPV.C20

/-- the leaf named below is the only `ok` leaf of the traced tree -/
theorem cog17_ok_leaves : Cog17.okLeaves = [1] := rfl

/-- **Finding** (Cog17): at α = -3/2, β = 2 (inside the advised range) the temperature amplitude is negative
and is raised to the power -β-3, and the resulting ρ₀ base is raised to 1/(1-α): complex density -/
theorem finding_cog17_not_well_defined :
    Advised (-3 / 2) 2 ∧ ¬ Cog17.L1.WellDefined ⟨40, 0, -3 / 2, 0, 2, 0, 0, 7 / 5, 3, 0, 1 / 10⟩ 1 1 := by
  refine ⟨by norm_num [Advised], ?_⟩
  unfold Cog17.L1.WellDefined
  norm_num

end EPV.C20
