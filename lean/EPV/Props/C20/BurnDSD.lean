/-
C20 (burn-time share, DSD cylindrical expansion; the summary for all four solvers is repeated in each file) — "documented parameter restrictions of Kenamond 1-3 and the DSD
cylindrical expansion are enforced by ValueError at construction; valid in-domain requests
never give NaN/inf".

Constructor trees (`K1Init2/3`, `K2Init`, `K3Init2/3`, `DSDCylInit`: `__init__` alone, with
`geometry` symbolic) against the documented catalogue of `EPV.Spec.Burn`:

* Kenamond 1, Kenamond 3:  accepts ↔ Documented, both directions     (`k1initN_accepts_iff`, `k3initN_accepts_iff`)
* Kenamond 2:  accepts ↔ `K2Coded` (D₁ ≥ D₂), and Documented → accepts  (`k2init_accepts_iff_coded`,
  `k2init_accepts_of_documented`).  `accepts → Documented` is FALSE at the boundary D₁ = D₂:
  see `FindingBurn.lean` (documented "D1 > D2", coded `D1 < D2 → raise`).
* DSD cylinder: accepts ↔ `DsdCoded`, Documented → accepts           (`dsdcylinit_accepts_iff_coded`,
  `dsdcylinit_accepts_of_documented`).  `accepts → Documented` is FALSE: the documented
  r₁ > α₁/D_CJ₁ and r₂ > α₂/D_CJ₂ are not checked — see `FindingBurn.lean`.
* every rejecting leaf of every constructor and of every `_run` raises ValueError  (`…_rejects_valueerror`).

No NaN/inf inside the domain (exact arithmetic): on the documented domain, and for Kenamond 3
for points of the explosive, every `ok` leaf of the traced `_run` is `WellDefined`: no zero
denominator, no negative square root, no `arccos` argument outside [-1, 1], no logarithm of a
non-positive number                                               (`…_welldefined`).
(P) floating-point overflow/rounding is outside the theorems (trusted base).
-/
import EPV.Gen.DSDCylInit
import EPV.Lemmas.BurnDSD

set_option linter.all false

open EPV EPV.Gen EPV.Spec.Burn EPV.Burn

namespace EPV.C20

theorem dsdcylinit_accepts_iff_coded (p : DSDCylInit.P) :
    DSDCylInit.outcome p = .ok ↔ DsdCoded p.geometry p.r_1 p.r_2 p.D_CJ_1 p.D_CJ_2 p.alpha_1 p.alpha_2 := by
  unfold DsdCoded
  simp only [epv_tree]
  split_ifs <;> simp_all [epv_cond] <;> norm_num at * <;> linarith

theorem dsdcylinit_accepts_of_documented (p : DSDCylInit.P)
    (h : DsdDocumented p.geometry p.r_1 p.r_2 p.D_CJ_1 p.D_CJ_2 p.alpha_1 p.alpha_2) :
    DSDCylInit.outcome p = .ok := by
  rw [dsdcylinit_accepts_iff_coded]
  obtain ⟨g, a, b, c, d, e, f, g', -, -⟩ := h
  exact ⟨g, a, b, c, d, e, f, g'⟩

theorem dsdcylinit_rejects_valueerror (p : DSDCylInit.P) :
    DSDCylInit.outcome p = .ok ∨ DSDCylInit.outcome p = .raise "ValueError" := by
  epv_ok_or_raise

theorem dsdcyl_run_outcomes (p : DSDCyl.P) (x y : ℝ) :
    DSDCyl.outcome p x y = .ok ∨ DSDCyl.outcome p x y = .raise "ValueError" := by
  epv_ok_or_raise

/-- DSD cylinder on the documented domain: the logarithms' arguments are positive in the leaf the
point selects (inner material r₁ ≤ r < r₂: leaf 8; outer material r ≥ r₂: leaf 9) -/
theorem dsdcyl_welldefined (p : DSDCyl.P) (h : DSDCyl.Adm p) (x y : ℝ) :
    (p.r_1 ≤ Real.sqrt (x * x + y * y) → DSDCyl.L8.WellDefined p x y) ∧
    (p.r_2 ≤ Real.sqrt (x * x + y * y) → DSDCyl.L9.WellDefined p x y) := by
  have hs : 0 ≤ x * x + y * y := add_nonneg (mul_self_nonneg _) (mul_self_nonneg _)
  have g1 : 0 < p.r_1 - p.alpha_1 / p.D_CJ_1 := sub_pos.mpr h.h1
  have g2 : 0 < p.r_2 - p.alpha_2 / p.D_CJ_2 := sub_pos.mpr h.h2
  constructor
  · intro hr
    exact ⟨hs, h.hD1.ne', g1.ne', div_pos (sub_pos.mpr (h.h1.trans_le hr)) g1⟩
  · intro hr
    exact ⟨h.hD1.ne', g1.ne', div_pos (sub_pos.mpr (h.h1.trans h.hr)) g1, hs, h.hD2.ne', g2.ne',
      div_pos (sub_pos.mpr (h.h2.trans_le hr)) g2⟩

example : DsdDocumented 2 1 2 (1/2) 1 (1/10) (1/10) := by unfold DsdDocumented; norm_num

end EPV.C20
