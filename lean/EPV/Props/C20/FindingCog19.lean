/-
C20 — Cog19: the constructor rejects u0 > 0 with ValueError (partial) but accepts u0 = 0 against the documented
"u0 must be strictly negative" (finding).
-/
import EPV.Gen.InitCog19
import EPV.Lemmas.HydroTactics

set_option linter.all false

open EPV EPV.Gen EPV.Spec.AdmissibleHydro

namespace EPV.C20

/-- what `Cog19.__init__` enforces: u₀ ≤ 0 -/
theorem init_cog19_accepts_iff_partial (p : InitCog19.P) :
    InitCog19.outcome p = .ok ↔ (Geom123 p.geometry ∧ p.u0 ≤ 0) := by
  init_iff

/-- no documented-valid problem is rejected -/
theorem init_cog19_accepts_documented (p : InitCog19.P) (h : Cog19.Documented p) : InitCog19.outcome p = .ok :=
  (init_cog19_accepts_iff_partial p).mpr ⟨h.1, h.2.le⟩

theorem init_cog19_rejects_with_ValueError (p : InitCog19.P) :
    InitCog19.outcome p = .ok ∨ InitCog19.outcome p = .raise "ValueError" := by
  init_loud

/-- **Finding**: `Cog19(u0=0)` is accepted although "u0 must be strictly negative" (the test is `self.u0 > 0`) -/
theorem finding_cog19_accepts_u0_zero :
    InitCog19.outcome ⟨3, 0⟩ = .ok ∧ ¬ Cog19.Documented ⟨3, 0⟩ := by
  constructor
  · exact (init_cog19_accepts_iff_partial _).mpr ⟨Or.inr (Or.inr rfl), le_refl _⟩
  · simp [Cog19.Documented]

end EPV.C20
