/-
C20 (burn-time share, Kenamond 2; the summary for all four solvers is repeated in each file) — "documented parameter restrictions of Kenamond 1-3 and the DSD
cylindrical expansion are enforced by ValueError at construction; valid in-domain requests
never give NaN/inf".

Constructor trees (`K1Init2/3`, `K2Init`, `K3Init2/3`, `DSDCylInit`: `__init__` alone, with
`geometry` symbolic) against the documented catalogue of `EPV.Spec.Burn`:

* Kenamond 1, Kenamond 3:  accepts ↔ Documented, both directions     (`k1initN_accepts_iff`, `k3initN_accepts_iff`)
* Kenamond 2:  accepts ↔ `K2Coded` (D₁ ≥ D₂), and Documented → accepts  (`k2init_accepts_iff_coded`,
  `k2init_accepts_of_documented`).  `accepts → Documented` is FALSE at the boundary D₁ = D₂:
  see `FindingBurn.lean` (documented "D1 > D2", coded `D1 < D2 → raise`).
* DSD cylinder: accepts ↔ `DsdCoded`, Documented → accepts           (`dsdcylinit_accepts_iff_coded`,
  `dsdcylinit_accepts_of_documented`).  `accepts → Documented` is FALSE: the documented
  r₁ > α₁/D_CJ₁ and r₂ > α₂/D_CJ₂ are not checked — see `FindingBurn.lean`.
* every rejecting leaf of every constructor and of every `_run` raises ValueError  (`…_rejects_valueerror`).

No NaN/inf inside the domain (exact arithmetic): on the documented domain, and for Kenamond 3
for points of the explosive, every `ok` leaf of the traced `_run` is `WellDefined`: no zero
denominator, no negative square root, no `arccos` argument outside [-1, 1], no logarithm of a
non-positive number                                               (`…_welldefined`).
(P) floating-point overflow/rounding is outside the theorems (trusted base).
-/
import EPV.Gen.K2Init
import EPV.Lemmas.BurnK2
import EPV.Lemmas.Bridge.DetonTactics

set_option linter.all false

open EPV EPV.Gen EPV.Spec.Burn EPV.Burn

namespace EPV.C20

theorem k2init_accepts_iff_coded (p : K2Init.P) :
    K2Init.outcome p = .ok ↔
      K2Coded p.geometry p.R p.D1 p.D2 p.a1 p.a2 p.a4 p.a5 p.td1 p.td2 p.td3 p.td4 p.td5 := by
  unfold K2Coded
  epv_deton_accept_iff

theorem k2init_accepts_of_documented (p : K2Init.P)
    (h : K2Documented p.geometry p.R p.D1 p.D2 p.a1 p.a2 p.a4 p.a5 p.td1 p.td2 p.td3 p.td4 p.td5) :
    K2Init.outcome p = .ok := by
  rw [k2init_accepts_iff_coded]
  obtain ⟨g, a, b, c, d, e⟩ := h
  exact ⟨g, a, b, c, d.le, e⟩

theorem k2init_rejects_valueerror (p : K2Init.P) :
    K2Init.outcome p = .ok ∨ K2Init.outcome p = .raise "ValueError" := by
  epv_ok_or_raise

theorem k2d2_run_outcomes (p : K2d2.P) (x y : ℝ) :
    K2d2.outcome p x y = .ok ∨ K2d2.outcome p x y = .raise "ValueError" := by
  epv_ok_or_raise

theorem k2d3_run_outcomes (p : K2d3.P) (x y z : ℝ) :
    K2d3.outcome p x y z = .ok ∨ K2d3.outcome p x y z = .raise "ValueError" := by
  epv_ok_or_raise

theorem k2d2_welldefined (p : K2d2.P) (h : K2d2.Adm p) (x y : ℝ) : K2d2.L12.WellDefined p x y := by
  have h1 : p.D1 ≠ 0 := (h.hD2.trans_le h.hD).ne'
  have h2 : p.D2 ≠ 0 := h.hD2.ne'
  unfold K2d2.L12.WellDefined
  (try constructorm* _ ∧ _) <;> first | exact h1 | exact h2 | positivity | nlinarith [mul_self_nonneg x, mul_self_nonneg y]

theorem k2d3_welldefined (p : K2d3.P) (h : K2d3.Adm p) (x y z : ℝ) : K2d3.L12.WellDefined p x y z := by
  have h1 : p.D1 ≠ 0 := (h.hD2.trans_le h.hD).ne'
  have h2 : p.D2 ≠ 0 := h.hD2.ne'
  unfold K2d3.L12.WellDefined
  (try constructorm* _ ∧ _) <;>
    first | exact h1 | exact h2 | positivity | nlinarith [mul_self_nonneg x, mul_self_nonneg y, mul_self_nonneg z]

example : K2Documented 2 3 2 1 10 5 (-5) (-10) 2 1 0 1 2 := by
  unfold K2Documented; norm_num [abs_of_pos, abs_of_neg]

end EPV.C20
