/-
C20 (work package `c20rest`) — solver classes whose documentation states NO restriction on any constructor parameter:
SuOlson, Hutchens1, Hutchens2, Rectangle, CylindricalSandwich, Mader (`mader/timmes.py`), the 1-D Riemann wrappers
IGEOS_Solver / GenEOS_Solver (`riemann/ep_riemann.py`) and the 2-D steady Riemann wrapper.

For each the catalogue `Spec.AdmissibleRest.<Solver>.Documented` is `True` (the help strings are quoted there) and the
traced constructor is a single accepting leaf, so `accepts ↔ Documented` holds with nothing to enforce and there is no
rejecting leaf at all.  These theorems are regenerated from the code on every run: a check added to any of these
constructors changes the traced tree and breaks the theorem of that class, so that its catalogue entry has to be
revisited.  What these constructors let through although the first call then fails with a non-ValueError exception or
returns NaN (none of it documented as a restriction, so observations, not findings) is listed in the work-package
report and exercised by the catalogue oracle (harness/o_c20rest.py, `observations`).
-/
import EPV.Spec.AdmissibleRest
import EPV.Lemmas.C20Rest

set_option linter.all false

open EPV EPV.Gen EPV.Spec.AdmissibleRest

namespace EPV.C20

theorem init_suolson_accepts_iff (p : InitSuOlson.P) : InitSuOlson.outcome p = .ok ↔ SuOlson.Documented p := by
  simp only [epv_tree, SuOlson.Documented]
theorem init_hutchens1_accepts_iff (p : InitHutchens1.P) : InitHutchens1.outcome p = .ok ↔ Hutchens1.Documented p := by
  simp only [epv_tree, Hutchens1.Documented]
theorem init_hutchens2_accepts_iff (p : InitHutchens2.P) : InitHutchens2.outcome p = .ok ↔ Hutchens2.Documented p := by
  simp only [epv_tree, Hutchens2.Documented]
theorem init_rectangle_accepts_iff (p : InitRectangle.P) : InitRectangle.outcome p = .ok ↔ Rectangle.Documented p := by
  simp only [epv_tree, Rectangle.Documented]
theorem init_cylsandwich_accepts_iff (p : InitCylSandwich.P) :
    InitCylSandwich.outcome p = .ok ↔ CylSandwich.Documented p := by
  simp only [epv_tree, CylSandwich.Documented]
theorem init_madert_accepts_iff (p : InitMaderT.P) : InitMaderT.outcome p = .ok ↔ MaderT.Documented p := by
  simp only [epv_tree, MaderT.Documented]
theorem init_riemigeos_accepts_iff (p : InitRiemIGEOS.P) : InitRiemIGEOS.outcome p = .ok ↔ RiemIGEOS.Documented p := by
  simp only [epv_tree, RiemIGEOS.Documented]
theorem init_riemgeneos_accepts_iff (p : InitRiemGenEOS.P) :
    InitRiemGenEOS.outcome p = .ok ↔ RiemGenEOS.Documented p := by
  simp only [epv_tree, RiemGenEOS.Documented]
theorem init_riem2d_accepts_iff (p : InitRiem2D.P) : InitRiem2D.outcome p = .ok ↔ Riem2D.Documented p := by
  simp only [epv_tree, Riem2D.Documented]

/-- none of these constructors has a rejecting leaf (so none raises anything but ValueError, vacuously) -/
theorem rest_plain_no_rejecting_leaf :
    InitSuOlson.nLeaves = 1 ∧ InitHutchens1.nLeaves = 1 ∧ InitHutchens2.nLeaves = 1 ∧ InitRectangle.nLeaves = 1 ∧
    InitCylSandwich.nLeaves = 1 ∧ InitMaderT.nLeaves = 1 ∧ InitRiemIGEOS.nLeaves = 1 ∧ InitRiemGenEOS.nLeaves = 1 ∧
    InitRiem2D.nLeaves = 1 := ⟨rfl, rfl, rfl, rfl, rfl, rfl, rfl, rfl, rfl⟩

end EPV.C20
