/-
C20 (Blake share) — the constructor `Blake(**kwargs)` with exactly two elastic parameters (pairs (E, K), (E, M), (ν, K), (ν, M), (K, M)), every
parameter symbolic (models `BlakeInit<XY>`): the traced constructor **accepts ⇔ the input is documented-valid**

    BlakeInit<XY>.outcome p = .ok  ↔  DocumentedPair k₁ k₂ x y  ∧  DocumentedProblem geometry ρ₀ a P₀

(`DocumentedProblem`: geometry = 3, ref_density > 0, cavity_radius > 0, pressure_scale > 0 — the parameter help
strings and the four error messages), every rejection is a `ValueError`, and on acceptance the six attributes
are one positive-definite isotropic material reproducing the two supplied values (so the hypotheses of the
C15 field theorems hold for every constructed solver).  `blake_debug` is not a number and is left at its
default; the pressure_scale ≥ 0.1·bulk_mod branch only warns (both branches accept).
-/
import EPV.Gen.BlakeInitEK
import EPV.Gen.BlakeInitEM
import EPV.Gen.BlakeInitNuK
import EPV.Gen.BlakeInitNuM
import EPV.Gen.BlakeInitKM
import EPV.Spec.Blake
import EPV.Lemmas.Blake
import EPV.Lemmas.BlakeModuli
import EPV.Lemmas.BlakeFields
import EPV.Lemmas.BlakeAccept
import EPV.Tactics

set_option linter.all false

open EPV EPV.Gen EPV.Spec.Blake EPV.Blake

namespace EPV.C20

/-- pair (E, K): an accepting path of the constructor is an accepting path of `set_elastic_params` on the two
supplied values, followed by the four problem-parameter checks; the six attributes are what it returned -/
theorem initEK_bridge (p : BlakeInitEK.P) (h : BlakeInitEK.outcome p = .ok) :
    BlakeModEK.outcome { youngs_mod := p.youngs_mod, bulk_mod := p.bulk_mod } = .ok ∧ DocumentedProblem p.geometry p.ref_density p.cavity_radius p.pressure_scale
    ∧ BlakeInitEK.lame_mod p = BlakeModEK.lame_mod { youngs_mod := p.youngs_mod, bulk_mod := p.bulk_mod }
    ∧ BlakeInitEK.shear_mod p = BlakeModEK.shear_mod { youngs_mod := p.youngs_mod, bulk_mod := p.bulk_mod }
    ∧ BlakeInitEK.youngs_mod p = BlakeModEK.youngs_mod { youngs_mod := p.youngs_mod, bulk_mod := p.bulk_mod }
    ∧ BlakeInitEK.poisson_ratio p = BlakeModEK.poisson_ratio { youngs_mod := p.youngs_mod, bulk_mod := p.bulk_mod }
    ∧ BlakeInitEK.bulk_mod p = BlakeModEK.bulk_mod { youngs_mod := p.youngs_mod, bulk_mod := p.bulk_mod }
    ∧ BlakeInitEK.long_mod p = BlakeModEK.long_mod { youngs_mod := p.youngs_mod, bulk_mod := p.bulk_mod } := by
  unfold BlakeInitEK.outcome at h
  unfold BlakeInitEK.lame_mod BlakeInitEK.shear_mod BlakeInitEK.youngs_mod BlakeInitEK.poisson_ratio BlakeInitEK.bulk_mod BlakeInitEK.long_mod
  epv_walk (
    simp only [epv_tree, epv_cond, DocumentedProblem] at *
    simp only [*, if_true, if_false, not_true_eq_false, not_false_eq_true, and_self, true_and]
    exact ⟨rfl, rfl, rfl, rfl, rfl, rfl⟩)

/-- pair (E, K), constructor: on acceptance the six attributes are one positive-definite isotropic material that
reproduces the two supplied values (the hypotheses of the C15 field theorems hold for the constructed solver) -/
theorem initEK_ok (p : BlakeInitEK.P) (h : BlakeInitEK.outcome p = .ok) :
    IsoMaterial (BlakeInitEK.lame_mod p) (BlakeInitEK.shear_mod p) (BlakeInitEK.youngs_mod p) (BlakeInitEK.poisson_ratio p) (BlakeInitEK.bulk_mod p) (BlakeInitEK.long_mod p)
      ∧ BlakeInitEK.youngs_mod p = p.youngs_mod ∧ BlakeInitEK.bulk_mod p = p.bulk_mod := by
  obtain ⟨hm, -, e1, e2, e3, e4, e5, e6⟩ := initEK_bridge p h
  rw [e1, e2, e3, e4, e5, e6]
  exact EPV.Blake.modEK_ok _ hm

/-- pair (E, K): the constructor **accepts ⇔ the input is documented-valid** -/
theorem initEK_accepts_iff (p : BlakeInitEK.P) :
    BlakeInitEK.outcome p = .ok ↔ (DocumentedPair .youngs .bulk p.youngs_mod p.bulk_mod ∧ ¬ NearSingular p.youngs_mod (9 * p.bulk_mod)) ∧ DocumentedProblem p.geometry p.ref_density p.cavity_radius p.pressure_scale := by
  constructor
  · intro h
    obtain ⟨hm, d, -⟩ := initEK_bridge p h
    exact ⟨(EPV.Blake.modEK_accepts_iff _).mp hm, d⟩
  · rintro ⟨⟨⟨hx, hy, L, G, hG, hB, h1, h2⟩, hband⟩, hgeo, hrho, hrad, hprs⟩
    simp only [Kind.of, Kind.GivenOk] at hx hy h1 h2
    have hLG : 0 < L + G := by linarith
    have hE : p.youngs_mod * (L + G) = G * (3 * L + 2 * G) := by rw [← h1]; field_simp
    have e : (9 * p.bulk_mod - p.youngs_mod) * (L + G) = (3 * L + 2 * G) ^ 2 := by
      rw [← h2]; linear_combination (-1 : ℝ) * hE
    have hlt : 0 < 9 * p.bulk_mod - p.youngs_mod := (mul_pos_iff_of_pos_right hLG).mp (e ▸ by positivity)
    have hc0 : ¬ BlakeInitEK.c0 p := by
      simp only [epv_cond]
      linarith
    have hc1 : ¬ BlakeInitEK.c1 p := by
      simp only [epv_cond]
      linarith
    have hc2 : ¬ BlakeInitEK.c2 p := by
      simp only [epv_cond]
      simpa only [NearSingular, reltol] using hband
    have hc4 : BlakeInitEK.c4 p := by
      simp only [epv_cond]
      linarith
    have hc5 : BlakeInitEK.c5 p := by
      simp only [epv_cond]
      rw [lt_div_iff₀ (by linarith)]
      linarith
    have hc6 : BlakeInitEK.c6 p := by
      simp only [epv_cond]
      rw [div_lt_iff₀ (by linarith)]
      linarith
    have hc7 : BlakeInitEK.c7 p := by simp only [epv_cond]; first | exact hgeo | exact hrho | exact hrad | exact hprs
    have hc8 : BlakeInitEK.c8 p := by simp only [epv_cond]; first | exact hgeo | exact hrho | exact hrad | exact hprs
    have hc9 : BlakeInitEK.c9 p := by simp only [epv_cond]; first | exact hgeo | exact hrho | exact hrad | exact hprs
    have hc10 : BlakeInitEK.c10 p := by simp only [epv_cond]; first | exact hgeo | exact hrho | exact hrad | exact hprs
    simp only [epv_tree, hc0, hc1, hc2, hc4, hc5, hc6, hc7, hc8, hc9, hc10, if_true, if_false, ite_self]

/-- pair (E, K): **the constructed solver is in the domain of the C15 field theorems** — the attributes `_run` reads
(a, ρ₀, P₀ as supplied, λ, G, ν, M as the constructor computed them) form an admissible problem
(`EPV.Blake.Admissible`: one positive-definite isotropic material, ρ₀, a, P₀ > 0) -/
theorem initEK_admissible (p : BlakeInitEK.P) (h : BlakeInitEK.outcome p = .ok) :
    EPV.Blake.Admissible
      { cavity_radius := p.cavity_radius, lame_mod := BlakeInitEK.lame_mod p, long_mod := BlakeInitEK.long_mod p,
        poisson_ratio := BlakeInitEK.poisson_ratio p, pressure_scale := p.pressure_scale, ref_density := p.ref_density,
        shear_mod := BlakeInitEK.shear_mod p } := by
  obtain ⟨m, -, -⟩ := initEK_ok p h
  obtain ⟨-, hρ, ha, hP⟩ := (initEK_bridge p h).2.1
  exact ⟨⟨_, _, m⟩, hρ, ha, hP⟩

/-- pair (E, K): the constructor returns or raises `ValueError`, nothing else -/
theorem initEK_total (p : BlakeInitEK.P) : BlakeInitEK.outcome p = .ok ∨ BlakeInitEK.outcome p = .raise "ValueError" := by
  unfold BlakeInitEK.outcome
  epv_ok_or_valueError

theorem initEK_raise (p : BlakeInitEK.P) (h : BlakeInitEK.outcome p ≠ .ok) : BlakeInitEK.outcome p = .raise "ValueError" :=
  (initEK_total p).resolve_left h

/-- pair (E, M): an accepting path of the constructor is an accepting path of `set_elastic_params` on the two
supplied values, followed by the four problem-parameter checks; the six attributes are what it returned -/
theorem initEM_bridge (p : BlakeInitEM.P) (h : BlakeInitEM.outcome p = .ok) :
    BlakeModEM.outcome { youngs_mod := p.youngs_mod, long_mod := p.long_mod } = .ok ∧ DocumentedProblem p.geometry p.ref_density p.cavity_radius p.pressure_scale
    ∧ BlakeInitEM.lame_mod p = BlakeModEM.lame_mod { youngs_mod := p.youngs_mod, long_mod := p.long_mod }
    ∧ BlakeInitEM.shear_mod p = BlakeModEM.shear_mod { youngs_mod := p.youngs_mod, long_mod := p.long_mod }
    ∧ BlakeInitEM.youngs_mod p = BlakeModEM.youngs_mod { youngs_mod := p.youngs_mod, long_mod := p.long_mod }
    ∧ BlakeInitEM.poisson_ratio p = BlakeModEM.poisson_ratio { youngs_mod := p.youngs_mod, long_mod := p.long_mod }
    ∧ BlakeInitEM.bulk_mod p = BlakeModEM.bulk_mod { youngs_mod := p.youngs_mod, long_mod := p.long_mod }
    ∧ BlakeInitEM.long_mod p = BlakeModEM.long_mod { youngs_mod := p.youngs_mod, long_mod := p.long_mod } := by
  unfold BlakeInitEM.outcome at h
  unfold BlakeInitEM.lame_mod BlakeInitEM.shear_mod BlakeInitEM.youngs_mod BlakeInitEM.poisson_ratio BlakeInitEM.bulk_mod BlakeInitEM.long_mod
  epv_walk (
    simp only [epv_tree, epv_cond, DocumentedProblem] at *
    simp only [*, if_true, if_false, not_true_eq_false, not_false_eq_true, and_self, true_and]
    exact ⟨rfl, rfl, rfl, rfl, rfl, rfl⟩)

/-- pair (E, M), constructor: on acceptance the six attributes are one positive-definite isotropic material that
reproduces the two supplied values (the hypotheses of the C15 field theorems hold for the constructed solver) -/
theorem initEM_ok (p : BlakeInitEM.P) (h : BlakeInitEM.outcome p = .ok) :
    IsoMaterial (BlakeInitEM.lame_mod p) (BlakeInitEM.shear_mod p) (BlakeInitEM.youngs_mod p) (BlakeInitEM.poisson_ratio p) (BlakeInitEM.bulk_mod p) (BlakeInitEM.long_mod p)
      ∧ BlakeInitEM.youngs_mod p = p.youngs_mod ∧ BlakeInitEM.long_mod p = p.long_mod := by
  obtain ⟨hm, -, e1, e2, e3, e4, e5, e6⟩ := initEM_bridge p h
  rw [e1, e2, e3, e4, e5, e6]
  exact EPV.Blake.modEM_ok _ hm

/-- pair (E, M): the constructor **accepts ⇔ the input is documented-valid** -/
theorem initEM_accepts_iff (p : BlakeInitEM.P) :
    BlakeInitEM.outcome p = .ok ↔ (DocumentedPair .youngs .long p.youngs_mod p.long_mod) ∧ DocumentedProblem p.geometry p.ref_density p.cavity_radius p.pressure_scale := by
  constructor
  · intro h
    obtain ⟨hm, d, -⟩ := initEM_bridge p h
    exact ⟨(EPV.Blake.modEM_accepts_iff _).mp hm, d⟩
  · rintro ⟨⟨hx, hy, L, G, hG, hB, h1, h2⟩, hgeo, hrho, hrad, hprs⟩
    simp only [Kind.of, Kind.GivenOk] at hx hy h1 h2
    have hLG : 0 < L + G := by linarith
    have hE : p.youngs_mod * (L + G) = G * (3 * L + 2 * G) := by rw [← h1]; field_simp
    have e : (p.long_mod - p.youngs_mod) * (L + G) = L ^ 2 := by rw [← h2]; linear_combination (-1 : ℝ) * hE
    have hle : 0 ≤ p.long_mod - p.youngs_mod := by
      by_contra hc
      rw [not_le] at hc
      nlinarith [sq_nonneg L]
    have hx2 : 0 ≤ p.youngs_mod ^ (2 : ℕ) + 9 * p.long_mod ^ (2 : ℕ) - 10 * p.youngs_mod * p.long_mod := by
      nlinarith [mul_nonneg hle (by linarith : (0 : ℝ) ≤ 9 * p.long_mod - p.youngs_mod)]
    have hS0 := rpow_half_nonneg (p.youngs_mod ^ (2 : ℕ) + 9 * p.long_mod ^ (2 : ℕ) - 10 * p.youngs_mod * p.long_mod)
    have hS2 := rpow_half_mul_self hx2
    have hSlt : (p.youngs_mod ^ (2 : ℕ) + 9 * p.long_mod ^ (2 : ℕ) - 10 * p.youngs_mod * p.long_mod) ^ ((1 : ℝ) / 2)
        < 3 * p.long_mod - p.youngs_mod := by
      by_contra hc
      rw [not_lt] at hc
      nlinarith [mul_pos hx hy]
    have hc0 : ¬ BlakeInitEM.c0 p := by
      simp only [epv_cond]
      linarith
    have hc1 : ¬ BlakeInitEM.c1 p := by
      simp only [epv_cond]
      linarith
    have hc2 : ¬ BlakeInitEM.c2 p := by
      simp only [epv_cond]
      linarith
    have hc4 : BlakeInitEM.c4 p := by
      simp only [epv_cond]
      linarith
    have hc5 : BlakeInitEM.c5 p := by
      simp only [epv_cond]
      rw [lt_div_iff₀ hy]
      linarith
    have hc6 : BlakeInitEM.c6 p := by
      simp only [epv_cond]
      rw [div_lt_iff₀ hy]
      linarith
    have hc7 : BlakeInitEM.c7 p := by simp only [epv_cond]; first | exact hgeo | exact hrho | exact hrad | exact hprs
    have hc8 : BlakeInitEM.c8 p := by simp only [epv_cond]; first | exact hgeo | exact hrho | exact hrad | exact hprs
    have hc9 : BlakeInitEM.c9 p := by simp only [epv_cond]; first | exact hgeo | exact hrho | exact hrad | exact hprs
    have hc10 : BlakeInitEM.c10 p := by simp only [epv_cond]; first | exact hgeo | exact hrho | exact hrad | exact hprs
    simp only [epv_tree, hc0, hc1, hc2, hc4, hc5, hc6, hc7, hc8, hc9, hc10, if_true, if_false, ite_self]

/-- pair (E, M): **the constructed solver is in the domain of the C15 field theorems** — the attributes `_run` reads
(a, ρ₀, P₀ as supplied, λ, G, ν, M as the constructor computed them) form an admissible problem
(`EPV.Blake.Admissible`: one positive-definite isotropic material, ρ₀, a, P₀ > 0) -/
theorem initEM_admissible (p : BlakeInitEM.P) (h : BlakeInitEM.outcome p = .ok) :
    EPV.Blake.Admissible
      { cavity_radius := p.cavity_radius, lame_mod := BlakeInitEM.lame_mod p, long_mod := BlakeInitEM.long_mod p,
        poisson_ratio := BlakeInitEM.poisson_ratio p, pressure_scale := p.pressure_scale, ref_density := p.ref_density,
        shear_mod := BlakeInitEM.shear_mod p } := by
  obtain ⟨m, -, -⟩ := initEM_ok p h
  obtain ⟨-, hρ, ha, hP⟩ := (initEM_bridge p h).2.1
  exact ⟨⟨_, _, m⟩, hρ, ha, hP⟩

/-- pair (E, M): the constructor returns or raises `ValueError`, nothing else -/
theorem initEM_total (p : BlakeInitEM.P) : BlakeInitEM.outcome p = .ok ∨ BlakeInitEM.outcome p = .raise "ValueError" := by
  unfold BlakeInitEM.outcome
  epv_ok_or_valueError

theorem initEM_raise (p : BlakeInitEM.P) (h : BlakeInitEM.outcome p ≠ .ok) : BlakeInitEM.outcome p = .raise "ValueError" :=
  (initEM_total p).resolve_left h

/-- pair (ν, K): an accepting path of the constructor is an accepting path of `set_elastic_params` on the two
supplied values, followed by the four problem-parameter checks; the six attributes are what it returned -/
theorem initNuK_bridge (p : BlakeInitNuK.P) (h : BlakeInitNuK.outcome p = .ok) :
    BlakeModNuK.outcome { poisson_ratio := p.poisson_ratio, bulk_mod := p.bulk_mod } = .ok ∧ DocumentedProblem p.geometry p.ref_density p.cavity_radius p.pressure_scale
    ∧ BlakeInitNuK.lame_mod p = BlakeModNuK.lame_mod { poisson_ratio := p.poisson_ratio, bulk_mod := p.bulk_mod }
    ∧ BlakeInitNuK.shear_mod p = BlakeModNuK.shear_mod { poisson_ratio := p.poisson_ratio, bulk_mod := p.bulk_mod }
    ∧ BlakeInitNuK.youngs_mod p = BlakeModNuK.youngs_mod { poisson_ratio := p.poisson_ratio, bulk_mod := p.bulk_mod }
    ∧ BlakeInitNuK.poisson_ratio p = BlakeModNuK.poisson_ratio { poisson_ratio := p.poisson_ratio, bulk_mod := p.bulk_mod }
    ∧ BlakeInitNuK.bulk_mod p = BlakeModNuK.bulk_mod { poisson_ratio := p.poisson_ratio, bulk_mod := p.bulk_mod }
    ∧ BlakeInitNuK.long_mod p = BlakeModNuK.long_mod { poisson_ratio := p.poisson_ratio, bulk_mod := p.bulk_mod } := by
  unfold BlakeInitNuK.outcome at h
  unfold BlakeInitNuK.lame_mod BlakeInitNuK.shear_mod BlakeInitNuK.youngs_mod BlakeInitNuK.poisson_ratio BlakeInitNuK.bulk_mod BlakeInitNuK.long_mod
  epv_walk (
    simp only [epv_tree, epv_cond, DocumentedProblem] at *
    simp only [*, if_true, if_false, not_true_eq_false, not_false_eq_true, and_self, true_and]
    exact ⟨rfl, rfl, rfl, rfl, rfl, rfl⟩)

/-- pair (ν, K), constructor: on acceptance the six attributes are one positive-definite isotropic material that
reproduces the two supplied values (the hypotheses of the C15 field theorems hold for the constructed solver) -/
theorem initNuK_ok (p : BlakeInitNuK.P) (h : BlakeInitNuK.outcome p = .ok) :
    IsoMaterial (BlakeInitNuK.lame_mod p) (BlakeInitNuK.shear_mod p) (BlakeInitNuK.youngs_mod p) (BlakeInitNuK.poisson_ratio p) (BlakeInitNuK.bulk_mod p) (BlakeInitNuK.long_mod p)
      ∧ BlakeInitNuK.poisson_ratio p = p.poisson_ratio ∧ BlakeInitNuK.bulk_mod p = p.bulk_mod := by
  obtain ⟨hm, -, e1, e2, e3, e4, e5, e6⟩ := initNuK_bridge p h
  rw [e1, e2, e3, e4, e5, e6]
  exact EPV.Blake.modNuK_ok _ hm

/-- pair (ν, K): the constructor **accepts ⇔ the input is documented-valid** -/
theorem initNuK_accepts_iff (p : BlakeInitNuK.P) :
    BlakeInitNuK.outcome p = .ok ↔ (DocumentedPair .poisson .bulk p.poisson_ratio p.bulk_mod) ∧ DocumentedProblem p.geometry p.ref_density p.cavity_radius p.pressure_scale := by
  constructor
  · intro h
    obtain ⟨hm, d, -⟩ := initNuK_bridge p h
    exact ⟨(EPV.Blake.modNuK_accepts_iff _).mp hm, d⟩
  · rintro ⟨⟨hx, hy, L, G, hG, hB, h1, h2⟩, hgeo, hrho, hrad, hprs⟩
    simp only [Kind.of, Kind.GivenOk] at hx hy h1 h2
    have hLG : 0 < L + G := by linarith
    have a1 : 0 < 1 - 2 * p.poisson_ratio := by linarith [hx.2]
    have a2 : 0 < 1 + p.poisson_ratio := by linarith [hx.1]
    have hc0 : BlakeInitNuK.c0 p := by
      simp only [epv_cond]
      exact hx.1
    have hc1 : BlakeInitNuK.c1 p := by
      simp only [epv_cond]
      exact hx.2
    have hc2 : ¬ BlakeInitNuK.c2 p := by
      simp only [epv_cond]
      linarith
    have hc3 : BlakeInitNuK.c3 p := by
      simp only [epv_cond]
      positivity
    have hc4 : BlakeInitNuK.c4 p := by simp only [epv_cond]; first | exact hgeo | exact hrho | exact hrad | exact hprs
    have hc5 : BlakeInitNuK.c5 p := by simp only [epv_cond]; first | exact hgeo | exact hrho | exact hrad | exact hprs
    have hc6 : BlakeInitNuK.c6 p := by simp only [epv_cond]; first | exact hgeo | exact hrho | exact hrad | exact hprs
    have hc7 : BlakeInitNuK.c7 p := by simp only [epv_cond]; first | exact hgeo | exact hrho | exact hrad | exact hprs
    simp only [epv_tree, hc0, hc1, hc2, hc3, hc4, hc5, hc6, hc7, if_true, if_false, ite_self]

/-- pair (ν, K): **the constructed solver is in the domain of the C15 field theorems** — the attributes `_run` reads
(a, ρ₀, P₀ as supplied, λ, G, ν, M as the constructor computed them) form an admissible problem
(`EPV.Blake.Admissible`: one positive-definite isotropic material, ρ₀, a, P₀ > 0) -/
theorem initNuK_admissible (p : BlakeInitNuK.P) (h : BlakeInitNuK.outcome p = .ok) :
    EPV.Blake.Admissible
      { cavity_radius := p.cavity_radius, lame_mod := BlakeInitNuK.lame_mod p, long_mod := BlakeInitNuK.long_mod p,
        poisson_ratio := BlakeInitNuK.poisson_ratio p, pressure_scale := p.pressure_scale, ref_density := p.ref_density,
        shear_mod := BlakeInitNuK.shear_mod p } := by
  obtain ⟨m, -, -⟩ := initNuK_ok p h
  obtain ⟨-, hρ, ha, hP⟩ := (initNuK_bridge p h).2.1
  exact ⟨⟨_, _, m⟩, hρ, ha, hP⟩

/-- pair (ν, K): the constructor returns or raises `ValueError`, nothing else -/
theorem initNuK_total (p : BlakeInitNuK.P) : BlakeInitNuK.outcome p = .ok ∨ BlakeInitNuK.outcome p = .raise "ValueError" := by
  unfold BlakeInitNuK.outcome
  epv_ok_or_valueError

theorem initNuK_raise (p : BlakeInitNuK.P) (h : BlakeInitNuK.outcome p ≠ .ok) : BlakeInitNuK.outcome p = .raise "ValueError" :=
  (initNuK_total p).resolve_left h

/-- pair (ν, M): an accepting path of the constructor is an accepting path of `set_elastic_params` on the two
supplied values, followed by the four problem-parameter checks; the six attributes are what it returned -/
theorem initNuM_bridge (p : BlakeInitNuM.P) (h : BlakeInitNuM.outcome p = .ok) :
    BlakeModNuM.outcome { poisson_ratio := p.poisson_ratio, long_mod := p.long_mod } = .ok ∧ DocumentedProblem p.geometry p.ref_density p.cavity_radius p.pressure_scale
    ∧ BlakeInitNuM.lame_mod p = BlakeModNuM.lame_mod { poisson_ratio := p.poisson_ratio, long_mod := p.long_mod }
    ∧ BlakeInitNuM.shear_mod p = BlakeModNuM.shear_mod { poisson_ratio := p.poisson_ratio, long_mod := p.long_mod }
    ∧ BlakeInitNuM.youngs_mod p = BlakeModNuM.youngs_mod { poisson_ratio := p.poisson_ratio, long_mod := p.long_mod }
    ∧ BlakeInitNuM.poisson_ratio p = BlakeModNuM.poisson_ratio { poisson_ratio := p.poisson_ratio, long_mod := p.long_mod }
    ∧ BlakeInitNuM.bulk_mod p = BlakeModNuM.bulk_mod { poisson_ratio := p.poisson_ratio, long_mod := p.long_mod }
    ∧ BlakeInitNuM.long_mod p = BlakeModNuM.long_mod { poisson_ratio := p.poisson_ratio, long_mod := p.long_mod } := by
  unfold BlakeInitNuM.outcome at h
  unfold BlakeInitNuM.lame_mod BlakeInitNuM.shear_mod BlakeInitNuM.youngs_mod BlakeInitNuM.poisson_ratio BlakeInitNuM.bulk_mod BlakeInitNuM.long_mod
  epv_walk (
    simp only [epv_tree, epv_cond, DocumentedProblem] at *
    simp only [*, if_true, if_false, not_true_eq_false, not_false_eq_true, and_self, true_and]
    exact ⟨rfl, rfl, rfl, rfl, rfl, rfl⟩)

/-- pair (ν, M), constructor: on acceptance the six attributes are one positive-definite isotropic material that
reproduces the two supplied values (the hypotheses of the C15 field theorems hold for the constructed solver) -/
theorem initNuM_ok (p : BlakeInitNuM.P) (h : BlakeInitNuM.outcome p = .ok) :
    IsoMaterial (BlakeInitNuM.lame_mod p) (BlakeInitNuM.shear_mod p) (BlakeInitNuM.youngs_mod p) (BlakeInitNuM.poisson_ratio p) (BlakeInitNuM.bulk_mod p) (BlakeInitNuM.long_mod p)
      ∧ BlakeInitNuM.poisson_ratio p = p.poisson_ratio ∧ BlakeInitNuM.long_mod p = p.long_mod := by
  obtain ⟨hm, -, e1, e2, e3, e4, e5, e6⟩ := initNuM_bridge p h
  rw [e1, e2, e3, e4, e5, e6]
  exact EPV.Blake.modNuM_ok _ hm

/-- pair (ν, M): the constructor **accepts ⇔ the input is documented-valid** -/
theorem initNuM_accepts_iff (p : BlakeInitNuM.P) :
    BlakeInitNuM.outcome p = .ok ↔ (DocumentedPair .poisson .long p.poisson_ratio p.long_mod) ∧ DocumentedProblem p.geometry p.ref_density p.cavity_radius p.pressure_scale := by
  constructor
  · intro h
    obtain ⟨hm, d, -⟩ := initNuM_bridge p h
    exact ⟨(EPV.Blake.modNuM_accepts_iff _).mp hm, d⟩
  · rintro ⟨⟨hx, hy, L, G, hG, hB, h1, h2⟩, hgeo, hrho, hrad, hprs⟩
    simp only [Kind.of, Kind.GivenOk] at hx hy h1 h2
    have hLG : 0 < L + G := by linarith
    have a1 : 0 < 1 - 2 * p.poisson_ratio := by linarith [hx.2]
    have a2 : 0 < 1 - p.poisson_ratio := by linarith [hx.2]
    have hc0 : BlakeInitNuM.c0 p := by
      simp only [epv_cond]
      exact hx.1
    have hc1 : BlakeInitNuM.c1 p := by
      simp only [epv_cond]
      exact hx.2
    have hc2 : ¬ BlakeInitNuM.c2 p := by
      simp only [epv_cond]
      linarith
    have hc3 : BlakeInitNuM.c3 p := by
      simp only [epv_cond]
      positivity
    have hc4 : BlakeInitNuM.c4 p := by simp only [epv_cond]; first | exact hgeo | exact hrho | exact hrad | exact hprs
    have hc5 : BlakeInitNuM.c5 p := by simp only [epv_cond]; first | exact hgeo | exact hrho | exact hrad | exact hprs
    have hc6 : BlakeInitNuM.c6 p := by simp only [epv_cond]; first | exact hgeo | exact hrho | exact hrad | exact hprs
    have hc7 : BlakeInitNuM.c7 p := by simp only [epv_cond]; first | exact hgeo | exact hrho | exact hrad | exact hprs
    simp only [epv_tree, hc0, hc1, hc2, hc3, hc4, hc5, hc6, hc7, if_true, if_false, ite_self]

/-- pair (ν, M): **the constructed solver is in the domain of the C15 field theorems** — the attributes `_run` reads
(a, ρ₀, P₀ as supplied, λ, G, ν, M as the constructor computed them) form an admissible problem
(`EPV.Blake.Admissible`: one positive-definite isotropic material, ρ₀, a, P₀ > 0) -/
theorem initNuM_admissible (p : BlakeInitNuM.P) (h : BlakeInitNuM.outcome p = .ok) :
    EPV.Blake.Admissible
      { cavity_radius := p.cavity_radius, lame_mod := BlakeInitNuM.lame_mod p, long_mod := BlakeInitNuM.long_mod p,
        poisson_ratio := BlakeInitNuM.poisson_ratio p, pressure_scale := p.pressure_scale, ref_density := p.ref_density,
        shear_mod := BlakeInitNuM.shear_mod p } := by
  obtain ⟨m, -, -⟩ := initNuM_ok p h
  obtain ⟨-, hρ, ha, hP⟩ := (initNuM_bridge p h).2.1
  exact ⟨⟨_, _, m⟩, hρ, ha, hP⟩

/-- pair (ν, M): the constructor returns or raises `ValueError`, nothing else -/
theorem initNuM_total (p : BlakeInitNuM.P) : BlakeInitNuM.outcome p = .ok ∨ BlakeInitNuM.outcome p = .raise "ValueError" := by
  unfold BlakeInitNuM.outcome
  epv_ok_or_valueError

theorem initNuM_raise (p : BlakeInitNuM.P) (h : BlakeInitNuM.outcome p ≠ .ok) : BlakeInitNuM.outcome p = .raise "ValueError" :=
  (initNuM_total p).resolve_left h

/-- pair (K, M): an accepting path of the constructor is an accepting path of `set_elastic_params` on the two
supplied values, followed by the four problem-parameter checks; the six attributes are what it returned -/
theorem initKM_bridge (p : BlakeInitKM.P) (h : BlakeInitKM.outcome p = .ok) :
    BlakeModKM.outcome { bulk_mod := p.bulk_mod, long_mod := p.long_mod } = .ok ∧ DocumentedProblem p.geometry p.ref_density p.cavity_radius p.pressure_scale
    ∧ BlakeInitKM.lame_mod p = BlakeModKM.lame_mod { bulk_mod := p.bulk_mod, long_mod := p.long_mod }
    ∧ BlakeInitKM.shear_mod p = BlakeModKM.shear_mod { bulk_mod := p.bulk_mod, long_mod := p.long_mod }
    ∧ BlakeInitKM.youngs_mod p = BlakeModKM.youngs_mod { bulk_mod := p.bulk_mod, long_mod := p.long_mod }
    ∧ BlakeInitKM.poisson_ratio p = BlakeModKM.poisson_ratio { bulk_mod := p.bulk_mod, long_mod := p.long_mod }
    ∧ BlakeInitKM.bulk_mod p = BlakeModKM.bulk_mod { bulk_mod := p.bulk_mod, long_mod := p.long_mod }
    ∧ BlakeInitKM.long_mod p = BlakeModKM.long_mod { bulk_mod := p.bulk_mod, long_mod := p.long_mod } := by
  unfold BlakeInitKM.outcome at h
  unfold BlakeInitKM.lame_mod BlakeInitKM.shear_mod BlakeInitKM.youngs_mod BlakeInitKM.poisson_ratio BlakeInitKM.bulk_mod BlakeInitKM.long_mod
  epv_walk (
    simp only [epv_tree, epv_cond, DocumentedProblem] at *
    simp only [*, if_true, if_false, not_true_eq_false, not_false_eq_true, and_self, true_and]
    exact ⟨rfl, rfl, rfl, rfl, rfl, rfl⟩)

/-- pair (K, M), constructor: on acceptance the six attributes are one positive-definite isotropic material that
reproduces the two supplied values (the hypotheses of the C15 field theorems hold for the constructed solver) -/
theorem initKM_ok (p : BlakeInitKM.P) (h : BlakeInitKM.outcome p = .ok) :
    IsoMaterial (BlakeInitKM.lame_mod p) (BlakeInitKM.shear_mod p) (BlakeInitKM.youngs_mod p) (BlakeInitKM.poisson_ratio p) (BlakeInitKM.bulk_mod p) (BlakeInitKM.long_mod p)
      ∧ BlakeInitKM.bulk_mod p = p.bulk_mod ∧ BlakeInitKM.long_mod p = p.long_mod := by
  obtain ⟨hm, -, e1, e2, e3, e4, e5, e6⟩ := initKM_bridge p h
  rw [e1, e2, e3, e4, e5, e6]
  exact EPV.Blake.modKM_ok _ hm

/-- pair (K, M): the constructor **accepts ⇔ the input is documented-valid** -/
theorem initKM_accepts_iff (p : BlakeInitKM.P) :
    BlakeInitKM.outcome p = .ok ↔ (DocumentedPair .bulk .long p.bulk_mod p.long_mod) ∧ DocumentedProblem p.geometry p.ref_density p.cavity_radius p.pressure_scale := by
  constructor
  · intro h
    obtain ⟨hm, d, -⟩ := initKM_bridge p h
    exact ⟨(EPV.Blake.modKM_accepts_iff _).mp hm, d⟩
  · rintro ⟨⟨hx, hy, L, G, hG, hB, h1, h2⟩, hgeo, hrho, hrad, hprs⟩
    simp only [Kind.of, Kind.GivenOk] at hx hy h1 h2
    have hLG : 0 < L + G := by linarith
    have hc0 : ¬ BlakeInitKM.c0 p := by
      simp only [epv_cond]
      linarith
    have hc1 : ¬ BlakeInitKM.c1 p := by
      simp only [epv_cond]
      linarith
    have hc2 : BlakeInitKM.c2 p := by
      simp only [epv_cond]
      linarith
    have hc3 : BlakeInitKM.c3 p := by
      simp only [epv_cond]
      linarith
    have hc5 : BlakeInitKM.c5 p := by simp only [epv_cond]; first | exact hgeo | exact hrho | exact hrad | exact hprs
    have hc6 : BlakeInitKM.c6 p := by simp only [epv_cond]; first | exact hgeo | exact hrho | exact hrad | exact hprs
    have hc7 : BlakeInitKM.c7 p := by simp only [epv_cond]; first | exact hgeo | exact hrho | exact hrad | exact hprs
    have hc8 : BlakeInitKM.c8 p := by simp only [epv_cond]; first | exact hgeo | exact hrho | exact hrad | exact hprs
    simp only [epv_tree, hc0, hc1, hc2, hc3, hc5, hc6, hc7, hc8, if_true, if_false, ite_self]

/-- pair (K, M): **the constructed solver is in the domain of the C15 field theorems** — the attributes `_run` reads
(a, ρ₀, P₀ as supplied, λ, G, ν, M as the constructor computed them) form an admissible problem
(`EPV.Blake.Admissible`: one positive-definite isotropic material, ρ₀, a, P₀ > 0) -/
theorem initKM_admissible (p : BlakeInitKM.P) (h : BlakeInitKM.outcome p = .ok) :
    EPV.Blake.Admissible
      { cavity_radius := p.cavity_radius, lame_mod := BlakeInitKM.lame_mod p, long_mod := BlakeInitKM.long_mod p,
        poisson_ratio := BlakeInitKM.poisson_ratio p, pressure_scale := p.pressure_scale, ref_density := p.ref_density,
        shear_mod := BlakeInitKM.shear_mod p } := by
  obtain ⟨m, -, -⟩ := initKM_ok p h
  obtain ⟨-, hρ, ha, hP⟩ := (initKM_bridge p h).2.1
  exact ⟨⟨_, _, m⟩, hρ, ha, hP⟩

/-- pair (K, M): the constructor returns or raises `ValueError`, nothing else -/
theorem initKM_total (p : BlakeInitKM.P) : BlakeInitKM.outcome p = .ok ∨ BlakeInitKM.outcome p = .raise "ValueError" := by
  unfold BlakeInitKM.outcome
  epv_ok_or_valueError

theorem initKM_raise (p : BlakeInitKM.P) (h : BlakeInitKM.outcome p ≠ .ok) : BlakeInitKM.outcome p = .raise "ValueError" :=
  (initKM_total p).resolve_left h

/-- non-vacuity: the default problem, specified through the pair (K, M), is accepted -/
example : BlakeInitKM.outcome { bulk_mod := 125000000000 / 3, long_mod := 75000000000, geometry := 3, ref_density := 3000, cavity_radius := 1 / 10, pressure_scale := 1000000 } = .ok := by
  simp only [epv_tree, epv_cond]; norm_num

end EPV.C20
