/-
C20 (Blake share) — the constructor `Blake(**kwargs)` with exactly two elastic parameters (pairs (E, K), (E, M), (ν, K), (ν, M), (K, M)), every
parameter symbolic (models `BlakeInit<XY>`): the traced constructor **accepts ⇔ the input is documented-valid**

    BlakeInit<XY>.outcome p = .ok  ↔  DocumentedPair k₁ k₂ x y  ∧  DocumentedProblem geometry ρ₀ a P₀

(`DocumentedProblem`: geometry = 3, ref_density > 0, cavity_radius > 0, pressure_scale > 0 — the parameter help
strings and the four error messages), every rejection is a `ValueError`, and on acceptance the six attributes
are one positive-definite isotropic material reproducing the two supplied values (so the hypotheses of the
C15 field theorems hold for every constructed solver).  `blake_debug` is not a number and is left at its
default; the pressure_scale ≥ 0.1·bulk_mod branch only warns (both branches accept).
-/
import EPV.Gen.BlakeInitEK
import EPV.Gen.BlakeInitEM
import EPV.Gen.BlakeInitNuK
import EPV.Gen.BlakeInitNuM
import EPV.Gen.BlakeInitKM
import EPV.Spec.Blake
import EPV.Lemmas.Blake
import EPV.Lemmas.BlakeModuli
import EPV.Tactics

set_option linter.all false

open EPV EPV.Gen EPV.Spec.Blake EPV.Blake

namespace EPV.C20

/-- pair (E, K), constructor: an accepting path ends with one positive-definite isotropic material that
reproduces the two supplied values; the problem parameters and the supplied values are the documented
admissible ones -/
theorem initEK_ok (p : BlakeInitEK.P) (h : BlakeInitEK.outcome p = .ok) :
    IsoMaterial (BlakeInitEK.lame_mod p) (BlakeInitEK.shear_mod p) (BlakeInitEK.youngs_mod p) (BlakeInitEK.poisson_ratio p) (BlakeInitEK.bulk_mod p) (BlakeInitEK.long_mod p)
      ∧ BlakeInitEK.youngs_mod p = p.youngs_mod ∧ BlakeInitEK.bulk_mod p = p.bulk_mod ∧ DocumentedProblem p.geometry p.ref_density p.cavity_radius p.pressure_scale
      ∧ Kind.GivenOk .youngs p.youngs_mod ∧ Kind.GivenOk .bulk p.bulk_mod := by
  epv_paths (
    simp only [epv_cond] at *
    simp only [epv_leaf, Kind.GivenOk]
    simp only [not_le, not_lt] at *
    have hE : 0 < p.youngs_mod := by linarith
    have hK : 0 < p.bulk_mod := by linarith
    have h6K : 0 < 6 * p.bulk_mod := by linarith
    have h9 : 0 < 9 * p.bulk_mod - p.youngs_mod := by
      have := (lt_div_iff₀ h6K).mp ‹(-1 : ℝ) < _›
      linarith
    have h1 : 9 * p.bulk_mod - p.youngs_mod ≠ 0 := ne_of_gt h9
    have hK0 : p.bulk_mod ≠ 0 := ne_of_gt hK
    have e1 : 3 * (3 * p.bulk_mod * (3 * p.bulk_mod - p.youngs_mod) / (9 * p.bulk_mod - p.youngs_mod))
          + 2 * (3 * p.bulk_mod * p.youngs_mod / (9 * p.bulk_mod - p.youngs_mod)) = 3 * p.bulk_mod := by
      fsimp; ring1
    have e2 : 3 * p.bulk_mod * (3 * p.bulk_mod - p.youngs_mod) / (9 * p.bulk_mod - p.youngs_mod)
          + 3 * p.bulk_mod * p.youngs_mod / (9 * p.bulk_mod - p.youngs_mod)
        = 9 * p.bulk_mod * p.bulk_mod / (9 * p.bulk_mod - p.youngs_mod) := by fsimp; ring1
    have h2 : 3 * p.bulk_mod * (3 * p.bulk_mod - p.youngs_mod) / (9 * p.bulk_mod - p.youngs_mod)
          + 3 * p.bulk_mod * p.youngs_mod / (9 * p.bulk_mod - p.youngs_mod) ≠ 0 := by
      rw [e2]; positivity
    have h3 : 0 < 3 * (3 * p.bulk_mod * (3 * p.bulk_mod - p.youngs_mod) / (9 * p.bulk_mod - p.youngs_mod))
          + 2 * (3 * p.bulk_mod * p.youngs_mod / (9 * p.bulk_mod - p.youngs_mod)) := by
      rw [e1]; positivity
    have h4 : 0 < 3 * p.bulk_mod * p.youngs_mod / (9 * p.bulk_mod - p.youngs_mod) := by positivity
    refine ⟨IsoMaterial.of_mul ?_ ?_ ?_ ?_ ?_ ?_, ?_, ?_, ⟨?_, ?_, ?_, ?_⟩, ?_, ?_⟩ <;> first | trivial | assumption | linarith | ring1 | (fsimp <;> ring1) | exact ⟨by linarith, by linarith⟩)

/-- pair (E, K): the constructor **accepts ⇔ the input is documented-valid** -/
theorem initEK_accepts_iff (p : BlakeInitEK.P) :
    BlakeInitEK.outcome p = .ok ↔ (DocumentedPair .youngs .bulk p.youngs_mod p.bulk_mod ∧ ¬ NearSingular p.youngs_mod (9 * p.bulk_mod)) ∧ DocumentedProblem p.geometry p.ref_density p.cavity_radius p.pressure_scale := by
  constructor
  · intro h
    obtain ⟨m, e1, e2, d, g1, g2⟩ := initEK_ok p h
    refine ⟨⟨⟨g1, g2, _, _, m.shear_pos, m.bulk_pos, ?_, ?_⟩, ?_⟩, d⟩
    · rw [← e1]; exact m.kind_of.2.2.1
    · rw [← e2]; exact m.kind_of.2.2.2.2.1
    · clear m e1 e2 d g1 g2
      epv_paths (simp only [epv_cond] at *; simp only [NearSingular, reltol]; assumption)
  · rintro ⟨⟨⟨hx, hy, L, G, hG, hB, h1, h2⟩, hband⟩, hgeo, hrho, hrad, hprs⟩
    simp only [Kind.of, Kind.GivenOk] at hx hy h1 h2
    have hLG : 0 < L + G := by linarith
    have hE : p.youngs_mod * (L + G) = G * (3 * L + 2 * G) := by rw [← h1]; field_simp
    have e : (9 * p.bulk_mod - p.youngs_mod) * (L + G) = (3 * L + 2 * G) ^ 2 := by
      rw [← h2]; linear_combination (-1 : ℝ) * hE
    have hlt : 0 < 9 * p.bulk_mod - p.youngs_mod := (mul_pos_iff_of_pos_right hLG).mp (e ▸ by positivity)
    have hc0 : ¬ BlakeInitEK.c0 p := by
      simp only [epv_cond]
      linarith
    have hc1 : ¬ BlakeInitEK.c1 p := by
      simp only [epv_cond]
      linarith
    have hc2 : ¬ BlakeInitEK.c2 p := by
      simp only [epv_cond]
      simpa only [NearSingular, reltol] using hband
    have hc4 : BlakeInitEK.c4 p := by
      simp only [epv_cond]
      linarith
    have hc5 : BlakeInitEK.c5 p := by
      simp only [epv_cond]
      rw [lt_div_iff₀ (by linarith)]
      linarith
    have hc6 : BlakeInitEK.c6 p := by
      simp only [epv_cond]
      rw [div_lt_iff₀ (by linarith)]
      linarith
    have hc7 : BlakeInitEK.c7 p := by simp only [epv_cond]; exact hgeo
    have hc8 : BlakeInitEK.c8 p := by simp only [epv_cond]; exact hrho
    have hc9 : BlakeInitEK.c9 p := by simp only [epv_cond]; exact hrad
    have hc10 : BlakeInitEK.c10 p := by simp only [epv_cond]; exact hprs
    simp only [epv_tree, hc0, hc1, hc2, hc4, hc5, hc6, hc7, hc8, hc9, hc10, if_true, if_false, ite_self]

/-- pair (E, K): the constructor returns or raises `ValueError`, nothing else -/
theorem initEK_total (p : BlakeInitEK.P) : BlakeInitEK.outcome p = .ok ∨ BlakeInitEK.outcome p = .raise "ValueError" := by
  epv_ok_or_valueError

theorem initEK_raise (p : BlakeInitEK.P) (h : BlakeInitEK.outcome p ≠ .ok) : BlakeInitEK.outcome p = .raise "ValueError" :=
  (initEK_total p).resolve_left h

/-- pair (E, M), constructor: an accepting path ends with one positive-definite isotropic material that
reproduces the two supplied values; the problem parameters and the supplied values are the documented
admissible ones -/
theorem initEM_ok (p : BlakeInitEM.P) (h : BlakeInitEM.outcome p = .ok) :
    IsoMaterial (BlakeInitEM.lame_mod p) (BlakeInitEM.shear_mod p) (BlakeInitEM.youngs_mod p) (BlakeInitEM.poisson_ratio p) (BlakeInitEM.bulk_mod p) (BlakeInitEM.long_mod p)
      ∧ BlakeInitEM.youngs_mod p = p.youngs_mod ∧ BlakeInitEM.long_mod p = p.long_mod ∧ DocumentedProblem p.geometry p.ref_density p.cavity_radius p.pressure_scale
      ∧ Kind.GivenOk .youngs p.youngs_mod ∧ Kind.GivenOk .long p.long_mod := by
  epv_paths (
    simp only [epv_cond] at *
    simp only [epv_leaf, Kind.GivenOk]
    simp only [not_le, not_lt] at *
    have hE : 0 < p.youngs_mod := by linarith
    have hM : 0 < p.long_mod := by linarith
    have hx : 0 ≤ p.youngs_mod ^ (2 : ℕ) + 9 * p.long_mod ^ (2 : ℕ) - 10 * p.youngs_mod * p.long_mod := by linarith
    generalize hS : (p.youngs_mod ^ (2 : ℕ) + 9 * p.long_mod ^ (2 : ℕ) - 10 * p.youngs_mod * p.long_mod) ^ ((1 : ℝ) / 2) = S at *
    have hS0 : 0 ≤ S := hS ▸ rpow_half_nonneg _
    have hS2 : S * S = p.youngs_mod ^ (2 : ℕ) + 9 * p.long_mod ^ (2 : ℕ) - 10 * p.youngs_mod * p.long_mod :=
      hS ▸ rpow_half_mul_self hx
    have hEM : 0 < p.youngs_mod * p.long_mod := mul_pos hE hM
    have h4M : 0 < 4 * p.long_mod := by linarith
    -- ν < 1/2  gives  S < 3M - E
    have hlt : S < 3 * p.long_mod - p.youngs_mod := by
      have h := ‹1 / 4 * (p.youngs_mod - p.long_mod + S) / p.long_mod < 1 / 2›
      rw [div_lt_iff₀ hM] at h
      linarith
    have hG : 0 < 1 / 8 * (3 * p.long_mod + p.youngs_mod - S) := by linarith
    have hB : 0 < 3 * p.long_mod - p.youngs_mod + S := by
      by_contra hc
      rw [not_lt] at hc
      nlinarith
    have h2 : 1 / 4 * (p.long_mod - p.youngs_mod + S) + 1 / 8 * (3 * p.long_mod + p.youngs_mod - S) ≠ 0 := by
      intro h0; linarith
    have hM0 : p.long_mod ≠ 0 := ne_of_gt hM
    refine ⟨IsoMaterial.of_mul ?_ ?_ ?_ ?_ ?_ ?_, ?_, ?_, ⟨?_, ?_, ?_, ?_⟩, ?_, ?_⟩ <;> first | trivial | assumption | linarith | ring1 | (fsimp <;> ring1) | linear_combination (1 / 16 : ℝ) * hS2 | (rw [div_mul_eq_mul_div, div_eq_iff (ne_of_gt hM)]; linear_combination (1 / 16 : ℝ) * hS2) | exact ⟨by linarith, by linarith⟩)

/-- pair (E, M): the constructor **accepts ⇔ the input is documented-valid** -/
theorem initEM_accepts_iff (p : BlakeInitEM.P) :
    BlakeInitEM.outcome p = .ok ↔ (DocumentedPair .youngs .long p.youngs_mod p.long_mod) ∧ DocumentedProblem p.geometry p.ref_density p.cavity_radius p.pressure_scale := by
  constructor
  · intro h
    obtain ⟨m, e1, e2, d, g1, g2⟩ := initEM_ok p h
    refine ⟨⟨g1, g2, _, _, m.shear_pos, m.bulk_pos, ?_, ?_⟩, d⟩
    · rw [← e1]; exact m.kind_of.2.2.1
    · rw [← e2]; exact m.kind_of.2.2.2.2.2
  · rintro ⟨⟨hx, hy, L, G, hG, hB, h1, h2⟩, hgeo, hrho, hrad, hprs⟩
    simp only [Kind.of, Kind.GivenOk] at hx hy h1 h2
    have hLG : 0 < L + G := by linarith
    have hE : p.youngs_mod * (L + G) = G * (3 * L + 2 * G) := by rw [← h1]; field_simp
    have e : (p.long_mod - p.youngs_mod) * (L + G) = L ^ 2 := by rw [← h2]; linear_combination (-1 : ℝ) * hE
    have hle : 0 ≤ p.long_mod - p.youngs_mod := by
      by_contra hc
      rw [not_le] at hc
      nlinarith [sq_nonneg L]
    have hx2 : 0 ≤ p.youngs_mod ^ (2 : ℕ) + 9 * p.long_mod ^ (2 : ℕ) - 10 * p.youngs_mod * p.long_mod := by
      nlinarith [mul_nonneg hle (by linarith : (0 : ℝ) ≤ 9 * p.long_mod - p.youngs_mod)]
    have hS0 := rpow_half_nonneg (p.youngs_mod ^ (2 : ℕ) + 9 * p.long_mod ^ (2 : ℕ) - 10 * p.youngs_mod * p.long_mod)
    have hS2 := rpow_half_mul_self hx2
    have hSlt : (p.youngs_mod ^ (2 : ℕ) + 9 * p.long_mod ^ (2 : ℕ) - 10 * p.youngs_mod * p.long_mod) ^ ((1 : ℝ) / 2)
        < 3 * p.long_mod - p.youngs_mod := by
      by_contra hc
      rw [not_lt] at hc
      nlinarith [mul_pos hx hy]
    have hc0 : ¬ BlakeInitEM.c0 p := by
      simp only [epv_cond]
      linarith
    have hc1 : ¬ BlakeInitEM.c1 p := by
      simp only [epv_cond]
      linarith
    have hc2 : ¬ BlakeInitEM.c2 p := by
      simp only [epv_cond]
      linarith
    have hc4 : BlakeInitEM.c4 p := by
      simp only [epv_cond]
      linarith
    have hc5 : BlakeInitEM.c5 p := by
      simp only [epv_cond]
      rw [lt_div_iff₀ hy]
      linarith
    have hc6 : BlakeInitEM.c6 p := by
      simp only [epv_cond]
      rw [div_lt_iff₀ hy]
      linarith
    have hc7 : BlakeInitEM.c7 p := by simp only [epv_cond]; exact hgeo
    have hc8 : BlakeInitEM.c8 p := by simp only [epv_cond]; exact hrho
    have hc9 : BlakeInitEM.c9 p := by simp only [epv_cond]; exact hrad
    have hc10 : BlakeInitEM.c10 p := by simp only [epv_cond]; exact hprs
    simp only [epv_tree, hc0, hc1, hc2, hc4, hc5, hc6, hc7, hc8, hc9, hc10, if_true, if_false, ite_self]

/-- pair (E, M): the constructor returns or raises `ValueError`, nothing else -/
theorem initEM_total (p : BlakeInitEM.P) : BlakeInitEM.outcome p = .ok ∨ BlakeInitEM.outcome p = .raise "ValueError" := by
  epv_ok_or_valueError

theorem initEM_raise (p : BlakeInitEM.P) (h : BlakeInitEM.outcome p ≠ .ok) : BlakeInitEM.outcome p = .raise "ValueError" :=
  (initEM_total p).resolve_left h

/-- pair (ν, K), constructor: an accepting path ends with one positive-definite isotropic material that
reproduces the two supplied values; the problem parameters and the supplied values are the documented
admissible ones -/
theorem initNuK_ok (p : BlakeInitNuK.P) (h : BlakeInitNuK.outcome p = .ok) :
    IsoMaterial (BlakeInitNuK.lame_mod p) (BlakeInitNuK.shear_mod p) (BlakeInitNuK.youngs_mod p) (BlakeInitNuK.poisson_ratio p) (BlakeInitNuK.bulk_mod p) (BlakeInitNuK.long_mod p)
      ∧ BlakeInitNuK.poisson_ratio p = p.poisson_ratio ∧ BlakeInitNuK.bulk_mod p = p.bulk_mod ∧ DocumentedProblem p.geometry p.ref_density p.cavity_radius p.pressure_scale
      ∧ Kind.GivenOk .poisson p.poisson_ratio ∧ Kind.GivenOk .bulk p.bulk_mod := by
  epv_paths (
    simp only [epv_cond] at *
    simp only [epv_leaf, Kind.GivenOk]
    simp only [not_le, not_lt] at *
    have hK : 0 < p.bulk_mod := by linarith
    have h1p : 0 < 1 - 2 * p.poisson_ratio := by linarith
    have hn : 0 < 1 + p.poisson_ratio := by linarith
    have hn0 : 1 + p.poisson_ratio ≠ 0 := ne_of_gt hn
    have e1 : 3 * (3 * p.bulk_mod * p.poisson_ratio / (1 + p.poisson_ratio))
          + 2 * (3 * p.bulk_mod * (1 - 2 * p.poisson_ratio) / (2 * (1 + p.poisson_ratio))) = 3 * p.bulk_mod := by
      fsimp; ring1
    have e2 : 3 * p.bulk_mod * p.poisson_ratio / (1 + p.poisson_ratio)
          + 3 * p.bulk_mod * (1 - 2 * p.poisson_ratio) / (2 * (1 + p.poisson_ratio))
        = 3 * p.bulk_mod / (2 * (1 + p.poisson_ratio)) := by fsimp; ring1
    have h2 : 3 * p.bulk_mod * p.poisson_ratio / (1 + p.poisson_ratio)
          + 3 * p.bulk_mod * (1 - 2 * p.poisson_ratio) / (2 * (1 + p.poisson_ratio)) ≠ 0 := by
      rw [e2]; positivity
    have h3 : 0 < 3 * (3 * p.bulk_mod * p.poisson_ratio / (1 + p.poisson_ratio))
          + 2 * (3 * p.bulk_mod * (1 - 2 * p.poisson_ratio) / (2 * (1 + p.poisson_ratio))) := by
      rw [e1]; positivity
    refine ⟨IsoMaterial.of_mul ?_ ?_ ?_ ?_ ?_ ?_, ?_, ?_, ⟨?_, ?_, ?_, ?_⟩, ?_, ?_⟩ <;> first | trivial | assumption | linarith | ring1 | (fsimp <;> ring1) | exact ⟨by linarith, by linarith⟩)

/-- pair (ν, K): the constructor **accepts ⇔ the input is documented-valid** -/
theorem initNuK_accepts_iff (p : BlakeInitNuK.P) :
    BlakeInitNuK.outcome p = .ok ↔ (DocumentedPair .poisson .bulk p.poisson_ratio p.bulk_mod) ∧ DocumentedProblem p.geometry p.ref_density p.cavity_radius p.pressure_scale := by
  constructor
  · intro h
    obtain ⟨m, e1, e2, d, g1, g2⟩ := initNuK_ok p h
    refine ⟨⟨g1, g2, _, _, m.shear_pos, m.bulk_pos, ?_, ?_⟩, d⟩
    · rw [← e1]; exact m.kind_of.2.2.2.1
    · rw [← e2]; exact m.kind_of.2.2.2.2.1
  · rintro ⟨⟨hx, hy, L, G, hG, hB, h1, h2⟩, hgeo, hrho, hrad, hprs⟩
    simp only [Kind.of, Kind.GivenOk] at hx hy h1 h2
    have hLG : 0 < L + G := by linarith
    have a1 : 0 < 1 - 2 * p.poisson_ratio := by linarith [hx.2]
    have a2 : 0 < 1 + p.poisson_ratio := by linarith [hx.1]
    have hc0 : BlakeInitNuK.c0 p := by
      simp only [epv_cond]
      exact hx.1
    have hc1 : BlakeInitNuK.c1 p := by
      simp only [epv_cond]
      exact hx.2
    have hc2 : ¬ BlakeInitNuK.c2 p := by
      simp only [epv_cond]
      linarith
    have hc3 : BlakeInitNuK.c3 p := by
      simp only [epv_cond]
      positivity
    have hc4 : BlakeInitNuK.c4 p := by simp only [epv_cond]; exact hgeo
    have hc5 : BlakeInitNuK.c5 p := by simp only [epv_cond]; exact hrho
    have hc6 : BlakeInitNuK.c6 p := by simp only [epv_cond]; exact hrad
    have hc7 : BlakeInitNuK.c7 p := by simp only [epv_cond]; exact hprs
    simp only [epv_tree, hc0, hc1, hc2, hc3, hc4, hc5, hc6, hc7, if_true, if_false, ite_self]

/-- pair (ν, K): the constructor returns or raises `ValueError`, nothing else -/
theorem initNuK_total (p : BlakeInitNuK.P) : BlakeInitNuK.outcome p = .ok ∨ BlakeInitNuK.outcome p = .raise "ValueError" := by
  epv_ok_or_valueError

theorem initNuK_raise (p : BlakeInitNuK.P) (h : BlakeInitNuK.outcome p ≠ .ok) : BlakeInitNuK.outcome p = .raise "ValueError" :=
  (initNuK_total p).resolve_left h

/-- pair (ν, M), constructor: an accepting path ends with one positive-definite isotropic material that
reproduces the two supplied values; the problem parameters and the supplied values are the documented
admissible ones -/
theorem initNuM_ok (p : BlakeInitNuM.P) (h : BlakeInitNuM.outcome p = .ok) :
    IsoMaterial (BlakeInitNuM.lame_mod p) (BlakeInitNuM.shear_mod p) (BlakeInitNuM.youngs_mod p) (BlakeInitNuM.poisson_ratio p) (BlakeInitNuM.bulk_mod p) (BlakeInitNuM.long_mod p)
      ∧ BlakeInitNuM.poisson_ratio p = p.poisson_ratio ∧ BlakeInitNuM.long_mod p = p.long_mod ∧ DocumentedProblem p.geometry p.ref_density p.cavity_radius p.pressure_scale
      ∧ Kind.GivenOk .poisson p.poisson_ratio ∧ Kind.GivenOk .long p.long_mod := by
  epv_paths (
    simp only [epv_cond] at *
    simp only [epv_leaf, Kind.GivenOk]
    simp only [not_le, not_lt] at *
    have hM : 0 < p.long_mod := by linarith
    have h1p : 0 < 1 - 2 * p.poisson_ratio := by linarith
    have hn : 0 < 1 + p.poisson_ratio := by linarith
    have hm : 0 < 1 - p.poisson_ratio := by linarith
    have hm0 : 1 - p.poisson_ratio ≠ 0 := ne_of_gt hm
    have e1 : 3 * (p.long_mod * p.poisson_ratio / (1 - p.poisson_ratio))
          + 2 * (1 / 2 * p.long_mod * (1 - 2 * p.poisson_ratio) / (1 - p.poisson_ratio))
        = p.long_mod * (1 + p.poisson_ratio) / (1 - p.poisson_ratio) := by fsimp; ring1
    have e2 : p.long_mod * p.poisson_ratio / (1 - p.poisson_ratio)
          + 1 / 2 * p.long_mod * (1 - 2 * p.poisson_ratio) / (1 - p.poisson_ratio)
        = p.long_mod / (2 * (1 - p.poisson_ratio)) := by fsimp; ring1
    have h2 : p.long_mod * p.poisson_ratio / (1 - p.poisson_ratio)
          + 1 / 2 * p.long_mod * (1 - 2 * p.poisson_ratio) / (1 - p.poisson_ratio) ≠ 0 := by
      rw [e2]; positivity
    have h3 : 0 < 3 * (p.long_mod * p.poisson_ratio / (1 - p.poisson_ratio))
          + 2 * (1 / 2 * p.long_mod * (1 - 2 * p.poisson_ratio) / (1 - p.poisson_ratio)) := by
      rw [e1]; positivity
    refine ⟨IsoMaterial.of_mul ?_ ?_ ?_ ?_ ?_ ?_, ?_, ?_, ⟨?_, ?_, ?_, ?_⟩, ?_, ?_⟩ <;> first | trivial | assumption | linarith | ring1 | (fsimp <;> ring1) | exact ⟨by linarith, by linarith⟩)

/-- pair (ν, M): the constructor **accepts ⇔ the input is documented-valid** -/
theorem initNuM_accepts_iff (p : BlakeInitNuM.P) :
    BlakeInitNuM.outcome p = .ok ↔ (DocumentedPair .poisson .long p.poisson_ratio p.long_mod) ∧ DocumentedProblem p.geometry p.ref_density p.cavity_radius p.pressure_scale := by
  constructor
  · intro h
    obtain ⟨m, e1, e2, d, g1, g2⟩ := initNuM_ok p h
    refine ⟨⟨g1, g2, _, _, m.shear_pos, m.bulk_pos, ?_, ?_⟩, d⟩
    · rw [← e1]; exact m.kind_of.2.2.2.1
    · rw [← e2]; exact m.kind_of.2.2.2.2.2
  · rintro ⟨⟨hx, hy, L, G, hG, hB, h1, h2⟩, hgeo, hrho, hrad, hprs⟩
    simp only [Kind.of, Kind.GivenOk] at hx hy h1 h2
    have hLG : 0 < L + G := by linarith
    have a1 : 0 < 1 - 2 * p.poisson_ratio := by linarith [hx.2]
    have a2 : 0 < 1 - p.poisson_ratio := by linarith [hx.2]
    have hc0 : BlakeInitNuM.c0 p := by
      simp only [epv_cond]
      exact hx.1
    have hc1 : BlakeInitNuM.c1 p := by
      simp only [epv_cond]
      exact hx.2
    have hc2 : ¬ BlakeInitNuM.c2 p := by
      simp only [epv_cond]
      linarith
    have hc3 : BlakeInitNuM.c3 p := by
      simp only [epv_cond]
      positivity
    have hc4 : BlakeInitNuM.c4 p := by simp only [epv_cond]; exact hgeo
    have hc5 : BlakeInitNuM.c5 p := by simp only [epv_cond]; exact hrho
    have hc6 : BlakeInitNuM.c6 p := by simp only [epv_cond]; exact hrad
    have hc7 : BlakeInitNuM.c7 p := by simp only [epv_cond]; exact hprs
    simp only [epv_tree, hc0, hc1, hc2, hc3, hc4, hc5, hc6, hc7, if_true, if_false, ite_self]

/-- pair (ν, M): the constructor returns or raises `ValueError`, nothing else -/
theorem initNuM_total (p : BlakeInitNuM.P) : BlakeInitNuM.outcome p = .ok ∨ BlakeInitNuM.outcome p = .raise "ValueError" := by
  epv_ok_or_valueError

theorem initNuM_raise (p : BlakeInitNuM.P) (h : BlakeInitNuM.outcome p ≠ .ok) : BlakeInitNuM.outcome p = .raise "ValueError" :=
  (initNuM_total p).resolve_left h

/-- pair (K, M), constructor: an accepting path ends with one positive-definite isotropic material that
reproduces the two supplied values; the problem parameters and the supplied values are the documented
admissible ones -/
theorem initKM_ok (p : BlakeInitKM.P) (h : BlakeInitKM.outcome p = .ok) :
    IsoMaterial (BlakeInitKM.lame_mod p) (BlakeInitKM.shear_mod p) (BlakeInitKM.youngs_mod p) (BlakeInitKM.poisson_ratio p) (BlakeInitKM.bulk_mod p) (BlakeInitKM.long_mod p)
      ∧ BlakeInitKM.bulk_mod p = p.bulk_mod ∧ BlakeInitKM.long_mod p = p.long_mod ∧ DocumentedProblem p.geometry p.ref_density p.cavity_radius p.pressure_scale
      ∧ Kind.GivenOk .bulk p.bulk_mod ∧ Kind.GivenOk .long p.long_mod := by
  epv_paths (
    simp only [epv_cond] at *
    simp only [epv_leaf, Kind.GivenOk]
    simp only [not_le, not_lt] at *
    have h1 : 0 < 3 * p.bulk_mod + p.long_mod := by linarith
    refine ⟨IsoMaterial.of_mul ?_ ?_ ?_ ?_ ?_ ?_, ?_, ?_, ⟨?_, ?_, ?_, ?_⟩, ?_, ?_⟩ <;> first | trivial | assumption | linarith | ring1 | (fsimp <;> ring1) | exact ⟨by linarith, by linarith⟩)

/-- pair (K, M): the constructor **accepts ⇔ the input is documented-valid** -/
theorem initKM_accepts_iff (p : BlakeInitKM.P) :
    BlakeInitKM.outcome p = .ok ↔ (DocumentedPair .bulk .long p.bulk_mod p.long_mod) ∧ DocumentedProblem p.geometry p.ref_density p.cavity_radius p.pressure_scale := by
  constructor
  · intro h
    obtain ⟨m, e1, e2, d, g1, g2⟩ := initKM_ok p h
    refine ⟨⟨g1, g2, _, _, m.shear_pos, m.bulk_pos, ?_, ?_⟩, d⟩
    · rw [← e1]; exact m.kind_of.2.2.2.2.1
    · rw [← e2]; exact m.kind_of.2.2.2.2.2
  · rintro ⟨⟨hx, hy, L, G, hG, hB, h1, h2⟩, hgeo, hrho, hrad, hprs⟩
    simp only [Kind.of, Kind.GivenOk] at hx hy h1 h2
    have hLG : 0 < L + G := by linarith
    have hc0 : ¬ BlakeInitKM.c0 p := by
      simp only [epv_cond]
      linarith
    have hc1 : ¬ BlakeInitKM.c1 p := by
      simp only [epv_cond]
      linarith
    have hc2 : BlakeInitKM.c2 p := by
      simp only [epv_cond]
      linarith
    have hc3 : BlakeInitKM.c3 p := by
      simp only [epv_cond]
      linarith
    have hc5 : BlakeInitKM.c5 p := by simp only [epv_cond]; exact hgeo
    have hc6 : BlakeInitKM.c6 p := by simp only [epv_cond]; exact hrho
    have hc7 : BlakeInitKM.c7 p := by simp only [epv_cond]; exact hrad
    have hc8 : BlakeInitKM.c8 p := by simp only [epv_cond]; exact hprs
    simp only [epv_tree, hc0, hc1, hc2, hc3, hc5, hc6, hc7, hc8, if_true, if_false, ite_self]

/-- pair (K, M): the constructor returns or raises `ValueError`, nothing else -/
theorem initKM_total (p : BlakeInitKM.P) : BlakeInitKM.outcome p = .ok ∨ BlakeInitKM.outcome p = .raise "ValueError" := by
  epv_ok_or_valueError

theorem initKM_raise (p : BlakeInitKM.P) (h : BlakeInitKM.outcome p ≠ .ok) : BlakeInitKM.outcome p = .raise "ValueError" :=
  (initKM_total p).resolve_left h

end EPV.C20
