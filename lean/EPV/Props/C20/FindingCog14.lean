/-
C20 — Cog14 leaves the reals on the whole parameter range its own warnings call valid (finding).
-/
import EPV.Gen.Cog14
import EPV.Lemmas.HydroTactics

set_option linter.all false

open EPV EPV.Gen EPV.Spec.AdmissibleHydro

namespace EPV.C20

/-- the leaf named below is the only `ok` leaf of the traced tree -/
theorem cog14_ok_leaves : Cog14.okLeaves = [0] := rfl

/-- **Finding** (Cog14): for EVERY α ∈ [-2,-1], β ∈ [1,3], geometry ∈ {1,2,3} and Γ > 0 the quantity
b/(Γ (k-b)), b = (k-1-αk)/(2+α-2(β+4)), is negative: it is the sign of the base that `_run` raises to the power
-1/(5+2β) (times squares), so `temp0` is complex and `math.sqrt` raises
"TypeError: must be real number, not complex" — not a ValueError, and not at construction. -/
theorem finding_cog14_base_negative (p : Cog14.P) (hΓ : 0 < p.Gamma)
    (hadv : Advised p.alpha p.beta) (hgeo : Geom123 p.geometry) :
    (((p.geometry - 1) - 1 - p.alpha * (p.geometry - 1)) / (2 + p.alpha - 2 * (p.beta + 4))) / p.Gamma
      / ((p.geometry - 1) - ((p.geometry - 1) - 1 - p.alpha * (p.geometry - 1)) / (2 + p.alpha - 2 * (p.beta + 4))) < 0 := by
  obtain ⟨h1, h2, h3, h4⟩ := hadv
  have hd : 2 + p.alpha - 2 * (p.beta + 4) < 0 := by linarith
  rcases hgeo with h | h | h <;> rw [h]
  · -- k = 0: b = -1/d > 0, k - b = -b < 0
    have hb : 0 < ((1 : ℝ) - 1 - 1 - p.alpha * (1 - 1)) / (2 + p.alpha - 2 * (p.beta + 4)) := by
      apply div_pos_of_neg_of_neg _ hd; norm_num
    have hkb : (1 : ℝ) - 1 - ((1 : ℝ) - 1 - 1 - p.alpha * (1 - 1)) / (2 + p.alpha - 2 * (p.beta + 4)) < 0 := by linarith
    exact div_neg_of_pos_of_neg (div_pos hb hΓ) hkb
  · have hb : ((2 : ℝ) - 1 - 1 - p.alpha * (2 - 1)) / (2 + p.alpha - 2 * (p.beta + 4)) < 0 := by
      apply div_neg_of_pos_of_neg _ hd; linarith
    have hkb : 0 < (2 : ℝ) - 1 - ((2 : ℝ) - 1 - 1 - p.alpha * (2 - 1)) / (2 + p.alpha - 2 * (p.beta + 4)) := by linarith
    exact div_neg_of_neg_of_pos (div_neg_of_neg_of_pos hb hΓ) hkb
  · have hb : ((3 : ℝ) - 1 - 1 - p.alpha * (3 - 1)) / (2 + p.alpha - 2 * (p.beta + 4)) < 0 := by
      apply div_neg_of_pos_of_neg _ hd; linarith
    have hkb : 0 < (3 : ℝ) - 1 - ((3 : ℝ) - 1 - 1 - p.alpha * (3 - 1)) / (2 + p.alpha - 2 * (p.beta + 4)) := by linarith
    exact div_neg_of_neg_of_pos (div_neg_of_neg_of_pos hb hΓ) hkb

/-- … hence the `ok` leaf of Cog14 is not well defined at a concrete point of that range
(α = -3/2, β = 2, spherical, class defaults otherwise with ρ₀ = 1) -/
theorem finding_cog14_not_well_defined :
    Advised (-3 / 2) 2 ∧ ¬ Cog14.L0.WellDefined ⟨40, 0, -3 / 2, 0, 2, 0, 0, 7 / 5, 3, 0, 1 / 10, 1⟩ 1 1 := by
  refine ⟨by norm_num [Advised], ?_⟩
  unfold Cog14.L0.WellDefined
  norm_num

/-- non-vacuity of the universal statement: the class defaults with α = -3/2, β = 2 lie in the range -/
example : ∃ p : Cog14.P, 0 < p.Gamma ∧ Advised p.alpha p.beta ∧ Geom123 p.geometry :=
  ⟨⟨40, 0, -3 / 2, 0, 2, 0, 0, 7 / 5, 3, 0, 1 / 10, 9 / 5⟩, by norm_num, by norm_num [Advised], Or.inr (Or.inr rfl)⟩

end EPV.C20
