/-
C20 — escape of HE products: documented restrictions enforced; rejections are ValueErrors.

Documented restrictions (parameter help strings and error messages of `ehep.py`):
  D > 0 ("Detonation velocity must be > 0"), rho_0 > 0, up ≥ 0, up < D/(γ+1) ("Piston velocity must be
  less than C-J particle velocity"), 0 < xtilde ≤ xmax, tmax > 0, and gamma = 3 ("adiabatic index,
  must be 3.0").

* `ehep_accepts_iff`  : the traced constructor returns fields exactly when all of them hold *except*
                        gamma = 3 (`EHEPL.Accepted`), for every (x, t) and every value of the region atom;
* `ehep_documented_accepted`: every documented-admissible parameter set is accepted;
* `ehep_rejects_loudly`: every rejection is a `ValueError`;
* `ehep_boundaries`   : the boundary values D = 0, rho_0 = 0, xtilde = 0, tmax = 0, up = D/(γ+1) are
                        rejected, up = 0 and xtilde = xmax are accepted, as documented;
* `ehep_init_accepts_iff`: the same acceptance predicate for the constructor traced on its own
                        (`EHEPInit`), so `_run` adds no further rejection;
* `ehep_no_nan_I … V` : inside regions I–V the formulas are free of zero denominators under the
                        region's own geometry (t > 0; t > t̃ in II and V; D t > x̃ in IV).
The missing check gamma = 3 is the finding in FindingEHEP.lean.
-/
import EPV.Lemmas.EHEP
import EPV.Gen.EHEPInit

import EPV.Lemmas.Bridge.DetonTactics

set_option linter.all false

open EPV EPV.Gen EPV.EHEPL

namespace EPV.C20

/-- the documented admissible parameter sets -/
def EhepDocumented (p : EHEP.P) : Prop := Accepted p ∧ p.gamma = 3

theorem ehep_accepts_iff (p : EHEP.P) (x t : ℝ) : EHEP.outcome p x t = .ok ↔ Accepted p :=
  outcome_ok_iff p x t

theorem ehep_documented_accepted (p : EHEP.P) (x t : ℝ) (h : EhepDocumented p) : EHEP.outcome p x t = .ok :=
  (outcome_ok_iff p x t).mpr h.1

theorem ehep_rejects_loudly (p : EHEP.P) (x t : ℝ) (h : EHEP.outcome p x t ≠ .ok) :
    EHEP.outcome p x t = .raise "ValueError" := outcome_raise p x t h

theorem ehep_boundaries (p : EHEP.P) (x t : ℝ) :
    (p.D = 0 → EHEP.outcome p x t ≠ .ok) ∧ (p.rho_0 = 0 → EHEP.outcome p x t ≠ .ok) ∧
    (p.xtilde = 0 → EHEP.outcome p x t ≠ .ok) ∧ (p.tmax = 0 → EHEP.outcome p x t ≠ .ok) ∧
    (p.up = p.D / (p.gamma + 1) → EHEP.outcome p x t ≠ .ok) := by
  simp only [ne_eq, outcome_ok_iff, Accepted]
  refine ⟨?_, ?_, ?_, ?_, ?_⟩ <;> intro h0 h <;> obtain ⟨h1, h2, h3, h4, h5, h6, h7⟩ := h <;> linarith

example : ∃ p : EHEP.P, Accepted p ∧ p.up = 0 ∧ p.xtilde = p.xmax := by
  refine ⟨⟨17/20, 3, 1, 8/5, 10, 0, 10, 10⟩, ?_, rfl, rfl⟩
  unfold Accepted; norm_num

theorem ehep_init_accepts_iff (p : EHEPInit.P) :
    EHEPInit.outcome p = .ok ↔
      (0 < p.D ∧ 0 < p.rho_0 ∧ 0 ≤ p.up ∧ p.up < p.D / (p.gamma + 1) ∧ 0 < p.xtilde ∧ p.xtilde ≤ p.xmax ∧ 0 < p.tmax) := by
  simp only [epv_tree]
  constructor
  · intro h
    split_ifs at h <;> first
      | epv_absurd
      | (simp only [epv_cond, not_le, not_lt] at *
         exact ⟨by assumption, by assumption, by assumption, by assumption, by assumption, by assumption,
           by assumption⟩)
  · rintro ⟨h0, h1, h2, h3, h4, h5, h6⟩
    have c0 : ¬ EHEPInit.c0 p := by simp only [epv_cond]; linarith
    have c1 : ¬ EHEPInit.c1 p := by simp only [epv_cond]; linarith
    have c2 : ¬ EHEPInit.c2 p := by simp only [epv_cond]; linarith
    have c3 : ¬ EHEPInit.c3 p := by simp only [epv_cond]; linarith
    have c4 : ¬ EHEPInit.c4 p := by simp only [epv_cond]; linarith
    have c5 : ¬ EHEPInit.c5 p := by simp only [epv_cond]; linarith
    have c6 : ¬ EHEPInit.c6 p := by simp only [epv_cond]; linarith
    simp only [if_neg c0, if_neg c1, if_neg c2, if_neg c3, if_neg c4, if_neg c5, if_neg c6]

/-- no zero denominators in the region formulas, under each region's own geometry -/
theorem ehep_no_nan (p : EHEP.P) (x t : ℝ) (ha : Accepted p) (hγ : 1 < p.gamma) :
    (0 < t → EHEP.L23.density p x t ≠ 0 → EHEP.L23.WellDefined p x t) ∧
    (p.xtilde / p.D < t → EHEP.L22.density p x t ≠ 0 → EHEP.L22.WellDefined p x t) ∧
    (EHEP.L19.WellDefined p x t) ∧
    (p.xtilde < p.D * t → EHEP.L18.density p x t ≠ 0 → EHEP.L18.WellDefined p x t) ∧
    (p.xtilde / p.D < t → EHEP.L17.WellDefined p x t) := by
  obtain ⟨h0, h1, h2, h3, h4, h5, h6⟩ := ha
  have hD : p.D ≠ 0 := h0.ne'
  have hg : p.gamma - 1 ≠ 0 := by linarith
  have hq : 0 < p.xtilde / p.D := by positivity
  have e2 : 0 < p.D - p.up := by
    have : p.D / (p.gamma + 1) ≤ p.D := div_le_self h0.le (by linarith)
    linarith
  -- every side condition of a leaf is a fact of the context, positive by `positivity`, or a product of two
  -- such — whatever order and writing the traced formula gives them (`epv_deton_wd_pool`)
  refine ⟨?_, ?_, ?_, ?_, ?_⟩
  · intro ht hρ
    have ht' := ht.ne'
    simp only [EHEP.L23.WellDefined, epv_leaf] at hρ ⊢
    epv_deton_wd_pool []
  · intro ht hρ
    have ht0 : (0 : ℝ) < t := by linarith
    have ht' := ht0.ne'
    have e1 : 0 < t - p.xtilde / p.D := by linarith
    have e1' := e1.ne'
    simp only [EHEP.L22.WellDefined, epv_leaf] at hρ ⊢
    epv_deton_wd_pool []
  · simp only [EHEP.L19.WellDefined, epv_leaf]
    epv_deton_wd_pool []
  · intro ht hρ
    have e3 : (0 : ℝ) < p.D * t - p.xtilde := by linarith
    have e3' := e3.ne'
    simp only [EHEP.L18.WellDefined, epv_leaf] at hρ ⊢
    epv_deton_wd_pool []
  · intro ht
    have e1 : 0 < t - p.xtilde / p.D := by linarith
    have e1' := e1.ne'
    simp only [EHEP.L17.WellDefined, epv_leaf]
    epv_deton_wd_pool []

/-- non-vacuity at the defaults -/
example : ∃ p : EHEP.P, EhepDocumented p := by
  refine ⟨⟨17/20, 3, 1, 8/5, 10, 1/20, 10, 1⟩, ?_, rfl⟩
  unfold Accepted; norm_num

end EPV.C20
