/-
C20 (burn-time share) — FINDINGS: places where "accepts ↔ Documented" is false on the
current tree, each proved as the negation at a concrete witness.

1. `CylindricalExpansion` (DSD) does not check the documented conditions
   r₁ > α₁/D_CJ₁ and r₂ > α₂/D_CJ₂ ("All radii are assumed to be positive and large enough to
   avoid the singularity at the origin").  Witness A: r_1 = 0.1 with the other defaults
   (α₁/D_CJ₁ = 0.1/0.5 = 0.2 > r₁): the constructor accepts, and at the point (3, 0) the
   selected leaf takes the logarithm of (r₂ - 0.2)/(r₁ - 0.2) = -18, i.e. the formula is not
   well defined (NumPy returns NaN).  Witness B: alpha_2 = 3 with the other defaults
   (α₂/D_CJ₂ = 3 > r₂ = 2): accepted, and at (4, 0) the argument of the logarithm is -1.
   Oracle sites `CylindricalExpansion:r1-alpha1`, `CylindricalExpansion:r2-alpha2`.

2. `Kenamond2` documents D₁ > D₂ (docstring, help string "D2 < D1", error message
   "D1 must be > D2") but rejects only D₁ < D₂: D₁ = D₂ is accepted.  Witness: D1 = D2 = 1 with
   the other defaults.  (Harmless for the solution — with D₁ = D₂ the two central waves coincide —
   but a boundary slip of the check.)  Oracle site `Kenamond2:D1=D2`.
-/
import EPV.Gen.K2Init
import EPV.Gen.DSDCylInit
import EPV.Gen.DSDCyl
import EPV.Spec.Burn
import EPV.Tactics

set_option linter.all false

open EPV EPV.Gen EPV.Spec.Burn

namespace EPV.C20

/-- witness A: r_1 = 0.1, everything else default -/
noncomputable def dsdWitnessA : DSDCylInit.P := ⟨1/2, 1, 1/10, 1/10, 2, 1/10, 2⟩
noncomputable def dsdWitnessArun : DSDCyl.P := ⟨1/2, 1, 1/10, 1/10, 1/10, 2, 0⟩
/-- witness B: alpha_2 = 3, everything else default -/
noncomputable def dsdWitnessB : DSDCylInit.P := ⟨1/2, 1, 1/10, 3, 2, 1, 2⟩
noncomputable def dsdWitnessBrun : DSDCyl.P := ⟨1/2, 1, 1/10, 3, 1, 2, 0⟩

theorem dsd_accepts_undocumented_r1 :
    DSDCylInit.outcome dsdWitnessA = .ok ∧
      ¬ DsdDocumented dsdWitnessA.geometry dsdWitnessA.r_1 dsdWitnessA.r_2 dsdWitnessA.D_CJ_1 dsdWitnessA.D_CJ_2
        dsdWitnessA.alpha_1 dsdWitnessA.alpha_2 := by
  constructor
  · simp only [epv_tree, epv_cond, dsdWitnessA]; norm_num
  · unfold DsdDocumented; simp only [dsdWitnessA]; norm_num

theorem dsd_accepts_undocumented_r2 :
    DSDCylInit.outcome dsdWitnessB = .ok ∧
      ¬ DsdDocumented dsdWitnessB.geometry dsdWitnessB.r_1 dsdWitnessB.r_2 dsdWitnessB.D_CJ_1 dsdWitnessB.D_CJ_2
        dsdWitnessB.alpha_1 dsdWitnessB.alpha_2 := by
  constructor
  · simp only [epv_tree, epv_cond, dsdWitnessB]; norm_num
  · unfold DsdDocumented; simp only [dsdWitnessB]; norm_num

private theorem sqrt9 : Real.sqrt (3 * 3 + 0 * 0) = 3 := by
  rw [show (3 : ℝ) * 3 + 0 * 0 = 3 ^ 2 by norm_num, Real.sqrt_sq (by norm_num)]
private theorem sqrt16 : Real.sqrt (4 * 4 + 0 * 0) = 4 := by
  rw [show (4 : ℝ) * 4 + 0 * 0 = 4 ^ 2 by norm_num, Real.sqrt_sq (by norm_num)]

/-- witness A at the point (3, 0): the request is served from leaf 9, whose formula takes the
logarithm of a negative number — a valid-looking request that yields NaN -/
theorem dsd_not_welldefined_r1 :
    DSDCyl.outcome dsdWitnessArun 3 0 = .ok ∧ DSDCyl.leaf dsdWitnessArun 3 0 = 9 ∧
      ¬ DSDCyl.L9.WellDefined dsdWitnessArun 3 0 := by
  refine ⟨?_, ?_, ?_⟩
  · simp only [epv_tree, epv_cond, dsdWitnessArun, sqrt9]; norm_num
  · simp only [epv_tree, epv_cond, dsdWitnessArun, sqrt9]; norm_num
  · unfold DSDCyl.L9.WellDefined; simp only [dsdWitnessArun, sqrt9]; norm_num

theorem dsd_not_welldefined_r2 :
    DSDCyl.outcome dsdWitnessBrun 4 0 = .ok ∧ DSDCyl.leaf dsdWitnessBrun 4 0 = 9 ∧
      ¬ DSDCyl.L9.WellDefined dsdWitnessBrun 4 0 := by
  refine ⟨?_, ?_, ?_⟩
  · simp only [epv_tree, epv_cond, dsdWitnessBrun, sqrt16]; norm_num
  · simp only [epv_tree, epv_cond, dsdWitnessBrun, sqrt16]; norm_num
  · unfold DSDCyl.L9.WellDefined; simp only [dsdWitnessBrun, sqrt16]; norm_num

/-- Kenamond 2 with D1 = D2 = 1 and the other defaults -/
noncomputable def k2Witness : K2Init.P := ⟨1, 1, 3, 10, 5, -5, -10, 2, 2, 1, 0, 1, 2⟩

theorem k2_accepts_undocumented_D1_eq_D2 :
    K2Init.outcome k2Witness = .ok ∧
      ¬ K2Documented k2Witness.geometry k2Witness.R k2Witness.D1 k2Witness.D2 k2Witness.a1 k2Witness.a2
        k2Witness.a4 k2Witness.a5 k2Witness.td1 k2Witness.td2 k2Witness.td3 k2Witness.td4 k2Witness.td5 := by
  constructor
  · simp only [epv_tree, epv_cond, k2Witness]; norm_num [abs_of_pos, abs_of_neg]
  · unfold K2Documented; simp only [k2Witness]; norm_num

end EPV.C20
