/-
C20 (Blake share) — the constructor `Blake(**kwargs)` with exactly two elastic parameters (pairs (λ, G), (λ, E), (λ, ν), (λ, K), (λ, M)), every
parameter symbolic (models `BlakeInit<XY>`): the traced constructor **accepts ⇔ the input is documented-valid**

    BlakeInit<XY>.outcome p = .ok  ↔  DocumentedPair k₁ k₂ x y  ∧  DocumentedProblem geometry ρ₀ a P₀

(`DocumentedProblem`: geometry = 3, ref_density > 0, cavity_radius > 0, pressure_scale > 0 — the parameter help
strings and the four error messages), every rejection is a `ValueError`, and on acceptance the six attributes
are one positive-definite isotropic material reproducing the two supplied values (so the hypotheses of the
C15 field theorems hold for every constructed solver).  `blake_debug` is not a number and is left at its
default; the pressure_scale ≥ 0.1·bulk_mod branch only warns (both branches accept).
-/
import EPV.Gen.BlakeInitLG
import EPV.Gen.BlakeInitLE
import EPV.Gen.BlakeInitLNu
import EPV.Gen.BlakeInitLK
import EPV.Gen.BlakeInitLM
import EPV.Spec.Blake
import EPV.Lemmas.Blake
import EPV.Lemmas.BlakeModuli
import EPV.Lemmas.BlakeFields
import EPV.Lemmas.BlakeAccept
import EPV.Tactics

import EPV.Lemmas.Bridge.DetonTactics

set_option linter.all false

open EPV EPV.Gen EPV.Spec.Blake EPV.Blake

namespace EPV.C20

/-- pair (λ, G): an accepting path of the constructor is an accepting path of `set_elastic_params` on the two
supplied values, followed by the four problem-parameter checks; the six attributes are what it returned -/
theorem initLG_bridge (p : BlakeInitLG.P) (h : BlakeInitLG.outcome p = .ok) :
    BlakeModLG.outcome { lame_mod := p.lame_mod, shear_mod := p.shear_mod } = .ok ∧ DocumentedProblem p.geometry p.ref_density p.cavity_radius p.pressure_scale
    ∧ BlakeInitLG.lame_mod p = BlakeModLG.lame_mod { lame_mod := p.lame_mod, shear_mod := p.shear_mod }
    ∧ BlakeInitLG.shear_mod p = BlakeModLG.shear_mod { lame_mod := p.lame_mod, shear_mod := p.shear_mod }
    ∧ BlakeInitLG.youngs_mod p = BlakeModLG.youngs_mod { lame_mod := p.lame_mod, shear_mod := p.shear_mod }
    ∧ BlakeInitLG.poisson_ratio p = BlakeModLG.poisson_ratio { lame_mod := p.lame_mod, shear_mod := p.shear_mod }
    ∧ BlakeInitLG.bulk_mod p = BlakeModLG.bulk_mod { lame_mod := p.lame_mod, shear_mod := p.shear_mod }
    ∧ BlakeInitLG.long_mod p = BlakeModLG.long_mod { lame_mod := p.lame_mod, shear_mod := p.shear_mod } := by
  unfold BlakeInitLG.outcome at h
  unfold BlakeInitLG.lame_mod BlakeInitLG.shear_mod BlakeInitLG.youngs_mod BlakeInitLG.poisson_ratio BlakeInitLG.bulk_mod BlakeInitLG.long_mod
  epv_walk (
    simp only [epv_tree, epv_cond, DocumentedProblem] at *
    simp only [*, if_true, if_false, not_true_eq_false, not_false_eq_true, and_self, true_and]
    exact ⟨rfl, rfl, rfl, rfl, rfl, rfl⟩)

/-- pair (λ, G), constructor: on acceptance the six attributes are one positive-definite isotropic material that
reproduces the two supplied values (the hypotheses of the C15 field theorems hold for the constructed solver) -/
theorem initLG_ok (p : BlakeInitLG.P) (h : BlakeInitLG.outcome p = .ok) :
    IsoMaterial (BlakeInitLG.lame_mod p) (BlakeInitLG.shear_mod p) (BlakeInitLG.youngs_mod p) (BlakeInitLG.poisson_ratio p) (BlakeInitLG.bulk_mod p) (BlakeInitLG.long_mod p)
      ∧ BlakeInitLG.lame_mod p = p.lame_mod ∧ BlakeInitLG.shear_mod p = p.shear_mod := by
  obtain ⟨hm, -, e1, e2, e3, e4, e5, e6⟩ := initLG_bridge p h
  rw [e1, e2, e3, e4, e5, e6]
  exact EPV.Blake.modLG_ok _ hm

/-- pair (λ, G): the constructor **accepts ⇔ the input is documented-valid** -/
theorem initLG_accepts_iff (p : BlakeInitLG.P) :
    BlakeInitLG.outcome p = .ok ↔ (DocumentedPair .lame .shear p.lame_mod p.shear_mod) ∧ DocumentedProblem p.geometry p.ref_density p.cavity_radius p.pressure_scale := by
  constructor
  · intro h
    obtain ⟨hm, d, -⟩ := initLG_bridge p h
    exact ⟨(EPV.Blake.modLG_accepts_iff _).mp hm, d⟩
  · rintro ⟨⟨hx, hy, L, G, hG, hB, h1, h2⟩, hgeo, hrho, hrad, hprs⟩
    simp only [Kind.of, Kind.GivenOk] at hx hy h1 h2
    have hLG : 0 < L + G := by linarith
    have hc0 : ¬ BlakeInitLG.c0 p := by simp only [epv_cond]; linarith
    have hc1 : ¬ BlakeInitLG.c1 p := by simp only [epv_cond]; linarith
    have hc2 : BlakeInitLG.c2 p := by simp only [epv_cond]; linarith
    have hc3 : BlakeInitLG.c3 p := by simp only [epv_cond]; linarith
    have hc4 : BlakeInitLG.c4 p := by simp only [epv_cond]; first | exact hgeo | exact hrho | exact hrad | exact hprs
    have hc5 : BlakeInitLG.c5 p := by simp only [epv_cond]; first | exact hgeo | exact hrho | exact hrad | exact hprs
    have hc6 : BlakeInitLG.c6 p := by simp only [epv_cond]; first | exact hgeo | exact hrho | exact hrad | exact hprs
    have hc7 : BlakeInitLG.c7 p := by simp only [epv_cond]; first | exact hgeo | exact hrho | exact hrad | exact hprs
    simp only [epv_tree, hc0, hc1, hc2, hc3, hc4, hc5, hc6, hc7, if_true, if_false, ite_self]

/-- pair (λ, G): **the constructed solver is in the domain of the C15 field theorems** — the attributes `_run` reads
(a, ρ₀, P₀ as supplied, λ, G, ν, M as the constructor computed them) form an admissible problem
(`EPV.Blake.Admissible`: one positive-definite isotropic material, ρ₀, a, P₀ > 0) -/
theorem initLG_admissible (p : BlakeInitLG.P) (h : BlakeInitLG.outcome p = .ok) :
    EPV.Blake.Admissible
      { cavity_radius := p.cavity_radius, lame_mod := BlakeInitLG.lame_mod p, long_mod := BlakeInitLG.long_mod p,
        poisson_ratio := BlakeInitLG.poisson_ratio p, pressure_scale := p.pressure_scale, ref_density := p.ref_density,
        shear_mod := BlakeInitLG.shear_mod p } := by
  obtain ⟨m, -, -⟩ := initLG_ok p h
  obtain ⟨-, hρ, ha, hP⟩ := (initLG_bridge p h).2.1
  exact ⟨⟨_, _, m⟩, hρ, ha, hP⟩

/-- pair (λ, G): the constructor returns or raises `ValueError`, nothing else -/
theorem initLG_total (p : BlakeInitLG.P) : BlakeInitLG.outcome p = .ok ∨ BlakeInitLG.outcome p = .raise "ValueError" := by
  unfold BlakeInitLG.outcome
  epv_ok_or_valueError

theorem initLG_raise (p : BlakeInitLG.P) (h : BlakeInitLG.outcome p ≠ .ok) : BlakeInitLG.outcome p = .raise "ValueError" :=
  (initLG_total p).resolve_left h

/-- pair (λ, E): an accepting path of the constructor is an accepting path of `set_elastic_params` on the two
supplied values, followed by the four problem-parameter checks; the six attributes are what it returned -/
theorem initLE_bridge (p : BlakeInitLE.P) (h : BlakeInitLE.outcome p = .ok) :
    BlakeModLE.outcome { lame_mod := p.lame_mod, youngs_mod := p.youngs_mod } = .ok ∧ DocumentedProblem p.geometry p.ref_density p.cavity_radius p.pressure_scale
    ∧ BlakeInitLE.lame_mod p = BlakeModLE.lame_mod { lame_mod := p.lame_mod, youngs_mod := p.youngs_mod }
    ∧ BlakeInitLE.shear_mod p = BlakeModLE.shear_mod { lame_mod := p.lame_mod, youngs_mod := p.youngs_mod }
    ∧ BlakeInitLE.youngs_mod p = BlakeModLE.youngs_mod { lame_mod := p.lame_mod, youngs_mod := p.youngs_mod }
    ∧ BlakeInitLE.poisson_ratio p = BlakeModLE.poisson_ratio { lame_mod := p.lame_mod, youngs_mod := p.youngs_mod }
    ∧ BlakeInitLE.bulk_mod p = BlakeModLE.bulk_mod { lame_mod := p.lame_mod, youngs_mod := p.youngs_mod }
    ∧ BlakeInitLE.long_mod p = BlakeModLE.long_mod { lame_mod := p.lame_mod, youngs_mod := p.youngs_mod } := by
  unfold BlakeInitLE.outcome at h
  unfold BlakeInitLE.lame_mod BlakeInitLE.shear_mod BlakeInitLE.youngs_mod BlakeInitLE.poisson_ratio BlakeInitLE.bulk_mod BlakeInitLE.long_mod
  epv_walk (
    simp only [epv_tree, epv_cond, DocumentedProblem] at *
    simp only [*, if_true, if_false, not_true_eq_false, not_false_eq_true, and_self, true_and]
    exact ⟨rfl, rfl, rfl, rfl, rfl, rfl⟩)

/-- pair (λ, E), constructor: on acceptance the six attributes are one positive-definite isotropic material that
reproduces the two supplied values (the hypotheses of the C15 field theorems hold for the constructed solver) -/
theorem initLE_ok (p : BlakeInitLE.P) (h : BlakeInitLE.outcome p = .ok) :
    IsoMaterial (BlakeInitLE.lame_mod p) (BlakeInitLE.shear_mod p) (BlakeInitLE.youngs_mod p) (BlakeInitLE.poisson_ratio p) (BlakeInitLE.bulk_mod p) (BlakeInitLE.long_mod p)
      ∧ BlakeInitLE.lame_mod p = p.lame_mod ∧ BlakeInitLE.youngs_mod p = p.youngs_mod := by
  obtain ⟨hm, -, e1, e2, e3, e4, e5, e6⟩ := initLE_bridge p h
  rw [e1, e2, e3, e4, e5, e6]
  exact EPV.Blake.modLE_ok _ hm

/-- pair (λ, E): the constructor **accepts ⇔ the input is documented-valid** -/
theorem initLE_accepts_iff (p : BlakeInitLE.P) :
    BlakeInitLE.outcome p = .ok ↔ (DocumentedPair .lame .youngs p.lame_mod p.youngs_mod) ∧ DocumentedProblem p.geometry p.ref_density p.cavity_radius p.pressure_scale := by
  constructor
  · intro h
    obtain ⟨hm, d, -⟩ := initLE_bridge p h
    exact ⟨(EPV.Blake.modLE_accepts_iff _).mp hm, d⟩
  · rintro ⟨⟨hx, hy, L, G, hG, hB, h1, h2⟩, hgeo, hrho, hrad, hprs⟩
    simp only [Kind.of, Kind.GivenOk] at hx hy h1 h2
    have hLG : 0 < L + G := by linarith
    have hE : p.youngs_mod * (L + G) = G * (3 * L + 2 * G) := by rw [← h2]; field_simp
    have e : (4 * G + 3 * L - p.youngs_mod) * (L + G) = 2 * (L + G) ^ 2 + L ^ 2 := by linear_combination (-1 : ℝ) * hE
    have hpos : 0 < 4 * G + 3 * L - p.youngs_mod := (mul_pos_iff_of_pos_right hLG).mp (e ▸ by positivity)
    have hR : (p.youngs_mod ^ (2 : ℕ) + 9 * p.lame_mod ^ (2 : ℕ) + 2 * p.youngs_mod * p.lame_mod) ^ ((1 : ℝ) / 2)
        = 4 * G + 3 * L - p.youngs_mod :=
      rpow_half_eq hpos.le (by rw [← h1]; linear_combination (-8 : ℝ) * hE)
    have hc0 : ¬ BlakeInitLE.c0 p := by
      simp only [epv_cond]
      linarith
    have hc1 : ¬ BlakeInitLE.c1 p := by
      simp only [epv_cond]
      linarith
    have hc2 : BlakeInitLE.c2 p := by
      simp only [epv_cond]
      epv_deton_rpow_half_to (4 * G + 3 * L - p.youngs_mod) (rw [← h1]; linear_combination (-8 : ℝ) * hE)
      linarith
    have hc3 : BlakeInitLE.c3 p := by
      simp only [epv_cond]
      epv_deton_rpow_half_to (4 * G + 3 * L - p.youngs_mod) (rw [← h1]; linear_combination (-8 : ℝ) * hE)
      linarith
    have hc4 : BlakeInitLE.c4 p := by simp only [epv_cond]; first | exact hgeo | exact hrho | exact hrad | exact hprs
    have hc5 : BlakeInitLE.c5 p := by simp only [epv_cond]; first | exact hgeo | exact hrho | exact hrad | exact hprs
    have hc6 : BlakeInitLE.c6 p := by simp only [epv_cond]; first | exact hgeo | exact hrho | exact hrad | exact hprs
    have hc7 : BlakeInitLE.c7 p := by simp only [epv_cond]; first | exact hgeo | exact hrho | exact hrad | exact hprs
    simp only [epv_tree, hc0, hc1, hc2, hc3, hc4, hc5, hc6, hc7, if_true, if_false, ite_self]

/-- pair (λ, E): **the constructed solver is in the domain of the C15 field theorems** — the attributes `_run` reads
(a, ρ₀, P₀ as supplied, λ, G, ν, M as the constructor computed them) form an admissible problem
(`EPV.Blake.Admissible`: one positive-definite isotropic material, ρ₀, a, P₀ > 0) -/
theorem initLE_admissible (p : BlakeInitLE.P) (h : BlakeInitLE.outcome p = .ok) :
    EPV.Blake.Admissible
      { cavity_radius := p.cavity_radius, lame_mod := BlakeInitLE.lame_mod p, long_mod := BlakeInitLE.long_mod p,
        poisson_ratio := BlakeInitLE.poisson_ratio p, pressure_scale := p.pressure_scale, ref_density := p.ref_density,
        shear_mod := BlakeInitLE.shear_mod p } := by
  obtain ⟨m, -, -⟩ := initLE_ok p h
  obtain ⟨-, hρ, ha, hP⟩ := (initLE_bridge p h).2.1
  exact ⟨⟨_, _, m⟩, hρ, ha, hP⟩

/-- pair (λ, E): the constructor returns or raises `ValueError`, nothing else -/
theorem initLE_total (p : BlakeInitLE.P) : BlakeInitLE.outcome p = .ok ∨ BlakeInitLE.outcome p = .raise "ValueError" := by
  unfold BlakeInitLE.outcome
  epv_ok_or_valueError

theorem initLE_raise (p : BlakeInitLE.P) (h : BlakeInitLE.outcome p ≠ .ok) : BlakeInitLE.outcome p = .raise "ValueError" :=
  (initLE_total p).resolve_left h

/-- pair (λ, ν): an accepting path of the constructor is an accepting path of `set_elastic_params` on the two
supplied values, followed by the four problem-parameter checks; the six attributes are what it returned -/
theorem initLNu_bridge (p : BlakeInitLNu.P) (h : BlakeInitLNu.outcome p = .ok) :
    BlakeModLNu.outcome { lame_mod := p.lame_mod, poisson_ratio := p.poisson_ratio } = .ok ∧ DocumentedProblem p.geometry p.ref_density p.cavity_radius p.pressure_scale
    ∧ BlakeInitLNu.lame_mod p = BlakeModLNu.lame_mod { lame_mod := p.lame_mod, poisson_ratio := p.poisson_ratio }
    ∧ BlakeInitLNu.shear_mod p = BlakeModLNu.shear_mod { lame_mod := p.lame_mod, poisson_ratio := p.poisson_ratio }
    ∧ BlakeInitLNu.youngs_mod p = BlakeModLNu.youngs_mod { lame_mod := p.lame_mod, poisson_ratio := p.poisson_ratio }
    ∧ BlakeInitLNu.poisson_ratio p = BlakeModLNu.poisson_ratio { lame_mod := p.lame_mod, poisson_ratio := p.poisson_ratio }
    ∧ BlakeInitLNu.bulk_mod p = BlakeModLNu.bulk_mod { lame_mod := p.lame_mod, poisson_ratio := p.poisson_ratio }
    ∧ BlakeInitLNu.long_mod p = BlakeModLNu.long_mod { lame_mod := p.lame_mod, poisson_ratio := p.poisson_ratio } := by
  unfold BlakeInitLNu.outcome at h
  unfold BlakeInitLNu.lame_mod BlakeInitLNu.shear_mod BlakeInitLNu.youngs_mod BlakeInitLNu.poisson_ratio BlakeInitLNu.bulk_mod BlakeInitLNu.long_mod
  epv_walk (
    simp only [epv_tree, epv_cond, DocumentedProblem] at *
    simp only [*, if_true, if_false, not_true_eq_false, not_false_eq_true, and_self, true_and]
    exact ⟨rfl, rfl, rfl, rfl, rfl, rfl⟩)

/-- pair (λ, ν), constructor: on acceptance the six attributes are one positive-definite isotropic material that
reproduces the two supplied values (the hypotheses of the C15 field theorems hold for the constructed solver) -/
theorem initLNu_ok (p : BlakeInitLNu.P) (h : BlakeInitLNu.outcome p = .ok) :
    IsoMaterial (BlakeInitLNu.lame_mod p) (BlakeInitLNu.shear_mod p) (BlakeInitLNu.youngs_mod p) (BlakeInitLNu.poisson_ratio p) (BlakeInitLNu.bulk_mod p) (BlakeInitLNu.long_mod p)
      ∧ BlakeInitLNu.lame_mod p = p.lame_mod ∧ BlakeInitLNu.poisson_ratio p = p.poisson_ratio := by
  obtain ⟨hm, -, e1, e2, e3, e4, e5, e6⟩ := initLNu_bridge p h
  rw [e1, e2, e3, e4, e5, e6]
  exact EPV.Blake.modLNu_ok _ hm

/-- pair (λ, ν): the constructor **accepts ⇔ the input is documented-valid** -/
theorem initLNu_accepts_iff (p : BlakeInitLNu.P) :
    BlakeInitLNu.outcome p = .ok ↔ (DocumentedPair .lame .poisson p.lame_mod p.poisson_ratio) ∧ DocumentedProblem p.geometry p.ref_density p.cavity_radius p.pressure_scale := by
  constructor
  · intro h
    obtain ⟨hm, d, -⟩ := initLNu_bridge p h
    exact ⟨(EPV.Blake.modLNu_accepts_iff _).mp hm, d⟩
  · rintro ⟨⟨hx, hy, L, G, hG, hB, h1, h2⟩, hgeo, hrho, hrad, hprs⟩
    simp only [Kind.of, Kind.GivenOk] at hx hy h1 h2
    have hLG : 0 < L + G := by linarith
    have hν : p.poisson_ratio * (2 * (L + G)) = L := by rw [← h2]; field_simp
    have hνpos : 0 < p.poisson_ratio := by rw [← h2]; have : 0 < L := by linarith
                                           positivity
    have e : p.lame_mod * (1 - 2 * p.poisson_ratio) / (2 * p.poisson_ratio) = G := by
      rw [div_eq_iff (by positivity), ← h1]; linear_combination (-1 : ℝ) * hν
    have hc0 : ¬ BlakeInitLNu.c0 p := by
      simp only [epv_cond]
      linarith
    have hc1 : BlakeInitLNu.c1 p := by
      simp only [epv_cond]
      exact hy.1
    have hc2 : BlakeInitLNu.c2 p := by
      simp only [epv_cond]
      exact hy.2
    have hc3 : BlakeInitLNu.c3 p := by
      simp only [epv_cond]
      rw [e]; exact hG
    have hc4 : BlakeInitLNu.c4 p := by
      simp only [epv_cond]
      rw [e]; linarith
    have hc5 : BlakeInitLNu.c5 p := by simp only [epv_cond]; first | exact hgeo | exact hrho | exact hrad | exact hprs
    have hc6 : BlakeInitLNu.c6 p := by simp only [epv_cond]; first | exact hgeo | exact hrho | exact hrad | exact hprs
    have hc7 : BlakeInitLNu.c7 p := by simp only [epv_cond]; first | exact hgeo | exact hrho | exact hrad | exact hprs
    have hc8 : BlakeInitLNu.c8 p := by simp only [epv_cond]; first | exact hgeo | exact hrho | exact hrad | exact hprs
    simp only [epv_tree, hc0, hc1, hc2, hc3, hc4, hc5, hc6, hc7, hc8, if_true, if_false, ite_self]

/-- pair (λ, ν): **the constructed solver is in the domain of the C15 field theorems** — the attributes `_run` reads
(a, ρ₀, P₀ as supplied, λ, G, ν, M as the constructor computed them) form an admissible problem
(`EPV.Blake.Admissible`: one positive-definite isotropic material, ρ₀, a, P₀ > 0) -/
theorem initLNu_admissible (p : BlakeInitLNu.P) (h : BlakeInitLNu.outcome p = .ok) :
    EPV.Blake.Admissible
      { cavity_radius := p.cavity_radius, lame_mod := BlakeInitLNu.lame_mod p, long_mod := BlakeInitLNu.long_mod p,
        poisson_ratio := BlakeInitLNu.poisson_ratio p, pressure_scale := p.pressure_scale, ref_density := p.ref_density,
        shear_mod := BlakeInitLNu.shear_mod p } := by
  obtain ⟨m, -, -⟩ := initLNu_ok p h
  obtain ⟨-, hρ, ha, hP⟩ := (initLNu_bridge p h).2.1
  exact ⟨⟨_, _, m⟩, hρ, ha, hP⟩

/-- pair (λ, ν): the constructor returns or raises `ValueError`, nothing else (in exact arithmetic; at ν = 0 Python divides by zero first:
see `EPV.C15.finding_modLNu_division_by_zero`) -/
theorem initLNu_total (p : BlakeInitLNu.P) : BlakeInitLNu.outcome p = .ok ∨ BlakeInitLNu.outcome p = .raise "ValueError" := by
  unfold BlakeInitLNu.outcome
  epv_ok_or_valueError

theorem initLNu_raise (p : BlakeInitLNu.P) (hν : p.poisson_ratio ≠ 0) (h : BlakeInitLNu.outcome p ≠ .ok) : BlakeInitLNu.outcome p = .raise "ValueError" :=
  (initLNu_total p).resolve_left h

/-- pair (λ, K): an accepting path of the constructor is an accepting path of `set_elastic_params` on the two
supplied values, followed by the four problem-parameter checks; the six attributes are what it returned -/
theorem initLK_bridge (p : BlakeInitLK.P) (h : BlakeInitLK.outcome p = .ok) :
    BlakeModLK.outcome { lame_mod := p.lame_mod, bulk_mod := p.bulk_mod } = .ok ∧ DocumentedProblem p.geometry p.ref_density p.cavity_radius p.pressure_scale
    ∧ BlakeInitLK.lame_mod p = BlakeModLK.lame_mod { lame_mod := p.lame_mod, bulk_mod := p.bulk_mod }
    ∧ BlakeInitLK.shear_mod p = BlakeModLK.shear_mod { lame_mod := p.lame_mod, bulk_mod := p.bulk_mod }
    ∧ BlakeInitLK.youngs_mod p = BlakeModLK.youngs_mod { lame_mod := p.lame_mod, bulk_mod := p.bulk_mod }
    ∧ BlakeInitLK.poisson_ratio p = BlakeModLK.poisson_ratio { lame_mod := p.lame_mod, bulk_mod := p.bulk_mod }
    ∧ BlakeInitLK.bulk_mod p = BlakeModLK.bulk_mod { lame_mod := p.lame_mod, bulk_mod := p.bulk_mod }
    ∧ BlakeInitLK.long_mod p = BlakeModLK.long_mod { lame_mod := p.lame_mod, bulk_mod := p.bulk_mod } := by
  unfold BlakeInitLK.outcome at h
  unfold BlakeInitLK.lame_mod BlakeInitLK.shear_mod BlakeInitLK.youngs_mod BlakeInitLK.poisson_ratio BlakeInitLK.bulk_mod BlakeInitLK.long_mod
  epv_walk (
    simp only [epv_tree, epv_cond, DocumentedProblem] at *
    simp only [*, if_true, if_false, not_true_eq_false, not_false_eq_true, and_self, true_and]
    exact ⟨rfl, rfl, rfl, rfl, rfl, rfl⟩)

/-- pair (λ, K), constructor: on acceptance the six attributes are one positive-definite isotropic material that
reproduces the two supplied values (the hypotheses of the C15 field theorems hold for the constructed solver) -/
theorem initLK_ok (p : BlakeInitLK.P) (h : BlakeInitLK.outcome p = .ok) :
    IsoMaterial (BlakeInitLK.lame_mod p) (BlakeInitLK.shear_mod p) (BlakeInitLK.youngs_mod p) (BlakeInitLK.poisson_ratio p) (BlakeInitLK.bulk_mod p) (BlakeInitLK.long_mod p)
      ∧ BlakeInitLK.lame_mod p = p.lame_mod ∧ BlakeInitLK.bulk_mod p = p.bulk_mod := by
  obtain ⟨hm, -, e1, e2, e3, e4, e5, e6⟩ := initLK_bridge p h
  rw [e1, e2, e3, e4, e5, e6]
  exact EPV.Blake.modLK_ok _ hm

/-- pair (λ, K): the constructor **accepts ⇔ the input is documented-valid** -/
theorem initLK_accepts_iff (p : BlakeInitLK.P) :
    BlakeInitLK.outcome p = .ok ↔ (DocumentedPair .lame .bulk p.lame_mod p.bulk_mod) ∧ DocumentedProblem p.geometry p.ref_density p.cavity_radius p.pressure_scale := by
  constructor
  · intro h
    obtain ⟨hm, d, -⟩ := initLK_bridge p h
    exact ⟨(EPV.Blake.modLK_accepts_iff _).mp hm, d⟩
  · rintro ⟨⟨hx, hy, L, G, hG, hB, h1, h2⟩, hgeo, hrho, hrad, hprs⟩
    simp only [Kind.of, Kind.GivenOk] at hx hy h1 h2
    have hLG : 0 < L + G := by linarith
    have hc0 : ¬ BlakeInitLK.c0 p := by
      simp only [epv_cond]
      linarith
    have hc1 : ¬ BlakeInitLK.c1 p := by
      simp only [epv_cond]
      linarith
    have hc2 : ¬ BlakeInitLK.c2 p := by
      simp only [epv_cond]
      rw [← h1, ← h2, abs_of_neg (by linarith), abs_of_pos (by linarith)]
      linarith
    have hc4 : BlakeInitLK.c4 p := by
      simp only [epv_cond]
      linarith
    have hc5 : BlakeInitLK.c5 p := by
      simp only [epv_cond]
      linarith
    have hc6 : BlakeInitLK.c6 p := by simp only [epv_cond]; first | exact hgeo | exact hrho | exact hrad | exact hprs
    have hc7 : BlakeInitLK.c7 p := by simp only [epv_cond]; first | exact hgeo | exact hrho | exact hrad | exact hprs
    have hc8 : BlakeInitLK.c8 p := by simp only [epv_cond]; first | exact hgeo | exact hrho | exact hrad | exact hprs
    have hc9 : BlakeInitLK.c9 p := by simp only [epv_cond]; first | exact hgeo | exact hrho | exact hrad | exact hprs
    simp only [epv_tree, hc0, hc1, hc2, hc4, hc5, hc6, hc7, hc8, hc9, if_true, if_false, ite_self]

/-- pair (λ, K): **the constructed solver is in the domain of the C15 field theorems** — the attributes `_run` reads
(a, ρ₀, P₀ as supplied, λ, G, ν, M as the constructor computed them) form an admissible problem
(`EPV.Blake.Admissible`: one positive-definite isotropic material, ρ₀, a, P₀ > 0) -/
theorem initLK_admissible (p : BlakeInitLK.P) (h : BlakeInitLK.outcome p = .ok) :
    EPV.Blake.Admissible
      { cavity_radius := p.cavity_radius, lame_mod := BlakeInitLK.lame_mod p, long_mod := BlakeInitLK.long_mod p,
        poisson_ratio := BlakeInitLK.poisson_ratio p, pressure_scale := p.pressure_scale, ref_density := p.ref_density,
        shear_mod := BlakeInitLK.shear_mod p } := by
  obtain ⟨m, -, -⟩ := initLK_ok p h
  obtain ⟨-, hρ, ha, hP⟩ := (initLK_bridge p h).2.1
  exact ⟨⟨_, _, m⟩, hρ, ha, hP⟩

/-- pair (λ, K): the constructor returns or raises `ValueError`, nothing else -/
theorem initLK_total (p : BlakeInitLK.P) : BlakeInitLK.outcome p = .ok ∨ BlakeInitLK.outcome p = .raise "ValueError" := by
  unfold BlakeInitLK.outcome
  epv_ok_or_valueError

theorem initLK_raise (p : BlakeInitLK.P) (h : BlakeInitLK.outcome p ≠ .ok) : BlakeInitLK.outcome p = .raise "ValueError" :=
  (initLK_total p).resolve_left h

/-- pair (λ, M): an accepting path of the constructor is an accepting path of `set_elastic_params` on the two
supplied values, followed by the four problem-parameter checks; the six attributes are what it returned -/
theorem initLM_bridge (p : BlakeInitLM.P) (h : BlakeInitLM.outcome p = .ok) :
    BlakeModLM.outcome { lame_mod := p.lame_mod, long_mod := p.long_mod } = .ok ∧ DocumentedProblem p.geometry p.ref_density p.cavity_radius p.pressure_scale
    ∧ BlakeInitLM.lame_mod p = BlakeModLM.lame_mod { lame_mod := p.lame_mod, long_mod := p.long_mod }
    ∧ BlakeInitLM.shear_mod p = BlakeModLM.shear_mod { lame_mod := p.lame_mod, long_mod := p.long_mod }
    ∧ BlakeInitLM.youngs_mod p = BlakeModLM.youngs_mod { lame_mod := p.lame_mod, long_mod := p.long_mod }
    ∧ BlakeInitLM.poisson_ratio p = BlakeModLM.poisson_ratio { lame_mod := p.lame_mod, long_mod := p.long_mod }
    ∧ BlakeInitLM.bulk_mod p = BlakeModLM.bulk_mod { lame_mod := p.lame_mod, long_mod := p.long_mod }
    ∧ BlakeInitLM.long_mod p = BlakeModLM.long_mod { lame_mod := p.lame_mod, long_mod := p.long_mod } := by
  unfold BlakeInitLM.outcome at h
  unfold BlakeInitLM.lame_mod BlakeInitLM.shear_mod BlakeInitLM.youngs_mod BlakeInitLM.poisson_ratio BlakeInitLM.bulk_mod BlakeInitLM.long_mod
  epv_walk (
    simp only [epv_tree, epv_cond, DocumentedProblem] at *
    simp only [*, if_true, if_false, not_true_eq_false, not_false_eq_true, and_self, true_and]
    exact ⟨rfl, rfl, rfl, rfl, rfl, rfl⟩)

/-- pair (λ, M), constructor: on acceptance the six attributes are one positive-definite isotropic material that
reproduces the two supplied values (the hypotheses of the C15 field theorems hold for the constructed solver) -/
theorem initLM_ok (p : BlakeInitLM.P) (h : BlakeInitLM.outcome p = .ok) :
    IsoMaterial (BlakeInitLM.lame_mod p) (BlakeInitLM.shear_mod p) (BlakeInitLM.youngs_mod p) (BlakeInitLM.poisson_ratio p) (BlakeInitLM.bulk_mod p) (BlakeInitLM.long_mod p)
      ∧ BlakeInitLM.lame_mod p = p.lame_mod ∧ BlakeInitLM.long_mod p = p.long_mod := by
  obtain ⟨hm, -, e1, e2, e3, e4, e5, e6⟩ := initLM_bridge p h
  rw [e1, e2, e3, e4, e5, e6]
  exact EPV.Blake.modLM_ok _ hm

/-- pair (λ, M): the constructor **accepts ⇔ the input is documented-valid** -/
theorem initLM_accepts_iff (p : BlakeInitLM.P) :
    BlakeInitLM.outcome p = .ok ↔ (DocumentedPair .lame .long p.lame_mod p.long_mod) ∧ DocumentedProblem p.geometry p.ref_density p.cavity_radius p.pressure_scale := by
  constructor
  · intro h
    obtain ⟨hm, d, -⟩ := initLM_bridge p h
    exact ⟨(EPV.Blake.modLM_accepts_iff _).mp hm, d⟩
  · rintro ⟨⟨hx, hy, L, G, hG, hB, h1, h2⟩, hgeo, hrho, hrad, hprs⟩
    simp only [Kind.of, Kind.GivenOk] at hx hy h1 h2
    have hLG : 0 < L + G := by linarith
    have hc0 : ¬ BlakeInitLM.c0 p := by
      simp only [epv_cond]
      linarith
    have hc1 : ¬ BlakeInitLM.c1 p := by
      simp only [epv_cond]
      linarith
    have hc2 : BlakeInitLM.c2 p := by
      simp only [epv_cond]
      linarith
    have hc3 : BlakeInitLM.c3 p := by
      simp only [epv_cond]
      linarith
    have hc4 : BlakeInitLM.c4 p := by simp only [epv_cond]; first | exact hgeo | exact hrho | exact hrad | exact hprs
    have hc5 : BlakeInitLM.c5 p := by simp only [epv_cond]; first | exact hgeo | exact hrho | exact hrad | exact hprs
    have hc6 : BlakeInitLM.c6 p := by simp only [epv_cond]; first | exact hgeo | exact hrho | exact hrad | exact hprs
    have hc7 : BlakeInitLM.c7 p := by simp only [epv_cond]; first | exact hgeo | exact hrho | exact hrad | exact hprs
    simp only [epv_tree, hc0, hc1, hc2, hc3, hc4, hc5, hc6, hc7, if_true, if_false, ite_self]

/-- pair (λ, M): **the constructed solver is in the domain of the C15 field theorems** — the attributes `_run` reads
(a, ρ₀, P₀ as supplied, λ, G, ν, M as the constructor computed them) form an admissible problem
(`EPV.Blake.Admissible`: one positive-definite isotropic material, ρ₀, a, P₀ > 0) -/
theorem initLM_admissible (p : BlakeInitLM.P) (h : BlakeInitLM.outcome p = .ok) :
    EPV.Blake.Admissible
      { cavity_radius := p.cavity_radius, lame_mod := BlakeInitLM.lame_mod p, long_mod := BlakeInitLM.long_mod p,
        poisson_ratio := BlakeInitLM.poisson_ratio p, pressure_scale := p.pressure_scale, ref_density := p.ref_density,
        shear_mod := BlakeInitLM.shear_mod p } := by
  obtain ⟨m, -, -⟩ := initLM_ok p h
  obtain ⟨-, hρ, ha, hP⟩ := (initLM_bridge p h).2.1
  exact ⟨⟨_, _, m⟩, hρ, ha, hP⟩

/-- pair (λ, M): the constructor returns or raises `ValueError`, nothing else -/
theorem initLM_total (p : BlakeInitLM.P) : BlakeInitLM.outcome p = .ok ∨ BlakeInitLM.outcome p = .raise "ValueError" := by
  unfold BlakeInitLM.outcome
  epv_ok_or_valueError

theorem initLM_raise (p : BlakeInitLM.P) (h : BlakeInitLM.outcome p ≠ .ok) : BlakeInitLM.outcome p = .raise "ValueError" :=
  (initLM_total p).resolve_left h

/-- non-vacuity: the default problem, specified through the pair (λ, G), is accepted -/
example : BlakeInitLG.outcome { lame_mod := 25000000000, shear_mod := 25000000000, geometry := 3, ref_density := 3000, cavity_radius := 1 / 10, pressure_scale := 1000000 } = .ok := by
  simp only [epv_tree, epv_cond]; norm_num

end EPV.C20
