/-
C20 (Blake share) — the constructor `Blake(**kwargs)` with exactly two elastic parameters (pairs (λ, G), (λ, E), (λ, ν), (λ, K), (λ, M)), every
parameter symbolic (models `BlakeInit<XY>`): the traced constructor **accepts ⇔ the input is documented-valid**

    BlakeInit<XY>.outcome p = .ok  ↔  DocumentedPair k₁ k₂ x y  ∧  DocumentedProblem geometry ρ₀ a P₀

(`DocumentedProblem`: geometry = 3, ref_density > 0, cavity_radius > 0, pressure_scale > 0 — the parameter help
strings and the four error messages), every rejection is a `ValueError`, and on acceptance the six attributes
are one positive-definite isotropic material reproducing the two supplied values (so the hypotheses of the
C15 field theorems hold for every constructed solver).  `blake_debug` is not a number and is left at its
default; the pressure_scale ≥ 0.1·bulk_mod branch only warns (both branches accept).
-/
import EPV.Gen.BlakeInitLG
import EPV.Gen.BlakeInitLE
import EPV.Gen.BlakeInitLNu
import EPV.Gen.BlakeInitLK
import EPV.Gen.BlakeInitLM
import EPV.Spec.Blake
import EPV.Lemmas.Blake
import EPV.Lemmas.BlakeModuli
import EPV.Tactics

set_option linter.all false

open EPV EPV.Gen EPV.Spec.Blake EPV.Blake

namespace EPV.C20

/-- pair (λ, G), constructor: an accepting path ends with one positive-definite isotropic material that
reproduces the two supplied values; the problem parameters and the supplied values are the documented
admissible ones -/
theorem initLG_ok (p : BlakeInitLG.P) (h : BlakeInitLG.outcome p = .ok) :
    IsoMaterial (BlakeInitLG.lame_mod p) (BlakeInitLG.shear_mod p) (BlakeInitLG.youngs_mod p) (BlakeInitLG.poisson_ratio p) (BlakeInitLG.bulk_mod p) (BlakeInitLG.long_mod p)
      ∧ BlakeInitLG.lame_mod p = p.lame_mod ∧ BlakeInitLG.shear_mod p = p.shear_mod ∧ DocumentedProblem p.geometry p.ref_density p.cavity_radius p.pressure_scale
      ∧ Kind.GivenOk .lame p.lame_mod ∧ Kind.GivenOk .shear p.shear_mod := by
  epv_paths (
    simp only [epv_cond] at *
    simp only [epv_leaf, Kind.GivenOk]
    simp only [not_le, not_lt] at *
    have h1 : 0 < p.lame_mod + p.shear_mod := by linarith
    refine ⟨IsoMaterial.of_mul ?_ ?_ ?_ ?_ ?_ ?_, ?_, ?_, ⟨?_, ?_, ?_, ?_⟩, ?_, ?_⟩ <;> first | trivial | assumption | linarith | ring1 | (fsimp <;> ring1) | exact ⟨by linarith, by linarith⟩)

/-- pair (λ, G): the constructor **accepts ⇔ the input is documented-valid** -/
theorem initLG_accepts_iff (p : BlakeInitLG.P) :
    BlakeInitLG.outcome p = .ok ↔ (DocumentedPair .lame .shear p.lame_mod p.shear_mod) ∧ DocumentedProblem p.geometry p.ref_density p.cavity_radius p.pressure_scale := by
  constructor
  · intro h
    obtain ⟨m, e1, e2, d, g1, g2⟩ := initLG_ok p h
    refine ⟨⟨g1, g2, _, _, m.shear_pos, m.bulk_pos, ?_, ?_⟩, d⟩
    · rw [← e1]; exact m.kind_of.1
    · rw [← e2]; exact m.kind_of.2.1
  · rintro ⟨⟨hx, hy, L, G, hG, hB, h1, h2⟩, hgeo, hrho, hrad, hprs⟩
    simp only [Kind.of, Kind.GivenOk] at hx hy h1 h2
    have hLG : 0 < L + G := by linarith
    have hc0 : ¬ BlakeInitLG.c0 p := by simp only [epv_cond]; linarith
    have hc1 : ¬ BlakeInitLG.c1 p := by simp only [epv_cond]; linarith
    have hc2 : BlakeInitLG.c2 p := by simp only [epv_cond]; linarith
    have hc3 : BlakeInitLG.c3 p := by simp only [epv_cond]; linarith
    have hc4 : BlakeInitLG.c4 p := by simp only [epv_cond]; exact hgeo
    have hc5 : BlakeInitLG.c5 p := by simp only [epv_cond]; exact hrho
    have hc6 : BlakeInitLG.c6 p := by simp only [epv_cond]; exact hrad
    have hc7 : BlakeInitLG.c7 p := by simp only [epv_cond]; exact hprs
    simp only [epv_tree, hc0, hc1, hc2, hc3, hc4, hc5, hc6, hc7, if_true, if_false, ite_self]

/-- pair (λ, G): the constructor returns or raises `ValueError`, nothing else -/
theorem initLG_total (p : BlakeInitLG.P) : BlakeInitLG.outcome p = .ok ∨ BlakeInitLG.outcome p = .raise "ValueError" := by
  epv_ok_or_valueError

theorem initLG_raise (p : BlakeInitLG.P) (h : BlakeInitLG.outcome p ≠ .ok) : BlakeInitLG.outcome p = .raise "ValueError" :=
  (initLG_total p).resolve_left h

/-- pair (λ, E), constructor: an accepting path ends with one positive-definite isotropic material that
reproduces the two supplied values; the problem parameters and the supplied values are the documented
admissible ones -/
theorem initLE_ok (p : BlakeInitLE.P) (h : BlakeInitLE.outcome p = .ok) :
    IsoMaterial (BlakeInitLE.lame_mod p) (BlakeInitLE.shear_mod p) (BlakeInitLE.youngs_mod p) (BlakeInitLE.poisson_ratio p) (BlakeInitLE.bulk_mod p) (BlakeInitLE.long_mod p)
      ∧ BlakeInitLE.lame_mod p = p.lame_mod ∧ BlakeInitLE.youngs_mod p = p.youngs_mod ∧ DocumentedProblem p.geometry p.ref_density p.cavity_radius p.pressure_scale
      ∧ Kind.GivenOk .lame p.lame_mod ∧ Kind.GivenOk .youngs p.youngs_mod := by
  epv_paths (
    simp only [epv_cond] at *
    simp only [epv_leaf, Kind.GivenOk]
    simp only [not_le, not_lt] at *
    generalize hR : (p.youngs_mod ^ (2 : ℕ) + 9 * p.lame_mod ^ (2 : ℕ) + 2 * p.youngs_mod * p.lame_mod) ^ ((1 : ℝ) / 2) = R at *
    have hR0 : 0 ≤ R := hR ▸ rpow_half_nonneg _
    have hR2 : R * R = p.youngs_mod ^ (2 : ℕ) + 9 * p.lame_mod ^ (2 : ℕ) + 2 * p.youngs_mod * p.lame_mod :=
      hR ▸ rpow_half_mul_self (by nlinarith [sq_nonneg (p.youngs_mod + p.lame_mod), sq_nonneg p.lame_mod])
    have h1 : 0 < p.youngs_mod + p.lame_mod + R := by linarith
    refine ⟨IsoMaterial.of_mul ?_ ?_ ?_ ?_ ?_ ?_, ?_, ?_, ⟨?_, ?_, ?_, ?_⟩, ?_, ?_⟩ <;> first | trivial | assumption | linarith | ring1 | (fsimp <;> ring1) | linear_combination (-1 / 8 : ℝ) * hR2 | exact ⟨by linarith, by linarith⟩)

/-- pair (λ, E): the constructor **accepts ⇔ the input is documented-valid** -/
theorem initLE_accepts_iff (p : BlakeInitLE.P) :
    BlakeInitLE.outcome p = .ok ↔ (DocumentedPair .lame .youngs p.lame_mod p.youngs_mod) ∧ DocumentedProblem p.geometry p.ref_density p.cavity_radius p.pressure_scale := by
  constructor
  · intro h
    obtain ⟨m, e1, e2, d, g1, g2⟩ := initLE_ok p h
    refine ⟨⟨g1, g2, _, _, m.shear_pos, m.bulk_pos, ?_, ?_⟩, d⟩
    · rw [← e1]; exact m.kind_of.1
    · rw [← e2]; exact m.kind_of.2.2.1
  · rintro ⟨⟨hx, hy, L, G, hG, hB, h1, h2⟩, hgeo, hrho, hrad, hprs⟩
    simp only [Kind.of, Kind.GivenOk] at hx hy h1 h2
    have hLG : 0 < L + G := by linarith
    have hE : p.youngs_mod * (L + G) = G * (3 * L + 2 * G) := by rw [← h2]; field_simp
    have e : (4 * G + 3 * L - p.youngs_mod) * (L + G) = 2 * (L + G) ^ 2 + L ^ 2 := by linear_combination (-1 : ℝ) * hE
    have hpos : 0 < 4 * G + 3 * L - p.youngs_mod := (mul_pos_iff_of_pos_right hLG).mp (e ▸ by positivity)
    have hR : (p.youngs_mod ^ (2 : ℕ) + 9 * p.lame_mod ^ (2 : ℕ) + 2 * p.youngs_mod * p.lame_mod) ^ ((1 : ℝ) / 2)
        = 4 * G + 3 * L - p.youngs_mod :=
      rpow_half_eq hpos.le (by rw [← h1]; linear_combination (-8 : ℝ) * hE)
    have hc0 : ¬ BlakeInitLE.c0 p := by
      simp only [epv_cond]
      linarith
    have hc1 : ¬ BlakeInitLE.c1 p := by
      simp only [epv_cond]
      linarith
    have hc2 : BlakeInitLE.c2 p := by
      simp only [epv_cond]
      rw [hR]; linarith
    have hc3 : BlakeInitLE.c3 p := by
      simp only [epv_cond]
      rw [hR]; linarith
    have hc4 : BlakeInitLE.c4 p := by simp only [epv_cond]; exact hgeo
    have hc5 : BlakeInitLE.c5 p := by simp only [epv_cond]; exact hrho
    have hc6 : BlakeInitLE.c6 p := by simp only [epv_cond]; exact hrad
    have hc7 : BlakeInitLE.c7 p := by simp only [epv_cond]; exact hprs
    simp only [epv_tree, hc0, hc1, hc2, hc3, hc4, hc5, hc6, hc7, if_true, if_false, ite_self]

/-- pair (λ, E): the constructor returns or raises `ValueError`, nothing else -/
theorem initLE_total (p : BlakeInitLE.P) : BlakeInitLE.outcome p = .ok ∨ BlakeInitLE.outcome p = .raise "ValueError" := by
  epv_ok_or_valueError

theorem initLE_raise (p : BlakeInitLE.P) (h : BlakeInitLE.outcome p ≠ .ok) : BlakeInitLE.outcome p = .raise "ValueError" :=
  (initLE_total p).resolve_left h

/-- pair (λ, ν), constructor: an accepting path ends with one positive-definite isotropic material that
reproduces the two supplied values; the problem parameters and the supplied values are the documented
admissible ones -/
theorem initLNu_ok (p : BlakeInitLNu.P) (h : BlakeInitLNu.outcome p = .ok) :
    IsoMaterial (BlakeInitLNu.lame_mod p) (BlakeInitLNu.shear_mod p) (BlakeInitLNu.youngs_mod p) (BlakeInitLNu.poisson_ratio p) (BlakeInitLNu.bulk_mod p) (BlakeInitLNu.long_mod p)
      ∧ BlakeInitLNu.lame_mod p = p.lame_mod ∧ BlakeInitLNu.poisson_ratio p = p.poisson_ratio ∧ DocumentedProblem p.geometry p.ref_density p.cavity_radius p.pressure_scale
      ∧ Kind.GivenOk .lame p.lame_mod ∧ Kind.GivenOk .poisson p.poisson_ratio := by
  epv_paths (
    simp only [epv_cond] at *
    simp only [epv_leaf, Kind.GivenOk]
    simp only [not_le, not_lt] at *
    have hν : 0 < p.poisson_ratio := by
      by_contra hc
      rw [not_lt] at hc
      have h := ‹0 < p.lame_mod * (1 - 2 * p.poisson_ratio) / (2 * p.poisson_ratio)›
      have : p.lame_mod * (1 - 2 * p.poisson_ratio) / (2 * p.poisson_ratio) ≤ 0 :=
        div_nonpos_of_nonneg_of_nonpos (mul_nonneg (by linarith) (by linarith)) (by linarith)
      linarith
    refine ⟨IsoMaterial.of_mul ?_ ?_ ?_ ?_ ?_ ?_, ?_, ?_, ⟨?_, ?_, ?_, ?_⟩, ?_, ?_⟩ <;> first | trivial | assumption | linarith | ring1 | (fsimp <;> ring1) | exact ⟨by linarith, by linarith⟩)

/-- pair (λ, ν): the constructor **accepts ⇔ the input is documented-valid** -/
theorem initLNu_accepts_iff (p : BlakeInitLNu.P) :
    BlakeInitLNu.outcome p = .ok ↔ (DocumentedPair .lame .poisson p.lame_mod p.poisson_ratio) ∧ DocumentedProblem p.geometry p.ref_density p.cavity_radius p.pressure_scale := by
  constructor
  · intro h
    obtain ⟨m, e1, e2, d, g1, g2⟩ := initLNu_ok p h
    refine ⟨⟨g1, g2, _, _, m.shear_pos, m.bulk_pos, ?_, ?_⟩, d⟩
    · rw [← e1]; exact m.kind_of.1
    · rw [← e2]; exact m.kind_of.2.2.2.1
  · rintro ⟨⟨hx, hy, L, G, hG, hB, h1, h2⟩, hgeo, hrho, hrad, hprs⟩
    simp only [Kind.of, Kind.GivenOk] at hx hy h1 h2
    have hLG : 0 < L + G := by linarith
    have hν : p.poisson_ratio * (2 * (L + G)) = L := by rw [← h2]; field_simp
    have hνpos : 0 < p.poisson_ratio := by rw [← h2]; have : 0 < L := by linarith
                                           positivity
    have e : p.lame_mod * (1 - 2 * p.poisson_ratio) / (2 * p.poisson_ratio) = G := by
      rw [div_eq_iff (by positivity), ← h1]; linear_combination (-1 : ℝ) * hν
    have hc0 : ¬ BlakeInitLNu.c0 p := by
      simp only [epv_cond]
      linarith
    have hc1 : BlakeInitLNu.c1 p := by
      simp only [epv_cond]
      exact hy.1
    have hc2 : BlakeInitLNu.c2 p := by
      simp only [epv_cond]
      exact hy.2
    have hc3 : BlakeInitLNu.c3 p := by
      simp only [epv_cond]
      rw [e]; exact hG
    have hc4 : BlakeInitLNu.c4 p := by
      simp only [epv_cond]
      rw [e]; linarith
    have hc5 : BlakeInitLNu.c5 p := by simp only [epv_cond]; exact hgeo
    have hc6 : BlakeInitLNu.c6 p := by simp only [epv_cond]; exact hrho
    have hc7 : BlakeInitLNu.c7 p := by simp only [epv_cond]; exact hrad
    have hc8 : BlakeInitLNu.c8 p := by simp only [epv_cond]; exact hprs
    simp only [epv_tree, hc0, hc1, hc2, hc3, hc4, hc5, hc6, hc7, hc8, if_true, if_false, ite_self]

/-- pair (λ, ν): the constructor returns or raises `ValueError`, nothing else (in exact arithmetic; at ν = 0 Python divides by zero first:
see `EPV.C15.finding_modLNu_division_by_zero`) -/
theorem initLNu_total (p : BlakeInitLNu.P) : BlakeInitLNu.outcome p = .ok ∨ BlakeInitLNu.outcome p = .raise "ValueError" := by
  epv_ok_or_valueError

theorem initLNu_raise (p : BlakeInitLNu.P) (hν : p.poisson_ratio ≠ 0) (h : BlakeInitLNu.outcome p ≠ .ok) : BlakeInitLNu.outcome p = .raise "ValueError" :=
  (initLNu_total p).resolve_left h

/-- pair (λ, K), constructor: an accepting path ends with one positive-definite isotropic material that
reproduces the two supplied values; the problem parameters and the supplied values are the documented
admissible ones -/
theorem initLK_ok (p : BlakeInitLK.P) (h : BlakeInitLK.outcome p = .ok) :
    IsoMaterial (BlakeInitLK.lame_mod p) (BlakeInitLK.shear_mod p) (BlakeInitLK.youngs_mod p) (BlakeInitLK.poisson_ratio p) (BlakeInitLK.bulk_mod p) (BlakeInitLK.long_mod p)
      ∧ BlakeInitLK.lame_mod p = p.lame_mod ∧ BlakeInitLK.bulk_mod p = p.bulk_mod ∧ DocumentedProblem p.geometry p.ref_density p.cavity_radius p.pressure_scale
      ∧ Kind.GivenOk .lame p.lame_mod ∧ Kind.GivenOk .bulk p.bulk_mod := by
  epv_paths (
    simp only [epv_cond] at *
    simp only [epv_leaf, Kind.GivenOk]
    simp only [not_le, not_lt] at *
    have h1 : 0 < 3 * p.bulk_mod - p.lame_mod := by linarith
    refine ⟨IsoMaterial.of_mul ?_ ?_ ?_ ?_ ?_ ?_, ?_, ?_, ⟨?_, ?_, ?_, ?_⟩, ?_, ?_⟩ <;> first | trivial | assumption | linarith | ring1 | (fsimp <;> ring1) | exact ⟨by linarith, by linarith⟩)

/-- pair (λ, K): the constructor **accepts ⇔ the input is documented-valid** -/
theorem initLK_accepts_iff (p : BlakeInitLK.P) :
    BlakeInitLK.outcome p = .ok ↔ (DocumentedPair .lame .bulk p.lame_mod p.bulk_mod) ∧ DocumentedProblem p.geometry p.ref_density p.cavity_radius p.pressure_scale := by
  constructor
  · intro h
    obtain ⟨m, e1, e2, d, g1, g2⟩ := initLK_ok p h
    refine ⟨⟨g1, g2, _, _, m.shear_pos, m.bulk_pos, ?_, ?_⟩, d⟩
    · rw [← e1]; exact m.kind_of.1
    · rw [← e2]; exact m.kind_of.2.2.2.2.1
  · rintro ⟨⟨hx, hy, L, G, hG, hB, h1, h2⟩, hgeo, hrho, hrad, hprs⟩
    simp only [Kind.of, Kind.GivenOk] at hx hy h1 h2
    have hLG : 0 < L + G := by linarith
    have hc0 : ¬ BlakeInitLK.c0 p := by
      simp only [epv_cond]
      linarith
    have hc1 : ¬ BlakeInitLK.c1 p := by
      simp only [epv_cond]
      linarith
    have hc2 : ¬ BlakeInitLK.c2 p := by
      simp only [epv_cond]
      rw [← h1, ← h2, abs_of_neg (by linarith), abs_of_pos (by linarith)]
      linarith
    have hc4 : BlakeInitLK.c4 p := by
      simp only [epv_cond]
      linarith
    have hc5 : BlakeInitLK.c5 p := by
      simp only [epv_cond]
      linarith
    have hc6 : BlakeInitLK.c6 p := by simp only [epv_cond]; exact hgeo
    have hc7 : BlakeInitLK.c7 p := by simp only [epv_cond]; exact hrho
    have hc8 : BlakeInitLK.c8 p := by simp only [epv_cond]; exact hrad
    have hc9 : BlakeInitLK.c9 p := by simp only [epv_cond]; exact hprs
    simp only [epv_tree, hc0, hc1, hc2, hc4, hc5, hc6, hc7, hc8, hc9, if_true, if_false, ite_self]

/-- pair (λ, K): the constructor returns or raises `ValueError`, nothing else -/
theorem initLK_total (p : BlakeInitLK.P) : BlakeInitLK.outcome p = .ok ∨ BlakeInitLK.outcome p = .raise "ValueError" := by
  epv_ok_or_valueError

theorem initLK_raise (p : BlakeInitLK.P) (h : BlakeInitLK.outcome p ≠ .ok) : BlakeInitLK.outcome p = .raise "ValueError" :=
  (initLK_total p).resolve_left h

/-- pair (λ, M), constructor: an accepting path ends with one positive-definite isotropic material that
reproduces the two supplied values; the problem parameters and the supplied values are the documented
admissible ones -/
theorem initLM_ok (p : BlakeInitLM.P) (h : BlakeInitLM.outcome p = .ok) :
    IsoMaterial (BlakeInitLM.lame_mod p) (BlakeInitLM.shear_mod p) (BlakeInitLM.youngs_mod p) (BlakeInitLM.poisson_ratio p) (BlakeInitLM.bulk_mod p) (BlakeInitLM.long_mod p)
      ∧ BlakeInitLM.lame_mod p = p.lame_mod ∧ BlakeInitLM.long_mod p = p.long_mod ∧ DocumentedProblem p.geometry p.ref_density p.cavity_radius p.pressure_scale
      ∧ Kind.GivenOk .lame p.lame_mod ∧ Kind.GivenOk .long p.long_mod := by
  epv_paths (
    simp only [epv_cond] at *
    simp only [epv_leaf, Kind.GivenOk]
    simp only [not_le, not_lt] at *
    have h1 : 0 < p.long_mod + p.lame_mod := by linarith
    refine ⟨IsoMaterial.of_mul ?_ ?_ ?_ ?_ ?_ ?_, ?_, ?_, ⟨?_, ?_, ?_, ?_⟩, ?_, ?_⟩ <;> first | trivial | assumption | linarith | ring1 | (fsimp <;> ring1) | exact ⟨by linarith, by linarith⟩)

/-- pair (λ, M): the constructor **accepts ⇔ the input is documented-valid** -/
theorem initLM_accepts_iff (p : BlakeInitLM.P) :
    BlakeInitLM.outcome p = .ok ↔ (DocumentedPair .lame .long p.lame_mod p.long_mod) ∧ DocumentedProblem p.geometry p.ref_density p.cavity_radius p.pressure_scale := by
  constructor
  · intro h
    obtain ⟨m, e1, e2, d, g1, g2⟩ := initLM_ok p h
    refine ⟨⟨g1, g2, _, _, m.shear_pos, m.bulk_pos, ?_, ?_⟩, d⟩
    · rw [← e1]; exact m.kind_of.1
    · rw [← e2]; exact m.kind_of.2.2.2.2.2
  · rintro ⟨⟨hx, hy, L, G, hG, hB, h1, h2⟩, hgeo, hrho, hrad, hprs⟩
    simp only [Kind.of, Kind.GivenOk] at hx hy h1 h2
    have hLG : 0 < L + G := by linarith
    have hc0 : ¬ BlakeInitLM.c0 p := by
      simp only [epv_cond]
      linarith
    have hc1 : ¬ BlakeInitLM.c1 p := by
      simp only [epv_cond]
      linarith
    have hc2 : BlakeInitLM.c2 p := by
      simp only [epv_cond]
      linarith
    have hc3 : BlakeInitLM.c3 p := by
      simp only [epv_cond]
      linarith
    have hc4 : BlakeInitLM.c4 p := by simp only [epv_cond]; exact hgeo
    have hc5 : BlakeInitLM.c5 p := by simp only [epv_cond]; exact hrho
    have hc6 : BlakeInitLM.c6 p := by simp only [epv_cond]; exact hrad
    have hc7 : BlakeInitLM.c7 p := by simp only [epv_cond]; exact hprs
    simp only [epv_tree, hc0, hc1, hc2, hc3, hc4, hc5, hc6, hc7, if_true, if_false, ite_self]

/-- pair (λ, M): the constructor returns or raises `ValueError`, nothing else -/
theorem initLM_total (p : BlakeInitLM.P) : BlakeInitLM.outcome p = .ok ∨ BlakeInitLM.outcome p = .raise "ValueError" := by
  epv_ok_or_valueError

theorem initLM_raise (p : BlakeInitLM.P) (h : BlakeInitLM.outcome p ≠ .ok) : BlakeInitLM.outcome p = .raise "ValueError" :=
  (initLM_total p).resolve_left h

end EPV.C20
