/-
C20 — steady detonation reaction zone: restrictions enforced, rejections loud, no NaN/inf inside.

Restrictions stated by the error messages of `sdrz.py`: detonation velocity, initial density and
adiabatic index positive, geometry = 1 (the traced model has geometry = 1 fixed; `geometry ≠ 1` is a
Python `!=` on the concrete value, covered by the constructor oracle).

* `sdrz_accepts_iff`   : `run_tvec` returns fields at a particle age t ∈ [0, 1] iff D > 0, rho_0 > 0, γ > 0;
* `sdrz_rejects_loudly`: on [0, 1] every rejection is a ValueError (the `UnboundLocalError` leaves of the
                         trace — `it1` unbound — need t < 1 ∧ t > 1 and are unreachable);
* `sdrz_no_nan`        : for γ > 1 the profile formulas have no zero denominator and no negative
                         square root on 0 ≤ t ≤ 1 (`L5.WellDefined`), i.e. no NaN/inf from the formulas.
Observation (reported, C20): γ ∈ (0, 1] is accepted, and then `γ - g(t) = 0` at t = 1 - γ: the density
is infinite inside the domain; the messages say "must be >=0" while the checks (rightly) reject 0.
-/
import EPV.Lemmas.SDRZ

import EPV.Lemmas.Bridge.DetonTactics

set_option linter.all false

open EPV EPV.Gen

namespace EPV.C20

theorem sdrz_accepts_iff (p : SDRZProfile.P) (t : ℝ) (h0 : 0 ≤ t) (h1 : t ≤ 1) :
    SDRZProfile.outcome p t = .ok ↔ (0 < p.D ∧ 0 < p.rho_0 ∧ 0 < p.gamma) := by
  simp only [epv_tree]
  constructor
  · intro h
    split_ifs at h <;> first
      | epv_absurd
      | (simp only [epv_cond, not_le, not_lt] at *
         exact ⟨by assumption, by assumption, by assumption⟩)
  · rintro ⟨a, b, c⟩
    have c0 : ¬ SDRZProfile.c0 p t := by simp only [epv_cond]; linarith
    have c1 : ¬ SDRZProfile.c1 p t := by simp only [epv_cond]; linarith
    have c2 : ¬ SDRZProfile.c2 p t := by simp only [epv_cond]; linarith
    have c5 : SDRZProfile.c5 p t := by simp only [epv_cond]; exact h1
    simp only [if_neg c0, if_neg c1, if_neg c2, if_pos c5]
    split_ifs <;> rfl

theorem sdrz_rejects_loudly (p : SDRZProfile.P) (t : ℝ) (h1 : t ≤ 1) (h : SDRZProfile.outcome p t ≠ .ok) :
    SDRZProfile.outcome p t = .raise "ValueError" := by
  have c5 : SDRZProfile.c5 p t := by simp only [epv_cond]; exact h1
  simp only [epv_tree, if_pos c5] at h ⊢
  split_ifs at h ⊢ <;> first | rfl | (exact absurd rfl h)

theorem sdrz_no_nan (p : SDRZProfile.P) (t : ℝ) (hD : 0 < p.D) (hρ : 0 < p.rho_0) (hγ : 1 < p.gamma)
    (h0 : 0 ≤ t) (h1 : t ≤ 1) : SDRZProfile.L5.WellDefined p t := by
  have hD' : p.D ≠ 0 := hD.ne'
  have hρ' : p.rho_0 ≠ 0 := hρ.ne'
  have e0 : 0 ≤ 1 - t := by linarith
  have e1 : 0 < p.gamma - (1 - t) := by linarith
  have e1' := e1.ne'
  have e3 : 0 < p.gamma + 1 := by linarith
  have e3' := e3.ne'
  have e4 : 0 < p.gamma := by linarith
  have e4' := e4.ne'
  have hsq := sq_nonneg (1 - t)
  unfold SDRZProfile.L5.WellDefined
  -- g = √(1 - λ/f) = 1 - t in every side condition, whatever λ and f look like; then each condition is a
  -- fact of the context or a sign `positivity` sees
  (try constructorm* _ ∧ _) <;> (repeat epv_deton_sqrt_rw (1 - t)) <;>
    first | assumption | positivity | (epv_deton_fs; first | done | positivity | nlinarith)

/-- non-vacuity at the defaults -/
example : ∃ (p : SDRZProfile.P) (t : ℝ), 0 < p.D ∧ 0 < p.rho_0 ∧ 1 < p.gamma ∧ 0 ≤ t ∧ t ≤ 1 :=
  ⟨⟨17/20, 3, 8/5⟩, 1/2, by norm_num, by norm_num, by norm_num, by norm_num, by norm_num⟩

end EPV.C20
