/-
C20 — Cog13 returns a complex temperature inside the parameter range its own warnings call valid (finding).
-/
import EPV.Gen.Cog13
import EPV.Lemmas.HydroTactics

set_option linter.all false

open EPV EPV.Gen EPV.Spec.AdmissibleHydro

namespace EPV.C20

/-- the leaf named below is the only `ok` leaf of the traced tree -/
theorem cog13_ok_leaves : Cog13.okLeaves = [1] := rfl

/-- **Finding** (Cog13): at α = -3/2, β = 2 (inside the advised range), γ = 1.4, the base of the temperature
amplitude `pow(c6*c8*c9, 1/(β+3))` is negative — the code returns a complex temperature -/
theorem finding_cog13_not_well_defined :
    Advised (-3 / 2) 2 ∧ ¬ Cog13.L1.WellDefined ⟨40, 0, -3 / 2, 0, 2, 0, 0, 7 / 5, 3, 0, 1 / 10, 1⟩ 1 1 := by
  refine ⟨by norm_num [Advised], ?_⟩
  unfold Cog13.L1.WellDefined
  norm_num

end EPV.C20
