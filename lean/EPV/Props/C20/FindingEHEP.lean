/-
C20 — FINDING: EHEP accepts gamma ≠ 3 and returns numbers from the γ = 3 formulas.

The parameter help says "adiabatic index, must be 3.0"; the constructor does not check it.  With
gamma = 1.4 (all other parameters default) the solver is constructed, and at the region I point
x = 0.7, t = 1 it returns finite fields that are *not* a γ = 1.4 solution: sound speed, pressure
and density still satisfy the γ = 3 relation c² ρ = 3 p, so c² ρ ≠ γ p, while the returned
internal energy is p / ρ / (γ - 1) with γ = 1.4.  Reproduced on the real code by the oracle
`o_detonation.ehep_gamma` (site `EHEP:gamma-not-3-accepted`).
-/
import EPV.Lemmas.EHEP

set_option linter.all false

open EPV EPV.Gen EPV.EHEPL

namespace EPV.C20

/-- default parameters with gamma = 1.4, region I -/
noncomputable def ehepW : EHEP.P := ⟨17/20, 7/5, 1, 8/5, 10, 1/20, 10, 1⟩

theorem ehepW_accepted : Accepted ehepW ∧ ehepW.gamma ≠ 3 := by
  unfold Accepted ehepW; norm_num

/-- **Finding.**  gamma = 1.4 is accepted (`outcome = ok`), and the returned fields obey the γ = 3
sound-speed relation instead of the γ = 1.4 one. -/
theorem ehep_gamma_not_enforced :
    EHEP.outcome ehepW (7/10) 1 = .ok ∧ ehepW.gamma ≠ 3 ∧
    EHEP.sound_speed ehepW (7/10) 1 ^ 2 * EHEP.density ehepW (7/10) 1 = 3 * EHEP.pressure ehepW (7/10) 1 ∧
    EHEP.sound_speed ehepW (7/10) 1 ^ 2 * EHEP.density ehepW (7/10) 1
      ≠ ehepW.gamma * EHEP.pressure ehepW (7/10) 1 := by
  obtain ⟨ha, hg⟩ := ehepW_accepted
  obtain ⟨a1, a2, a3, a4, a5⟩ := region_I ehepW (7/10) 1 ha rfl
  refine ⟨(outcome_ok_iff _ _ _).mpr ha, hg, ?_, ?_⟩
  · rw [a1, a2, a4]; simp only [epv_leaf, ehepW]; norm_num
  · rw [a1, a2, a4]; simp only [epv_leaf, ehepW]; norm_num

/-- **Finding (second).**  Outside every polygon of the x–t diagram — x > xmax, t > tmax ("maximum value of
t allowed for exact solution"), t ≤ 0 — `_run` neither raises nor returns NaN: the region is `None` and
every field is the finite number 0 (a vacuum state), also where the true solution is not vacuum
(t > tmax behind the escape front; t = 0 inside the explosive, where ρ = ρ₀).  On the model: for every
accepted parameter set and every value of the region atom other than 1 … 8 the outcome is `ok` and the
fields are 0.  Reproduced by `o_detonation.ehep_outside` (site `EHEP:outside-window-zeros`). -/
theorem ehep_outside_returns_zeros (p : EHEP.P) (x t : ℝ) (ha : Accepted p)
    (hr : p.region ≠ 1 ∧ p.region ≠ 2 ∧ p.region ≠ 3 ∧ p.region ≠ 4 ∧ p.region ≠ 5 ∧ p.region ≠ 6 ∧ p.region ≠ 7 ∧
      p.region ≠ 8) :
    EHEP.outcome p x t = .ok ∧ EHEP.density p x t = 0 ∧ EHEP.pressure p x t = 0 ∧ EHEP.velocity p x t = 0 := by
  obtain ⟨a1, a2, a3, a4, a5⟩ := region_none p x t ha hr
  exact ⟨(outcome_ok_iff p x t).mpr ha, a1, a2, a5⟩

example : ∃ p : EHEP.P, Accepted p ∧ (p.region ≠ 1 ∧ p.region ≠ 2 ∧ p.region ≠ 3 ∧ p.region ≠ 4 ∧ p.region ≠ 5 ∧
    p.region ≠ 6 ∧ p.region ≠ 7 ∧ p.region ≠ 8) := by
  refine ⟨⟨17/20, 3, 0, 8/5, 10, 1/20, 10, 1⟩, ?_, ?_⟩
  · unfold Accepted; norm_num
  · norm_num

end EPV.C20
