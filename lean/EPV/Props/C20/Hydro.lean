/-
C20 — invalid problems are rejected; no finite garbage; no NaN inside the domain
(closed-form hydro solvers Noh, Noh2, Noh2Cog, Coggeshall 1–21).

"Every documented restriction on a solver's parameters … is enforced by a ValueError at
construction, and a request outside the time or space domain on which the solution exists either
raises or returns NaN as documented - it never returns finite numbers that look like a solution.
Valid requests inside the domain never produce NaN or infinity."

A. Constructors.  `Init<Solver>` is the traced decision tree of `__init__` on fully symbolic parameters,
   `Spec.AdmissibleHydro.<Solver>.Documented` the hand catalogue of documented restrictions:
       ⊢ Init<Solver>.outcome p = .ok ↔ Documented p          (both directions: missing checks AND `<`/`≤` slips)
       ⊢ Init<Solver>.outcome p = .ok ∨ … = .raise "ValueError"  (every rejection is a ValueError)
   FALSE for Cog19 (accepts u₀ = 0 against "u0 must be strictly negative") and Cog4 ("gamma … must be < 1"
   is only printed as a warning; the class default γ = 1.4 violates it): modules FindingCog19 / FindingCog4, with
   the part that holds.
B. Time domain of `_run`: NaN exactly for t ≤ 0 where the code says "No valid solution at t=0"; Noh2/Noh2Cog raise
   ValueError exactly for t ≥ 1 ("The time t must be less than 1"); the other solvers have no domain test.
C. No NaN/inf from the formula itself: on the admissible domain (the hypotheses of C17: positive coefficients,
   r > 0, t in the time domain, γ ≠ 1 …) every `ok` leaf is `WellDefined` — no zero denominator, no non-positive
   base under a real exponent, in exact arithmetic.
   FALSE for Cog13, Cog14 and Cog17 on the parameter range their own warnings call valid (α ∈ [-2,-1],
   β ∈ [1,3]): a negative base is raised to a real power (Python leaves ℝ: complex fields, or
   `TypeError: must be real number, not complex` from `math.sqrt`, or ZeroDivisionError): modules
   FindingCog13 / FindingCog14 / FindingCog17.
-/
import EPV.Gen.InitNoh
import EPV.Gen.Noh
import EPV.Gen.InitNoh2
import EPV.Gen.Noh2
import EPV.Gen.InitNoh2Cog
import EPV.Gen.Noh2Cog
import EPV.Gen.InitCog1
import EPV.Gen.Cog1
import EPV.Gen.InitCog2
import EPV.Gen.Cog2
import EPV.Gen.InitCog3
import EPV.Gen.Cog3
import EPV.Gen.Cog4
import EPV.Gen.InitCog5
import EPV.Gen.Cog5
import EPV.Gen.InitCog6
import EPV.Gen.Cog6
import EPV.Gen.InitCog7
import EPV.Gen.Cog7
import EPV.Gen.InitCog8
import EPV.Gen.Cog8
import EPV.Gen.InitCog9
import EPV.Gen.Cog9
import EPV.Gen.InitCog10
import EPV.Gen.Cog10
import EPV.Gen.InitCog11
import EPV.Gen.Cog11
import EPV.Gen.InitCog12
import EPV.Gen.Cog12
import EPV.Gen.InitCog13
import EPV.Gen.Cog13
import EPV.Gen.InitCog14
import EPV.Gen.Cog14
import EPV.Gen.InitCog16
import EPV.Gen.Cog16
import EPV.Gen.InitCog17
import EPV.Gen.Cog17
import EPV.Gen.InitCog18
import EPV.Gen.Cog18
import EPV.Gen.Cog19
import EPV.Gen.InitCog20
import EPV.Gen.Cog20
import EPV.Gen.InitCog21
import EPV.Gen.Cog21
import EPV.Lemmas.HydroTactics

set_option linter.all false

open EPV EPV.Gen EPV.Spec.AdmissibleHydro

namespace EPV.C20

/-! ## A. constructors -/

theorem init_noh_accepts_iff (p : InitNoh.P) : InitNoh.outcome p = .ok ↔ Noh.Documented p := by
  init_iff

theorem init_noh_rejects_with_ValueError (p : InitNoh.P) :
    InitNoh.outcome p = .ok ∨ InitNoh.outcome p = .raise "ValueError" := by
  init_loud

theorem init_noh2_accepts_iff (p : InitNoh2.P) : InitNoh2.outcome p = .ok ↔ Noh2.Documented p := by
  init_iff

theorem init_noh2_rejects_with_ValueError (p : InitNoh2.P) :
    InitNoh2.outcome p = .ok ∨ InitNoh2.outcome p = .raise "ValueError" := by
  init_loud

theorem init_noh2cog_accepts_iff (p : InitNoh2Cog.P) : InitNoh2Cog.outcome p = .ok ↔ Noh2Cog.Documented p := by
  init_iff

theorem init_noh2cog_rejects_with_ValueError (p : InitNoh2Cog.P) :
    InitNoh2Cog.outcome p = .ok ∨ InitNoh2Cog.outcome p = .raise "ValueError" := by
  init_loud

theorem init_cog1_accepts_iff (p : InitCog1.P) : InitCog1.outcome p = .ok ↔ Cog1.Documented p := by
  init_iff

theorem init_cog1_rejects_with_ValueError (p : InitCog1.P) :
    InitCog1.outcome p = .ok ∨ InitCog1.outcome p = .raise "ValueError" := by
  init_loud

theorem init_cog2_accepts_iff (p : InitCog2.P) : InitCog2.outcome p = .ok ↔ Cog2.Documented p := by
  init_iff

theorem init_cog2_rejects_with_ValueError (p : InitCog2.P) :
    InitCog2.outcome p = .ok ∨ InitCog2.outcome p = .raise "ValueError" := by
  init_loud

theorem init_cog3_accepts_iff (p : InitCog3.P) : InitCog3.outcome p = .ok ↔ Cog3.Documented p := by
  init_iff

theorem init_cog3_rejects_with_ValueError (p : InitCog3.P) :
    InitCog3.outcome p = .ok ∨ InitCog3.outcome p = .raise "ValueError" := by
  init_loud

theorem init_cog5_accepts_iff (p : InitCog5.P) : InitCog5.outcome p = .ok ↔ Cog5.Documented p := by
  init_iff

theorem init_cog5_rejects_with_ValueError (p : InitCog5.P) :
    InitCog5.outcome p = .ok ∨ InitCog5.outcome p = .raise "ValueError" := by
  init_loud

theorem init_cog6_accepts_iff (p : InitCog6.P) : InitCog6.outcome p = .ok ↔ Cog6.Documented p := by
  init_iff

theorem init_cog6_rejects_with_ValueError (p : InitCog6.P) :
    InitCog6.outcome p = .ok ∨ InitCog6.outcome p = .raise "ValueError" := by
  init_loud

theorem init_cog7_accepts_iff (p : InitCog7.P) : InitCog7.outcome p = .ok ↔ Cog7.Documented p := by
  init_iff

theorem init_cog7_rejects_with_ValueError (p : InitCog7.P) :
    InitCog7.outcome p = .ok ∨ InitCog7.outcome p = .raise "ValueError" := by
  init_loud

theorem init_cog8_accepts_iff (p : InitCog8.P) : InitCog8.outcome p = .ok ↔ Cog8.Documented p := by
  init_iff

theorem init_cog8_rejects_with_ValueError (p : InitCog8.P) :
    InitCog8.outcome p = .ok ∨ InitCog8.outcome p = .raise "ValueError" := by
  init_loud

theorem init_cog9_accepts_iff (p : InitCog9.P) : InitCog9.outcome p = .ok ↔ Cog9.Documented p := by
  init_iff

theorem init_cog9_rejects_with_ValueError (p : InitCog9.P) :
    InitCog9.outcome p = .ok ∨ InitCog9.outcome p = .raise "ValueError" := by
  init_loud

theorem init_cog10_accepts_iff (p : InitCog10.P) : InitCog10.outcome p = .ok ↔ Cog10.Documented p := by
  init_iff

theorem init_cog10_rejects_with_ValueError (p : InitCog10.P) :
    InitCog10.outcome p = .ok ∨ InitCog10.outcome p = .raise "ValueError" := by
  init_loud

theorem init_cog11_accepts_iff (p : InitCog11.P) : InitCog11.outcome p = .ok ↔ Cog11.Documented p := by
  init_iff

theorem init_cog11_rejects_with_ValueError (p : InitCog11.P) :
    InitCog11.outcome p = .ok ∨ InitCog11.outcome p = .raise "ValueError" := by
  init_loud

theorem init_cog12_accepts_iff (p : InitCog12.P) : InitCog12.outcome p = .ok ↔ Cog12.Documented p := by
  init_iff

theorem init_cog12_rejects_with_ValueError (p : InitCog12.P) :
    InitCog12.outcome p = .ok ∨ InitCog12.outcome p = .raise "ValueError" := by
  init_loud

theorem init_cog13_accepts_iff (p : InitCog13.P) : InitCog13.outcome p = .ok ↔ Cog13.Documented p := by
  init_iff

theorem init_cog13_rejects_with_ValueError (p : InitCog13.P) :
    InitCog13.outcome p = .ok ∨ InitCog13.outcome p = .raise "ValueError" := by
  init_loud

theorem init_cog14_accepts_iff (p : InitCog14.P) : InitCog14.outcome p = .ok ↔ Cog14.Documented p := by
  init_iff

theorem init_cog14_rejects_with_ValueError (p : InitCog14.P) :
    InitCog14.outcome p = .ok ∨ InitCog14.outcome p = .raise "ValueError" := by
  init_loud

theorem init_cog16_accepts_iff (p : InitCog16.P) : InitCog16.outcome p = .ok ↔ Cog16.Documented p := by
  init_iff

theorem init_cog16_rejects_with_ValueError (p : InitCog16.P) :
    InitCog16.outcome p = .ok ∨ InitCog16.outcome p = .raise "ValueError" := by
  init_loud

theorem init_cog17_accepts_iff (p : InitCog17.P) : InitCog17.outcome p = .ok ↔ Cog17.Documented p := by
  init_iff

theorem init_cog17_rejects_with_ValueError (p : InitCog17.P) :
    InitCog17.outcome p = .ok ∨ InitCog17.outcome p = .raise "ValueError" := by
  init_loud

theorem init_cog18_accepts_iff (p : InitCog18.P) : InitCog18.outcome p = .ok ↔ Cog18.Documented p := by
  init_iff

theorem init_cog18_rejects_with_ValueError (p : InitCog18.P) :
    InitCog18.outcome p = .ok ∨ InitCog18.outcome p = .raise "ValueError" := by
  init_loud

theorem init_cog20_accepts_iff (p : InitCog20.P) : InitCog20.outcome p = .ok ↔ Cog20.Documented p := by
  init_iff

theorem init_cog20_rejects_with_ValueError (p : InitCog20.P) :
    InitCog20.outcome p = .ok ∨ InitCog20.outcome p = .raise "ValueError" := by
  init_loud

theorem init_cog21_accepts_iff (p : InitCog21.P) : InitCog21.outcome p = .ok ↔ Cog21.Documented p := by
  init_iff

theorem init_cog21_rejects_with_ValueError (p : InitCog21.P) :
    InitCog21.outcome p = .ok ∨ InitCog21.outcome p = .raise "ValueError" := by
  init_loud
/-! ## B. time domain of `_run` -/

/-- Cog1: "No valid solution at t=0": NaN exactly for t ≤ 0 -/
theorem cog1_time_domain (p : Cog1.P) (r t : ℝ) :
    (Cog1.outcome p r t = .nan ↔ t ≤ 0) ∧ (Cog1.outcome p r t = .ok ↔ 0 < t) := by
  simp only [epv_tree]
  split_ifs <;> simp only [epv_cond, not_le] at * <;> simp_all [le_of_lt, not_le.mpr]

/-- Cog2: "No valid solution at t=0": NaN exactly for t ≤ 0 -/
theorem cog2_time_domain (p : Cog2.P) (r t : ℝ) :
    (Cog2.outcome p r t = .nan ↔ t ≤ 0) ∧ (Cog2.outcome p r t = .ok ↔ 0 < t) := by
  simp only [epv_tree]
  split_ifs <;> simp only [epv_cond, not_le] at * <;> simp_all [le_of_lt, not_le.mpr]

/-- Cog7: "No valid solution at t=0": NaN exactly for t ≤ 0 -/
theorem cog7_time_domain (p : Cog7.P) (r t : ℝ) :
    (Cog7.outcome p r t = .nan ↔ t ≤ 0) ∧ (Cog7.outcome p r t = .ok ↔ 0 < t) := by
  simp only [epv_tree]
  split_ifs <;> simp only [epv_cond, not_le] at * <;> simp_all [le_of_lt, not_le.mpr]

/-- Cog8: "No valid solution at t=0": NaN exactly for t ≤ 0 -/
theorem cog8_time_domain (p : Cog8.P) (r t : ℝ) :
    (Cog8.outcome p r t = .nan ↔ t ≤ 0) ∧ (Cog8.outcome p r t = .ok ↔ 0 < t) := by
  simp only [epv_tree]
  split_ifs <;> simp only [epv_cond, not_le] at * <;> simp_all [le_of_lt, not_le.mpr]

/-- Cog9: "No valid solution at t=0": NaN exactly for t ≤ 0 -/
theorem cog9_time_domain (p : Cog9.P) (r t : ℝ) :
    (Cog9.outcome p r t = .nan ↔ t ≤ 0) ∧ (Cog9.outcome p r t = .ok ↔ 0 < t) := by
  simp only [epv_tree]
  split_ifs <;> simp only [epv_cond, not_le] at * <;> simp_all [le_of_lt, not_le.mpr]

/-- Cog11: "No valid solution at t=0": NaN exactly for t ≤ 0 -/
theorem cog11_time_domain (p : Cog11.P) (r t : ℝ) :
    (Cog11.outcome p r t = .nan ↔ t ≤ 0) ∧ (Cog11.outcome p r t = .ok ↔ 0 < t) := by
  simp only [epv_tree]
  split_ifs <;> simp only [epv_cond, not_le] at * <;> simp_all [le_of_lt, not_le.mpr]

/-- Cog13: "No valid solution at t=0": NaN exactly for t ≤ 0 -/
theorem cog13_time_domain (p : Cog13.P) (r t : ℝ) :
    (Cog13.outcome p r t = .nan ↔ t ≤ 0) ∧ (Cog13.outcome p r t = .ok ↔ 0 < t) := by
  simp only [epv_tree]
  split_ifs <;> simp only [epv_cond, not_le] at * <;> simp_all [le_of_lt, not_le.mpr]

/-- Cog17: "No valid solution at t=0": NaN exactly for t ≤ 0 -/
theorem cog17_time_domain (p : Cog17.P) (r t : ℝ) :
    (Cog17.outcome p r t = .nan ↔ t ≤ 0) ∧ (Cog17.outcome p r t = .ok ↔ 0 < t) := by
  simp only [epv_tree]
  split_ifs <;> simp only [epv_cond, not_le] at * <;> simp_all [le_of_lt, not_le.mpr]

/-- Cog21: "No valid solution at t=0": NaN exactly for t ≤ 0 -/
theorem cog21_time_domain (p : Cog21.P) (r t : ℝ) :
    (Cog21.outcome p r t = .nan ↔ t ≤ 0) ∧ (Cog21.outcome p r t = .ok ↔ 0 < t) := by
  simp only [epv_tree]
  split_ifs <;> simp only [epv_cond, not_le] at * <;> simp_all [le_of_lt, not_le.mpr]

/-- Noh2: "The time t must be less than 1": ValueError exactly for t ≥ 1 -/
theorem noh2_time_domain (p : Noh2.P) (r t : ℝ) :
    (Noh2.outcome p r t = .raise "ValueError" ↔ 1 ≤ t) ∧ (Noh2.outcome p r t = .ok ↔ t < 1) := by
  simp only [epv_tree]
  split_ifs <;> simp only [epv_cond, not_le] at * <;> simp_all [not_lt.mpr]

/-- Noh2Cog (constructor and `_run` traced together): accepted exactly for an admissible geometry and t < 1;
every rejection is a ValueError, and the inner Cog1 NaN branch (τ = 1 - t ≤ 0) is unreachable -/
theorem noh2cog_time_domain (p : Noh2Cog.P) (r t : ℝ) :
    (Noh2Cog.outcome p r t = .ok ↔ (Geom123 p.geometry ∧ t < 1)) ∧
    (Noh2Cog.outcome p r t = .ok ∨ Noh2Cog.outcome p r t = .raise "ValueError") := by
  simp only [epv_tree, Geom123]
  split_ifs <;> simp only [epv_cond, not_le] at * <;> simp_all <;> (try linarith) <;> (try norm_num)

/-- Noh: no time or space domain is documented and none is tested -/
theorem noh_never_rejects (p : Noh.P) (r t : ℝ) : Noh.outcome p r t = .ok := by
  simp only [epv_tree] <;> (try split_ifs) <;> rfl

/-- Cog3: no time or space domain is documented and none is tested -/
theorem cog3_never_rejects (p : Cog3.P) (r t : ℝ) : Cog3.outcome p r t = .ok := by
  simp only [epv_tree] <;> (try split_ifs) <;> rfl

/-- Cog4: no time or space domain is documented and none is tested -/
theorem cog4_never_rejects (p : Cog4.P) (r t : ℝ) : Cog4.outcome p r t = .ok := by
  simp only [epv_tree] <;> (try split_ifs) <;> rfl

/-- Cog5: no time or space domain is documented and none is tested -/
theorem cog5_never_rejects (p : Cog5.P) (r t : ℝ) : Cog5.outcome p r t = .ok := by
  simp only [epv_tree] <;> (try split_ifs) <;> rfl

/-- Cog6: no time or space domain is documented and none is tested -/
theorem cog6_never_rejects (p : Cog6.P) (r t : ℝ) : Cog6.outcome p r t = .ok := by
  simp only [epv_tree] <;> (try split_ifs) <;> rfl

/-- Cog10: no time or space domain is documented and none is tested -/
theorem cog10_never_rejects (p : Cog10.P) (r t : ℝ) : Cog10.outcome p r t = .ok := by
  simp only [epv_tree] <;> (try split_ifs) <;> rfl

/-- Cog12: no time or space domain is documented and none is tested -/
theorem cog12_never_rejects (p : Cog12.P) (r t : ℝ) : Cog12.outcome p r t = .ok := by
  simp only [epv_tree] <;> (try split_ifs) <;> rfl

/-- Cog14: no time or space domain is documented and none is tested -/
theorem cog14_never_rejects (p : Cog14.P) (r t : ℝ) : Cog14.outcome p r t = .ok := by
  simp only [epv_tree] <;> (try split_ifs) <;> rfl

/-- Cog16: no time or space domain is documented and none is tested -/
theorem cog16_never_rejects (p : Cog16.P) (r t : ℝ) : Cog16.outcome p r t = .ok := by
  simp only [epv_tree] <;> (try split_ifs) <;> rfl

/-- Cog18: no time or space domain is documented and none is tested -/
theorem cog18_never_rejects (p : Cog18.P) (r t : ℝ) : Cog18.outcome p r t = .ok := by
  simp only [epv_tree] <;> (try split_ifs) <;> rfl

/-- Cog19: no time or space domain is documented and none is tested -/
theorem cog19_never_rejects (p : Cog19.P) (r t : ℝ) : Cog19.outcome p r t = .ok := by
  simp only [epv_tree] <;> (try split_ifs) <;> rfl

/-- Cog20: no time or space domain is documented and none is tested -/
theorem cog20_never_rejects (p : Cog20.P) (r t : ℝ) : Cog20.outcome p r t = .ok := by
  simp only [epv_tree] <;> (try split_ifs) <;> rfl
/-! ## C. no NaN / inf from the formulas on the admissible domain -/

/-- the leaves the theorems below name are all the `ok` leaves of the traced trees (a new leaf breaks the build) -/
theorem ok_leaves_pinned :
    Noh.okLeaves = [0, 1] ∧ Noh2.okLeaves = [1] ∧ Noh2Cog.okLeaves = [5, 7, 9] ∧ Cog1.okLeaves = [1] ∧
    Cog2.okLeaves = [1] ∧ Cog3.okLeaves = [0] ∧ Cog4.okLeaves = [0] ∧ Cog5.okLeaves = [0] ∧ Cog6.okLeaves = [0] ∧
    Cog8.okLeaves = [1] ∧ Cog9.okLeaves = [1] ∧ Cog11.okLeaves = [1, 2, 3] ∧ Cog12.okLeaves = [0, 1, 2] ∧
    Cog18.okLeaves = [0] ∧ Cog19.okLeaves = [0, 1] ∧ Cog21.okLeaves = [1, 2] :=
  ⟨rfl, rfl, rfl, rfl, rfl, rfl, rfl, rfl, rfl, rfl, rfl, rfl, rfl, rfl, rfl, rfl⟩
/-- Noh (γ > 1, u₀ < 0, r > 0, t ≥ 0) -/
theorem noh_well_defined (p : Noh.P) (r t : ℝ) (hγ : 1 < p.gamma) (hr : 0 < r) (ht : 0 ≤ t) :
    Noh.L0.WellDefined p r t ∧ Noh.L1.WellDefined p r t := by
  have hg : 0 < p.gamma - 1 := by linarith
  have h0 : 0 < p.gamma := by linarith
  unfold Noh.L0.WellDefined Noh.L1.WellDefined
  well_defined

/-- Noh2 (t < 1) -/
theorem noh2_well_defined (p : Noh2.P) (r t : ℝ) (ht : t < 1) : Noh2.L1.WellDefined p r t := by
  have h1 : 0 < 1 - t := by linarith
  unfold Noh2.L1.WellDefined
  well_defined

/-- Noh2Cog (t < 1, ρ₀ > 0, γ ≠ 1) -/
theorem noh2cog_well_defined (p : Noh2Cog.P) (r t : ℝ) (ht : t < 1) (hρ : 0 < p.rho0) (hγ : p.gamma ≠ 1) :
    Noh2Cog.L5.WellDefined p r t ∧ Noh2Cog.L7.WellDefined p r t ∧ Noh2Cog.L9.WellDefined p r t := by
  have h1 : 0 < 1 - t := by linarith
  have hg : p.gamma - 1 ≠ 0 := sub_ne_zero.mpr hγ
  unfold Noh2Cog.L5.WellDefined Noh2Cog.L7.WellDefined Noh2Cog.L9.WellDefined
  well_defined

theorem cog1_well_defined (p : Cog1.P) (r t : ℝ) (hr : 0 < r) (ht : 0 < t) (hρ : 0 < p.rho0) (hγ : p.gamma ≠ 1) :
    Cog1.L1.WellDefined p r t := by
  have hg : p.gamma - 1 ≠ 0 := sub_ne_zero.mpr hγ
  unfold Cog1.L1.WellDefined
  well_defined

theorem cog2_well_defined (p : Cog2.P) (r t : ℝ) (hr : 0 < r) (ht : 0 < t) (hρ : 0 < p.rho0) (hγ : 1 < p.gamma)
    (hΓ : 0 < p.Gamma) (hb : 0 < p.b + 2) (hgeo : 0 < p.geometry) : Cog2.L1.WellDefined p r t := by
  have hg : 0 < p.gamma - 1 := by linarith
  have hk : 0 < (p.geometry - 1) + 1 := by linarith
  unfold Cog2.L1.WellDefined
  well_defined

/-- Cog3 needs v ≠ 0 and v ≠ k - 1 (it divides by v and by Γ (k - v - 1)); neither is documented -/
theorem cog3_well_defined (p : Cog3.P) (r t : ℝ) (hr : 0 < r) (hρ : 0 < p.rho0) (hΓ : 0 < p.Gamma) (hv : p.v ≠ 0)
    (hkv : (p.geometry - 1) - p.v - 1 ≠ 0) (hgeo : 0 < p.geometry) : Cog3.L0.WellDefined p r t := by
  have hk : 0 < (p.geometry - 1) + 1 := by linarith
  have hlast : ((p.geometry - 1) - 1) / ((p.geometry - 1) + 1) - 1 ≠ 0 := by
    have : ((p.geometry - 1) - 1) / ((p.geometry - 1) + 1) - 1 = -2 / ((p.geometry - 1) + 1) := by
      field_simp; ring
    rw [this]; exact div_ne_zero (by norm_num) hk.ne'
  have he : 0 < Real.exp 1 := Real.exp_pos 1
  unfold Cog3.L0.WellDefined
  well_defined

/-- Cog4 in its documented regime 0 < γ < 1 -/
theorem cog4_well_defined (p : Cog4.P) (r t : ℝ) (hr : 0 < r) (hρ : 0 < p.rho0) (hΓ : 0 < p.Gamma)
    (hγ0 : 0 < p.gamma) (hγ : p.gamma < 1) : Cog4.L0.WellDefined p r t := by
  have hg : p.gamma - 1 ≠ 0 := by intro h; linarith
  unfold Cog4.L0.WellDefined
  well_defined

theorem cog5_well_defined (p : Cog5.P) (r t : ℝ) (hr : 0 < r) (hρ : 0 < p.rho0) (hΓ : 0 < p.Gamma) :
    Cog5.L0.WellDefined p r t := by
  unfold Cog5.L0.WellDefined
  well_defined

/-- Cog6 exists for |t| < τ -/
theorem cog6_well_defined (p : Cog6.P) (r t : ℝ) (hr : 0 < r) (hρ : 0 < p.rho0) (hΓ : 0 < p.Gamma)
    (hb : 0 < p.b + 2) (hgeo : 0 < p.geometry) (hτ : t ^ 2 < p.tau ^ 2) : Cog6.L0.WellDefined p r t := by
  have hx : 0 < p.tau ^ 2 - t ^ 2 := by linarith
  have hk : 0 < (p.geometry - 1) + 1 := by linarith
  have hg : 0 < ((p.geometry - 1) + 3) / ((p.geometry - 1) + 1) - 1 := by
    rw [sub_pos, lt_div_iff₀ hk]; linarith
  unfold Cog6.L0.WellDefined
  well_defined

theorem cog8_well_defined (p : Cog8.P) (r t : ℝ) (hr : 0 < r) (ht : 0 < t) (hρ : 0 < p.rho0) (hγ : p.gamma ≠ 1)
    (hab : p.beta - p.alpha + 4 ≠ 0) : Cog8.L1.WellDefined p r t := by
  have hg : p.gamma - 1 ≠ 0 := sub_ne_zero.mpr hγ
  unfold Cog8.L1.WellDefined
  well_defined

/-- Cog9 on the advised opacity range (α < 0, β ≥ 0 suffices) -/
theorem cog9_well_defined (p : Cog9.P) (r t : ℝ) (hr : 0 < r) (ht : 0 < t) (hρ : 0 < p.rho0) (hγ : 1 < p.gamma)
    (hΓ : 0 < p.Gamma) (hα : p.alpha < 0) (hβ : 0 ≤ p.beta) (hgeo : 1 ≤ p.geometry) : Cog9.L1.WellDefined p r t := by
  have hg : 0 < p.gamma - 1 := by linarith
  have hk : 0 < (p.geometry - 1) + 1 := by linarith
  have hα' : p.alpha ≠ 0 := hα.ne
  have hden : 2 * p.alpha - 2 * p.beta - (p.geometry - 1) - 7 ≠ 0 := by
    intro h; linarith
  unfold Cog9.L1.WellDefined
  well_defined

theorem cog11_well_defined (p : Cog11.P) (r t : ℝ) (hr : 0 < r) (ht : 0 < t) (hρ : 0 < p.rho0) (hγ : p.gamma ≠ 1) :
    Cog11.L1.WellDefined p r t ∧ Cog11.L2.WellDefined p r t ∧ Cog11.L3.WellDefined p r t := by
  have hg : p.gamma - 1 ≠ 0 := sub_ne_zero.mpr hγ
  unfold Cog11.L1.WellDefined Cog11.L2.WellDefined Cog11.L3.WellDefined
  well_defined

/-- Cog12 in the regime 0 < γ < 1 its docstring calls physical -/
theorem cog12_well_defined (p : Cog12.P) (r t : ℝ) (hr : 0 < r) (hρ : 0 < p.rho0) (hΓ : 0 < p.Gamma)
    (hγ0 : 0 < p.gamma) (hγ : p.gamma < 1) :
    Cog12.L0.WellDefined p r t ∧ Cog12.L1.WellDefined p r t ∧ Cog12.L2.WellDefined p r t := by
  have hg : p.gamma - 1 ≠ 0 := by intro h; linarith
  unfold Cog12.L0.WellDefined Cog12.L1.WellDefined Cog12.L2.WellDefined
  well_defined

theorem cog18_well_defined (p : Cog18.P) (r t : ℝ) (hr : 0 < r) (hρ : 0 < p.rho0) (hΓ : 0 < p.Gamma)
    (hα : p.alpha < 0) (hβ : 0 ≤ p.beta) (hgeo : 1 ≤ p.geometry) (hτ : t ^ 2 < p.tau ^ 2) :
    Cog18.L0.WellDefined p r t := by
  have hx : 0 < p.tau ^ 2 - t ^ 2 := by linarith
  have hk : 0 < (p.geometry - 1) + 1 := by linarith
  have hg : 0 < ((p.geometry - 1) + 3) / ((p.geometry - 1) + 1) - 1 := by
    rw [sub_pos, lt_div_iff₀ hk]; linarith
  have hα' : p.alpha ≠ 0 := hα.ne
  have hden : 2 * p.alpha - 2 * p.beta - (p.geometry - 1) - 7 ≠ 0 := by
    intro h; linarith
  unfold Cog18.L0.WellDefined
  well_defined

theorem cog19_well_defined (p : Cog19.P) (r t : ℝ) (hr : 0 < r) (ht : 0 ≤ t) (hρ : 0 < p.rho0) (hγ : 1 < p.gamma)
    (hΓ : 0 < p.Gamma) (hu : p.u0 < 0) : Cog19.L0.WellDefined p r t ∧ Cog19.L1.WellDefined p r t := by
  have hg : 0 < p.gamma - 1 := by linarith
  have h0 : 0 < p.gamma := by linarith
  have hx : 0 < r - p.u0 * t := by nlinarith
  unfold Cog19.L0.WellDefined Cog19.L1.WellDefined
  well_defined

theorem cog21_well_defined (p : Cog21.P) (r t : ℝ) (hr : 0 < r) (ht : 0 < t) (hρ : 0 < p.rho0) :
    Cog21.L1.WellDefined p r t ∧ Cog21.L2.WellDefined p r t := by
  unfold Cog21.L1.WellDefined Cog21.L2.WellDefined
  well_defined

/-- non-vacuity of the hypotheses above at the class defaults of Cog2 and Cog9 (with α = -3/2) -/
example : ∃ (p : Cog2.P) (r t : ℝ), 0 < r ∧ 0 < t ∧ 0 < p.rho0 ∧ 1 < p.gamma ∧ 0 < p.Gamma ∧ 0 < p.b + 2 ∧
    0 < p.geometry :=
  ⟨⟨40, 0, 0, 6 / 5, 0, 0, 7 / 5, 3, 0, 9 / 5⟩, 1, 1, by norm_num, by norm_num, by norm_num, by norm_num, by norm_num,
    by norm_num, by norm_num⟩

/-! ### non-vacuity of further hypothesis sets (class defaults; α = -3/2 inside the advised range) -/

example : ∃ (p : Noh.P) (r t : ℝ), 1 < p.gamma ∧ 0 < r ∧ 0 ≤ t := ⟨⟨5 / 3, 3, 1, -1⟩, 1, 0, by norm_num, by norm_num, le_refl _⟩

example : ∃ (p : Cog3.P) (r : ℝ), 0 < r ∧ 0 < p.rho0 ∧ 0 < p.Gamma ∧ p.v ≠ 0 ∧ (p.geometry - 1) - p.v - 1 ≠ 0 ∧
    0 < p.geometry :=
  ⟨⟨40, 0, 0, 6 / 5, 0, 0, 3, 0, 9 / 5, 1 / 2⟩, 1, by norm_num, by norm_num, by norm_num, by norm_num, by norm_num,
    by norm_num⟩

example : ∃ (p : Cog9.P) (r t : ℝ), 0 < r ∧ 0 < t ∧ 0 < p.rho0 ∧ 1 < p.gamma ∧ 0 < p.Gamma ∧ p.alpha < 0 ∧ 0 ≤ p.beta ∧
    1 ≤ p.geometry :=
  ⟨⟨40, 0, -3 / 2, 0, 1, 0, 0, 7 / 5, 3, 0, 9 / 5⟩, 1, 1, by norm_num, by norm_num, by norm_num, by norm_num, by norm_num,
    by norm_num, by norm_num, by norm_num⟩

example : ∃ (p : Cog19.P) (r t : ℝ), 0 < r ∧ 0 ≤ t ∧ 0 < p.rho0 ∧ 1 < p.gamma ∧ 0 < p.Gamma ∧ p.u0 < 0 :=
  ⟨⟨40, 0, 0, 0, 0, 7 / 5, 3, 0, 9 / 5, -23 / 10⟩, 1, 1, by norm_num, by norm_num, by norm_num, by norm_num, by norm_num,
    by norm_num⟩

/-- the catalogue is satisfiable: the class defaults of Noh and Cog16 are documented-valid -/
example : Noh.Documented ⟨3, -1⟩ ∧ Cog16.Documented ⟨6 / 5, 3⟩ := by
  constructor
  · exact ⟨Or.inr (Or.inr rfl), by norm_num⟩
  · exact ⟨Or.inr rfl, by norm_num⟩

end EPV.C20
