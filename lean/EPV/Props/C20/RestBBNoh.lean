/-
C20 (work package `c20rest`) — constructor of the black-box-EOS Noh solver `NohBlackBoxEos`.

`InitBBNoh` is the traced tree of `NohBlackBoxEos.__init__(eos, initial_conditions, geometry=…, u0=…, rho0=…)` with the
library's ideal-gas EOS object: the checks of `pressure_noh_residual.__init__` on the four entries of
`initial_conditions` followed by the class's own geometry check (22 leaves).

* `init_bbnoh_accepts_iff_coded`        : accepts ↔ Coded (geometry ∈ {1,2,3}; velocity < 0, density > 0, pressure ≥ 0,
                                          symmetry ∈ {0,1,2}, symmetry ≠ 0 → pressure = 0), both directions;
* `init_bbnoh_accepts_of_documented`    : Documented → accepts;
* `init_bbnoh_accepts_iff_partial`      : accepts ↔ ∃ u0-independent Coded — i.e. Documented p u0 ↔ accepts ∧ u0 < 0
                                          (`_partial`: the constructor never looks at `u0`; the full statement is FALSE,
                                          module `FindingRestBBNoh`);
* `init_bbnoh_rejects_with_ValueError`  : every *reachable* rejecting leaf raises ValueError — the three leaves that would
                                          raise the EOS library's `EosZeroDensityError` (from `eos.e(rho_0, P_0)`) are
                                          behind the check `rho_0 <= 0` and cannot be reached
                                          (`init_bbnoh_never_eos_error`).
-/
import EPV.Spec.AdmissibleRest
import EPV.Lemmas.C20Rest

set_option linter.all false

open EPV EPV.Gen EPV.Spec.AdmissibleRest

namespace EPV.C20

theorem init_bbnoh_accepts_iff_coded (p : InitBBNoh.P) : InitBBNoh.outcome p = .ok ↔ BBNoh.Coded p := by
  rest_ok_formula
  simp only [epv_cond, BBNoh.Coded, not_le, not_lt]
  constructor
  · intro h
    casesm* _ ∨ _, _ ∧ _ <;> simp_all
  · intro h
    casesm* _ ∨ _, _ ∧ _ <;> simp_all <;> norm_num <;> (try exact ne_of_gt ‹_›)

theorem init_bbnoh_accepts_of_documented (p : InitBBNoh.P) (u0 : ℝ) (h : BBNoh.Documented p u0) :
    InitBBNoh.outcome p = .ok := by
  rw [init_bbnoh_accepts_iff_coded]
  obtain ⟨g, _, v, d, pr, s, sp⟩ := h
  exact ⟨g, v, d, pr, s, sp⟩

/-- partial: what the property asks for is `accepts ↔ Documented p u0`; what holds is that acceptance is exactly the
documented restrictions *other than the sign of `u0`*, which the constructor never reads -/
theorem init_bbnoh_accepts_iff_partial (p : InitBBNoh.P) (u0 : ℝ) :
    BBNoh.Documented p u0 ↔ InitBBNoh.outcome p = .ok ∧ u0 < 0 := by
  rw [init_bbnoh_accepts_iff_coded]
  constructor
  · rintro ⟨g, u, v, d, pr, s, sp⟩
    exact ⟨⟨g, v, d, pr, s, sp⟩, u⟩
  · rintro ⟨⟨g, v, d, pr, s, sp⟩, u⟩
    exact ⟨g, u, v, d, pr, s, sp⟩

theorem init_bbnoh_loud (p : InitBBNoh.P) :
    Rest.Loud ["ValueError", "EosZeroDensityError"] (InitBBNoh.outcome p) := by
  rest_loud

theorem init_bbnoh_never_eos_error (p : InitBBNoh.P) : InitBBNoh.outcome p ≠ .raise "EosZeroDensityError" := by
  intro h
  simp only [epv_tree, Rest.ite_eq_raise_iff, Rest.ok_eq_raise, EPV.Out.raise.injEq, String.reduceEq,
    and_false, false_and, or_false, false_or, and_true, true_and] at h
  simp only [epv_cond, not_le, not_lt] at h
  casesm* _ ∨ _, _ ∧ _ <;> linarith

theorem init_bbnoh_rejects_with_ValueError (p : InitBBNoh.P) :
    InitBBNoh.outcome p = .ok ∨ InitBBNoh.outcome p = .raise "ValueError" := by
  rcases init_bbnoh_loud p with h | ⟨s, hs, h⟩
  · exact Or.inl h
  · simp only [List.mem_cons, List.mem_nil_iff, or_false] at hs
    rcases hs with rfl | rfl
    · exact Or.inr h
    · exact absurd h (init_bbnoh_never_eos_error p)

/-- non-vacuity: the defaults (geometry = 3, u0 = -1; initial conditions density 1, velocity -1, pressure 0, symmetry 2) -/
example : BBNoh.Documented { geometry := 3, ic_density := 1, ic_pressure := 0, ic_symmetry := 2, ic_velocity := -1 } (-1) := by
  simp only [BBNoh.Documented]; norm_num

end EPV.C20

/-! ## the four residual classes and the three geometry wrappers

Constructors alone (`InitRes…`, `InitBBNoh{Planar,Cyl,Sph}`), initial conditions symbolic, ideal-gas EOS object:
accepted ⇔ the restrictions their error messages state, both directions; the only reachable rejection is ValueError
(the `EosZeroDensityError` leaf of `eos.e(rho_0, P_0)` sits behind `rho_0 <= 0`). -/

namespace EPV.C20

/-- `accepts ↔ Documented` for a residual-class / wrapper constructor tree -/
macro "bb_iff " d:ident : tactic =>
  `(tactic| (rest_ok_formula
             simp only [epv_cond, $d:ident, NohIC, NohICSimplified, not_le, not_lt]
             constructor
             · intro h
               casesm* _ ∨ _, _ ∧ _ <;> simp_all
             · intro h
               casesm* _ ∨ _, _ ∧ _ <;> simp_all <;> norm_num <;> (try exact ne_of_gt ‹_›)))

/-- the reachable leaves are `ok` and `raise ValueError` -/
macro "bb_loud" : tactic =>
  `(tactic| exact Rest.ok_or_raise_of_loud (s := "ValueError") (t := "EosZeroDensityError") (by rest_loud) (by rest_unreachable))

theorem init_resenergy_accepts_iff (p : InitResEnergy.P) : InitResEnergy.outcome p = .ok ↔ ResEnergy.Documented p := by
  bb_iff ResEnergy.Documented
theorem init_respressure_accepts_iff (p : InitResPressure.P) :
    InitResPressure.outcome p = .ok ↔ ResPressure.Documented p := by
  bb_iff ResPressure.Documented
theorem init_ressenergy_accepts_iff (p : InitResSEnergy.P) : InitResSEnergy.outcome p = .ok ↔ ResSEnergy.Documented p := by
  bb_iff ResSEnergy.Documented
theorem init_resspressure_accepts_iff (p : InitResSPressure.P) :
    InitResSPressure.outcome p = .ok ↔ ResSPressure.Documented p := by
  bb_iff ResSPressure.Documented
theorem init_bbnohplanar_accepts_iff (p : InitBBNohPlanar.P) :
    InitBBNohPlanar.outcome p = .ok ↔ BBNohPlanar.Documented p := by
  bb_iff BBNohPlanar.Documented
theorem init_bbnohcyl_accepts_iff (p : InitBBNohCyl.P) : InitBBNohCyl.outcome p = .ok ↔ BBNohCyl.Documented p := by
  bb_iff BBNohCyl.Documented
theorem init_bbnohsph_accepts_iff (p : InitBBNohSph.P) : InitBBNohSph.outcome p = .ok ↔ BBNohSph.Documented p := by
  bb_iff BBNohSph.Documented

theorem init_resenergy_rejects_with_ValueError (p : InitResEnergy.P) :
    InitResEnergy.outcome p = .ok ∨ InitResEnergy.outcome p = .raise "ValueError" := by bb_loud
theorem init_respressure_rejects_with_ValueError (p : InitResPressure.P) :
    InitResPressure.outcome p = .ok ∨ InitResPressure.outcome p = .raise "ValueError" := by bb_loud
theorem init_ressenergy_rejects_with_ValueError (p : InitResSEnergy.P) :
    InitResSEnergy.outcome p = .ok ∨ InitResSEnergy.outcome p = .raise "ValueError" := by bb_loud
theorem init_resspressure_rejects_with_ValueError (p : InitResSPressure.P) :
    InitResSPressure.outcome p = .ok ∨ InitResSPressure.outcome p = .raise "ValueError" := by bb_loud
theorem init_bbnohplanar_rejects_with_ValueError (p : InitBBNohPlanar.P) :
    InitBBNohPlanar.outcome p = .ok ∨ InitBBNohPlanar.outcome p = .raise "ValueError" := by bb_loud
theorem init_bbnohcyl_rejects_with_ValueError (p : InitBBNohCyl.P) :
    InitBBNohCyl.outcome p = .ok ∨ InitBBNohCyl.outcome p = .raise "ValueError" := by bb_loud
theorem init_bbnohsph_rejects_with_ValueError (p : InitBBNohSph.P) :
    InitBBNohSph.outcome p = .ok ∨ InitBBNohSph.outcome p = .raise "ValueError" := by bb_loud

/-- non-vacuity: the default initial conditions (density 1, velocity -1, pressure 0) in every symmetry -/
example : NohIC (-1) 1 0 0 ∧ NohIC (-1) 1 0 1 ∧ NohIC (-1) 1 0 2 ∧ NohICSimplified (-1) 1 0 0 := by
  simp only [NohIC, NohICSimplified]; norm_num

end EPV.C20
