/-
C20 — Mader.

The class has no constructor checks and its documentation states no parameter ranges; the only
documented domain restriction is "There is no valid solution at t = 0": `mader` returns NaN for
t ≤ 0 (hand model EPV/Model/Mader.lean, tied to the code) and calls `rare` only for t > 0.

* `mader_rare_total`     : `rare` itself never raises on real arguments (every leaf of the trace returns
                           numbers): the only exceptions the real code can raise are arithmetic
                           (ZeroDivisionError for gam = 1 or d_cj = 0 — observation reported under C20:
                           not rejected at construction);
* `mader_plateau_no_nan` : for γ > 1, D > 0, p_cj > 0 and a piston slower than u_cj + 2 c_cj/(γ-1)
                           (0 < Z) the constant-state formulas have no zero denominator and no
                           non-positive base under a real exponent (`L4.WellDefined`);
* `mader_fan_no_nan`     : for γ > 1, D > 0, t > 0, dx > 0 and y > 0 at the lower end of the cell the
                           fan formulas are well defined (`L0.WellDefined`).
-/
import EPV.Lemmas.MaderProfile
import EPV.Lemmas.Bridge.DetonTactics

set_option linter.all false

open EPV EPV.Gen EPV.MaderL

namespace EPV.C20

theorem mader_rare_total (p : MaderRare.P) (xlab time : ℝ) : MaderRare.outcome p xlab time = .ok := by
  simp only [epv_tree]
  split_ifs <;> rfl

theorem mader_plateau_no_nan (p : MaderRare.P) (xlab time : ℝ) (hγ : 1 < p.gam) (hD : 0 < p.d_cj)
    (hp : 0 < p.p_cj) (hz : 0 < Z p) : MaderRare.L4.WellDefined p xlab time := by
  have h1 : 0 < p.gam - 1 := by linarith
  have h2 : 0 < p.gam + 1 := by linarith
  have h3 : 0 < p.gam := by linarith
  have hc : 0 < ccj p := by simp only [ccj]; positivity
  have hq : 0 < p.p_cj * Z p ^ bexp p / p.p_cj := div_pos (mul_pos hp (Real.rpow_pos_of_pos hz _)) hp
  have h1' := h1.ne'; have h2' := h2.ne'; have h3' := h3.ne'; have hp' := hp.ne'; have hc' := hc.ne'
  unfold MaderRare.L4.WellDefined
  epv_deton_wd_pool [Z, bexp, ccj, ucj]

theorem mader_fan_no_nan (p : MaderRare.P) (xlab time : ℝ) (hγ : 1 < p.gam) (hD : 0 < p.d_cj)
    (ht : 0 < time) (hdx : 0 < p.dx) (hy : 0 < Y p time (x1 p xlab time)) :
    MaderRare.L0.WellDefined p xlab time := by
  have h1 : 0 < p.gam - 1 := by linarith
  have h2 : 0 < p.gam + 1 := by linarith
  have h3 : 0 < p.gam := by linarith
  have hc : 0 < ccj p := by simp only [ccj]; positivity
  have ha : 0 < aa p time := aa_pos p time hγ hD ht
  have hy2 : 0 < Y p time (x1 p xlab time + p.dx) := Y_pos_of_le p time hγ hD ht (by linarith) hy
  have hb : 0 < bexp p + 1 := by have := bexp_pos p hγ; linarith
  have hd : 0 < dexp p + 1 := by have := dexp_pos p hγ; linarith
  have hcc : 0 < 2 * ccj p * time := by positivity
  have h1' := h1.ne'; have h2' := h2.ne'; have h3' := h3.ne'; have hc' := hc.ne'; have hcc' := hcc.ne'
  have hct : ccj p * time ≠ 0 := (mul_pos hc ht).ne'
  have hb' := (mul_pos (mul_pos hdx ha) hb).ne'
  have hd' := (mul_pos (mul_pos hdx ha) hd).ne'
  unfold MaderRare.L0.WellDefined
  epv_deton_wd_pool [Y, aa, bb, x1, xdet, bexp, dexp, ccj, ucj]

example : ∃ (p : MaderRare.P) (xlab time : ℝ), 1 < p.gam ∧ 0 < p.d_cj ∧ 0 < time ∧ 0 < p.p_cj ∧ 0 < p.dx ∧
    0 < Y p time (x1 p xlab time) ∧ 0 < Z p := by
  refine ⟨⟨800000, 5 / 11, 3, 300000000000, 0⟩, 1, 1 / 160000, by norm_num, by norm_num, by norm_num,
    by norm_num, by norm_num, ?_, ?_⟩ <;>
    (simp only [Y, aa, bb, x1, xdet, Z, ucj, ccj]; norm_num)

end EPV.C20
