/-
C20 (work package `c20rest`) — FINDING: Su-Olson serves requests outside its documented half space.

Documented (package docstring): "The Su-Olson problem is a one-dimensional, half-space, non-Equilibrium Marshak burn
wave. … T = T(z,t) and E = E(z,t) for 0 ≤ z < ∞", Marshak condition at z = 0.  Coded: `suolson` tests only
`if t <= 0` (→ NaN); for z < 0 the integrands are evaluated at a negative position and the call returns finite
temperatures that look like a solution (defaults, t = 1e-9 s, z = -0.5 cm: T_rad = 990.08 eV, T_mat = 990.07 eV).

Theorem: the traced call is served (`ok`) for every t > 0, whatever z — there is no space-domain test on any path.
Oracle site `SuOlson:z<0`.
-/
import EPV.Gen.SuOlson
import EPV.Tactics

set_option linter.all false

open EPV EPV.Gen

namespace EPV.C20

theorem finding_suolson_no_space_domain_check (p : SuOlson.P) (z t : ℝ) (ht : 0 < t) :
    SuOlson.outcome p z t = .ok := by
  simp only [epv_tree]
  split_ifs with h <;> first | rfl | (exfalso; simp only [epv_cond] at h; linarith)

/-- at the concrete witness z = -1/2 < 0, t = 10⁻⁹ -/
theorem finding_suolson_negative_z_served (p : SuOlson.P) :
    SuOlson.outcome p (-1 / 2) (1 / 1000000000) = .ok :=
  finding_suolson_no_space_domain_check p _ _ (by norm_num)

end EPV.C20
