/-
C20 — Cog4: the documented "gamma … (must be < 1)" is only printed as a warning; the class default violates it (finding).
-/
import EPV.Gen.InitCog4
import EPV.Lemmas.HydroTactics

set_option linter.all false

open EPV EPV.Gen EPV.Spec.AdmissibleHydro

namespace EPV.C20

/-- what `Cog4.__init__` enforces: the geometry flag only -/
theorem init_cog4_accepts_iff_partial (p : InitCog4.P) : InitCog4.outcome p = .ok ↔ Geom123 p.geometry := by
  init_iff

theorem init_cog4_accepts_documented (p : InitCog4.P) (h : Cog4.Documented p) : InitCog4.outcome p = .ok :=
  (init_cog4_accepts_iff_partial p).mpr h.1

theorem init_cog4_rejects_with_ValueError (p : InitCog4.P) :
    InitCog4.outcome p = .ok ∨ InitCog4.outcome p = .raise "ValueError" := by
  init_loud

/-- **Finding**: the class defaults of Cog4 (γ = 1.4, spherical) violate the documented "must be < 1" and are
accepted (the constructor prints "*** warning: gamma > 1 gives T < 0 ***" and goes on) -/
theorem finding_cog4_gamma_not_enforced :
    InitCog4.outcome ⟨7 / 5, 3⟩ = .ok ∧ ¬ Cog4.Documented ⟨7 / 5, 3⟩ := by
  constructor
  · exact (init_cog4_accepts_iff_partial _).mpr (Or.inr (Or.inr rfl))
  · simp only [Cog4.Documented]; norm_num

end EPV.C20
