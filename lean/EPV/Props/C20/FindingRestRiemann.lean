/-
C20 (work package `c20rest`) — FINDINGS / observations on the 1-D Riemann wrappers.

1. Vacuum.  A request whose rarefaction fans do not meet (`ur > u_RCVR`) is rejected by `NameError: name 'R' is not
   defined` from `eval("R,C,V,C,R(px,pl,rl,0,gl,self)")` at the first *call* — after printing 'the solution for this
   problem is not ready' — not by a ValueError and not at construction.  It is loud (no finite numbers are returned), so
   the second clause of the property holds; the restriction is stated nowhere but in that runtime message.
   Witness: pl = pr = 2, ρl = ρr = 1, γl = γr = 2 (sound speeds exactly 2), ul = -10, ur = 10.
   Oracle site `IGEOS_Solver:vacuum:NameError`.
2. Enumerated flag.  'problem': "Default is 'igeos'; 'JWL' is currently an option."  Both wrappers accept any string at
   construction (`InitRiemIGEOSBogus`, `InitRiemGenEOSBogus`: the real constructors traced with problem='bogus');
   the first call then dies with ZeroDivisionError (the sound speed of an unknown `problem` is 0).
   Oracle sites `IGEOS_Solver:problem-flag`, `GenEOS_Solver:problem-flag`.
-/
import EPV.Gen.RiemDriverClass
import EPV.Gen.InitRiemIGEOSBogus
import EPV.Gen.InitRiemGenEOSBogus
import EPV.Tactics

set_option linter.all false

open EPV EPV.Gen

namespace EPV.C20

noncomputable def riemVacuumW : RiemDriverClass.P :=
  { gl := 2, gr := 2, pl := 2, pr := 2, rl := 1, rr := 1, ul := -10, ur := 10 }

/-- the vacuum witness: `ur > u_RCVR` and the driver raises NameError (not ValueError) -/
theorem finding_riem_driver_vacuum_NameError :
    riemVacuumW.ul + 2 * Real.sqrt (riemVacuumW.gl * riemVacuumW.pl / riemVacuumW.rl) / (riemVacuumW.gl - 1) +
        2 * Real.sqrt (riemVacuumW.gr * riemVacuumW.pr / riemVacuumW.rr) / (riemVacuumW.gr - 1) < riemVacuumW.ur ∧
      RiemDriverClass.outcome riemVacuumW = .raise "NameError" := by
  have h4 : Real.sqrt 4 = 2 := by
    rw [show (4 : ℝ) = 2 ^ 2 by norm_num, Real.sqrt_sq (by norm_num)]
  constructor
  · simp only [riemVacuumW]; norm_num [h4]
  · simp only [epv_tree, epv_cond, riemVacuumW]
    norm_num [h4]

/-- both wrappers accept a `problem` flag outside the documented options -/
theorem finding_riem_flag_accepted (p : InitRiemIGEOSBogus.P) (q : InitRiemGenEOSBogus.P) :
    InitRiemIGEOSBogus.outcome p = .ok ∧ InitRiemGenEOSBogus.outcome q = .ok := ⟨rfl, rfl⟩

end EPV.C20
