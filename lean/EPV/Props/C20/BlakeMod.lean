/-
C20 (Blake share) — `set_elastic_params`: the traced call accepts a pair of elastic parameters exactly when
the documentation says it is valid.

`Spec.Blake.DocumentedPair k₁ k₂ x y` is the hand-written reading of the `set_elastic_params` docstring:
(1) "Each user-specified modulus parameter is positive" (a given Poisson ratio lies in (-1, 1/2)), and
(2) "Each pair of user-specified parameters define a material which has a positive-definite (PD) strain
energy function" — some material with G > 0, 3λ + 2G > 0 has these two values.  For the pairs (G, E) and
(E, K) the code additionally rejects a relative band of width 1e-13 next to the singular lines E = 3G,
E = 9K, as the docstrings of `term_nan_lame` / `term_nan_poisson` say ("to within a small rel.
tolerance"); that clause is part of the documented predicate (`NearSingular`).  For the pairs (λ, K)
and (G, M) the corresponding band lies inside the non-PD region and needs no clause (proved).
For the pair (E, M) two materials can share the values; the code accepts iff one exists.

Theorems `mod<XY>_accepts_iff`: `BlakeMod<XY>.outcome p = .ok ↔ DocumentedPair …`, both directions, all reals
(proofs in `EPV/Lemmas/BlakeAccept.lean`).  Every other path raises `ValueError`: `EPV.C15.mod<XY>_raise`.
-/
import EPV.Gen.BlakeModLG
import EPV.Gen.BlakeModLE
import EPV.Gen.BlakeModLNu
import EPV.Gen.BlakeModLK
import EPV.Gen.BlakeModLM
import EPV.Gen.BlakeModGE
import EPV.Gen.BlakeModGNu
import EPV.Gen.BlakeModGK
import EPV.Gen.BlakeModGM
import EPV.Gen.BlakeModENu
import EPV.Gen.BlakeModEK
import EPV.Gen.BlakeModEM
import EPV.Gen.BlakeModNuK
import EPV.Gen.BlakeModNuM
import EPV.Gen.BlakeModKM
import EPV.Spec.Blake
import EPV.Lemmas.Blake
import EPV.Lemmas.BlakeModuli
import EPV.Lemmas.BlakeFields
import EPV.Lemmas.BlakeAccept
import EPV.Tactics

set_option linter.all false

open EPV EPV.Gen EPV.Spec.Blake EPV.Blake

namespace EPV.C20

/-- pair (λ, G): `set_elastic_params` **accepts ⇔ the pair is documented-valid** -/
theorem modLG_accepts_iff (p : BlakeModLG.P) :
    BlakeModLG.outcome p = .ok ↔ DocumentedPair .lame .shear p.lame_mod p.shear_mod :=
  EPV.Blake.modLG_accepts_iff p

/-- pair (λ, E): `set_elastic_params` **accepts ⇔ the pair is documented-valid** -/
theorem modLE_accepts_iff (p : BlakeModLE.P) :
    BlakeModLE.outcome p = .ok ↔ DocumentedPair .lame .youngs p.lame_mod p.youngs_mod :=
  EPV.Blake.modLE_accepts_iff p

/-- pair (λ, ν): `set_elastic_params` **accepts ⇔ the pair is documented-valid** -/
theorem modLNu_accepts_iff (p : BlakeModLNu.P) :
    BlakeModLNu.outcome p = .ok ↔ DocumentedPair .lame .poisson p.lame_mod p.poisson_ratio :=
  EPV.Blake.modLNu_accepts_iff p

/-- pair (λ, K): `set_elastic_params` **accepts ⇔ the pair is documented-valid** -/
theorem modLK_accepts_iff (p : BlakeModLK.P) :
    BlakeModLK.outcome p = .ok ↔ DocumentedPair .lame .bulk p.lame_mod p.bulk_mod :=
  EPV.Blake.modLK_accepts_iff p

/-- pair (λ, M): `set_elastic_params` **accepts ⇔ the pair is documented-valid** -/
theorem modLM_accepts_iff (p : BlakeModLM.P) :
    BlakeModLM.outcome p = .ok ↔ DocumentedPair .lame .long p.lame_mod p.long_mod :=
  EPV.Blake.modLM_accepts_iff p

/-- pair (G, E): `set_elastic_params` **accepts ⇔ the pair is documented-valid** -/
theorem modGE_accepts_iff (p : BlakeModGE.P) :
    BlakeModGE.outcome p = .ok ↔ DocumentedPair .shear .youngs p.shear_mod p.youngs_mod ∧ ¬ NearSingular p.youngs_mod (3 * p.shear_mod) :=
  EPV.Blake.modGE_accepts_iff p

/-- pair (G, ν): `set_elastic_params` **accepts ⇔ the pair is documented-valid** -/
theorem modGNu_accepts_iff (p : BlakeModGNu.P) :
    BlakeModGNu.outcome p = .ok ↔ DocumentedPair .shear .poisson p.shear_mod p.poisson_ratio :=
  EPV.Blake.modGNu_accepts_iff p

/-- pair (G, K): `set_elastic_params` **accepts ⇔ the pair is documented-valid** -/
theorem modGK_accepts_iff (p : BlakeModGK.P) :
    BlakeModGK.outcome p = .ok ↔ DocumentedPair .shear .bulk p.shear_mod p.bulk_mod :=
  EPV.Blake.modGK_accepts_iff p

/-- pair (G, M): `set_elastic_params` **accepts ⇔ the pair is documented-valid** -/
theorem modGM_accepts_iff (p : BlakeModGM.P) :
    BlakeModGM.outcome p = .ok ↔ DocumentedPair .shear .long p.shear_mod p.long_mod :=
  EPV.Blake.modGM_accepts_iff p

/-- pair (E, ν): `set_elastic_params` **accepts ⇔ the pair is documented-valid** -/
theorem modENu_accepts_iff (p : BlakeModENu.P) :
    BlakeModENu.outcome p = .ok ↔ DocumentedPair .youngs .poisson p.youngs_mod p.poisson_ratio :=
  EPV.Blake.modENu_accepts_iff p

/-- pair (E, K): `set_elastic_params` **accepts ⇔ the pair is documented-valid** -/
theorem modEK_accepts_iff (p : BlakeModEK.P) :
    BlakeModEK.outcome p = .ok ↔ DocumentedPair .youngs .bulk p.youngs_mod p.bulk_mod ∧ ¬ NearSingular p.youngs_mod (9 * p.bulk_mod) :=
  EPV.Blake.modEK_accepts_iff p

/-- pair (E, M): `set_elastic_params` **accepts ⇔ the pair is documented-valid** -/
theorem modEM_accepts_iff (p : BlakeModEM.P) :
    BlakeModEM.outcome p = .ok ↔ DocumentedPair .youngs .long p.youngs_mod p.long_mod :=
  EPV.Blake.modEM_accepts_iff p

/-- pair (ν, K): `set_elastic_params` **accepts ⇔ the pair is documented-valid** -/
theorem modNuK_accepts_iff (p : BlakeModNuK.P) :
    BlakeModNuK.outcome p = .ok ↔ DocumentedPair .poisson .bulk p.poisson_ratio p.bulk_mod :=
  EPV.Blake.modNuK_accepts_iff p

/-- pair (ν, M): `set_elastic_params` **accepts ⇔ the pair is documented-valid** -/
theorem modNuM_accepts_iff (p : BlakeModNuM.P) :
    BlakeModNuM.outcome p = .ok ↔ DocumentedPair .poisson .long p.poisson_ratio p.long_mod :=
  EPV.Blake.modNuM_accepts_iff p

/-- pair (K, M): `set_elastic_params` **accepts ⇔ the pair is documented-valid** -/
theorem modKM_accepts_iff (p : BlakeModKM.P) :
    BlakeModKM.outcome p = .ok ↔ DocumentedPair .bulk .long p.bulk_mod p.long_mod :=
  EPV.Blake.modKM_accepts_iff p

/-- non-vacuity: the default material satisfies the documented predicate for the pair (λ, K) -/
example : DocumentedPair .lame .bulk (25 : ℝ) (125 / 3) :=
  (modLK_accepts_iff { lame_mod := 25, bulk_mod := 125 / 3 }).mp (by
    simp only [epv_tree, epv_cond]; norm_num)

end EPV.C20
