/-
C20 (Sedov share, work package sedov3) — FINDING: admissible density exponents just OUTSIDE the band
|denom3| ≤ 1e-4 (resp. |denom2| ≤ 1e-4) of a special singularity are not served: the constructor
raises OverflowError (Python floats) or silently returns alpha = nan / inf (NumPy floats; the next
call then raises UnboundLocalError or returns the AMBIENT state everywhere with r2 = 0).
Witness `Sedov(geometry=3, gamma=1.4, omega=1.8005)` (denom3 = -5e-4), reproduced on the real code on
every run by the oracle `o_sedov3.near_special`; observed failing range 1e-4 < |denom| ≲ 2e-4 … 3e-3
depending on (k, γ), on both sides of ω2 and of ω3, all geometries.

The property ("valid requests inside the domain never produce NaN, infinity or finite garbage; what is
not served is rejected loudly with ValueError") is FALSE there, and the defect is PURELY FLOATING
POINT — the real-number model cannot exhibit it, and this file proves exactly that:

  * the witness is documented-valid, the traced constructor (generated model SedovInit) accepts it and
    takes the path solution_type 'standard', special_singularity 'none' (outside the band);
  * on the whole branch v0 < v < v2 every power base of the traced closed forms is a positive real
    (`Std.Bases`): the traced expressions are well-defined in ℝ (and the energy theorem
    `EPV.C11.sedov_energy_code_standard` applies to this very parameter set);
  * but the exponents are a5 = 3357.6, a4 + a1 ω ≈ -3357.9 (~ 1/denom3): at v = 0.45 the factor
    x4^a5 of `g_fun` exceeds 2^1024 (the largest double is < 2^1024: Python's float.__pow__ raises
    OverflowError, NumPy returns inf) while its partner x3^(a4 + a1 ω) is below 2^(-1074) (the smallest
    subnormal double: it underflows to 0), so the O(1) product g is computed as inf · 0 = nan.
-/
import EPV.Lemmas.SedovODEStd
import EPV.Lemmas.SedovInit

set_option linter.all false
set_option maxRecDepth 100000

open EPV EPV.Gen EPV.Sedov EPV.Spec.SedovODE Set

namespace EPV.C20

noncomputable section

/-- `Sedov(geometry=3, gamma=1.4, omega=1.8005)`, other parameters default; (eblast, eval1_quad,
eval2_quad, gamma, geometry, omega, rho0) -/
def wNear : SedovInit.P := ⟨851072/1000000, 1, 1, 7/5, 3, 3601/2000, 1⟩
/-- the same parameters for the SedovConsts trace (eblast, gamma, geometry, omega, rho0) -/
def wNearC : SedovConsts.P := ⟨851072/1000000, 7/5, 3, 3601/2000, 1⟩

theorem wNear_documented : Documented wNear := by
  refine ⟨Or.inr (Or.inr rfl), ?_, ?_, ?_, ?_, ?_⟩ <;> norm_num [wNear]

/-- the constructor path: standard type (v2 < vstar - 1e-4), neither special-singularity test fires:
|denom2| = 1.2793 and |denom3| = 5e-4 are both > 1e-4 -/
theorem wNear_path : SedovInit.c10 wNear ∧ ¬ SedovInit.c9 wNear ∧ ¬ SedovInit.c12 wNear := by
  -- substitute the witness and evaluate, whatever form the Python gives the tests (no literal `show`)
  refine ⟨?_, ?_, ?_⟩ <;> (simp only [epv_cond, wNear, abs_le]; norm_num)

theorem wNearC_accepted : AcceptedC wNearC := by
  refine ⟨Or.inr (Or.inr rfl), ?_, ?_, ?_, ?_, ?_⟩ <;> norm_num [wNearC]

/-- the constants the real constructor hands to `sedov_funcs_standard` at the witness -/
theorem wNear_consts : StdConsts (stdFuncs wNearC) (7/5) 3 (3601/2000) := by
  have h9 : ¬ SedovConsts.c9 wNearC := by
    rw [consts_c9]; show ¬ |K.denom2 (7/5) 3 (3601/2000)| ≤ _
    unfold K.denom2; rw [abs_of_pos (by norm_num)]; norm_num
  have h12 : ¬ SedovConsts.c12 wNearC := by
    rw [consts_c12]; show ¬ |K.denom3 (7/5) 3 (3601/2000)| ≤ _
    unfold K.denom3; rw [abs_of_neg (by norm_num)]; norm_num
  exact consts_none wNearC wNearC_accepted h9 h12

/-- **Finding.**  Valid, accepted, outside the band, well-defined in ℝ on the whole branch — and two
factors of the density similarity function leave the range of doubles in opposite directions. -/
theorem finding_sedov_near_special_overflow :
    Documented wNear ∧ SedovInit.outcome wNear = .ok
    ∧ (SedovInit.c10 wNear ∧ ¬ SedovInit.c9 wNear ∧ ¬ SedovInit.c12 wNear)
    ∧ (∀ v ∈ Ioo (v0 (7/5) 3 (3601/2000)) (v2 (7/5) 3 (3601/2000)), Std.Bases (stdFuncs wNearC) v)
    ∧ (2:ℝ) ^ (1024 : ℕ) < ((stdFuncs wNearC).b_val * (1 - 1 / 2 * (stdFuncs wNearC).xg2 * (9/20))) ^ (stdFuncs wNearC).a5
    ∧ ((stdFuncs wNearC).d_val * (1 - (stdFuncs wNearC).e_val * (9/20)))
        ^ ((stdFuncs wNearC).a4 + (stdFuncs wNearC).a1 * (stdFuncs wNearC).omega) < 1 / (2:ℝ) ^ (1074 : ℕ) := by
  have hC := wNear_consts
  have P : Params (7/5) 3 (3601/2000) := ⟨by norm_num, by norm_num, by norm_num⟩
  have htype : v2 (7/5) 3 (3601/2000) < vstar (7/5) 3 := by norm_num [v2, vstar]
  refine ⟨wNear_documented, sedov_accepted_ok _ wNear_documented.accepted, wNear_path, ?_, ?_, ?_⟩
  · intro v hv
    exact Std.bases hC (StdInterior.toSigns ⟨P, htype, hv.1, hv.2⟩)
  · -- x4 = 6 (1 - 3.1995 · 0.45 / 2) = 1.680675,  a5 = 3357.6 ≥ 2048,  x4² > 2
    rw [hC.b_val, hC.xg2, hC.a5]
    have hx : K.b_val (7/5) * (1 - 1 / 2 * (3 + 2 - 3601/2000) * (9/20)) = 67227/40000 := by
      unfold K.b_val; norm_num
    have ha : K.a5 (7/5) 3 (3601/2000) = 16788/5 := by unfold K.a5; norm_num
    rw [hx, ha]
    have h1 : (1:ℝ) ≤ 67227/40000 := by norm_num
    calc (2:ℝ) ^ (1024 : ℕ) < ((67227/40000 : ℝ) ^ 2) ^ (1024 : ℕ) := by
            apply pow_lt_pow_left₀ (by norm_num) (by norm_num) (by norm_num)
      _ = (67227/40000 : ℝ) ^ ((2048 : ℕ) : ℝ) := by rw [← pow_mul, Real.rpow_natCast]
      _ ≤ (67227/40000 : ℝ) ^ (16788/5 : ℝ) := by
            apply Real.rpow_le_rpow_of_exponent_le h1; norm_num
  · -- x3 = d_val (1 - 1.6 · 0.45) ≥ 1.68,  a4 + a1 ω ≤ -2148,  x3² > 2
    rw [hC.d_val, hC.e_val, hC.a4, hC.a1, hC.omega]
    have hx : K.d_val (7/5) 3 (3601/2000) * (1 - K.e_val (7/5) 3 * (9/20)) = 134379/79925 := by
      unfold K.d_val K.e_val; norm_num
    have he : K.a4 (7/5) 3 (3601/2000) + K.a1 (7/5) 3 (3601/2000) * (3601/2000) ≤ -(2148 : ℝ) := by
      unfold K.a4 K.a1 K.a2; norm_num
    rw [hx]
    have h1 : (1:ℝ) ≤ 134379/79925 := by norm_num
    have hpos : (0:ℝ) < 134379/79925 := by norm_num
    calc (134379/79925 : ℝ) ^ (K.a4 (7/5) 3 (3601/2000) + K.a1 (7/5) 3 (3601/2000) * (3601/2000))
        ≤ (134379/79925 : ℝ) ^ (-(2148 : ℝ)) := Real.rpow_le_rpow_of_exponent_le h1 he
      _ = 1 / ((134379/79925 : ℝ) ^ 2) ^ (1074 : ℕ) := by
            rw [Real.rpow_neg hpos.le, ← pow_mul, one_div]
            congr 1
            rw [show (2148 : ℝ) = ((2 * 1074 : ℕ) : ℝ) by norm_num, Real.rpow_natCast]
      _ < 1 / (2:ℝ) ^ (1074 : ℕ) := by
            apply one_div_lt_one_div_of_lt (by positivity)
            apply pow_lt_pow_left₀ (by norm_num) (by norm_num) (by norm_num)

set_option exponentiation.threshold 2000 in
/-- the two thresholds are the ones of IEEE doubles: every finite double is < 2^1024 and every positive
double is ≥ 2^(-1074) -/
example : (1.7976931348623157e308 : ℝ) < 2 ^ (1024 : ℕ) ∧ (1 : ℝ) / 2 ^ (1074 : ℕ) < 5e-324 := by
  constructor
  · norm_num
  · rw [div_lt_iff₀ (by positivity)]; norm_num

end

end EPV.C20
