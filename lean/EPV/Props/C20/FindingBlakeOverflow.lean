/-
C20 — FINDING (Blake): `OverflowError` inside the documented domain.

`Blake._run` computes the radial strain as

    eacts  = ma.exp( n * (tsnap + cavrad / cl))
    emacts = ma.exp(-n * (tsnap + cavrad / cl))
    radstrn = emacts * k1onr2_r * (-2.0 * eacts * b * cl**2 + enrc_r * (sinterm_r - costerm_r)) / (radii * b * cl**2)

i.e. it multiplies e^{-x} by (… e^{+x} …) with x = n (t + a/c_L).  In exact arithmetic the two factors
cancel (the theorems of `Props/C15/Fields.lean` hold for every t ≥ 0), but `math.exp(x)` raises
`OverflowError` as soon as x > log(DBL_MAX) ≈ 709.78.  At the default problem n = 100000/3 s⁻¹ and
a/c_L = 2·10⁻⁵ s, so every call with t ≥ 0.0213 s fails — for every radius, also far ahead of the front
where the answer is identically zero — although the solution is finite and the documentation puts no upper
limit on t.

Just below that threshold nothing is raised but the *product* `2 b c_L² e^{+x}` already exceeds DBL_MAX
(from x ≈ 681 on): Python floats overflow silently to `inf`, the strain comes back as `-inf`, the stresses as
`-inf` and the density as `-0.0` — at the default problem for 0.0205 s ≲ t < 0.0213 s.

Below: (1) the traced strain formula has exactly this shape (so the statement is about the code, not about a
paraphrase); (2) at the default problem the argument of the growing exponential exceeds 710 for every
t ≥ 0.0213; (3) for every t ≥ 0.0206 the product `2 b c_L² e^{+x}` exceeds 2¹⁰²⁴ > DBL_MAX.  Reproduced on the
real code by the oracle sites `Blake:overflow` (`Blake()(r, 0.022)` → OverflowError: math range error) and
`Blake:overflow:nonfinite` (`Blake()(r, 0.0206)` → strain_rr = -inf, density = -0.0, no exception).
-/
import Mathlib.Analysis.Complex.ExponentialBounds
import EPV.Gen.BlakeFields
import EPV.Spec.Blake
import EPV.Lemmas.Blake
import EPV.Lemmas.BlakeFields
import EPV.Tactics
import EPV.Lemmas.Bridge.DetonTactics

set_option linter.all false

open EPV EPV.Gen EPV.Spec.Blake EPV.Blake

namespace EPV.C20

/-- leaf pin -/
theorem overflow_leaves : BlakeFields.okLeaves = [1, 2, 3] := rfl

/-- the traced radial strain (leaf 1) is  e^{-x} · k₁/r² · ( -2 e^{+x} b c² + e^{n r/c}(…) ) / (r b c²)
with x = n (t + a/c): the growing exponential `Real.exp (nn p * (t + a / cL p))` is evaluated on its own -/
theorem L1_strain_rr_shape (p : BlakeFields.P) (r t : ℝ) :
    BlakeFields.L1.strain_rr p r t =
      Real.exp (-nn p * (t + p.cavity_radius / cL p)) *
          (p.cavity_radius * p.pressure_scale / (p.ref_density * (bb p ^ 2 + nn p ^ 2)) / (r * r)) *
        (-2 * Real.exp (nn p * (t + p.cavity_radius / cL p)) * bb p * cL p ^ 2 +
          Real.exp (nn p / cL p * r) *
            ((2 * nn p * cL p ^ 2 - 2 * cL p * (bb p ^ 2 + nn p ^ 2) * r + nn p * (bb p ^ 2 + nn p ^ 2) * (r * r)) *
                Real.sin (bb p * (t - (r - p.cavity_radius) / cL p)) -
              bb p * (-2 * cL p ^ 2 + (bb p ^ 2 + nn p ^ 2) * (r * r)) *
                Real.cos (bb p * (t - (r - p.cavity_radius) / cL p)))) /
      (r * bb p * cL p ^ 2) := by
  unfold bb nn cL
  simp only [epv_leaf]
  -- (proof only: the equality holds up to ring normalisation inside and outside the exp / sin / cos / pow atoms,
  -- so a harmless reassociation of the Python formula does not break it; the two exponentials stay separate atoms)
  epv_deton_nf_eq

theorem dflt_nn : nn dflt = 100000 / 3 := by
  unfold nn
  rw [dflt_cL]
  norm_num [dflt]

/-- FINDING: at the default problem, for every t ≥ 0.0213 s the argument of the growing exponential
exceeds 710 > log(DBL_MAX): `math.exp` overflows although the exact strain is finite -/
theorem finding_overflow_argument (t : ℝ) (ht : 213 / 10000 ≤ t) :
    710 < nn dflt * (t + dflt.cavity_radius / cL dflt) := by
  rw [dflt_nn, dflt_cL]
  have : dflt.cavity_radius = 1 / 10 := rfl
  rw [this]
  nlinarith

theorem exp_687_gt : (2 : ℝ) ^ 989 < Real.exp 687 := by
  have h1 : (2.7182818283 : ℝ) < Real.exp 1 := Real.exp_one_gt_d9
  have e25 : (2 : ℝ) ^ 36 < Real.exp 25 := by
    have : Real.exp 25 = Real.exp 1 ^ 25 := by rw [← Real.exp_nat_mul]; norm_num
    rw [this]
    calc (2 : ℝ) ^ 36 < (2.7182818283 : ℝ) ^ 25 := by norm_num
      _ < Real.exp 1 ^ 25 := pow_lt_pow_left₀ h1 (by norm_num) (by norm_num)
  have e12 : (2 : ℝ) ^ 17 < Real.exp 12 := by
    have : Real.exp 12 = Real.exp 1 ^ 12 := by rw [← Real.exp_nat_mul]; norm_num
    rw [this]
    calc (2 : ℝ) ^ 17 < (2.7182818283 : ℝ) ^ 12 := by norm_num
      _ < Real.exp 1 ^ 12 := pow_lt_pow_left₀ h1 (by norm_num) (by norm_num)
  have : Real.exp 687 = Real.exp 25 ^ 27 * Real.exp 12 := by
    rw [← Real.exp_nat_mul, ← Real.exp_add]; norm_num
  rw [this]
  calc (2 : ℝ) ^ 989 = ((2 : ℝ) ^ 36) ^ 27 * (2 : ℝ) ^ 17 := by rw [← pow_mul, ← pow_add]
    _ < Real.exp 25 ^ 27 * Real.exp 12 :=
        mul_lt_mul'' (pow_lt_pow_left₀ e25 (by positivity) (by norm_num)) e12 (by positivity) (by positivity)

theorem dflt_bb_ge : (47140 : ℝ) ≤ bb dflt := by
  unfold bb
  rw [dflt_cL, rpow_two_float, rpow_two_float, rpow_half_eq_sqrt]
  apply Real.le_sqrt_of_sq_le
  norm_num [dflt]

/-- FINDING (silent variant): at the default problem, for every t ≥ 0.0206 s the intermediate product
`2 · eacts · b · cl²` of the strain formula exceeds 2¹⁰²⁴ > DBL_MAX ≈ 1.797·10³⁰⁸ — in floating point it is `inf`
(no exception for t < 0.0213 s), although the exact strain is finite -/
theorem finding_overflow_product (t : ℝ) (ht : 206 / 10000 ≤ t) :
    (2 : ℝ) ^ 1024 < 2 * Real.exp (nn dflt * (t + dflt.cavity_radius / cL dflt)) * bb dflt * cL dflt ^ 2 := by
  have hb := dflt_bb_ge
  have hx : (687 : ℝ) ≤ nn dflt * (t + dflt.cavity_radius / cL dflt) := by
    rw [dflt_nn, dflt_cL]
    have : dflt.cavity_radius = 1 / 10 := rfl
    rw [this]
    nlinarith
  have he : (2 : ℝ) ^ 989 < Real.exp (nn dflt * (t + dflt.cavity_radius / cL dflt)) :=
    lt_of_lt_of_le exp_687_gt (Real.exp_le_exp.mpr hx)
  rw [dflt_cL] at he ⊢
  have h2 : (2 : ℝ) ^ 1024 = 2 ^ 989 * 2 ^ 35 := by rw [← pow_add]
  rw [h2]
  have h35 : (2 : ℝ) ^ 35 < 2 * 47140 * 5000 ^ 2 := by norm_num
  have hpos : (0 : ℝ) < 2 ^ 989 := by positivity
  calc (2 : ℝ) ^ 989 * 2 ^ 35 < Real.exp (nn dflt * (t + dflt.cavity_radius / 5000)) * (2 * 47140 * 5000 ^ 2) :=
        mul_lt_mul'' he h35 hpos.le (by positivity)
    _ ≤ 2 * Real.exp (nn dflt * (t + dflt.cavity_radius / 5000)) * bb dflt * 5000 ^ 2 := by
        clear he h2 h35 hpos
        have hep := Real.exp_pos (nn dflt * (t + dflt.cavity_radius / 5000))
        generalize Real.exp (nn dflt * (t + dflt.cavity_radius / 5000)) = e at hep ⊢
        calc e * (2 * 47140 * 5000 ^ 2) = 2 * e * 5000 ^ 2 * 47140 := by ring
          _ ≤ 2 * e * 5000 ^ 2 * bb dflt := mul_le_mul_of_nonneg_left hb (by positivity)
          _ = 2 * e * bb dflt * 5000 ^ 2 := by ring

/-- … while t = 0.0213 s is an ordinary time of the documented domain (the default problem is admissible,
and r = 0.2 m lies behind the front then) -/
example : Admissible dflt ∧ dflt.cavity_radius < (1 / 5 : ℝ) ∧ 0 < tred dflt (1 / 5) (213 / 10000) := by
  refine ⟨dflt_admissible, by norm_num [dflt], ?_⟩
  unfold tred; rw [dflt_cL]; norm_num [dflt]

end EPV.C20
