/-
C20 — elastic–plastic piston: documented restrictions enforced by ValueError.

Restrictions stated by `ep_piston.py` (error messages): shear modulus G > 0, yield stress Y > 0, initial
density rho0 > 0, piston velocity up ≥ 0, `model` one of 'hypo', 'hyperIfin', 'hyperFin' (a string
test on the concrete value: covered by the constructor oracle; each model is traced separately).

* `<m>_accepts_iff`, `<m>_rejects_loudly`: the traced constructor succeeds iff G, Y, rho0 > 0 and up ≥ 0;
  every rejection is a ValueError; the boundary values G = 0, Y = 0, rho0 = 0 are rejected, up = 0 accepted;
* `epprun_domain`: `_run` raises (ValueError) exactly when the elastic wave has left the window,
  t > xmax / wv_el, and otherwise returns one of the three constant states.  `xmax` is the largest
  point *of the batch* (C06 finding: the same (x, t) raises or returns depending on the other points).
Observations (reported): no check that the piston is fast enough to yield the material (up > vel_y),
nor Y < 2 G for 'hyperIfin'; outside these the constructor returns finite numbers that are not a
solution (C17/EPPiston.lean states the hypotheses).
-/
import EPV.Gen.EPPistonHypo
import EPV.Gen.EPPistonIfin
import EPV.Gen.EPPistonFin
import EPV.Gen.EPPistonRun
import EPV.Tactics

set_option linter.all false

open EPV EPV.Gen

namespace EPV.C20

theorem hypo_accepts_iff (p : EPPistonHypo.P) :
    EPPistonHypo.outcome p = .ok ↔ (0 < p.G ∧ 0 < p.Y ∧ 0 < p.rho0 ∧ 0 ≤ p.up) := by
  simp only [epv_tree]
  constructor
  · intro h
    split_ifs at h <;> first
      | epv_absurd
      | (simp only [epv_cond, not_le, not_lt] at *; exact ⟨by assumption, by assumption, by assumption, by assumption⟩)
  · rintro ⟨a, b, c, d⟩
    have k0 : ¬ EPPistonHypo.c0 p := by simp only [epv_cond]; linarith
    have k1 : ¬ EPPistonHypo.c1 p := by simp only [epv_cond]; linarith
    have k2 : ¬ EPPistonHypo.c2 p := by simp only [epv_cond]; linarith
    have k3 : ¬ EPPistonHypo.c3 p := by simp only [epv_cond]; linarith
    simp only [if_neg k0, if_neg k1, if_neg k2, if_neg k3]

theorem ifin_accepts_iff (p : EPPistonIfin.P) :
    EPPistonIfin.outcome p = .ok ↔ (0 < p.G ∧ 0 < p.Y ∧ 0 < p.rho0 ∧ 0 ≤ p.up) := by
  simp only [epv_tree]
  constructor
  · intro h
    split_ifs at h <;> first
      | epv_absurd
      | (simp only [epv_cond, not_le, not_lt] at *; exact ⟨by assumption, by assumption, by assumption, by assumption⟩)
  · rintro ⟨a, b, c, d⟩
    have k0 : ¬ EPPistonIfin.c0 p := by simp only [epv_cond]; linarith
    have k1 : ¬ EPPistonIfin.c1 p := by simp only [epv_cond]; linarith
    have k2 : ¬ EPPistonIfin.c2 p := by simp only [epv_cond]; linarith
    have k3 : ¬ EPPistonIfin.c3 p := by simp only [epv_cond]; linarith
    simp only [if_neg k0, if_neg k1, if_neg k2, if_neg k3]

theorem fin_accepts_iff (p : EPPistonFin.P) :
    EPPistonFin.outcome p = .ok ↔ (0 < p.G ∧ 0 < p.Y ∧ 0 < p.rho0 ∧ 0 ≤ p.up) := by
  simp only [epv_tree]
  constructor
  · intro h
    split_ifs at h <;> first
      | epv_absurd
      | (simp only [epv_cond, not_le, not_lt] at *; exact ⟨by assumption, by assumption, by assumption, by assumption⟩)
  · rintro ⟨a, b, c, d⟩
    have k0 : ¬ EPPistonFin.c0 p := by simp only [epv_cond]; linarith
    have k1 : ¬ EPPistonFin.c1 p := by simp only [epv_cond]; linarith
    have k2 : ¬ EPPistonFin.c2 p := by simp only [epv_cond]; linarith
    have k3 : ¬ EPPistonFin.c3 p := by simp only [epv_cond]; linarith
    simp only [if_neg k0, if_neg k1, if_neg k2, if_neg k3]

theorem hypo_rejects_loudly (p : EPPistonHypo.P) (h : EPPistonHypo.outcome p ≠ .ok) :
    EPPistonHypo.outcome p = .raise "ValueError" := by
  simp only [epv_tree] at h ⊢
  split_ifs at h ⊢ <;> first | rfl | (exact absurd rfl h)
theorem ifin_rejects_loudly (p : EPPistonIfin.P) (h : EPPistonIfin.outcome p ≠ .ok) :
    EPPistonIfin.outcome p = .raise "ValueError" := by
  simp only [epv_tree] at h ⊢
  split_ifs at h ⊢ <;> first | rfl | (exact absurd rfl h)
theorem fin_rejects_loudly (p : EPPistonFin.P) (h : EPPistonFin.outcome p ≠ .ok) :
    EPPistonFin.outcome p = .raise "ValueError" := by
  simp only [epv_tree] at h ⊢
  split_ifs at h ⊢ <;> first | rfl | (exact absurd rfl h)

/-- `_run`: raises exactly when t > xmax / wv_el, with a ValueError; otherwise returns a state -/
theorem epprun_domain (p : EPPistonRun.P) (x t : ℝ) :
    (EPPistonRun.outcome p x t = .raise "ValueError" ↔ p.xmax / p.wv_el < t) ∧
    (EPPistonRun.outcome p x t = .ok ↔ ¬ p.xmax / p.wv_el < t) := by
  simp only [epv_tree]
  by_cases h : EPPistonRun.c0 p x t
  · have h' : p.xmax / p.wv_el < t := h
    simp [h, h']
  · have h' : ¬ p.xmax / p.wv_el < t := h
    simp only [if_neg h, h', iff_false, not_false_eq_true, iff_true]
    constructor
    · split_ifs <;> simp
    · split_ifs <;> rfl

example : ∃ p : EPPistonIfin.P, 0 < p.G ∧ 0 < p.Y ∧ 0 < p.rho0 ∧ 0 ≤ p.up :=
  ⟨⟨143/500, 13/5000, 533/1000, 0, 2, 0, 0, 279/100, 0, 0, 67/50, 0, 0, 0, 0, 0⟩, by norm_num, by norm_num,
    by norm_num, by norm_num⟩

end EPV.C20
