/-
C20 (Sedov share) — FINDINGS: the full-strength statement "the constructor accepts exactly the
documented-valid problems and rejects the others with ValueError" is FALSE on the current tree.
Negations at concrete witnesses (generated model SedovInit = the real constructor on symbolic
parameters; every witness is reproduced on the real code by the oracle `o_sedov.reject` /
`o_sedov.accepts`):

  * γ = 1      ("gamma must be greater than 1"; the check is `gamma < 1`): accepted by the checks,
               then `gpogm = gamp1 / gamm1` divides by γ - 1 = 0 → ZeroDivisionError;
  * ρ₀ = 0     ("density must be greater than 0"; the check is `rho0 < 0`): accepted; the first call
               divides by α ρ₀ = 0 → ZeroDivisionError;
  * E = 0      ("eblast must be greater than 0"; the check is `eblast < 0`): accepted silently;
  * the exactly singular ω (γ = 7/5, geometry 3, ω = 7/3 — documented-valid): the checks pass and
               `d_val` divides by (k+2-ω)(γ+1) - 2(2+k(γ-1)) = 0 → ZeroDivisionError instead of a
               solution (the singular branch the code has for this case is never reached).
-/
import EPV.Lemmas.SedovInit

set_option linter.all false
set_option maxRecDepth 100000

open EPV EPV.Gen EPV.Sedov

namespace EPV.C20

noncomputable section

/-- parameters (eblast, eval1_quad, eval2_quad, gamma, geometry, omega, rho0): defaults with γ = 1 -/
def wGammaOne : SedovInit.P := ⟨851072/1000000, 1, 1, 1, 3, 0, 1⟩
def wRhoZero : SedovInit.P := ⟨851072/1000000, 1, 1, 7/5, 3, 0, 0⟩
def wEZero : SedovInit.P := ⟨0, 1, 1, 7/5, 3, 0, 1⟩
def wSingular : SedovInit.P := ⟨851072/1000000, 1, 1, 7/5, 3, 7/3, 1⟩

theorem acc_gamma_one : Accepted wGammaOne := by
  refine ⟨Or.inr (Or.inr rfl), ?_, ?_, ?_, ?_, ?_⟩ <;> norm_num [wGammaOne]
theorem acc_rho_zero : Accepted wRhoZero := by
  refine ⟨Or.inr (Or.inr rfl), ?_, ?_, ?_, ?_, ?_⟩ <;> norm_num [wRhoZero]
theorem acc_e_zero : Accepted wEZero := by
  refine ⟨Or.inr (Or.inr rfl), ?_, ?_, ?_, ?_, ?_⟩ <;> norm_num [wEZero]

/-- γ = 1 is accepted although documented invalid, and the constructor then divides by γ - 1 = 0 -/
theorem finding_sedov_gamma_one :
    SedovInit.outcome wGammaOne = .ok ∧ ¬ Documented wGammaOne ∧ wGammaOne.gamma - 1 = 0 :=
  ⟨sedov_accepted_ok _ acc_gamma_one, fun D => by have := D.gamma; norm_num [wGammaOne] at this,
    by norm_num [wGammaOne]⟩

/-- ρ₀ = 0 is accepted although documented invalid (`_run` divides by α ρ₀) -/
theorem finding_sedov_rho0_zero :
    SedovInit.outcome wRhoZero = .ok ∧ ¬ Documented wRhoZero ∧ wRhoZero.rho0 = 0 :=
  ⟨sedov_accepted_ok _ acc_rho_zero, fun D => by have := D.rho0; norm_num [wRhoZero] at this,
    by norm_num [wRhoZero]⟩

/-- E = 0 is accepted although documented invalid -/
theorem finding_sedov_eblast_zero :
    SedovInit.outcome wEZero = .ok ∧ ¬ Documented wEZero :=
  ⟨sedov_accepted_ok _ acc_e_zero, fun D => by have := D.eblast; norm_num [wEZero] at this⟩

/-- hence the acceptance predicate is NOT the documented domain -/
theorem finding_sedov_accepts_not_documented :
    ¬ (∀ p : SedovInit.P, SedovInit.outcome p = .ok ↔ Documented p) := by
  intro h
  exact finding_sedov_gamma_one.2.1 ((h _).mp finding_sedov_gamma_one.1)

/-- the exactly singular ω is documented-valid and passes the checks, but the denominator of
`d_val` is 0: the real constructor dies with ZeroDivisionError -/
theorem finding_sedov_singular_omega :
    Documented wSingular ∧ SedovInit.outcome wSingular = .ok ∧
    (wSingular.geometry + 2 - wSingular.omega) * (wSingular.gamma + 1)
      - 2 * (2 + wSingular.geometry * (wSingular.gamma - 1)) = 0 := by
  have D : Documented wSingular := by
    refine ⟨Or.inr (Or.inr rfl), ?_, ?_, ?_, ?_, ?_⟩ <;> norm_num [wSingular]
  exact ⟨D, sedov_accepted_ok _ D.accepted, by norm_num [wSingular]⟩

end

end EPV.C20
