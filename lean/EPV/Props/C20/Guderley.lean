/-
C20 — Guderley and RMTV: which invalid problems are rejected, where, and how.

Guderley
* `guderley_init_accepts_everything` : the traced constructor (model GudInit) has a single `ok`
  leaf with no condition: `Guderley(geometry=…, gamma=…, rho0=…)` validates nothing at
  construction — in particular `geometry=1`, documented as an option ('1=planar, …'), is accepted.
* `eexp_outcome` : the restrictions live in `eexp(nnn, gamm)`, which the FIRST CALL runs (model
  GudEexp, brentq = atom): it returns iff  nnn ∈ {2, 3} ∧ 1.00001 < γ < 9999 ∧ 1.05·a₀(γ, n) < 1,
  and every other leaf raises `ValueError` — never another exception class, never a number.
* `eexp_geometry1_valueerror` : for nnn = 1 the outcome is `raise ValueError` ("Invalid Geometry
  input."): loud, at the first call instead of at construction (documented in DESIGN §4 C20 as not
  a violation).
* `state_total_real` : in real arithmetic `state` returns on every path (its `UnboundLocalError` path
  needs a NaN similarity coordinate, i.e. r = 0 at the focusing time).
* `state_welldefined` : for r > 0, x ≠ 0 (t ≠ focusing time), λ ≠ 0, ρ₀ ≠ 0, R ≠ 0, γ ∉ {0, 1}
  no zero denominator / non-positive rpow base occurs behind the converging shock.

* FINDING `finding_guderley_focus_time` : at the solver time t = 0.750024322 (the literal
  `factorC`, i.e. the focusing time t_L = 0) the driver's similarity coordinate is x = 0 for every
  r, `state` takes the pre-reflection branch 0 ≤ x < B and divides by x·(-1)·λ = 0: the side
  condition of that leaf fails although the request is inside the domain (the exact flow at
  r > 0 is finite at the focusing time).  On the real code: ±inf (oracle `gud_focus`).

RMTV
* `rmtv_init_accepts_everything` : the traced constructor (model RmtvInit) accepts everything.
* FINDING `finding_rmtv_restrictions_not_enforced` : the documentation (rmtv/__init__.py,
  Eq. chidef) restricts the conductivity exponents to a ≤ 0, b ≥ 1; `Rmtv(aval=1/2)` is accepted
  (and, on the real code, returns finite numbers — oracle `o_guderley.rmtv_restrictions`).
* `rmtv_derivs_outcome` : the only run-time guards are in `derivs` (model RmtvDerivs): alpha = 0,
  aval = 1 and a vanishing denominator raise `ValueError`; but the degenerate-state branch
  (|y[1]| ≤ 1e-16 or |y[3]| ≤ 1e-16) calls `np.sign(1.0, y[2])` — a Fortran `SIGN(a, b)` left
  untranslated — and raises `TypeError` ("return arrays must be of ArrayType"): this is what
  `Rmtv(bval=0.8)` (documented b ≥ 1 violated) dies with on the real code.
-/
import EPV.Gen.GudInit
import EPV.Gen.GudEexp
import EPV.Gen.GudState
import EPV.Gen.GudX
import EPV.Gen.RmtvInit
import EPV.Gen.RmtvDerivs
import EPV.Tactics
import EPV.Lemmas.Bridge.SemiGud

set_option linter.all false

open EPV EPV.Gen

namespace EPV.C20

theorem guderley_init_accepts_everything (p : GudInit.P) : GudInit.outcome p = .ok := by
  simp only [epv_tree]

theorem rmtv_init_accepts_everything (p : RmtvInit.P) : RmtvInit.outcome p = .ok := by
  simp only [epv_tree]

/-- what `eexp` accepts (c4 is the traced test `amax >= 1.0`) -/
def EexpAccepts (p : GudEexp.P) : Prop :=
  (p.nnn = 2 ∨ p.nnn = 3) ∧ GudEexp.c1 p ∧ GudEexp.c2 p ∧ ¬ GudEexp.c4 p

/-- the two range conditions are the documented ones: 1.00001 < γ < 9999 (1.00001 = the double) -/
theorem eexp_range (p : GudEexp.P) :
    (GudEexp.c1 p ↔ (2251822331683385 : ℝ) / 2251799813685248 < p.gamm) ∧ (GudEexp.c2 p ↔ p.gamm < 9999) := by
  refine ⟨?_, ?_⟩ <;> (simp only [epv_cond] <;> epv_semi_iff)

/-- `eexp` returns exactly on the accepted inputs and raises `ValueError` on all others -/
theorem eexp_outcome (p : GudEexp.P) :
    (EexpAccepts p → GudEexp.outcome p = .ok) ∧ (¬ EexpAccepts p → GudEexp.outcome p = .raise "ValueError") := by
  unfold EexpAccepts
  simp only [epv_tree]
  have h0 : GudEexp.c0 p ↔ p.nnn = 2 := by simp only [epv_cond] <;> epv_semi_gud_eq_iff
  have h5 : GudEexp.c5 p ↔ p.nnn = 3 := by simp only [epv_cond] <;> epv_semi_gud_eq_iff
  constructor
  · rintro ⟨hn, h1, h2, h4⟩
    split_ifs <;> first | rfl | (exfalso; tauto)
  · intro hna
    split_ifs <;> first | rfl | (exfalso; tauto)

/-- geometry = 1 (planar), documented as an option of the class, is rejected by a ValueError at the
first call -/
theorem eexp_geometry1_valueerror (p : GudEexp.P) (h : p.nnn = 1) : GudEexp.outcome p = .raise "ValueError" := by
  refine (eexp_outcome p).2 ?_
  unfold EexpAccepts
  rintro ⟨hn | hn, _⟩ <;> rw [h] at hn <;> norm_num at hn

/-- in real arithmetic `state` returns on every path -/
theorem state_total_real (p : GudState.P) : GudState.outcome p = .ok := by
  simp only [epv_tree]
  split_ifs <;> first | rfl | (exfalso; simp only [epv_cond] at *; linarith)

theorem state_leaves : GudState.okLeaves = [0, 1, 2, 3, 5, 6, 7, 9, 10, 11, 12, 14, 15, 16, 18, 19] := rfl

/-- the side conditions of the dimensionalisation (pre-reflection branch, leaf 1; the other
branches behind the converging shock evaluate the same expressions) -/
theorem state_welldefined (p : GudState.P) (hr : 0 < p.r) (hx : p.targetx ≠ 0) (hl : p.lambda_d ≠ 0)
    (hρ : p.rho0 ≠ 0) (hR : p.R ≠ 0) (hg : p.gamma_d ≠ 0) (hg1 : p.gamma_d - 1 ≠ 0) :
    GudState.L1.WellDefined p ∧ GudState.L11.WellDefined p ∧ GudState.L16.WellDefined p := by
  unfold GudState.L1.WellDefined GudState.L11.WellDefined GudState.L16.WellDefined
  epv_semi_gud_wd

/-- non-vacuity: the default parameters accepted by `eexp` need 1.05·a₀ < 1, which is an
inequality between square roots; here only the discrete part -/
example : ∃ p : GudEexp.P, (p.nnn = 2 ∨ p.nnn = 3) ∧ GudEexp.c1 p ∧ GudEexp.c2 p :=
  ⟨⟨1, 7 / 5, 3⟩, Or.inr rfl, by simp only [epv_cond]; norm_num, by simp only [epv_cond]; norm_num⟩

/-- **Finding.**  The documented restriction `a ≤ 0` (and `b ≥ 1`) on the conductivity exponents
is not enforced: the constructor's traced acceptance predicate does not depend on any parameter. -/
theorem finding_rmtv_restrictions_not_enforced :
    ¬ (∀ (aval bval : ℝ) (p : RmtvInit.P), RmtvInit.outcome p = .ok → aval ≤ 0 ∧ 1 ≤ bval) := by
  intro h
  have := (h (1 / 2) (13 / 2) ⟨()⟩ (rmtv_init_accepts_everything _)).1
  norm_num at this

/-- the traced outcome of `derivs`: which guard raises what -/
theorem rmtv_derivs_outcome (p : RmtvDerivs.P) :
    (p.alpha = 0 → RmtvDerivs.outcome p = .raise "ValueError")
    ∧ (p.alpha ≠ 0 → (RmtvDerivs.c1 p ∨ RmtvDerivs.c2 p) → RmtvDerivs.outcome p = .raise "TypeError")
    ∧ (p.alpha ≠ 0 → ¬ RmtvDerivs.c1 p → ¬ RmtvDerivs.c2 p → (RmtvDerivs.c3 p ∨ RmtvDerivs.c4 p) →
        RmtvDerivs.outcome p = .raise "ValueError")
    ∧ (p.alpha ≠ 0 → ¬ RmtvDerivs.c1 p → ¬ RmtvDerivs.c2 p → ¬ RmtvDerivs.c3 p → ¬ RmtvDerivs.c4 p →
        RmtvDerivs.outcome p = .ok) := by
  have h0 : RmtvDerivs.c0 p ↔ p.alpha = 0 := by simp only [epv_cond] <;> epv_semi_gud_eq_iff
  simp only [epv_tree]
  refine ⟨?_, ?_, ?_, ?_⟩
  · intro h; simp only [h0.mpr h, if_true]
  · intro h hc
    have : ¬ RmtvDerivs.c0 p := fun hh => h (h0.mp hh)
    split_ifs <;> first | rfl | (exfalso; tauto)
  · intro h h1 h2 hc
    have : ¬ RmtvDerivs.c0 p := fun hh => h (h0.mp hh)
    split_ifs <;> first | rfl | (exfalso; tauto)
  · intro h h1 h2 h3 h4
    have : ¬ RmtvDerivs.c0 p := fun hh => h (h0.mp hh)
    split_ifs <;> first | rfl | (exfalso; tauto)

theorem rmtv_derivs_leaves : RmtvDerivs.okLeaves = [5] := rfl

/-- **Finding.**  t = 0.750024322 is an in-domain request whose traced formula has a zero denominator -/
theorem finding_guderley_focus_time (q : GudX.P) (r : ℝ) :
    GudX.st_targetx q r ((3377809257078009 : ℝ) / 4503599627370496) = 0
    ∧ ∀ p : GudState.P, p.targetx = 0 → 0 < p.B → GudState.leaf p = 11 ∧ ¬ GudState.L11.WellDefined p := by
  constructor
  · simp only [epv_tree, epv_leaf]
    norm_num
  · intro p hx hB
    constructor
    · simp only [epv_tree, epv_cond, hx]
      norm_num [hB]
    · unfold GudState.L11.WellDefined
      intro hW
      simp [hx] at hW

end EPV.C20
