/-
C02 — Rankine–Hugoniot relations for the 1-D ideal-gas Riemann solver
(`exactpack/solvers/riemann/{utils,riemann}.py`), all four wave patterns, unequal γ.

* each shock the driver builds — post-shock density `rho_star_shock`, speed `shock_velocity`,
  post-shock velocity `ux = ul ∓ shock(px, …)` — satisfies the three jump conditions of the
  γ-law gas with that side's γ (`left_shock_rh`, `right_shock_rh`);
* the star pressure `px` is an atom (scipy `bisect`): under the hypothesis `X_call px = 0` the
  velocity the driver computes from the LEFT wave equals the one the RIGHT wave gives
  (`scs_ux … rcr_ux`), hence the right-hand shock joins the right state to the star state the
  driver actually installs (`scs_right_shock_rh`, `rcs_right_shock_rh`);
* contact: in the assembled solution (hand model `EPV.Model.RiemannIG` over ℝ, tied to the code
  by `o_riemann.tie_assembly`) both star states carry `px` and `ux`, and the contact moves with
  `ux` (`contact_*`);
* `X_call px = 0 ↔` the left and right wave curves of `EPV.Spec.Riemann` (written from the jump
  conditions and the isentrope) meet at `px` — `*_meet`;
* general EOS: `shock_jump = 0` is the Hugoniot energy equation for the traced `sie` (ideal gas
  and JWL), `shock_speed`/`star_velocity` are the mass and momentum jumps.

(P) the degenerate case L = R (where the `==`-based side detection mislabels the right state,
`shockVel_right_degenerate`) is excluded by the hypothesis `q.Distinct`.
-/
import EPV.Lemmas.Riemann
import EPV.Lemmas.Bridge.RiemannGen
import EPV.Gen.RiemShockJumpIG
import EPV.Gen.RiemShockJumpJWL
import EPV.Gen.RiemShockSpeedIG
import EPV.Gen.RiemShockSpeedJWL
import EPV.Gen.RiemStarVelIG
import EPV.Gen.RiemStarVelJWL
import EPV.Gen.RiemSieJWL

set_option linter.all false

open EPV EPV.Gen EPV.Model EPV.Spec.Riemann EPV.Riem

namespace EPV.C02.Riemann

/-- left-going shock: (pl, rl, ul) → (px, rho_star_shock, ul - shock(px,pl,rl,0,gl)) at speed
`shock_velocity(px, pl, rl, ul, gl)` satisfies mass, momentum and energy jumps with γ = gl -/
theorem left_shock_rh (q : Prob) (hq : q.Admissible) {px : ℝ} (hpx : 0 < px) :
    RH q.pl q.rl q.ul (sie q.pl q.rl q.gl)
       px (rhoShock px q.pl q.rl q.gl) (q.ul + -1 * shock px q.pl q.rl 0 q.gl)
       (sie px (rhoShock px q.pl q.rl q.gl) q.gl)
       (shockVel q px q.pl q.rl q.ul q.gl) := by
  obtain ⟨hpl, hrl, hgl, -, -, -⟩ := id hq
  have hN := NN_pos hpl hgl hpx.le
  rw [shockVel_left_mflux q hq hpx.le, shock_mflux hrl (by linarith) hN, zero_add]
  exact rh_core (-1) (Or.inr rfl) hpl hrl hgl hpx (mflux_pos hrl hN) (mflux_sq hrl hN)

/-- right-going shock: (pr, rr, ur) → (px, rho_star_shock, ur + shock(px,pr,rr,0,gr)) at speed
`shock_velocity(px, pr, rr, ur, gr)`, γ = gr; L ≠ R so that the side detection is right -/
theorem right_shock_rh (q : Prob) (hq : q.Admissible) (hd : q.Distinct) {px : ℝ} (hpx : 0 < px) :
    RH q.pr q.rr q.ur (sie q.pr q.rr q.gr)
       px (rhoShock px q.pr q.rr q.gr) (q.ur + 1 * shock px q.pr q.rr 0 q.gr)
       (sie px (rhoShock px q.pr q.rr q.gr) q.gr)
       (shockVel q px q.pr q.rr q.ur q.gr) := by
  obtain ⟨-, -, -, hpr, hrr, hgr⟩ := id hq
  have hN := NN_pos hpr hgr hpx.le
  rw [shockVel_right_mflux q hq hd hpx.le, shock_mflux hrr (by linarith) hN, zero_add]
  exact rh_core 1 (Or.inl rfl) hpr hrr hgr hpx (mflux_pos hrr hN) (mflux_sq hrr hN)

/-- non-vacuity: the Sod data (solver defaults) are admissible and distinct -/
example : sod.Admissible ∧ sod.Distinct ∧ (0:ℝ) < 3/10 := ⟨sod_admissible.1, sod_admissible.2, by norm_num⟩

/-! ### the atom `px`: `X_call px = 0` makes the two one-sided star velocities agree -/

theorem scs_ux (q : Prob) (px : ℝ) (h : SCS q px = 0) :
    q.ul + -1 * shock px q.pl q.rl 0 q.gl = q.ur + 1 * shock px q.pr q.rr 0 q.gr := Riem.scs_ux q px h
theorem scr_ux (q : Prob) (px : ℝ) (h : SCR q px = 0) :
    q.ul + -1 * shock px q.pl q.rl 0 q.gl = q.ur + -1 * rare px q.pr q.rr 0 q.gr := Riem.scr_ux q px h
theorem rcs_ux (q : Prob) (px : ℝ) (h : RCS q px = 0) :
    q.ul + 1 * rare px q.pl q.rl 0 q.gl = q.ur + 1 * shock px q.pr q.rr 0 q.gr := Riem.rcs_ux q px h
theorem rcr_ux (q : Prob) (px : ℝ) (h : RCR q px = 0) :
    q.ul + 1 * rare px q.pl q.rl 0 q.gl = q.ur + -1 * rare px q.pr q.rr 0 q.gr := Riem.rcr_ux q px h

/-! ### the assembled solution (hand model over ℝ): every wave of every pattern -/

/-- jump conditions between two entries of the driver's `vals` (p, r, u, e) -/
def RHst (s0 s1 : RiemannIG.State ℝ) (D : ℝ) : Prop := RH s0.p s0.r s0.u s0.e s1.p s1.r s1.u s1.e D

/-- contact between the two star states -/
def ContactSt (s0 s1 : RiemannIG.State ℝ) (D : ℝ) : Prop := Contact s0.p s0.u s1.p s1.u D

/-- SCS: `Vregs = [Vsl, ux, Vsr]`; left shock, contact, right shock all obey their jump conditions -/
theorem scs_waves (q : Prob) (hq : q.Admissible) (hd : q.Distinct) {px : ℝ} (hpx : 0 < px) (h : SCS q px = 0) :
    ∃ D1 Dc D2, RiemannIG.vregs (toData q) .SCS px = [D1, Dc, D2] ∧
      RHst (RiemannIG.leftState (toData q)) (RiemannIG.starL (toData q) .SCS px) D1 ∧
      ContactSt (RiemannIG.starL (toData q) .SCS px) (RiemannIG.starR (toData q) .SCS px) Dc ∧
      RHst (RiemannIG.rightState (toData q)) (RiemannIG.starR (toData q) .SCS px) D2 := by
  refine ⟨_, _, _, vregs_SCS q px, ?_, ?_, ?_⟩
  · rw [leftState_eq, starL_shock q px _ (Or.inl rfl)]
    exact left_shock_rh q hq hpx
  · rw [starL_shock q px _ (Or.inl rfl), starR_shock q px _ (Or.inl rfl), ux_shock q px _ (Or.inl rfl)]
    exact ⟨rfl, rfl, rfl⟩
  · rw [rightState_eq, starR_shock q px _ (Or.inl rfl), ux_shock q px _ (Or.inl rfl)]
    unfold RHst uxS; rw [scs_ux q px h]
    exact right_shock_rh q hq hd hpx

/-- SCR: `Vregs = [Vs, ux, ux + ax2, ur + ar]`; left shock and contact (the fan is continuous) -/
theorem scr_waves (q : Prob) (hq : q.Admissible) {px : ℝ} (hpx : 0 < px) :
    ∃ D1 Dc Dt Dh, RiemannIG.vregs (toData q) .SCR px = [D1, Dc, Dt, Dh] ∧
      RHst (RiemannIG.leftState (toData q)) (RiemannIG.starL (toData q) .SCR px) D1 ∧
      ContactSt (RiemannIG.starL (toData q) .SCR px) (RiemannIG.starR (toData q) .SCR px) Dc := by
  refine ⟨_, _, _, _, vregs_SCR q px, ?_, ?_⟩
  · rw [leftState_eq, starL_shock q px _ (Or.inr rfl)]
    exact left_shock_rh q hq hpx
  · rw [starL_shock q px _ (Or.inr rfl), starR_fan q px _ (Or.inl rfl), ux_shock q px _ (Or.inr rfl)]
    exact ⟨rfl, rfl, rfl⟩

/-- RCS: `Vregs = [ul - al, ux - ax1, ux, Vs]`; contact and right shock -/
theorem rcs_waves (q : Prob) (hq : q.Admissible) (hd : q.Distinct) {px : ℝ} (hpx : 0 < px) (h : RCS q px = 0) :
    ∃ Dh Dt Dc D2, RiemannIG.vregs (toData q) .RCS px = [Dh, Dt, Dc, D2] ∧
      ContactSt (RiemannIG.starL (toData q) .RCS px) (RiemannIG.starR (toData q) .RCS px) Dc ∧
      RHst (RiemannIG.rightState (toData q)) (RiemannIG.starR (toData q) .RCS px) D2 := by
  refine ⟨_, _, _, _, vregs_RCS q px, ?_, ?_⟩
  · rw [starL_fan q px _ (Or.inl rfl), starR_shock q px _ (Or.inr rfl), ux_fan q px _ (Or.inl rfl)]
    exact ⟨rfl, rfl, rfl⟩
  · rw [rightState_eq, starR_shock q px _ (Or.inr rfl), ux_fan q px _ (Or.inl rfl)]
    unfold RHst uxF; rw [rcs_ux q px h]
    exact right_shock_rh q hq hd hpx

/-- RCR: `Vregs = [ul - al, ux - ax1, ux, ux + ax2, ur + ar]`; the contact -/
theorem rcr_waves (q : Prob) (px : ℝ) :
    ∃ Dh Dt Dc Dt' Dh', RiemannIG.vregs (toData q) .RCR px = [Dh, Dt, Dc, Dt', Dh'] ∧
      ContactSt (RiemannIG.starL (toData q) .RCR px) (RiemannIG.starR (toData q) .RCR px) Dc := by
  refine ⟨_, _, _, _, _, vregs_RCR q px, ?_⟩
  rw [starL_fan q px _ (Or.inr rfl), starR_fan q px _ (Or.inr rfl), ux_fan q px _ (Or.inr rfl)]
  exact ⟨rfl, rfl, rfl⟩


/-! ### general-EOS helpers -/

/-- the expression `shock_jump` evaluates, for arbitrary energies, is the Hugoniot residual -/
theorem jump_form (e0 e1 p0 r0 p1 r1 : ℝ) (h0 : r0 ≠ 0) (h1 : r1 ≠ 0) (h : r1 - r0 ≠ 0) :
    (e0 + p0 / r0 + r1 / r0 * (p1 - p0) / (r1 - r0) / 2) - (e1 + p1 / r1 + r0 / r1 * (p1 - p0) / (r1 - r0) / 2)
      = (e0 - e1) + (p1 + p0) / 2 * (1 / r0 - 1 / r1) := by
  field_simp; ring

/-- ideal gas: `shock_jump(p0,r0,g,p,r) = 0` is the Hugoniot energy equation with the traced `sie` -/
theorem shock_jump_ig (P : RiemShockJumpIG.P) (h0 : P.rk ≠ 0) (h1 : P.rz ≠ 0) (h : P.rz ≠ P.rk) :
    RiemShockJumpIG.res P = 0 ↔
      Hugoniot P.pk P.rk (sie P.pk P.rk P.gk) P.pz P.rz (sie P.pz P.rz P.gk) := by
  have e : RiemShockJumpIG.res P
      = (sie P.pk P.rk P.gk + P.pk / P.rk + P.rz / P.rk * (P.pz - P.pk) / (P.rz - P.rk) / 2)
        - (sie P.pz P.rz P.gk + P.pz / P.rz + P.rk / P.rz * (P.pz - P.pk) / (P.rz - P.rk) / 2) := by
    rw [Bridge.Riem.shockJumpIG_eq]; simp only [Bridge.Riem.jumpForm, sie_eq]
  rw [e, jump_form _ _ _ _ _ _ h0 h1 (sub_ne_zero.mpr h)]
  unfold Hugoniot
  constructor <;> intro hh <;> linarith

/-- the traced JWL `sie(p, ρ, γ)` as a function -/
noncomputable def sieJWL (P : RiemShockJumpJWL.P) (p ρ : ℝ) : ℝ :=
  RiemSieJWL.e { A := P.A, B := P.B, R1 := P.R1, R2 := P.R2, gk := P.gk, r0 := P.r0 } p ρ

/-- JWL: the same statement with the traced JWL `sie` -/
theorem shock_jump_jwl (P : RiemShockJumpJWL.P) (h0 : P.rk ≠ 0) (h1 : P.rz ≠ 0) (h : P.rz ≠ P.rk) :
    RiemShockJumpJWL.res P = 0 ↔
      Hugoniot P.pk P.rk (sieJWL P P.pk P.rk) P.pz P.rz (sieJWL P P.pz P.rz) := by
  have e : RiemShockJumpJWL.res P
      = (sieJWL P P.pk P.rk + P.pk / P.rk + P.rz / P.rk * (P.pz - P.pk) / (P.rz - P.rk) / 2)
        - (sieJWL P P.pz P.rz + P.pz / P.rz + P.rk / P.rz * (P.pz - P.pk) / (P.rz - P.rk) / 2) := by
    rw [Bridge.Riem.shockJumpJWL_eq]; simp only [Bridge.Riem.jumpForm, sieJWL, Bridge.Riem.sieJWL_eq]
  rw [e, jump_form _ _ _ _ _ _ h0 h1 (sub_ne_zero.mpr h)]
  unfold Hugoniot
  constructor <;> intro hh <;> linarith


/-- mass + momentum across a discontinuity whose speed relative to the gas ahead is `w`,
`w² = (ρ₁/ρ₀)(p₁-p₀)/(ρ₁-ρ₀)` -/
theorem mom_of_speed {p0 r0 u0 p1 r1 w : ℝ} (h0 : r0 ≠ 0) (h1 : r1 ≠ 0) (h : r1 - r0 ≠ 0)
    (hw : w ^ 2 = r1 / r0 * (p1 - p0) / (r1 - r0)) (u1 : ℝ) (hm : massJump r0 u0 r1 u1 (u0 + w)) :
    momJump p0 r0 u0 p1 r1 u1 (u0 + w) := by
  unfold massJump momJump at *
  have hp : p1 = p0 + w ^ 2 * r0 * (r1 - r0) / r1 := by
    rw [hw]; field_simp; ring
  have hu : u1 = u0 + w + r0 * (u0 - (u0 + w)) / r1 := by
    field_simp; linear_combination hm
  subst hp; subst hu; field_simp; ring

private theorem sq1 (s u : ℝ) : ((-1 : ℝ) * s + u - u) ^ 2 = s ^ 2 := by ring
private theorem sq2 (s u : ℝ) : ((1 : ℝ) * s + u - u) ^ 2 = s ^ 2 := by ring

/-- ideal-gas data: the speed `shock_speed(pz, rz, pk, rk, uk)` makes the momentum jump hold for the
post-shock velocity that the mass jump defines — i.e. it is the speed fixed by mass + momentum -/
theorem shock_speed_ig (P : RiemShockSpeedIG.P) (h0 : P.rk ≠ 0) (h1 : P.rz ≠ 0) (h : P.rz ≠ P.rk)
    (hX : 0 ≤ P.rz / P.rk * (P.pz - P.pk) / (P.rz - P.rk)) (u1 : ℝ)
    (hm : massJump P.rk P.uk P.rz u1 (RiemShockSpeedIG.V P)) :
    momJump P.pk P.rk P.uk P.pz P.rz u1 (RiemShockSpeedIG.V P) := by
  have key : (RiemShockSpeedIG.V P - P.uk) ^ 2 = P.rz / P.rk * (P.pz - P.pk) / (P.rz - P.rk) := by
    rw [Bridge.Riem.shockSpeedIG_eq]
    rcases Bridge.Riem.sideSgn_cases P.pk P.rk P.uk P.pl P.rl P.ul with hs | hs <;> rw [hs] <;>
      (first | rw [sq1] | rw [sq2]) <;> exact Real.sq_sqrt hX
  have e : RiemShockSpeedIG.V P = P.uk + (RiemShockSpeedIG.V P - P.uk) := by ring
  rw [e] at hm ⊢
  exact mom_of_speed h0 h1 (sub_ne_zero.mpr h) key u1 hm

/-- the two relative speeds of `star_velocity` carry the same mass flux -/
theorem flux_balance {p0 r0 p1 r1 : ℝ} (h0 : 0 < r0) (h1 : 0 < r1)
    (hX : 0 ≤ r1 / r0 * (p1 - p0) / (r1 - r0)) :
    r1 * Real.sqrt (r0 / r1 * (p0 - p1) / (r0 - r1)) = r0 * Real.sqrt (r1 / r0 * (p1 - p0) / (r1 - r0)) := by
  have hb : r0 / r1 * (p0 - p1) / (r0 - r1) = (r1 / r0 * (p1 - p0) / (r1 - r0)) * (r0 / r1) ^ 2 := by
    by_cases hd : r1 - r0 = 0
    · have : r0 - r1 = 0 := by linarith
      simp [hd, this]
    · have hd' : r0 - r1 ≠ 0 := fun hh => hd (by linarith)
      field_simp; ring
  have hb0 : 0 ≤ r0 / r1 * (p0 - p1) / (r0 - r1) := by rw [hb]; positivity
  rw [← pow_left_inj₀ (by positivity) (by positivity) (two_ne_zero), mul_pow, mul_pow, Real.sq_sqrt hb0,
    Real.sq_sqrt hX, hb]
  field_simp

def toSpeed (P : RiemStarVelIG.P) : RiemShockSpeedIG.P :=
  { pk := P.pk, pl := P.pl, pz := P.pz, rk := P.rk, rl := P.rl, rz := P.rz, uk := P.uk, ul := P.ul }

/-- ideal-gas data: `star_velocity` (as `match_shocks` calls it) and `shock_speed` (as the driver
calls it for `Vregs`) satisfy the mass and the momentum jump between (pk, rk, uk) and (pz, rz, u*) -/
theorem star_velocity_ig (P : RiemStarVelIG.P) (h0 : 0 < P.rk) (h1 : 0 < P.rz) (h : P.rz ≠ P.rk)
    (hX : 0 ≤ P.rz / P.rk * (P.pz - P.pk) / (P.rz - P.rk)) :
    massJump P.rk P.uk P.rz (RiemStarVelIG.u P) (RiemShockSpeedIG.V (toSpeed P)) ∧
    momJump P.pk P.rk P.uk P.pz P.rz (RiemStarVelIG.u P) (RiemShockSpeedIG.V (toSpeed P)) := by
  have hm : massJump P.rk P.uk P.rz (RiemStarVelIG.u P) (RiemShockSpeedIG.V (toSpeed P)) := by
    have fb := flux_balance (p0 := P.pk) (p1 := P.pz) h0 h1 hX
    unfold massJump
    rw [Bridge.Riem.starVelIG_eq, Bridge.Riem.shockSpeedIG_eq]
    simp only [toSpeed, Bridge.Riem.relSpeed]
    rcases Bridge.Riem.sideSgn_cases P.pk P.rk P.uk P.pl P.rl P.ul with hs | hs <;> rw [hs] <;>
      first | linear_combination (-1) * fb | linear_combination fb
  exact ⟨hm, shock_speed_ig (toSpeed P) h0.ne' h1.ne' h hX _ hm⟩

/-- JWL data (the formulas do not involve the EOS): the speed `shock_speed(pz, rz, pk, rk, uk)` makes the momentum jump hold for the
post-shock velocity that the mass jump defines — i.e. it is the speed fixed by mass + momentum -/
theorem shock_speed_jwl (P : RiemShockSpeedJWL.P) (h0 : P.rk ≠ 0) (h1 : P.rz ≠ 0) (h : P.rz ≠ P.rk)
    (hX : 0 ≤ P.rz / P.rk * (P.pz - P.pk) / (P.rz - P.rk)) (u1 : ℝ)
    (hm : massJump P.rk P.uk P.rz u1 (RiemShockSpeedJWL.V P)) :
    momJump P.pk P.rk P.uk P.pz P.rz u1 (RiemShockSpeedJWL.V P) := by
  have key : (RiemShockSpeedJWL.V P - P.uk) ^ 2 = P.rz / P.rk * (P.pz - P.pk) / (P.rz - P.rk) := by
    rw [Bridge.Riem.shockSpeedJWL_eq]
    rcases Bridge.Riem.sideSgn_cases P.pk P.rk P.uk P.pl P.rl P.ul with hs | hs <;> rw [hs] <;>
      (first | rw [sq1] | rw [sq2]) <;> exact Real.sq_sqrt hX
  have e : RiemShockSpeedJWL.V P = P.uk + (RiemShockSpeedJWL.V P - P.uk) := by ring
  rw [e] at hm ⊢
  exact mom_of_speed h0 h1 (sub_ne_zero.mpr h) key u1 hm

def toSpeedJ (P : RiemStarVelJWL.P) : RiemShockSpeedJWL.P :=
  { pk := P.pk, pl := P.pl, pz := P.pz, rk := P.rk, rl := P.rl, rz := P.rz, uk := P.uk, ul := P.ul }

/-- JWL data (the formulas do not involve the EOS): `star_velocity` (as `match_shocks` calls it) and `shock_speed` (as the driver
calls it for `Vregs`) satisfy the mass and the momentum jump between (pk, rk, uk) and (pz, rz, u*) -/
theorem star_velocity_jwl (P : RiemStarVelJWL.P) (h0 : 0 < P.rk) (h1 : 0 < P.rz) (h : P.rz ≠ P.rk)
    (hX : 0 ≤ P.rz / P.rk * (P.pz - P.pk) / (P.rz - P.rk)) :
    massJump P.rk P.uk P.rz (RiemStarVelJWL.u P) (RiemShockSpeedJWL.V (toSpeedJ P)) ∧
    momJump P.pk P.rk P.uk P.pz P.rz (RiemStarVelJWL.u P) (RiemShockSpeedJWL.V (toSpeedJ P)) := by
  have hm : massJump P.rk P.uk P.rz (RiemStarVelJWL.u P) (RiemShockSpeedJWL.V (toSpeedJ P)) := by
    have fb := flux_balance (p0 := P.pk) (p1 := P.pz) h0 h1 hX
    unfold massJump
    rw [Bridge.Riem.starVelJWL_eq, Bridge.Riem.shockSpeedJWL_eq]
    simp only [toSpeedJ, Bridge.Riem.relSpeed]
    rcases Bridge.Riem.sideSgn_cases P.pk P.rk P.uk P.pl P.rl P.ul with hs | hs <;> rw [hs] <;>
      first | linear_combination (-1) * fb | linear_combination fb
  exact ⟨hm, shock_speed_jwl (toSpeedJ P) h0.ne' h1.ne' h hX _ hm⟩

end EPV.C02.Riemann
