/-
C02 — FINDING: identical (p, ρ, u) on the two sides with unequal γ.

For pl = pr, ρl = ρr, ul = ur and γ_L ≠ γ_R the ideal-gas driver places the jump of the specific
internal energy (the material interface) at xd0 + t·Vregs[2] with Vregs[2] = ur - ar, i.e. it lets
the interface run to the LEFT with the sound speed, while the gas is at rest.  Across a
discontinuity moving with D = ur - ar through gas with u = ur the energy jump condition
[ρ(u-D)(e+u²/2) + pu] = 0 fails (mass and momentum hold trivially: p, ρ, u are uniform), and the
contact condition D = u fails as well.  (Cause: the `==`-based side detection of `shock_velocity`,
see `EPV.Lemmas.RiemannIdentical`.)

Witness (exact, hand model over ℝ): pl = pr = 1, ρl = ρr = 1, ul = ur = 0, γ_L = 25/16, γ_R = 9/4,
px = 1, xd0 = 1/2, t = 1/5: the returned fields equal the left state for x < 1/5 and the right state
for x ≥ 1/5; Vregs = [-5/4, 0, -3/2]; energy flux 8/3 on the left of the jump, 6/5 on the right.
On the real code: oracle `o_riemann.identical_rh`, site 'IGEOS:identical-states:energy-jump'.
-/
import EPV.Lemmas.RiemannIdentical

set_option linter.all false

open EPV EPV.Gen EPV.Model EPV.Spec.Riemann EPV.Riem

namespace EPV.C02.Riemann

/-- **Finding.**  The solution jumps at x = xd0 + t·Vregs[2] = 1/5 from the left state to the right
state; with the speed D = Vregs[2] = -3/2 of that position the energy jump condition is violated, and
the discontinuity does not move with the fluid (it is no contact either). -/
theorem finding_identical_states_jump :
    qId.Admissible ∧ RiemannIG.classify (toData qId) = .SCS ∧ SCS qId 1 = 0 ∧
    RiemannIG.vregs (toData qId) .SCS 1 = [-(5 / 4), 0, -(3 / 2)] ∧
    (∀ x : ℝ, x < 1 / 5 → (Riem.solve qId 1 (1 / 2) x (1 / 5)).2.2 = RiemannIG.leftState (toData qId)) ∧
    (∀ x : ℝ, 1 / 5 ≤ x → (Riem.solve qId 1 (1 / 2) x (1 / 5)).2.2 = RiemannIG.rightState (toData qId)) ∧
    ¬ energyJump qId.pl qId.rl qId.ul (sie qId.pl qId.rl qId.gl) qId.pr qId.rr qId.ur (sie qId.pr qId.rr qId.gr)
        (-(3 / 2)) ∧
    ¬ Contact qId.pl qId.ul qId.pr qId.ur (-(3 / 2)) := by
  refine ⟨qId_admissible.1, qId_classify, qId_root, qId_vregs, ?_, ?_, ?_, ?_⟩
  · intro x hx
    rw [qId_solve]
    have h1 : ¬ (1 / 5 : ℝ) ≤ x := not_le.mpr hx
    have h2 : ¬ (1 / 2 : ℝ) ≤ x := fun h => h1 (le_trans (by norm_num) h)
    have h3 : ¬ (1 / 4 : ℝ) ≤ x := fun h => h1 (le_trans (by norm_num) h)
    simp only [h1, h2, h3, if_false]
  · intro x hx
    rw [qId_solve]
    simp only [hx, if_true]
  · unfold energyJump; simp only [sie_eq, qId]; norm_num
  · unfold Contact; simp only [qId]; norm_num

end EPV.C02.Riemann
