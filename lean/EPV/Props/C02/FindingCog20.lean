/-
C02 — FINDING: Coggeshall 20 places its shock where the Rankine–Hugoniot conditions fail.

`Cog20._run` switches between its two closed-form regions at

    R(t) = u0 (γ - 1) / (4 a) · t (1 - 2 a t) / (1 - a t)

(the formula of the module docstring).  The two regions are the images of the two
regions of Coggeshall 19 under the collapse map r ↦ r/(1 - a t), t ↦ t/(1 - a t), under
which the Cog19 shock r = -(γ-1) u₀ t / 2 is mapped to itself.  Accordingly:

* `cog20_jump_at_cog19_position` — the two region expressions *do* conserve mass, momentum
  and total energy across r = -(γ-1) u₀ t / 2 moving with speed -(γ-1) u₀ / 2
  (every real geometry exponent, γ > 1, u₀ < 0, 0 < t, a t < 1);
* `cog20_jump_fails` — at the *coded* position, with the speed implied by the coded
  position (`cog20_shock_hasDerivAt`), they do not: concrete witness = the class defaults
  (γ = 1.4, ρ₀ = 1.8, u₀ = 2.3, a = 0.3, Γ = 40, geometry 3) at t = 1/2, where the mass
  flux already differs (and no choice of speed repairs it: `cog20_no_speed_fits`).
  `cog20_jump_fails_neg` is a second witness with the Cog19 sign convention
  (u₀ = -2.3, a = -0.3).

The coded R(t) is also dimensionally inconsistent (u₀ t / a is a length times a time).
-/
import EPV.Gen.Cog20
import EPV.Spec.Jump
import EPV.Tactics

set_option linter.all false

open EPV EPV.Gen EPV.Spec

namespace EPV.C02

noncomputable section

theorem cog20_leaves : Cog20.okLeaves = [0, 1] ∧ Cog20.nLeaves = 2 := ⟨rfl, rfl⟩

/-- coded shock position of `Cog20._run` -/
def cog20Shock (p : Cog20.P) (t : ℝ) : ℝ :=
  p.u0 * (p.gamma - 1) / (4 * p.a) * t * (1 - 2 * p.a * t) / (1 - p.a * t)

/-- the generated path condition is `r < cog20Shock p t` -/
theorem cog20_shock_coded (p : Cog20.P) (r t : ℝ) : Cog20.c0 p r t ↔ r < cog20Shock p t := by
  unfold Cog20.c0 cog20Shock
  exact Iff.rfl

/-- speed implied by the coded position -/
def cog20Speed (p : Cog20.P) (t : ℝ) : ℝ :=
  p.u0 * (p.gamma - 1) / (4 * p.a) * (1 - 4 * p.a * t + 2 * p.a ^ 2 * t ^ 2) / (1 - p.a * t) ^ 2

theorem cog20_shock_hasDerivAt (p : Cog20.P) (t : ℝ) (hc : 1 - p.a * t ≠ 0) :
    HasDerivAt (cog20Shock p) (cog20Speed p t) t := by
  unfold cog20Shock cog20Speed
  have h := EPV.D.div
    (EPV.D.mul (EPV.D.const_mul (p.u0 * (p.gamma - 1) / (4 * p.a)) (hasDerivAt_id' t))
      (EPV.D.const_sub 1 (EPV.D.const_mul (2 * p.a) (hasDerivAt_id' t))))
    (EPV.D.const_sub 1 (EPV.D.const_mul p.a (hasDerivAt_id' t))) hc
  refine h.congr_deriv ?_
  field_simp
  ring

def cog20Inner (p : Cog20.P) : ℝ → ℝ → State :=
  stateAt (Cog20.L0.density p) (Cog20.L0.velocity p) (Cog20.L0.pressure p) (Cog20.L0.specific_internal_energy p)
def cog20Outer (p : Cog20.P) : ℝ → ℝ → State :=
  stateAt (Cog20.L1.density p) (Cog20.L1.velocity p) (Cog20.L1.pressure p) (Cog20.L1.specific_internal_energy p)

/-! ### where the jump conditions do hold -/

theorem cog20_ratio (v γ t : ℝ) (hv : 0 < v) (hγ : 1 < γ) (ht : 0 < t) :
    (-(γ - 1) * -v * t / 2 - -v * t) / (-(γ - 1) * -v * t / 2) = (γ + 1) / (γ - 1) := by
  have h1 : γ - 1 ≠ 0 := by linarith
  field_simp
  ring

/-- the two region expressions of Cog20 satisfy Rankine–Hugoniot across the *Cog19* shock
r = -(γ-1) u₀ t / 2 (speed -(γ-1) u₀ / 2) — not across the coded position -/
theorem cog20_jump_at_cog19_position (p : Cog20.P) (t : ℝ) (hγ : 1 < p.gamma) (hu : p.u0 < 0) (ht : 0 < t)
    (hc : 0 < 1 - p.a * t) (hρ : p.rho0 ≠ 0) (hΓ : p.Gamma ≠ 0) :
    ShockJump (cog20Inner p) (cog20Outer p) (fun s => -(p.gamma - 1) * p.u0 * s / 2)
      (-(p.gamma - 1) * p.u0 / 2) t := by
  constructor
  · have h := (hasDerivAt_id' t).const_mul (-(p.gamma - 1) * p.u0 / 2)
    refine (h.congr_of_eventuallyEq (Filter.Eventually.of_forall fun s => ?_)).congr_deriv ?_
    · simp only; ring
    · ring
  obtain ⟨G, a, a_rad, al, be, cl, g, geo, lam, ρ0, u0⟩ := p
  simp only at hγ hu hρ hΓ hc
  obtain ⟨v, rfl⟩ : ∃ v, u0 = -v := ⟨-u0, by ring⟩
  have hv : 0 < v := by linarith
  have hA : 0 < (g + 1) / (g - 1) := div_pos (by linarith) (by linarith)
  have h1 : g - 1 ≠ 0 := by linarith
  simp only [RankineHugoniot, State.massFlux, State.momFlux, State.energyFlux, cog20Inner, cog20Outer, stateAt,
    epv_leaf]
  rw [cog20_ratio v g t hv hγ ht, Real.rpow_add_one hA.ne' (geo - 1), Real.rpow_add_one hc.ne' (geo - 1)]
  have hB : 0 < ((g + 1) / (g - 1)) ^ (geo - 1) := Real.rpow_pos_of_pos hA _
  have hC : 0 < (1 - a * t) ^ (geo - 1) := Real.rpow_pos_of_pos hc _
  generalize ((g + 1) / (g - 1)) ^ (geo - 1) = B at hB
  generalize (1 - a * t) ^ (geo - 1) = C at hC
  have hB' := hB.ne'
  have hC' := hC.ne'
  have hc' := hc.ne'
  refine ⟨?_, ?_, ?_⟩ <;> field_simp <;> ring

example : ∃ p : Cog20.P, ∃ t : ℝ, 1 < p.gamma ∧ p.u0 < 0 ∧ 0 < t ∧ 0 < 1 - p.a * t ∧ p.rho0 ≠ 0 ∧ p.Gamma ≠ 0 :=
  ⟨⟨40, 3 / 10, 1, 1, 1, 1, 7 / 5, 3, 1, 9 / 5, -23 / 10⟩, 1, by norm_num, by norm_num, by norm_num,
    by norm_num, by norm_num, by norm_num⟩

/-! ### the coded position: witnesses -/

/-- the class defaults of `Cog20` (Γ a · · · · γ geometry · ρ₀ u₀; the four conduction symbols
of the derived heat flux do not enter) -/
def cog20W : Cog20.P := ⟨40, 3 / 10, 1, 1, 1, 1, 7 / 5, 3, 1, 9 / 5, 23 / 10⟩

/-- at the defaults, t = 1/2: the coded shock sits at r = 161/510 > 0, inside 0 < a t < 1 -/
theorem cog20W_position : cog20Shock cog20W (1 / 2) = 161 / 510 := by
  unfold cog20Shock cog20W; norm_num

theorem cog20W_speed : cog20Speed cog20W (1 / 2) = 2047 / 4335 := by
  unfold cog20Speed cog20W; norm_num

/-- mass flux on the two sides of the coded position at the defaults, t = 1/2, with the speed
implied by the coded position -/
theorem cog20W_mass :
    (cog20Inner cog20W (161 / 510) (1 / 2)).massFlux (2047 / 4335)
      ≠ (cog20Outer cog20W (161 / 510) (1 / 2)).massFlux (2047 / 4335) := by
  simp only [State.massFlux, cog20Inner, cog20Outer, stateAt, cog20W, epv_leaf]
  norm_num

/-- **Finding.**  Cog20 with its default parameters at t = 1/2: the states on the two sides of
the coded shock position, with the speed implied by the coded position, do not conserve mass. -/
theorem cog20_jump_fails :
    ¬ ∃ D, ShockJump (cog20Inner cog20W) (cog20Outer cog20W) (cog20Shock cog20W) D (1 / 2) := by
  rintro ⟨D, hD, hm, -, -⟩
  have h0 : HasDerivAt (cog20Shock cog20W) (cog20Speed cog20W (1 / 2)) (1 / 2) :=
    cog20_shock_hasDerivAt cog20W (1 / 2) (by unfold cog20W; norm_num)
  have hDv : D = 2047 / 4335 := by rw [hD.unique h0, cog20W_speed]
  rw [cog20W_position, hDv] at hm
  exact cog20W_mass hm

/-- no speed at all makes the two states at the coded position conservative: mass conservation
alone fixes D, and momentum then fails (spherical defaults, t = 1/2) -/
theorem cog20_no_speed_fits (D : ℝ) :
    ¬ RankineHugoniot (cog20Inner cog20W (161 / 510) (1 / 2)) (cog20Outer cog20W (161 / 510) (1 / 2)) D := by
  rintro ⟨hm, hp, -⟩
  simp only [State.massFlux, State.momFlux, cog20Inner, cog20Outer, stateAt, cog20W, epv_leaf] at hm hp
  norm_num at hm hp
  nlinarith [hm, hp]

/-- second witness, Cog19's sign convention (u₀ < 0, here with a < 0 so that the coded position is
positive): u₀ = -2.3, a = -0.3, planar, t = 1/2 -/
def cog20W' : Cog20.P := ⟨40, -3 / 10, 1, 1, 1, 1, 7 / 5, 1, 1, 9 / 5, -23 / 10⟩

theorem cog20_jump_fails_neg :
    ¬ ∃ D, ShockJump (cog20Inner cog20W') (cog20Outer cog20W') (cog20Shock cog20W') D (1 / 2) := by
  rintro ⟨D, hD, hm, -, -⟩
  have h0 : HasDerivAt (cog20Shock cog20W') (cog20Speed cog20W' (1 / 2)) (1 / 2) :=
    cog20_shock_hasDerivAt cog20W' (1 / 2) (by unfold cog20W'; norm_num)
  have hDv : D = cog20Speed cog20W' (1 / 2) := hD.unique h0
  rw [hDv] at hm
  revert hm
  simp only [State.massFlux, cog20Inner, cog20Outer, stateAt, cog20W', cog20Shock, cog20Speed, epv_leaf]
  norm_num

end

end EPV.C02
