/-
C02 — Guderley: Rankine–Hugoniot at the converging shock and at the reflected shock,
**in Lazarus time**; and the FINDING that with the shock speed "implied by where the solver places
[the shock] at neighbouring times" of its own time argument the jump conditions fail.

Where the solver places the discontinuities (traced branch conditions of `state`, model GudState,
on the coordinate x = t_L / r^λ that `guderley_1d` computes, model GudX):

    converging shock   x = -1   ⇔   r = X_c(t_L) = (-t_L)^(1/λ)        (t_L < 0)
    reflected shock    x =  B   ⇔   r = X_r(t_L) = (t_L / B)^(1/λ)     (t_L > 0, B > 0)

(`xi_on_converging_shock`, `xi_on_reflected_shock`).  The speeds are the derivatives of these
coded positions (`HasDerivAt`), never a formula from the documentation.

* `guderley_converging_shock_rh_partial` : Rankine–Hugoniot (`Spec.RankineHugoniot`: mass,
  momentum, total energy) between the undisturbed state (ρ₀, 0, 0, 0), which the solver returns
  for every r < X_c, and the state it returns AT r = X_c, provided the integrator returns its
  start values for the zero-length integration (V, C, R)(-1) = the coded strong-shock values
  (model GudJump: Vs, Cs, Rs).
* `guderley_reflected_shock_rh_partial` : Rankine–Hugoniot between the dimensionalised upstream
  state — similarity values (Vb, Cb, Rb) = the result of the integration to x = B — and the state
  the solver returns AT r = X_r, provided (V, C, R)(B) = the coded jump (Lazarus Eq. 2.6, model
  GudJump: V1, C1, R1) of (Vb, Cb, Rb) (zero-length second integration) and the square root in the
  jump is real.
  Partial: λ, B and the integrations are atoms; the one-sided limits of the atoms (V, C, R) at
  the shocks are identified with the values above by hypothesis.

* FINDING `finding_guderley_shock_speed_solver_time` : in the solver's own time t = 0.750024322
  (t_L + 1) the converging shock moves with dX/dt = (dX_c/dt_L) / 0.750024322, and with THAT speed
  the mass flux is not conserved: witness γ = 7/5, ρ₀ = 1, λ = 7/5, t = 0 (r = 1).
-/
import EPV.Spec.Guderley
import EPV.Spec.Jump

set_option linter.all false

open EPV EPV.Gen EPV.Spec EPV.Spec.Guderley

namespace EPV.C02

/-- the state (ρ, u, p, e) the solver returns at (r, Lazarus time t_L) -/
noncomputable def returned (i : Inp) (a : Atoms) (r tL : ℝ) : State :=
  stateAt (inLazarusTime (density i a)) (inLazarusTime (velocity i a)) (inLazarusTime (pressure i a))
    (inLazarusTime (sie i a)) r tL

/-- Lazarus' Eq. (2.5) as `state` codes it: the physical state of similarity values (V, C, R) at
radius r and similarity coordinate x -/
noncomputable def dimState (i : Inp) (lam r x V C R : ℝ) : State :=
  ⟨R * i.rho0, V * r ^ (1 - lam) / (x * (-1) * lam),
   (C * r ^ (1 - lam) / (x * (-1) * lam)) ^ 2 / (i.gamma * (1 / i.rho0) * (1 / R)),
   (C * r ^ (1 - lam) / (x * (-1) * lam)) ^ 2 / (i.gamma * (1 / i.rho0) * (1 / R)) / ((i.gamma - 1) * i.rho0 * R)⟩

/-- behind the converging shock the returned state IS the dimensionalisation of the atoms -/
theorem returned_behind (i : Inp) (a : Atoms) (r tL : ℝ) (hx : -1 ≤ tL / r ^ a.lam) :
    returned i a r tL = dimState i a.lam r (tL / r ^ a.lam) (a.V (tL / r ^ a.lam)) (a.C (tL / r ^ a.lam))
      (a.R (tL / r ^ a.lam)) := by
  have hxi := xi_solverTime i a r tL
  obtain ⟨h1, h2, h3, h4, h5⟩ := power_law_form i a r (solverTime tL) (by rw [hxi]; exact hx)
  simp only [returned, stateAt, inLazarusTime, dimState, h1, h2, h4, h5, hxi]

/-- ahead of the converging shock the returned state is the undisturbed gas -/
theorem returned_ahead (i : Inp) (a : Atoms) (r tL : ℝ) (hx : tL / r ^ a.lam < -1) :
    returned i a r tL = ⟨i.rho0, 0, 0, 0⟩ := by
  have hxi := xi_solverTime i a r tL
  obtain ⟨h1, h2, h3, h4, h5⟩ := ahead_form i a r (solverTime tL) (by rw [hxi]; exact hx)
  simp only [returned, stateAt, inLazarusTime, h1, h2, h4, h5]

/-! ### Where the shocks are -/

/-- coded position of the converging shock -/
noncomputable def Xc (lam : ℝ) : ℝ → ℝ := fun tL => (-tL) ^ (1 / lam)
/-- coded position of the reflected shock -/
noncomputable def Xr (lam B : ℝ) : ℝ → ℝ := fun tL => (tL / B) ^ (1 / lam)

theorem rpow_inv_rpow {T lam : ℝ} (hT : 0 < T) (hl : lam ≠ 0) : (T ^ (1 / lam)) ^ lam = T := by
  rw [← Real.rpow_mul hT.le, one_div, inv_mul_cancel₀ hl, Real.rpow_one]

/-- on X_c the driver's similarity coordinate is -1; inside (r < X_c) it is < -1 -/
theorem xi_on_converging_shock (lam tL : ℝ) (ht : tL < 0) (hl : 0 < lam) :
    tL / (Xc lam tL) ^ lam = -1 ∧ ∀ r, 0 < r → r < Xc lam tL → tL / r ^ lam < -1 := by
  have hT : 0 < -tL := neg_pos.mpr ht
  have hX : (Xc lam tL) ^ lam = -tL := rpow_inv_rpow hT hl.ne'
  refine ⟨by rw [hX, div_neg, div_self ht.ne], ?_⟩
  intro r hr hlt
  have h1 : r ^ lam < (Xc lam tL) ^ lam := Real.rpow_lt_rpow hr.le hlt hl
  rw [hX] at h1
  have h0 : 0 < r ^ lam := Real.rpow_pos_of_pos hr _
  rw [div_lt_iff₀ h0]
  linarith

/-- on X_r the driver's similarity coordinate is B; outside (r > X_r) it is < B -/
theorem xi_on_reflected_shock (lam B tL : ℝ) (ht : 0 < tL) (hB : 0 < B) (hl : 0 < lam) :
    tL / (Xr lam B tL) ^ lam = B ∧ ∀ r, Xr lam B tL < r → tL / r ^ lam < B := by
  have hT : 0 < tL / B := div_pos ht hB
  have hX : (Xr lam B tL) ^ lam = tL / B := rpow_inv_rpow hT hl.ne'
  refine ⟨by rw [hX]; field_simp, ?_⟩
  intro r hlt
  have hX0 : 0 < Xr lam B tL := Real.rpow_pos_of_pos hT _
  have h1 : (Xr lam B tL) ^ lam < r ^ lam := Real.rpow_lt_rpow hX0.le hlt hl
  rw [hX] at h1
  have h0 : 0 < r ^ lam := lt_trans hT h1
  rw [div_lt_iff₀ h0]
  rw [div_lt_iff₀ hB] at h1
  linarith

theorem Xc_hasDerivAt (lam tL : ℝ) (ht : tL < 0) (hl : lam ≠ 0) :
    HasDerivAt (Xc lam) (-(Xc lam tL / (lam * (-tL)))) tL := by
  have hT : 0 < -tL := neg_pos.mpr ht
  have h := (hasDerivAt_neg' tL).rpow_const (p := 1 / lam) (Or.inl hT.ne')
  refine h.congr_deriv ?_
  simp only [Xc]
  rw [Real.rpow_sub_one hT.ne']
  field_simp

theorem Xr_hasDerivAt (lam B tL : ℝ) (ht : 0 < tL) (hB : 0 < B) (hl : lam ≠ 0) :
    HasDerivAt (Xr lam B) (Xr lam B tL / (lam * tL)) tL := by
  have hT : 0 < tL / B := div_pos ht hB
  have h := ((hasDerivAt_id' tL).div_const B).rpow_const (p := 1 / lam) (Or.inl hT.ne')
  refine h.congr_deriv ?_
  simp only [Xr]
  rw [Real.rpow_sub_one hT.ne']
  field_simp

/-! ### Converging shock -/

/-- **C02, Guderley converging shock (partial: atoms).** -/
theorem guderley_converging_shock_rh_partial (i : Inp) (a : Atoms) (tL : ℝ) (ht : tL < 0) (hl : 0 < a.lam)
    (hγ : 1 < i.gamma) (hρ : i.rho0 ≠ 0)
    (hV : a.V (-1) = GudJump.Vs (jumpP i a 0 a.Cb 0)) (hC : a.C (-1) = GudJump.Cs (jumpP i a 0 a.Cb 0))
    (hR : a.R (-1) = GudJump.Rs (jumpP i a 0 a.Cb 0)) :
    (∀ r, 0 < r → r < Xc a.lam tL → returned i a r tL = ⟨i.rho0, 0, 0, 0⟩)
    ∧ ∃ D, HasDerivAt (Xc a.lam) D tL
        ∧ RankineHugoniot ⟨i.rho0, 0, 0, 0⟩ (returned i a (Xc a.lam tL) tL) D := by
  obtain ⟨hx, hin⟩ := xi_on_converging_shock a.lam tL ht hl
  refine ⟨fun r hr hlt => returned_ahead i a r tL (hin r hr hlt), _, Xc_hasDerivAt a.lam tL ht hl.ne', ?_⟩
  rw [returned_behind i a _ tL (by rw [hx]), hx, hV, hC, hR]
  obtain ⟨s1, s2, s3⟩ := start_form (jumpP i a 0 a.Cb 0)
  rw [s1, s2, s3]
  simp only [jumpP]
  have hT : 0 < -tL := neg_pos.mpr ht
  have hX0 : 0 < Xc a.lam tL := Real.rpow_pos_of_pos hT _
  have hXl : (Xc a.lam tL) ^ a.lam = -tL := rpow_inv_rpow hT hl.ne'
  have hpow : (Xc a.lam tL) ^ (1 - a.lam) = Xc a.lam tL / (-tL) := by
    rw [Real.rpow_sub hX0, Real.rpow_one, hXl]
  have hg1 : 0 < i.gamma - 1 := by linarith
  have hg2 : 0 < i.gamma + 1 := by linarith
  have hg0 : 0 < i.gamma := by linarith
  have hsq : Real.sqrt (2 * i.gamma * (i.gamma - 1)) ^ 2 = 2 * i.gamma * (i.gamma - 1) :=
    Real.sq_sqrt (by positivity)
  simp only [RankineHugoniot, State.massFlux, State.momFlux, State.energyFlux, dimState, hpow, pressure_energy_form]
  generalize Xc a.lam tL = X at *
  generalize Real.sqrt (2 * i.gamma * (i.gamma - 1)) = q at *
  have hl' := hl.ne'
  have hT' := hT.ne'
  refine ⟨?_, ?_, ?_⟩
  · field_simp
    ring
  · field_simp
    rw [hsq]
    ring
  · field_simp
    rw [hsq]
    ring

/-- non-vacuity -/
example : ∃ (gam rho0 lam tL : ℝ), tL < 0 ∧ 0 < lam ∧ 1 < gam ∧ rho0 ≠ 0 :=
  ⟨7 / 5, 1, 7 / 5, -1, by norm_num, by norm_num, by norm_num, by norm_num⟩

/-! ### Reflected shock -/

/-- **C02, Guderley reflected shock (partial: atoms).**  `up` is the dimensionalised upstream
state (similarity values (Vb, Cb, Rb) at x = B, which the solver returns in the limit r ↓ X_r);
the downstream state is what the solver returns at r = X_r. -/
theorem guderley_reflected_shock_rh_partial (i : Inp) (a : Atoms) (tL Vb Rb : ℝ) (ht : 0 < tL) (hB : 0 < a.B)
    (hl : 0 < a.lam) (hγ : 1 < i.gamma) (hρ : i.rho0 ≠ 0) (hCb : a.Cb ≠ 0) (hVb : 1 + Vb ≠ 0) (hRb : Rb ≠ 0)
    (hV1 : 1 + GudJump.V1 (jumpP i a Vb a.Cb Rb) ≠ 0)
    (hreal : 0 ≤ a.Cb ^ 2 + 1 / 2 * (i.gamma - 1) * ((1 + Vb) ^ 2 - (1 + GudJump.V1 (jumpP i a Vb a.Cb Rb)) ^ 2))
    (hV : a.V a.B = GudJump.V1 (jumpP i a Vb a.Cb Rb)) (hR : a.R a.B = GudJump.R1 (jumpP i a Vb a.Cb Rb))
    (hC : a.C a.B ^ 2 = GudJump.C1 (jumpP i a Vb a.Cb Rb) ^ 2) :
    ∃ D, HasDerivAt (Xr a.lam a.B) D tL
      ∧ RankineHugoniot (dimState i a.lam (Xr a.lam a.B tL) a.B Vb a.Cb Rb) (returned i a (Xr a.lam a.B tL) tL) D := by
  obtain ⟨hx, _⟩ := xi_on_reflected_shock a.lam a.B tL ht hB hl
  refine ⟨_, Xr_hasDerivAt a.lam a.B tL ht hB hl.ne', ?_⟩
  rw [returned_behind i a _ tL (by rw [hx]; linarith), hx]
  have hT : 0 < tL / a.B := div_pos ht hB
  have hX0 : 0 < Xr a.lam a.B tL := Real.rpow_pos_of_pos hT _
  have hXl : (Xr a.lam a.B tL) ^ a.lam = tL / a.B := rpow_inv_rpow hT hl.ne'
  have hpow : (Xr a.lam a.B tL) ^ (1 - a.lam) = Xr a.lam a.B tL / (tL / a.B) := by
    rw [Real.rpow_sub hX0, Real.rpow_one, hXl]
  have hg1 : i.gamma - 1 ≠ 0 := by linarith
  have hg2 : i.gamma + 1 ≠ 0 := by linarith
  have hg0 : i.gamma ≠ 0 := by linarith
  -- the coded jump in closed form, on the abstract record
  obtain ⟨j1, j2, j3⟩ := jump_form (jumpP i a Vb a.Cb Rb) hCb
  have e1 : (jumpP i a Vb a.Cb Rb).Cb = a.Cb := rfl
  have e2 : (jumpP i a Vb a.Cb Rb).Vb = Vb := rfl
  have e3 : (jumpP i a Vb a.Cb Rb).Rb = Rb := rfl
  have e4 : (jumpP i a Vb a.Cb Rb).gamma_d = i.gamma := rfl
  rw [e1, e2, e4] at j1 j3
  rw [e2, e3] at j2
  rw [Real.sq_sqrt hreal] at j3
  rw [← hV] at j1 j2 j3 hV1
  rw [← hR] at j2
  rw [← hC] at j3
  clear hV hR hC hreal e1 e2 e3 e4
  simp only [RankineHugoniot, State.massFlux, State.momFlux, State.energyFlux, dimState, hpow, pressure_energy_form]
  -- only C(B)² and Cb² occur
  simp only [show ∀ c w d : ℝ, (c * w / d) ^ 2 = c ^ 2 * (w / d) ^ 2 from fun _ _ _ => by ring]
  rw [j3, j2]
  generalize a.V a.B = v1 at *
  generalize Xr a.lam a.B tL = X at *
  generalize a.Cb ^ 2 = s at *
  obtain ⟨b, hb⟩ : ∃ b, b = 1 + v1 := ⟨_, rfl⟩
  have hv : v1 = b - 1 := by linarith
  subst hv
  have hb0 : b ≠ 0 := by simpa using hV1
  have hs : s = (b * ((i.gamma + 1) * (1 + Vb)) - (i.gamma - 1) * (1 + Vb) ^ 2) / 2 := by
    have h := j1
    field_simp at h
    field_simp
    linarith
  subst hs
  have hl' := hl.ne'
  have ht' := ht.ne'
  have hB' := hB.ne'
  have hb1 : 1 + (b - 1) = b := by ring
  simp only [hb1]
  refine ⟨?_, ?_, ?_⟩
  · field_simp
    ring
  · field_simp
    ring
  · field_simp
    ring

/-- non-vacuity of the reflected-shock hypotheses: γ = 7/5, upstream relative Mach number 2
(1 + Vb = 1, Cb = -1/2): 1 + V1 = 3/8, the square root is real -/
example : ∃ (gam Vb Cb : ℝ), 1 < gam ∧ Cb ≠ 0 ∧ 1 + Vb ≠ 0
    ∧ 1 + ((gam - 1) * (1 + Vb) / (gam + 1) + 2 * Cb ^ 2 / ((gam + 1) * (1 + Vb)) - 1) ≠ 0
    ∧ 0 ≤ Cb ^ 2 + 1 / 2 * (gam - 1) * ((1 + Vb) ^ 2
        - (1 + ((gam - 1) * (1 + Vb) / (gam + 1) + 2 * Cb ^ 2 / ((gam + 1) * (1 + Vb)) - 1)) ^ 2) :=
  ⟨7 / 5, 0, -1 / 2, by norm_num, by norm_num, by norm_num, by norm_num, by norm_num⟩

/-! ### FINDING: the shock speed implied by the solver's own time argument -/

/-- **Finding.**  γ = 7/5, geometry 3, ρ₀ = 1, λ = 7/5, solver time t = 0: the solver places the
converging shock at r = X_c(t / 0.750024322 - 1), i.e. at r = 1, moving (in ITS time) with speed
D = -(1/λ)/0.750024322.  Between the undisturbed state it returns inside and the state it returns
at the shock — similarity values = the coded strong-shock start values — the mass flux
ρ (u - D) is NOT conserved (it would be iff 0.750024322 = 1): the returned velocity is a velocity
per unit of Lazarus time. -/
theorem finding_guderley_shock_speed_solver_time :
    ∃ (i : Inp) (a : Atoms) (t D : ℝ), lazarus t < 0 ∧ 0 < a.lam ∧ 1 < i.gamma ∧ i.rho0 ≠ 0
      ∧ a.V (-1) = GudJump.Vs (jumpP i a 0 a.Cb 0) ∧ a.C (-1) = GudJump.Cs (jumpP i a 0 a.Cb 0)
      ∧ a.R (-1) = GudJump.Rs (jumpP i a 0 a.Cb 0)
      ∧ HasDerivAt (fun s => Xc a.lam (lazarus s)) D t
      ∧ ¬ RankineHugoniot ⟨i.rho0, 0, 0, 0⟩
          (stateAt (density i a) (velocity i a) (pressure i a) (sie i a) (Xc a.lam (lazarus t)) t) D := by
  let jp : GudJump.P := { Vb := 0, Cb := 1, Rb := 0, gamma_d := 7 / 5, lambda_d := 7 / 5, n := 3 }
  let i : Inp := ⟨3, 7 / 5, 1⟩
  let a : Atoms := { lam := 7 / 5, B := 1, Cb := 1, V := fun _ => GudJump.Vs jp, C := fun _ => GudJump.Cs jp,
                     R := fun _ => GudJump.Rs jp }
  have hlz : lazarus 0 = -1 := by unfold lazarus; norm_num
  have hX1 : Xc a.lam (lazarus 0) = 1 := by
    rw [hlz]; simp only [Xc]; norm_num
  have hD : HasDerivAt (fun s => Xc a.lam (lazarus s)) (-(Xc a.lam (lazarus 0) / (a.lam * (-(lazarus 0)))) * (1 / fC)) 0 :=
    HasDerivAt.comp (0 : ℝ) (Xc_hasDerivAt a.lam (lazarus 0) (by rw [hlz]; norm_num) (by show (7 / 5 : ℝ) ≠ 0; norm_num))
      (by
        have : HasDerivAt lazarus (1 / fC) 0 := by
          unfold lazarus
          simpa using ((hasDerivAt_id (0 : ℝ)).div_const fC).sub_const 1
        exact this)
  refine ⟨i, a, 0, _, by rw [hlz]; norm_num, by show (0 : ℝ) < 7 / 5; norm_num, by show (1 : ℝ) < 7 / 5; norm_num,
    by show (1 : ℝ) ≠ 0; norm_num, rfl, rfl, rfl, hD, ?_⟩
  intro h
  have hm := h.1
  rw [hX1] at hm
  have hxi : xi i a 1 0 = -1 := by
    rw [xi_eq]; norm_num
  obtain ⟨h1, h2, _, _, _⟩ := power_law_form i a 1 0 (by rw [hxi])
  obtain ⟨s1, _, s3⟩ := start_form jp
  simp only [State.massFlux, stateAt, h1, h2, hxi, hlz] at hm
  simp only [a, i] at hm
  rw [s1, s3] at hm
  simp only [jp] at hm
  have hf := fC_pos.ne'
  norm_num at hm
  field_simp at hm
  unfold fC at hm
  norm_num at hm

end EPV.C02
