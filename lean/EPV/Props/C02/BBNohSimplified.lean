/-
C02 — black-box Noh, the two 2-unknown residuals (planar, P₀ = 0; the shock speed D is eliminated):
`simplified_energy_noh_residual.F(ρ, P) = 0`, resp. `simplified_pressure_noh_residual.F(ρ, e) = 0`, holds exactly
when there is a front speed D ≠ 0 with which the shocked state at rest and the incoming gas satisfy the three
Rankine–Hugoniot conditions (`EPV.Spec.StagnationShock`, m = 0) — for ANY equation of state object.
-/
import EPV.Lemmas.C16ResDefs
import EPV.Lemmas.Bridge.EosTac

set_option linter.all false

open EPV EPV.Gen EPV.Spec

namespace EPV.C02

/-- algebraic core: with m = 0 and P₀ = 0, `P - u₀²ρ₀ - P/ρ·ρ₀ = 0 ∧ e - e₀ - u₀²/2 = 0` iff Rankine–Hugoniot for some D ≠ 0 -/
theorem simplified_core (ρ₀ u₀ e₀ ρ P e : ℝ) (hu : u₀ < 0) (hρ₀ : 0 < ρ₀) (hρ : ρ ≠ 0) :
    (P - u₀ ^ 2 * ρ₀ - P / ρ * ρ₀ = 0 ∧ e - e₀ - 1 / 2 * u₀ ^ 2 = 0) ↔
    ∃ D, D ≠ 0 ∧ StagnationShock ⟨ρ₀, u₀, 0⟩ 0 e₀ ρ P e D := by
  have hu' : u₀ ≠ 0 := ne_of_lt hu
  simp only [StagnationShock, RankineHugoniot, shockedState, incomingState, State.massFlux, State.momFlux,
    State.energyFlux, pow_zero, mul_one]
  constructor
  · rintro ⟨f0, f1⟩
    have f0' : P * ρ - u₀ ^ 2 * ρ₀ * ρ - P * ρ₀ = 0 := by
      have : (P - u₀ ^ 2 * ρ₀ - P / ρ * ρ₀) * ρ = 0 := by rw [f0]; ring
      rw [← this]; field_simp
    have hP : P ≠ 0 := by
      rintro rfl
      have : u₀ ^ 2 * ρ₀ * ρ = 0 := by linarith
      have h3 : u₀ ^ 2 * ρ₀ * ρ ≠ 0 := mul_ne_zero (mul_ne_zero (pow_ne_zero _ hu') (ne_of_gt hρ₀)) hρ
      exact h3 this
    obtain ⟨D', hD'⟩ : ∃ D', D' * (ρ * u₀) = -P := ⟨-P / (ρ * u₀), by field_simp⟩
    have hD0 : D' ≠ 0 := by
      rintro rfl
      apply hP
      linarith
    have mass : ρ * (0 - D') = ρ₀ * (u₀ - D') := by
      apply mul_left_cancel₀ (mul_ne_zero hρ hu')
      linear_combination (-ρ + ρ₀) * hD' + f0'
    refine ⟨D', hD0, mass, ?_, ?_⟩
    · apply mul_left_cancel₀ hρ
      linear_combination f0' + ρ₀ * hD'
    · have he : e = e₀ + u₀ ^ 2 / 2 := by linarith
      rw [he]
      linear_combination (e₀ + u₀ ^ 2 / 2) * mass
  · rintro ⟨D, hD, m1, m2, m3⟩
    have hρD : ρ * D ≠ 0 := mul_ne_zero hρ hD
    constructor
    · have h1 : P * ρ - u₀ ^ 2 * ρ₀ * ρ - P * ρ₀ = 0 := by
        linear_combination (ρ - ρ₀) * m2 + (ρ₀ * u₀) * m1
      have h2 : P - u₀ ^ 2 * ρ₀ - P / ρ * ρ₀ = (P * ρ - u₀ ^ 2 * ρ₀ * ρ - P * ρ₀) / ρ := by
        field_simp
      rw [h2, h1, zero_div]
    · have : (ρ * D) * (e - e₀ - 1 / 2 * u₀ ^ 2) = 0 := by
        linear_combination (-1 : ℝ) * m3 + (e₀ + u₀ ^ 2 / 2) * m1
      exact (mul_eq_zero.mp this).resolve_left hρD

/-- `simplified_energy_noh_residual` (unknowns ρ, P; shocked energy e(ρ, P)) -/
theorem sEnergyS0_zero_iff_jump (s : EOS) (ic : NohIC) (ρ x : ℝ) (hic : ic.Admissible 0) (hP : ic.P_0 = 0) (hρ : ρ ≠ 0) :
    (∀ i, C16.SEnergyS0.F s ic ρ x i = 0) ↔
    ∃ D, D ≠ 0 ∧ StagnationShock ic 0 (s.e ic.rho_0 ic.P_0) ρ x (s.e ρ x) D := by
  obtain ⟨hu, hr0, hP0, hm⟩ := hic
  have hic' : ic = ⟨ic.rho_0, ic.u_0, 0⟩ := by cases ic; simp_all
  have core := simplified_core ic.rho_0 ic.u_0 (s.e ic.rho_0 ic.P_0) ρ x (s.e ρ x) hu hr0 hρ
  rw [← hic'] at core
  -- bridge: the traced components are the documented residuals, however the code writes them
  have e0 : C16.SEnergyS0.F s ic ρ x 0 = x - ic.u_0 ^ 2 * ic.rho_0 - x / ρ * ic.rho_0 := by
    simp only [C16.SEnergyS0.F] <;> epv_eos_res_eq
  have e1 : C16.SEnergyS0.F s ic ρ x 1 = s.e ρ x - s.e ic.rho_0 ic.P_0 - 1 / 2 * ic.u_0 ^ 2 := by
    simp only [C16.SEnergyS0.F] <;> epv_eos_res_eq
  rw [← core, Fin.forall_fin_two, e0, e1]

/-- `simplified_pressure_noh_residual` (unknowns ρ, e; shocked pressure P(ρ, e)) -/
theorem sPressureS0_zero_iff_jump (s : EOS) (ic : NohIC) (ρ x : ℝ) (hic : ic.Admissible 0) (hP : ic.P_0 = 0) (hρ : ρ ≠ 0) :
    (∀ i, C16.SPressureS0.F s ic ρ x i = 0) ↔
    ∃ D, D ≠ 0 ∧ StagnationShock ic 0 (s.e ic.rho_0 ic.P_0) ρ (s.P ρ x) x D := by
  obtain ⟨hu, hr0, hP0, hm⟩ := hic
  have hic' : ic = ⟨ic.rho_0, ic.u_0, 0⟩ := by cases ic; simp_all
  have core := simplified_core ic.rho_0 ic.u_0 (s.e ic.rho_0 ic.P_0) ρ (s.P ρ x) x hu hr0 hρ
  rw [← hic'] at core
  have e0 : C16.SPressureS0.F s ic ρ x 0 = s.P ρ x - ic.u_0 ^ 2 * ic.rho_0 - s.P ρ x / ρ * ic.rho_0 := by
    simp only [C16.SPressureS0.F] <;> epv_eos_res_eq
  have e1 : C16.SPressureS0.F s ic ρ x 1 = x - s.e ic.rho_0 ic.P_0 - 1 / 2 * ic.u_0 ^ 2 := by
    simp only [C16.SPressureS0.F] <;> epv_eos_res_eq
  rw [← core, Fin.forall_fin_two, e0, e1]

/-- non-vacuity: the default planar problem ρ₀ = 1, u₀ = -1, P₀ = 0 with the ideal-gas (γ = 5/3) Noh state
(ρ, P, e) = (4, 4/3, 1/2), front speed D = 1/3: the algebraic core is met -/
example : (4 / 3 : ℝ) - (-1) ^ 2 * 1 - 4 / 3 / 4 * 1 = 0 ∧ (1 / 2 : ℝ) - 0 - 1 / 2 * (-1) ^ 2 = 0 := by
  constructor <;> norm_num

end EPV.C02
