/-
C02 (Sedov share, companion) — the similarity functions are normalised at the shock:
λ = f = g = h = 1 at v = v2, so that the fields returned just behind the shock are the
post-shock state (ρ₂, u₂, p₂) of `sedov_shock_jump` (hypotheses f 1 = g 1 = h 1 = 1 there).

Generated models of `sedov_funcs_standard` (all three singularity branches).  At v = v2 the four
power bases x1 = a_val·v, x2 = b_val(c_val·v - 1), x3 = d_val(1 - e_val·v), x4 = b_val(1 - xg2·v/2)
are all 1 — `shock_bases` proves this from the constants `__init__` computes
(a_val = xg2(γ+1)/4, b_val = (γ+1)/(γ-1), c_val = xg2·γ/2, d_val, e_val = (2+k(γ-1))/2,
v2 = 4/(xg2(γ+1))) — and then every similarity function is a product of powers of 1
(and exp 0 in the omega2 / omega3 branches).
-/
import EPV.Lemmas.SedovFuncs

set_option linter.all false
set_option maxRecDepth 100000

open EPV EPV.Gen EPV.Sedov

namespace EPV.C02

/-- with the constants of `__init__` the four bases are 1 at v = v2 -/
theorem shock_bases (k γ ω : ℝ) (hγ1 : γ - 1 ≠ 0) (hγ2 : γ + 1 ≠ 0) (hx : k + 2 - ω ≠ 0)
    (hd : (k + 2 - ω) * (γ + 1) - 2 * (2 + k * (γ - 1)) ≠ 0) :
    let xg2 := k + 2 - ω
    let v2 := 4 / (xg2 * (γ + 1))
    (1 / 4 * xg2 * (γ + 1)) * v2 = 1 ∧
    ((γ + 1) / (γ - 1)) * ((1 / 2 * xg2 * γ) * v2 - 1) = 1 ∧
    ((xg2 * (γ + 1)) / (xg2 * (γ + 1) - 2 * (2 + k * (γ - 1)))) * (1 - (1 / 2 * (2 + k * (γ - 1))) * v2) = 1 ∧
    ((γ + 1) / (γ - 1)) * (1 - 1 / 2 * xg2 * v2) = 1 := by
  intro xg2 v2
  simp only [xg2, v2]
  refine ⟨?_, ?_, ?_, ?_⟩ <;> field_simp <;> ring

theorem SedovFuncs_at_shock (p : SedovFuncs.P) (v : ℝ) (hleaf : SedovFuncs.leaf p v = 1)
    (h1 : p.a_val * v = 1) (h2 : p.b_val * (p.c_val * v - 1) = 1) (h3 : p.d_val * (1 - p.e_val * v) = 1)
    (h4 : p.b_val * (1 - 1 / 2 * p.xg2 * v) = 1) :
    SedovFuncs.l_fun p v = 1 ∧ SedovFuncs.f_fun p v = 1 ∧ SedovFuncs.g_fun p v = 1 ∧ SedovFuncs.h_fun p v = 1 := by
  obtain ⟨c0, c1⟩ := (SedovFuncs_leaf1 p v).mp hleaf
  simp only [epv_tree, c0, c1, if_false, if_true]
  simp only [epv_semi_leaf, h1, h2, h3, h4, Real.one_rpow, mul_one, and_self]

theorem SedovFuncsO2_at_shock (p : SedovFuncsO2.P) (v : ℝ) (hleaf : SedovFuncsO2.leaf p v = 1)
    (h1 : p.a_val * v = 1) (h2 : p.b_val * (p.c_val * v - 1) = 1)
    (h4 : p.b_val * (1 - 1 / 2 * p.xg2 * v) = 1) :
    SedovFuncsO2.l_fun p v = 1 ∧ SedovFuncsO2.f_fun p v = 1 ∧ SedovFuncsO2.g_fun p v = 1
      ∧ SedovFuncsO2.h_fun p v = 1 := by
  obtain ⟨c0, c1⟩ := (SedovFuncsO2_leaf1 p v).mp hleaf
  simp only [epv_tree, c0, c1, if_false, if_true]
  simp only [epv_semi_leaf, h1, h2, h4, Real.one_rpow, mul_one, sub_self, zero_mul, mul_zero, Real.exp_zero, and_self]

theorem SedovFuncsO3_at_shock (p : SedovFuncsO3.P) (v : ℝ) (hleaf : SedovFuncsO3.leaf p v = 1)
    (h1 : p.a_val * v = 1) (h2 : p.b_val * (p.c_val * v - 1) = 1)
    (h4 : p.b_val * (1 - 1 / 2 * p.xg2 * v) = 1) :
    SedovFuncsO3.l_fun p v = 1 ∧ SedovFuncsO3.f_fun p v = 1 ∧ SedovFuncsO3.g_fun p v = 1
      ∧ SedovFuncsO3.h_fun p v = 1 := by
  obtain ⟨c0, c1⟩ := (SedovFuncsO3_leaf1 p v).mp hleaf
  simp only [epv_tree, c0, c1, if_false, if_true]
  simp only [epv_semi_leaf, h1, h2, h4, Real.one_rpow, mul_one, sub_self, zero_mul, mul_zero, zero_div, Real.exp_zero,
    and_self]

/-- non-vacuity: the default problem (γ = 7/5, k = 3, ω = 0) -/
example : (7/5 : ℝ) - 1 ≠ 0 ∧ (7/5 : ℝ) + 1 ≠ 0 ∧ (3 : ℝ) + 2 - 0 ≠ 0
    ∧ ((3 : ℝ) + 2 - 0) * (7/5 + 1) - 2 * (2 + 3 * (7/5 - 1)) ≠ 0 := by norm_num

end EPV.C02
