/-
C02/C16 — what reported convergence of the Newton iteration means for the jump conditions.

`newton_converged` (Props/C16/Newton.lean) gives ‖F y‖ ≤ tol for the returned state y, with ‖·‖ the Euclidean norm
(`numpy.linalg.norm`).  Together with the exact identities `pressureS*_jump_defects` between the components of F and
the flux differences across the front, the three Rankine–Hugoniot conditions hold at y up to

    |Δ mass| ≤ |D| tol ,  |Δ momentum| ≤ (1 + |u₀ D|) tol ,  |Δ energy| ≤ (|ρ D| + |D (e₀ + u₀²/2)|) tol .

(The sign of D is not determined — FindingSpuriousRoot.lean.)
-/
import EPV.Props.C02.BBNohResidual

set_option linter.all false

open EPV EPV.Gen EPV.Spec

namespace EPV.C02

/-- a component is bounded by the Euclidean norm -/
theorem abs_le_of_norm3_le {a b c tol : ℝ} (h : Real.sqrt (a ^ 2 + b ^ 2 + c ^ 2) ≤ tol) :
    |a| ≤ tol ∧ |b| ≤ tol ∧ |c| ≤ tol := by
  refine ⟨le_trans (Real.abs_le_sqrt ?_) h, le_trans (Real.abs_le_sqrt ?_) h, le_trans (Real.abs_le_sqrt ?_) h⟩ <;>
    nlinarith [sq_nonneg a, sq_nonneg b, sq_nonneg c]

/-- the three defects, given the identities and the bound on the components of F -/
theorem defects_le {dm dp de f0 f1 f2 D u ρ E tol : ℝ}
    (hM : dm = -D * f0) (hMo : dp = f1 - u * D * f0) (hE : de = -(ρ * D) * f2 - D * E * f0)
    (h0 : |f0| ≤ tol) (h1 : |f1| ≤ tol) (h2 : |f2| ≤ tol) :
    |dm| ≤ |D| * tol ∧ |dp| ≤ (1 + |u * D|) * tol ∧ |de| ≤ (|ρ * D| + |D * E|) * tol := by
  have ht : 0 ≤ tol := le_trans (abs_nonneg _) h0
  refine ⟨?_, ?_, ?_⟩
  · rw [hM, abs_mul, abs_neg]
    exact mul_le_mul_of_nonneg_left h0 (abs_nonneg _)
  · rw [hMo]
    calc |f1 - u * D * f0| ≤ |f1| + |u * D * f0| := abs_sub _ _
      _ = |f1| + |u * D| * |f0| := by rw [abs_mul (u * D)]
      _ ≤ tol + |u * D| * tol := add_le_add h1 (mul_le_mul_of_nonneg_left h0 (abs_nonneg _))
      _ = (1 + |u * D|) * tol := by ring
  · rw [hE]
    calc |-(ρ * D) * f2 - D * E * f0| ≤ |-(ρ * D) * f2| + |D * E * f0| := abs_sub _ _
      _ = |ρ * D| * |f2| + |D * E| * |f0| := by rw [abs_mul, abs_neg, abs_mul (D * E)]
      _ ≤ |ρ * D| * tol + |D * E| * tol :=
          add_le_add (mul_le_mul_of_nonneg_left h2 (abs_nonneg _)) (mul_le_mul_of_nonneg_left h0 (abs_nonneg _))
      _ = (|ρ * D| + |D * E|) * tol := by ring

/-- `pressure_noh_residual`, spherical (the solver's default): ‖F(ρ, e, D)‖₂ ≤ tol ⇒ the jump conditions hold to tolerance -/
theorem pressureS2_jump_within_tolerance (s : EOS) (ic : NohIC) (ρ x D tol : ℝ) (hic : ic.Admissible 2) (hρ : ρ ≠ 0) (hD : D ≠ 0)
    (h : Real.sqrt (C16.PressureS2.F s ic ρ x D 0 ^ 2 + C16.PressureS2.F s ic ρ x D 1 ^ 2 + C16.PressureS2.F s ic ρ x D 2 ^ 2) ≤ tol) :
    let a := shockedState ρ (s.P ρ x) x
    let b := incomingState ic 2 (s.e ic.rho_0 ic.P_0) D
    |a.massFlux D - b.massFlux D| ≤ |D| * tol
    ∧ |a.momFlux D - b.momFlux D| ≤ (1 + |ic.u_0 * D|) * tol
    ∧ |a.energyFlux D - b.energyFlux D| ≤ (|ρ * D| + |D * (s.e ic.rho_0 ic.P_0 + ic.u_0 ^ 2 / 2)|) * tol := by
  intro a b
  obtain ⟨hM, hMo, hE⟩ := pressureS2_jump_defects s ic ρ x D hic hρ hD
  obtain ⟨h0, h1, h2⟩ := abs_le_of_norm3_le h
  exact defects_le hM hMo hE h0 h1 h2

/-- cylindrical -/
theorem pressureS1_jump_within_tolerance (s : EOS) (ic : NohIC) (ρ x D tol : ℝ) (hic : ic.Admissible 1) (hρ : ρ ≠ 0) (hD : D ≠ 0)
    (h : Real.sqrt (C16.PressureS1.F s ic ρ x D 0 ^ 2 + C16.PressureS1.F s ic ρ x D 1 ^ 2 + C16.PressureS1.F s ic ρ x D 2 ^ 2) ≤ tol) :
    let a := shockedState ρ (s.P ρ x) x
    let b := incomingState ic 1 (s.e ic.rho_0 ic.P_0) D
    |a.massFlux D - b.massFlux D| ≤ |D| * tol
    ∧ |a.momFlux D - b.momFlux D| ≤ (1 + |ic.u_0 * D|) * tol
    ∧ |a.energyFlux D - b.energyFlux D| ≤ (|ρ * D| + |D * (s.e ic.rho_0 ic.P_0 + ic.u_0 ^ 2 / 2)|) * tol := by
  intro a b
  obtain ⟨hM, hMo, hE⟩ := pressureS1_jump_defects s ic ρ x D hic hρ hD
  obtain ⟨h0, h1, h2⟩ := abs_le_of_norm3_le h
  exact defects_le hM hMo hE h0 h1 h2

/-- planar -/
theorem pressureS0_jump_within_tolerance (s : EOS) (ic : NohIC) (ρ x D tol : ℝ) (hic : ic.Admissible 0) (hρ : ρ ≠ 0) (hD : D ≠ 0)
    (h : Real.sqrt (C16.PressureS0.F s ic ρ x D 0 ^ 2 + C16.PressureS0.F s ic ρ x D 1 ^ 2 + C16.PressureS0.F s ic ρ x D 2 ^ 2) ≤ tol) :
    let a := shockedState ρ (s.P ρ x) x
    let b := incomingState ic 0 (s.e ic.rho_0 ic.P_0) D
    |a.massFlux D - b.massFlux D| ≤ |D| * tol
    ∧ |a.momFlux D - b.momFlux D| ≤ (1 + |ic.u_0 * D|) * tol
    ∧ |a.energyFlux D - b.energyFlux D| ≤ (|ρ * D| + |D * (s.e ic.rho_0 ic.P_0 + ic.u_0 ^ 2 / 2)|) * tol := by
  intro a b
  obtain ⟨hM, hMo, hE⟩ := pressureS0_jump_defects s ic ρ x D hic hρ hD
  obtain ⟨h0, h1, h2⟩ := abs_le_of_norm3_le h
  exact defects_le hM hMo hE h0 h1 h2

/-- non-vacuity: the norm hypothesis holds with tol = 0 at an exact root (all components zero) -/
example : Real.sqrt ((0 : ℝ) ^ 2 + 0 ^ 2 + 0 ^ 2) ≤ 0 := by norm_num

end EPV.C02
