/-
C02 — elastic–plastic piston, where `_run` places the two waves ("the discontinuity's speed as implied
by where the solver places it at neighbouring times").

`epprun_placement`: inside the time window (`outcome = ok`) the returned record is
  the state behind the plastic wave  (ρ2, up, p2, e2, s_y)   for x < wv_pl · t,
  the state at yield                 (ρ_y, vel_y, p_y, e_y, s_y) for wv_pl · t < x < wv_el · t,
  the undisturbed state              (ρ₀, 0, 0, 0, 0)         for x ≥ wv_el · t
— so the plastic wave sits at X_pl(t) = wv_pl · t and the elastic precursor at X_el(t) = wv_el · t, whose
time derivatives are `wv_pl` and `wv_el` (`epprun_speeds`): the speeds used in the jump theorems of
C02/EPPiston.lean are the speeds implied by the placement.
Observation: at x = wv_pl · t *exactly* the `elif x > wv_pl_x and …` falls through to the undisturbed
state (`epprun_on_plastic_front`), a single point.
-/
import EPV.Gen.EPPistonRun
import EPV.Tactics

set_option linter.all false

open EPV EPV.Gen

namespace EPV.C02

theorem epprun_placement (p : EPPistonRun.P) (x t : ℝ) (h : EPPistonRun.outcome p x t = .ok) :
    (x < p.wv_pl * t →
      EPPistonRun.density p x t = p.rho2 ∧ EPPistonRun.velocity p x t = p.up ∧ EPPistonRun.pressure p x t = p.p2 ∧
      EPPistonRun.specific_internal_energy p x t = p.e2 ∧ EPPistonRun.deviatoric_stress p x t = p.sdev_y) ∧
    (p.wv_pl * t < x → x < p.wv_el * t →
      EPPistonRun.density p x t = p.rho_y ∧ EPPistonRun.velocity p x t = p.vel_y ∧ EPPistonRun.pressure p x t = p.p_y ∧
      EPPistonRun.specific_internal_energy p x t = p.e_y ∧ EPPistonRun.deviatoric_stress p x t = p.sdev_y) ∧
    (p.wv_pl * t ≤ x → p.wv_el * t ≤ x →
      EPPistonRun.density p x t = p.rho0 ∧ EPPistonRun.velocity p x t = 0 ∧ EPPistonRun.pressure p x t = 0 ∧
      EPPistonRun.specific_internal_energy p x t = 0 ∧ EPPistonRun.deviatoric_stress p x t = 0) := by
  simp only [epv_tree] at *
  split_ifs at * <;> first
    | epv_absurd
    | (simp only [epv_cond, not_lt] at *
       refine ⟨fun h1 => ?_, fun h1 h2 => ?_, fun h1 h2 => ?_⟩ <;>
         first
           | (exfalso; linarith)
           | (simp only [epv_leaf, and_self]))

theorem epprun_on_plastic_front (p : EPPistonRun.P) (t : ℝ) (h : EPPistonRun.outcome p (p.wv_pl * t) t = .ok) :
    EPPistonRun.density p (p.wv_pl * t) t = p.rho0 ∧ EPPistonRun.velocity p (p.wv_pl * t) t = 0 := by
  simp only [epv_tree] at *
  split_ifs at * <;> first
    | epv_absurd
    | (simp only [epv_leaf, and_self]; done)
    | (exfalso
       simp only [epv_cond, lt_self_iff_false] at * <;> first | assumption | contradiction | linarith)

theorem epprun_speeds (p : EPPistonRun.P) (t : ℝ) :
    HasDerivAt (fun s => p.wv_pl * s) p.wv_pl t ∧ HasDerivAt (fun s => p.wv_el * s) p.wv_el t := by
  constructor
  · simpa using (hasDerivAt_id' t).const_mul p.wv_pl
  · simpa using (hasDerivAt_id' t).const_mul p.wv_el

end EPV.C02
