/-
C02 — Mader: the Chapman–Jouguet state at the detonation front.

`rare` works with the CJ state  ρ_cj = ρ₀ (γ+1)/γ, u_cj = D/(γ+1), c_cj = γ D/(γ+1), p_cj  and the
initial density ρ₀ = (γ+1) p_cj / D² (locals `rho_cj`, `u_cj`, `c_cj`, `rho_0`; `MaderL.rhocj` … are
those locals, tied to the generated leaves by `rfl` in Lemmas/Mader.lean).

* `mader_cj_state`   : the constant-state branch of `rare` with the piston moving at the CJ particle
                       speed returns exactly the CJ state (this is how the CJ state is observable
                       on the code for every γ);
* `mader_cj_jump`    : that state and the initial state (ρ₀, u = 0, p = 0) satisfy mass, momentum and
                       total-energy conservation across a front of speed D with heat release
                       q = D²/(2(γ²-1)) (the documented q), and u_cj + c_cj = D;  every γ > 1, D ≠ 0;
* `mader_fan_head`   : for γ = 3 (the documented problem) the fan branch at the front (xlab = 0)
                       returns u = u_cj, c = c_cj, so the Taylor wave starts in the CJ state;
* FINDING `mader_fan_head_gamma` / `mader_fan_head_not_cj`: for γ ≠ 3 the fan branch does not: the
                       coded `aa = 1/(2 c_cj t)` is the γ = 3 value of (γ-1)/((γ+1) c_cj t), the head of
                       the fan has u + c = D (γ+5)/(2(γ+1)) ≠ D (witness γ = 2).  The parameter
                       `gamma` is documented as a free "ratio of specific heats".
-/
import EPV.Lemmas.Mader
import EPV.Spec.Detonation

set_option linter.all false

open EPV EPV.Gen EPV.Spec EPV.MaderL

namespace EPV.C02

theorem mader_leaves : MaderRare.okLeaves = [0, 1, 2, 3, 4] := rfl

/-- a piston at the CJ particle speed supports the CJ state -/
theorem mader_cj_state (p : MaderRare.P) (xlab time : ℝ) (hu : p.u_piston = ucj p) (hp : 0 < p.p_cj) :
    MaderRare.L4.velocity p xlab time = ucj p ∧ MaderRare.L4.sound_speed p xlab time = ccj p ∧
    MaderRare.L4.pressure p xlab time = p.p_cj ∧ MaderRare.L4.density p xlab time = rhocj p := by
  have hZ : Z p = 1 := by unfold Z; rw [hu]; simp
  rw [plateau_velocity_eq, plateau_sound_speed_eq, plateau_pressure_eq, plateau_density_eq, hZ, hu]
  simp only [Real.one_rpow, mul_one, div_self hp.ne', true_and]

theorem mader_cj_jump (p : MaderRare.P) (hγ : 1 < p.gam) (hD : p.d_cj ≠ 0) (hp : p.p_cj ≠ 0) :
    DetonationJump ⟨rho0 p, 0, 0, 0⟩ ⟨rhocj p, ucj p, p.p_cj, p.p_cj / ((p.gam - 1) * rhocj p)⟩
      (p.d_cj ^ 2 / (2 * (p.gam ^ 2 - 1))) p.d_cj ∧
    ChapmanJouguet ⟨rhocj p, ucj p, p.p_cj, p.p_cj / ((p.gam - 1) * rhocj p)⟩ (ccj p) p.d_cj := by
  have h1 : p.gam - 1 ≠ 0 := by linarith
  have h2 : p.gam + 1 ≠ 0 := by linarith
  have h3 : p.gam ≠ 0 := by linarith
  have h4 : p.gam ^ 2 - 1 ≠ 0 := by nlinarith
  unfold DetonationJump ChapmanJouguet RankineHugoniot State.massFlux State.momFlux State.energyFlux
  simp only [rhocj, rho0, ucj, ccj]
  refine ⟨⟨?_, ?_, ?_⟩, ?_⟩ <;> field_simp <;> ring

/-- the fan branch at the front for γ = 3: the Taylor wave starts in the CJ state -/
theorem mader_fan_head (p : MaderRare.P) (time : ℝ) (hγ : p.gam = 3) (hD : p.d_cj ≠ 0) (ht : time ≠ 0) :
    MaderRare.L0.velocity p 0 time = ucj p ∧ MaderRare.L0.sound_speed p 0 time = ccj p ∧
    MaderRare.L0.velocity p 0 time + MaderRare.L0.sound_speed p 0 time = p.d_cj := by
  rw [fan_velocity_eq, fan_sound_speed_eq]
  simp only [dd, ee, x1, xdet, Y, aa, bb, ucj, ccj, hγ]
  refine ⟨?_, ?_, ?_⟩ <;> field_simp <;> ring

/-- the fan branch at the front for general γ: `u + c = D (γ + 5) / (2 (γ + 1))` -/
theorem mader_fan_head_gamma (p : MaderRare.P) (time : ℝ) (hγ : 1 < p.gam) (hD : p.d_cj ≠ 0) (ht : time ≠ 0) :
    MaderRare.L0.velocity p 0 time + MaderRare.L0.sound_speed p 0 time
      = p.d_cj * (p.gam + 5) / (2 * (p.gam + 1)) := by
  have h1 : p.gam - 1 ≠ 0 := by linarith
  have h2 : p.gam + 1 ≠ 0 := by linarith
  have h3 : p.gam ≠ 0 := by linarith
  rw [fan_velocity_eq, fan_sound_speed_eq]
  simp only [dd, ee, x1, xdet, Y, aa, bb, ucj, ccj]
  field_simp
  ring

/-- **Finding.**  For γ = 2 (D = 8·10⁵, any dx, t = 1/160000) the head of the coded fan is not sonic
relative to the front: u + c = 7 D / 6 ≠ D. -/
theorem mader_fan_head_not_cj :
    MaderRare.L0.velocity ⟨800000, 1 / 100, 2, 300000000000, 0⟩ 0 (1 / 160000)
      + MaderRare.L0.sound_speed ⟨800000, 1 / 100, 2, 300000000000, 0⟩ 0 (1 / 160000) ≠ 800000 := by
  rw [mader_fan_head_gamma _ _ (by norm_num) (by norm_num) (by norm_num)]
  norm_num

/-- non-vacuity at the defaults -/
example : ∃ p : MaderRare.P, 1 < p.gam ∧ p.d_cj ≠ 0 ∧ p.p_cj ≠ 0 ∧ p.gam = 3 :=
  ⟨⟨800000, 1 / 100, 3, 300000000000, 0⟩, by norm_num, by norm_num, by norm_num, rfl⟩

end EPV.C02
