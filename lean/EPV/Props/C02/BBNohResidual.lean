-- Written by EPV/Props/C16/gen_res.py (templates over symmetry and matrix entry); plain Lean, reviewed as such.

/-
C02 — black-box Noh: each 3-unknown residual `F` vanishes exactly when the shocked state and the incoming
gas satisfy the three Rankine–Hugoniot conditions (`EPV.Spec.StagnationShock`) — for ANY equation of state object
(abstract `s : EOS`), every symmetry m = 0, 1, 2, every admissible initial state, ρ ≠ 0, D ≠ 0.
The 2-unknown residuals (D eliminated) are in BBNohSimplified.lean.
-/
import EPV.Lemmas.C16ResDefs
import EPV.Lemmas.Bridge.EosTac

set_option linter.all false
set_option maxHeartbeats 1000000

open EPV EPV.Gen EPV.Spec

namespace EPV.C02

/-- `energy_noh_residual`, symmetry 0: the defects of the three jump conditions (flux behind minus flux ahead of the front)
are these fixed combinations of the components of `F` — exact identities, any EOS -/
theorem energyS0_jump_defects (s : EOS) (ic : NohIC) (ρ x D : ℝ) (hic : ic.Admissible 0) (hρ : ρ ≠ 0) (hD : D ≠ 0) :
    (shockedState ρ x (s.e ρ x)).massFlux D - (incomingState ic 0 (s.e ic.rho_0 ic.P_0) D).massFlux D = -D * C16.EnergyS0.F s ic ρ x D 0
    ∧ (shockedState ρ x (s.e ρ x)).momFlux D - (incomingState ic 0 (s.e ic.rho_0 ic.P_0) D).momFlux D = C16.EnergyS0.F s ic ρ x D 1 - ic.u_0 * D * C16.EnergyS0.F s ic ρ x D 0
    ∧ (shockedState ρ x (s.e ρ x)).energyFlux D - (incomingState ic 0 (s.e ic.rho_0 ic.P_0) D).energyFlux D = -(ρ * D) * C16.EnergyS0.F s ic ρ x D 2
        - D * (s.e ic.rho_0 ic.P_0 + ic.u_0 ^ 2 / 2) * C16.EnergyS0.F s ic ρ x D 0 := by
  obtain ⟨hu, hr0, hP0, hm⟩ := hic
  refine ⟨?_, ?_, ?_⟩ <;>
    (simp only [C16.EnergyS0.F, shockedState, incomingState, State.massFlux, State.momFlux, State.energyFlux]; epv_eos_res_eq)

/-- `energy_noh_residual`, symmetry 0 (unknowns (ρ, P, D), shocked energy e(ρ, P)): the residual vanishes exactly when the shocked state at rest and the
incoming gas (density ρ₀ (1 - u₀/D)^0 at the front) satisfy the three Rankine–Hugoniot conditions with front speed D -/
theorem energyS0_zero_iff_jump (s : EOS) (ic : NohIC) (ρ x D : ℝ) (hic : ic.Admissible 0) (hρ : ρ ≠ 0) (hD : D ≠ 0) :
    (∀ i, C16.EnergyS0.F s ic ρ x D i = 0) ↔ StagnationShock ic 0 (s.e ic.rho_0 ic.P_0) ρ x (s.e ρ x) D := by
  obtain ⟨hM, hMo, hE⟩ := energyS0_jump_defects s ic ρ x D hic hρ hD
  set a := shockedState ρ x (s.e ρ x) with ha
  set b := incomingState ic 0 (s.e ic.rho_0 ic.P_0) D with hb
  unfold StagnationShock RankineHugoniot
  constructor
  · intro h
    refine ⟨sub_eq_zero.mp ?_, sub_eq_zero.mp ?_, sub_eq_zero.mp ?_⟩
    · rw [hM, h 0]; ring
    · rw [hMo, h 1, h 0]; ring
    · rw [hE, h 2, h 0]; ring
  · rintro ⟨m1, m2, m3⟩
    have f0 : C16.EnergyS0.F s ic ρ x D 0 = 0 := by
      have := sub_eq_zero.mpr m1
      rw [hM] at this
      exact (mul_eq_zero.mp this).resolve_left (neg_ne_zero.mpr hD)
    have f1 : C16.EnergyS0.F s ic ρ x D 1 = 0 := by
      have := sub_eq_zero.mpr m2
      rw [hMo, f0] at this
      linarith
    have f2 : C16.EnergyS0.F s ic ρ x D 2 = 0 := by
      have := sub_eq_zero.mpr m3
      rw [hE, f0] at this
      have h2 : (ρ * D) * C16.EnergyS0.F s ic ρ x D 2 = 0 := by linarith
      exact (mul_eq_zero.mp h2).resolve_left (mul_ne_zero hρ hD)
    intro i
    fin_cases i
    · exact f0
    · exact f1
    · exact f2

/-- `energy_noh_residual`, symmetry 1: the defects of the three jump conditions (flux behind minus flux ahead of the front)
are these fixed combinations of the components of `F` — exact identities, any EOS -/
theorem energyS1_jump_defects (s : EOS) (ic : NohIC) (ρ x D : ℝ) (hic : ic.Admissible 1) (hρ : ρ ≠ 0) (hD : D ≠ 0) :
    (shockedState ρ x (s.e ρ x)).massFlux D - (incomingState ic 1 (s.e ic.rho_0 ic.P_0) D).massFlux D = -D * C16.EnergyS1.F s ic ρ x D 0
    ∧ (shockedState ρ x (s.e ρ x)).momFlux D - (incomingState ic 1 (s.e ic.rho_0 ic.P_0) D).momFlux D = C16.EnergyS1.F s ic ρ x D 1 - ic.u_0 * D * C16.EnergyS1.F s ic ρ x D 0
    ∧ (shockedState ρ x (s.e ρ x)).energyFlux D - (incomingState ic 1 (s.e ic.rho_0 ic.P_0) D).energyFlux D = -(ρ * D) * C16.EnergyS1.F s ic ρ x D 2
        - D * (s.e ic.rho_0 ic.P_0 + ic.u_0 ^ 2 / 2) * C16.EnergyS1.F s ic ρ x D 0 := by
  obtain ⟨hu, hr0, hP0, hm⟩ := hic
  have hPz : ic.P_0 = 0 := hm (by norm_num)
  refine ⟨?_, ?_, ?_⟩ <;>
    (simp only [C16.EnergyS1.F, shockedState, incomingState, State.massFlux, State.momFlux, State.energyFlux]; epv_eos_res_eq)

/-- `energy_noh_residual`, symmetry 1 (unknowns (ρ, P, D), shocked energy e(ρ, P)): the residual vanishes exactly when the shocked state at rest and the
incoming gas (density ρ₀ (1 - u₀/D)^1 at the front) satisfy the three Rankine–Hugoniot conditions with front speed D -/
theorem energyS1_zero_iff_jump (s : EOS) (ic : NohIC) (ρ x D : ℝ) (hic : ic.Admissible 1) (hρ : ρ ≠ 0) (hD : D ≠ 0) :
    (∀ i, C16.EnergyS1.F s ic ρ x D i = 0) ↔ StagnationShock ic 1 (s.e ic.rho_0 ic.P_0) ρ x (s.e ρ x) D := by
  obtain ⟨hM, hMo, hE⟩ := energyS1_jump_defects s ic ρ x D hic hρ hD
  set a := shockedState ρ x (s.e ρ x) with ha
  set b := incomingState ic 1 (s.e ic.rho_0 ic.P_0) D with hb
  unfold StagnationShock RankineHugoniot
  constructor
  · intro h
    refine ⟨sub_eq_zero.mp ?_, sub_eq_zero.mp ?_, sub_eq_zero.mp ?_⟩
    · rw [hM, h 0]; ring
    · rw [hMo, h 1, h 0]; ring
    · rw [hE, h 2, h 0]; ring
  · rintro ⟨m1, m2, m3⟩
    have f0 : C16.EnergyS1.F s ic ρ x D 0 = 0 := by
      have := sub_eq_zero.mpr m1
      rw [hM] at this
      exact (mul_eq_zero.mp this).resolve_left (neg_ne_zero.mpr hD)
    have f1 : C16.EnergyS1.F s ic ρ x D 1 = 0 := by
      have := sub_eq_zero.mpr m2
      rw [hMo, f0] at this
      linarith
    have f2 : C16.EnergyS1.F s ic ρ x D 2 = 0 := by
      have := sub_eq_zero.mpr m3
      rw [hE, f0] at this
      have h2 : (ρ * D) * C16.EnergyS1.F s ic ρ x D 2 = 0 := by linarith
      exact (mul_eq_zero.mp h2).resolve_left (mul_ne_zero hρ hD)
    intro i
    fin_cases i
    · exact f0
    · exact f1
    · exact f2

/-- `energy_noh_residual`, symmetry 2: the defects of the three jump conditions (flux behind minus flux ahead of the front)
are these fixed combinations of the components of `F` — exact identities, any EOS -/
theorem energyS2_jump_defects (s : EOS) (ic : NohIC) (ρ x D : ℝ) (hic : ic.Admissible 2) (hρ : ρ ≠ 0) (hD : D ≠ 0) :
    (shockedState ρ x (s.e ρ x)).massFlux D - (incomingState ic 2 (s.e ic.rho_0 ic.P_0) D).massFlux D = -D * C16.EnergyS2.F s ic ρ x D 0
    ∧ (shockedState ρ x (s.e ρ x)).momFlux D - (incomingState ic 2 (s.e ic.rho_0 ic.P_0) D).momFlux D = C16.EnergyS2.F s ic ρ x D 1 - ic.u_0 * D * C16.EnergyS2.F s ic ρ x D 0
    ∧ (shockedState ρ x (s.e ρ x)).energyFlux D - (incomingState ic 2 (s.e ic.rho_0 ic.P_0) D).energyFlux D = -(ρ * D) * C16.EnergyS2.F s ic ρ x D 2
        - D * (s.e ic.rho_0 ic.P_0 + ic.u_0 ^ 2 / 2) * C16.EnergyS2.F s ic ρ x D 0 := by
  obtain ⟨hu, hr0, hP0, hm⟩ := hic
  have hPz : ic.P_0 = 0 := hm (by norm_num)
  refine ⟨?_, ?_, ?_⟩ <;>
    (simp only [C16.EnergyS2.F, shockedState, incomingState, State.massFlux, State.momFlux, State.energyFlux]; epv_eos_res_eq)

/-- `energy_noh_residual`, symmetry 2 (unknowns (ρ, P, D), shocked energy e(ρ, P)): the residual vanishes exactly when the shocked state at rest and the
incoming gas (density ρ₀ (1 - u₀/D)^2 at the front) satisfy the three Rankine–Hugoniot conditions with front speed D -/
theorem energyS2_zero_iff_jump (s : EOS) (ic : NohIC) (ρ x D : ℝ) (hic : ic.Admissible 2) (hρ : ρ ≠ 0) (hD : D ≠ 0) :
    (∀ i, C16.EnergyS2.F s ic ρ x D i = 0) ↔ StagnationShock ic 2 (s.e ic.rho_0 ic.P_0) ρ x (s.e ρ x) D := by
  obtain ⟨hM, hMo, hE⟩ := energyS2_jump_defects s ic ρ x D hic hρ hD
  set a := shockedState ρ x (s.e ρ x) with ha
  set b := incomingState ic 2 (s.e ic.rho_0 ic.P_0) D with hb
  unfold StagnationShock RankineHugoniot
  constructor
  · intro h
    refine ⟨sub_eq_zero.mp ?_, sub_eq_zero.mp ?_, sub_eq_zero.mp ?_⟩
    · rw [hM, h 0]; ring
    · rw [hMo, h 1, h 0]; ring
    · rw [hE, h 2, h 0]; ring
  · rintro ⟨m1, m2, m3⟩
    have f0 : C16.EnergyS2.F s ic ρ x D 0 = 0 := by
      have := sub_eq_zero.mpr m1
      rw [hM] at this
      exact (mul_eq_zero.mp this).resolve_left (neg_ne_zero.mpr hD)
    have f1 : C16.EnergyS2.F s ic ρ x D 1 = 0 := by
      have := sub_eq_zero.mpr m2
      rw [hMo, f0] at this
      linarith
    have f2 : C16.EnergyS2.F s ic ρ x D 2 = 0 := by
      have := sub_eq_zero.mpr m3
      rw [hE, f0] at this
      have h2 : (ρ * D) * C16.EnergyS2.F s ic ρ x D 2 = 0 := by linarith
      exact (mul_eq_zero.mp h2).resolve_left (mul_ne_zero hρ hD)
    intro i
    fin_cases i
    · exact f0
    · exact f1
    · exact f2

/-- `pressure_noh_residual`, symmetry 0: the defects of the three jump conditions (flux behind minus flux ahead of the front)
are these fixed combinations of the components of `F` — exact identities, any EOS -/
theorem pressureS0_jump_defects (s : EOS) (ic : NohIC) (ρ x D : ℝ) (hic : ic.Admissible 0) (hρ : ρ ≠ 0) (hD : D ≠ 0) :
    (shockedState ρ (s.P ρ x) x).massFlux D - (incomingState ic 0 (s.e ic.rho_0 ic.P_0) D).massFlux D = -D * C16.PressureS0.F s ic ρ x D 0
    ∧ (shockedState ρ (s.P ρ x) x).momFlux D - (incomingState ic 0 (s.e ic.rho_0 ic.P_0) D).momFlux D = C16.PressureS0.F s ic ρ x D 1 - ic.u_0 * D * C16.PressureS0.F s ic ρ x D 0
    ∧ (shockedState ρ (s.P ρ x) x).energyFlux D - (incomingState ic 0 (s.e ic.rho_0 ic.P_0) D).energyFlux D = -(ρ * D) * C16.PressureS0.F s ic ρ x D 2
        - D * (s.e ic.rho_0 ic.P_0 + ic.u_0 ^ 2 / 2) * C16.PressureS0.F s ic ρ x D 0 := by
  obtain ⟨hu, hr0, hP0, hm⟩ := hic
  refine ⟨?_, ?_, ?_⟩ <;>
    (simp only [C16.PressureS0.F, shockedState, incomingState, State.massFlux, State.momFlux, State.energyFlux]; epv_eos_res_eq)

/-- `pressure_noh_residual`, symmetry 0 (unknowns (ρ, e, D), shocked pressure P(ρ, e)): the residual vanishes exactly when the shocked state at rest and the
incoming gas (density ρ₀ (1 - u₀/D)^0 at the front) satisfy the three Rankine–Hugoniot conditions with front speed D -/
theorem pressureS0_zero_iff_jump (s : EOS) (ic : NohIC) (ρ x D : ℝ) (hic : ic.Admissible 0) (hρ : ρ ≠ 0) (hD : D ≠ 0) :
    (∀ i, C16.PressureS0.F s ic ρ x D i = 0) ↔ StagnationShock ic 0 (s.e ic.rho_0 ic.P_0) ρ (s.P ρ x) x D := by
  obtain ⟨hM, hMo, hE⟩ := pressureS0_jump_defects s ic ρ x D hic hρ hD
  set a := shockedState ρ (s.P ρ x) x with ha
  set b := incomingState ic 0 (s.e ic.rho_0 ic.P_0) D with hb
  unfold StagnationShock RankineHugoniot
  constructor
  · intro h
    refine ⟨sub_eq_zero.mp ?_, sub_eq_zero.mp ?_, sub_eq_zero.mp ?_⟩
    · rw [hM, h 0]; ring
    · rw [hMo, h 1, h 0]; ring
    · rw [hE, h 2, h 0]; ring
  · rintro ⟨m1, m2, m3⟩
    have f0 : C16.PressureS0.F s ic ρ x D 0 = 0 := by
      have := sub_eq_zero.mpr m1
      rw [hM] at this
      exact (mul_eq_zero.mp this).resolve_left (neg_ne_zero.mpr hD)
    have f1 : C16.PressureS0.F s ic ρ x D 1 = 0 := by
      have := sub_eq_zero.mpr m2
      rw [hMo, f0] at this
      linarith
    have f2 : C16.PressureS0.F s ic ρ x D 2 = 0 := by
      have := sub_eq_zero.mpr m3
      rw [hE, f0] at this
      have h2 : (ρ * D) * C16.PressureS0.F s ic ρ x D 2 = 0 := by linarith
      exact (mul_eq_zero.mp h2).resolve_left (mul_ne_zero hρ hD)
    intro i
    fin_cases i
    · exact f0
    · exact f1
    · exact f2

/-- `pressure_noh_residual`, symmetry 1: the defects of the three jump conditions (flux behind minus flux ahead of the front)
are these fixed combinations of the components of `F` — exact identities, any EOS -/
theorem pressureS1_jump_defects (s : EOS) (ic : NohIC) (ρ x D : ℝ) (hic : ic.Admissible 1) (hρ : ρ ≠ 0) (hD : D ≠ 0) :
    (shockedState ρ (s.P ρ x) x).massFlux D - (incomingState ic 1 (s.e ic.rho_0 ic.P_0) D).massFlux D = -D * C16.PressureS1.F s ic ρ x D 0
    ∧ (shockedState ρ (s.P ρ x) x).momFlux D - (incomingState ic 1 (s.e ic.rho_0 ic.P_0) D).momFlux D = C16.PressureS1.F s ic ρ x D 1 - ic.u_0 * D * C16.PressureS1.F s ic ρ x D 0
    ∧ (shockedState ρ (s.P ρ x) x).energyFlux D - (incomingState ic 1 (s.e ic.rho_0 ic.P_0) D).energyFlux D = -(ρ * D) * C16.PressureS1.F s ic ρ x D 2
        - D * (s.e ic.rho_0 ic.P_0 + ic.u_0 ^ 2 / 2) * C16.PressureS1.F s ic ρ x D 0 := by
  obtain ⟨hu, hr0, hP0, hm⟩ := hic
  have hPz : ic.P_0 = 0 := hm (by norm_num)
  refine ⟨?_, ?_, ?_⟩ <;>
    (simp only [C16.PressureS1.F, shockedState, incomingState, State.massFlux, State.momFlux, State.energyFlux]; epv_eos_res_eq)

/-- `pressure_noh_residual`, symmetry 1 (unknowns (ρ, e, D), shocked pressure P(ρ, e)): the residual vanishes exactly when the shocked state at rest and the
incoming gas (density ρ₀ (1 - u₀/D)^1 at the front) satisfy the three Rankine–Hugoniot conditions with front speed D -/
theorem pressureS1_zero_iff_jump (s : EOS) (ic : NohIC) (ρ x D : ℝ) (hic : ic.Admissible 1) (hρ : ρ ≠ 0) (hD : D ≠ 0) :
    (∀ i, C16.PressureS1.F s ic ρ x D i = 0) ↔ StagnationShock ic 1 (s.e ic.rho_0 ic.P_0) ρ (s.P ρ x) x D := by
  obtain ⟨hM, hMo, hE⟩ := pressureS1_jump_defects s ic ρ x D hic hρ hD
  set a := shockedState ρ (s.P ρ x) x with ha
  set b := incomingState ic 1 (s.e ic.rho_0 ic.P_0) D with hb
  unfold StagnationShock RankineHugoniot
  constructor
  · intro h
    refine ⟨sub_eq_zero.mp ?_, sub_eq_zero.mp ?_, sub_eq_zero.mp ?_⟩
    · rw [hM, h 0]; ring
    · rw [hMo, h 1, h 0]; ring
    · rw [hE, h 2, h 0]; ring
  · rintro ⟨m1, m2, m3⟩
    have f0 : C16.PressureS1.F s ic ρ x D 0 = 0 := by
      have := sub_eq_zero.mpr m1
      rw [hM] at this
      exact (mul_eq_zero.mp this).resolve_left (neg_ne_zero.mpr hD)
    have f1 : C16.PressureS1.F s ic ρ x D 1 = 0 := by
      have := sub_eq_zero.mpr m2
      rw [hMo, f0] at this
      linarith
    have f2 : C16.PressureS1.F s ic ρ x D 2 = 0 := by
      have := sub_eq_zero.mpr m3
      rw [hE, f0] at this
      have h2 : (ρ * D) * C16.PressureS1.F s ic ρ x D 2 = 0 := by linarith
      exact (mul_eq_zero.mp h2).resolve_left (mul_ne_zero hρ hD)
    intro i
    fin_cases i
    · exact f0
    · exact f1
    · exact f2

/-- `pressure_noh_residual`, symmetry 2: the defects of the three jump conditions (flux behind minus flux ahead of the front)
are these fixed combinations of the components of `F` — exact identities, any EOS -/
theorem pressureS2_jump_defects (s : EOS) (ic : NohIC) (ρ x D : ℝ) (hic : ic.Admissible 2) (hρ : ρ ≠ 0) (hD : D ≠ 0) :
    (shockedState ρ (s.P ρ x) x).massFlux D - (incomingState ic 2 (s.e ic.rho_0 ic.P_0) D).massFlux D = -D * C16.PressureS2.F s ic ρ x D 0
    ∧ (shockedState ρ (s.P ρ x) x).momFlux D - (incomingState ic 2 (s.e ic.rho_0 ic.P_0) D).momFlux D = C16.PressureS2.F s ic ρ x D 1 - ic.u_0 * D * C16.PressureS2.F s ic ρ x D 0
    ∧ (shockedState ρ (s.P ρ x) x).energyFlux D - (incomingState ic 2 (s.e ic.rho_0 ic.P_0) D).energyFlux D = -(ρ * D) * C16.PressureS2.F s ic ρ x D 2
        - D * (s.e ic.rho_0 ic.P_0 + ic.u_0 ^ 2 / 2) * C16.PressureS2.F s ic ρ x D 0 := by
  obtain ⟨hu, hr0, hP0, hm⟩ := hic
  have hPz : ic.P_0 = 0 := hm (by norm_num)
  refine ⟨?_, ?_, ?_⟩ <;>
    (simp only [C16.PressureS2.F, shockedState, incomingState, State.massFlux, State.momFlux, State.energyFlux]; epv_eos_res_eq)

/-- `pressure_noh_residual`, symmetry 2 (unknowns (ρ, e, D), shocked pressure P(ρ, e)): the residual vanishes exactly when the shocked state at rest and the
incoming gas (density ρ₀ (1 - u₀/D)^2 at the front) satisfy the three Rankine–Hugoniot conditions with front speed D -/
theorem pressureS2_zero_iff_jump (s : EOS) (ic : NohIC) (ρ x D : ℝ) (hic : ic.Admissible 2) (hρ : ρ ≠ 0) (hD : D ≠ 0) :
    (∀ i, C16.PressureS2.F s ic ρ x D i = 0) ↔ StagnationShock ic 2 (s.e ic.rho_0 ic.P_0) ρ (s.P ρ x) x D := by
  obtain ⟨hM, hMo, hE⟩ := pressureS2_jump_defects s ic ρ x D hic hρ hD
  set a := shockedState ρ (s.P ρ x) x with ha
  set b := incomingState ic 2 (s.e ic.rho_0 ic.P_0) D with hb
  unfold StagnationShock RankineHugoniot
  constructor
  · intro h
    refine ⟨sub_eq_zero.mp ?_, sub_eq_zero.mp ?_, sub_eq_zero.mp ?_⟩
    · rw [hM, h 0]; ring
    · rw [hMo, h 1, h 0]; ring
    · rw [hE, h 2, h 0]; ring
  · rintro ⟨m1, m2, m3⟩
    have f0 : C16.PressureS2.F s ic ρ x D 0 = 0 := by
      have := sub_eq_zero.mpr m1
      rw [hM] at this
      exact (mul_eq_zero.mp this).resolve_left (neg_ne_zero.mpr hD)
    have f1 : C16.PressureS2.F s ic ρ x D 1 = 0 := by
      have := sub_eq_zero.mpr m2
      rw [hMo, f0] at this
      linarith
    have f2 : C16.PressureS2.F s ic ρ x D 2 = 0 := by
      have := sub_eq_zero.mpr m3
      rw [hE, f0] at this
      have h2 : (ρ * D) * C16.PressureS2.F s ic ρ x D 2 = 0 := by linarith
      exact (mul_eq_zero.mp h2).resolve_left (mul_ne_zero hρ hD)
    intro i
    fin_cases i
    · exact f0
    · exact f1
    · exact f2

/-- non-vacuity: the default initial state is admissible in every symmetry, and the hypotheses ρ ≠ 0, D ≠ 0 hold at the
classical Noh state (64, 1/2, 1/3) -/
example : (⟨1, -1, 0⟩ : NohIC).Admissible 0 ∧ (⟨1, -1, 0⟩ : NohIC).Admissible 1 ∧ (⟨1, -1, 0⟩ : NohIC).Admissible 2
    ∧ (64 : ℝ) ≠ 0 ∧ (1 / 3 : ℝ) ≠ 0 := by
  refine ⟨⟨?_, ?_, ?_, ?_⟩, ⟨?_, ?_, ?_, ?_⟩, ⟨?_, ?_, ?_, ?_⟩, ?_, ?_⟩ <;> norm_num

end EPV.C02
