/-
C02 / C03 — elastic–plastic piston (`exactpack/solvers/ep_piston/ep_piston.py`), the three
elasticity models `hypo`, `hyperIfin`, `hyperFin`.

The generated models `EPPiston{Hypo,Ifin,Fin}` are the constructor in let-normal form: every
attribute the constructor assigns (`sdev_y, rho_y, e_y, p_y, wv_el, vel_y, wv_pl, p2, rho2, e2`)
is a field of the parameter structure *and* has a generated definition in terms of the
parameters and the earlier attributes.  `<M>Consistent p` says that every attribute equals its
definition — true of the real constructor's results by construction (and checked on every run
by the tie `harness/o_detonation.py:tie_eppiston`).  `scipy.optimize.fsolve` is an atom: `wv_pl`
(and `F_y` for hyperFin) are free, and the residual the code hands to fsolve is the generated
field `plastic_residual` (`yield_residual`).

C02: the elastic precursor (speed `wv_el`) and the plastic wave (speed `wv_pl`) conserve mass,
momentum with the total stress `p - s_dev`, and total energy (`Spec.RankineHugoniotEP`); the
coded `e_y` is the unique solution of energy jump + Mie–Grüneisen.
C03: `p_y` and `p2` equal the Mie–Grüneisen pressure at the returned `(ρ, e)` — for `p2` this is
exactly the statement `Plastic_Residual(wv_pl) = 0` (the fsolve atom).

The side conditions (`ρ_y ≠ 0`, `ρ_y ≠ ρ₀`, non-zero denominators, non-negative radicand,
`wv_pl ≠ up`, `wv_pl ≠ vel_y`) are exactly the conditions under which the coded expressions are
defined in exact arithmetic; the documentation states no parameter ranges from which they
could be derived.
-/
import EPV.Gen.EPPistonHypo
import EPV.Gen.EPPistonIfin
import EPV.Gen.EPPistonFin
import EPV.Gen.EPPistonRun
import EPV.Lemmas.EPPiston
import EPV.Lemmas.EPPistonModels
import EPV.Lemmas.EPPistonExists
import EPV.Lemmas.Bridge.EPPiston
import EPV.Tactics

set_option linter.all false

open EPV EPV.Gen EPV.Spec EPV.EPP

namespace EPV.C02

noncomputable section

/-! ### model = 'hypo' -/

/-- Hugoniot energy relation at yield: `2 ρ₀ ρ_y e_y = (p_y - s)(ρ_y - ρ₀)` -/
theorem hypo_hugoniot (p : EPPistonHypo.P) (h : EPPistonHypo.outcome p = .ok) (hc : hypoConsistent p)
    (hden : 2 * p.rho0 * p.rho_y - p.rho_y * p.gamma * (p.rho_y - p.rho0) ≠ 0) :
    2 * p.rho0 * p.rho_y * p.e_y = (p.p_y - p.sdev_y) * (p.rho_y - p.rho0) := by
  obtain ⟨d, -⟩ := EPP.hypo_doc p h hc
  exact EPP.hugoniot_energy (Y := p.Y) (Ph := EPP.PH p.rho0 p.c0 p.s0 p.rho_y)
    (Eh := EPP.EH p.rho0 p.c0 p.s0 p.rho_y) hden d.sdev_eq d.e_y_eq d.p_y_eq

/-- the coded `e_y` is the unique solution of "energy jump + Mie–Grüneisen at ρ_y" -/
theorem hypo_ey_unique (p : EPPistonHypo.P) (h : EPPistonHypo.outcome p = .ok) (hc : hypoConsistent p)
    (hden : 2 * p.rho0 * p.rho_y - p.rho_y * p.gamma * (p.rho_y - p.rho0) ≠ 0) (e : ℝ) :
    2 * p.rho0 * p.rho_y * e
        = (mieGruneisen p.rho0 p.gamma p.c0 p.s0 p.rho_y e - p.sdev_y) * (p.rho_y - p.rho0) ↔ e = p.e_y := by
  obtain ⟨d, -⟩ := EPP.hypo_doc p h hc
  rw [EPP.mieGruneisen_eq, EPP.ey_unique (Y := p.Y) e hden d.sdev_eq, ← d.e_y_eq]

/-- elastic precursor: mass, momentum (total stress) and energy across the wave of speed `wv_el` -/
theorem hypo_elastic_jump (p : EPPistonHypo.P) (h : EPPistonHypo.outcome p = .ok) (hc : hypoConsistent p)
    (hρy : p.rho_y ≠ 0) (hne : p.rho0 - p.rho_y ≠ 0)
    (hden : 2 * p.rho0 * p.rho_y - p.rho_y * p.gamma * (p.rho_y - p.rho0) ≠ 0)
    (hrad : 0 ≤ p.rho_y * (p.sdev_y - p.p_y) / (p.rho0 * (p.rho0 - p.rho_y))) :
    RankineHugoniotEP ⟨p.rho0, 0, 0, 0⟩ ⟨p.rho_y, p.vel_y, p.p_y, p.e_y⟩ 0 p.sdev_y p.wv_el := by
  have hE := hypo_hugoniot p h hc hden
  obtain ⟨d, -⟩ := EPP.hypo_doc p h hc
  exact EPP.elastic_jump d.rho0_pos.ne' hρy hne hrad d.wv_el_eq (d.vel_y_eq hρy) hE

/-- plastic wave: mass, momentum (total stress) and energy across the wave of speed `wv_pl` -/
theorem hypo_plastic_jump (p : EPPistonHypo.P) (h : EPPistonHypo.outcome p = .ok) (hc : hypoConsistent p)
    (hρy : p.rho_y ≠ 0) (h1 : p.wv_pl - p.up ≠ 0) (h2 : p.wv_pl - p.vel_y ≠ 0) :
    RankineHugoniotEP ⟨p.rho_y, p.vel_y, p.p_y, p.e_y⟩ ⟨p.rho2, p.up, p.p2, EPPistonHypo.e2 p⟩ p.sdev_y p.sdev_y p.wv_pl := by
  obtain ⟨d, -⟩ := EPP.hypo_doc p h hc
  exact EPP.plastic_jump hρy h1 h2 d.p2_eq d.rho2_eq d.e2_eq

/-! ### model = 'hyperIfin' -/

/-- Hugoniot energy relation at yield: `2 ρ₀ ρ_y e_y = (p_y - s)(ρ_y - ρ₀)` -/
theorem ifin_hugoniot (p : EPPistonIfin.P) (h : EPPistonIfin.outcome p = .ok) (hc : ifinConsistent p)
    (hden : 2 * p.rho0 * p.rho_y - p.rho_y * p.gamma * (p.rho_y - p.rho0) ≠ 0) :
    2 * p.rho0 * p.rho_y * p.e_y = (p.p_y - p.sdev_y) * (p.rho_y - p.rho0) := by
  obtain ⟨d, -⟩ := EPP.ifin_doc p h hc
  exact EPP.hugoniot_energy (Y := p.Y) (Ph := EPP.PH p.rho0 p.c0 p.s0 p.rho_y)
    (Eh := EPP.EH p.rho0 p.c0 p.s0 p.rho_y) hden d.sdev_eq d.e_y_eq d.p_y_eq

/-- the coded `e_y` is the unique solution of "energy jump + Mie–Grüneisen at ρ_y" -/
theorem ifin_ey_unique (p : EPPistonIfin.P) (h : EPPistonIfin.outcome p = .ok) (hc : ifinConsistent p)
    (hden : 2 * p.rho0 * p.rho_y - p.rho_y * p.gamma * (p.rho_y - p.rho0) ≠ 0) (e : ℝ) :
    2 * p.rho0 * p.rho_y * e
        = (mieGruneisen p.rho0 p.gamma p.c0 p.s0 p.rho_y e - p.sdev_y) * (p.rho_y - p.rho0) ↔ e = p.e_y := by
  obtain ⟨d, -⟩ := EPP.ifin_doc p h hc
  rw [EPP.mieGruneisen_eq, EPP.ey_unique (Y := p.Y) e hden d.sdev_eq, ← d.e_y_eq]

/-- elastic precursor: mass, momentum (total stress) and energy across the wave of speed `wv_el` -/
theorem ifin_elastic_jump (p : EPPistonIfin.P) (h : EPPistonIfin.outcome p = .ok) (hc : ifinConsistent p)
    (hρy : p.rho_y ≠ 0) (hne : p.rho0 - p.rho_y ≠ 0)
    (hden : 2 * p.rho0 * p.rho_y - p.rho_y * p.gamma * (p.rho_y - p.rho0) ≠ 0)
    (hrad : 0 ≤ p.rho_y * (p.sdev_y - p.p_y) / (p.rho0 * (p.rho0 - p.rho_y))) :
    RankineHugoniotEP ⟨p.rho0, 0, 0, 0⟩ ⟨p.rho_y, p.vel_y, p.p_y, p.e_y⟩ 0 p.sdev_y p.wv_el := by
  have hE := ifin_hugoniot p h hc hden
  obtain ⟨d, -⟩ := EPP.ifin_doc p h hc
  exact EPP.elastic_jump d.rho0_pos.ne' hρy hne hrad d.wv_el_eq (d.vel_y_eq hρy) hE

/-- plastic wave: mass, momentum (total stress) and energy across the wave of speed `wv_pl` -/
theorem ifin_plastic_jump (p : EPPistonIfin.P) (h : EPPistonIfin.outcome p = .ok) (hc : ifinConsistent p)
    (hρy : p.rho_y ≠ 0) (h1 : p.wv_pl - p.up ≠ 0) (h2 : p.wv_pl - p.vel_y ≠ 0) :
    RankineHugoniotEP ⟨p.rho_y, p.vel_y, p.p_y, p.e_y⟩ ⟨p.rho2, p.up, p.p2, EPPistonIfin.e2 p⟩ p.sdev_y p.sdev_y p.wv_pl := by
  obtain ⟨d, -⟩ := EPP.ifin_doc p h hc
  exact EPP.plastic_jump hρy h1 h2 d.p2_eq d.rho2_eq d.e2_eq

/-! ### model = 'hyperFin' -/

/-- Hugoniot energy relation at yield: `2 ρ₀ ρ_y e_y = (p_y - s)(ρ_y - ρ₀)` -/
theorem fin_hugoniot (p : EPPistonFin.P) (h : EPPistonFin.outcome p = .ok) (hc : finConsistent p)
    (hden : 2 * p.rho0 * p.rho_y - p.rho_y * p.gamma * (p.rho_y - p.rho0) ≠ 0) :
    2 * p.rho0 * p.rho_y * p.e_y = (p.p_y - p.sdev_y) * (p.rho_y - p.rho0) := by
  obtain ⟨d, -⟩ := EPP.fin_doc p h hc
  exact EPP.hugoniot_energy (Y := p.Y) (Ph := EPP.PH p.rho0 p.c0 p.s0 p.rho_y)
    (Eh := EPP.EH p.rho0 p.c0 p.s0 p.rho_y) hden d.sdev_eq d.e_y_eq d.p_y_eq

/-- the coded `e_y` is the unique solution of "energy jump + Mie–Grüneisen at ρ_y" -/
theorem fin_ey_unique (p : EPPistonFin.P) (h : EPPistonFin.outcome p = .ok) (hc : finConsistent p)
    (hden : 2 * p.rho0 * p.rho_y - p.rho_y * p.gamma * (p.rho_y - p.rho0) ≠ 0) (e : ℝ) :
    2 * p.rho0 * p.rho_y * e
        = (mieGruneisen p.rho0 p.gamma p.c0 p.s0 p.rho_y e - p.sdev_y) * (p.rho_y - p.rho0) ↔ e = p.e_y := by
  obtain ⟨d, -⟩ := EPP.fin_doc p h hc
  rw [EPP.mieGruneisen_eq, EPP.ey_unique (Y := p.Y) e hden d.sdev_eq, ← d.e_y_eq]

/-- elastic precursor: mass, momentum (total stress) and energy across the wave of speed `wv_el` -/
theorem fin_elastic_jump (p : EPPistonFin.P) (h : EPPistonFin.outcome p = .ok) (hc : finConsistent p)
    (hρy : p.rho_y ≠ 0) (hne : p.rho0 - p.rho_y ≠ 0)
    (hden : 2 * p.rho0 * p.rho_y - p.rho_y * p.gamma * (p.rho_y - p.rho0) ≠ 0)
    (hrad : 0 ≤ p.rho_y * (p.sdev_y - p.p_y) / (p.rho0 * (p.rho0 - p.rho_y))) :
    RankineHugoniotEP ⟨p.rho0, 0, 0, 0⟩ ⟨p.rho_y, p.vel_y, p.p_y, p.e_y⟩ 0 p.sdev_y p.wv_el := by
  have hE := fin_hugoniot p h hc hden
  obtain ⟨d, -⟩ := EPP.fin_doc p h hc
  exact EPP.elastic_jump d.rho0_pos.ne' hρy hne hrad d.wv_el_eq (d.vel_y_eq hρy) hE

/-- plastic wave: mass, momentum (total stress) and energy across the wave of speed `wv_pl` -/
theorem fin_plastic_jump (p : EPPistonFin.P) (h : EPPistonFin.outcome p = .ok) (hc : finConsistent p)
    (hρy : p.rho_y ≠ 0) (h1 : p.wv_pl - p.up ≠ 0) (h2 : p.wv_pl - p.vel_y ≠ 0) :
    RankineHugoniotEP ⟨p.rho_y, p.vel_y, p.p_y, p.e_y⟩ ⟨p.rho2, p.up, p.p2, EPPistonFin.e2 p⟩ p.sdev_y p.sdev_y p.wv_pl := by
  obtain ⟨d, -⟩ := EPP.fin_doc p h hc
  exact EPP.plastic_jump hρy h1 h2 d.p2_eq d.rho2_eq d.e2_eq

/-- non-vacuity: the hypotheses of the elastic and plastic jump theorems hold for the default problem
(model = 'hyperIfin'; the theorems for the other two models have literally the same hypotheses) -/
example : ∃ p : EPPistonIfin.P, EPPistonIfin.outcome p = .ok ∧ ifinConsistent p ∧ p.rho_y ≠ 0 ∧ p.rho0 - p.rho_y ≠ 0 ∧
    2 * p.rho0 * p.rho_y - p.rho_y * p.gamma * (p.rho_y - p.rho0) ≠ 0 ∧
    0 ≤ p.rho_y * (p.sdev_y - p.p_y) / (p.rho0 * (p.rho0 - p.rho_y)) ∧
    p.wv_pl - p.up ≠ 0 ∧ p.wv_pl - p.vel_y ≠ 0 :=
  ⟨ifinDefault, ifinDefault_ok.1, ifinDefault_ok.2, ifinDefault_hyps.1, ifinDefault_hyps.2.1, ifinDefault_hyps.2.2.1,
    ifinDefault_hyps.2.2.2.1, ifinDefault_hyps.2.2.2.2.1, ifinDefault_hyps.2.2.2.2.2.1⟩

end

end EPV.C02
