/-
C02 — steady detonation reaction zone (SDRZ): "steady reaction zones conserve mass and
momentum flux at every point behind the front".

Models (generated from `sdrz.py` on every run):
* `SDRZProfile` = `__init__` + `run_tvec([t])`: the state of a particle of age `t`; faithful to
  the grid code for 0 ≤ t ≤ 1 (reaction in progress, λ = t (2 - t) runs through [0, 1]);
* `SDRZTail` = `run_tvec([1.0, t])[1]`: a particle of age t ≥ 1 (reaction complete) when the
  time grid contains t = 1.

Theorems, for every D > 0, ρ₀ > 0 (constructor), every adiabatic index γ > 1:
* `sdrz_steady`, `sdrz_tail_steady` : ρ (D - u) = ρ₀ D and p + ρ (D - u)² = ρ₀ D² at every
  particle age (`Spec.SteadyZone`), short form `p = ρ₀ D u` (`sdrz_short`);
* `sdrz_lambda_onto` : the particle ages 0 ≤ t ≤ 1 cover every reaction progress λ ∈ [0,1];
* `sdrz_dxdt`, `sdrz_tail_dxdt` : the coded distance behind the front, `position_relative`,
  has time derivative D - u (the documented `dx/dt = D - u(λ)`), the derivative being the
  generated certificate of the coded expression;
* `sdrz_position` : the absolute position is `D t - position_relative`.
-/
import EPV.Gen.SDRZProfile
import EPV.Gen.SDRZProfileD
import EPV.Gen.SDRZTail
import EPV.Gen.SDRZTailD
import EPV.Spec.Detonation
import EPV.Lemmas.SDRZ
import EPV.Tactics

import EPV.Lemmas.Bridge.DetonTactics

set_option linter.all false

open EPV EPV.Gen EPV.Spec

namespace EPV.C02

/-- pins the leaf numbering the derivative statements below rely on -/
theorem sdrz_leaves : SDRZProfile.okLeaves = [3, 4, 5, 7, 8, 10] ∧
    SDRZTail.okLeaves = [3, 4, 5, 6, 7, 8, 9, 10, 11, 12, 13, 14] := ⟨rfl, rfl⟩

/-- mass and momentum flux in the frame of the front are those of the undisturbed explosive,
at every particle age 0 ≤ t ≤ 1, i.e. at every reaction progress λ ∈ [0, 1]; every γ > 1 -/
theorem sdrz_steady (p : SDRZProfile.P) (t : ℝ) (h : SDRZProfile.outcome p t = .ok)
    (hγ : 1 < p.gamma) (h0 : 0 ≤ t) (h1 : t ≤ 1) :
    SteadyZone p.rho_0 p.D (SDRZProfile.density p t) (SDRZProfile.velocity p t)
      (SDRZProfile.pressure p t) := by
  simp only [epv_tree] at *
  split_ifs at * <;> first
    | epv_absurd
    | (simp only [epv_cond, not_le, not_lt] at *
       have hD : p.D ≠ 0 := by linarith
       have hg := SDRZ.g_eq p.D t hD h1
       have hg1 : Real.sqrt (1 - 1 / (p.D / p.D) ^ (2 : ℕ)) = 0 := by
         rw [div_self hD]; norm_num
       have e1 : p.gamma - (1 - t) ≠ 0 := by linarith
       have e2 : p.gamma - 0 ≠ 0 := by linarith
       have e3 : p.gamma ≠ 0 := by linarith
       have e4 : p.gamma + 1 ≠ 0 := by linarith
       have e5 : p.rho_0 ≠ 0 := by linarith
       first
         | (exfalso; nlinarith)
         | (have e0 : 0 ≤ 1 - t := by linarith
            refine SteadyZone.of_short ?_ ?_ <;> simp only [epv_leaf] <;>
              (first | epv_deton_sqrt_rw (1 - t) | epv_deton_sqrt_rw (0 : ℝ)) <;> epv_deton_feqd))

/-- non-vacuity: the hypotheses hold at the solver's defaults (D = 0.85, ρ₀ = 1.6, γ = 3), t = 1/2 -/
example : ∃ (p : SDRZProfile.P) (t : ℝ), SDRZProfile.outcome p t = .ok ∧ 1 < p.gamma ∧ 0 ≤ t ∧ t ≤ 1 := by
  refine ⟨⟨17/20, 3, 8/5⟩, 1/2, ?_, by norm_num, by norm_num, by norm_num⟩
  simp only [epv_tree, epv_cond]
  norm_num

/-- short form of the momentum relation: p = ρ₀ D u -/
theorem sdrz_short (p : SDRZProfile.P) (t : ℝ) (h : SDRZProfile.outcome p t = .ok)
    (hγ : 1 < p.gamma) (h0 : 0 ≤ t) (h1 : t ≤ 1) :
    SDRZProfile.pressure p t = p.rho_0 * p.D * SDRZProfile.velocity p t := by
  obtain ⟨hm, hp⟩ := sdrz_steady p t h hγ h0 h1
  have : SDRZProfile.density p t * (p.D - SDRZProfile.velocity p t) ^ 2
      = p.rho_0 * p.D * (p.D - SDRZProfile.velocity p t) := by rw [pow_two, ← mul_assoc, hm]
  linear_combination hp - this

/-- the coded reaction progress is λ = t (2 - t) for 0 ≤ t ≤ 1 … -/
theorem sdrz_lambda (p : SDRZProfile.P) (t : ℝ) (h : SDRZProfile.outcome p t = .ok) (h1 : t ≤ 1) :
    SDRZProfile.reaction_progress p t = t * (2 - t) := by
  simp only [epv_tree] at *
  split_ifs at * <;> first
    | epv_absurd
    | (simp only [epv_cond, not_le, not_lt] at *
       first
         | (exfalso; nlinarith)
         | (simp only [epv_leaf]; first | done | nlinarith))

/-- … and these particle ages reach every reaction progress λ ∈ [0, 1] -/
theorem sdrz_lambda_onto (lam : ℝ) (h0 : 0 ≤ lam) (h1 : lam ≤ 1) :
    ∃ t : ℝ, 0 ≤ t ∧ t ≤ 1 ∧ t * (2 - t) = lam := by
  refine ⟨1 - Real.sqrt (1 - lam), ?_, ?_, ?_⟩
  · have : Real.sqrt (1 - lam) ≤ 1 :=
      (Real.sqrt_le_sqrt (by linarith : 1 - lam ≤ 1)).trans_eq Real.sqrt_one
    linarith
  · have := Real.sqrt_nonneg (1 - lam); linarith
  · have hs : Real.sqrt (1 - lam) * Real.sqrt (1 - lam) = 1 - lam := Real.mul_self_sqrt (by linarith)
    linear_combination -hs

/-- the tree-level model is leaf 5 for accepted parameters and t < 1 -/
theorem sdrz_tree_eq_L5 (p : SDRZProfile.P) (t : ℝ) (hD : 0 < p.D) (hρ : 0 < p.rho_0) (hγ : 0 < p.gamma)
    (h1 : t < 1) :
    SDRZProfile.position_relative p t = SDRZProfile.L5.position_relative p t ∧
    SDRZProfile.velocity p t = SDRZProfile.L5.velocity p t ∧
    SDRZProfile.position p t = SDRZProfile.L5.position p t := by
  have c0 : ¬ SDRZProfile.c0 p t := by simp only [epv_cond]; linarith
  have c1 : ¬ SDRZProfile.c1 p t := by simp only [epv_cond]; linarith
  have c2 : ¬ SDRZProfile.c2 p t := by simp only [epv_cond]; linarith
  have c3 : ¬ SDRZProfile.c3 p t := by simp only [epv_cond]; nlinarith
  have c4 : ¬ SDRZProfile.c4 p t := by simp only [epv_cond]; linarith
  have c5 : SDRZProfile.c5 p t := by simp only [epv_cond]; linarith
  simp only [epv_tree, c0, c1, c2, c3, c4, c5, if_true, if_false, and_self]

/-- `dx/dt = D - u`: the coded distance behind the front (leaf expression) has the time
derivative D - u(t), for every particle age t ≤ 1 -/
theorem sdrz_dxdt_leaf (p : SDRZProfile.P) (t : ℝ) (hD : 0 < p.D) (hρ : 0 < p.rho_0) (hγ : 1 < p.gamma)
    (h0 : 0 ≤ t) (h1 : t ≤ 1) :
    HasDerivAt (fun s => SDRZProfile.L5.position_relative p s)
      (p.D - SDRZProfile.L5.velocity p t) t := by
  refine (SDRZProfile.L5.position_relative_hasDerivAt_t p t).congr_deriv ?_
  simp only [epv_deriv, epv_leaf]
  have hD' : p.D ≠ 0 := hD.ne'
  have e0 : 0 ≤ 1 - t := by linarith
  have e1 : p.gamma - (1 - t) ≠ 0 := by linarith
  have e3 : p.gamma ≠ 0 := by linarith
  have e4 : p.gamma + 1 ≠ 0 := by linarith
  have e5 : p.rho_0 ≠ 0 := by linarith
  repeat epv_deton_sqrt_rw (1 - t)
  epv_deton_feqd

/-- `dx/dt = D - u` for the returned (tree-level) fields at every particle age 0 < t < 1 -/
theorem sdrz_dxdt (p : SDRZProfile.P) (t : ℝ) (hD : 0 < p.D) (hρ : 0 < p.rho_0) (hγ : 1 < p.gamma)
    (h0 : 0 < t) (h1 : t < 1) :
    HasDerivAt (fun s => SDRZProfile.position_relative p s)
      (p.D - SDRZProfile.velocity p t) t := by
  rw [(sdrz_tree_eq_L5 p t hD hρ (by linarith) h1).2.1]
  refine (sdrz_dxdt_leaf p t hD hρ hγ h0.le h1.le).congr_of_eventuallyEq ?_
  filter_upwards [Iio_mem_nhds h1] with s hs
  exact (sdrz_tree_eq_L5 p s hD hρ (by linarith) hs).1

/-- the absolute position is `D t - position_relative` (front at `D t`) -/
theorem sdrz_position (p : SDRZProfile.P) (t : ℝ) (h : SDRZProfile.outcome p t = .ok) :
    SDRZProfile.position p t = p.D * t - SDRZProfile.position_relative p t := by
  epv_on_leaves epv_leaf_ring

/-! ### behind the end of the reaction zone (particle age t ≥ 1) -/

/-- mass and momentum flux at every particle age t ≥ 1, and the reaction is complete (λ = 1) -/
theorem sdrz_tail_steady (p : SDRZTail.P) (t : ℝ) (h : SDRZTail.outcome p t = .ok)
    (hγ : 1 < p.gamma) (h1 : 1 ≤ t) :
    SteadyZone p.rho_0 p.D (SDRZTail.density p t) (SDRZTail.velocity p t) (SDRZTail.pressure p t) ∧
      SDRZTail.reaction_progress p t = 1 := by
  simp only [epv_tree] at *
  split_ifs at * <;> first
    | epv_absurd
    | (simp only [epv_cond, not_le, not_lt] at *
       have hD : p.D ≠ 0 := by linarith
       have hg1 : Real.sqrt (1 - 1 / (p.D / p.D) ^ (2 : ℕ)) = 0 := by
         rw [div_self hD]; norm_num
       have e2 : p.gamma - 0 ≠ 0 := by linarith
       have e3 : p.gamma ≠ 0 := by linarith
       have e4 : p.gamma + 1 ≠ 0 := by linarith
       have e5 : p.rho_0 ≠ 0 := by linarith
       first
         | (exfalso; nlinarith)
         | (refine ⟨SteadyZone.of_short ?_ ?_, ?_⟩ <;> simp only [epv_leaf] <;>
              (repeat epv_deton_sqrt_rw (0 : ℝ)) <;> epv_deton_feqd))

example : ∃ (p : SDRZTail.P) (t : ℝ), SDRZTail.outcome p t = .ok ∧ 1 < p.gamma ∧ 1 ≤ t := by
  refine ⟨⟨17/20, 3, 8/5⟩, 6/5, ?_, by norm_num, by norm_num⟩
  simp only [epv_tree, epv_cond]
  norm_num

/-- the tree-level model is leaf 14 for accepted parameters and t > 1 -/
theorem sdrz_tail_tree_eq_L14 (p : SDRZTail.P) (t : ℝ) (hD : 0 < p.D) (hρ : 0 < p.rho_0) (hγ : 0 < p.gamma)
    (h1 : 1 < t) :
    SDRZTail.position_relative p t = SDRZTail.L14.position_relative p t ∧
    SDRZTail.velocity p t = SDRZTail.L14.velocity p t := by
  have c0 : ¬ SDRZTail.c0 p t := by simp only [epv_cond]; linarith
  have c1 : ¬ SDRZTail.c1 p t := by simp only [epv_cond]; linarith
  have c2 : ¬ SDRZTail.c2 p t := by simp only [epv_cond]; linarith
  have c3 : SDRZTail.c3 p t := by simp only [epv_cond]; nlinarith [sq_nonneg (t - 1)]
  have c4 : SDRZTail.c4 p t := by simp only [epv_cond]; linarith
  have c5 : ¬ SDRZTail.c5 p t := by simp only [epv_cond]; linarith
  simp only [epv_tree, c0, c1, c2, c3, c4, c5, if_true, if_false, and_self]

/-- `dx/dt = D - u` behind the reaction zone: the coded `x(t) = x(1) + (D - u(1)) (t - 1)` -/
theorem sdrz_tail_dxdt (p : SDRZTail.P) (t : ℝ) (hD : 0 < p.D) (hρ : 0 < p.rho_0) (hγ : 1 < p.gamma)
    (h1 : 1 < t) :
    HasDerivAt (fun s => SDRZTail.position_relative p s) (p.D - SDRZTail.velocity p t) t := by
  rw [(sdrz_tail_tree_eq_L14 p t hD hρ (by linarith) h1).2]
  have hl : HasDerivAt (fun s => SDRZTail.L14.position_relative p s)
      (p.D - SDRZTail.L14.velocity p t) t := by
    refine (SDRZTail.L14.position_relative_hasDerivAt_t p t).congr_deriv ?_
    simp only [epv_deriv, epv_leaf]
    epv_deton_feq
  refine hl.congr_of_eventuallyEq ?_
  filter_upwards [Ioi_mem_nhds h1] with s hs
  exact (sdrz_tail_tree_eq_L14 p s hD hρ (by linarith) hs).1

/-- the coded x(t) is continuous across the end of the reaction zone: the tail expression at
t = 1 is the reaction-zone expression at t = 1 -/
theorem sdrz_x_continuous (D gamma rho_0 : ℝ) :
    SDRZTail.L14.position_relative ⟨D, gamma, rho_0⟩ 1 = SDRZProfile.L5.position_relative ⟨D, gamma, rho_0⟩ 1 := by
  simp only [epv_leaf]
  ring

end EPV.C02
