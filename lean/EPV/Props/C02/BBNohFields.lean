/-
C02 — black-box Noh, returned fields (`NohBlackBoxEos._run` traced with the Newton result (x0, x1, x2) as free
symbols, ideal gas): the solver places the shock at X(t) = x2·t, so its speed is d X/dt = x2, and the two
branch expressions of the returned fields, evaluated at r = X(t), are exactly the shocked state at rest and the
incoming gas of `EPV.Spec.StagnationShock`.  Hence, whenever (x0, x1, x2) is a root of the residual the solver
iterates on (`pressure_noh_residual.F`, theorem `pressureS*_zero_iff_jump`), mass, momentum and total energy are
conserved across the returned discontinuity (`EPV.Spec.ShockJump`).

Hypothesis that is NOT enforced by the code: the unshocked state is assembled from the attributes
`rho0, u0, p0` of the solver object, the jump conditions are solved for `initial_conditions` — the theorem
assumes they are the same numbers (see FindingBBNohInitialState.lean for what happens otherwise).
-/
import EPV.Gen.BBNohIdeal
import EPV.Props.C16.Ideal
import EPV.Props.C02.BBNohResidual

set_option linter.all false

open EPV EPV.Gen EPV.Spec

namespace EPV.C02

/-- the traced model has exactly the leaves named below: 6 = shocked (r < x2 t), 4 = unshocked -/
theorem bbnoh_ideal_leaves : BBNohIdeal.okLeaves = [4, 6] := rfl

/-- the state the solver returns for r < x2·t -/
noncomputable def bbInner (p : BBNohIdeal.P) (r t : ℝ) : State :=
  ⟨BBNohIdeal.L6.density p r t, BBNohIdeal.L6.velocity p r t, BBNohIdeal.L6.pressure p r t,
   BBNohIdeal.L6.specific_internal_energy p r t⟩
/-- the state the solver returns for r ≥ x2·t -/
noncomputable def bbOuter (p : BBNohIdeal.P) (r t : ℝ) : State :=
  ⟨BBNohIdeal.L4.density p r t, BBNohIdeal.L4.velocity p r t, BBNohIdeal.L4.pressure p r t,
   BBNohIdeal.L4.specific_internal_energy p r t⟩

/-- the returned fields are these two branches, switched at the coded shock position r = x2·t -/
theorem bbnoh_ideal_branches (p : BBNohIdeal.P) (r t : ℝ) (h : BBNohIdeal.outcome p r t = .ok) :
    (⟨BBNohIdeal.density p r t, BBNohIdeal.velocity p r t, BBNohIdeal.pressure p r t,
      BBNohIdeal.specific_internal_energy p r t⟩ : State) = if r < p.x2 * t then bbInner p r t else bbOuter p r t := by
  simp only [epv_tree] at h ⊢
  split_ifs at h ⊢ <;> first
    | epv_absurd
    | (simp only [epv_cond] at *; first | rfl | (exfalso; linarith) | (exfalso; simp_all))

/-- at r = X(t) = x2·t the two branches are the shocked state and the incoming gas of the specification -/
theorem bbnoh_ideal_states_at_shock (p : BBNohIdeal.P) (m : ℕ) (hm : p.symmetry = m) (t : ℝ) (ht : t ≠ 0)
    (hD : p.x2 ≠ 0) (hγ : p.gamma ≠ 1) (hρ0 : p.rho0 ≠ 0) :
    bbInner p (p.x2 * t) t = shockedState p.x0 ((C16.idealEOS p.gamma).P p.x0 p.x1) p.x1
    ∧ bbOuter p (p.x2 * t) t
        = incomingState ⟨p.rho0, p.u0, p.p0⟩ m ((C16.idealEOS p.gamma).e p.rho0 p.p0) p.x2 := by
  constructor
  · simp only [bbInner, shockedState, C16.idealEOS, epv_leaf, epv_tree, epv_cond, hγ, if_false]
  · have h1 : t / (p.x2 * t) = 1 / p.x2 := by field_simp
    simp only [bbOuter, incomingState, C16.idealEOS, epv_leaf, epv_tree, epv_cond, hγ, hρ0, hm, if_false, h1,
      Real.rpow_natCast, State.mk.injEq, and_true, true_and]
    ring

/-- **C02, black-box Noh (ideal gas).**  If the Newton result is a root of the residual for the same initial state
the fields are assembled from, then the returned fields conserve mass, momentum and total energy across the coded
shock, whose speed is the time derivative of its coded position. -/
theorem bbnoh_ideal_shockJump (p : BBNohIdeal.P) (m : ℕ) (hm : p.symmetry = m) (t : ℝ) (ht : t ≠ 0)
    (hD : p.x2 ≠ 0) (hγ : p.gamma ≠ 1) (hρ0 : p.rho0 ≠ 0)
    (hroot : StagnationShock ⟨p.rho0, p.u0, p.p0⟩ m ((C16.idealEOS p.gamma).e p.rho0 p.p0) p.x0
      ((C16.idealEOS p.gamma).P p.x0 p.x1) p.x1 p.x2) :
    ShockJump (bbInner p) (bbOuter p) (fun τ => p.x2 * τ) p.x2 t := by
  obtain ⟨h1, h2⟩ := bbnoh_ideal_states_at_shock p m hm t ht hD hγ hρ0
  refine ⟨?_, ?_⟩
  · simpa using (hasDerivAt_id t).const_mul p.x2
  · show RankineHugoniot (bbInner p (p.x2 * t) t) (bbOuter p (p.x2 * t) t) p.x2
    rw [h1, h2]
    exact hroot

/-- … in particular when (x0, x1, x2) is an exact root of `pressure_noh_residual.F` (spherical) -/
theorem bbnoh_ideal_shockJump_spherical (p : BBNohIdeal.P) (hm : p.symmetry = 2) (t : ℝ) (ht : t ≠ 0)
    (hic : (⟨p.rho0, p.u0, p.p0⟩ : NohIC).Admissible 2) (hx0 : p.x0 ≠ 0) (hD : p.x2 ≠ 0) (hγ : p.gamma ≠ 1)
    (hroot : ∀ i, C16.PressureS2.F (C16.idealEOS p.gamma) ⟨p.rho0, p.u0, p.p0⟩ p.x0 p.x1 p.x2 i = 0) :
    ShockJump (bbInner p) (bbOuter p) (fun τ => p.x2 * τ) p.x2 t :=
  bbnoh_ideal_shockJump p 2 (by rw [hm]; norm_num) t ht hD hγ (ne_of_gt hic.2.1)
    ((pressureS2_zero_iff_jump (C16.idealEOS p.gamma) ⟨p.rho0, p.u0, p.p0⟩ p.x0 p.x1 p.x2 hic hx0 hD).mp hroot)

/-- cylindrical -/
theorem bbnoh_ideal_shockJump_cylindrical (p : BBNohIdeal.P) (hm : p.symmetry = 1) (t : ℝ) (ht : t ≠ 0)
    (hic : (⟨p.rho0, p.u0, p.p0⟩ : NohIC).Admissible 1) (hx0 : p.x0 ≠ 0) (hD : p.x2 ≠ 0) (hγ : p.gamma ≠ 1)
    (hroot : ∀ i, C16.PressureS1.F (C16.idealEOS p.gamma) ⟨p.rho0, p.u0, p.p0⟩ p.x0 p.x1 p.x2 i = 0) :
    ShockJump (bbInner p) (bbOuter p) (fun τ => p.x2 * τ) p.x2 t :=
  bbnoh_ideal_shockJump p 1 (by rw [hm]; norm_num) t ht hD hγ (ne_of_gt hic.2.1)
    ((pressureS1_zero_iff_jump (C16.idealEOS p.gamma) ⟨p.rho0, p.u0, p.p0⟩ p.x0 p.x1 p.x2 hic hx0 hD).mp hroot)

/-- planar -/
theorem bbnoh_ideal_shockJump_planar (p : BBNohIdeal.P) (hm : p.symmetry = 0) (t : ℝ) (ht : t ≠ 0)
    (hic : (⟨p.rho0, p.u0, p.p0⟩ : NohIC).Admissible 0) (hx0 : p.x0 ≠ 0) (hD : p.x2 ≠ 0) (hγ : p.gamma ≠ 1)
    (hroot : ∀ i, C16.PressureS0.F (C16.idealEOS p.gamma) ⟨p.rho0, p.u0, p.p0⟩ p.x0 p.x1 p.x2 i = 0) :
    ShockJump (bbInner p) (bbOuter p) (fun τ => p.x2 * τ) p.x2 t :=
  bbnoh_ideal_shockJump p 0 (by rw [hm]; norm_num) t ht hD hγ (ne_of_gt hic.2.1)
    ((pressureS0_zero_iff_jump (C16.idealEOS p.gamma) ⟨p.rho0, p.u0, p.p0⟩ p.x0 p.x1 p.x2 hic hx0 hD).mp hroot)

/-- non-vacuity: the classical Noh state (γ = 5/3, spherical): (ρ, e, D) = (64, 1/2, 1/3) is an exact root -/
example : ∀ i, C16.PressureS2.F (C16.idealEOS (5 / 3)) ⟨1, -1, 0⟩ 64 (1 / 2) (1 / 3) i = 0 := by
  intro i
  fin_cases i <;>
    simp only [C16.PressureS2.F, C16.idealEOS, epv_c16, epv_tree, epv_cond, epv_leaf, Matrix.cons_val, Fin.zero_eta,
      Fin.mk_one, Fin.reduceFinMk] <;> norm_num

end EPV.C02
