/-
C02 — the shocks and the contact of the ideal-gas Riemann solver in the vocabulary of
`EPV.Spec.Jump` (the property-wide statement of C02): the discontinuity sits at the coded position
`X(t) = xd0 + t·Vregs[i]`, its speed `D` is the time derivative of that position (`HasDerivAt`),
and the states on its two sides satisfy `RankineHugoniot` resp. `Contact` with that `D`.

This file only re-expresses `EPV.Props.C02.Riemann` (`left_shock_rh`, `right_shock_rh`, `*_ux`);
it is separate so that a change of `EPV.Spec.Jump` cannot break the theorems it is derived from.
-/
import EPV.Lemmas.Riemann
import EPV.Spec.Jump

set_option linter.all false

open EPV EPV.Gen EPV.Model EPV.Spec.Riemann EPV.Riem

namespace EPV.C02.Riemann

/-- the two formulations of the jump conditions coincide -/
theorem rh_iff_spec (p0 ρ0 u0 e0 p1 ρ1 u1 e1 D : ℝ) :
    RH p0 ρ0 u0 e0 p1 ρ1 u1 e1 D ↔ EPV.Spec.RankineHugoniot ⟨ρ0, u0, p0, e0⟩ ⟨ρ1, u1, p1, e1⟩ D := by
  unfold RH massJump momJump energyJump EPV.Spec.RankineHugoniot EPV.Spec.State.massFlux EPV.Spec.State.momFlux
    EPV.Spec.State.energyFlux
  constructor <;> rintro ⟨h1, h2, h3⟩ <;> exact ⟨h1.symm, h2.symm, h3.symm⟩

/-- the coded position of a wave with speed V is differentiable in time with derivative V -/
theorem position_hasDerivAt (xd0 V t : ℝ) : HasDerivAt (fun s : ℝ => xd0 + s * V) V t := by
  simpa using ((hasDerivAt_id t).mul_const V).const_add xd0

/-- the left state and the left star state as `Spec.State`s -/
noncomputable def stL (q : Prob) : EPV.Spec.State := ⟨q.rl, q.ul, q.pl, sie q.pl q.rl q.gl⟩
noncomputable def stR (q : Prob) : EPV.Spec.State := ⟨q.rr, q.ur, q.pr, sie q.pr q.rr q.gr⟩
noncomputable def stStarL (q : Prob) (px : ℝ) : EPV.Spec.State :=
  ⟨rhoShock px q.pl q.rl q.gl, uxS q px, px, sie px (rhoShock px q.pl q.rl q.gl) q.gl⟩
noncomputable def stStarR (q : Prob) (px ux : ℝ) : EPV.Spec.State :=
  ⟨rhoShock px q.pr q.rr q.gr, ux, px, sie px (rhoShock px q.pr q.rr q.gr) q.gr⟩

/-- left shock (patterns SCS, SCR): position xd0 + t·Vsl, speed = d/dt of that position -/
theorem left_shock_spec (q : Prob) (hq : q.Admissible) {px : ℝ} (hpx : 0 < px) (xd0 t : ℝ) :
    EPV.Spec.ShockJump (fun _ _ => stL q) (fun _ _ => stStarL q px)
      (fun s => xd0 + s * shockVel q px q.pl q.rl q.ul q.gl) (shockVel q px q.pl q.rl q.ul q.gl) t := by
  refine ⟨position_hasDerivAt _ _ _, ?_⟩
  obtain ⟨hpl, hrl, hgl, -, -, -⟩ := id hq
  have hN := NN_pos hpl hgl hpx.le
  have h := rh_core (-1) (Or.inr rfl) (u := q.ul) hpl hrl hgl hpx (mflux_pos hrl hN) (mflux_sq hrl hN)
  rw [← shockVel_left_mflux q hq hpx.le] at h
  have e : q.ul + -1 * ((px - q.pl) / mflux px q.pl q.rl q.gl) = uxS q px := by
    unfold uxS; rw [shock_mflux hrl (by linarith) hN]; ring
  rw [e] at h
  exact (rh_iff_spec ..).mp h

/-- right shock of pattern SCS: joins the right state to the star state that carries the velocity
the driver computed from the LEFT wave (`uxS`), given the atom hypothesis `SCS_call px = 0` -/
theorem scs_right_shock_spec (q : Prob) (hq : q.Admissible) (hd : q.Distinct) {px : ℝ} (hpx : 0 < px)
    (h0 : SCS q px = 0) (xd0 t : ℝ) :
    EPV.Spec.ShockJump (fun _ _ => stStarR q px (uxS q px)) (fun _ _ => stR q)
      (fun s => xd0 + s * shockVel q px q.pr q.rr q.ur q.gr) (shockVel q px q.pr q.rr q.ur q.gr) t := by
  refine ⟨position_hasDerivAt _ _ _, ?_⟩
  obtain ⟨-, -, -, hpr, hrr, hgr⟩ := id hq
  have hN := NN_pos hpr hgr hpx.le
  have h := rh_core 1 (Or.inl rfl) (u := q.ur) hpr hrr hgr hpx (mflux_pos hrr hN) (mflux_sq hrr hN)
  rw [← shockVel_right_mflux q hq hd hpx.le] at h
  have e : q.ur + 1 * ((px - q.pr) / mflux px q.pr q.rr q.gr) = uxS q px := by
    unfold uxS; rw [Riem.scs_ux q px h0, shock_mflux hrr (by linarith) hN]; ring
  rw [e] at h
  obtain ⟨h1, h2, h3⟩ := (rh_iff_spec ..).mp h
  exact ⟨h1.symm, h2.symm, h3.symm⟩

/-- right shock of pattern RCS (star velocity from the left FAN, `uxF`; atom: `RCS_call px = 0`) -/
theorem rcs_right_shock_spec (q : Prob) (hq : q.Admissible) (hd : q.Distinct) {px : ℝ} (hpx : 0 < px)
    (h0 : RCS q px = 0) (xd0 t : ℝ) :
    EPV.Spec.ShockJump (fun _ _ => stStarR q px (uxF q px)) (fun _ _ => stR q)
      (fun s => xd0 + s * shockVel q px q.pr q.rr q.ur q.gr) (shockVel q px q.pr q.rr q.ur q.gr) t := by
  refine ⟨position_hasDerivAt _ _ _, ?_⟩
  obtain ⟨-, -, -, hpr, hrr, hgr⟩ := id hq
  have hN := NN_pos hpr hgr hpx.le
  have h := rh_core 1 (Or.inl rfl) (u := q.ur) hpr hrr hgr hpx (mflux_pos hrr hN) (mflux_sq hrr hN)
  rw [← shockVel_right_mflux q hq hd hpx.le] at h
  have e : q.ur + 1 * ((px - q.pr) / mflux px q.pr q.rr q.gr) = uxF q px := by
    unfold uxF; rw [Riem.rcs_ux q px h0, shock_mflux hrr (by linarith) hN]; ring
  rw [e] at h
  obtain ⟨h1, h2, h3⟩ := (rh_iff_spec ..).mp h
  exact ⟨h1.symm, h2.symm, h3.symm⟩

/-- the contact: the two star states of the assembled solution (any pattern) carry the same
pressure and velocity, and the contact position xd0 + t·ux moves with that velocity -/
theorem contact_spec (q : Prob) (pat : RiemannIG.Pattern) (px xd0 t : ℝ) :
    let sL := RiemannIG.starL (toData q) pat px
    let sR := RiemannIG.starR (toData q) pat px
    EPV.Spec.Contact ⟨sL.r, sL.u, sL.p, sL.e⟩ ⟨sR.r, sR.u, sR.p, sR.e⟩ (RiemannIG.ux (toData q) pat px) ∧
    HasDerivAt (fun s => xd0 + s * RiemannIG.ux (toData q) pat px) (RiemannIG.ux (toData q) pat px) t := by
  refine ⟨⟨rfl, rfl, rfl⟩, position_hasDerivAt _ _ _⟩

/-- non-vacuity -/
example : sod.Admissible ∧ sod.Distinct ∧ (0 : ℝ) < 3 / 10 := ⟨sod_admissible.1, sod_admissible.2, by norm_num⟩

end EPV.C02.Riemann
