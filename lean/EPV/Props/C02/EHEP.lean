/-
C02 — escape of HE products: the detonation front.

The front is the common edge of the polygons '0H' (undisturbed explosive ρ₀, u = p = 0) and 'I'
(the Taylor wave behind the front).  `ehep_front_placement`: that edge, taken from the traced
constructor (`EHEPInit`: corners of region I), runs from (0, 0) to (x̃, x̃/D): the solver places the
front at x = D t, so "the speed implied by where the solver places it" is D
(`ehep_front_hasDerivAt`).

`ehep_front_jump`: the region I formulas of `_run` evaluated on the front (leaf 23 at x = D t) and
the undisturbed state (leaf 16) conserve mass, momentum and total energy across the front with
heat release q = D²/16 (= D²/(2(γ²-1)) at γ = 3), and the burnt state is sonic relative to the
front, u + c = D (Chapman–Jouguet).  Every D ≠ 0, ρ₀ ≠ 0, t ≠ 0; γ = 3 as documented (the
returned internal energy uses the parameter `gamma`).
-/
import EPV.Gen.EHEP
import EPV.Gen.EHEPInit
import EPV.Spec.Detonation
import EPV.Tactics

set_option linter.all false

open EPV EPV.Gen EPV.Spec

namespace EPV.C02

theorem ehep_front_leaves : EHEP.okLeaves = [7, 8, 9, 10, 11, 12, 13, 14, 15, 16, 17, 18, 19, 20, 21, 22, 23] ∧
    EHEPInit.okLeaves = [7] := ⟨rfl, rfl⟩

/-- the edge shared by the polygons 'I' and '0H' (corners 0 and 1 of each) is the segment from the
origin to (x̃, x̃ / D): the line x = D t -/
theorem ehep_front_placement (p : EHEPInit.P) (h : EHEPInit.outcome p = .ok) :
    EHEPInit.cI_0_x p = 0 ∧ EHEPInit.cI_0_t p = 0 ∧ EHEPInit.c0H_0_x p = 0 ∧ EHEPInit.c0H_0_t p = 0 ∧
    EHEPInit.cI_1_x p = EHEPInit.c0H_1_x p ∧ EHEPInit.cI_1_t p = EHEPInit.c0H_1_t p ∧
    EHEPInit.cI_1_x p = p.D * EHEPInit.cI_1_t p := by
  simp only [epv_tree] at *
  split_ifs at * <;> first
    | epv_absurd
    | (simp only [epv_cond, not_le, not_lt] at *
       have hD : p.D ≠ 0 := by linarith
       simp only [epv_leaf]
       refine ⟨trivial, trivial, trivial, trivial, trivial, trivial, ?_⟩
       field_simp)

/-- the coded front position x = D t and its speed -/
theorem ehep_front_hasDerivAt (D t : ℝ) : HasDerivAt (fun s => D * s) D t := by
  simpa using (hasDerivAt_id' t).const_mul D

/-- state behind the front: region I formulas on x = D t -/
noncomputable def ehepBurnt (p : EHEP.P) (t : ℝ) : State :=
  ⟨EHEP.L23.density p (p.D * t) t, EHEP.L23.velocity p (p.D * t) t, EHEP.L23.pressure p (p.D * t) t,
   EHEP.L23.specific_internal_energy p (p.D * t) t⟩

/-- state ahead of the front: region 0H -/
noncomputable def ehepFresh (p : EHEP.P) (t : ℝ) : State :=
  ⟨EHEP.L16.density p (p.D * t) t, EHEP.L16.velocity p (p.D * t) t, EHEP.L16.pressure p (p.D * t) t,
   EHEP.L16.specific_internal_energy p (p.D * t) t⟩

theorem ehep_front_state (p : EHEP.P) (t : ℝ) (hD : p.D ≠ 0) (ht : t ≠ 0) :
    (ehepBurnt p t).ρ = 4 / 3 * p.rho_0 ∧ (ehepBurnt p t).u = p.D / 4 ∧
    (ehepBurnt p t).p = p.rho_0 * p.D ^ 2 / 4 ∧ EHEP.L23.sound_speed p (p.D * t) t = 3 / 4 * p.D := by
  simp only [ehepBurnt, epv_leaf]
  refine ⟨?_, ?_, ?_, ?_⟩ <;> field_simp <;> ring

theorem ehep_front_jump (p : EHEP.P) (t : ℝ) (hD : p.D ≠ 0) (hρ : p.rho_0 ≠ 0) (ht : t ≠ 0) (hγ : p.gamma = 3) :
    DetonationJump (ehepFresh p t) (ehepBurnt p t) (p.D ^ 2 / 16) p.D ∧
    ChapmanJouguet (ehepBurnt p t) (EHEP.L23.sound_speed p (p.D * t) t) p.D := by
  unfold DetonationJump ChapmanJouguet RankineHugoniot State.massFlux State.momFlux State.energyFlux
  simp only [ehepBurnt, ehepFresh, epv_leaf, hγ]
  refine ⟨⟨?_, ?_, ?_⟩, ?_⟩ <;> field_simp <;> ring

/-- non-vacuity at the defaults -/
example : ∃ (p : EHEP.P) (t : ℝ), p.D ≠ 0 ∧ p.rho_0 ≠ 0 ∧ t ≠ 0 ∧ p.gamma = 3 :=
  ⟨⟨17/20, 3, 1, 8/5, 10, 1/20, 10, 1⟩, 1, by norm_num, by norm_num, by norm_num, rfl⟩

end EPV.C02
