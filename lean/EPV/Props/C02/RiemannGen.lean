/-
C02 (P) — Rankine–Hugoniot / contact conditions at every discontinuity of the solution the GENERAL-EOS
Riemann driver assembles (hand model `EPV.Model.RiemannGen` over ℝ, tied to `RiemannGenEOS.driver` and the
public `GenEOS_Solver` by `harness/o_geneos.py:tie_geneos`), ideal-gas and JWL closures, all four patterns.

What is proved, for the model's own wave speeds `Vregs` (scalar `shock_speed` calls with their `==` side
detection; contact speed `ux1`) and the states its `reg_state_geos` sequence installs on the two sides:
  * `gen_left_shock_rh_partial`, `gen_right_shock_rh_partial` — a shock joins the undisturbed state to the
    star state with mass, momentum and total energy conserved, the energies being the TRACED `sie` of the
    closure (`problem = 'igeos'` or `'JWL'`, each side its own γ);
  * `gen_contact_partial` — both star states carry `px`; they carry one velocity, and the contact moves with it;
  * `gen_*_waves_partial` — the list `Vregs` of the pattern and the jump condition of each of its
    discontinuities; `gen_*_sides_partial` — the states the assembled solution takes at the grid nodes on
    either side of each discontinuity ARE those states (zones of `EPV.Lemmas.RiemannGenModel`);
  * `gen_position_hasDerivAt` — the speed is the time derivative of the coded position `xd0 + t V`.

PARTIAL, conditional on the numerical atoms being exact (`EPV.Lemmas.RiemannGenExact`):
  `HugoniotAtom` — the star density is a root of the traced `shock_jump` on the compressive branch and the
  star velocity is the traced `star_velocity` there (scipy `bisect` exact, interpolation in the Hugoniot
  ladder exact); `Crossing` — `ux1 = ux2` (scipy `bisect` on the interpolated P–U curves exact).
  L ≠ R (`Distinct`) for the right-hand shock: with identical states the `==` side detection labels the right
  state "left" (the known identical-states finding).
Outside the model: the cell over which the driver's grid smears each discontinuity (the oracle samples the
real solver one cell away from the wave positions).
-/
import EPV.Lemmas.RiemannGenExact

set_option linter.all false

open EPV EPV.Gen EPV.Model EPV.Riem EPV.RiemGen

namespace EPV.C02.RiemannGen

open RiemannGen (Eos Jwl Atoms P3)

/-- left-going shock of the general-EOS model: left state → left star state at `Vregs[0]` -/
theorem gen_left_shock_rh_partial (e : Eos ℝ) (q : Prob) (a : Atoms ℝ)
    (h : HugoniotAtom e (toData q) q.pl q.rl q.ul q.gl a.px a.rx1 a.ux1) :
    Spec.RankineHugoniot (toSpec (RiemannGen.leftState e (toData q))) (toSpec (RiemannGen.starL e (toData q) a))
      (RiemannGen.vShockL (toData q) a) :=
  hugoniot_rh h

/-- right-going shock: right state → right star state at `Vregs[-1]` -/
theorem gen_right_shock_rh_partial (e : Eos ℝ) (q : Prob) (a : Atoms ℝ)
    (h : HugoniotAtom e (toData q) q.pr q.rr q.ur q.gr a.px a.rx2 a.ux2) :
    Spec.RankineHugoniot (toSpec (RiemannGen.rightState e (toData q))) (toSpec (RiemannGen.starR e (toData q) a))
      (RiemannGen.vShockR (toData q) a) :=
  hugoniot_rh h

/-- the side detection of the two shock speeds: −1 on the left state, +1 on a right state that differs from it
(these are the orientations of the two waves) -/
theorem gen_shock_orientation (q : Prob) (hd : q.Distinct) (a : Atoms ℝ) :
    RiemannGen.vShockL (toData q) a
        = -1 * Real.sqrt (a.rx1 / q.rl * (a.px - q.pl) / (a.rx1 - q.rl)) + q.ul ∧
    RiemannGen.vShockR (toData q) a
        = 1 * Real.sqrt (a.rx2 / q.rr * (a.px - q.pr) / (a.rx2 - q.rr)) + q.ur := by
  unfold Prob.Distinct at hd
  constructor
  · simp [RiemannGen.vShockL, RiemannGen.shockSpeed, RiemannGen.isLeft, toData]
  · simp only [RiemannGen.vShockR, RiemannGen.shockSpeed, RiemannGen.isLeft, toData, num_beq, num_ofNat, num_sqrt]
    by_cases h0 : q.pr = q.pl <;> by_cases h1 : q.rr = q.rl <;> by_cases h2 : q.ur = q.ul
    · exact absurd ⟨h0, h2, h1⟩ hd
    all_goals simp [h0, h1, h2]

/-- the contact: equal pressure on both sides by construction, equal velocity when the P–U curves cross at `px`,
and the contact speed `Vregs[k] = ux1` is that velocity -/
theorem gen_contact_partial (e : Eos ℝ) (q : Prob) (a : Atoms ℝ) (hx : Crossing a) :
    Spec.Contact (toSpec (RiemannGen.starL e (toData q) a)) (toSpec (RiemannGen.starR e (toData q) a)) a.ux1 :=
  ⟨rfl, hx, rfl⟩

/-- the coded position of a wave of speed `V` has time derivative `V` -/
theorem gen_position_hasDerivAt (xd0 V t : ℝ) : HasDerivAt (fun s : ℝ => RiemannGen.xpos xd0 s V) V t := by
  unfold RiemannGen.xpos
  simpa using ((hasDerivAt_id t).mul_const V).const_add xd0

/-! ### the four patterns: `Vregs` and the jump condition of every discontinuity -/

section patterns
variable (e : Eos ℝ) (q : Prob) (a : Atoms ℝ)

/-- SCS: `Vregs = [Vsl, ux1, Vsr]` -/
theorem gen_scs_waves_partial (hL : q.pl < a.px) (hR : q.pr < a.px)
    (hl : HugoniotAtom e (toData q) q.pl q.rl q.ul q.gl a.px a.rx1 a.ux1)
    (hr : HugoniotAtom e (toData q) q.pr q.rr q.ur q.gr a.px a.rx2 a.ux2) (hx : Crossing a) :
    ∃ D1 Dc D2, RiemannGen.vregs e (toData q) a = [D1, Dc, D2] ∧
      Spec.RankineHugoniot (toSpec (RiemannGen.leftState e (toData q))) (toSpec (RiemannGen.starL e (toData q) a)) D1 ∧
      Spec.Contact (toSpec (RiemannGen.starL e (toData q) a)) (toSpec (RiemannGen.starR e (toData q) a)) Dc ∧
      Spec.RankineHugoniot (toSpec (RiemannGen.rightState e (toData q))) (toSpec (RiemannGen.starR e (toData q) a)) D2 := by
  exact ⟨_, _, _, vregs_SS e (d := toData q) hL hR, gen_left_shock_rh_partial e q a hl, gen_contact_partial e q a hx,
    gen_right_shock_rh_partial e q a hr⟩

/-- SCR: `Vregs = [Vs, ux1, ux2 + ax2, ur + ar]`; left shock and contact (the fan is continuous) -/
theorem gen_scr_waves_partial (hL : q.pl < a.px) (hR : a.px < q.pr)
    (hl : HugoniotAtom e (toData q) q.pl q.rl q.ul q.gl a.px a.rx1 a.ux1) (hx : Crossing a) :
    ∃ D1 Dc Dt Dh, RiemannGen.vregs e (toData q) a = [D1, Dc, Dt, Dh] ∧
      Dt = a.ux2 + RiemannGen.soundSpeed e a.px a.rx2 q.gr ∧ Dh = q.ur + RiemannGen.soundSpeed e q.pr q.rr q.gr ∧
      Spec.RankineHugoniot (toSpec (RiemannGen.leftState e (toData q))) (toSpec (RiemannGen.starL e (toData q) a)) D1 ∧
      Spec.Contact (toSpec (RiemannGen.starL e (toData q) a)) (toSpec (RiemannGen.starR e (toData q) a)) Dc := by
  exact ⟨_, _, _, _, vregs_SR e (d := toData q) hL hR, rfl, rfl, gen_left_shock_rh_partial e q a hl,
    gen_contact_partial e q a hx⟩

/-- RCS: `Vregs = [ul - al, ux1 - ax1, ux1, Vs]`; contact and right shock -/
theorem gen_rcs_waves_partial (hL : a.px < q.pl) (hR : q.pr < a.px)
    (hr : HugoniotAtom e (toData q) q.pr q.rr q.ur q.gr a.px a.rx2 a.ux2) (hx : Crossing a) :
    ∃ Dh Dt Dc D2, RiemannGen.vregs e (toData q) a = [Dh, Dt, Dc, D2] ∧
      Dh = q.ul - RiemannGen.soundSpeed e q.pl q.rl q.gl ∧ Dt = a.ux1 - RiemannGen.soundSpeed e a.px a.rx1 q.gl ∧
      Spec.Contact (toSpec (RiemannGen.starL e (toData q) a)) (toSpec (RiemannGen.starR e (toData q) a)) Dc ∧
      Spec.RankineHugoniot (toSpec (RiemannGen.rightState e (toData q))) (toSpec (RiemannGen.starR e (toData q) a)) D2 := by
  exact ⟨_, _, _, _, vregs_RS e (d := toData q) hL hR, rfl, rfl, gen_contact_partial e q a hx,
    gen_right_shock_rh_partial e q a hr⟩

/-- RCR: `Vregs = [ul - al, ux1 - ax1, ux1, ux2 + ax2, ur + ar]`; the contact -/
theorem gen_rcr_waves_partial (hL : a.px < q.pl) (hR : a.px < q.pr) (hx : Crossing a) :
    ∃ Dh Dt Dc Dt' Dh', RiemannGen.vregs e (toData q) a = [Dh, Dt, Dc, Dt', Dh'] ∧
      Spec.Contact (toSpec (RiemannGen.starL e (toData q) a)) (toSpec (RiemannGen.starR e (toData q) a)) Dc := by
  exact ⟨_, _, _, _, _, vregs_RR e (d := toData q) hL hR, gen_contact_partial e q a hx⟩

end patterns

/-! ### the assembled solution: the states at the grid nodes on the two sides of each discontinuity

`prev X`, `next X` are the grid nodes the driver looks up next to a wave position (`x[argmin(|x - X|) ∓ 1]`);
the `Grid…` hypotheses say that the waves are ordered and at least one cell apart. -/

section sides
variable (e : Eos ℝ) (q : Prob) (a : Atoms ℝ) (prev next : ℝ → ℝ) (xd0 t xmaxW : ℝ)

local notation "node" => RiemannGen.solveAtNode e (toData q) a prev next xd0 t xmaxW
local notation "X" => RiemannGen.xpos xd0 t

/-- SCS: left of the left shock the left state, from the next node on the left star state; up to the node
before the right shock the right star state, from the shock on the right state -/
theorem gen_scs_sides_partial (hL : q.pl < a.px) (hR : q.pr < a.px) (g : GridSCS (toData q) a prev next xd0 t) :
    (∀ x, x ≤ X (RiemannGen.vShockL (toData q) a) → (node x).2 = RiemannGen.leftState e (toData q)) ∧
    (∀ x, next (X (RiemannGen.vShockL (toData q) a)) ≤ x → x ≤ X a.ux1 → (node x).2 = RiemannGen.starL e (toData q) a) ∧
    (∀ x, X a.ux1 < x → x ≤ prev (X (RiemannGen.vShockR (toData q) a)) → (node x).2 = RiemannGen.starR e (toData q) a) ∧
    (∀ x, X (RiemannGen.vShockR (toData q) a) ≤ x → (node x).2 = RiemannGen.rightState e (toData q)) := by
  refine ⟨fun x h => ?_, fun x h1 h2 => ?_, fun x h1 h2 => ?_, fun x h => ?_⟩
  · rw [scs_zone_left e (toData q) a prev next xd0 t xmaxW hL hR g h]
  · rw [scs_zone_starL e (toData q) a prev next xd0 t xmaxW hL hR g h1 h2]
  · rw [scs_zone_starR e (toData q) a prev next xd0 t xmaxW hL hR g h1 h2]
  · rw [scs_zone_right e (toData q) a prev next xd0 t xmaxW hL hR g h]

/-- SCR: the states on the two sides of the left shock and of the contact -/
theorem gen_scr_sides_partial (hL : q.pl < a.px) (hR : a.px < q.pr) (g : GridSCR e (toData q) a prev next xd0 t) :
    (∀ x, x ≤ X (RiemannGen.vShockL (toData q) a) → (node x).2 = RiemannGen.leftState e (toData q)) ∧
    (∀ x, next (X (RiemannGen.vShockL (toData q) a)) ≤ x → x ≤ X a.ux1 → (node x).2 = RiemannGen.starL e (toData q) a) ∧
    (∀ x, X a.ux1 < x → x ≤ X (RiemannGen.vTailR e (toData q) a) → (node x).2 = RiemannGen.starR e (toData q) a) := by
  refine ⟨fun x h => ?_, fun x h1 h2 => ?_, fun x h1 h2 => ?_⟩
  · rw [scr_zone_left e (toData q) a prev next xd0 t xmaxW hL hR g h]
  · rw [scr_zone_starL e (toData q) a prev next xd0 t xmaxW hL hR g h1 h2]
  · rw [scr_zone_starR e (toData q) a prev next xd0 t xmaxW hL hR g h1 h2]

/-- RCS: the states on the two sides of the contact and of the right shock -/
theorem gen_rcs_sides_partial (hL : a.px < q.pl) (hR : q.pr < a.px) (g : GridRCS e (toData q) a prev xd0 t) :
    (∀ x, X (RiemannGen.vTailL e (toData q) a) < x → x ≤ prev (X a.ux1) → (node x).2 = RiemannGen.starL e (toData q) a) ∧
    (∀ x, X a.ux1 ≤ x → x ≤ prev (X (RiemannGen.vShockR (toData q) a)) → (node x).2 = RiemannGen.starR e (toData q) a) ∧
    (∀ x, X (RiemannGen.vShockR (toData q) a) ≤ x → (node x).2 = RiemannGen.rightState e (toData q)) := by
  refine ⟨fun x h1 h2 => ?_, fun x h1 h2 => ?_, fun x h => ?_⟩
  · rw [rcs_zone_starL e (toData q) a prev next xd0 t xmaxW hL hR g h1 h2]
  · rcases h1.lt_or_eq with h | h
    · rw [rcs_zone_starR e (toData q) a prev next xd0 t xmaxW hL hR g h h2]
    · rw [← h, rcs_node_contact e (toData q) a prev next xd0 t xmaxW hL hR g]
  · rw [rcs_zone_right e (toData q) a prev next xd0 t xmaxW hL hR g h]

/-- RCR: the states on the two sides of the contact -/
theorem gen_rcr_sides_partial (hL : a.px < q.pl) (hR : a.px < q.pr) (g : GridRCR e (toData q) a prev xd0 t) :
    (∀ x, X (RiemannGen.vTailL e (toData q) a) < x → x ≤ X a.ux1 → (node x).2 = RiemannGen.starL e (toData q) a) ∧
    (∀ x, X a.ux1 < x → x ≤ X (RiemannGen.vTailR e (toData q) a) → (node x).2 = RiemannGen.starR e (toData q) a) := by
  refine ⟨fun x h1 h2 => ?_, fun x h1 h2 => ?_⟩
  · rw [rcr_zone_starL e (toData q) a prev next xd0 t xmaxW hL hR g h1 h2]
  · rw [rcr_zone_starR e (toData q) a prev next xd0 t xmaxW hL hR g h1 h2]

end sides

/-! ### non-vacuity: γ = 3 gas, rational star state, pattern RCS

pl = 1, ρl = 3, ul = 0 | pr = 1/12, ρr = 3/4, ur = 5/12;  px = 1/8, ρ*₂ = 6/7, u* = 1/2, right shock at 13/12. -/

noncomputable def qEx : Prob := { pl := 1, rl := 3, ul := 0, gl := 3, pr := 1 / 12, rr := 3 / 4, ur := 5 / 12, gr := 3 }
noncomputable def aEx : Atoms ℝ := { px := 1 / 8, rx1 := 3 / 2, ux1 := 1 / 2, rx2 := 6 / 7, ux2 := 1 / 2, tabL := [], tabR := [] }

theorem ex_sqrt1 : Real.sqrt ((6 / 7 : ℝ) / (3 / 4) * (1 / 8 - 1 / 12) / (6 / 7 - 3 / 4)) = 2 / 3 := by
  rw [show (6 / 7 : ℝ) / (3 / 4) * (1 / 8 - 1 / 12) / (6 / 7 - 3 / 4) = (2 / 3) ^ 2 by norm_num]
  exact Real.sqrt_sq (by norm_num)
theorem ex_sqrt2 : Real.sqrt ((3 / 4 : ℝ) / (6 / 7) * (1 / 12 - 1 / 8) / (3 / 4 - 6 / 7)) = 7 / 12 := by
  rw [show (3 / 4 : ℝ) / (6 / 7) * (1 / 12 - 1 / 8) / (3 / 4 - 6 / 7) = (7 / 12) ^ 2 by norm_num]
  exact Real.sqrt_sq (by norm_num)

/-- the hypotheses of `gen_rcs_waves_partial` are satisfiable -/
theorem ex_hugoniotAtom : HugoniotAtom eosIG (toData qEx) qEx.pr qEx.rr qEx.ur qEx.gr aEx.px aEx.rx2 aEx.ux2 where
  r0_pos := by norm_num [qEx]
  rx_pos := by norm_num [aEx]
  ne := by norm_num [qEx, aEx]
  slope := by norm_num [qEx, aEx]
  root := by
    simp only [shockJump, eosIG, qEx, aEx, Bridge.Riem.shockJumpIG_eq, Bridge.Riem.jumpForm, Bool.false_eq_true, if_false]
    norm_num
  vel := by
    simp only [RiemannGen.starVelocity, RiemannGen.isLeft, toData, qEx, aEx, num_ofNat, num_sqrt, num_beq, ex_sqrt1, ex_sqrt2]
    norm_num

example : aEx.px < qEx.pl ∧ qEx.pr < aEx.px ∧ Crossing aEx ∧ qEx.Distinct := by
  refine ⟨by norm_num [qEx, aEx], by norm_num [qEx, aEx], rfl, ?_⟩
  unfold Prob.Distinct qEx; norm_num

/-- the wave speeds of the example: fan from −1 to 0, contact at 1/2, shock at 13/12 -/
theorem ex_sound1 : RiemannGen.soundSpeed eosIG (1 : ℝ) 3 3 = 1 := by
  rw [show eosIG = ⟨false, eosIG.c⟩ from rfl, sound_ig, sound_eq]
  norm_num
theorem ex_sound2 : RiemannGen.soundSpeed eosIG (1 / 8 : ℝ) (3 / 2) 3 = 1 / 2 := by
  rw [show eosIG = ⟨false, eosIG.c⟩ from rfl, sound_ig, sound_eq,
    show (3 : ℝ) * (1 / 8) / (3 / 2) = (1 / 2) ^ 2 by norm_num, Real.sqrt_sq (by norm_num)]
theorem ex_vHeadL : RiemannGen.vHeadL eosIG (toData qEx) = -1 := by
  simp only [RiemannGen.vHeadL, toData, qEx, ex_sound1]; norm_num
theorem ex_vTailL : RiemannGen.vTailL eosIG (toData qEx) aEx = 0 := by
  simp only [RiemannGen.vTailL, toData, qEx, aEx, ex_sound2]; norm_num
theorem ex_vShockR : RiemannGen.vShockR (toData qEx) aEx = 13 / 12 := by
  rw [(gen_shock_orientation qEx (by unfold Prob.Distinct qEx; norm_num) aEx).2]
  simp only [qEx, aEx, ex_sqrt1]; norm_num

end EPV.C02.RiemannGen
