/-
C02 (Sedov share) — the Sedov shock obeys the strong-shock Rankine–Hugoniot relations with the
speed implied by where the solver places it.

Generated model SedovShock (`_run` lines 185-242) with its derivative certificate in t:
  * `sedov_us_is_shock_speed`: the coded shock speed `us` IS d r2/dt (HasDerivAt), t > 0;
  * `sedov_strong_shock`: the pre-shock state (ρ₁, 0, 0, e = 0) the code assigns at the shock and
    the post-shock state (ρ₂, u₂, p₂, e₂ = p₂/((γ-1)ρ₂)) conserve mass, momentum and total
    energy across a surface moving with speed `us` (Spec.RankineHugoniot);
  * `sedov_shock_jump`: `Spec.ShockJump` for the returned fields: inner branch
    ρ₂ g(λ), u₂ f(λ), p₂ h(λ) with any similarity functions normalised at the shock
    (f 1 = g 1 = h 1 = 1), outer branch the ambient state ρ₀ r^(-ω), 0, 0, position X = r2,
    speed D = d r2/dt — for every geometry, density exponent and solution type (the solution type
    enters only through f, g, h and α).
-/
import EPV.Lemmas.HydroRobust
import EPV.Lemmas.Bridge.SemiTac
import EPV.Gen.SedovShockD
import EPV.Lemmas.SedovFields
import EPV.Spec.Jump

set_option linter.all false

open EPV EPV.Gen EPV.Sedov EPV.Spec

namespace EPV.C02

noncomputable section

/-- the shock speed the code uses is the time derivative of the shock position the code uses -/
theorem sedov_us_is_shock_speed (p : SedovShock.P) {t : ℝ} (ht : 0 < t) :
    HasDerivAt (fun t => SedovShock.r2 p t) (SedovShock.us p t) t := by
  have hval : SedovShock.us p t = SedovShock.L1.r2_dt p t := by
    -- t > 0 selects the computing leaf (whatever the guard looks like); then both sides are the same
    -- rational expression in the atoms (E/(αρ₀))^(1/x), t^(2/x), t — compared up to normalisation
    have ht0 := ht.ne'
    simp only [epv_tree]
    epv_semi_prune
    all_goals (simp only [epv_leaf, epv_deriv] <;> epv_semi_eq)
  rw [hval]
  -- the certificate's side conditions (number and form follow the Python) are discharged from `ht`
  epv_hydro_have_cert hcert : SedovShock.L1.r2_hasDerivAt_t p t
  refine hcert.congr_of_eventuallyEq ?_
  filter_upwards [Ioi_mem_nhds ht] with s hs
  have hs0 : 0 < s := Set.mem_Ioi.mp hs
  simp only [epv_tree]
  epv_semi_prune

/-- the states on the two sides of the shock as the code assigns them -/
def preState (p : SedovShock.P) (t : ℝ) : State :=
  ⟨SedovShock.rho1 p t, SedovShock.u1 p t, SedovShock.p1 p t, 0⟩
def postState (p : SedovShock.P) (t : ℝ) : State :=
  ⟨SedovShock.rho2 p t, SedovShock.u2 p t, SedovShock.p2 p t,
    SedovShock.p2 p t / (p.gamma - 1) / SedovShock.rho2 p t⟩

/-- strong-shock Rankine–Hugoniot relations with D = us, for γ ≠ ±1 and ρ₁ ≠ 0 -/
theorem sedov_strong_shock (p : SedovShock.P) {t : ℝ} (ht : 0 < t) (hγ1 : p.gamma - 1 ≠ 0)
    (hγ2 : p.gamma + 1 ≠ 0) (hρ : SedovShock.rho1 p t ≠ 0) :
    RankineHugoniot (preState p t) (postState p t) (SedovShock.us p t) := by
  unfold RankineHugoniot preState postState State.massFlux State.momFlux State.energyFlux
  simp only
  rw [p2_eq p ht, rho2_eq p ht, u2_eq p ht, u1_eq p ht, p1_eq p ht]
  generalize SedovShock.rho1 p t = ρ at *
  generalize SedovShock.us p t = D
  refine ⟨?_, ?_, ?_⟩
  · field_simp; ring
  · field_simp; ring
  · field_simp; ring

/-- the same on the documented domain -/
theorem sedov_strong_shock_admissible (p : SedovShock.P) (k : ℕ) (A : Admissible p k) {t : ℝ} (ht : 0 < t) :
    RankineHugoniot (preState p t) (postState p t) (SedovShock.us p t) := by
  refine sedov_strong_shock p ht A.gm1 A.gp1 ?_
  rw [rho1_eq p ht]
  exact (mul_pos A.rho0 (Real.rpow_pos_of_pos (r2_pos A ht) _)).ne'

/-- inner (behind the shock) and outer (ahead) branch of the returned fields -/
def inner (p : SedovShock.P) (f g h : ℝ → ℝ) (r t : ℝ) : State :=
  ⟨density p g t r, velocity p f t r, pressure p h t r, pressure p h t r / (p.gamma - 1) / density p g t r⟩
def outer (p : SedovShock.P) (r t : ℝ) : State := ⟨p.rho0 * r ^ (-p.omega), 0, 0, 0⟩

/-- **C02 for the Sedov shock, leaf form** (`Spec.ShockJump`): position r2(t), speed d r2/dt, states
of the two returned branches at the shock -/
theorem sedov_shock_jump (p : SedovShock.P) (k : ℕ) (A : Admissible p k) (f g h : ℝ → ℝ)
    (hf : f 1 = 1) (hg : g 1 = 1) (hh : h 1 = 1) {t : ℝ} (ht : 0 < t) :
    ShockJump (inner p f g h) (outer p) (fun t => SedovShock.r2 p t) (SedovShock.us p t) t := by
  refine ⟨sedov_us_is_shock_speed p ht, ?_⟩
  have hR := (r2_pos A ht).ne'
  have h1 : inner p f g h (SedovShock.r2 p t) t = postState p t := by
    unfold inner postState density velocity pressure
    rw [div_self hR, hf, hg, hh]; simp
  have h2 : outer p (SedovShock.r2 p t) t = preState p t := by
    unfold outer preState
    rw [rho1_eq p ht, u1_eq p ht, p1_eq p ht]
  simp only [h1, h2]
  -- Rankine–Hugoniot is symmetric in the two sides
  obtain ⟨a, b, c⟩ := sedov_strong_shock_admissible p k A ht
  exact ⟨a.symm, b.symm, c.symm⟩

/-- non-vacuity: default spherical problem, singular-type similarity functions f = λ, g = λ, h = λ³ -/
example : ∃ (p : SedovShock.P) (k : ℕ) (f g h : ℝ → ℝ), Admissible p k ∧ f 1 = 1 ∧ g 1 = 1 ∧ h 1 = 1 :=
  ⟨⟨851072/1000000, 851072/1000000, 7/5, 3, 0, 1⟩, 3, fun x => x, fun x => x, fun x => x ^ 3,
    ⟨Or.inr (Or.inr rfl), by norm_num, by norm_num, by norm_num, by norm_num, by norm_num, by norm_num, by norm_num⟩,
    rfl, rfl, by norm_num⟩

end

end EPV.C02
