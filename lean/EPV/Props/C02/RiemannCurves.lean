/-
C02 — the star state of the ideal-gas Riemann solver is the intersection of the two wave curves.

The wave curves are those of `EPV.Spec.Riemann` (`OnShockBranch`: the three Rankine–Hugoniot
conditions + pressure rise + orientation; `OnFanBranch`: same entropy function p/ρ^γ and same
Riemann invariant u ± 2c/(γ-1)) — written from the conservation laws, not from the code.

* `shock_branch_iff`: a state is joined to (p₀,ρ₀,u₀) by an admissible shock  ⟺  its density is
  the coded `rho_star_shock` and its velocity the coded u₀ ± `shock(p, p₀, ρ₀, 0, γ)`
  (the ⟹ direction is uniqueness on the Hugoniot: `shock_branch_unique`);
* `fan_branch_iff`: the same for the rarefaction branch with `rho_star_rarefaction`, `rarefaction`;
* for each pattern, in the pressure range of that pattern (proved to hold for the pattern the
  driver selects: `EPV.C17.Riemann.pattern_pressure_range`),
      `X_call px = 0  ⟺  the left and right wave curves meet at px`
  (`scs_meet`, `scr_meet`, `rcs_meet`, `rcr_meet`), each side with its own γ.
-/
import EPV.Lemmas.Riemann

set_option linter.all false

open EPV EPV.Gen EPV.Model EPV.Spec.Riemann EPV.Riem

namespace EPV.C02.Riemann

theorem sie_eIG (p ρ γ : ℝ) : sie p ρ γ = eIG γ p ρ := by
  rw [sie_eq]; unfold eIG; rw [sub_zero, div_div]

/-- uniqueness on the Hugoniot: the three jump conditions of the γ-law gas, a pressure rise and the
orientation of the wave determine the post-shock density and velocity -/
theorem shock_branch_unique (σ : ℝ) (hσ : σ = 1 ∨ σ = -1) {p0 ρ0 u0 γ p1 ρ1 u1 D : ℝ}
    (hp0 : 0 < p0) (hρ0 : 0 < ρ0) (hγ : 1 < γ) (hp : p0 < p1) (hρ1 : 0 < ρ1)
    (hrh : RH p0 ρ0 u0 (eIG γ p0 ρ0) p1 ρ1 u1 (eIG γ p1 ρ1) D) (hor : σ * (u0 - D) < 0) :
    ρ1 = rhoShock p1 p0 ρ0 γ ∧ u1 = u0 + σ * ((p1 - p0) / mflux p1 p0 ρ0 γ) := by
  obtain ⟨hm, hmom, hen⟩ := hrh
  unfold massJump at hm; unfold momJump at hmom; unfold energyJump eIG at hen
  obtain ⟨g, hg, rfl⟩ : ∃ g, 0 < g ∧ γ = 1 + g := ⟨γ - 1, by linarith, by ring⟩
  have e1 : (1 + g - 1) = g := by ring
  rw [e1] at hen
  have hp1 : 0 < p1 := lt_trans hp0 hp
  obtain ⟨j, hj⟩ : ∃ j, j = ρ0 * (u0 - D) := ⟨_, rfl⟩
  rw [← hj] at hm hmom hen
  have h1 : j * (u1 - u0) = p0 - p1 := by linear_combination hmom - u1 * hm
  have hj0 : j ≠ 0 := by
    intro h; rw [h, zero_mul] at h1; linarith
  have hw1 : u1 - D = j / ρ1 := by field_simp; linarith [hm]
  have hw0 : u0 - D = j / ρ0 := by rw [hj]; field_simp
  have P' : ρ1 * (u1 - D) ^ 2 + p1 = ρ0 * (u0 - D) ^ 2 + p0 := by
    rw [hj] at hm hmom; linear_combination hmom - D * hm
  have E' : ρ1 * (u1 - D) * (p1 / (g * ρ1) + (u1 - D) ^ 2 / 2) + p1 * (u1 - D)
      = ρ0 * (u0 - D) * (p0 / (g * ρ0) + (u0 - D) ^ 2 / 2) + p0 * (u0 - D) := by
    rw [hj] at hm hmom hen; linear_combination hen - D * hmom + D ^ 2 / 2 * hm
  rw [hw1, hw0] at P' E'
  have hP : j ^ 2 * (ρ1 - ρ0) - (p1 - p0) * ρ0 * ρ1 = 0 := by
    field_simp at P'; linear_combination -P'
  have hE : 2 * (1 + g) * ρ0 * ρ1 * (p1 * ρ0 - p0 * ρ1) + g * j ^ 2 * (ρ0 ^ 2 - ρ1 ^ 2) = 0 := by
    field_simp at E'; linear_combination E'
  -- the Hugoniot density
  have hG : ρ1 * (g * p1 + (g + 2) * p0) - ρ0 * ((g + 2) * p1 + g * p0) = 0 := by
    have : ρ0 * ρ1 * (ρ1 * (g * p1 + (g + 2) * p0) - ρ0 * ((g + 2) * p1 + g * p0)) = 0 := by
      linear_combination (-1) * hE - g * (ρ1 + ρ0) * hP
    exact (mul_eq_zero.mp this).resolve_left (by positivity)
  -- the mass flux
  have hJ : 2 * j ^ 2 - ρ0 * ((g + 2) * p1 + g * p0) = 0 := by
    have : ρ0 * (p1 - p0) * (2 * j ^ 2 - ρ0 * ((g + 2) * p1 + g * p0)) = 0 := by
      linear_combination (g * p1 + (g + 2) * p0) * hP - (j ^ 2 - (p1 - p0) * ρ0) * hG
    have hne : ρ0 * (p1 - p0) ≠ 0 := by
      have : 0 < p1 - p0 := by linarith
      positivity
    exact (mul_eq_zero.mp this).resolve_left hne
  have hD : 0 < p1 * g + p0 * (g + 2) := by positivity
  have hN : 0 < NN p1 p0 (1 + g) := NN_pos hp0 hγ hp1.le
  have hmp := mflux_pos hρ0 hN
  have hm2 := mflux_sq hρ0 hN
  unfold NN at hm2
  have e2 : (1 + g + 1) = g + 2 := by ring
  rw [e1, e2] at hm2
  have hjm : j ^ 2 = mflux p1 p0 ρ0 (1 + g) ^ 2 := by rw [hm2]; linarith
  refine ⟨?_, ?_⟩
  · rw [rhoShock_eq, e1, e2, eq_div_iff hD.ne']; linarith
  · -- j = -σ m from the orientation
    have hjσ : j = -σ * mflux p1 p0 ρ0 (1 + g) := by
      rcases hσ with rfl | rfl
      · have hneg : j < 0 := by rw [hj]; exact mul_neg_of_pos_of_neg hρ0 (by linarith)
        have : (j - mflux p1 p0 ρ0 (1 + g)) * (j + mflux p1 p0 ρ0 (1 + g)) = 0 := by linear_combination hjm
        rcases mul_eq_zero.mp this with h | h
        · linarith
        · linarith
      · have hpos : 0 < j := by rw [hj]; exact mul_pos hρ0 (by linarith)
        have : (j - mflux p1 p0 ρ0 (1 + g)) * (j + mflux p1 p0 ρ0 (1 + g)) = 0 := by linear_combination hjm
        rcases mul_eq_zero.mp this with h | h
        · linarith
        · linarith
    have hu : u1 = u0 + (p0 - p1) / j := by field_simp; linear_combination h1
    rw [hu, hjσ]
    rcases hσ with rfl | rfl <;> field_simp <;> ring



/-- the isentrope through (p₀, ρ₀): p/ρ^γ = p₀/ρ₀^γ  ⟺  ρ = `rho_star_rarefaction` -/
theorem isentrope_iff {p0 ρ0 γ p ρ : ℝ} (hp0 : 0 < p0) (hρ0 : 0 < ρ0) (hγ : 1 < γ) (hp : 0 < p) (hρ : 0 < ρ) :
    p / ρ ^ γ = p0 / ρ0 ^ γ ↔ ρ = rhoRare p p0 ρ0 γ := by
  have hγ0 : 0 < γ := by linarith
  have hz : 0 < p / p0 := by positivity
  rw [rhoRare_eq]
  have h1 : 0 < ρ ^ γ := Real.rpow_pos_of_pos hρ _
  have h2 : 0 < ρ0 ^ γ := Real.rpow_pos_of_pos hρ0 _
  have hroot : ∀ a : ℝ, 0 < a → (a ^ γ) ^ (1 / γ) = a := fun a ha => by
    rw [← Real.rpow_mul ha.le, mul_one_div_cancel hγ0.ne', Real.rpow_one]
  have hpow : (ρ0 * (p / p0) ^ (1 / γ)) ^ γ = ρ0 ^ γ * (p / p0) := by
    rw [Real.mul_rpow hρ0.le (Real.rpow_pos_of_pos hz _).le, ← Real.rpow_mul hz.le, one_div_mul_cancel hγ0.ne',
      Real.rpow_one]
  constructor
  · intro h
    have h3 : ρ ^ γ = ρ0 ^ γ * (p / p0) := by
      field_simp at h; field_simp; linarith
    have := congrArg (fun x => x ^ (1 / γ)) h3
    rw [hroot ρ hρ, Real.mul_rpow h2.le hz.le, hroot ρ0 hρ0] at this
    exact this
  · intro h
    rw [h, hpow]; field_simp

/-! ### both branches in terms of the coded formulas -/

/-- the coded shock formulas give a state on the shock branch (existence) -/
theorem shock_branch_of_formula (σ : ℝ) (hσ : σ = 1 ∨ σ = -1) {p0 ρ0 u0 γ p1 : ℝ}
    (hp0 : 0 < p0) (hρ0 : 0 < ρ0) (hγ : 1 < γ) (hp : p0 < p1) :
    OnShockBranch γ σ ⟨p0, ρ0, u0⟩ ⟨p1, rhoShock p1 p0 ρ0 γ, u0 + σ * ((p1 - p0) / mflux p1 p0 ρ0 γ)⟩ := by
  have hp1 : 0 < p1 := lt_trans hp0 hp
  have hN := NN_pos hp0 hγ hp1.le
  have hm := mflux_pos hρ0 hN
  have hD : 0 < p1 * (γ - 1) + p0 * (γ + 1) := by nlinarith
  have hNp : 0 < p0 * (γ - 1) + p1 * (γ + 1) := by nlinarith
  refine ⟨hp, ?_, u0 + σ * (mflux p1 p0 ρ0 γ / ρ0), ?_, ?_⟩
  · show 0 < rhoShock p1 p0 ρ0 γ
    rw [rhoShock_eq]; positivity
  · have := rh_core σ hσ (u := u0) hp0 hρ0 hγ hp1 hm (mflux_sq hρ0 hN)
    rw [sie_eIG, sie_eIG] at this
    exact this
  · show σ * (u0 - (u0 + σ * (mflux p1 p0 ρ0 γ / ρ0))) < 0
    have : 0 < mflux p1 p0 ρ0 γ / ρ0 := by positivity
    rcases hσ with rfl | rfl <;> linarith

/-- C02, shock branch: admissible shocks from (p₀,ρ₀,u₀) to the pressure p₁ > p₀ are exactly the
states the code computes -/
theorem shock_branch_iff (σ : ℝ) (hσ : σ = 1 ∨ σ = -1) {p0 ρ0 u0 γ : ℝ} (hp0 : 0 < p0) (hρ0 : 0 < ρ0) (hγ : 1 < γ)
    (s : St) (hp : p0 < s.p) :
    OnShockBranch γ σ ⟨p0, ρ0, u0⟩ s ↔
      s.ρ = rhoShock s.p p0 ρ0 γ ∧ s.u = u0 + σ * ((s.p - p0) / mflux s.p p0 ρ0 γ) := by
  constructor
  · rintro ⟨-, hρ1, D, hrh, hor⟩
    exact shock_branch_unique σ hσ hp0 hρ0 hγ hp hρ1 hrh hor
  · rintro ⟨h1, h2⟩
    have := shock_branch_of_formula σ hσ (u0 := u0) hp0 hρ0 hγ hp
    rw [← h1, ← h2] at this
    exact this

/-- C02, rarefaction branch: states on the isentrope with the same Riemann invariant are exactly the
states the code computes (`rho_star_rarefaction`, u₀ ∓ `rarefaction(p, p₀, ρ₀, 0, γ)`) -/
theorem fan_branch_iff (σ : ℝ) {p0 ρ0 u0 γ : ℝ} (hp0 : 0 < p0) (hρ0 : 0 < ρ0) (hγ : 1 < γ) (s : St) :
    OnFanBranch γ σ ⟨p0, ρ0, u0⟩ s ↔
      0 < s.p ∧ s.p ≤ p0 ∧ s.ρ = rhoRare s.p p0 ρ0 γ ∧ s.u = u0 - σ * rare s.p p0 ρ0 0 γ := by
  have hg1 : γ - 1 ≠ 0 := by linarith
  unfold OnFanBranch cIG
  constructor
  · rintro ⟨hp, hle, hρ, hent, hinv⟩
    have hr := (isentrope_iff hp0 hρ0 hγ hp hρ).mp hent
    refine ⟨hp, hle, hr, ?_⟩
    have hs := sound_on_isentrope hp0 hρ0 hγ hp
    rw [sound_eq, sound_eq, ← hr] at hs
    simp only at hinv
    rw [hs] at hinv
    rw [rare_eq]
    have : s.u = u0 - σ * (2 * Real.sqrt (γ * p0 / ρ0) / (γ - 1))
        + σ * (2 * (Real.sqrt (γ * p0 / ρ0) * (s.p / p0) ^ ((γ - 1) / 2 / γ)) / (γ - 1)) := by linarith
    rw [this]; ring
  · rintro ⟨hp, hle, hr, hu⟩
    have hz : 0 < s.p / p0 := by positivity
    have hρ : 0 < s.ρ := by
      rw [hr, rhoRare_eq]; exact mul_pos hρ0 (Real.rpow_pos_of_pos hz _)
    refine ⟨hp, hle, hρ, (isentrope_iff hp0 hρ0 hγ hp hρ).mpr hr, ?_⟩
    have hs := sound_on_isentrope hp0 hρ0 hγ hp
    rw [sound_eq, sound_eq, ← hr] at hs
    simp only
    rw [hs, hu, rare_eq]; ring

/-! ### `X_call px = 0 ⟺` the wave curves meet -/

/-- the left (σ = -1) and right (σ = +1) initial states of a problem -/
def Lst (q : Prob) : St := ⟨q.pl, q.rl, q.ul⟩
def Rst (q : Prob) : St := ⟨q.pr, q.rr, q.ur⟩

private theorem neg1 : (-1 : ℝ) = 1 ∨ (-1 : ℝ) = -1 := Or.inr rfl
private theorem pos1 : (1 : ℝ) = 1 ∨ (1 : ℝ) = -1 := Or.inl rfl

/-- shock–contact–shock -/
theorem scs_meet (q : Prob) (hq : q.Admissible) {px : ℝ} (hl : q.pl < px) (hr : q.pr < px) :
    SCS q px = 0 ↔ Meet (OnShockBranch q.gl (-1)) (OnShockBranch q.gr 1) (Lst q) (Rst q) px := by
  obtain ⟨hpl, hrl, hgl, hpr, hrr, hgr⟩ := id hq
  have hpx : 0 < px := lt_trans hpl hl
  have eL := shock_mflux (u := -q.ul) hrl (by linarith) (NN_pos hpl hgl hpx.le)
  have eR := shock_mflux (u := q.ur) hrr (by linarith) (NN_pos hpr hgr hpx.le)
  rw [SCS_eq, eL, eR]
  unfold Meet Lst Rst
  constructor
  · intro h
    refine ⟨q.ul + -1 * ((px - q.pl) / mflux px q.pl q.rl q.gl), rhoShock px q.pl q.rl q.gl,
      rhoShock px q.pr q.rr q.gr, shock_branch_of_formula (-1) neg1 hpl hrl hgl hl, ?_⟩
    have := shock_branch_of_formula 1 pos1 (u0 := q.ur) hpr hrr hgr hr
    have e : q.ul + -1 * ((px - q.pl) / mflux px q.pl q.rl q.gl) = q.ur + 1 * ((px - q.pr) / mflux px q.pr q.rr q.gr) := by
      linarith
    rw [e]; exact this
  · rintro ⟨ux, ρ1, ρ2, hL, hR⟩
    have h1 := ((shock_branch_iff (-1) neg1 hpl hrl hgl ⟨px, ρ1, ux⟩ hl).mp hL).2
    have h2 := ((shock_branch_iff 1 pos1 hpr hrr hgr ⟨px, ρ2, ux⟩ hr).mp hR).2
    simp only at h1 h2
    linarith

/-- shock–contact–rarefaction -/
theorem scr_meet (q : Prob) (hq : q.Admissible) {px : ℝ} (hl : q.pl < px) (hr : px ≤ q.pr) :
    SCR q px = 0 ↔ Meet (OnShockBranch q.gl (-1)) (OnFanBranch q.gr 1) (Lst q) (Rst q) px := by
  obtain ⟨hpl, hrl, hgl, hpr, hrr, hgr⟩ := id hq
  have hpx : 0 < px := lt_trans hpl hl
  have eL := shock_mflux (u := -q.ul) hrl (by linarith) (NN_pos hpl hgl hpx.le)
  rw [SCR_eq, eL, rare_u]
  unfold Meet Lst Rst
  constructor
  · intro h
    refine ⟨q.ul + -1 * ((px - q.pl) / mflux px q.pl q.rl q.gl), rhoShock px q.pl q.rl q.gl,
      rhoRare px q.pr q.rr q.gr, shock_branch_of_formula (-1) neg1 hpl hrl hgl hl, ?_⟩
    refine (fan_branch_iff 1 hpr hrr hgr _).mpr ⟨hpx, hr, rfl, ?_⟩
    simp only; linarith
  · rintro ⟨ux, ρ1, ρ2, hL, hR⟩
    have h1 := ((shock_branch_iff (-1) neg1 hpl hrl hgl ⟨px, ρ1, ux⟩ hl).mp hL).2
    have h2 := ((fan_branch_iff 1 hpr hrr hgr ⟨px, ρ2, ux⟩).mp hR).2.2.2
    simp only at h1 h2
    linarith

/-- rarefaction–contact–shock -/
theorem rcs_meet (q : Prob) (hq : q.Admissible) {px : ℝ} (hpx : 0 < px) (hl : px ≤ q.pl) (hr : q.pr < px) :
    RCS q px = 0 ↔ Meet (OnFanBranch q.gl (-1)) (OnShockBranch q.gr 1) (Lst q) (Rst q) px := by
  obtain ⟨hpl, hrl, hgl, hpr, hrr, hgr⟩ := id hq
  have eR := shock_mflux (u := q.ur) hrr (by linarith) (NN_pos hpr hgr hpx.le)
  rw [RCS_eq, eR, rare_u]
  unfold Meet Lst Rst
  constructor
  · intro h
    refine ⟨q.ur + 1 * ((px - q.pr) / mflux px q.pr q.rr q.gr), rhoRare px q.pl q.rl q.gl,
      rhoShock px q.pr q.rr q.gr, ?_, shock_branch_of_formula 1 pos1 hpr hrr hgr hr⟩
    refine (fan_branch_iff (-1) hpl hrl hgl _).mpr ⟨hpx, hl, rfl, ?_⟩
    simp only; linarith
  · rintro ⟨ux, ρ1, ρ2, hL, hR⟩
    have h1 := ((fan_branch_iff (-1) hpl hrl hgl ⟨px, ρ1, ux⟩).mp hL).2.2.2
    have h2 := ((shock_branch_iff 1 pos1 hpr hrr hgr ⟨px, ρ2, ux⟩ hr).mp hR).2
    simp only at h1 h2
    linarith

/-- rarefaction–contact–rarefaction -/
theorem rcr_meet (q : Prob) (hq : q.Admissible) {px : ℝ} (hpx : 0 < px) (hl : px ≤ q.pl) (hr : px ≤ q.pr) :
    RCR q px = 0 ↔ Meet (OnFanBranch q.gl (-1)) (OnFanBranch q.gr 1) (Lst q) (Rst q) px := by
  obtain ⟨hpl, hrl, hgl, hpr, hrr, hgr⟩ := id hq
  rw [RCR_eq, rare_u px q.pr, rare_u px q.pl]
  unfold Meet Lst Rst
  constructor
  · intro h
    refine ⟨q.ul - -1 * rare px q.pl q.rl 0 q.gl, rhoRare px q.pl q.rl q.gl, rhoRare px q.pr q.rr q.gr, ?_, ?_⟩
    · exact (fan_branch_iff (-1) hpl hrl hgl _).mpr ⟨hpx, hl, rfl, rfl⟩
    · refine (fan_branch_iff 1 hpr hrr hgr _).mpr ⟨hpx, hr, rfl, ?_⟩
      simp only; linarith
  · rintro ⟨ux, ρ1, ρ2, hL, hR⟩
    have h1 := ((fan_branch_iff (-1) hpl hrl hgl ⟨px, ρ1, ux⟩).mp hL).2.2.2
    have h2 := ((fan_branch_iff 1 hpr hrr hgr ⟨px, ρ2, ux⟩).mp hR).2.2.2
    simp only at h1 h2
    linarith

/-- non-vacuity: Sod data; the star pressure 0.30313… lies between pr and pl (pattern RCS) -/
example : sod.Admissible ∧ (0 : ℝ) < 3 / 10 ∧ (3 / 10 : ℝ) ≤ sod.pl ∧ sod.pr < 3 / 10 := by
  refine ⟨sod_admissible.1, by norm_num, ?_, ?_⟩ <;> norm_num [sod]

end EPV.C02.Riemann
