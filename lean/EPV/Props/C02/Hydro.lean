/-
C02 — Rankine–Hugoniot at the shocks of the closed-form hydro solvers Noh,
Coggeshall 19 and Coggeshall 21 (Coggeshall 20: see `FindingCog20.lean`).

For each solver:
* `<s>Shock p t` is the *coded* discontinuity position: the right-hand side of the traced
  path condition `r < shock_location` (`<s>_shock_coded` ties it to the generated model,
  so an edit of the position in the Python breaks that tie and nothing else);
* `<s>_shock_hasDerivAt` differentiates that coded position in time — this derivative,
  not a documented formula, is the shock speed `D`;
* `<s>_jump` : the post-shock leaf (r < X t) and the pre-shock leaf (r ≥ X t), evaluated
  at r = X t, conserve mass, momentum and total energy with that `D`
  (`Spec.ShockJump`).  The leaf expressions are continuous in r at the shock, so their
  values at r = X t *are* the one-sided limits of the returned fields;
* `<s>_conserves` states exactly that: the tree-level returned fields have one-sided
  limits at the coded position which, with `D`, satisfy Rankine–Hugoniot
  (`Spec.ConservesAcross`, the full statement of the property for this discontinuity).

Domain: every real geometry exponent, γ > 1, u₀ < 0 (the documented sign), t > 0.
The background density ρ₀ is not restricted (the identities are linear in it).
-/
import EPV.Gen.Noh
import EPV.Gen.NohD
import EPV.Gen.Cog19
import EPV.Gen.Cog19D
import EPV.Gen.Cog21
import EPV.Gen.Cog21D
import EPV.Spec.Jump
import EPV.Lemmas.HydroRobust
import EPV.Lemmas.Bridge.Noh
import EPV.Lemmas.Bridge.Cog19
import EPV.Lemmas.Bridge.Cog21
import EPV.Tactics

set_option linter.all false

open EPV EPV.Gen EPV.Spec

namespace EPV.C02

noncomputable section

/-! ### Noh -/

/-- the traced model has exactly the leaves the theorems below name -/
theorem noh_leaves : Noh.okLeaves = [0, 1] ∧ Noh.nLeaves = 2 := ⟨rfl, rfl⟩

/-- coded shock position of `Noh._run`: `abs(u0) * t * (gamma - 1) / 2` -/
def nohShock (p : Noh.P) (t : ℝ) : ℝ := |p.u0| * t * (p.gamma - 1) / 2

/-- the generated path condition is `r < nohShock p t` -/
theorem noh_shock_coded (p : Noh.P) (r t : ℝ) : Noh.c0 p r t ↔ r < nohShock p t := by
  unfold nohShock
  exact EPV.Bridge.noh_c0_iff p r t

/-- shock speed implied by the coded position -/
def nohSpeed (p : Noh.P) : ℝ := |p.u0| * (p.gamma - 1) / 2

theorem noh_shock_hasDerivAt (p : Noh.P) (t : ℝ) : HasDerivAt (nohShock p) (nohSpeed p) t := by
  unfold nohShock nohSpeed
  have h := ((hasDerivAt_id' t).const_mul |p.u0|).mul_const ((p.gamma - 1) / 2)
  refine (h.congr_of_eventuallyEq (Filter.Eventually.of_forall fun s => ?_)).congr_deriv ?_
  · simp only; ring
  · ring

/-- post-shock (inner, r < X) state of the generated model -/
def nohInner (p : Noh.P) : ℝ → ℝ → State :=
  stateAt (Noh.L0.density p) (Noh.L0.velocity p) (Noh.L0.pressure p) (Noh.L0.specific_internal_energy p)
/-- pre-shock (outer, r ≥ X) state of the generated model -/
def nohOuter (p : Noh.P) : ℝ → ℝ → State :=
  stateAt (Noh.L1.density p) (Noh.L1.velocity p) (Noh.L1.pressure p) (Noh.L1.specific_internal_energy p)

/-- the compression ratio identity behind all three jumps: 1 + |u₀| t / X(t) = (γ+1)/(γ-1) -/
theorem noh_ratio (v γ t : ℝ) (hv : 0 < v) (hγ : 1 < γ) (ht : 0 < t) :
    1 + v * t / (v * t * (γ - 1) / 2) = (γ + 1) / (γ - 1) := by
  have h1 : γ - 1 ≠ 0 := by linarith
  field_simp
  ring

/-- Noh: mass, momentum and total energy are conserved across the coded shock, for every
real geometry exponent, γ > 1, u₀ < 0, t > 0; the speed is the derivative of the coded
position.  The states are the leaf expressions at r = X(t); both are continuous in r there,
so these are the one-sided limits of the returned fields (`noh_conserves`). -/
theorem noh_jump (p : Noh.P) (t : ℝ) (hγ : 1 < p.gamma) (hu : p.u0 < 0) (ht : 0 < t) :
    ShockJump (nohInner p) (nohOuter p) (nohShock p) (nohSpeed p) t := by
  refine ⟨noh_shock_hasDerivAt p t, ?_⟩
  have hx : nohShock p t ≠ 0 := by
    have h1 : 0 < |p.u0| := abs_pos.mpr hu.ne
    have h2 : 0 < p.gamma - 1 := by linarith
    unfold nohShock; positivity
  -- the generated leaves enter only through their documented closed forms (Lemmas/Bridge/Noh.lean)
  simp only [RankineHugoniot, State.massFlux, State.momFlux, State.energyFlux, nohInner, nohOuter, stateAt,
    EPV.Bridge.noh_L0_density, EPV.Bridge.noh_L0_velocity, EPV.Bridge.noh_L0_pressure, EPV.Bridge.noh_L0_sie,
    EPV.Bridge.noh_L1_density p _ t hx, EPV.Bridge.noh_L1_velocity, EPV.Bridge.noh_L1_pressure, EPV.Bridge.noh_L1_sie]
  obtain ⟨g, k, ρ0, u0⟩ := p
  simp only at hγ hu
  obtain ⟨v, rfl⟩ : ∃ v, u0 = -v := ⟨-u0, by ring⟩
  have hv : 0 < v := by linarith
  have habs : |(-v)| = v := by rw [abs_neg, abs_of_pos hv]
  have hA : 0 < (g + 1) / (g - 1) := div_pos (by linarith) (by linarith)
  have hpow : ((g + 1) / (g - 1)) ^ k = ((g + 1) / (g - 1)) ^ (k - 1) * ((g + 1) / (g - 1)) := by
    rw [Real.rpow_sub_one hA.ne' k, div_mul_cancel₀ _ hA.ne']
  have h1 : g - 1 ≠ 0 := by linarith
  simp only [nohShock, nohSpeed, habs]
  rw [noh_ratio v g t hv hγ ht, hpow]
  generalize ((g + 1) / (g - 1)) ^ (k - 1) = B
  refine ⟨?_, ?_, ?_⟩ <;> field_simp <;> ring

example : ∃ p : Noh.P, ∃ t : ℝ, 1 < p.gamma ∧ p.u0 < 0 ∧ 0 < t :=
  ⟨⟨5 / 3, 3, 1, -1⟩, 1, by norm_num, by norm_num, by norm_num⟩

theorem noh_shock_pos (p : Noh.P) (t : ℝ) (hγ : 1 < p.gamma) (hu : p.u0 < 0) (ht : 0 < t) :
    0 < nohShock p t := by
  unfold nohShock
  have : 0 < |p.u0| := abs_pos.mpr hu.ne
  have : 0 < p.gamma - 1 := by linarith
  positivity

/-- Noh, full statement: the *returned* fields (tree level) have one-sided limits at the coded
shock position, and these limits conserve mass, momentum and total energy with the speed
implied by the coded position. -/
theorem noh_conserves (p : Noh.P) (t : ℝ) (hγ : 1 < p.gamma) (hu : p.u0 < 0) (ht : 0 < t) :
    ConservesAcross (Noh.density p) (Noh.velocity p) (Noh.pressure p) (Noh.specific_internal_energy p)
      (nohShock p) t := by
  have hx := noh_shock_pos p t hγ hu ht
  have hq : 0 < 1 + |p.u0| * t / nohShock p t := by
    have : 0 ≤ |p.u0| * t / nohShock p t := div_nonneg (mul_nonneg (abs_nonneg _) ht.le) hx.le
    linarith
  refine ConservesAcross.of_shockJump (D := nohSpeed p)
    (iρ := Noh.L0.density p) (iu := Noh.L0.velocity p) (ip := Noh.L0.pressure p)
    (ie := Noh.L0.specific_internal_energy p)
    (oρ := Noh.L1.density p) (ou := Noh.L1.velocity p) (op := Noh.L1.pressure p)
    (oe := Noh.L1.specific_internal_energy p) ?_ ?_ ?_ ?_ ?_ ?_ ?_ ?_ ?_ ?_ ?_ ?_ (noh_jump p t hγ hu ht)
  · intro r; simp only [Noh.density, noh_shock_coded]
  · intro r; simp only [Noh.velocity, noh_shock_coded]
  · intro r; simp only [Noh.pressure, noh_shock_coded]
  · intro r; simp only [Noh.specific_internal_energy, noh_shock_coded]
  · exact HasDerivAt.continuousAt (by epv_hydro_cert Noh.L0.density_hasDerivAt_r p (nohShock p t) t)
  · exact HasDerivAt.continuousAt (by epv_hydro_cert Noh.L0.velocity_hasDerivAt_r p (nohShock p t) t)
  · exact HasDerivAt.continuousAt (by epv_hydro_cert Noh.L0.pressure_hasDerivAt_r p (nohShock p t) t)
  · exact HasDerivAt.continuousAt (by epv_hydro_cert Noh.L0.specific_internal_energy_hasDerivAt_r p (nohShock p t) t)
  · exact HasDerivAt.continuousAt (by epv_hydro_cert Noh.L1.density_hasDerivAt_r p (nohShock p t) t)
  · exact HasDerivAt.continuousAt (by epv_hydro_cert Noh.L1.velocity_hasDerivAt_r p (nohShock p t) t)
  · exact HasDerivAt.continuousAt (by epv_hydro_cert Noh.L1.pressure_hasDerivAt_r p (nohShock p t) t)
  · exact HasDerivAt.continuousAt (by epv_hydro_cert Noh.L1.specific_internal_energy_hasDerivAt_r p (nohShock p t) t)

/-! ### Coggeshall 19 -/

theorem cog19_leaves : Cog19.okLeaves = [0, 1] ∧ Cog19.nLeaves = 2 := ⟨rfl, rfl⟩

/-- coded shock position of `Cog19._run`: `-(gamma - 1) * u0 * t / 2` -/
def cog19Shock (p : Cog19.P) (t : ℝ) : ℝ := -(p.gamma - 1) * p.u0 * t / 2

theorem cog19_shock_coded (p : Cog19.P) (r t : ℝ) : Cog19.c0 p r t ↔ r < cog19Shock p t := by
  unfold cog19Shock
  exact EPV.Bridge.cog19_c0_iff p r t

/-- shock speed implied by the coded position -/
def cog19Speed (p : Cog19.P) : ℝ := -(p.gamma - 1) * p.u0 / 2

theorem cog19_shock_hasDerivAt (p : Cog19.P) (t : ℝ) : HasDerivAt (cog19Shock p) (cog19Speed p) t := by
  unfold cog19Shock cog19Speed
  have h := (hasDerivAt_id' t).const_mul (-(p.gamma - 1) * p.u0 / 2)
  refine (h.congr_of_eventuallyEq (Filter.Eventually.of_forall fun s => ?_)).congr_deriv ?_
  · simp only; ring
  · ring

def cog19Inner (p : Cog19.P) : ℝ → ℝ → State :=
  stateAt (Cog19.L0.density p) (Cog19.L0.velocity p) (Cog19.L0.pressure p) (Cog19.L0.specific_internal_energy p)
def cog19Outer (p : Cog19.P) : ℝ → ℝ → State :=
  stateAt (Cog19.L1.density p) (Cog19.L1.velocity p) (Cog19.L1.pressure p) (Cog19.L1.specific_internal_energy p)

theorem cog19_ratio (v γ t : ℝ) (hv : 0 < v) (hγ : 1 < γ) (ht : 0 < t) :
    (-(γ - 1) * -v * t / 2 - -v * t) / (-(γ - 1) * -v * t / 2) = (γ + 1) / (γ - 1) := by
  have h1 : γ - 1 ≠ 0 := by linarith
  field_simp
  ring

theorem cog19_shock_pos (p : Cog19.P) (t : ℝ) (hγ : 1 < p.gamma) (hu : p.u0 < 0) (ht : 0 < t) :
    0 < cog19Shock p t := by
  unfold cog19Shock
  have h1 : 0 < p.gamma - 1 := by linarith
  have h2 : 0 < -p.u0 := by linarith
  have : -(p.gamma - 1) * p.u0 * t / 2 = (p.gamma - 1) * (-p.u0) * t / 2 := by ring
  rw [this]; positivity

/-- Coggeshall 19: mass, momentum and total energy are conserved across the coded shock, for
every real geometry exponent, γ > 1, u₀ < 0, t > 0 (ρ₀ ≠ 0 and Γ ≠ 0 because the code divides
by the density and by 2Γ).  States = leaf expressions at r = X(t), which are the one-sided
limits of the returned fields (`cog19_conserves`). -/
theorem cog19_jump (p : Cog19.P) (t : ℝ) (hγ : 1 < p.gamma) (hu : p.u0 < 0) (ht : 0 < t)
    (hρ : p.rho0 ≠ 0) (hΓ : p.Gamma ≠ 0) :
    ShockJump (cog19Inner p) (cog19Outer p) (cog19Shock p) (cog19Speed p) t := by
  refine ⟨cog19_shock_hasDerivAt p t, ?_⟩
  have hx := (cog19_shock_pos p t hγ hu ht).ne'
  -- the generated leaves enter only through their documented closed forms (Lemmas/Bridge/Cog19.lean)
  simp only [RankineHugoniot, State.massFlux, State.momFlux, State.energyFlux, cog19Inner, cog19Outer, stateAt,
    EPV.Bridge.cog19_L0_density, EPV.Bridge.cog19_L0_velocity, EPV.Bridge.cog19_L0_pressure,
    EPV.Bridge.cog19_L0_sie p _ t hρ hγ hΓ, EPV.Bridge.cog19_L1_density p _ t hx, EPV.Bridge.cog19_L1_velocity,
    EPV.Bridge.cog19_L1_pressure, EPV.Bridge.cog19_L1_sie]
  obtain ⟨G, a_rad, al, be, cl, g, geo, lam, ρ0, u0⟩ := p
  simp only at hγ hu hρ hΓ
  obtain ⟨v, rfl⟩ : ∃ v, u0 = -v := ⟨-u0, by ring⟩
  have hv : 0 < v := by linarith
  have hA : 0 < (g + 1) / (g - 1) := div_pos (by linarith) (by linarith)
  have h1 : g - 1 ≠ 0 := by linarith
  simp only [cog19Shock, cog19Speed]
  rw [cog19_ratio v g t hv hγ ht, Real.rpow_add_one hA.ne' (geo - 1)]
  have hB : 0 < ((g + 1) / (g - 1)) ^ (geo - 1) := Real.rpow_pos_of_pos hA _
  generalize ((g + 1) / (g - 1)) ^ (geo - 1) = B at hB
  have hB' := hB.ne'
  refine ⟨?_, ?_, ?_⟩ <;> field_simp <;> ring

example : ∃ p : Cog19.P, ∃ t : ℝ, 1 < p.gamma ∧ p.u0 < 0 ∧ 0 < t ∧ p.rho0 ≠ 0 ∧ p.Gamma ≠ 0 :=
  ⟨⟨40, 1, 1, 1, 1, 7 / 5, 3, 1, 9 / 5, -23 / 10⟩, 1, by norm_num, by norm_num, by norm_num, by norm_num, by norm_num⟩

/-- Coggeshall 19, full statement on the returned (tree-level) fields -/
theorem cog19_conserves (p : Cog19.P) (t : ℝ) (hγ : 1 < p.gamma) (hu : p.u0 < 0) (ht : 0 < t)
    (hρ : p.rho0 ≠ 0) (hΓ : p.Gamma ≠ 0) :
    ConservesAcross (Cog19.density p) (Cog19.velocity p) (Cog19.pressure p)
      (Cog19.specific_internal_energy p) (cog19Shock p) t := by
  have hx := cog19_shock_pos p t hγ hu ht
  have hut : 0 < -p.u0 * t := mul_pos (by linarith) ht
  refine ConservesAcross.of_shockJump (D := cog19Speed p)
    (iρ := Cog19.L0.density p) (iu := Cog19.L0.velocity p) (ip := Cog19.L0.pressure p)
    (ie := Cog19.L0.specific_internal_energy p)
    (oρ := Cog19.L1.density p) (ou := Cog19.L1.velocity p) (op := Cog19.L1.pressure p)
    (oe := Cog19.L1.specific_internal_energy p) ?_ ?_ ?_ ?_ ?_ ?_ ?_ ?_ ?_ ?_ ?_ ?_ (cog19_jump p t hγ hu ht hρ hΓ)
  · intro r; simp only [Cog19.density, cog19_shock_coded]
  · intro r; simp only [Cog19.velocity, cog19_shock_coded]
  · intro r; simp only [Cog19.pressure, cog19_shock_coded]
  · intro r; simp only [Cog19.specific_internal_energy, cog19_shock_coded]
  · exact HasDerivAt.continuousAt (by epv_hydro_cert Cog19.L0.density_hasDerivAt_r p (cog19Shock p t) t)
  · exact HasDerivAt.continuousAt (by epv_hydro_cert Cog19.L0.velocity_hasDerivAt_r p (cog19Shock p t) t)
  · exact HasDerivAt.continuousAt (by epv_hydro_cert Cog19.L0.pressure_hasDerivAt_r p (cog19Shock p t) t)
  · exact HasDerivAt.continuousAt (by epv_hydro_cert Cog19.L0.specific_internal_energy_hasDerivAt_r p (cog19Shock p t) t)
  · exact HasDerivAt.continuousAt (by epv_hydro_cert Cog19.L1.density_hasDerivAt_r p (cog19Shock p t) t)
  · exact HasDerivAt.continuousAt (by epv_hydro_cert Cog19.L1.velocity_hasDerivAt_r p (cog19Shock p t) t)
  · exact HasDerivAt.continuousAt (by epv_hydro_cert Cog19.L1.pressure_hasDerivAt_r p (cog19Shock p t) t)
  · exact HasDerivAt.continuousAt (by epv_hydro_cert Cog19.L1.specific_internal_energy_hasDerivAt_r p (cog19Shock p t) t)

/-! ### Coggeshall 21 (spherical, γ = 5; the shock position is not linear in t) -/

theorem cog21_leaves : Cog21.okLeaves = [1, 2] ∧ Cog21.nLeaves = 3 := ⟨rfl, rfl⟩

/-- coded shock position of `Cog21._run`: `2 / (Gamma * temp0 * t**2)` -/
def cog21Shock (p : Cog21.P) (t : ℝ) : ℝ := 2 / (p.Gamma * p.temp0 * t ^ 2)

/-- for t > 0 the solver does not take the NaN branch, and the remaining path condition is
`r < cog21Shock p t` -/
theorem cog21_shock_coded (p : Cog21.P) (r t : ℝ) : Cog21.c1 p r t ↔ r < cog21Shock p t := by
  unfold cog21Shock
  exact EPV.Bridge.cog21_c1_iff p r t

theorem cog21_not_nan (p : Cog21.P) (r t : ℝ) (ht : 0 < t) : ¬ Cog21.c0 p r t := by
  rw [EPV.Bridge.cog21_c0_iff]; linarith

/-- shock speed implied by the coded position: d/dt [2/(Γ T₀ t²)] = -4/(Γ T₀ t³) -/
def cog21Speed (p : Cog21.P) (t : ℝ) : ℝ := -4 / (p.Gamma * p.temp0 * t ^ 3)

theorem cog21_shock_hasDerivAt (p : Cog21.P) (t : ℝ) (ht : 0 < t) (hG : p.Gamma * p.temp0 ≠ 0) :
    HasDerivAt (cog21Shock p) (cog21Speed p t) t := by
  unfold cog21Shock cog21Speed
  have hden : p.Gamma * p.temp0 * t ^ 2 ≠ 0 := mul_ne_zero hG (pow_ne_zero _ ht.ne')
  have h := EPV.D.div (hasDerivAt_const t (2 : ℝ))
    (EPV.D.const_mul (p.Gamma * p.temp0) (EPV.D.pow (hasDerivAt_id' t) 2 1 2 rfl (by norm_num))) hden
  refine h.congr_deriv ?_
  have := ht.ne'
  field_simp
  ring

def cog21Inner (p : Cog21.P) : ℝ → ℝ → State :=
  stateAt (Cog21.L1.density p) (Cog21.L1.velocity p) (Cog21.L1.pressure p) (Cog21.L1.specific_internal_energy p)
def cog21Outer (p : Cog21.P) : ℝ → ℝ → State :=
  stateAt (Cog21.L2.density p) (Cog21.L2.velocity p) (Cog21.L2.pressure p) (Cog21.L2.specific_internal_energy p)

/-- Coggeshall 21: mass, momentum and total energy are conserved across the coded shock
R(t) = 2/(Γ T₀ t²), t > 0, Γ T₀ ≠ 0, ρ₀ ≠ 0, with D = R'(t).  States = leaf expressions at
r = R(t), which are the one-sided limits of the returned fields (`cog21_conserves`). -/
theorem cog21_jump (p : Cog21.P) (t : ℝ) (ht : 0 < t) (hG : p.Gamma * p.temp0 ≠ 0) (hρ : p.rho0 ≠ 0) :
    ShockJump (cog21Inner p) (cog21Outer p) (cog21Shock p) (cog21Speed p t) t := by
  refine ⟨cog21_shock_hasDerivAt p t ht hG, ?_⟩
  have hx : cog21Shock p t ≠ 0 := by
    unfold cog21Shock
    exact div_ne_zero two_ne_zero (mul_ne_zero hG (pow_ne_zero _ ht.ne'))
  -- the generated leaves enter only through their documented closed forms (Lemmas/Bridge/Cog21.lean)
  simp only [RankineHugoniot, State.massFlux, State.momFlux, State.energyFlux, cog21Inner, cog21Outer, stateAt,
    EPV.Bridge.cog21_post_density, EPV.Bridge.cog21_post_velocity, EPV.Bridge.cog21_post_pressure,
    EPV.Bridge.cog21_post_sie p _ t hρ hx, EPV.Bridge.cog21_pre_density, EPV.Bridge.cog21_pre_velocity,
    EPV.Bridge.cog21_pre_pressure, EPV.Bridge.cog21_pre_sie]
  obtain ⟨G, a_rad, al, be, cl, lam, ρ0, T0⟩ := p
  simp only at hG hρ
  have hG1 : G ≠ 0 := left_ne_zero_of_mul hG
  have hT : T0 ≠ 0 := right_ne_zero_of_mul hG
  have ht' := ht.ne'
  simp only [cog21Shock, cog21Speed]
  refine ⟨?_, ?_, ?_⟩ <;> field_simp <;> ring

example : ∃ p : Cog21.P, ∃ t : ℝ, 0 < t ∧ p.Gamma * p.temp0 ≠ 0 ∧ p.rho0 ≠ 0 :=
  ⟨⟨400, 1, 1, 1, 1, 1, 9 / 5, 29 / 10⟩, 1, by norm_num, by norm_num, by norm_num⟩

/-- Coggeshall 21, full statement on the returned (tree-level) fields -/
theorem cog21_conserves (p : Cog21.P) (t : ℝ) (ht : 0 < t) (hG : p.Gamma * p.temp0 ≠ 0) (hρ : p.rho0 ≠ 0) :
    ConservesAcross (Cog21.density p) (Cog21.velocity p) (Cog21.pressure p)
      (Cog21.specific_internal_energy p) (cog21Shock p) t := by
  have hx : cog21Shock p t ≠ 0 := by
    unfold cog21Shock
    exact div_ne_zero two_ne_zero (mul_ne_zero hG (pow_ne_zero _ ht.ne'))
  have hn := fun r => cog21_not_nan p r t ht
  refine ConservesAcross.of_shockJump (D := cog21Speed p t)
    (iρ := Cog21.L1.density p) (iu := Cog21.L1.velocity p) (ip := Cog21.L1.pressure p)
    (ie := Cog21.L1.specific_internal_energy p)
    (oρ := Cog21.L2.density p) (ou := Cog21.L2.velocity p) (op := Cog21.L2.pressure p)
    (oe := Cog21.L2.specific_internal_energy p) ?_ ?_ ?_ ?_ ?_ ?_ ?_ ?_ ?_ ?_ ?_ ?_ (cog21_jump p t ht hG hρ)
  · intro r; simp only [Cog21.density, cog21_shock_coded, hn r, if_false]
  · intro r; simp only [Cog21.velocity, cog21_shock_coded, hn r, if_false]
  · intro r; simp only [Cog21.pressure, cog21_shock_coded, hn r, if_false]
  · intro r; simp only [Cog21.specific_internal_energy, cog21_shock_coded, hn r, if_false]
  · exact HasDerivAt.continuousAt (by epv_hydro_cert Cog21.L1.density_hasDerivAt_r p (cog21Shock p t) t)
  · exact HasDerivAt.continuousAt (by epv_hydro_cert Cog21.L1.velocity_hasDerivAt_r p (cog21Shock p t) t)
  · exact HasDerivAt.continuousAt (by epv_hydro_cert Cog21.L1.pressure_hasDerivAt_r p (cog21Shock p t) t)
  · exact HasDerivAt.continuousAt (by epv_hydro_cert Cog21.L1.specific_internal_energy_hasDerivAt_r p (cog21Shock p t) t)
  · exact HasDerivAt.continuousAt (by epv_hydro_cert Cog21.L2.density_hasDerivAt_r p (cog21Shock p t) t)
  · exact HasDerivAt.continuousAt (by epv_hydro_cert Cog21.L2.velocity_hasDerivAt_r p (cog21Shock p t) t)
  · exact HasDerivAt.continuousAt (by epv_hydro_cert Cog21.L2.pressure_hasDerivAt_r p (cog21Shock p t) t)
  · exact HasDerivAt.continuousAt (by epv_hydro_cert Cog21.L2.specific_internal_energy_hasDerivAt_r p (cog21Shock p t) t)

end

end EPV.C02
