/-
C02 — FINDING: `NohBlackBoxEos` solves the jump conditions for `initial_conditions` but assembles the unshocked
state from its own attributes `rho0`, `u0`, `p0` (class defaults 1, -1, 0; `p0` is not even a parameter).  Unless
the caller passes the same numbers twice, the returned fields violate Rankine–Hugoniot at the returned shock.

Witness: `PlanarNohBlackBox(ideal_gas_eos(5/3), {'density': 2, 'velocity': -1, 'pressure': 0})`.  The exact root of
the residual for this initial state is (ρ, e, D) = (8, 1/2, 1/3) (`initial_state_witness_is_root`), the solver
returns it behind the shock — and (density, velocity, pressure, sie) = (1, -1, 0, 0) ahead of it:
mass flux -8/3 behind, -4/3 ahead (oracle `o_c16.bb_initial_state`).
-/
import EPV.Props.C02.BBNohFields

set_option linter.all false

open EPV EPV.Gen EPV.Spec

namespace EPV.C02

/-- (8, 1/2, 1/3) is an exact root of `pressure_noh_residual.F` for ρ₀ = 2, u₀ = -1, P₀ = 0, planar, γ = 5/3 -/
theorem initial_state_witness_is_root :
    ∀ i, C16.PressureS0.F (C16.idealEOS (5 / 3)) ⟨2, -1, 0⟩ 8 (1 / 2) (1 / 3) i = 0 := by
  intro i
  fin_cases i <;>
    simp only [C16.PressureS0.F, C16.idealEOS, epv_c16, epv_tree, epv_cond, epv_leaf, Matrix.cons_val, Fin.zero_eta,
      Fin.mk_one, Fin.reduceFinMk] <;> norm_num

/-- with the solver's own `rho0 = 1` (default) the returned fields do not conserve mass across the returned shock -/
theorem bbnoh_initial_state_finding (t : ℝ) :
    let p : BBNohIdeal.P := { gamma := 5 / 3, p0 := 0, rho0 := 1, symmetry := 0, u0 := -1, x0 := 8, x1 := 1 / 2, x2 := 1 / 3 }
    ¬ RankineHugoniot (bbInner p (p.x2 * t) t) (bbOuter p (p.x2 * t) t) p.x2 := by
  intro p
  rintro ⟨hmass, -, -⟩
  simp only [p, bbInner, bbOuter, State.massFlux, epv_leaf, Real.rpow_zero] at hmass
  norm_num at hmass

end EPV.C02
