/-
C02 — RMTV: the coded isothermal-shock jump (timmes.py `rmtv_1d`, "equation 15 of kamm 2000";
model RmtvJump, traced from the real function on the shocked branch) conserves mass and momentum
and keeps the temperature, in the frame of the shock — the documented form of the jump
conditions for this heat-conducting flow ("energy replaced by [T] = 0").

Similarity variables (Kamm 2000 Eqs. 2, 5, as `rmtv_1d` dimensionalises them):

    u = (α r / t) U ,   ρ = g₀ r^κ ξ^σ H ,   P/ρ = (α r / t)² T ,   shock at ξ = const ⇒ D = α r / t

so in units of D the material crosses the shock with velocity U - 1, and with the common positive
prefactors removed

    mass flux      H (U - 1)
    momentum flux  H (U - 1)² + H T
    temperature    T
    energy flux    H (U - 1) (T/(γ-1) + (U - 1)²/2) + H T (U - 1) + H T W     (W = scaled heat flux)

* `rmtv_jump_mass`, `rmtv_jump_momentum`, `rmtv_jump_isothermal` : these are equal on the two
  sides of the coded jump for ALL upstream values with U₂ ≠ 1, T₂ ≠ 0.
* `rmtv_jump_energy` : with the heat flux q = H T W the total energy flux is continuous as well —
  this is what the coded formula for W₁ expresses (the jump in kinetic energy is carried off by
  conduction).
* `rmtv_jump_compressive` : for a supersonic upstream state in the isothermal sense,
  (1 - U₂)² > T₂ > 0, H₂ > 0, the density rises: H₁ > H₂ (C17 share).

* FINDING `finding_rmtv_xis_ignored` : the parameter `xis` ('dimensionless position of the shock
  front') does not position the shock.  `rmtv_1d` applies the jump where `rpos <= rs` with
  `rs = zeta * 1.0 * abs(time)**alpha` — the literal 1.0 stands where Timmes' Fortran has `xis` — so
  the traced switch condition (c2 of RmtvRun) does not depend on `xis`, while the end of the
  pre-shock integration (`max(xis, xiwant)`, condition c1) does.  For xis ≠ 1 the returned fields
  jump at ξ = 1, not at ξ = xis (oracle `rmtv_xis`), and between the two they are the jump of the
  un-shocked solution, not a solution.  (Default xis = 1: no effect.)

Partial: the shock position ξ_s and the integrations are atoms; the statement is about the
similarity variables handed from the pre-shock to the post-shock integration, which
`rmtv_1d` dimensionalises with the same positive prefactors on both sides (RmtvRun).
-/
import EPV.Gen.RmtvJump
import EPV.Gen.RmtvRun
import EPV.Tactics
import EPV.Lemmas.Bridge.SemiGud

set_option linter.all false

open EPV EPV.Gen

namespace EPV.C02

/-- mass flux through the shock in similarity variables -/
def rmtvMassFlux (H U : ℝ) : ℝ := H * (U - 1)
/-- momentum flux -/
def rmtvMomFlux (H U T : ℝ) : ℝ := H * (U - 1) ^ 2 + H * T
/-- total energy flux including the conductive flux H T W -/
noncomputable def rmtvEnergyFlux (γ H U T W : ℝ) : ℝ :=
  H * (U - 1) * (T / (γ - 1) + (U - 1) ^ 2 / 2) + H * T * (U - 1) + H * T * W

theorem rmtv_jump_leaves : RmtvJump.okLeaves = [0] := rfl

theorem rmtv_jump_mass (p : RmtvJump.P) (hU : 1 - p.U2 ≠ 0) (hT : p.T2 ≠ 0) :
    rmtvMassFlux (RmtvJump.H1 p) (RmtvJump.U1 p) = rmtvMassFlux p.H2 p.U2 := by
  simp only [rmtvMassFlux, Bridge.SemiGud.rmtv_H1, Bridge.SemiGud.rmtv_U1]
  field_simp
  ring

theorem rmtv_jump_momentum (p : RmtvJump.P) (hU : 1 - p.U2 ≠ 0) (hT : p.T2 ≠ 0) :
    rmtvMomFlux (RmtvJump.H1 p) (RmtvJump.U1 p) (RmtvJump.T1 p) = rmtvMomFlux p.H2 p.U2 p.T2 := by
  simp only [rmtvMomFlux, Bridge.SemiGud.rmtv_H1, Bridge.SemiGud.rmtv_U1, Bridge.SemiGud.rmtv_T1]
  field_simp
  ring

theorem rmtv_jump_isothermal (p : RmtvJump.P) : RmtvJump.T1 p = p.T2 :=
  Bridge.SemiGud.rmtv_T1 p

theorem rmtv_jump_energy (γ : ℝ) (p : RmtvJump.P) (hU : 1 - p.U2 ≠ 0) (hT : p.T2 ≠ 0) (hg : γ - 1 ≠ 0) :
    rmtvEnergyFlux γ (RmtvJump.H1 p) (RmtvJump.U1 p) (RmtvJump.T1 p) (RmtvJump.W1 p)
      = rmtvEnergyFlux γ p.H2 p.U2 p.T2 p.W2 := by
  simp only [rmtvEnergyFlux, Bridge.SemiGud.rmtv_H1, Bridge.SemiGud.rmtv_U1, Bridge.SemiGud.rmtv_T1,
    Bridge.SemiGud.rmtv_W1]
  field_simp
  ring

/-- **C02, RMTV isothermal shock (partial: ξ_s and the integrations are atoms; statement in the
similarity variables that `rmtv_1d` dimensionalises with common prefactors on both sides).** -/
theorem rmtv_isothermal_shock_partial (γ : ℝ) (p : RmtvJump.P) (hU : 1 - p.U2 ≠ 0) (hT : p.T2 ≠ 0) (hg : γ - 1 ≠ 0) :
    rmtvMassFlux (RmtvJump.H1 p) (RmtvJump.U1 p) = rmtvMassFlux p.H2 p.U2
    ∧ rmtvMomFlux (RmtvJump.H1 p) (RmtvJump.U1 p) (RmtvJump.T1 p) = rmtvMomFlux p.H2 p.U2 p.T2
    ∧ RmtvJump.T1 p = p.T2
    ∧ rmtvEnergyFlux γ (RmtvJump.H1 p) (RmtvJump.U1 p) (RmtvJump.T1 p) (RmtvJump.W1 p)
        = rmtvEnergyFlux γ p.H2 p.U2 p.T2 p.W2 :=
  ⟨rmtv_jump_mass p hU hT, rmtv_jump_momentum p hU hT, rmtv_jump_isothermal p, rmtv_jump_energy γ p hU hT hg⟩

/-- the isothermal shock is compressive when the upstream flow is isothermally supersonic -/
theorem rmtv_jump_compressive (p : RmtvJump.P) (hT : 0 < p.T2) (hM : p.T2 < (1 - p.U2) ^ 2) (hH : 0 < p.H2) :
    p.H2 < RmtvJump.H1 p := by
  rw [Bridge.SemiGud.rmtv_H1]
  have h1 : 1 < (1 - p.U2) ^ 2 / p.T2 := by rw [lt_div_iff₀ hT]; linarith
  nlinarith

/-- **Finding.**  Where `rmtv_1d` switches to the shocked branch does not depend on `xis`;
where it stops the pre-shock integration does. -/
theorem finding_rmtv_xis_ignored :
    (∀ (p : RmtvRun.P) (y : ℝ), RmtvRun.c2 { p with xis := y } ↔ RmtvRun.c2 p)
    ∧ ∃ (p : RmtvRun.P) (y : ℝ), ¬ (RmtvRun.c1 { p with xis := y } ↔ RmtvRun.c1 p) := by
  constructor
  · intro p y
    simp only [epv_cond]
  · -- c1 is `xis < xiwant`; with every scale set to 1 the coordinate is xiwant = rpos / 3^(-1/3) … any value
    -- strictly between two choices of xis separates them.  Parameters: a = 0, b = 1, so alpha = 3/5.
    refine ⟨{ H := 1, H2 := 1, T := 1, T2 := 1, U := 0, U2 := 0, ans := 0, aval_in := 0, beta0_in := 2, bigamma := 1,
              bval_in := 1, chi0 := 1, g0 := 1, gamma := 5 / 4, rf := 1, rpos := 0, xif_in := 1, xis := -1 }, 1, ?_⟩
    simp only [epv_cond]
    norm_num

/-- non-vacuity -/
example : ∃ p : RmtvJump.P, 1 - p.U2 ≠ 0 ∧ 0 < p.T2 ∧ p.T2 < (1 - p.U2) ^ 2 ∧ 0 < p.H2 :=
  ⟨⟨1, 1 / 10, 1 / 5, 1⟩, by norm_num, by norm_num, by norm_num, by norm_num⟩

end EPV.C02
