/-
C15 / C20 — FINDING: pair (lame_mod, poisson_ratio) with poisson_ratio = 0.

The property allows exactly two outcomes of a construction: six consistent parameters, or `ValueError`.
For the pair (λ, ν), `set_elastic_params` (prmcase 2) evaluates

    ns['pe'] = ns['plda']*(1 + ns['pnu'])*(1 - 2 * ns['pnu'])/ns['pnu']
    ns['pg'] = ns['plda']*(1 - 2 * ns['pnu']) / (2*ns['pnu'])

*before* its positive-definiteness test `check_ii`, and the only tests that precede these divisions —
"given moduli are positive" and "-1.0 < pnu < 0.5" — allow ν = 0.  So for every λ > 0 and ν = 0 the
traced path passes all preceding checks and reaches a division whose denominator is zero: Python raises
`ZeroDivisionError`, which is neither of the two allowed outcomes (no material has λ > 0 and ν = 0, so
the pair ought to be rejected with `ValueError`).  Reproduced on the real code by the oracle site
`Blake:zero_division` (`Blake(lame_mod=1e9, poisson_ratio=0.0)` → ZeroDivisionError).

(In exact real arithmetic with Lean's convention x/0 = 0 the model takes the `raise ValueError` branch of
`check_ii`; that is why `modLNu_raise` carries the hypothesis ν ≠ 0.)
-/
import EPV.Gen.BlakeModLNu
import EPV.Tactics

set_option linter.all false

open EPV EPV.Gen

namespace EPV.C15

/-- the leaf the statements below name -/
theorem modLNu_leaves : BlakeModLNu.okLeaves = [1] := rfl

/-- for every λ > 0 the input (λ, ν = 0) passes every check made before the first division
(`c0`: λ ≤ 0 is false; `c1`, `c2`: -1 < ν < 1/2 hold), and the divisions on that path are not
well defined (denominator `pnu` = 0) -/
theorem finding_modLNu_division_by_zero_all (lam : ℝ) (hl : 0 < lam) :
    let p : BlakeModLNu.P := { lame_mod := lam, poisson_ratio := 0 }
    ¬ BlakeModLNu.c0 p ∧ BlakeModLNu.c1 p ∧ BlakeModLNu.c2 p ∧ ¬ BlakeModLNu.L1.WellDefined p := by
  intro p
  refine ⟨?_, ?_, ?_, ?_⟩
  · simp only [epv_cond]; show ¬ lam ≤ 0; linarith
  · simp only [epv_cond]; show (-1 : ℝ) < 0; norm_num
  · simp only [epv_cond]; show (0 : ℝ) < 1 / 2; norm_num
  · unfold BlakeModLNu.L1.WellDefined
    intro h
    exact h.2 rfl

/-- concrete witness: `lame_mod = 1, poisson_ratio = 0` -/
theorem finding_modLNu_division_by_zero :
    let p : BlakeModLNu.P := { lame_mod := 1, poisson_ratio := 0 }
    ¬ BlakeModLNu.c0 p ∧ BlakeModLNu.c1 p ∧ BlakeModLNu.c2 p ∧ ¬ BlakeModLNu.L1.WellDefined p :=
  finding_modLNu_division_by_zero_all 1 one_pos

end EPV.C15
